/-
C06 (extension) — property theorems about `NipyVerif.Model.C06B`: contrast objects with their
whole constructor state (type, tiny, dofmax), operation histories, the GLM contrast factories,
the degrees-of-freedom cap, Benjamini–Hochberg on unsorted vectors, the empirical-null curve.
Only property statements and non-vacuity examples live here.
-/
import NipyVerif.Props.C06
import NipyVerif.Lemmas.C06B
import NipyVerif.Gen.C06Consts

namespace NipyVerif.C06
open Matrix

/-! ## `+` and scalar `*` on the full state -/

/-- "Adding independent contrasts adds effects, variances and degrees of freedom" on the full
    state, for both classes: the sum keeps the left operand's type **and its `tiny` / `dofmax`**;
    the fmri class refuses exactly the sums of different types, the labs class none. -/
theorem add_keeps_settings {q : Nat} (impl : Impl) (a b : Obj q) :
    ((impl = Impl.fmri ∧ a.ctype ≠ b.ctype) → a.add impl b = .error "error:valueError") ∧
    (¬ (impl = Impl.fmri ∧ a.ctype ≠ b.ctype) → ∃ c, a.add impl b = .ok c ∧
        c.tiny = a.tiny ∧ c.dofmax = a.dofmax ∧ c.ctype = a.ctype ∧ c.dof = a.dof + b.dof ∧
        (∀ i, c.effect i = a.effect i + b.effect i) ∧
        (∀ i j, c.variance i j = a.variance i j + b.variance i j)) := by
  constructor
  · intro h; simp [Obj.add, h]
  · intro h
    exact ⟨{ effect := fun i => a.effect i + b.effect i
             variance := fun i j => a.variance i j + b.variance i j
             dof := a.dof + b.dof, ctype := a.ctype, tiny := a.tiny, dofmax := a.dofmax },
      by simp only [Obj.add, if_neg h], rfl, rfl, rfl, rfl, fun _ => rfl, fun _ _ => rfl⟩

/-- `k * c` / `c * k`: effect `k e`, variance `k² V`; degrees of freedom, type, `tiny` and
    `dofmax` are those of `c`. -/
theorem smul_keeps_settings {q : Nat} (k : Rat) (c : Obj q) :
    (c.smul k).tiny = c.tiny ∧ (c.smul k).dofmax = c.dofmax ∧ (c.smul k).ctype = c.ctype ∧
    (c.smul k).dof = c.dof ∧ (∀ i, (c.smul k).effect i = c.effect i * k) ∧
    (∀ i j, (c.smul k).variance i j = c.variance i j * k ^ 2) :=
  ⟨rfl, rfl, rfl, rfl, fun _ => rfl, fun _ _ => rfl⟩

/-- `s` holds the square roots the statistic of `c` uses: `s i = sqrt(max(V_ii, tiny))` -/
def IsSqrtVec {q : Nat} (c : Obj q) (s : Vec q) : Prop :=
  ∀ i, 0 ≤ s i ∧ s i * s i = clampVar (c.variance i i) c.tiny

/-- the p-value of an object for a given statistic: tail and degrees of freedom from the
    object's own type, dimension, dof and **dofmax** -/
def Obj.pOf {q : Nat} (sfT : Rat → Rat → Rat) (sfF : Rat → Rat → Rat → Rat) (c : Obj q)
    (stat : Except String Rat) : Except String Rat :=
  match stat with
  | .error e => .error e
  | .ok x => (pCall c.ctype q c.dof c.dofmax).map fun call => pValue sfT sfF call (some x)

/-- … and its z-score -/
def Obj.zOf {q : Nat} (sfT : Rat → Rat → Rat) (sfF : Rat → Rat → Rat → Rat) (isf : Rat → Rat)
    (c : Obj q) (stat : Except String Rat) : Except String Rat :=
  (c.pOf sfT sfF stat).map (zScore isf)

/-- "scaling a contrast by a positive factor leaves its t, p and z unchanged" — for **every**
    object state: all three types, any dimension, any `tiny > 0` and any `dofmax`, any degrees of
    freedom, any baseline (scaled alike), for every choice of tails.  `s`, `s'` are the square
    roots, `W`, `W'` the inverses the two statistics use; the variances sit at or above the clamp. -/
theorem rmul_pos_invariant_full {q : Nat} (c : Obj q) (k b : Rat) (hk : 0 < k) (htiny : 0 < c.tiny)
    (s s' : Vec q) (W W' : Mat q q)
    (hs : IsSqrtVec c s) (hs' : IsSqrtVec (c.smul k) s')
    (hclamp : ∀ i, c.tiny ≤ c.variance i i ∧ c.tiny ≤ c.variance i i * k ^ 2)
    (hW : mmul W c.variance = one q) (hW' : mmul W' (c.smul k).variance = one q)
    (sfT : Rat → Rat → Rat) (sfF : Rat → Rat → Rat → Rat) (isf : Rat → Rat) :
    (c.smul k).toCon.stat (k * b) s' W' = c.toCon.stat b s W ∧
    (c.smul k).pOf sfT sfF ((c.smul k).toCon.stat (k * b) s' W') = c.pOf sfT sfF (c.toCon.stat b s W) ∧
    (c.smul k).zOf sfT sfF isf ((c.smul k).toCon.stat (k * b) s' W')
      = c.zOf sfT sfF isf (c.toCon.stat b s W) := by
  have hone : ∀ i, statOne ((c.smul k).effect i) (k * b) (s' i) = statOne (c.effect i) b (s i) := by
    intro i
    have := contrast_smul_pos_t (c.effect i) (c.variance i i) b k c.tiny (s i) (s' i) hk htiny
      (hclamp i).1 (hclamp i).2 (hs i).1 (hs i).2 (hs' i).1 (hs' i).2
    rw [← this]
    show statOne (c.effect i * k) (k * b) (s' i) = statOne (c.effect i * k) (b * k) (s' i)
    rw [mul_comm k b]
  have hstat : (c.smul k).toCon.stat (k * b) s' W' = c.toCon.stat b s W := by
    unfold Con.stat
    by_cases hq : q = 1
    · simp only [dif_pos hq]
      rw [hone]
      rfl
    · simp only [dif_neg hq]
      show (match c.ctype with
        | .F => Except.ok (statMaha W' (c.smul k).effect (k * b))
        | .tmin => match statTmin (c.smul k).effect (k * b) s' with
            | some m => Except.ok m
            | none => Except.error "error:valueError"
        | _ => Except.error "error:valueError") = _
      cases hty : c.ctype with
      | F =>
          simp only
          congr 1
          unfold statMaha
          congr 1
          have hu : (fun i => (c.smul k).effect i - k * b) = k • (fun i => c.effect i - b) := by
            funext i; show c.effect i * k - k * b = k * (c.effect i - b); ring
          rw [hu, dotv_eq, dotv_eq, mulVec_eq, mulVec_eq]
          rw [mmul_eq, one_eq] at hW hW'
          have hV : toM (c.smul k).variance = (k ^ 2) • toM c.variance := by
            funext i j; show c.variance i j * k ^ 2 = k ^ 2 * c.variance i j; ring
          rw [hV, Matrix.mul_smul, ← Matrix.smul_mul] at hW'
          have hWW : (k ^ 2) • toM W' = toM W := left_inv_unique _ _ _ hW' hW
          rw [Matrix.mulVec_smul, smul_dotProduct, dotProduct_smul, ← hWW, Matrix.smul_mulVec,
            smul_dotProduct]
          simp only [smul_eq_mul]
          ring
      | tmin =>
          simp only
          have : statTmin (c.smul k).effect (k * b) s' = statTmin c.effect b s := by
            unfold statTmin
            congr 1
            exact congrArg List.ofFn (funext hone)
          exact congrArg (fun o : Option Rat => match o with
            | some m => (Except.ok m : Except String Rat)
            | none => Except.error "error:valueError") this
      | t => rfl
      | other => rfl
  refine ⟨hstat, ?_, ?_⟩
  · rw [hstat]; rfl
  · rw [hstat]; rfl

/-! ## operation histories -/

section hist
variable {q : Nat} {σ π ζ : Type} (S : Obj q → Rat → σ) (P : Obj q → σ → π) (Z : π → ζ)

/-- `cache_coherent` on the full state: in **any** history of `stat / p_value / z_score` calls,
    `+`, scalar `*` and `__div__` (either class), every call returns what a freshly built object with the
    current effect, variance, dof, type, `tiny` and `dofmax` returns for the requested baseline,
    and every `+` / `*` yields the object the pure operations yield. -/
theorem history_coherent (impl : Impl) (ops : List (HOp q)) (c : Obj q) :
    runHist S P Z impl ops ⟨c, Cache.init⟩ = denote S P Z impl ops c := by
  suffices h : ∀ (c : Obj q) (st : Cache σ π), Coherent (S c) (P c) st →
      runHist S P Z impl ops ⟨c, st⟩ = denote S P Z impl ops c by
    exact h c _ ⟨by simp [Cache.init], by simp [Cache.init]⟩
  have hinit : ∀ c : Obj q, Coherent (S c) (P c) (Cache.init : Cache σ π) :=
    fun c => ⟨by simp [Cache.init], by simp [Cache.init]⟩
  induction ops with
  | nil => intro c st _; rfl
  | cons op rest ih =>
      intro c st hst
      cases op with
      | call o b =>
          obtain ⟨h1, h2⟩ := step_fresh (S c) (P c) Z o b st hst
          simp only [runHist, denote, h1, ih c _ h2]
      | add x =>
          simp only [runHist, denote]
          cases hadd : c.add impl x with
          | ok c' => simp only [ih c' _ (hinit c')]
          | error e => simp only [ih c st hst]
      | addDim ty =>
          cases impl with
          | fmri => simp only [runHist, denote, ih c st hst]
          | labs => simp only [runHist, denote]
      | smul k =>
          simp only [runHist, denote, ih (c.smul k) _ (hinit (c.smul k))]
      | div k r =>
          simp only [runHist, denote]
          cases hdiv : c.div k r with
          | ok c' => simp only [ih c' _ (hinit c')]
          | error e => simp only [ih c st hst]
end hist

/-- the driver's history function is an instance: what it prints for a history is the pure
    denotation with the executable statistic and the symbolic tails -/
theorem execHist_eq_denote {q : Nat} (impl : Impl) (ops : List (HOp q)) (c : Obj q) :
    execHist impl ops c
      = denote (fun o b => o.statExec b) (fun o s => o.pTerm s) (fun p => p) impl ops c :=
  history_coherent _ _ _ impl ops c

/-- `Contrast.__init__` accepts exactly the shapes `(q, q, n)` / `(q, n)` -/
theorem ctor_accepts_iff (vshape eshape : List Nat) :
    ctorRefuses vshape eshape = false ↔
      ∃ q n, vshape = [q, q, n] ∧ eshape = [q, n] := by
  constructor
  · intro h
    simp only [ctorRefuses, Bool.or_eq_false_iff, bne_eq_false_iff_eq] at h
    obtain ⟨⟨⟨⟨h1, h2⟩, h3⟩, h4⟩, h5⟩ := h
    match vshape, eshape, h1, h2 with
    | [a, b, c], [d, e], _, _ =>
        simp only [List.getD_cons_zero, List.getD_cons_succ] at h3 h4 h5
        exact ⟨a, c, by rw [← h3], by rw [← h4, ← h5, ← h3]⟩
  · rintro ⟨q, n, rfl, rfl⟩
    simp [ctorRefuses]

/-! ## the executable statistic refines the specification -/

/-- the symbolic statistic of the driver is `Con.stat`: a rational answer is the statistic for the
    checked inverse; a `root num den2` answer is `num / r` for the square root `r` of `den2` that
    `s` supplies.  (`tiny > 0`, so every clamped variance is positive.) -/
theorem statExec_refines {q : Nat} (c : Obj q) (b : Rat) (s : Vec q) (htiny : 0 < c.tiny)
    (hs : IsSqrtVec c s) :
    (∀ x, c.statExec b = .ok (.rat x) →
      ∃ W, (1 < q → c.ctype = CType.F → mmul W c.variance = one q) ∧ c.toCon.stat b s W = .ok x) ∧
    (∀ n d, c.statExec b = .ok (.root n d) →
      ∃ r, 0 < r ∧ r * r = d ∧ ∀ W, c.toCon.stat b s W = .ok (n / r)) := by
  have hspos : ∀ i, 0 < s i := by
    intro i
    rcases eq_or_lt_of_le (hs i).1 with h | h
    · have h2 := (hs i).2
      rw [← h, mul_zero] at h2
      have : c.tiny ≤ clampVar (c.variance i i) c.tiny := le_max_right _ _
      linarith
    · exact h
  unfold Obj.statExec Con.stat
  by_cases hq : q = 1
  · simp only [dif_pos hq]
    have h2 : s ⟨0, by omega⟩ * s ⟨0, by omega⟩
        = clampVar (c.variance ⟨0, by omega⟩ ⟨0, by omega⟩) c.tiny := (hs _).2
    have hp := hspos ⟨0, by omega⟩
    constructor
    · intro x hx
      refine ⟨one q, fun h => absurd h (by omega), ?_⟩
      by_cases hF : c.ctype = CType.F
      · simp only [hF, if_true, Except.ok.injEq, SVal.rat.injEq] at hx ⊢
        rw [← hx]
        unfold statOne Obj.comp
        simp only
        rw [← h2]
        have := ne_of_gt hp
        field_simp
      · simp [hF] at hx
    · intro n d hx
      by_cases hF : c.ctype = CType.F
      · simp [hF] at hx
      · simp only [hF, if_false, Except.ok.injEq, SVal.root.injEq] at hx ⊢
        obtain ⟨h1, h3⟩ := hx
        refine ⟨s ⟨0, by omega⟩, hp, ?_, fun W => ?_⟩
        · rw [← h3]; exact h2
        · rw [← h1]; rfl
  · simp only [dif_neg hq]
    cases hty : c.ctype with
    | F =>
        simp only
        cases hinv : invMat c.variance with
        | none => simp
        | some W =>
            simp only [Except.ok.injEq, SVal.rat.injEq, reduceCtorEq, false_imp_iff, implies_true,
              and_true]
            intro x hx
            exact ⟨W, fun _ _ => invMat_sound _ _ hinv, by rw [hx]⟩
    | tmin =>
        simp only
        cases hpick : tminPick (List.ofFn (c.comp b)) with
        | none => simp
        | some m =>
            simp only [Except.ok.injEq, reduceCtorEq, false_imp_iff, implies_true, true_and,
              SVal.root.injEq]
            intro n d hnd
            obtain ⟨hn, hd⟩ := hnd
            -- a square-root assignment on the clamped variances that agrees with `s`
            have hmem : m ∈ List.ofFn (c.comp b) := by
              cases hl : List.ofFn (c.comp b) with
              | nil => rw [hl] at hpick; simp [tminPick] at hpick
              | cons x xs =>
                  rw [hl] at hpick
                  simp only [tminPick, Option.some.injEq] at hpick
                  have hx : ∀ y ∈ x :: xs, ∃ i, c.comp b i = y := by
                    intro y hy; rw [← hl] at hy; exact (List.mem_ofFn' _ _).mp hy
                  -- membership by the fold's structure: foldl of rootMin returns an element
                  have : ∀ (zs : List (Rat × Rat)) (z : Rat × Rat), zs.foldl rootMin z ∈ z :: zs := by
                    intro zs
                    induction zs with
                    | nil => intro z; simp
                    | cons w ws ihw =>
                        intro z
                        simp only [List.foldl_cons]
                        have := ihw (rootMin z w)
                        rcases List.mem_cons.mp this with e | e
                        · rw [e]; unfold rootMin; split <;> simp
                        · simp [e]
                  rw [← hpick]; exact this xs x
            obtain ⟨i0, hi0⟩ := (List.mem_ofFn' _ _).mp hmem
            -- all components, as values under `s`
            have hval : ∀ i, statOne (c.effect i) b (s i) = (c.comp b i).1 / s i := fun i => rfl
            -- the picked component is minimal: compare through `rootLe_sound` with the roots `s`
            have hminimal : ∀ j, (c.comp b i0).1 / s i0 ≤ (c.comp b j).1 / s j := by
              -- square-root assignment as a function of the denominator value
              classical
              let r : Rat → Rat := fun d =>
                if h : ∃ i, (c.comp b i).2 = d then s (Classical.choose h) else 1
              have hr : ∀ i, 0 < r (c.comp b i).2 ∧ r (c.comp b i).2 * r (c.comp b i).2 = (c.comp b i).2 := by
                intro i
                have hex : ∃ j, (c.comp b j).2 = (c.comp b i).2 := ⟨i, rfl⟩
                have hch := Classical.choose_spec hex
                simp only [r, dif_pos hex]
                refine ⟨hspos _, ?_⟩
                rw [(hs _).2]; exact hch
              have hrs : ∀ i, r (c.comp b i).2 = s i := by
                intro i
                have h1 := hr i
                have h2 : s i * s i = (c.comp b i).2 := (hs i).2
                have h3 : (r (c.comp b i).2 - s i) * (r (c.comp b i).2 + s i) = 0 := by
                  ring_nf; nlinarith [h1.2, h2]
                rcases mul_eq_zero.mp h3 with h | h
                · linarith
                · have := hspos i; linarith [h1.1]
              have hroot : IsRootOn r (List.ofFn (c.comp b)) := by
                intro x hx
                obtain ⟨i, hi⟩ := (List.mem_ofFn' _ _).mp hx
                rw [← hi]; exact hr i
              obtain ⟨_, hle⟩ := tminPick_min r _ hroot m hpick
              intro j
              have := hle (c.comp b j) ((List.mem_ofFn' _ _).mpr ⟨j, rfl⟩)
              unfold rootVal at this
              rw [← hi0, hrs i0, hrs j] at this
              exact this
            refine ⟨s i0, hspos i0, ?_, fun W => ?_⟩
            · rw [← hd, ← hi0]; exact (hs i0).2
            · have hmin : statTmin c.effect b s = some (n / s i0) := by
                unfold statTmin
                rw [List.min?_eq_some_iff]
                refine ⟨(List.mem_ofFn' _ _).mpr ⟨i0, ?_⟩, ?_⟩
                · show statOne (c.effect i0) b (s i0) = n / s i0
                  rw [hval, ← hn, ← hi0]
                · intro y hy
                  obtain ⟨j, hj⟩ := (List.mem_ofFn' _ _).mp hy
                  rw [← hj]
                  show n / s i0 ≤ statOne (c.effect j) b (s j)
                  rw [hval, ← hn, ← hi0]
                  exact hminimal j
              rw [hmin]
    | t => simp
    | other => simp

/-! ## the contrast factories -/

/-- labs `glm.contrast(c, type, tiny, dofmax)`: effect `C β`, variance `s² C nvbeta Cᵀ` for a
    symmetric `nvbeta` (whichever storage path is taken), the fit's dof, multi-row `t` turned into
    `F`, and the two settings handed on unchanged. -/
theorem labs_contrast_spec {q p : Nat} (C : Mat q p) (beta : Vec p) (nvbeta : Mat p p)
    (s2 dof tiny dofmax : Rat) (constNv : Bool) (ty : String) (hsym : tr nvbeta = nvbeta) :
    let c := labsContrast C beta nvbeta s2 dof constNv ty tiny dofmax
    c.tiny = tiny ∧ c.dofmax = dofmax ∧ c.dof = dof ∧ c.effect = mulVec C beta ∧
    c.variance = vcov C nvbeta s2 ∧ c.ctype = normType q (ctypeOf .labs ty) := by
  refine ⟨rfl, rfl, rfl, rfl, ?_, rfl⟩
  cases constNv with
  | false => rfl
  | true =>
      show tr (vcov C nvbeta s2) = vcov C nvbeta s2
      funext i j
      show vcov C nvbeta s2 j i = vcov C nvbeta s2 i j
      unfold vcov
      congr 1
      rw [mmul_eq, mmul_eq, tr_eq]
      have hN : (toM nvbeta)ᵀ = toM nvbeta := hsym
      have : (toM C * (toM nvbeta * (toM C)ᵀ))ᵀ = toM C * (toM nvbeta * (toM C)ᵀ) := by
        rw [Matrix.transpose_mul, Matrix.transpose_mul, Matrix.transpose_transpose, hN,
          Matrix.mul_assoc]
      exact congrFun (congrFun this i) j

/-- fmri `GeneralLinearModel.contrast`: which requests are refused, and what is built otherwise
    (default type by dimension, default settings, residual degrees of freedom). -/
theorem glm_contrast_spec {q p : Nat} (M : Mat q p) (theta : Vec p) (cov : Mat p p) (disp df : Rat)
    (oned : Bool) (ty : Option String) :
    (glmRefuses q (glmType q oned ty) = true →
      glmContrast M theta cov disp df oned ty = .error "error:valueError") ∧
    (glmRefuses q (glmType q oned ty) = false →
      ∃ c, glmContrast M theta cov disp df oned ty = .ok c ∧ c.effect = mulVec M theta ∧
        c.variance = vcov M cov disp ∧ c.dof = df ∧ c.tiny = defTiny ∧ c.dofmax = defDofmax ∧
        c.ctype = normType q (ctypeOf .fmri (glmType q oned ty))) := by
  constructor
  · intro h; simp [glmContrast, h]
  · intro h
    exact ⟨mkObj .fmri q (glmType q oned ty) (mulVec M theta) (vcov M cov disp) df defTiny defDofmax,
      by simp [glmContrast, h], rfl, rfl, rfl, rfl, rfl, rfl⟩

/-- the type `GeneralLinearModel.contrast` assumes when none is given: `t` for a vector or a single
    row, `F` otherwise; a multi-row `t` request and unknown strings are refused -/
theorem glm_type_rules (q : Nat) (oned : Bool) :
    glmType q oned none = (if oned = true ∨ q = 1 then "t" else "F") ∧
    (∀ s, glmType q oned (some s) = s) ∧
    glmRefuses 1 "t" = false ∧ (q ≠ 1 → glmRefuses q "t" = true) ∧ glmRefuses q "F" = false ∧
    glmRefuses q "tmin-conjunction" = false ∧ glmRefuses q "tmin" = true := by
  refine ⟨?_, fun _ => rfl, by decide, ?_, by simp [glmRefuses], by simp [glmRefuses],
    by simp [glmRefuses]⟩
  · unfold glmType; cases oned <;> simp
  · intro h; simp [glmRefuses, h]

/-- the `F` statistic of the contrast object that `GeneralLinearModel.contrast` builds (Mahalanobis
    distance of `Mθ` under `disp · M cov Mᵀ`, over the dimension) **is** `Fcontrast`'s `F`
    (`(Mθ)ᵀ (M cov Mᵀ)⁻¹ (Mθ) / (q · disp)`), for positive dispersion and any inverses. -/
theorem glm_F_stat_eq_Fcontrast {q p : Nat} (M : Mat q p) (theta : Vec p) (cov : Mat p p) (disp : Rat)
    (hd : 0 < disp) (W Wd : Mat q q)
    (hW : mmul W (vcov M cov 1) = one q) (hWd : mmul Wd (vcov M cov disp) = one q) :
    statMaha Wd (mulVec M theta) 0 = fStat W M theta disp := by
  unfold statMaha fStat
  rw [mmul_eq, one_eq] at hW hWd
  have hV : toM (vcov M cov disp) = disp • toM (vcov M cov 1) := by
    funext i j; show _ * disp = disp * (_ * 1); ring
  rw [hV, Matrix.mul_smul, ← Matrix.smul_mul] at hWd
  have hWW : disp • toM Wd = toM W := left_inv_unique _ _ _ hWd hW
  have hu : (fun i => mulVec M theta i - 0) = mulVec M theta := by funext i; simp
  rw [hu, dotv_eq, dotv_eq, mulVec_eq Wd, mulVec_eq W, ← hWW, Matrix.smul_mulVec, smul_dotProduct]
  by_cases hq : q = 0
  · subst hq; simp [dotProduct]
  · have hqpos : (0 : Rat) < (q : Rat) := by exact_mod_cast Nat.pos_of_ne_zero hq
    rw [posRecipr_pos (mul_pos hqpos hd), smul_eq_mul]
    have := ne_of_gt hqpos
    have := ne_of_gt hd
    field_simp

/-- the `t` statistic of the contrast object built from `Tcontrast` (variance `sd²`) is
    `Tcontrast`'s `t`, when the variance sits at or above the clamp -/
theorem glm_t_stat_eq_Tcontrast {p : Nat} (c theta : Vec p) (sd tiny s : Rat) (hsd : 0 < sd)
    (hclamp : tiny ≤ sd * sd) (hs0 : 0 ≤ s) (hs : s * s = clampVar (sd * sd) tiny) :
    statOne (tContrast c theta sd).effect 0 s = (tContrast c theta sd).t := by
  unfold clampVar at hs
  rw [max_eq_left hclamp] at hs
  have : s = sd := by
    have h3 : (s - sd) * (s + sd) = 0 := by ring_nf; nlinarith [hs]
    rcases mul_eq_zero.mp h3 with h | h
    · linarith
    · linarith
  subst this
  simp [statOne, tContrast, posRecipr_pos hsd, div_eq_mul_inv]

/-- **the multi-session (fixed-effects) contrast is the `+` of the per-session contrasts**:
    `FMRILinearModel.contrast` on non-null session contrasts `c₀, c₁, …` of one type yields the
    summed effect, variance and degrees of freedom, and the first session's type and settings. -/
theorem multisession_is_sum {q : Nat} (c0 : Obj q) (cs : List (Obj q))
    (hty : ∀ c ∈ cs, c.ctype = c0.ctype) :
    ∃ r, multiSession (some c0 :: cs.map some) = some (.ok r) ∧
      (∀ i, r.effect i = c0.effect i + (cs.map fun c => c.effect i).sum) ∧
      (∀ i j, r.variance i j = c0.variance i j + (cs.map fun c => c.variance i j).sum) ∧
      r.dof = c0.dof + (cs.map fun c => c.dof).sum ∧
      r.ctype = c0.ctype ∧ r.tiny = c0.tiny ∧ r.dofmax = c0.dofmax := by
  unfold multiSession
  induction cs generalizing c0 with
  | nil => exact ⟨c0, rfl, by simp, by simp, by simp, rfl, rfl, rfl⟩
  | cons c rest ih =>
      have hc : c.ctype = c0.ctype := hty c (by simp)
      have hadd : c0.add .fmri c = .ok
          { effect := fun i => c0.effect i + c.effect i
            variance := fun i j => c0.variance i j + c.variance i j
            dof := c0.dof + c.dof, ctype := c0.ctype, tiny := c0.tiny, dofmax := c0.dofmax } := by
        simp [Obj.add, hc]
      obtain ⟨r, hr, he, hv, hdof, ht, hti, hdm⟩ := ih
        { effect := fun i => c0.effect i + c.effect i
          variance := fun i j => c0.variance i j + c.variance i j
          dof := c0.dof + c.dof, ctype := c0.ctype, tiny := c0.tiny, dofmax := c0.dofmax }
        (fun x hx => hty x (by simp [hx]))
      refine ⟨r, ?_, ?_, ?_, ?_, ht, hti, hdm⟩
      · simp only [List.map_cons, List.foldl_cons, hadd]
        simpa using hr
      · intro i; rw [he i]; simp [add_assoc]
      · intro i j; rw [hv i j]; simp [add_assoc]
      · rw [hdof]; simp [add_assoc]

/-- a null session contrast is skipped -/
theorem multisession_skips_null {q : Nat} (l : List (Option (Obj q))) :
    multiSession (none :: l) = multiSession l := rfl

/-! ## the degrees-of-freedom cap -/

/-- beyond `dofmax` the p-value no longer depends on the degrees of freedom: the tail is
    evaluated at `dofmax` (for SciPy at 1e10: the normal tail to rounding) -/
theorem p_const_beyond_dofmax (ty : CType) (dim : Nat) (dof dof' dofmax : Rat) (h : dofmax ≤ dof) (h' : dofmax ≤ dof') :
    pCall ty dim dof dofmax = pCall ty dim dof' dofmax := by
  cases ty <;> simp [pCall, min_eq_right h, min_eq_right h']

/-- monotonicity **across the switch**: if the Student tail at a fixed statistic is antitone in
    the degrees of freedom (heavier tails for fewer degrees of freedom: true for `x ≥ 0`), the
    p-value of a `t` / `tmin` contrast is antitone in `dof` over the whole range `1 … ∞`, capped or not. -/
theorem p_antitone_in_dof (sfT : Rat → Rat → Rat) (sfF : Rat → Rat → Rat → Rat) (x dofmax : Rat)
    (hdf : ∀ d d', d ≤ d' → sfT d' x ≤ sfT d x) (dof dof' : Rat) (h : dof ≤ dof') (dim : Nat)
    (ty : CType) (hty : ty = CType.t ∨ ty = CType.tmin) :
    ∃ call call', pCall ty dim dof dofmax = .ok call ∧ pCall ty dim dof' dofmax = .ok call' ∧
      pValue sfT sfF call' (some x) ≤ pValue sfT sfF call (some x) := by
  rcases hty with e | e <;> subst e <;>
    exact ⟨_, _, rfl, rfl, hdf _ _ (min_le_min h le_rfl)⟩

/-- z is non-decreasing in the statistic for every object state (type, dimension, dof, dofmax),
    also where the p-value leaves the clip interval -/
theorem z_monotone_any_state {q : Nat} (c : Obj q) (sfT : Rat → Rat → Rat) (sfF : Rat → Rat → Rat → Rat)
    (isf : Rat → Rat)
    (hT : ∀ d x y, x ≤ y → sfT d y ≤ sfT d x) (hF : ∀ a d x y, x ≤ y → sfF a d y ≤ sfF a d x)
    (hisf : ∀ p r, pLo ≤ p → p ≤ r → r ≤ pHi → isf r ≤ isf p)
    (x y : Rat) (hxy : x ≤ y) (zx zy : Rat)
    (hx : c.zOf sfT sfF isf (.ok x) = .ok zx) (hy : c.zOf sfT sfF isf (.ok y) = .ok zy) :
    zx ≤ zy := by
  unfold Obj.zOf Obj.pOf at hx hy
  cases hcall : pCall c.ctype q c.dof c.dofmax with
  | error e => rw [hcall] at hx; simp [Except.map] at hx
  | ok call =>
      rw [hcall] at hx hy
      simp only [Except.map, Except.ok.injEq] at hx hy
      rw [← hx, ← hy]
      cases call with
      | tsf d => exact z_monotone (sfT d) isf (hT d) hisf x y hxy
      | fsf a d => exact z_monotone (sfF a d) isf (hF a d) hisf x y hxy

/-- the labs helper `nipy.labs.utils.zscore` evaluates `norm.isf` inside `[1e-15, 1 - 1e-15]` only,
    and is monotone through its clip as well -/
theorem z2_argument_in_open_unit (p : Rat) : 0 < clipP2 p ∧ clipP2 p < 1 :=
  ⟨lt_of_lt_of_le p2Lo_pos (clipP2_mem p).1, lt_of_le_of_lt (clipP2_mem p).2 p2Hi_lt_one⟩

/-- the labs z-score is non-increasing in the p-value through both clips -/
theorem z2_monotone (isf : Rat → Rat) (hisf : ∀ p r, p2Lo ≤ p → p ≤ r → r ≤ p2Hi → isf r ≤ isf p)
    (p r : Rat) (h : p ≤ r) : isf (clipP2 r) ≤ isf (clipP2 p) :=
  hisf _ _ (clipP2_mem _).1 (clipP2_mono h) (clipP2_mem _).2

/-! ## Benjamini–Hochberg on arbitrary (unsorted, tied) vectors -/

/-- **`fdr` is the Benjamini–Hochberg step-up procedure on any p-value vector** — unsorted, with
    ties — through the sort permutation: the value returned for `pᵢ` is the least
    `min(1, n·y / #{k : p_k ≤ y})` over the entries `y ≥ pᵢ` (a lower bound of all, equal to one). -/
theorem fdr_is_BH (p : List Rat) (hpos : ∀ x ∈ p, 0 ≤ x) (l : List Rat) (h : fdr p = .ok l)
    (i : Nat) (hi : i < p.length) :
    l.length = p.length ∧
    (∀ y, p.getD i 0 ≤ y → l.getD i 0 ≤ bhTerm p y) ∧
    (∃ y ∈ p, p.getD i 0 ≤ y ∧ l.getD i 0 = bhTerm p y) := by
  unfold fdr at h
  cases hc : checkP p with
  | error e => rw [hc] at h; simp at h
  | ok u =>
      rw [hc] at h
      simp only [Except.ok.injEq] at h
      set order := argsort p with horder
      set sp := order.map (fun i => p.getD i 0) with hsp
      have hperm := argsort_perm p
      have hspperm : sp.Perm p := argsort_map_perm p
      have hsorted : sp.Pairwise (· ≤ ·) := argsort_sorted_map p
      have hlen : sp.length = p.length := hspperm.length_eq
      have hmemi : i ∈ order := hperm.mem_iff.mpr (List.mem_range.mpr hi)
      have hk : order.idxOf i < order.length := List.idxOf_lt_length_iff.mpr hmemi
      have hklen : order.idxOf i < sp.length := by rw [hsp, List.length_map]; exact hk
      have hspk : sp.getD (order.idxOf i) 0 = p.getD i 0 := by
        rw [getD_eq sp _ hklen]
        simp only [hsp, List.getElem_map]
        rw [List.getElem_idxOf hk]
      have hli : l.getD i 0 = (bhSorted sp).getD (order.idxOf i) 0 := by
        rw [← h]
        rw [List.getD_eq_getElem?_getD, List.getElem?_map, List.getElem?_range hi]
        rfl
      have hcnt : ∀ y, cntLe sp y = cntLe p y := fun y => hspperm.countP_eq _
      have hterm : ∀ y, bhTerm sp y = bhTerm p y := by
        intro y; unfold bhTerm; rw [hcnt, hlen]
      obtain ⟨h1, h2⟩ := bhSorted_stepup sp (fun x hx => hpos x (hspperm.mem_iff.mp hx)) hsorted _ hklen
      refine ⟨by rw [← h]; simp, ?_, ?_⟩
      · intro y hy
        rw [hli, ← hterm]
        exact h1 y (by rw [hspk]; exact hy)
      · obtain ⟨y, hy, hle, he⟩ := h2
        exact ⟨y, hspperm.mem_iff.mp hy, by rw [← hspk]; exact hle, by rw [hli, he, hterm]⟩

/-- `fdr` answers every vector that `check_p_values` accepts -/
theorem fdr_total (p : List Rat) (h : checkP p = .ok ()) : ∃ l, fdr p = .ok l := by
  unfold fdr; rw [h]; exact ⟨_, rfl⟩

/-- q-values are monotone in the p-values on any vector (equal p-values get equal q-values) -/
theorem fdr_monotone (p : List Rat) (hpos : ∀ x ∈ p, 0 ≤ x) (l : List Rat) (h : fdr p = .ok l)
    (i j : Nat) (hi : i < p.length) (hj : j < p.length) (hij : p.getD i 0 ≤ p.getD j 0) :
    l.getD i 0 ≤ l.getD j 0 := by
  obtain ⟨_, _, y, _, hy, he⟩ := fdr_is_BH p hpos l h j hj
  rw [he]
  exact (fdr_is_BH p hpos l h i hi).2.1 y (le_trans hij hy)

/-- the q-value depends on the p-value and on the multiset of all p-values only: `fdr` commutes
    with every permutation of its input -/
theorem fdr_perm_equivariant (p p' : List Rat) (hperm : p.Perm p') (hpos : ∀ x ∈ p, 0 ≤ x)
    (l l' : List Rat) (h : fdr p = .ok l) (h' : fdr p' = .ok l')
    (i j : Nat) (hi : i < p.length) (hj : j < p'.length) (hij : p.getD i 0 = p'.getD j 0) :
    l.getD i 0 = l'.getD j 0 := by
  have hpos' : ∀ x ∈ p', 0 ≤ x := fun x hx => hpos x (hperm.mem_iff.mpr hx)
  have hterm : ∀ y, bhTerm p y = bhTerm p' y := by
    intro y; unfold bhTerm cntLe; rw [hperm.countP_eq, hperm.length_eq]
  obtain ⟨_, lo, y, hy, hle, he⟩ := fdr_is_BH p hpos l h i hi
  obtain ⟨_, lo', y', hy', hle', he'⟩ := fdr_is_BH p' hpos' l' h' j hj
  apply le_antisymm
  · rw [he', ← hterm]; exact lo y' (by rw [hij]; exact hle')
  · rw [he, hterm]; exact lo' y (by rw [← hij]; exact hle)

/-- q-values lie in `[min(1, p), 1]` on any vector of p-values in `[0, ∞)` -/
theorem fdr_bounds (p : List Rat) (hpos : ∀ x ∈ p, 0 ≤ x) (l : List Rat) (h : fdr p = .ok l)
    (i : Nat) (hi : i < p.length) :
    min 1 (p.getD i 0) ≤ l.getD i 0 ∧ l.getD i 0 ≤ 1 := by
  obtain ⟨_, _, y, hy, hle, he⟩ := fdr_is_BH p hpos l h i hi
  rw [he]
  refine ⟨?_, min_le_left _ _⟩
  unfold bhTerm
  apply min_le_min le_rfl
  have hc : cntLe p y ≤ p.length := cntLe_le_length p y
  have hcpos : 0 < cntLe p y := by
    unfold cntLe
    exact List.countP_pos_iff.mpr ⟨y, hy, by simp⟩
  have hcq : (0 : Rat) < (cntLe p y : Rat) := by exact_mod_cast hcpos
  rw [le_div_iff₀ hcq]
  have h0 : 0 ≤ y := hpos y hy
  have h1 : (cntLe p y : Rat) ≤ (p.length : Rat) := by exact_mod_cast hc
  have h2 : 0 ≤ p.getD i 0 := hpos _ (getD_mem_of_lt p i hi)
  nlinarith

/-- `gaussian_fdr(x) = fdr(norm.sf(x))` is non-increasing in `x` for any antitone tail -/
theorem gaussian_fdr_antitone (sf : Rat → Rat) (hsf : ∀ a b, a ≤ b → sf b ≤ sf a)
    (hpos : ∀ a, 0 ≤ sf a) (x l : List Rat) (h : gaussianFdr sf x = .ok l)
    (i j : Nat) (hi : i < x.length) (hj : j < x.length) (hij : x.getD i 0 ≤ x.getD j 0) :
    l.getD j 0 ≤ l.getD i 0 := by
  unfold gaussianFdr at h
  have hp : ∀ y ∈ x.map sf, 0 ≤ y := by
    intro y hy; obtain ⟨a, _, rfl⟩ := List.mem_map.mp hy; exact hpos a
  have hg : ∀ k, k < x.length → (x.map sf).getD k 0 = sf (x.getD k 0) := by
    intro k hk; simp [hk]
  apply fdr_monotone (x.map sf) hp l h j i (by simpa using hj) (by simpa using hi)
  rw [hg j hj, hg i hi]
  exact hsf _ _ hij

/-! ## `fdr_threshold` against `fdr` -/

/-- on the ascending p-values: thresholding the p-values at `fdr_threshold(α)` selects exactly the
    entries whose q-value is below `α` (`0 < α ≤ 1`) whenever the critical set is not empty; when it
    is empty no q-value is below `α` and the threshold is the Bonferroni level `α / n`. -/
theorem fdr_threshold_selects_sorted (alpha : Rat) (sp : List Rat) (ha0 : 0 < alpha) (ha1 : alpha ≤ 1)
    (hs : sp.Pairwise (· ≤ ·)) (hne : sp ≠ []) :
    (critical (alpha / sp.length) 0 sp = [] →
      fdrThresholdSorted alpha sp = alpha / sp.length ∧
      ∀ k, k < sp.length → ¬ (bhSorted sp).getD k 0 < alpha) ∧
    (critical (alpha / sp.length) 0 sp ≠ [] → ∀ k, k < sp.length →
      (sp.getD k 0 ≤ fdrThresholdSorted alpha sp ↔ (bhSorted sp).getD k 0 < alpha)) := by
  have hn : (0 : Rat) < (sp.length : Rat) := by
    have : 0 < sp.length := List.length_pos_iff.mpr hne
    exact_mod_cast this
  have hpc : 0 < alpha / sp.length := div_pos ha0 hn
  have hraw : ∀ l, l < sp.length → ((bhRaw sp.length 0 sp).getD l 0 < alpha ↔
      sp.getD l 0 < alpha / sp.length * ((l : Rat) + 1)) := by
    intro l hl
    have := bhRaw_getD (sp.length : Rat) sp 0 l hl
    rw [Nat.zero_add] at this
    rw [this]
    exact raw_lt_alpha_iff alpha _ _ l ha1 hn
  have hlen := bhRaw_length (sp.length : Rat) sp 0
  have hq_le : ∀ k l, k ≤ l → l < sp.length →
      (bhSorted sp).getD k 0 ≤ (bhRaw sp.length 0 sp).getD l 0 :=
    fun k l hkl hl => runMin_le _ k l hkl (by rw [hlen]; exact hl)
  have hq_att : ∀ k, k < sp.length → ∃ l, k ≤ l ∧ l < sp.length ∧
      (bhSorted sp).getD k 0 = (bhRaw sp.length 0 sp).getD l 0 := by
    intro k hk
    obtain ⟨l, h1, h2, h3⟩ := runMin_attained (bhRaw sp.length 0 sp) k (by rw [hlen]; exact hk)
    exact ⟨l, h1, by rwa [hlen] at h2, h3⟩
  have hin : ∀ l, l < sp.length → (bhRaw sp.length 0 sp).getD l 0 < alpha →
      sp.getD l 0 ∈ critical (alpha / sp.length) 0 sp := by
    intro l hl h
    rw [mem_critical]
    exact ⟨l, hl, rfl, by rw [Nat.zero_add]; exact (hraw l hl).mp h⟩
  constructor
  · intro hempty
    refine ⟨by simp [fdrThresholdSorted, hempty], ?_⟩
    intro k hk hlt
    obtain ⟨l, _, hl, he⟩ := hq_att k hk
    have := hin l hl (by rw [← he]; exact hlt)
    rw [hempty] at this
    simp at this
  · intro hnonempty k hk
    obtain ⟨m, hm⟩ : ∃ m, (critical (alpha / sp.length) 0 sp).max? = some m := by
      cases hmx : (critical (alpha / sp.length) 0 sp).max? with
      | none => exact absurd (List.max?_eq_none_iff.mp hmx) hnonempty
      | some m => exact ⟨m, rfl⟩
    have hthr : fdrThresholdSorted alpha sp = m := by simp [fdrThresholdSorted, hm]
    rw [hthr]
    obtain ⟨hmem, hmax⟩ := List.max?_eq_some_iff.mp hm
    obtain ⟨j, hj, hjm, hjlt⟩ := (mem_critical _ _ _ _).mp hmem
    rw [Nat.zero_add] at hjlt
    constructor
    · intro hle
      rcases le_total k j with hkj | hjk
      · refine lt_of_le_of_lt (hq_le k j hkj hj) ((hraw j hj).mpr ?_)
        rw [hjm]; exact hjlt
      · have h1 : sp.getD j 0 ≤ sp.getD k 0 := sorted_getD_mono sp hs j k hjk hk
        have hkm : sp.getD k 0 = m := le_antisymm hle (by rw [← hjm]; exact h1)
        refine lt_of_le_of_lt (hq_le k k le_rfl hk) ((hraw k hk).mpr ?_)
        rw [hkm]
        have : ((j : Rat) + 1) ≤ (k : Rat) + 1 := by
          have : (j : Rat) ≤ (k : Rat) := by exact_mod_cast hjk
          linarith
        exact lt_of_lt_of_le hjlt (mul_le_mul_of_nonneg_left this hpc.le)
    · intro hlt
      obtain ⟨l, hkl, hl, he⟩ := hq_att k hk
      have hmeml := hin l hl (by rw [← he]; exact hlt)
      exact le_trans (sorted_getD_mono sp hs k l hkl hl) (hmax _ hmeml)

/-- **`fdr_threshold` and `fdr` agree on any (unsorted, tied) p-value vector**: if some q-value is
    below `α` (`0 < α ≤ 1`), then `pᵢ ≤ fdr_threshold(p, α)  ↔  fdr(p)ᵢ < α` for every `i`; if none
    is, the threshold is the Bonferroni level `α / n`. -/
theorem fdr_threshold_selects (alpha : Rat) (p : List Rat) (ha0 : 0 < alpha) (ha1 : alpha ≤ 1)
    (l : List Rat) (h : fdr p = .ok l) (thr : Rat) (ht : fdrThreshold alpha p = .ok thr) :
    ((∃ j, j < p.length ∧ l.getD j 0 < alpha) →
      ∀ i, i < p.length → (p.getD i 0 ≤ thr ↔ l.getD i 0 < alpha)) ∧
    ((¬ ∃ j, j < p.length ∧ l.getD j 0 < alpha) → thr = alpha / p.length) := by
  unfold fdr at h
  unfold fdrThreshold at ht
  cases hc : checkP p with
  | error e => rw [hc] at h; simp at h
  | ok u =>
      rw [hc] at h ht
      simp only [Except.ok.injEq] at h ht
      have hne : p ≠ [] := by
        intro h0; rw [h0] at hc; simp [checkP] at hc
      set sp := p.mergeSort (fun a b => decide (a ≤ b)) with hsp
      have hspeq : (argsort p).map (fun i => p.getD i 0) = sp := argsort_map_eq_mergeSort p
      have hperm : sp.Perm p := List.mergeSort_perm p _
      have hlen : sp.length = p.length := hperm.length_eq
      have hspne : sp ≠ [] := by
        intro h0; rw [h0] at hlen; exact hne (List.length_eq_zero_iff.mp hlen.symm)
      have hsorted : sp.Pairwise (· ≤ ·) := mergeSort_sorted p
      -- position of i in the sort order
      have hpos : ∀ i, i < p.length → (argsort p).idxOf i < sp.length ∧
          sp.getD ((argsort p).idxOf i) 0 = p.getD i 0 ∧
          l.getD i 0 = (bhSorted sp).getD ((argsort p).idxOf i) 0 := by
        intro i hi
        have hmemi : i ∈ argsort p := (argsort_perm p).mem_iff.mpr (List.mem_range.mpr hi)
        have hk : (argsort p).idxOf i < (argsort p).length := List.idxOf_lt_length_iff.mpr hmemi
        have hklen : (argsort p).idxOf i < sp.length := by
          rw [← hspeq, List.length_map]; exact hk
        refine ⟨hklen, ?_, ?_⟩
        · rw [getD_eq sp _ hklen]
          simp only [← hspeq, List.getElem_map]
          rw [List.getElem_idxOf hk]
        · rw [← h, ← hspeq]
          rw [List.getD_eq_getElem?_getD, List.getElem?_map, List.getElem?_range hi]
          rfl
      obtain ⟨hA, hB⟩ := fdr_threshold_selects_sorted alpha sp ha0 ha1 hsorted hspne
      rw [hlen] at hA hB
      rw [← ht]
      constructor
      · rintro ⟨j, hj, hjlt⟩ i hi
        have hcrit : critical (alpha / p.length) 0 sp ≠ [] := by
          intro hempty
          obtain ⟨hk, _, hq⟩ := hpos j hj
          exact (hA hempty).2 _ (by rw [← hlen]; exact hk) (by rw [← hq]; exact hjlt)
        obtain ⟨hk, hv, hq⟩ := hpos i hi
        have := hB hcrit _ (by rw [← hlen]; exact hk)
        rw [hv, ← hq] at this
        exact this
      · intro hnone
        by_cases hempty : critical (alpha / p.length) 0 sp = []
        · exact (hA hempty).1
        · exfalso
          -- a non-empty critical set contains its maximum, whose position has a q-value below α
          apply hnone
          obtain ⟨x, hx⟩ := List.exists_mem_of_ne_nil _ hempty
          obtain ⟨j, hj, hjx, _⟩ := (mem_critical _ _ _ _).mp hx
          -- position j of the ascending list is the image of some index of p
          have hjo : j < (argsort p).length := by
            have := hj; rw [← hspeq, List.length_map] at this; exact this
          let i := (argsort p)[j]
          have hi : i < p.length := by
            have : i ∈ List.range p.length := (argsort_perm p).mem_iff.mp (List.getElem_mem hjo)
            exact List.mem_range.mp this
          obtain ⟨hk, hv, hq⟩ := hpos i hi
          refine ⟨i, hi, ?_⟩
          rw [hq]
          have hle : sp.getD ((argsort p).idxOf i) 0 ≤ fdrThresholdSorted alpha sp := by
            rw [hv]
            -- p i = sp j, and sp j is critical, hence below the maximum
            have hpi : p.getD i 0 = sp.getD j 0 := by
              rw [getD_eq sp j hj]
              simp only [← hspeq, List.getElem_map]
              rfl
            rw [hpi, hjx]
            obtain ⟨m, hm⟩ : ∃ m, (critical (alpha / p.length) 0 sp).max? = some m := by
              cases hmx : (critical (alpha / p.length) 0 sp).max? with
              | none => exact absurd (List.max?_eq_none_iff.mp hmx) hempty
              | some m => exact ⟨m, rfl⟩
            have : fdrThresholdSorted alpha sp = m := by simp [fdrThresholdSorted, hlen, hm]
            rw [this]
            exact (List.max?_eq_some_iff.mp hm).2 x hx
          exact (hB hempty _ (by rw [← hlen]; exact hk)).mp hle

/-! ## the empirical-null FDR curve -/

/-- `NormalEmpiricalNull.fdrcurve` (for fitted `p0` and tail values): the value at the `i`-th
    smallest sample is the largest `min(p0·sf(x_j)·n/(n-j), 1)` over `j ≥ i` — so the curve is
    non-increasing along the sample, and at most 1. -/
theorem fdrCurve_is_running_max (p0 : Rat) (sfx : List Rat) (i : Nat) (hi : i < sfx.length) :
    (∀ j, i ≤ j → j < sfx.length →
      min (p0 * sfx.getD j 0 * sfx.length / ((sfx.length : Rat) - (j : Rat))) 1 ≤ (fdrCurve p0 sfx).getD i 0) ∧
    (∃ j, i ≤ j ∧ j < sfx.length ∧
      (fdrCurve p0 sfx).getD i 0 = min (p0 * sfx.getD j 0 * sfx.length / ((sfx.length : Rat) - (j : Rat))) 1) := by
  unfold fdrCurve
  have hlen := efpRaw_length p0 (sfx.length : Rat) sfx 0
  constructor
  · intro j hij hj
    have := le_runMax (efpRaw p0 sfx.length 0 sfx) i j hij (by rw [hlen]; exact hj)
    rwa [efpRaw_getD _ _ _ 0 j hj, Nat.zero_add] at this
  · obtain ⟨j, hij, hj, he⟩ := runMax_attained (efpRaw p0 sfx.length 0 sfx) i (by rw [hlen]; exact hi)
    rw [hlen] at hj
    exact ⟨j, hij, hj, by rw [he, efpRaw_getD _ _ _ 0 j hj, Nat.zero_add]⟩

/-- the empirical-null FDR curve is non-increasing along the ascending sample and at most 1 -/
theorem fdrCurve_antitone (p0 : Rat) (sfx : List Rat) (i : Nat) (hi : i + 1 < sfx.length) :
    (fdrCurve p0 sfx).getD (i + 1) 0 ≤ (fdrCurve p0 sfx).getD i 0 ∧ (fdrCurve p0 sfx).getD i 0 ≤ 1 := by
  obtain ⟨j, hij, hj, he⟩ := (fdrCurve_is_running_max p0 sfx (i + 1) hi).2
  obtain ⟨j', _, _, he'⟩ := (fdrCurve_is_running_max p0 sfx i (by omega)).2
  refine ⟨?_, by rw [he']; exact min_le_right _ _⟩
  rw [he]
  exact (fdrCurve_is_running_max p0 sfx i (by omega)).1 j (by omega) hj

/-! ## the constants of the model are those of the source text -/

/-- the numerical constants used by the model (`DEF_TINY`, `DEF_DOFMAX` of both GLM modules, the
    clip bounds of `z_score` and of the labs `zscore`) equal the binary64 values of the literals in
    /repo's current source (regenerated into `Gen/C06Consts.lean` on every run); in particular the
    two classes share their defaults, and every theorem about `clipP`/`clipP2` speaks about the
    interval the code clips to. -/
theorem consts_match_source :
    defTiny = Src.fmriDefTiny ∧ defTiny = Src.labsDefTiny ∧
    defDofmax = Src.fmriDefDofmax ∧ defDofmax = Src.labsDefDofmax ∧
    pLo = Src.zLo ∧ pHi = Src.zHi ∧ p2Lo = Src.z2Lo ∧ p2Hi = Src.z2Hi := by
  decide +kernel

/-! ## Non-vacuity -/

-- a 2-dimensional tmin object with non-default settings meeting every hypothesis of
-- `rmul_pos_invariant_full`: V = diag(4, 9), tiny = 1, k = 2 (s = (2,3), s' = (4,6))
def exObj : Obj 2 :=
  { effect := fun i => if i = 0 then 3 else 5,
    variance := fun i j => if i = j then (if i = 0 then 4 else 9) else 0,
    dof := 30, ctype := CType.tmin, tiny := 1, dofmax := 3 }
example :
    IsSqrtVec exObj (fun i => if i = 0 then 2 else 3) ∧
    IsSqrtVec (exObj.smul 2) (fun i => if i = 0 then 4 else 6) ∧
    (∀ i, exObj.tiny ≤ exObj.variance i i ∧ exObj.tiny ≤ exObj.variance i i * 2 ^ 2) ∧
    mmul (fun i j => if i = j then (if i = 0 then 1 / 4 else 1 / 9) else 0) exObj.variance = one 2 ∧
    mmul (fun i j => if i = j then (if i = 0 then 1 / 16 else 1 / 36) else 0) (exObj.smul 2).variance = one 2 := by
  unfold IsSqrtVec
  decide +kernel
-- a history with a stale-looking cache across `*` and `+`, answered coherently by the executable
example : (execHist .fmri [.call .p 0, .smul 2, .call .z 0]
      (mkObj .fmri 1 "t" (fun _ => 5) (fun _ _ => 4) 30 (1 / 1024) 3)).map fmtHRet
    = ["p t.sf 3 root 5 4", "obj t 30 1/1024 3 10 16", "z t.sf 3 root 10 16"] := by decide +kernel
-- antitone in dof: sf d x = 1/d
example : ∀ d d' : Rat, d ≤ d' → (fun (d _ : Rat) => -d) d' 0 ≤ (fun (d _ : Rat) => -d) d 0 :=
  fun _ _ h => neg_le_neg h
-- BH on an unsorted vector with ties
example : checkP [1/2, 1/100, 1/4, 1/100] = .ok () := by decide +kernel
example : bhTerm [1/2, 1/100, 1/4, 1/100] (1/100) = 1/50 := by decide +kernel
-- two sessions of one type
example : ∃ r, multiSession [some (mkObj .fmri 1 "t" (fun _ => 2) (fun _ _ => 1) 10 (1/8) 100), none,
      some (mkObj .fmri 1 "t" (fun _ => 1) (fun _ _ => 3) 10 (1/8) 100)] = some (.ok r) ∧ r.dof = 20 :=
  ⟨_, rfl, by decide +kernel⟩
example : fdrCurve (1/2) [1/2, 1/4, 1/8] = [1/4, 3/16, 3/16] := by decide +kernel
-- inverses for `glm_F_stat_eq_Fcontrast` (M = cov = 1, dispersion 2) and roots for `glm_t_stat_eq_Tcontrast`
example : mmul (fun _ _ => (1 : Rat)) (vcov (one 1) (one 1) 1) = one 1 ∧
    mmul (fun _ _ => (1 / 2 : Rat)) (vcov (one 1) (one 1) 2) = one 1 := by decide +kernel
example : (1 : Rat) ≤ 2 * 2 ∧ (2 : Rat) * 2 = clampVar (2 * 2) 1 := by decide +kernel
-- a symmetric `nvbeta`
example : tr (one 2) = one 2 := by funext i j; simp [tr, one, eq_comm]
-- tails for the monotonicity statements: sf a = max 0 (1 - a) is antitone and non-negative, isf p = -p antitone
example : (∀ a b : Rat, a ≤ b → max 0 (1 - b) ≤ max 0 (1 - a)) ∧ ∀ a : Rat, 0 ≤ max 0 (1 - a) :=
  ⟨fun _ _ h => max_le_max le_rfl (by linarith), fun _ => le_max_left _ _⟩
example : ∀ p r : Rat, p2Lo ≤ p → p ≤ r → r ≤ p2Hi → (fun t => -t) r ≤ (fun t => -t) p :=
  fun _ _ _ h _ => neg_le_neg h
-- `fdr_threshold` answers what `check_p_values` accepts; an ascending non-empty list
example : ∃ thr, fdrThreshold (1/4) [1/2, 1/100, 1/4, 1/100] = .ok thr := by
  unfold fdrThreshold
  rw [show checkP [1/2, 1/100, 1/4, 1/100] = .ok () by decide +kernel]
  exact ⟨_, rfl⟩
example : ([1/100, 1/100, 1/4, 1/2] : List Rat).Pairwise (· ≤ ·) ∧ ([1/100, 1/100, 1/4, 1/2] : List Rat) ≠ [] := by
  decide +kernel

end NipyVerif.C06
