/-
C14 — property theorems about the model in `NipyVerif.Model.C14`.
Only property statements and their non-vacuity examples live here.
-/
import NipyVerif.Lemmas.C14

namespace NipyVerif.C14

/-! ## Nearest-centre assignment (`_EStep`, `voronoi`) -/

/-- "K-means returns labels within range": every label produced by the assignment step is
    `< k` (for `k ≥ 1` centres), and there is one label per item. -/
theorem estep_labels_in_range (p : Nat) (X : List Vec) (C : Nat → Vec) (k : Nat) (hk : 0 < k) :
    (estep p X C k).length = X.length ∧ ∀ l ∈ estep p X C k, l < k := by
  refine ⟨by simp [estep], ?_⟩
  intro l hl
  obtain ⟨x, _, rfl⟩ := List.mem_map.mp hl
  exact argminFirst_lt _ k hk

/-- "the nearest-centre assignment labels every point with a closest centre": the centre of the
    label given to `x` is at least as close as every one of the `k` centres. -/
theorem estep_nearest (p : Nat) (C : Nat → Vec) (k : Nat) (x : Vec) (q : Nat) (hq : q < k) :
    sqDist p x (C (argminFirst (fun q => sqDist p x (C q)) k)) ≤ sqDist p x (C q) :=
  argminFirst_le (fun q => sqDist p x (C q)) k q hq

/-- tie rule of `_EStep` (`dist < mindist`, strict): among equally close centres the first is
    chosen — every centre with a smaller index is strictly farther. -/
theorem estep_first_minimum (p : Nat) (C : Nat → Vec) (k : Nat) (x : Vec) (q : Nat)
    (hq : q < argminFirst (fun q => sqDist p x (C q)) k) :
    sqDist p x (C (argminFirst (fun q => sqDist p x (C q)) k)) < sqDist p x (C q) :=
  argminFirst_first (fun q => sqDist p x (C q)) k q hq

/-! ## Centres are the means of their members (`_MStep`) -/

/-- "centres that are exactly the means of their members (the global mean for an empty
    cluster)": `|members| · centre = Σ members` for a non-empty cluster, the mean of all items
    otherwise. -/
theorem mstep_centre_is_mean (X : List Vec) (z : List Nat) (q d : Nat) :
    (members X z q ≠ [] →
        ((members X z q).length : Rat) * mstep X z q d = colsum (members X z q) d) ∧
    (members X z q = [] → mstep X z q d = meanv X d) := by
  constructor
  · intro h
    have : (members X z q).isEmpty = false := by simpa using h
    simp only [mstep, this]
    exact meanv_mul _ h d
  · intro h
    simp [mstep, h]

/-- the rows computed by the executable `_MStep` are those centres -/
theorem mstepL_is_mstep (p : Nat) (X : List Vec) (z : List Nat) (k q d : Nat)
    (hq : q < k) (hd : d < p) : centresOf (mstepL p X z k) q d = mstep X z q d :=
  centresOf_mstepL p X z k q d hq hd

/-! ## Neither step increases the within-cluster sum of squares -/

/-- re-assigning every item to its nearest centre does not increase the WCSS -/
theorem wcss_estep_le (p k : Nat) (C : Nat → Vec) (X : List Vec) (z : List Nat)
    (hlen : z.length = X.length) (hz : ∀ l ∈ z, l < k) :
    wcss p X (estep p X C k) C ≤ wcss p X z C := by
  induction X generalizing z with
  | nil => simp [wcss, estep]
  | cons x X ih =>
      match z, hlen, hz with
      | l :: z, hlen, hz =>
          have h1 := ih z (by simpa using hlen) (fun l' hl' => hz l' (by simp [hl']))
          have h2 := estep_nearest p C k x l (hz l (by simp))
          simp only [wcss, estep, List.map_cons, List.zip_cons_cons, List.sum_cons] at h1 ⊢
          linarith

/-- replacing the centres by the means of their members does not increase the WCSS
    (`Σ(x−c)² = Σ(x−m)² + n(m−c)²` cluster by cluster). -/
theorem wcss_mstep_le (p k : Nat) (C : Nat → Vec) (X : List Vec) (z : List Nat)
    (hz : ∀ l ∈ z, l < k) :
    wcss p X z (mstep X z) ≤ wcss p X z C := by
  rw [wcss_eq_wcssP, wcss_eq_wcssP,
    wcssP_by_cluster p k _ _ (zip_label_lt hz), wcssP_by_cluster p k _ _ (zip_label_lt hz)]
  apply sumTo_le
  intro q _
  rw [← members_eq_membersP]
  by_cases h : members X z q = []
  · simp [h, ssq]
  · have : (members X z q).isEmpty = false := by simpa using h
    have hm : mstep X z q = meanv (members X z q) := by simp [mstep, this]
    rw [hm]
    exact ssq_mean_le p _ _

/-- WCSS of a returned solution `(labels, centre rows)` -/
def solWcss (p : Nat) (X : List Vec) (r : List Nat × List (List Rat)) : Rat :=
  wcss p X r.1 (centresOf r.2)

/-- one pass of the loop body started from any admissible solution does not increase the WCSS -/
theorem kmStep_wcss_le (p k : Nat) (hk : 0 < k) (X : List Vec) (C : List (List Rat)) (z : List Nat)
    (hlen : z.length = X.length) (hz : ∀ l ∈ z, l < k) :
    solWcss p X (kmStep p k X C) ≤ wcss p X z (centresOf C) := by
  have hr := estep_labels_in_range p X (centresOf C) k hk
  unfold solWcss kmStep
  simp only
  have e1 : wcss p X (estep p X (centresOf C) k) (centresOf (mstepL p X (estep p X (centresOf C) k) k))
      = wcss p X (estep p X (centresOf C) k) (mstep X (estep p X (centresOf C) k)) := by
    rw [wcss_eq_wcssP, wcss_eq_wcssP]
    exact wcssP_congr p k _ _ _ (zip_label_lt hr.2)
      (fun q hq d hd => centresOf_mstepL p X _ k q d hq hd)
  rw [e1]
  exact le_trans (wcss_mstep_le p k (centresOf C) X _ hr.2) (wcss_estep_le p k (centresOf C) X z hlen hz)

/-- what `_kmeans` returns is always `(labels of the last E-step, their M-step)`: the returned
    centres are the means of the returned labels' members, and the labels are in range. -/
theorem runFrom_returns_means (p k : Nat) (hk : 0 < k) (X : List Vec) (thr : Rat) (f : Nat)
    (C : List (List Rat)) :
    (runFrom p k X thr f C).2 = mstepL p X (runFrom p k X thr f C).1 k ∧
    (runFrom p k X thr f C).1.length = X.length ∧ ∀ l ∈ (runFrom p k X thr f C).1, l < k := by
  induction f generalizing C with
  | zero =>
      have hr := estep_labels_in_range p X (centresOf C) k hk
      exact ⟨rfl, hr.1, hr.2⟩
  | succ f ih =>
      simp only [runFrom]
      split_ifs
      · have hr := estep_labels_in_range p X (centresOf C) k hk
        exact ⟨rfl, hr.1, hr.2⟩
      · exact ih _

/-- allowing one more iteration never increases the WCSS of the returned solution -/
theorem runFrom_succ_le (p k : Nat) (hk : 0 < k) (X : List Vec) (thr : Rat) (f : Nat)
    (C : List (List Rat)) :
    solWcss p X (runFrom p k X thr (f + 1) C) ≤ solWcss p X (runFrom p k X thr f C) := by
  induction f generalizing C with
  | zero =>
      simp only [runFrom]
      split_ifs
      · exact le_refl _
      · have hr := estep_labels_in_range p X (centresOf C) k hk
        exact kmStep_wcss_le p k hk X _ _ hr.1 hr.2
  | succ f ih =>
      rw [runFrom]
      conv_rhs => rw [runFrom]
      split_ifs
      · exact le_refl _
      · exact ih _

/-- "from a fixed initial labelling running more iterations never increases the within-cluster
    sum of squares of the returned solution": `kmeans` with `maxiter = m'` is never worse than
    with `maxiter = m ≤ m'` (same data, cluster count, initial labels and `delta`). -/
theorem kmeans_wcss_antitone (p : Nat) (X : List Vec) (hX : X ≠ []) (k0 : Nat) (z0 : List Nat)
    (delta : Rat) (m m' : Nat) (hm : 1 ≤ m) (hmm : m ≤ m') :
    wcss p X (kmeans p X k0 z0 m' delta).1 (centresOf (kmeans p X k0 z0 m' delta).2.1)
      ≤ wcss p X (kmeans p X k0 z0 m delta).1 (centresOf (kmeans p X k0 z0 m delta).2.1) := by
  have hk : 0 < min (max k0 1) X.length := by
    have : 0 < X.length := List.length_pos_iff.mpr hX
    omega
  obtain ⟨t, rfl⟩ := Nat.exists_eq_add_of_le hmm
  simp only [kmeans]
  induction t with
  | zero => exact le_refl _
  | succ t ih =>
      have hstep := runFrom_succ_le p _ hk X (delta * vdata p X) (m + t - 1)
        (mstepL p X z0 (min (max k0 1) X.length))
      have e : m + (t + 1) - 1 = (m + t - 1) + 1 := by omega
      rw [e]
      exact le_trans hstep (ih (by omega))

/-- the solution returned by `kmeans`: labels in range, one per item, and centres equal to
    the means of their members (global mean for an empty cluster). -/
theorem kmeans_returns_valid (p : Nat) (X : List Vec) (hX : X ≠ []) (k0 : Nat) (z0 : List Nat)
    (delta : Rat) (m : Nat) :
    let r := kmeans p X k0 z0 m delta
    let k := min (max k0 1) X.length
    r.1.length = X.length ∧ (∀ l ∈ r.1, l < k) ∧
      ∀ q, q < k → ∀ d, d < p → centresOf r.2.1 q d = mstep X r.1 q d := by
  have hk : 0 < min (max k0 1) X.length := by
    have : 0 < X.length := List.length_pos_iff.mpr hX
    omega
  have h := runFrom_returns_means p _ hk X (delta * vdata p X) (m - 1)
    (mstepL p X z0 (min (max k0 1) X.length))
  refine ⟨h.2.1, h.2.2, ?_⟩
  intro q hq d hd
  simp only [kmeans]
  rw [h.1]
  exact centresOf_mstepL p X _ _ q d hq hd

/-! ## Ward: the cost of a merge is the merged within-cluster sum of squares -/

/-- `_inertia` on the accumulated features `(n, Σx, Σx²)` of a set of points is the
    within-cluster sum of squares of that set about its mean ("for Ward, the merged
    within-cluster sum of squares"); adding features is taking the union. -/
theorem ward_cost_is_merged_wcss (p : Nat) (A B : List Vec) (hA : A ≠ []) :
    ((featOf p A).add (featOf p B)).inertia p = ssq p (A ++ B) (meanv (A ++ B)) := by
  rw [featOf_add, featOf_inertia]
  exact inertiaF_eq_ssq p (A ++ B) (by simp [hA])

/-- Ward's cost is super-additive: merging never costs less than the two clusters' own sums of
    squares together. -/
theorem ward_cost_superadditive (p : Nat) (A B : List Vec) (hA : A ≠ []) (hB : B ≠ []) :
    (featOf p A).inertia p + (featOf p B).inertia p ≤ ((featOf p A).add (featOf p B)).inertia p := by
  rw [ward_cost_is_merged_wcss p A B hA, featOf_inertia, featOf_inertia,
    inertiaF_eq_ssq p A hA, inertiaF_eq_ssq p B hB, ssq_append]
  have h1 := ssq_mean_le p A (meanv (A ++ B))
  have h2 := ssq_mean_le p B (meanv (A ++ B))
  linarith

/-- "non-decreasing heights from children to parents": the height given to a merge (its cost)
    is at least the height of either child (the cost at which the child was formed, `0` for an
    input item). -/
theorem ward_height_child_le_parent (p : Nat) (A B : List Vec) (hA : A ≠ []) (hB : B ≠ []) :
    (featOf p A).inertia p ≤ ((featOf p A).add (featOf p B)).inertia p ∧
    (featOf p B).inertia p ≤ ((featOf p A).add (featOf p B)).inertia p := by
  have h := ward_cost_superadditive p A B hA hB
  have hA0 : 0 ≤ (featOf p A).inertia p := by
    rw [featOf_inertia, inertiaF_eq_ssq p A hA]; exact ssq_nonneg p A _
  have hB0 : 0 ≤ (featOf p B).inertia p := by
    rw [featOf_inertia, inertiaF_eq_ssq p B hB]; exact ssq_nonneg p B _
  constructor <;> linarith

/-- an input item is a leaf of height `0` -/
theorem ward_leaf_height_zero (p : Nat) (x : Vec) : (featOf p [x]).inertia p = 0 := by
  rw [featOf_inertia, inertiaF_eq_ssq p [x] (by simp)]
  have : ∀ d, meanv [x] d = x d := by intro d; simp [meanv, colsum]
  simp [ssq, sqDist, this, sumTo_zero]

/-! ## Ward: each step merges the cheapest pair joined by an edge -/

/-- "merging only clusters joined by an edge … each merge is the cheapest admissible one":
    the pair merged by one iteration of `ward` is a live edge of the auxiliary graph, its cost
    is minimal among all live edges, it is the first such edge, the merge is recorded, and the
    height stored for the new node is `max(cost, height[i], height[j])`. -/
theorem ward_step_cheapest_edge (p : Nat) (s : WState) (hne : s.sk.edges ≠ []) :
    let m := pickEdge p s
    let e := s.sk.edges.getD m (0, 0)
    m < s.sk.edges.length ∧ e ∈ s.sk.edges ∧
    (∀ e' ∈ s.sk.edges, edgeCost p s e ≤ edgeCost p s e') ∧
    (∀ i, i < m → edgeCost p s e < edgeCost p s (s.sk.edges.getD i (0, 0))) ∧
    (wardStep p s).sk = s.sk.step e.1 e.2 ∧
    (wardStep p s).hs = s.hs.push (max (edgeCost p s e) (max (heightAt s e.1) (heightAt s e.2))) := by
  have hpos : 0 < s.sk.edges.length := List.length_pos_iff.mpr hne
  have hsize : ((s.sk.edges.map (edgeCost p s)).toArray).size = s.sk.edges.length := by simp
  have hcost : ∀ i, i < s.sk.edges.length →
      ((s.sk.edges.map (edgeCost p s)).toArray).getD i 0 = edgeCost p s (s.sk.edges.getD i (0, 0)) := by
    intro i hi
    simp [Array.getD, List.getD_eq_getElem?_getD, hi]
  have hm : pickEdge p s < s.sk.edges.length := by
    unfold pickEdge
    simp only [hsize]
    exact argminFirst_lt _ _ hpos
  refine ⟨hm, ?_, ?_, ?_, rfl, ?_⟩
  · simp only [List.getD_eq_getElem?_getD, List.getElem?_eq_getElem hm, Option.getD_some]
    exact List.getElem_mem hm
  · intro e' he'
    obtain ⟨i, hi, rfl⟩ := List.getElem_of_mem he'
    have h := argminFirst_le (fun e => ((s.sk.edges.map (edgeCost p s)).toArray).getD e 0)
      ((s.sk.edges.map (edgeCost p s)).toArray).size i (by simpa using hi)
    have hm' := hm
    unfold pickEdge at hm'
    simp only at h hm'
    rw [hcost _ hm', hcost i hi] at h
    simpa [pickEdge, List.getD_eq_getElem?_getD, hi] using h
  · intro i hi
    have h := argminFirst_first (fun e => ((s.sk.edges.map (edgeCost p s)).toArray).getD e 0)
      ((s.sk.edges.map (edgeCost p s)).toArray).size i hi
    have hm' := hm
    unfold pickEdge at hm'
    simp only at h hm'
    have hi' : i < s.sk.edges.length := lt_trans hi hm
    rw [hcost _ hm', hcost i hi'] at h
    exact h
  · simp only [wardStep, mergeInto]
    congr 2
    have := hcost _ hm
    simp only [Array.getD, List.getD_eq_getElem?_getD] at this ⊢
    simp [hm]

/-- "one binary merge per non-leaf … a forest": after clusters `i` and `j` are merged into the new
    node `k`, neither of them is an endpoint of a live edge any more (so no node is ever merged
    twice: every node gets at most one parent and every non-leaf exactly two children), no
    live edge is a loop, and every live edge comes from an edge of the previous graph by
    renaming `i, j ↦ k` (the new cluster is adjacent only to former neighbours of `i` or `j`:
    merges only ever join clusters connected by an edge of the constraint graph). -/
theorem ward_step_children_leave_graph (edges : List (Nat × Nat)) (i j k : Nat)
    (hki : k ≠ i) (hkj : k ≠ j) :
    ∀ e ∈ stepEdges edges i j k,
      (e.1 ≠ i ∧ e.1 ≠ j ∧ e.2 ≠ i ∧ e.2 ≠ j ∧ e.1 ≠ e.2) ∧
      ∃ e0 ∈ edges, e = (relabel i j k e0.1, relabel i j k e0.2) := by
  intro e he
  have h := dedupK_subset _ _ _ _ he
  rw [List.mem_filter, List.mem_map] at h
  obtain ⟨⟨e0, he0, rfl⟩, hne⟩ := h
  have h1 := relabel_ne i j k e0.1 hki hkj
  have h2 := relabel_ne i j k e0.2 hki hkj
  refine ⟨⟨h1.1, h1.2, h2.1, h2.2, ?_⟩, e0, he0, rfl⟩
  simpa using hne

/-- the new node of a `ward` iteration is numbered after every existing node, its feature is
    the sum of its two children's features (so its cost is the merged within-cluster
    sum of squares by `ward_cost_is_merged_wcss`). -/
theorem ward_step_new_node (p : Nat) (s : WState) :
    let e := s.sk.edges.getD (pickEdge p s) (0, 0)
    (wardStep p s).feats.size = s.feats.size + 1 ∧
    (wardStep p s).feats.getD s.feats.size ⟨0, [], []⟩ = (featAt s e.1).add (featAt s e.2) ∧
    (wardStep p s).sk.edges = stepEdges s.sk.edges e.1 e.2 s.sk.size := by
  simp [wardStep, mergeInto, Array.getD, Skel.step]

/-! ## Cutting the dendrogram -/

/-- `split(k)` cuts exactly `k − nbcc` nodes (`nbcc` = number of trees), whatever ties the
    heights have, when `k` is between the number of trees and the number of leaves. -/
theorem split_cut_count (parents : List Nat) (k : Nat) (hk : k ≤ nbLeaves parents)
    (hV : nbLeaves parents ≤ parents.length) :
    cutCount parents k + nbTrees parents = max k (nbTrees parents) := by
  unfold cutCount
  omega

/-! ## Non-vacuity -/

example : estep 1 [vecOf [0], vecOf [1], vecOf [2]] (centresOf [[0], [2]]) 2 = [0, 0, 1] := by
  decide +kernel   -- the tie at 1 goes to the first centre
example : mstepL 1 [vecOf [0], vecOf [1], vecOf [2]] [0, 0, 2] 3 = [[1/2], [1], [2]] := by
  decide +kernel   -- empty cluster 1 gets the global mean
example : ((featOf 1 [vecOf [0]]).add (featOf 1 [vecOf [1], vecOf [3]])).inertia 1 = 14/3 := by
  decide +kernel
example : (ward 1 [[0], [1], [3], [7]] [(0, 1), (1, 2), (2, 3)]).sk.ms = [(0, 1), (4, 2), (5, 3)] ∧
    (ward 1 [[0], [1], [3], [7]] [(0, 1), (1, 2), (2, 3)]).hs.toList = [0, 0, 0, 0, 1/2, 14/3, 115/4] := by
  decide +kernel
example : partition [5, 5, 6, 6, 7, 8, 7, 8, 8] [0, 0, 0, 0, 0, 1/2, 1/2, 2, 10] 2
    = some [5, 5, 6, 6, 4] := by decide +kernel   -- cut at height 2: three groups (named by their roots)
example : cutCount [5, 5, 6, 6, 7, 8, 7, 8, 8] 4 = 3 := by decide +kernel

end NipyVerif.C14
