/-
C18 (wave 3) — real-analysis facts behind three assumptions of the exact model (Mathlib's `Real.exp`,
`Real.log`, `Real.sqrt`; nothing here is imported by the driver):

* the width constant: `sqrt(8 log 2)` squared is `8 log 2`, and the Gaussian of standard deviation
  `fwhm / sqrt(8 log 2)` is at half its maximum at distance `fwhm / 2` — the requested width *is* a
  full width at half maximum (the exponent there is `c²/8`: `half_maximum_at_half_fwhm`);
* the cut-off: `exp(−15)` is above `_crop`'s tolerance `1e-10`, so the support of the stored kernel is
  exactly `{exponent ≤ 15}` as the model takes it (`Geom.supp`);
* `E q = exp(−q)` meets the hypotheses of the normalisation theorems (`E 0 = 1`, `0 < E ≤ 1` on `[0, ∞)`).
-/
import Mathlib.Analysis.Complex.ExponentialBounds
import Mathlib.Analysis.SpecialFunctions.Log.Basic
import Mathlib.Analysis.Real.Sqrt

namespace NipyVerif.C18
open Real

/-- `c = sqrt(8 log 2)` is positive and `c² = 8 log 2` -/
theorem width_const_sq : 0 < sqrt (8 * log 2) ∧ sqrt (8 * log 2) ^ 2 = 8 * log 2 := by
  have h : 0 < 8 * log 2 := by have := log_pos (by norm_num : (1 : ℝ) < 2); linarith
  exact ⟨sqrt_pos.mpr h, sq_sqrt h.le⟩

/-- **the requested width is a full width at half maximum**: with `σ = fwhm / sqrt(8 log 2)` the
    Gaussian `exp(−d²/(2σ²))` takes the value `1/2` at `d = fwhm / 2`, for every positive width -/
theorem gaussian_half_maximum (fwhm : ℝ) (hf : 0 < fwhm) :
    exp (-((fwhm / 2) ^ 2 / (2 * (fwhm / sqrt (8 * log 2)) ^ 2))) = 1 / 2 := by
  obtain ⟨hc, hsq⟩ := width_const_sq
  have e : (fwhm / 2) ^ 2 / (2 * (fwhm / sqrt (8 * log 2)) ^ 2) = log 2 := by
    rw [div_pow, div_pow, hsq]
    have : log 2 ≠ 0 := ne_of_gt (log_pos (by norm_num))
    field_simp
    ring
  rw [e, exp_neg, exp_log (by norm_num)]
  norm_num

/-- the exponent `c²/8` of `half_maximum_at_half_fwhm` is `log 2` for `c = sqrt(8 log 2)` -/
theorem half_maximum_exponent : exp (-(sqrt (8 * log 2) ^ 2 / 8)) = 1 / 2 := by
  rw [width_const_sq.2, mul_div_cancel_left₀ _ (by norm_num : (8 : ℝ) ≠ 0), exp_neg, exp_log (by norm_num)]
  norm_num

/-- the resel constant: `sqrt(4 log 2)² = 4 log 2`, i.e. `sqrt(8 log 2)² = 2 · sqrt(4 log 2)²` -/
theorem resel_const_sq : sqrt (4 * log 2) ^ 2 = 4 * log 2 ∧ sqrt (8 * log 2) ^ 2 = 2 * sqrt (4 * log 2) ^ 2 := by
  have h : 0 < log 2 := log_pos (by norm_num)
  have h4 : sqrt (4 * log 2) ^ 2 = 4 * log 2 := sq_sqrt (by linarith)
  exact ⟨h4, by rw [h4, width_const_sq.2]; ring⟩

/-- **`exp(−15)` exceeds `_crop`'s tolerance `1e-10`**: every voxel inside the cut-off survives the
    crop, so the stored kernel's bounding box is the bounding box of `{exponent ≤ 15}` -/
theorem exp_neg_cutoff_gt_tol : (1 : ℝ) / 10 ^ 10 < exp (-15) := by
  have h3 : exp 15 < 3 ^ 15 := by
    have : exp 15 = exp 1 ^ (15 : ℕ) := by rw [← exp_nat_mul]; norm_num
    rw [this]
    exact pow_lt_pow_left₀ exp_one_lt_three (exp_pos 1).le (by norm_num)
  rw [exp_neg, one_div, inv_lt_inv₀ (by norm_num) (exp_pos 15)]
  calc exp 15 < 3 ^ 15 := h3
    _ < 10 ^ 10 := by norm_num

/-- monotone in the exponent: every kernel value inside the cut-off is above the tolerance -/
theorem kernel_value_gt_tol (q : ℝ) (hq : q ≤ 15) : (1 : ℝ) / 10 ^ 10 < exp (-q) :=
  lt_of_lt_of_le exp_neg_cutoff_gt_tol (exp_le_exp.mpr (by linarith))

/-- `E q = exp(−q)` meets the hypotheses of `norms_ge_one` / `gaussKer_bounds` -/
theorem exp_neg_meets_kernel_hypotheses :
    exp (-0) = 1 ∧ ∀ q : ℝ, 0 ≤ q → 0 < exp (-q) ∧ exp (-q) ≤ 1 := by
  refine ⟨by simp, fun q hq => ⟨exp_pos _, ?_⟩⟩
  rw [← exp_zero]; exact exp_le_exp.mpr (by linarith)

end NipyVerif.C18
