/-
C02 (continued) — property theorems about the parts of the model in `Model/C02B.lean` and the
orientation loop in `Model/C02.lean`: iteration over an axis (asarray False / True), `ImageList`,
`subsample` / `fromarray`, `xslice / yslice / zslice / bounding_box`, the store of image objects
("the original image is left unchanged", results do not depend on what ran before), naturality in
the voxel values, and `io_orientation`'s loop.

Vocabulary (Lemmas/C02B.lean): `ResOf.shape / ResOf.dataAt` — shape and values of an element
that is an image or (1-D source) a bare value; `keepRow d ρ` / `dropRow d names` — numbering and
names of the reference coordinates when row `d` was dropped (`d = none`: nothing dropped);
`mapOut f` — an outcome with every voxel value passed through `f`; `outcomeOn store instr` — what
an instruction gives on a given store.
-/
import NipyVerif.Lemmas.C02B

namespace NipyVerif.C02

variable {α β : Type}

/-! ## iterating over an axis -/

/-- `iter_axis(img, axis, asarray=True)` yields an array for *every* position of the rolled
    first axis, for every number of axes — for a 1-D image the elements are 0-d arrays (this is
    where `rimg[i].get_fdata()` instead of `rimg.get_fdata()[i]` fails: `rimg[i]` is a bare value
    there). -/
theorem iter_axis_asarray_total (g r : ImgOf α) (a : AxId) (k : Nat) (o : List (Option Nat))
    (hr : rollimg g a (.int 0) o = .ok r) (hk : k < r.shape.headD 0) :
    iterAxisArr g a k o = .ok { shape := r.shape.tail, data := fun j => r.data (k :: j) } :=
  iterAxisArr_ok g r a k o hr hk

/-- element `k` with `asarray=True` is exactly the data (shape and every value) of element `k`
    with `asarray=False`, whether that element is an image or a bare value -/
theorem iter_axis_asarray_is_data (g : ImgOf α) (a : AxId) (k : Nat) (o : List (Option Nat))
    (arr : ArrOf α) (res : ResOf α)
    (h1 : iterAxisArr g a k o = .ok arr) (h2 : iterAxis g a k o = .ok res) :
    arr.shape = res.shape ∧ ∀ j, ValidIdx arr.shape j → arr.data j = res.dataAt j :=
  iterAxisArr_eq_iterAxis g a k o arr res h1 h2

/-- `list(iter_axis(img, axis))` for every axis identifier and every orientation parameter: the
    elements partition the image — (element `k`, index `j`) ↦ `τ k j` is a bijection onto the
    voxels of `g`, values are kept, and every image element has `g`'s reference names and the
    world coordinates of the voxels it shows. -/
theorem iter_axis_partition (g : ImgOf α) (a : AxId) (o : List (Option Nat)) (l : List (ResOf α))
    (hw : WF g) (hne : g.shape ≠ []) (hres : iterAll g a o = .ok l) :
    ∃ τ : Nat → List Nat → List Nat,
      (∀ k (hk : k < l.length) j, ValidIdx (l[k]).shape j →
        ValidIdx g.shape (τ k j) ∧ (l[k]).dataAt j = g.data (τ k j) ∧
        ∀ h, l[k] = .img h → h.outNames = g.outNames ∧ WF h ∧ ∀ ρ, h.world j ρ = g.world (τ k j) ρ) ∧
      (∀ k k' j j' (hk : k < l.length) (hk' : k' < l.length), ValidIdx (l[k]).shape j →
        ValidIdx (l[k']).shape j' → τ k j = τ k' j' → k = k' ∧ j = j') ∧
      (∀ i, ValidIdx g.shape i → ∃ k j, ∃ hk : k < l.length, ValidIdx (l[k]).shape j ∧ τ k j = i) :=
  iterAll_bijection g a o l hw hne hres

/-! ## ImageList -/

/-- `ImageList.from_image(img, axis, dropout)`: the items partition the image.  (item `k`,
    index `j`) ↦ `τ k j` is a bijection onto the voxels of `g`; every item is a well-formed
    image of one common shape holding the values of its voxels; every reference coordinate an
    item has (all of them, or — `dropout` — all but the dropped row `d`) carries the name and the
    value it has in `g`. -/
theorem from_image_partition (g : ImgOf α) (ax : Option AxId) (dropout : Bool) (o : List (Option Nat))
    (oS : OrntSrc) (items : List (ImgOf α)) (hw : WF g) (hne : g.shape ≠ [])
    (hres : fromImage g ax dropout o oS = .ok items) :
    ∃ τ : Nat → List Nat → List Nat,
      (∀ k (hk : k < items.length), WF items[k] ∧ (items[k]).shape = (items[0]'(by omega)).shape ∧
        ∃ d : Option Nat, (items[k]).outNames = dropRow d g.outNames ∧
          ∀ j, ValidIdx (items[k]).shape j →
            ValidIdx g.shape (τ k j) ∧ (items[k]).data j = g.data (τ k j) ∧
            ∀ ρ, (items[k]).world j ρ = g.world (τ k j) (keepRow d ρ)) ∧
      (∀ k k' j j' (hk : k < items.length) (hk' : k' < items.length), ValidIdx (items[k]).shape j →
        ValidIdx (items[k']).shape j' → τ k j = τ k' j' → k = k' ∧ j = j') ∧
      (∀ i, ValidIdx g.shape i →
        ∃ k j, ∃ hk : k < items.length, ValidIdx (items[k]).shape j ∧ τ k j = i) :=
  fromImage_bijection g ax dropout o oS items hw hne hres

/-- refusals of `from_image`: no axis → `ValueError`; an axis without input dimension →
    `AxisError`; a 1-D image is never accepted (its slices are not images). -/
theorem from_image_refusals (g : ImgOf α) (dropout : Bool) (o : List (Option Nat)) (oS : OrntSrc) :
    fromImage g none dropout o oS = .error .valueError ∧
    (∀ ax oa, ioAxisIndices g.inNames g.outNames o ax = .ok (none, oa) →
      fromImage g (some ax) dropout o oS = .error .axisError) ∧
    (∀ n ax items, g.shape = [n] → 0 < n → WF g → fromImage g ax dropout o oS ≠ .ok items) := by
  refine ⟨rfl, fun ax oa h => by simp [fromImage, h], fun n ax items hs hn hw => ?_⟩
  exact fromImage_1d_refused g n hs hn hw ax dropout o oS items

/-- `get_list_data(axis)` on a non-empty list whose items have shape `s`, for every `axis` in
    `-(ndim+1) ≤ axis ≤ ndim`: the list dimension sits at position `a` of the result, and
    result index ↔ (item number, index in the item) is a bijection that keeps every value. -/
theorem get_list_data_bijection (items : List (ImgOf α)) (s : List Nat) (ax : Int)
    (hsh : ∀ it ∈ items, it.shape = s) (hne : items ≠ [])
    (hax : -((s.length : Int) + 1) ≤ ax ∧ ax < (s.length : Int) + 1) :
    ∃ (arr : ArrOf α) (a : Nat), getListData items (some ax) = .ok arr ∧
      (a : Int) = (if ax < 0 then ax + ((s.length : Int) + 1) else ax) ∧ a ≤ s.length ∧
      arr.shape = s.take a ++ items.length :: s.drop a ∧
      (∀ idx, ValidIdx arr.shape idx →
        ∃ hk : idx.getD a 0 < items.length, ValidIdx s (idx.eraseIdx a) ∧
          arr.data idx = (items[idx.getD a 0]).data (idx.eraseIdx a)) ∧
      (∀ k j, k < items.length → ValidIdx s j →
        ValidIdx arr.shape (j.insertIdx a k) ∧ (j.insertIdx a k).getD a 0 = k ∧
        (j.insertIdx a k).eraseIdx a = j) :=
  getListData_spec items s ax hsh hne hax

/-- refusals of `get_list_data`: no axis → `ValueError`; empty list → `IndexError`; an axis
    outside `-(ndim+1) ≤ axis ≤ ndim` → `ValueError`. -/
theorem get_list_data_refusals (items : List (ImgOf α)) :
    getListData items none = .error .valueError ∧
    (∀ ax, getListData ([] : List (ImgOf α)) (some ax) = .error .indexError) ∧
    (∀ (it : ImgOf α) (rest : List (ImgOf α)) ax, ((it.shape.length : Int) + 1 ≤ ax ∨ ax < -((it.shape.length : Int) + 1)) →
      getListData (it :: rest) (some ax) = .error .valueError) := by
  refine ⟨rfl, fun _ => rfl, fun it rest ax h => by simp only [getListData]; rw [if_pos h]⟩

/-- slicing an `ImageList` follows Python's slice semantics (the same `normAxis` as array
    slicing): the new list holds, in order, the items at `start + t·step`, each an item of the old
    list, no item twice. -/
theorem list_slice_spec (items l : List (ImgOf α)) (a b c : Option Int)
    (h : listGetitem items (.slc a b c) = .ok (.list l)) :
    ∃ s st len, normAxis items.length (.slc a b c) = .ok (.range s st len) ∧ l.length = len ∧
      (∀ t, t < len → ((s : Int) + (t : Int) * st).toNat < items.length ∧
        l[t]? = items[((s : Int) + (t : Int) * st).toNat]?) ∧
      (∀ t t', t < len → t' < len →
        ((s : Int) + (t : Int) * st).toNat = ((s : Int) + (t' : Int) * st).toNat → t = t') :=
  listGetitem_slice_spec items l a b c h

/-- integer indexing of an `ImageList` returns the stored item (negative positions count from
    the end); anything that is neither `int` nor slice is refused with `TypeError` -/
theorem list_index_spec (items : List (ImgOf α)) :
    (∀ i it, listGetitem items (.int i) = .ok (.item it) →
      (0 ≤ i ∧ i < items.length ∧ items[i.toNat]? = some it) ∨
      (-(items.length : Int) ≤ i ∧ i < 0 ∧ items[(i + items.length).toNat]? = some it)) ∧
    listGetitem items .other = .error .typeError :=
  ⟨fun i it h => listGetitem_int_spec items i it h, rfl⟩

/-- `ImageList.__setitem__` with an `int` position replaces exactly that item (negative
    positions count from the end) and nothing else -/
theorem list_setitem_spec (items l : List (ImgOf α)) (i : Int) (v : ImgOf α)
    (h : listSetitem items i v = .ok l) :
    ∃ k, k < items.length ∧ ((0 ≤ i ∧ (k : Int) = i) ∨ (i < 0 ∧ (k : Int) = i + items.length)) ∧
      l = items.set k v := listSetitem_spec items l i v h

/-! ## subsample, fromarray, make_xyz_image -/

/-- `make_xyz_image(data, xyz_affine | (xyz_affine, zooms), world)`: refused unless the array has
    at least three axes and one zoom per further axis; in the image it returns, voxel `j` lies at
    `xyz · (j₀, j₁, j₂, 1)` in the first three coordinates and at `zoom · j_ρ` in each further one
    (zoom 1 when none are given). -/
theorem make_xyz_world (shape : List Nat) (data : List Nat → α) (xyz : List (List Rat))
    (zooms : Option (List Rat)) (world : List String) (g : ImgOf α)
    (h : makeXyz shape data xyz zooms world = .ok g) :
    3 ≤ shape.length ∧ WF g ∧ g.shape = shape ∧ g.data = data ∧ g.outNames = world ∧
    ∃ z : List Rat, z.length = shape.length - 3 ∧ (zooms = some z ∨ (zooms = none ∧ ∀ x ∈ z, x = 1)) ∧
      ∀ j, ValidIdx shape j →
        (∀ ρ, ρ < 3 → g.world j ρ = (xyz.getD ρ []).getD 3 0
          + ((j.getD 0 0 : Nat) : Rat) * (xyz.getD ρ []).getD 0 0
          + ((j.getD 1 0 : Nat) : Rat) * (xyz.getD ρ []).getD 1 0
          + ((j.getD 2 0 : Nat) : Rat) * (xyz.getD ρ []).getD 2 0) ∧
        (∀ ρ, 3 ≤ ρ → ρ < shape.length → g.world j ρ = ((j.getD ρ 0 : Nat) : Rat) * z.getD (ρ - 3) 0) := by
  obtain ⟨hN, hw, z, hz, hzz, rfl⟩ := makeXyz_spec shape data xyz zooms world g h
  exact ⟨hN, hw, rfl, rfl, rfl, z, hz, hzz, fun j hj => xyzImg_world shape data xyz z world hN j hj⟩


/-- `subsample(img, s)` is `img[s]`: everything proved for slicing (`slice_world`) holds -/
theorem subsample_is_getitem (g : ImgOf α) (sl : List Slicer) : subsample g sl = getitem g sl := rfl

/-- `fromarray(data, innames, outnames)` is refused (`ValueError`) exactly when the names do not
    fit the array, and otherwise gives a well-formed image in which voxel `j` sits at world
    position `j` -/
theorem fromarray_world (shape : List Nat) (data : List Nat → α) (inN outN : List String) :
    (fromArray shape data inN outN = .error .valueError ↔
      (inN.length ≠ outN.length ∨ inN.length ≠ shape.length ∨ ¬ inN.Nodup ∨ ¬ outN.Nodup)) ∧
    ∀ g, fromArray shape data inN outN = .ok g →
      WF g ∧ g.shape = shape ∧ g.data = data ∧ g.inNames = inN ∧ g.outNames = outN ∧
      ∀ j, ValidIdx shape j → ∀ ρ, ρ < shape.length → g.world j ρ = ((j.getD ρ 0 : Nat) : Rat) :=
  fromArray_spec shape data inN outN

/-! ## slices.py -/

/-- `xslice / yslice / zslice` (`w = 0, 1, 2`): one point per range is a division by zero;
    otherwise point `[i, j]` of the plane lies at `fixed` in coordinate `w` and at
    `min + index · (max - min)/(no - 1)` in the two others. -/
theorem plane_slice_affine (w : Nat) (f alo ahi : Rat) (ano : Nat) (blo bhi : Rat) (bno : Nat)
    (world : List String) (g : ImgOf Unit)
    (h : planeSlice w f alo ahi ano blo bhi bno world = .ok g) :
    ano ≠ 1 ∧ bno ≠ 1 ∧ g.shape = [ano, bno] ∧ g.outNames = world ∧ WF g ∧
    ∀ (i j ρ : Nat), g.world [i, j] ρ =
      (if ρ = w then f else if ρ = (if w = 0 then 1 else 0) then alo
        else if ρ = (if w = 2 then 1 else 2) then blo else 0)
      + ((i : Rat) * (if ρ = (if w = 0 then 1 else 0) then (ahi - alo) / ((ano : Rat) - 1) else 0)
        + (j : Rat) * (if ρ = (if w = 2 then 1 else 2) then (bhi - blo) / ((bno : Rat) - 1) else 0)) :=
  planeSlice_spec w f alo ahi ano blo bhi bno world g h

theorem plane_slice_refusal (w : Nat) (f alo ahi : Rat) (ano : Nat) (blo bhi : Rat) (bno : Nat)
    (world : List String) (h : ano = 1 ∨ bno = 1) :
    planeSlice w f alo ahi ano blo bhi bno world = .error .zeroDivision := by
  unfold planeSlice tick
  rcases h with h | h
  · simp [h]
  · by_cases ha : ano = 1 <;> simp [ha, h]

/-- the documented meaning of the ranges: voxel `[0, 0]` at the two minima, voxel
    `[ano-1, bno-1]` at the two maxima, the fixed coordinate the same everywhere -/
theorem plane_slice_corners (w : Nat) (hw : w < 3) (f alo ahi : Rat) (ano : Nat) (blo bhi : Rat)
    (bno : Nat) (world : List String) (g : ImgOf Unit) (ha : 2 ≤ ano) (hb : 2 ≤ bno)
    (h : planeSlice w f alo ahi ano blo bhi bno world = .ok g) :
    (∀ i j, g.world [i, j] w = f) ∧
    g.world [0, 0] (if w = 0 then 1 else 0) = alo ∧ g.world [0, 0] (if w = 2 then 1 else 2) = blo ∧
    g.world [ano - 1, bno - 1] (if w = 0 then 1 else 0) = ahi ∧
    g.world [ano - 1, bno - 1] (if w = 2 then 1 else 2) = bhi :=
  planeSlice_corners w hw f alo ahi ano blo bhi bno world g ha hb h

/-- `bounding_box(coordmap, shape)`: a shape of the wrong length is a `ValueError`, an empty
    axis an `IndexError`; otherwise, per output coordinate, every voxel lies between the two
    limits and both limits are attained by voxels. -/
theorem bounding_box_spec (cols : List Vec) (off : Vec) (nout : Nat) (shape : List Nat) :
    (shape.length ≠ cols.length → boundingBox cols off nout shape = .error .valueError) ∧
    (shape.length = cols.length → 0 ∈ shape → boundingBox cols off nout shape = .error .indexError) ∧
    (shape.length = cols.length → 0 ∉ shape →
      ∃ b, boundingBox cols off nout shape = .ok b ∧ b.length = nout ∧
        ∀ ρ (hρ : ρ < b.length),
          (∀ idx, ValidIdx shape idx → (b[ρ]).1 ≤ off ρ + lin cols idx ρ ∧ off ρ + lin cols idx ρ ≤ (b[ρ]).2) ∧
          (∃ idx, ValidIdx shape idx ∧ off ρ + lin cols idx ρ = (b[ρ]).1) ∧
          (∃ idx, ValidIdx shape idx ∧ off ρ + lin cols idx ρ = (b[ρ]).2)) :=
  boundingBox_spec cols off nout shape

/-- the bounding box of an image read through an index map with equal world coordinates (a
    slice, a transposition: `slice_world`, `reorder_axes_world`) lies inside the bounding box of
    the image it was taken from, coordinate by coordinate -/
theorem bounding_box_of_derived_inside (g h : ImgOf α) (σ : List Nat → List Nat)
    (he : IndexEmbeds g h σ) (bg bh : List (Rat × Rat))
    (hg : boundingBox g.cols g.off g.outNames.length g.shape = .ok bg)
    (hh : boundingBox h.cols h.off h.outNames.length h.shape = .ok bh) :
    ∀ ρ (h1 : ρ < bg.length) (h2 : ρ < bh.length), (bg[ρ]).1 ≤ (bh[ρ]).1 ∧ (bh[ρ]).2 ≤ (bg[ρ]).2 := by
  intro ρ h1 h2
  obtain ⟨_, hv, _⟩ := he
  obtain ⟨g1, g2, g3⟩ := boundingBox_spec g.cols g.off g.outNames.length g.shape
  obtain ⟨k1, k2, k3⟩ := boundingBox_spec h.cols h.off h.outNames.length h.shape
  have hgl : g.shape.length = g.cols.length := by
    by_contra hc; rw [g1 hc] at hg; cases hg
  have hg0 : 0 ∉ g.shape := by
    intro hc; rw [g2 hgl hc] at hg; cases hg
  have hhl : h.shape.length = h.cols.length := by
    by_contra hc; rw [k1 hc] at hh; cases hh
  have hh0 : 0 ∉ h.shape := by
    intro hc; rw [k2 hhl hc] at hh; cases hh
  obtain ⟨b, e1, _, e3⟩ := g3 hgl hg0
  obtain ⟨b', f1, _, f3⟩ := k3 hhl hh0
  rw [hg] at e1; cases e1
  rw [hh] at f1; cases f1
  obtain ⟨inG, _, _⟩ := e3 ρ h1
  obtain ⟨_, ⟨i1, v1, m1⟩, ⟨i2, v2, m2⟩⟩ := f3 ρ h2
  have w1 := (hv i1 v1).2.2 ρ
  have w2 := (hv i2 v2).2.2 ρ
  simp only [ImgOf.world] at w1 w2
  constructor
  · rw [← m1, w1]; exact (inG _ (hv i1 v1).1).1
  · rw [← m2, w2]; exact (inG _ (hv i2 v2).1).2

/-! ## no operation looks at, or depends on, anything but (index map, affine, names) -/

/-- naturality in the voxel values: passing every value through any `f` before an operation is
    the same as passing the values of its outcome through `f` — operations move values, they never
    inspect, combine or invent them; refusals do not depend on the values. -/
theorem step_natural (f : α → β) (g : ImgOf α) (op : Op) :
    step (g.map f) op = mapOut f (step g op) := step_map f g op

theorem history_natural (f : α → β) (ops : List Op) (g : ImgOf α) :
    runOps (g.map f) ops = mapOut f (runOps g ops) := runOps_map f ops g

/-- every operation is a pure function of the data *index map* and the coordinate map: run it
    on the image whose voxel `j` holds the index `j` itself, then read the data through the
    resulting index map. -/
theorem step_pure_in_index_map (g : ImgOf α) (op : Op) :
    step g op = mapOut g.data (step ({ g with data := id } : ImgOf (List Nat)) op) := by
  have : g = ImgOf.map g.data ({ g with data := id } : ImgOf (List Nat)) := rfl
  conv_lhs => rw [this]
  exact step_map g.data _ op

/-! ## a store of image objects: nothing changes, nothing depends on what ran before -/

/-- "the original image is left unchanged", model side: whatever program runs, every object
    that was in the store is still there, unchanged, at its place -/
theorem exec_keeps_objects (prog : List Instr) (store : List (ImgOf α)) :
    store <+: (exec store prog).1 := exec_prefix prog store

theorem exec_one_outcome_each (prog : List Instr) (store : List (ImgOf α)) :
    (exec store prog).2.length = prog.length := exec_length prog store

/-- an operation applied to one of the original objects gives what it gives on that object in
    a fresh store — however many operations were applied to it (or to anything else) before, in
    whatever interleaving -/
theorem exec_outcome_fresh (prog : List Instr) (store : List (ImgOf α)) (k : Nat)
    (hk : k < prog.length) (hsrc : (prog[k]).1 < store.length) :
    (exec store prog).2[k]? = some (outcomeOn store prog[k]) :=
  exec_outcome_initial prog store store k hk (List.prefix_refl store) hsrc

/-! ## io_orientation's loop -/

/-- whatever polar factor `R` and processing order the SVD gives, the loop of `io_orientation`
    never pairs one output axis with two input axes -/
theorem io_orientation_injective (R : List (List Rat)) (keys : List Rat) (i j a : Nat) (hij : i ≠ j)
    (hi : (ioOrientFrom R keys).getD i none = some a) :
    (ioOrientFrom R keys).getD j none ≠ some a := ioOrientFrom_injective R keys i j a hij hi

/-- the order `as_xyz_image` hands to `reordered_axes` (`np.argsort` of the orientations) is a
    permutation, whatever the orientations are -/
theorem argsort_is_permutation (keys : List Nat) : isPerm keys.length (argsort keys) = true :=
  argsort_isPerm keys

/-- `axmap(..., 'out2in')` returns an input axis whose orientation is the output axis asked for -/
theorem out2in_inverts (ornts : List (Option Nat)) (i k : Nat) (h : out2in ornts i = some k) :
    k < ornts.length ∧ ornts.getD k none = some i := out2in_spec ornts i k h

/-- `ImageList.from_image(img, axis).get_list_data(axis')`: the array is a re-indexing of the
    image's data — result index ↦ `φ idx` is a bijection onto the voxels of `g` that keeps every
    value (nothing lost, duplicated or invented on the way through the list). -/
theorem from_image_get_list_data (g : ImgOf α) (ax : Option AxId) (dropout : Bool)
    (o : List (Option Nat)) (oS : OrntSrc) (items : List (ImgOf α)) (hw : WF g) (hne : g.shape ≠ [])
    (hres : fromImage g ax dropout o oS = .ok items) (h0 : 0 < items.length) (lax : Int)
    (hax : -(((items[0]).shape.length : Int) + 1) ≤ lax ∧ lax < ((items[0]).shape.length : Int) + 1) :
    ∃ (arr : ArrOf α) (φ : List Nat → List Nat), getListData items (some lax) = .ok arr ∧
      (∀ idx, ValidIdx arr.shape idx → ValidIdx g.shape (φ idx) ∧ arr.data idx = g.data (φ idx)) ∧
      (∀ idx idx', ValidIdx arr.shape idx → ValidIdx arr.shape idx' → φ idx = φ idx' → idx = idx') ∧
      (∀ i, ValidIdx g.shape i → ∃ idx, ValidIdx arr.shape idx ∧ φ idx = i) := by
  obtain ⟨τ, p1, p2, p3⟩ := from_image_partition g ax dropout o oS items hw hne hres
  have hsh : ∀ it ∈ items, it.shape = (items[0]).shape := by
    intro it hit
    obtain ⟨k, hk, rfl⟩ := List.getElem_of_mem hit
    exact (p1 k hk).2.1
  have hnil : items ≠ [] := by intro hc; rw [hc] at h0; simp at h0
  obtain ⟨arr, a, e1, _, e3, e4, e5, e6⟩ :=
    get_list_data_bijection items (items[0]).shape lax hsh hnil hax
  have hlen : ∀ idx, ValidIdx arr.shape idx → a < idx.length := by
    intro idx hidx
    have := ((validIdx_iff _ _).mp hidx).1
    rw [this, e4]; simp; omega
  refine ⟨arr, fun idx => τ (idx.getD a 0) (idx.eraseIdx a), e1, ?_, ?_, ?_⟩
  · intro idx hidx
    obtain ⟨hk, hj, hd⟩ := e5 idx hidx
    obtain ⟨_, hs, _, _, hv⟩ := p1 _ hk
    obtain ⟨v1, v2, _⟩ := hv (idx.eraseIdx a) (by rw [hs]; exact hj)
    exact ⟨v1, by rw [hd, v2]⟩
  · intro idx idx' hidx hidx' he
    obtain ⟨hk, hj, _⟩ := e5 idx hidx
    obtain ⟨hk', hj', _⟩ := e5 idx' hidx'
    obtain ⟨q1, q2⟩ := p2 _ _ _ _ hk hk' (by rw [(p1 _ hk).2.1]; exact hj)
      (by rw [(p1 _ hk').2.1]; exact hj') he
    have l1 := hlen idx hidx
    have l2 := hlen idx' hidx'
    rw [← List.insertIdx_eraseIdx_getElem l1, ← List.insertIdx_eraseIdx_getElem l2]
    rw [getD_lt _ _ 0 l1, getD_lt _ _ 0 l2] at q1
    rw [q1, q2]
  · intro i hi
    obtain ⟨k, j, hk, hj, he⟩ := p3 i hi
    rw [(p1 k hk).2.1] at hj
    obtain ⟨f1, f2, f3⟩ := e6 k j hk hj
    exact ⟨j.insertIdx a k, f1, by simp only [f2, f3]; exact he⟩

/-! ## Non-vacuity: concrete objects meeting the hypotheses -/

/-- a 2 × 3 image with a non-diagonal, flipped affine -/
def exImgB : Img where
  shape := [2, 3]
  inNames := ["i", "j"]
  outNames := ["x", "y"]
  cols := [fun r => if r = 0 then 0 else -2, fun r => if r = 0 then 3 else 1]
  off := fun r => if r = 0 then 1 else 5
  data := fun idx => (idx.getD 0 0 * 3 + idx.getD 1 0 : Nat)

/-- a 1-D image -/
def exImg1 : Img where
  shape := [3]
  inNames := ["i"]
  outNames := ["x"]
  cols := [fun _ => 2]
  off := fun _ => 1
  data := fun idx => (idx.getD 0 0 : Nat)

def lenOf {γ : Type} : Except Err (List γ) → Option Nat
  | .ok l => some l.length
  | _ => none

def arrShape : Except Err (ArrOf Int) → Option (List Nat)
  | .ok a => some a.shape
  | _ => none

example : WF exImgB := ⟨rfl, rfl⟩
example : WF exImg1 := ⟨rfl, rfl⟩
-- the 1-D case of `iter_axis_asarray_total`: three 0-d elements
example : arrShape (iterAxisArr exImg1 (.int (-1)) 2 []) = some [] := by decide +kernel
example : lenOf (iterAll exImg1 (.name "i") []) = some 3 := by decide +kernel
example : lenOf (iterAll exImgB (.name "y") [some 1, some 0]) = some 2 := by decide +kernel
example : lenOf (fromImage exImgB (some (.int 1)) true [some 1, some 0] (.given [some 1])) = some 3 := by
  decide +kernel
example : lenOf (fromImage exImgB (some (.int 1)) false [some 1, some 0] .mono) = some 3 := by
  decide +kernel
example : lenOf (fromImage exImg1 (some (.int 0)) false [some 0] .mono) = none := by decide +kernel
example : arrShape (match fromImage exImgB (some (.int 1)) true [some 1, some 0] (.given [some 1]) with
    | .ok l => getListData l (some (-1)) | .error e => .error e) = some [2, 3] := by decide +kernel
example : (boundingBox exImgB.cols exImgB.off 2 exImgB.shape) = .ok [(1, 7), (3, 7)] := by
  decide +kernel
example : (planeSlice 0 30 (-114) 114 115 (-70) 100 86 ["x", "y", "z"]).toOption.map (·.shape)
    = some [115, 86] := by decide +kernel
-- a tie in |R|: both input axes prefer output 0; the second one gets output 1
example : ioOrientFrom [[1, 1], [1/2, 1]] [-1, -1] = [some 0, some 1] := by decide +kernel
example : monoOrnt [fun r => if r = 1 then -2 else 0, fun r => if r = 0 then 3 else 0] 2 true
    = [some 1, some 0] := by decide +kernel
-- zero TR: `_fix0` pairs the all-zero row with the all-zero column
example : monoOrnt [fun r => if r = 0 then 2 else 0, fun _ => 0] 2 true = [some 0, some 1] := by
  decide +kernel
example : argsort [2, 0, 7, 1] = [1, 3, 0, 2] := by decide +kernel
-- a store: two operations on the same original object, one on a result
example : ((exec [exImgB] [(0, .reorderAxes .rev), (0, .getitem [.idx 1]), (1, .getitem [.idx 2])]).1).length
    = 4 := by decide +kernel

end NipyVerif.C02
