/-
C13 (part K) — property theorems about the exact algebraic cores of the transcendental helpers
(`NipyVerif.Model.C13K`): divergences vanish on equal arguments and are invariant under the symmetries
of the problem for *any* interpretation of `gammaln`, `psi`, `log det`; M-steps of the gamma-Gaussian and
von Mises–Fisher mixtures are equivariant and keep weights / memberships on the simplex; the E/M
alternation accepts only improving steps.
-/
import NipyVerif.Lemmas.C13K
import NipyVerif.Props.C13B

namespace NipyVerif.C13

/-! ## Divergence helpers -/

/-- Clause "divergence helpers … equal the mathematical divergence", algebraic core: `KL(p ‖ p) = 0`
    for the Dirichlet divergence, whatever `gammaln` and `psi` evaluate to. -/
theorem dkl_dirichlet_self_zero (lg psi : Rat → Rat) (K : Nat) (w : Nat → Rat) :
    dklDirichlet lg psi K w w = 0 := by
  unfold dklDirichlet
  have : sumTo K (fun k => (w k - w k) * (psi (w k) - psi (sumTo K w))) = 0 := by
    rw [sumTo_congr (g := fun _ => 0) (fun k _ => by ring), sumTo_const]; ring
  rw [this]; ring

/-- relabelling the classes (same permutation on both arguments) does not change the divergence -/
theorem dkl_dirichlet_label_invariant (lg psi : Rat → Rat) (K : Nat) (w1 w2 : Nat → Rat) (σ : Nat → Nat)
    (hσ : ∀ k, k < K → σ k < K) (hinj : ∀ a, a < K → ∀ b, b < K → σ a = σ b → a = b) :
    dklDirichlet lg psi K (fun k => w1 (σ k)) (fun k => w2 (σ k)) = dklDirichlet lg psi K w1 w2 := by
  unfold dklDirichlet
  rw [sumTo_perm K σ hσ hinj (fun k => lg (w2 k)), sumTo_perm K σ hσ hinj (fun k => lg (w1 k)),
    sumTo_perm K σ hσ hinj w1, sumTo_perm K σ hσ hinj w2,
    sumTo_perm K σ hσ hinj (fun k => (w1 k - w2 k) * (psi (w1 k) - psi (sumTo K w1)))]

/-- `KL(N ‖ N) = 0` for the Gaussian divergence: equal means, equal precisions (`Q` the inverse the
    code computed for `P`), equal log-determinants. -/
theorem dkl_gaussian_self_zero (d : Nat) (ld : Rat) (P Q : Nat → Nat → Rat) (m : Nat → Rat)
    (h : IsInvTo d P Q) : dklGaussian d ld ld P Q m m = 0 := by
  unfold dklGaussian
  rw [traceMul_inverse d P Q h]
  have : quadA d P (fun j => m j - m j) = 0 := by
    unfold quadA
    rw [sumTo_congr (g := fun _ => 0) (fun i _ => by ring), sumTo_const]; ring
  rw [this]; ring

/-- the Gaussian divergence depends on the means through their difference only (translation invariance) -/
theorem dkl_gaussian_translation_invariant (d : Nat) (ld1 ld2 : Rat) (P2 Q1 : Nat → Nat → Rat)
    (m1 m2 t : Nat → Rat) :
    dklGaussian d ld1 ld2 P2 Q1 (fun j => m1 j + t j) (fun j => m2 j + t j) = dklGaussian d ld1 ld2 P2 Q1 m1 m2 := by
  have e : (fun j => (m1 j + t j) - (m2 j + t j)) = fun j => m1 j - m2 j := by funext j; ring
  unfold dklGaussian
  simp only [e]

/-- `KL(W ‖ W) = 0` for the Wishart divergence (equal dof, equal scale, equal normalisers) -/
theorem dkl_wishart_self_zero (d : Nat) (a lw lz : Rat) (B Q : Nat → Nat → Rat) (h : IsInvTo d B Q) :
    dklWishart d a a lw lz lz B Q = 0 := by
  unfold dklWishart
  rw [traceMul_inverse d B Q h]; ring

/-- `dirichlet_eval` is symmetric under relabelling (same permutation of `w` and `alpha`) -/
theorem dirichlet_eval_label_invariant (K : Nat) (alpha lw : Nat → Rat) (logb : Rat) (σ : Nat → Nat)
    (hσ : ∀ k, k < K → σ k < K) (hinj : ∀ a, a < K → ∀ b, b < K → σ a = σ b → a = b) :
    dirichletLog K (fun k => alpha (σ k)) (fun k => lw (σ k)) logb = dirichletLog K alpha lw logb := by
  unfold dirichletLog
  rw [sumTo_perm K σ hσ hinj (fun k => (alpha k - 1) * lw k)]

/-! ## Gamma-Gaussian mixtures -/

/-- Clause "rescaling … rescales the fitted means and covariances accordingly" for the one-dimensional
    gamma-Gaussian M-steps (`GGM.Mstep`, `GGGM.Mstep`): for `x ↦ a·x`, `a > 0`, the Gaussian mean scales by
    `a`, its variance by `a²`, the gamma scale by `a` (at the same shape; when no positive sample carries weight the code falls back to
    `(shape, scale) = (1, 1)`), and the mixing weights do not involve `x`. -/
theorem gg_mstep_scale_equivariant (tiny shape : Rat) (n : Nat) (x z : Nat → Rat) (a : Rat) (ha : 0 < a) :
    ggMean tiny n (fun i => a * x i) z = a * ggMean tiny n x z ∧
    ggVar tiny n (fun i => a * x i) z = a ^ 2 * ggVar tiny n x z ∧
    gamScale shape n (fun i => a * x i) z
      = (if 0 < sumTo n (posPart x z) then a * gamScale shape n x z else 1) := by
  have hm : ggMean tiny n (fun i => a * x i) z = a * ggMean tiny n x z := by
    unfold ggMean
    rw [sumTo_congr (g := fun i => a * (x i * z i)) (fun i _ => by ring), sumTo_mul_left]; ring
  have hv : ggVar tiny n (fun i => a * x i) z = a ^ 2 * ggVar tiny n x z := by
    unfold ggVar
    rw [hm, sumTo_congr (g := fun i => a ^ 2 * ((x i - ggMean tiny n x z) ^ 2 * z i)) (fun i _ => by ring),
      sumTo_mul_left]; ring
  have hp : posPart (fun i => a * x i) z = posPart x z := by
    funext i
    unfold posPart
    have : (0 < a * x i) ↔ (0 < x i) := by
      constructor
      · intro h; exact (mul_pos_iff_of_pos_left ha).mp h
      · intro h; exact mul_pos ha h
    simp only [this]
  refine ⟨hm, hv, ?_⟩
  by_cases hs : 0 < sumTo n (posPart x z)
  · unfold gamScale
    rw [hp, if_pos hs, if_pos hs, if_pos hs,
      sumTo_congr (g := fun i => a * (x i * posPart x z i)) (fun i _ => by ring), sumTo_mul_left]
    ring
  · unfold gamScale
    rw [hp, if_neg hs, if_neg hs]

/-- the Gaussian component is also translation equivariant (mean + t, same variance) when it carries
    weight at least `tiny` -/
theorem gg_gaussian_translation_equivariant (tiny : Rat) (n : Nat) (x z : Nat → Rat) (t : Rat)
    (ht : 0 < tiny) (hz : tiny ≤ sumTo n z) :
    ggMean tiny n (fun i => x i + t) z = ggMean tiny n x z + t ∧
    ggVar tiny n (fun i => x i + t) z = ggVar tiny n x z := by
  have hs : ggSz tiny n z = sumTo n z := max_eq_right hz
  have hne : sumTo n z ≠ 0 := by linarith
  have hm : ggMean tiny n (fun i => x i + t) z = ggMean tiny n x z + t := by
    unfold ggMean
    rw [hs, sumTo_congr (g := fun i => x i * z i + t * z i) (fun i _ => by ring), sumTo_add, sumTo_mul_left]
    field_simp
  refine ⟨hm, ?_⟩
  unfold ggVar
  rw [hm]
  congr 1
  apply sumTo_congr; intro i _; ring

/-- `GGGM.Mstep`: the three mixing proportions are non-negative and sum to one -/
theorem gggm_mixt_simplex (tiny : Rat) (n : Nat) (z : Nat → Nat → Rat) (ht : 0 < tiny) :
    sumTo 3 (gggmMixt tiny n z) = 1 ∧ ∀ c, 0 ≤ gggmMixt tiny n z c := by
  have hpos : ∀ c, 0 < ggSz tiny n (fun i => z i c) := fun c => lt_of_lt_of_le ht (le_max_left _ _)
  have hs : 0 < sumTo 3 (fun c' => ggSz tiny n (fun i => z i c')) := by
    simp only [sumTo]
    have := hpos 0; have := hpos 1; have := hpos 2
    linarith
  constructor
  · unfold gggmMixt
    rw [sumTo_div]
    exact div_self (ne_of_gt hs)
  · intro c
    unfold gggmMixt
    exact div_nonneg (le_of_lt (hpos c)) (le_of_lt hs)

/-- `GGM.posterior` and `GGM.Estep` are the same memberships (alternative implementations agree):
    `(y + tiny/2) / (y + pg + tiny)` is the regularised membership of the Gaussian column. -/
theorem ggm_posterior_is_estep (tiny pg y : Rat) :
    (y + tiny / 2) / (y + pg + tiny) = respRow tiny 2 (fun c => if c = 0 then pg else y) 1 ∧
    (pg + tiny / 2) / (y + pg + tiny) = respRow tiny 2 (fun c => if c = 0 then pg else y) 0 := by
  unfold respRow
  simp only [sumTo]
  have e : (0 : Rat) + pg + y + tiny = y + pg + tiny := by ring
  constructor
  · simp only [if_true, one_ne_zero, if_false, Nat.cast_ofNat, e]
  · simp only [if_true, one_ne_zero, if_false, Nat.cast_ofNat, e]

/-! ## von Mises–Fisher mixture -/

/-- responsibilities (`wl / Σ wl`, no regulariser): on the simplex whenever the row has positive mass -/
theorem responsibilities_sum_to_one (K : Nat) (row : Nat → Rat) (h : sumTo K row ≠ 0) :
    sumTo K (respRow 0 K row) = 1 := by
  unfold respRow
  simp only [zero_div, add_zero]
  rw [sumTo_div]
  exact div_self h

/-- `responsibilities` subtracts the row mean of the log-densities before exponentiating: that common
    factor does not change the result -/
theorem vmf_responsibilities_shift_invariant (K : Nat) (row : Nat → Rat) (c : Rat) (hc : c ≠ 0) (k : Nat) :
    respRow 0 K (fun j => c * row j) k = respRow 0 K row k :=
  memberships_rescale_invariant_partial K row c hc k

/-- `estimate_weights`: the weights are on the simplex -/
theorem vmf_weights_sum_to_one (n K : Nat) (z : Nat → Nat → Rat)
    (h : sumTo n (fun i => sumTo K (z i)) ≠ 0) : sumTo K (vmfWeight n K z) = 1 := by
  unfold vmfWeight
  rw [sumTo_div, sumTo_comm]
  exact div_self h

/-- … and are permuted by a relabelling of the components -/
theorem vmf_weights_label_equivariant (n K : Nat) (z : Nat → Nat → Rat) (σ : Nat → Nat)
    (hσ : ∀ k, k < K → σ k < K) (hinj : ∀ a, a < K → ∀ b, b < K → σ a = σ b → a = b) (c : Nat) :
    vmfWeight n K (relabel σ z) c = vmfWeight n K z (σ c) := by
  unfold vmfWeight relabel
  congr 1
  apply sumTo_congr; intro i _
  exact sumTo_perm K σ hσ hinj (z i)

/-- the bias step of `estimate` renormalises every row -/
theorem bias_row_sums_to_one (K : Nat) (b : Rat) (row : Nat → Rat)
    (h : sumTo K (fun c' => if c' = 0 then row c' * (1 - b) else row c' * b) ≠ 0) :
    sumTo K (biasRow K b row) = 1 := by
  unfold biasRow
  rw [sumTo_div]
  exact div_self h

/-! ## `GMM.estimate` -/

/-- the EM alternation only accepts E-steps that improved the average log-likelihood by at least
    `delta` over the previously accepted one -/
theorem em_accepted_improves (delta : Rat) : ∀ (avs : List Rat) (old : Option Rat),
    (∀ o, old = some o → ∀ a ∈ (emAccepted delta old avs).head?, o + delta ≤ a) ∧
      (emAccepted delta old avs).IsChain (fun p q => p + delta ≤ q) := by
  intro avs
  induction avs with
  | nil => intro old; simp [emAccepted]
  | cons av rest ih =>
      intro old
      cases old with
      | none =>
          simp only [emAccepted]
          refine ⟨by simp, ?_⟩
          obtain ⟨h1, h2⟩ := ih (some av)
          cases hr : emAccepted delta (some av) rest with
          | nil => simp
          | cons b bs =>
              rw [hr] at h1 h2
              exact List.IsChain.cons_cons (h1 av rfl b (by simp)) h2
      | some o =>
          simp only [emAccepted]
          split_ifs with hlt
          · simp
          · refine ⟨?_, ?_⟩
            · intro o' ho' a ha
              simp only [Option.some.injEq] at ho'
              subst ho'
              simp only [List.head?_cons, Option.mem_def, Option.some.injEq] at ha
              subst ha
              exact not_lt.mp hlt
            · obtain ⟨h1, h2⟩ := ih (some av)
              cases hr : emAccepted delta (some av) rest with
              | nil => simp
              | cons b bs =>
                  rw [hr] at h1 h2
                  exact List.IsChain.cons_cons (h1 av rfl b (by simp)) h2

/-- so for `delta ≥ 0` the accepted average log-likelihoods never decrease, and the number of M-steps
    is at most the number of E-steps -/
theorem em_steps_le (delta : Rat) (avs : List Rat) : emSteps delta avs ≤ avs.length := by
  unfold emSteps
  have : ∀ (avs : List Rat) (old : Option Rat), (emAccepted delta old avs).length ≤ avs.length := by
    intro avs
    induction avs with
    | nil => intro old; simp [emAccepted]
    | cons av rest ih =>
        intro old
        cases old with
        | none => simp only [emAccepted, List.length_cons]; have := ih (some av); omega
        | some o =>
            simp only [emAccepted]
            split_ifs
            · simp
            · simp only [List.length_cons]; have := ih (some av); omega
  exact this avs none

/-! ## `generate_perm`, `co_labelling` -/

/-- every row of `generate_perm(k)` (exhaustive branch) is a permutation of `0..k-1` -/
theorem gen_perm_rows_are_permutations (k : Nat) : ∀ r ∈ genPerm k, r.Perm (List.range k) :=
  genPerm_rows_perm k

/-- … and there are `k!` of them -/
theorem gen_perm_length : ∀ (k : Nat), (genPerm k).length = k.factorial := by
  intro k
  induction k with
  | zero => simp [genPerm]
  | succ k ih =>
      simp only [genPerm, List.length_flatMap, List.length_map, ih]
      rw [List.map_const', List.sum_replicate, List.length_range, Nat.factorial_succ]
      simp

/-- the rows of `generate_perm(k)` are pairwise distinct: together with the two previous theorems,
    the exhaustive branch lists every permutation of `0..k-1` exactly once -/
theorem gen_perm_nodup : ∀ (k : Nat), (genPerm k).Nodup := by
  intro k
  induction k with
  | zero => simp [genPerm]
  | succ k ih =>
      simp only [genPerm]
      rw [List.nodup_flatMap]
      constructor
      · intro i hi
        have hik : i ≤ k := by have := List.mem_range.mp hi; omega
        apply List.Nodup.map_on _ ih
        intro r hr r' hr' he
        exact insertAt_inj k i r r' (by rw [genPerm_row_length k r hr]; exact hik)
          (by rw [genPerm_row_length k r' hr']; exact hik) he
      · apply List.Pairwise.imp_of_mem (R := fun a b => a ≠ b)
        · intro i j hi hj hij
          have hik : i ≤ k := by have := List.mem_range.mp hi; omega
          have hjk : j ≤ k := by have := List.mem_range.mp hj; omega
          intro row h1 h2
          obtain ⟨r, hr, rfl⟩ := List.mem_map.mp h1
          obtain ⟨r', hr', he⟩ := List.mem_map.mp h2
          have hlr : r.length = k := genPerm_row_length k r hr
          have hlr' : r'.length = k := genPerm_row_length k r' hr'
          have e1 := insertAt_getElem? k i r (by omega)
          obtain ⟨w, hw, e2⟩ := insertAt_getElem?_ne k i j r' (by omega) hij (by omega)
          rw [he, e1] at e2
          have : w = k := (Option.some.inj e2).symm
          have := genPerm_row_lt k r' hr' w hw
          omega
        · exact List.nodup_range

/-- `co_labelling` is symmetric and has ones on the diagonal of in-range labels -/
theorem co_labelling_symmetric (kmin kmax : Int) (z : Nat → Int) (i j : Nat) :
    coLabel kmin kmax z i j = coLabel kmin kmax z j i ∧
      (kmin < z i ∧ z i < kmax → coLabel kmin kmax z i i = 1) := by
  unfold coLabel
  constructor
  · by_cases h : z i = z j
    · rw [h]
    · have h' : ¬ z j = z i := fun e => h e.symm
      simp [h, h']
  · intro h; simp [h]

/-! ## Non-vacuity -/

example : IsInvTo 1 (fun _ _ => 4) (fun _ _ => 1 / 4) := by
  intro i hi l hl
  have : i = 0 := by omega
  have : l = 0 := by omega
  subst_vars
  simp [matMulTo, sumTo]
example : emAccepted (1 / 10) none [1, 2, (41 / 20), 3] = [1, 2] := by decide +kernel
example : emSteps 0 [1, 2, 3] = 3 := by decide +kernel
example : genPerm 3 = [[2, 1, 0], [2, 0, 1], [1, 2, 0], [0, 2, 1], [1, 0, 2], [0, 1, 2]] := by decide
example : sumTo 2 (fun i => sumTo 2 ((fun (_ _ : Nat) => (1 / 2 : Rat)) i)) ≠ 0 := by
  simp [sumTo]; norm_num

end NipyVerif.C13
