/-
C12 (part L) — the VALUE of a `local_maxima` depth: the hop radius of the largest ball in which the
vertex is maximal, capped by the number of dilation rounds the loop runs.

`reachB g k i j`: `j` lies within `k` hops of `i` (closed neighbourhoods).
-/
import NipyVerif.Lemmas.C12L

namespace NipyVerif.C12

/-- **`k` dilations = maximum over the ball of radius `k`**: the `k`-times dilated field at `i`
    dominates the field on every vertex within `k` hops and is attained on one of them. -/
theorem dilation_iterate_is_ball_maximum (g : Graph) (k : Nat) (f : Nat → Rat) (i : Nat) (hi : i < g.V) :
    (∀ j, reachB g k i j → f j ≤ (dilF g)^[k] f i) ∧ ∃ j, reachB g k i j ∧ (dilF g)^[k] f i = f j :=
  dil_iterate_ball g k f i hi

/-- the ball maximum grows at some radius iff some ball contains a strictly higher vertex -/
theorem nonMax_iff_higher_in_ball (g : Graph) (init : List Rat) (i : Nat) (hi : i < g.V) :
    (∃ m, NonMax g init m i) ↔ ∃ m j, reachB g m i j ∧ at_ init i < at_ init j := by
  constructor
  · rintro ⟨m, hm⟩
    obtain ⟨_, j, hj, hjeq⟩ := dil_iterate_ball g (m + 1) (at_ init) i hi
    refine ⟨m + 1, j, hj, ?_⟩
    have := nonMax_gt_init g init i m (m + 1) (Nat.lt_succ_self _) hm
    unfold dilN at this
    rwa [hjeq] at this
  · rintro ⟨m, j, hj, hlt⟩
    by_contra hcon
    have hconst := dilN_const_of_no_nonMax g init i m (fun m' _ hm' => hcon ⟨m', hm'⟩)
    have := (dil_iterate_ball g m (at_ init) i hi).1 j hj
    unfold dilN at hconst
    rw [hconst] at this
    exact absurd (lt_of_lt_of_le hlt this) (lt_irrefl _)

/-- **The dilation loop of `local_maxima` gives ball radii** (on the sub-field it runs on): it stops
    after some `K < V` rounds — the first round in which no vertex grows — and for every vertex `i`
    with returned depth `r`:
    * if some ball around `i` contains a strictly higher vertex, then `r` is the radius of the
      largest ball in which `i` is maximal: no vertex within `r` hops is higher, one within `r + 1`
      hops is (so `r = 0` exactly for the non-maxima);
    * otherwise (`i` is a maximum of everything it reaches) `r` is the cap `max K 1`. -/
theorem local_maxima_loop_depth_is_ball_radius (g : Graph) (hv : g.Valid) (col : List Rat)
    (hl : col.length = g.V) :
    ∃ K, (K < g.V ∨ g.V = 0) ∧ (∀ i < g.V, ¬ NonMax g col K i) ∧ (∀ m < K, ∃ i < g.V, NonMax g col m i) ∧
      ∀ i < g.V,
        let r := (lmaxLoop g col g.V 0 col (List.replicate g.V g.V)).getD i 0
        ((∃ m j, reachB g m i j ∧ at_ col i < at_ col j) →
          (∀ j, reachB g r i j → at_ col j ≤ at_ col i) ∧ ∃ j, reachB g (r + 1) i j ∧ at_ col i < at_ col j) ∧
        ((∀ m j, reachB g m i j → at_ col j ≤ at_ col i) → r = max K 1) := by
  by_cases hV : g.V = 0
  · exact ⟨0, Or.inr hV, fun i hi => by omega, fun m hm => by omega, fun i hi => by omega⟩
  · obtain ⟨n, hn⟩ : ∃ n, g.V = n + 1 := ⟨g.V - 1, by omega⟩
    have hgoal : LoopGoal g col (lmaxLoop g col (n + 1) 0 col (List.replicate g.V g.V)) := by
      apply lmaxLoop_value g hv col n 0 col _ (by omega) hl (fun i _ => rfl)
      · constructor
        · intro i hi _
          simp [List.getD_eq_getElem?_getD, hi]
        · intro i _ m hm; omega
      · intro m hm; omega
    rw [← hn] at hgoal
    obtain ⟨K, hK, hno, hbefore, hspec⟩ := hgoal
    refine ⟨K, Or.inl hK, hno, hbefore, fun i hi => ?_⟩
    intro r
    obtain ⟨h1, h2⟩ := hspec i hi
    constructor
    · intro hhigh
      obtain ⟨hnm, hmin⟩ := h1 ((nonMax_iff_higher_in_ball g col i hi).2 hhigh)
      have hconst := dilN_const_of_no_nonMax g col i r hmin
      constructor
      · intro j hj
        have := (dil_iterate_ball g r (at_ col) i hi).1 j hj
        unfold dilN at hconst
        rwa [hconst] at this
      · obtain ⟨_, j, hj, hjeq⟩ := dil_iterate_ball g (r + 1) (at_ col) i hi
        refine ⟨j, hj, ?_⟩
        unfold NonMax at hnm
        rw [hconst] at hnm
        unfold dilN at hnm
        rwa [hjeq] at hnm
    · intro hmax
      apply h2
      intro m hm
      obtain ⟨m', j, hj, hlt⟩ := (nonMax_iff_higher_in_ball g col i hi).1 ⟨m, hm⟩
      exact absurd (lt_of_lt_of_le hlt (hmax m' j hj)) (lt_irrefl _)

/-- `local_maxima(refdim, th)` reads that loop on the thresholded sub-field: a vertex at or above
    the threshold gets the loop's value at its new index, a vertex below gets `0`. -/
theorem local_maxima_reads_subfield_loop (g : Graph) (col : List Rat) (th : Rat) (v : Nat) (hv : v < g.V) :
    let valid := fun u => decide (th ≤ at_ col u)
    let sg := subgraph g valid
    let sc := subcol g.V valid col
    (localMaxima g col th).getD v 0 =
      if valid v then (lmaxLoop sg sc sg.V 0 sc (List.replicate sg.V sg.V)).getD (renumb valid v) 0 else 0 := by
  intro valid sg sc
  simp only [localMaxima, List.getD_eq_getElem?_getD, List.getElem?_map, List.getElem?_range hv,
    Option.map_some, Option.getD_some]
  rfl

/-- non-vacuity: the path 0 — 1 — 2 — 3 is a valid graph, a column of four values fits it, and
    vertex 2 lies within two hops of vertex 0 -/
example :
    (⟨4, [⟨0, 1, 1⟩, ⟨1, 0, 1⟩, ⟨1, 2, 1⟩, ⟨2, 1, 1⟩, ⟨2, 3, 1⟩, ⟨3, 2, 1⟩]⟩ : Graph).Valid ∧
      ([3, 1, 2, 0] : List Rat).length = 4 ∧
      reachB ⟨4, [⟨0, 1, 1⟩, ⟨1, 0, 1⟩, ⟨1, 2, 1⟩, ⟨2, 1, 1⟩, ⟨2, 3, 1⟩, ⟨3, 2, 1⟩]⟩ 2 0 2 := by
  refine ⟨?_, rfl, ⟨1, ⟨0, rfl, by decide +kernel⟩, by decide +kernel⟩⟩
  intro e he; simp at he; rcases he with rfl | rfl | rfl | rfl | rfl | rfl <;> simp

end NipyVerif.C12
