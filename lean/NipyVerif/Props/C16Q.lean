/-
C16 (part Q) — order statistics: the literal Hoare-partition selection `_pth_element` is correct
for all inputs; the quantile front end equals its definition.
-/
import NipyVerif.Lemmas.C16H

namespace NipyVerif.C16

/-- **`_pth_element` is proved, not only compared**: for every buffer `x` and every rank `p < n`, the
    literal transcription of the Hoare-partition loop (`quantile.c::_pth_element`,
    `fff_vector.c::_fff_pth_element`, the same code) terminates within its fuel (each pass shrinks
    the window `[il, jr]`), returns the order statistic of rank `p` — the `p`-th element of the
    ascending rearrangement — and leaves a permutation of the buffer. -/
theorem pth_element_correct (x : List Rat) (p : Nat) (hp : p < x.length) :
    (pthElement x p).1 = nth (sortLe x) p ∧ (pthElement x p).2.Perm x :=
  pthElement_correct x p hp

/-- **`_pth_interval` is proved**: for every buffer and every rank `p` with `p + 1 < n` the literal loop
    (two targets, the `stop1 / stop2` state machine, the one-candidate exit) returns the order statistics
    of ranks `p` and `p + 1` and leaves a permutation of the buffer. -/
theorem pth_interval_correct (x : List Rat) (p : Nat) (hp : p + 1 < x.length) :
    (pthInterval x p).1 = nth (sortLe x) p ∧ (pthInterval x p).2.1 = nth (sortLe x) (p + 1) ∧
    (pthInterval x p).2.2.Perm x :=
  pthInterval_correct x p hp

/-- **`quantile()` as written equals its definition**: the front end of `quantile.c` /
    `fff_vector_quantile` run over the two literal selection loops returns exactly the value of the
    sorted-sample definition `quantile` (hence `quantile_noninterp_eq_definition`,
    `quantile_interp_eq_linear`, `median_eq_definition` hold for the code as written), refuses the same
    ratios, and leaves a permutation of the fibre. -/
theorem quantile_literal_eq_definition (x : List Rat) (r : Rat) (interp : Bool) :
    (quantileLit x r interp).map (·.1) = quantile x r interp ∧
    (∀ q, quantileLit x r interp = some q → q.2.Perm x) := by
  unfold quantileLit quantile
  by_cases hr : r < 0 ∨ 1 < r
  · simp [hr]
  · have h0 : 0 ≤ r := by by_contra h; exact hr (Or.inl (not_le.mp h))
    have h1 : r ≤ 1 := by by_contra h; exact hr (Or.inr (not_le.mp h))
    simp only [if_neg hr]
    by_cases hn0 : x.length = 0
    · simp [hn0]
    · simp only [if_neg hn0]
      by_cases hn1 : x.length = 1
      · simp only [if_pos hn1, Option.map_some]
        refine ⟨trivial, ?_⟩
        intro q hq
        cases hq
        exact List.Perm.refl _
      · simp only [if_neg hn1]
        have hnpos : (0 : Rat) ≤ ((x.length : Nat) : Rat) := by positivity
        cases interp with
        | false =>
            simp only [Bool.not_false, if_true]
            by_cases hp : ceilNat (r * ((x.length : Nat) : Rat)) = x.length
            · simp only [if_pos hp, Option.map_some]
              refine ⟨trivial, ?_⟩
              intro q hq; cases hq; exact List.Perm.refl _
            · simp only [if_neg hp, Option.map_some]
              have hple : ceilNat (r * ((x.length : Nat) : Rat)) ≤ x.length := by
                rw [ceilNat_eq _ (mul_nonneg h0 hnpos), Nat.ceil_le]
                calc r * ((x.length : Nat) : Rat) ≤ 1 * ((x.length : Nat) : Rat) :=
                      mul_le_mul_of_nonneg_right h1 hnpos
                  _ = _ := one_mul _
              have hplt : ceilNat (r * ((x.length : Nat) : Rat)) < x.length := lt_of_le_of_ne hple hp
              obtain ⟨e1, e2⟩ := pthElement_correct x _ hplt
              refine ⟨by rw [e1], ?_⟩
              intro q hq; cases hq; exact e2
        | true =>
            simp only [Bool.not_true, Bool.false_eq_true, if_false]
            have hq0 : 0 ≤ r * ((x.length - 1 : Nat) : Rat) := mul_nonneg h0 (by positivity)
            have hfl : ((floorNat (r * ((x.length - 1 : Nat) : Rat)) : Nat) : Rat) ≤ r * ((x.length - 1 : Nat) : Rat) := by
              rw [floorNat_eq]; exact Nat.floor_le hq0
            have hple : floorNat (r * ((x.length - 1 : Nat) : Rat)) ≤ x.length - 1 := by
              rw [floorNat_eq]
              apply Nat.floor_le_of_le
              calc r * ((x.length - 1 : Nat) : Rat) ≤ 1 * ((x.length - 1 : Nat) : Rat) :=
                    mul_le_mul_of_nonneg_right h1 (by positivity)
                _ = _ := one_mul _
            by_cases hw : r * ((x.length - 1 : Nat) : Rat) - ((floorNat (r * ((x.length - 1 : Nat) : Rat)) : Nat) : Rat) ≤ 0
            · simp only [if_pos hw, Option.map_some]
              obtain ⟨e1, e2⟩ := pthElement_correct x (floorNat (r * ((x.length - 1 : Nat) : Rat))) (by omega)
              refine ⟨by rw [e1], ?_⟩
              intro q hq; cases hq; exact e2
            · simp only [if_neg hw, Option.map_some]
              have hlt : ((floorNat (r * ((x.length - 1 : Nat) : Rat)) : Nat) : Rat) < ((x.length - 1 : Nat) : Rat) := by
                have : r * ((x.length - 1 : Nat) : Rat) ≤ ((x.length - 1 : Nat) : Rat) := by
                  calc r * ((x.length - 1 : Nat) : Rat) ≤ 1 * ((x.length - 1 : Nat) : Rat) :=
                        mul_le_mul_of_nonneg_right h1 (by positivity)
                    _ = _ := one_mul _
                linarith [not_le.mp hw]
              have hlt' : floorNat (r * ((x.length - 1 : Nat) : Rat)) < x.length - 1 := by exact_mod_cast hlt
              obtain ⟨e1, e2, e3⟩ := pthInterval_correct x (floorNat (r * ((x.length - 1 : Nat) : Rat))) (by omega)
              refine ⟨by rw [e1, e2], ?_⟩
              intro q hq; cases hq; exact e3

/-- the partition invariant at exit characterises the order statistic (also usable as a certificate on
    the buffer the C code leaves): positions `≤ p` hold values `≤ a`, positions `> p` values `≥ a`,
    `a` occurs at a position `≤ p` ⇒ `a` is the order statistic of rank `p`. -/
theorem pth_certificate (x y : List Rat) (a : Rat) (p : Nat) (hperm : y.Perm x) (hp : p < y.length)
    (hle : ∀ k (hk : k < y.length), k ≤ p → y[k] ≤ a)
    (hge : ∀ k (hk : k < y.length), p < k → a ≤ y[k])
    (hex : ∃ k, ∃ hk : k < y.length, k ≤ p ∧ y[k] = a) :
    nth (sortLe x) p = a :=
  pth_certificate_sound x y a p hperm hp hle hge hex

/-- one partition pass (`partLoop`, the inner `while (stop2 == 0)` loop with the
    equal-extremities escape) establishes the Hoare postcondition and strictly shrinks the window -/
theorem partition_pass (a : Rat) (il jr : Nat) (same : Bool) (x : Array Rat)
    (h : PInv a il jr same x x (il + 1) jr) :
    PPost a il jr x (partLoop a il jr same (x.size + 1) x (il + 1) jr) :=
  partLoop_spec a il jr same x (x.size + 1) x (il + 1) jr h (by have := h.hjr; omega)

/-- `quantile(…, interp = 0)`: the sample value of smallest rank `p ≥ r·n`, i.e. `sorted[⌈r n⌉]`, and
    `+∞` when that rank is `n` (no NumPy method has this convention: it is one rank above
    `method='inverted_cdf'` at non-integer `r n`, and equal to `method='higher'` only when
    `⌈r n⌉ = ⌈r (n−1)⌉`). -/
theorem quantile_noninterp_eq_definition (x : List Rat) (r : Rat) (h0 : 0 ≤ r) (h1 : r ≤ 1)
    (hn : 2 ≤ x.length) :
    quantile x r false =
      if ⌈r * (x.length : Rat)⌉₊ = x.length then some .posInf
      else some (.val (nth (sortLe x) ⌈r * (x.length : Rat)⌉₊)) := by
  unfold quantile
  have e1 : ¬ (r < 0 ∨ 1 < r) := by
    intro h; rcases h with h | h <;> linarith
  have e2 : ¬ x.length = 0 := by omega
  have e3 : ¬ x.length = 1 := by omega
  have hq : 0 ≤ r * ((x.length : Nat) : Rat) := mul_nonneg h0 (by positivity)
  simp only [if_neg e1, if_neg e2, if_neg e3, Bool.not_false, if_true]
  rw [ceilNat_eq _ hq]

/-- `quantile(…, interp = 1)` is NumPy's default `quantile(method='linear')` (Hyndman–Fan type 7):
    virtual index `h = r (n−1)`, value `(1 − f) sorted[⌊h⌋] + f sorted[⌊h⌋+1]`, `f = h − ⌊h⌋`. -/
theorem quantile_interp_eq_linear (x : List Rat) (r : Rat) (h0 : 0 ≤ r) (h1 : r ≤ 1) (hn : 2 ≤ x.length) :
    quantile x r true =
      some (.val ((1 - (r * ((x.length - 1 : Nat) : Rat) - (⌊r * ((x.length - 1 : Nat) : Rat)⌋₊ : Rat)))
          * nth (sortLe x) ⌊r * ((x.length - 1 : Nat) : Rat)⌋₊
        + (r * ((x.length - 1 : Nat) : Rat) - (⌊r * ((x.length - 1 : Nat) : Rat)⌋₊ : Rat))
          * nth (sortLe x) (⌊r * ((x.length - 1 : Nat) : Rat)⌋₊ + 1))) := by
  unfold quantile
  have e1 : ¬ (r < 0 ∨ 1 < r) := by
    intro h; rcases h with h | h <;> linarith
  have e2 : ¬ x.length = 0 := by omega
  have e3 : ¬ x.length = 1 := by omega
  have hq : 0 ≤ r * ((x.length - 1 : Nat) : Rat) := mul_nonneg h0 (by positivity)
  simp only [if_neg e1, if_neg e2, if_neg e3, Bool.not_true, Bool.false_eq_true, if_false]
  rw [floorNat_eq]
  have hfl : ((⌊r * ((x.length - 1 : Nat) : Rat)⌋₊ : Nat) : Rat) ≤ r * ((x.length - 1 : Nat) : Rat) :=
    Nat.floor_le hq
  split_ifs with hw
  · have : r * ((x.length - 1 : Nat) : Rat) - ((⌊r * ((x.length - 1 : Nat) : Rat)⌋₊ : Nat) : Rat) = 0 := by
      linarith
    rw [this]; simp
  · rfl

/-- the median of an odd-length sample is the middle order statistic, of an even-length sample the
    mean of the two middle ones (`numpy.median`) -/
theorem median_eq_definition (x : List Rat) (m : Nat) :
    (x.length = 2 * m + 1 → 1 ≤ m → median x = some (.val (nth (sortLe x) m))) ∧
    (x.length = 2 * m → 1 ≤ m → median x = some (.val ((nth (sortLe x) (m - 1) + nth (sortLe x) m) / 2))) := by
  constructor
  · intro hl hm
    unfold median
    rw [quantile_interp_eq_linear x (1 / 2) (by norm_num) (by norm_num) (by omega)]
    have e : (1 / 2 : Rat) * ((x.length - 1 : Nat) : Rat) = (m : Rat) := by
      rw [hl]; push_cast; simp
    rw [e, Nat.floor_natCast]
    simp
  · intro hl hm
    unfold median
    rw [quantile_interp_eq_linear x (1 / 2) (by norm_num) (by norm_num) (by omega)]
    have e : (1 / 2 : Rat) * ((x.length - 1 : Nat) : Rat) = ((m - 1 : Nat) : Rat) + 1 / 2 := by
      rw [hl, Nat.cast_sub (by omega), Nat.cast_sub (by omega)]; push_cast; ring
    have hfl : ⌊((m - 1 : Nat) : Rat) + 1 / 2⌋₊ = m - 1 := by
      rw [Nat.floor_eq_iff (by positivity)]
      constructor <;> [linarith; (push_cast; linarith)]
    rw [e, hfl]
    have : m - 1 + 1 = m := by omega
    rw [this]
    congr 2
    ring

/-! ## Non-vacuity -/

example : pthElement [3, 1, 2, 5, 1] 2 = (2, [1, 1, 2, 5, 3]) := by decide +kernel
example : pthInterval [3, 1, 2, 5, 1] 2 = (2, 3, [1, 1, 2, 3, 5]) := by decide +kernel
/-- the hypotheses of `pth_certificate` are satisfiable: `y = [1, 1, 2, 5, 3]`, `a = 2`, `p = 2` -/
example : nth (sortLe [3, 1, 2, 5, 1]) 2 = 2 := by
  apply pth_certificate [3, 1, 2, 5, 1] [1, 1, 2, 5, 3] 2 2 (by decide) (by decide)
  · intro k hk hkp
    have : k = 0 ∨ k = 1 ∨ k = 2 := by omega
    rcases this with rfl | rfl | rfl <;> norm_num
  · intro k hk hkp
    have hk' : k < 5 := hk
    have : k = 3 ∨ k = 4 := by omega
    rcases this with rfl | rfl <;> norm_num
  · exact ⟨2, by decide, by decide, by decide +kernel⟩
example : PInv 1 0 2 false #[1, 5, 2] #[1, 5, 2] 1 2 where
  reach := Reach.refl _
  hlt := by decide
  hi1 := by decide
  hij := by decide
  hj := by decide
  hjr := by decide
  hl := by intro k h1 h2; omega
  hr := by intro k h1 h2; omega
  hil := by decide +kernel
  hsent := by decide +kernel
  hfirst := fun _ => rfl
  hsame := fun h => by cases h
  hns := fun _ _ => by decide +kernel

end NipyVerif.C16
