/-
C07 — theorems about the kernels, the drift block, `_convolve_regressors` and `_full_rank`
(`Model/C07Mk.lean`), for all inputs.

* the canonical kernels sum to one (the gamma densities are parameters), the derivative kernels to zero;
* every drift block has its documented number of columns and names, the constant exactly once, last;
  polynomial: `order + 1` columns, the last one is the constant column of ones, entries of the raw
  columns are bounded by one in absolute value (the scaling by `abs(frametimes).max()`);
* every condition yields `kernelCount` columns, in condition order, basis functions innermost;
* `_full_rank`: after regularisation the condition number is exactly `cmax`, the shift is non-negative.
-/
import NipyVerif.Lemmas.C07Mk
import NipyVerif.Props.C07Names
import NipyVerif.Props.C07

namespace NipyVerif.C07

/-! ## kernels -/

/-- "the canonical haemodynamic kernels sum to one": `hrf /= hrf.sum()` whenever the sum is not zero,
    whatever the gamma densities are -/
theorem gamma_hrf_sums_to_one (g1 g2 : List Rat) (ratio : Rat) (h : (gammaRaw g1 g2 ratio).sum ≠ 0) :
    (gammaDiffHrf g1 g2 ratio).sum = 1 := by
  simp only [gammaDiffHrf, sum_map_div]
  exact div_self h

/-- the kernel has one entry per time stamp -/
theorem gamma_hrf_length (g1 g2 : List Rat) (ratio : Rat) :
    (gammaDiffHrf g1 g2 ratio).length = min g1.length g2.length := by
  simp [gammaDiffHrf, gammaRaw]

/-- time / dispersion derivative kernels (`1/step * (h1 - h0)` of two kernels of sum one) sum to zero -/
theorem derivative_kernel_sums_to_zero (step : Rat) (h1 h0 : List Rat) (hl : h1.length = h0.length)
    (s1 : h1.sum = 1) (s0 : h0.sum = 1) : (derivKernel step h1 h0).sum = 0 := by
  simp only [derivKernel]
  rw [sum_zipWith_scaled_sub (1 / step) h1 h0 hl, s1, s0]
  ring

/-- … in particular for two normalised gamma differences -/
theorem derivative_of_gamma_hrfs_sums_to_zero (step r r' : Rat) (a b a' b' : List Rat)
    (hl : min a.length b.length = min a'.length b'.length)
    (h : (gammaRaw a b r).sum ≠ 0) (h' : (gammaRaw a' b' r').sum ≠ 0) :
    (derivKernel step (gammaDiffHrf a b r) (gammaDiffHrf a' b' r')).sum = 0 :=
  derivative_kernel_sums_to_zero step _ _ (by rw [gamma_hrf_length, gamma_hrf_length, hl])
    (gamma_hrf_sums_to_one a b r h) (gamma_hrf_sums_to_one a' b' r' h')

/-- number of time stamps: for a positive step it is the largest integer `k` with `k * dt ≤ time_length` -/
theorem hrf_len_spec (tr tl : Rat) (os : Nat) (htr : 0 < tr) (hos : 0 < os) (htl : 0 ≤ tl) :
    0 ≤ hrfLen tr os tl ∧ ((hrfLen tr os tl : Int) : Rat) * (tr / (os : Rat)) ≤ tl ∧
      tl < (((hrfLen tr os tl : Int) : Rat) + 1) * (tr / (os : Rat)) := by
  have hos' : (0 : Rat) < (os : Rat) := by exact_mod_cast hos
  have hdt : 0 < tr / (os : Rat) := div_pos htr hos'
  have hx : 0 ≤ tl / (tr / (os : Rat)) := div_nonneg htl (le_of_lt hdt)
  simp only [hrfLen, truncInt, hx, if_true]
  refine ⟨Int.floor_nonneg.mpr hx, ?_, ?_⟩
  · have := Int.floor_le (tl / (tr / (os : Rat)))
    rwa [le_div_iff₀ hdt] at this
  · have := Int.lt_floor_add_one (tl / (tr / (os : Rat)))
    rwa [div_lt_iff₀ hdt] at this

/-! ## drift block -/

/-- `_make_drift`: as many names as columns (for at least one column, which every model yields) -/
theorem make_drift_names_length (model : String) (n : Nat) (dt hfcut : Rat) (order k : Nat)
    (names : List String) (h : makeDrift model n dt hfcut order = .ok (k, names)) :
    1 ≤ k ∧ names.length = k ∧ names = driftNames k := by
  unfold makeDrift at h
  cases hc : driftCols model n dt hfcut order with
  | error e => rw [hc] at h; cases h
  | ok k' =>
      rw [hc] at h
      cases h
      have hk : 1 ≤ k := by
        unfold driftCols at hc
        split at hc <;> cases hc <;> simp
      refine ⟨hk, ?_, rfl⟩
      simp only [driftNames, List.length_append, List.length_map, List.length_range, List.length_singleton]
      omega

/-- the drift block contains the constant exactly once, and it is the last name -/
theorem drift_constant_once_last (k : Nat) :
    (driftNames k).count "constant" = 1 ∧ (driftNames k).getLast? = some "constant" := by
  refine ⟨?_, by simp [driftNames]⟩
  exact List.count_eq_one_of_mem (drift_names_nodup k) (by simp [driftNames])

/-- polynomial drift: `order + 1` columns -/
theorem poly_drift_column_count (order : Nat) (frames : List Rat) (tmax : Rat) :
    (polyDrift order frames tmax).length = order + 1 := by
  have hl := orthogonalize_length ((List.range (order + 1)).map (fun k => frames.map (fun t => (t / tmax) ^ k)))
  simp only [polyDrift]
  cases ho : orthogonalize ((List.range (order + 1)).map (fun k => frames.map (fun t => (t / tmax) ^ k))) with
  | nil => rw [ho] at hl; simp at hl
  | cons c0 rest => rw [ho] at hl; simp at hl ⊢; omega

/-- polynomial drift: the last column is the constant column of ones (for every `tmax`, also when the
    implementation's `tmax` is where the source takes it: `abs(frametimes).max()`) -/
theorem poly_drift_constant_last (order : Nat) (frames : List Rat) (tmax : Rat) :
    (polyDrift order frames tmax).getLast? = some (frames.map (fun _ => (1 : Rat))) := by
  simp only [polyDrift]
  have hr : (List.range (order + 1)).map (fun k => frames.map (fun t => (t / tmax) ^ k)) =
      frames.map (fun _ => (1 : Rat)) ::
        (List.range order).map (fun k => frames.map (fun t => (t / tmax) ^ (k + 1))) := by
    rw [List.range_succ_eq_map]
    simp [List.map_map, Function.comp_def]
  rw [hr]
  obtain ⟨rest, h, _⟩ := orthogonalize_cons_head (frames.map (fun _ => (1 : Rat)))
    ((List.range order).map (fun k => frames.map (fun t => (t / tmax) ^ (k + 1))))
  rw [h]
  simp

/-- the column scaling as written: with `tmax = abs(frametimes).max() > 0` every entry `(t / tmax) ** k` of
    the raw columns lies in `[-1, 1]` -/
theorem poly_drift_entries_bounded (frames : List Rat) (t : Rat) (k : Nat) (ht : t ∈ frames)
    (hpos : 0 < listMax (frames.map (fun t => if t < 0 then -t else t))) :
    |(t / listMax (frames.map (fun t => if t < 0 then -t else t))) ^ k| ≤ 1 := by
  set tmax := listMax (frames.map (fun t => if t < 0 then -t else t)) with htm
  have habs : |t| ≤ tmax := by
    have hm : (if t < 0 then -t else t) ∈ frames.map (fun t => if t < 0 then -t else t) :=
      List.mem_map.mpr ⟨t, ht, rfl⟩
    have := le_listMax _ _ hm
    by_cases h : t < 0
    · rw [abs_of_neg h]; simpa [h] using this
    · rw [abs_of_nonneg (not_lt.mp h)]; simpa [h] using this
  rw [abs_pow]
  apply pow_le_one₀ (abs_nonneg _)
  rw [abs_div, abs_of_pos hpos]
  exact (div_le_one hpos).mpr habs

/-- the drift block of every model of `make_dmtx`: polynomial `order + 1` columns, blank one, cosine at
    least one (`cosine_order_le` in Props/C07Drift bounds it by the run length) -/
theorem drift_block_columns (model : String) (n : Nat) (dt hfcut : Rat) (order : Nat) :
    (model.toLower = "polynomial" → driftCols model n dt hfcut order = .ok (order + 1)) ∧
    (model.toLower = "blank" → driftCols model n dt hfcut order = .ok 1) ∧
    (model.toLower = "cosine" → ∃ k, 1 ≤ k ∧ driftCols model n dt hfcut order = .ok k) := by
  refine ⟨fun h => by simp [driftCols, h], fun h => by simp [driftCols, h], fun h => ?_⟩
  exact ⟨max (Rat.floor (2 * (n : Rat) * (1 / hfcut) * dt)).toNat 1, le_max_right _ _, by simp [driftCols, h]⟩

/-- cosine drift on the model's own arithmetic (`driftCols`, rationals): when the cut-off period is at least
    two scans (`2 * dt ≤ hfcut`) the block has at most as many columns as there are scans -/
theorem cosine_cols_le_frames (model : String) (n : Nat) (dt hfcut : Rat) (order k : Nat)
    (hm : model.toLower = "cosine") (hn : 1 ≤ n) (hf : 0 < hfcut) (hcut : 2 * dt ≤ hfcut)
    (h : driftCols model n dt hfcut order = .ok k) : 1 ≤ k ∧ k ≤ n := by
  simp only [driftCols, hm, Except.ok.injEq] at h
  subst h
  refine ⟨le_max_right _ _, max_le ?_ hn⟩
  have hx : 2 * (n : Rat) * (1 / hfcut) * dt ≤ (n : Rat) := by
    have hn0 : (0 : Rat) ≤ (n : Rat) := Nat.cast_nonneg n
    rw [show 2 * (n : Rat) * (1 / hfcut) * dt = (n : Rat) * (2 * dt) / hfcut by ring, div_le_iff₀ hf]
    exact mul_le_mul_of_nonneg_left hcut hn0
  have hfl : Rat.floor (2 * (n : Rat) * (1 / hfcut) * dt) ≤ (n : Int) := by
    have h1 : ((Rat.floor (2 * (n : Rat) * (1 / hfcut) * dt) : Int) : Rat) ≤ (n : Rat) :=
      le_trans (Rat.floor_le _) hx
    exact_mod_cast h1
  omega

/-! ## condition columns -/

/-- every condition yields exactly `kernelCount` columns; the whole block has `#conditions × kernelCount` -/
theorem convolve_names_length (conds : List String) (m : Hrf) (d : List Nat) :
    (convolveNames conds m d).length = conds.length * kernelCount m d := by
  induction conds with
  | nil => simp [convolveNames]
  | cons c cs ih =>
      simp only [convolveNames, List.flatMap_cons, List.length_append, List.length_cons] at ih ⊢
      rw [ih, names_match_kernels]
      ring

/-- documented order: column `i * K + j` is basis function `j` of condition `i` (`K = kernelCount`),
    for every haemodynamic model and every list of fir delays -/
theorem convolve_column_position (conds : List String) (m : Hrf) (d : List Nat) (i j : Nat)
    (hi : i < conds.length) (hj : j < kernelCount m d) :
    (convolveNames conds m d)[i * kernelCount m d + j]? =
      (regressorNames (conds[i]'hi) m d)[j]? := by
  induction conds generalizing i with
  | nil => simp at hi
  | cons c cs ih =>
      simp only [convolveNames, List.flatMap_cons]
      cases i with
      | zero =>
          simp only [Nat.zero_mul, Nat.zero_add, List.getElem_cons_zero]
          rw [List.getElem?_append_left (by rw [names_match_kernels]; exact hj)]
      | succ i =>
          have hi' : i < cs.length := by simpa using hi
          rw [List.getElem?_append_right (by rw [names_match_kernels]; nlinarith)]
          rw [names_match_kernels]
          have : (i + 1) * kernelCount m d + j - kernelCount m d = i * kernelCount m d + j := by
            rw [Nat.succ_mul]; omega
          rw [this]
          simpa [convolveNames] using ih i hi'

/-- fir: column `i * #delays + j` is named `<condition>_delay_<fir_delays[j]>` -/
theorem convolve_fir_column_name (conds : List String) (d : List Nat) (i j : Nat)
    (hi : i < conds.length) (hj : j < d.length) :
    (convolveNames conds .fir d)[i * d.length + j]? =
      some (conds[i]'hi ++ "_delay_" ++ toString (d[j]'hj)) := by
  have := convolve_column_position conds .fir d i j hi (by simpa [kernelCount] using hj)
  simp only [kernelCount] at this
  rw [this]
  simp [regressorNames, hj]

/-- `make_dmtx`'s names are the condition block, the user regressors, the drift block -/
theorem dmtx_names_blocks (conds : List String) (m : Hrf) (d : List Nat) (add : List String) (nd : Nat) :
    dmtxNames conds m d add nd = convolveNames conds m d ++ add ++ driftNames nd := rfl

/-- **`make_dmtx` as a whole**: whenever it accepts its arguments, the matrix has one column per name —
    `#conditions × kernelCount` condition columns (in condition order), the user regressors, then the drift
    block of `_make_drift` (at least one column, `order + 1` for a polynomial drift, one for blank) whose last
    name, the last of all, is the only `constant` of the drift block -/
theorem make_dmtx_column_count (s : DmSpec) (conds : List String) (m : Hrf) (add : List String) (nd : Nat)
    (h : makeDmtxParts s = .ok (conds, m, add, nd)) :
    1 ≤ nd ∧ makeDrift s.drift s.nframes s.dt s.hfcut s.order = .ok (nd, driftNames nd) ∧
    (dmtxNames conds m s.firDelays add nd).length =
      conds.length * kernelCount m s.firDelays + add.length + nd ∧
    (dmtxNames conds m s.firDelays add nd).getLast? = some "constant" ∧
    (s.drift.toLower = "polynomial" → nd = s.order + 1) ∧ (s.drift.toLower = "blank" → nd = 1) := by
  have hd := makeDmtxParts_drift s conds m add nd h
  have hmk : makeDrift s.drift s.nframes s.dt s.hfcut s.order = .ok (nd, driftNames nd) := by
    simp [makeDrift, hd, Except.map]
  have h1 := (make_drift_names_length _ _ _ _ _ _ _ hmk).1
  refine ⟨h1, hmk, dmtx_column_count conds m s.firDelays add nd h1, dmtx_constant_last conds m s.firDelays add nd, ?_, ?_⟩
  · intro hp
    have := (drift_block_columns s.drift s.nframes s.dt s.hfcut s.order).1 hp
    rw [hd] at this
    exact (Except.ok.inj this)
  · intro hb
    have := (drift_block_columns s.drift s.nframes s.dt s.hfcut s.order).2.1 hb
    rw [hd] at this
    exact (Except.ok.inj this)

/-! ## `_full_rank` -/

/-- after the regularisation the ratio of the extreme singular values is exactly `cmax` -/
theorem full_rank_condition (smax smin cmax : Rat) (hne : smax ≠ smin) (hc : cmax ≠ 1) :
    (smax + fullRankLda smax smin cmax) / (smin + fullRankLda smax smin cmax) = cmax := by
  have h1 : cmax - 1 ≠ 0 := sub_ne_zero.mpr hc
  have h2 : smax - smin ≠ 0 := sub_ne_zero.mpr hne
  have hden : smin + fullRankLda smax smin cmax = (smax - smin) / (cmax - 1) := by
    simp only [fullRankLda]; field_simp; ring
  have hnum : smax + fullRankLda smax smin cmax = cmax * ((smax - smin) / (cmax - 1)) := by
    simp only [fullRankLda]; field_simp; ring
  rw [hden, hnum]
  exact mul_div_cancel_right₀ cmax (div_ne_zero h2 h1)

/-- the shift is non-negative exactly in the branch that applies it (condition number ≥ `cmax > 1`), so
    singular values only grow and their order is kept -/
theorem full_rank_shift_nonneg (smax smin cmax : Rat) (hc : 1 < cmax) (hs : 0 ≤ smin) (hle : smin ≤ smax)
    (hk : fullRankKeep smax smin cmax = false) : 0 ≤ fullRankLda smax smin cmax := by
  simp only [fullRankLda]
  apply div_nonneg _ (by linarith)
  simp only [fullRankKeep, Bool.and_eq_false_iff, decide_eq_false_iff_not, not_not, not_lt] at hk
  rcases hk with h0 | h
  · rw [h0] at hle ⊢
    simpa using hle
  · rcases eq_or_lt_of_le hs with h0 | hpos
    · rw [← h0] at hle ⊢
      simpa using hle
    · have := (le_div_iff₀ hpos).mp h
      linarith

/-- the singular values the model returns: unchanged, or all shifted by the same `lda` -/
theorem full_rank_values (s : List Rat) (cmax : Rat) :
    (fullRank s cmax).1 = s ∨
      (fullRank s cmax).1 = s.map (fun x => x + fullRankLda (listMax s) (listMin s) cmax) ∧
        (fullRank s cmax).2 = cmax := by
  unfold fullRank
  dsimp only
  split_ifs
  · exact Or.inl rfl
  · exact Or.inr ⟨rfl, rfl⟩

/-! ## Non-vacuity -/

example : (gammaRaw [1, 2, 3] [1, 0, 1] (1/2)).sum ≠ 0 := by decide +kernel
example : (gammaDiffHrf [1, 2, 3] [1, 0, 1] (1/2)).sum = 1 := by decide +kernel
example : makeDrift "Polynomial" 10 1 128 3 = .ok (4, ["drift_1", "drift_2", "drift_3", "constant"]) := by decide +kernel
example : convolveNames ["a", "b"] .fir [1, 3] = ["a_delay_1", "a_delay_3", "b_delay_1", "b_delay_3"] := by decide +kernel
example : fullRankKeep 100 1 10 = false ∧ (fullRank [100, 1] 10).1 = [110, 11] := by decide +kernel
example : 0 < listMax ([(-3 : Rat), 1, 2].map (fun t => if t < 0 then -t else t)) := by decide +kernel
example : hrfLen 2 16 32 = 256 := by decide +kernel
example : driftCols "Cosine" 10 2 128 1 = .ok 1 ∧ driftCols "cosine" 10 2 8 1 = .ok 5 := by decide +kernel

end NipyVerif.C07
