/-
C07 — clause "cosine-drift columns are orthonormal": the columns `_cosine_drift` evaluates
(`nfct * cos((pi / n) * (t + .5) * k)`, `nfct = sqrt(2 / n)`, then the constant column) are exactly
orthonormal over the reals and orthogonal to the constant, for every run length `n` and every
admissible number of columns (`order <= n`, i.e. a cut-off period of at least two scans).
The expressions are tied to the source text by `Props/C07Source.lean` (`cosine_source_as_modelled`);
`np.cos`, `np.sqrt` and floating-point summation are the parameters (numeric oracle in the check).
-/
import NipyVerif.Lemmas.C07Drift

open Finset Real

namespace NipyVerif.C07

/-- the cosine columns are orthogonal to the constant column: they sum to zero (`0 < k < 2n`) -/
theorem cosine_drift_orthogonal_to_constant (n k : ℕ) (hk : 0 < k) (hkn : k < 2 * n) :
    ∑ t ∈ range n, cosDriftCol n k t * 1 = 0 := by
  simp only [cosDriftCol, mul_one, cosDriftCol_arg]
  rw [← mul_sum, sum_cos_half_shift_eq_zero n k hk hkn, mul_zero]


/-- **The cosine drift columns are orthonormal** (clause "cosine-drift columns are orthonormal"):
    for `0 < k, l < n` (cut-off period at least two scans, so that `order ≤ n`),
    `Σ_t col_k(t) · col_l(t) = δ_kl`. -/
theorem cosine_drift_orthonormal (n k l : ℕ) (hk : 0 < k) (hl : 0 < l) (hkn : k < n) (hln : l < n) :
    ∑ t ∈ range n, cosDriftCol n k t * cosDriftCol n l t = if k = l then 1 else 0 := by
  have hn : 0 < n := by omega
  have hnR : (0 : ℝ) < n := by exact_mod_cast hn
  simp only [cosDriftCol, cosDriftCol_arg]
  have : ∀ t : ℕ, Real.sqrt (2 / n) * cos (((t : ℝ) + 1 / 2) * (π * k / n)) *
      (Real.sqrt (2 / n) * cos (((t : ℝ) + 1 / 2) * (π * l / n))) =
      (2 / n) * (cos (((t : ℝ) + 1 / 2) * (π * k / n)) * cos (((t : ℝ) + 1 / 2) * (π * l / n))) := by
    intro t
    have hs : Real.sqrt (2 / n) * Real.sqrt (2 / n) = 2 / n := Real.mul_self_sqrt (by positivity)
    calc _ = (Real.sqrt (2 / n) * Real.sqrt (2 / n)) *
          (cos (((t : ℝ) + 1 / 2) * (π * k / n)) * cos (((t : ℝ) + 1 / 2) * (π * l / n))) := by ring
      _ = _ := by rw [hs]
  simp_rw [this]
  rw [← mul_sum, sum_cos_mul_cos n k l hk hl hkn hln]
  split_ifs
  · field_simp
  · simp

end NipyVerif.C07

namespace NipyVerif.C07

/-- entry `(t, j)` of the matrix `_cosine_drift` returns: columns `0 … order-2` are the cosines
    `k = j + 1`, the last column is the constant `1` -/
noncomputable def cosDriftEntry (n order t j : ℕ) : ℝ :=
  if j + 1 < order then cosDriftCol n (j + 1) t else 1

/-- **Gram matrix of the whole drift block** (cosine columns and the constant): for `order ≤ n`
    the cosine columns are orthonormal, each is orthogonal to the constant, and the constant column
    has squared norm `n` ("or 1/sqrt(len_tim) to normalize", as the source comments). -/
theorem cosine_drift_gram (n order i j : ℕ) (hon : order ≤ n) (hi : i < order) (hj : j < order) :
    ∑ t ∈ range n, cosDriftEntry n order t i * cosDriftEntry n order t j =
      if i = j then (if i + 1 < order then 1 else (n : ℝ)) else 0 := by
  unfold cosDriftEntry
  by_cases hic : i + 1 < order <;> by_cases hjc : j + 1 < order
  · simp only [hic, hjc, if_true]
    rw [cosine_drift_orthonormal n (i + 1) (j + 1) (by omega) (by omega) (by omega) (by omega)]
    by_cases h : i = j
    · subst h; simp
    · have : i + 1 ≠ j + 1 := by omega
      simp [h, this]
  · have hij : i ≠ j := by omega
    simp only [hic, hjc, if_true, if_false, hij]
    exact cosine_drift_orthogonal_to_constant n (i + 1) (by omega) (by omega)
  · have hij : i ≠ j := by omega
    simp only [hic, hjc, if_true, if_false, hij]
    have := cosine_drift_orthogonal_to_constant n (j + 1) (by omega) (by omega)
    simp only [mul_one] at this
    simpa using this
  · have hij : i = j := by omega
    subst hij
    simp [hic]

/-- the number of columns `order = max(int(floor(2 * n * hfcut * dt)), 1)` does not exceed the number of
    scans when the cut-off period is at least two scans (`hfcut * dt ≤ 1/2`) — the domain on which an
    orthonormal family exists at all -/
theorem cosine_order_le (n : ℕ) (x : ℝ) (hn : 0 < n) (hx : x ≤ 1 / 2) :
    max ⌊2 * (n : ℝ) * x⌋₊ 1 ≤ n := by
  apply max_le _ hn
  apply Nat.floor_le_of_le
  have : (0 : ℝ) ≤ n := by positivity
  nlinarith

/-- non-vacuity: four scans, the two first cosine columns -/
example : ∑ t ∈ range 4, cosDriftCol 4 1 t * cosDriftCol 4 2 t = 0 := by
  simpa using cosine_drift_orthonormal 4 1 2 (by norm_num) (by norm_num) (by norm_num) (by norm_num)

example : ∑ t ∈ range 4, cosDriftCol 4 3 t * cosDriftCol 4 3 t = 1 := by
  simpa using cosine_drift_orthonormal 4 3 3 (by norm_num) (by norm_num) (by norm_num) (by norm_num)

end NipyVerif.C07
