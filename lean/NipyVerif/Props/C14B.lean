/-
C14 — the global structure of the dendrogram built by a graph-constrained agglomeration (`ward`,
`ward_quick`, `average_link_graph`): theorems about every state reachable from `n` items and the
constraint edges `E` by merging, at each step, any two clusters joined by a live edge (`Reach`).
Only property statements and their non-vacuity examples live here; proofs are in `Lemmas/C14Skel`.
-/
import NipyVerif.Lemmas.C14Skel

namespace NipyVerif.C14

variable {n : Nat} {E : List (Nat × Nat)} {s : Skel}

/-! ## Shape of the forest -/

/-- "one binary merge per non-leaf" (numbering): after `q` merges there are exactly `n + q` nodes,
    the `t`-th merge creating node `n + t`. -/
theorem agglo_node_count (hR : Reach n E s) : s.size = n + s.ms.length :=
  reach_size hR

/-- "a forest …, one binary merge per non-leaf" (well-formed merges): no node is merged twice, and
    the `t`-th merge joins two distinct nodes that already exist when it happens. -/
theorem agglo_merges_wellformed (hE : GoodEdges n E) (hR : Reach n E s) :
    (s.ms.flatMap (fun m => [m.1, m.2])).Nodup ∧
      ∀ t (ht : t < s.ms.length),
        (s.ms[t]).1 ≠ (s.ms[t]).2 ∧ (s.ms[t]).1 < n + t ∧ (s.ms[t]).2 < n + t := by
  have h := reach_inv hE hR
  exact ⟨h.nodup, fun t ht => ⟨kids_nodup_ne h.nodup t ht, h.lt t ht⟩⟩

/-- "a forest with the input items as leaves, one binary merge per non-leaf": in the `parents`
    array parents come after their children, the `n` items are nobody's parent and every other
    node has exactly two children. -/
theorem agglo_dendrogram (hE : GoodEdges n E) (hR : Reach n E s) :
    Dendro n (parentsOf n s.ms) :=
  (reach_inv hE hR).dendro

/-- "one tree per connected component" (count of the trees): the forest has `n − #merges` roots. -/
theorem agglo_tree_count (hE : GoodEdges n E) (hR : Reach n E s) :
    nbTrees (parentsOf n s.ms) + s.ms.length = n :=
  (reach_inv hE hR).tree_count

/-- "one binary merge per non-leaf" (bound): `n > 0` items are merged fewer than `n` times. -/
theorem agglo_merges_lt (hE : GoodEdges n E) (hR : Reach n E s) (hn : 0 < n) : s.ms.length < n :=
  (reach_inv hE hR).merges_lt hn

/-! ## Live edges are the constraint edges between current clusters -/

/-- "merging only clusters joined by an edge" (live edges are sound): every live edge joins the
    roots of two different clusters that contain the two ends of a constraint edge. -/
theorem agglo_edges_sound (hE : GoodEdges n E) (hR : Reach n E s) :
    ∀ e ∈ s.edges, e.1 ≠ e.2 ∧ ∃ e0 ∈ E, e = (s.rep n e0.1, s.rep n e0.2) :=
  (reach_inv hE hR).sound

/-- "merging only clusters joined by an edge" (live edges are complete): a constraint edge whose
    two ends lie in different clusters is still represented by a live edge between their roots. -/
theorem agglo_edges_complete (hE : GoodEdges n E) (hR : Reach n E s) :
    ∀ e0 ∈ E, s.rep n e0.1 ≠ s.rep n e0.2 → s.adm (s.rep n e0.1) (s.rep n e0.2) = true :=
  (reach_inv hE hR).complete

/-- "a forest with the input items as leaves" (items and roots): the current cluster `rep a` of an
    item is an ancestor-or-self of `a` in the `parents` array, and it is a root. -/
theorem agglo_rep_is_root (hE : GoodEdges n E) (hR : Reach n E s) :
    ∀ a, a < n → Below (parentsOf n s.ms) a (s.rep n a)
      ∧ parFn (parentsOf n s.ms) (s.rep n a) = s.rep n a ∧ s.rep n a < s.size := by
  intro a ha
  have h := reach_inv hE hR
  obtain ⟨h1, h2⟩ := h.live a ha
  exact ⟨reach_rep_below hE hR a ha, by rw [h.parFn_eq]; exact parentOf_not_kid h2, h1⟩

/-- "a forest with the input items as leaves" (no empty tree): every root is the current cluster
    of some item. -/
theorem agglo_root_is_rep (hE : GoodEdges n E) (hR : Reach n E s) :
    ∀ r, r < s.size → parFn (parentsOf n s.ms) r = r → ∃ a, a < n ∧ s.rep n a = r := by
  intro r hr hp
  have h := reach_inv hE hR
  rw [h.parFn_eq] at hp
  exact h.surj r hr ((h.root_iff r).mp hp)

/-- "merging only clusters joined by an edge": an admissible merge joins two clusters that contain
    two items adjacent in the constraint graph. -/
theorem agglo_merge_joins_adjacent (hE : GoodEdges n E) (hR : Reach n E s) {i j : Nat}
    (hadm : s.adm i j = true) :
    ∃ x y, x < n ∧ y < n ∧ Adj E x y ∧ s.rep n x = i ∧ s.rep n y = j :=
  ((reach_inv hE hR).adm_spec hE hadm).2

/-! ## Clusters and connected components -/

/-- "merging only clusters joined by an edge" (consequence for every node of the dendrogram, not
    only the current roots): the items below any node form a connected subset of the constraint
    graph — any two are joined by a path of constraint edges that stays below that node. -/
theorem agglo_subtree_connected (hE : GoodEdges n E) (hR : Reach n E s) :
    ∀ r, r < s.size → ∀ a b, a < n → b < n →
      Below (parentsOf n s.ms) a r → Below (parentsOf n s.ms) b r →
      ConnIn E (fun c => c < n ∧ Below (parentsOf n s.ms) c r) a b :=
  reach_subtree_conn hE hR

/-- "one tree per connected component": once no live edge is left, two items are in the same tree
    exactly when they are in the same connected component of the constraint graph. -/
theorem agglo_final_components (hE : GoodEdges n E) (hR : Reach n E s) (hfin : s.edges = []) :
    ∀ a b, a < n → b < n → (s.rep n a = s.rep n b ↔ Conn E a b) :=
  reach_final_iff hE hR hfin

/-- "one tree per connected component" (the `n − nbcc` merges of `ward`): once no live edge is
    left, the number of merges is `n` minus the number of connected components, for any labelling
    `c` of the components (e.g. `Graph.cc()`). -/
theorem agglo_merge_count (hE : GoodEdges n E) (hR : Reach n E s) (hfin : s.edges = [])
    (c : Nat → Nat) (hc : ∀ a b, a < n → b < n → (c a = c b ↔ Conn E a b)) :
    ((Finset.range n).image c).card + s.ms.length = n :=
  reach_merge_count hE hR hfin c hc

/-! ## Replayed merge sequences -/

/-- "merging only clusters joined by an edge" (replay): running a merge sequence every step of
    which is admissible when it is applied (`Skel.admAll`, the flags reported by the replay
    checker) stays within the reachable states, so all the theorems above apply to it. -/
theorem agglo_run_reach (hR : Reach n E s) (S : List (Nat × Nat)) (hS : s.admAll S = true) :
    Reach n E (s.run S) :=
  reach_run hR S hS

/-! ## Non-vacuity: the path `0 – 1 – 2 – 3` -/

/-- the constraint edges of the example (`exE`, in `Lemmas/C14Skel`) join distinct items -/
example : GoodEdges 4 exE := by unfold GoodEdges exE; decide

/-- the state `exS` (merge `0,1 ↦ 4`, then `2,3 ↦ 5`, then `4,5 ↦ 6`) built with the
    constructors, every merge admissible -/
example : Reach 4 exE exS :=
  Reach.step (Reach.step (Reach.step Reach.init (by decide)) (by decide)) (by decide)

example : exS.edges = [] ∧ exS.ms = [(0, 1), (2, 3), (4, 5)] ∧ exS.size = 7 := by decide

example : parentsOf 4 exS.ms = [4, 4, 5, 5, 6, 6, 6] := by decide

/-- the same state through the replay: `agglo_run_reach` has a satisfiable hypothesis -/
example : Reach 4 exE ((skelInit 4 exE).run [(0, 1), (2, 3), (4, 5)]) :=
  agglo_run_reach Reach.init _ (by decide)

/-- an admissible pair in a non-final state (hypothesis of `agglo_merge_joins_adjacent`) -/
example : ((skelInit 4 exE).step 0 1).adm 4 2 = true := by decide

/-- `agglo_final_components` on the path: all four items end in one tree iff connected -/
example : ∀ a b, a < 4 → b < 4 → (exS.rep 4 a = exS.rep 4 b ↔ Conn exE a b) :=
  agglo_final_components exE_good exS_reach (by decide)

/-- `agglo_merge_count` on the path, with the component labelling given by the final roots:
    one component, three merges -/
example : ((Finset.range 4).image (exS.rep 4)).card + exS.ms.length = 4 :=
  agglo_merge_count exE_good exS_reach (by decide) (exS.rep 4)
    (agglo_final_components exE_good exS_reach (by decide))

/-- … and the items `0` and `3` are indeed connected (the conclusion is not vacuous) -/
example : Conn exE 0 3 :=
  (agglo_final_components exE_good exS_reach (by decide) 0 3 (by decide) (by decide)).mp
    (by decide)

end NipyVerif.C14
