/-
C01 — property theorems about the model in `NipyVerif.Model.C01`
(coordinate-map algebra agrees with function semantics).
Only property statements and their non-vacuity examples live here.
-/
import NipyVerif.Lemmas.C01

namespace NipyVerif.C01

/-! ## Composition = applying the maps one after the other -/

/-- Clause "evaluating a composition of coordinate maps at any point gives the
    same result as applying the maps one after the other", binary form of
    `_compose_affines`: for all matrices with the exact homogeneous bottom row,
    all points. -/
theorem compose_apply (A B C : Aff) (h : compose A B = .ok C)
    (hA : A.bottomExact) (hB : B.bottomExact) (x : List Rat) :
    C.apply x = A.apply (B.apply x) := by
  have := (composeList_apply h (by
    intro M hM
    simp only [List.mem_cons, List.mem_nil_iff, or_false] at hM
    rcases hM with rfl | rfl <;> assumption)).1 x
  simpa using this

/-- The same clause for every finite chain `compose(A₁, …, Aₙ)` (induction over
    the list of maps); the result again has the exact bottom row, so chains of
    chains compose. -/
theorem composeChain_apply (l : List Aff) (C : Aff) (h : composeList l = .ok C)
    (hl : ∀ A ∈ l, A.bottomExact) :
    (∀ x, C.apply x = l.foldr (fun A acc => A.apply acc) x) ∧ C.bottomExact :=
  composeList_apply h hl

/-- Clause "maps whose coordinate systems do not match are refused rather than
    composed": if the domain of the outer map is not *exactly* the range of the
    inner map (coordinate names, their order, system name, dtype), composition
    raises `ValueError`. -/
theorem compose_refuses (A B : Aff) (hB : B.rng.dtype = B.dom.dtype) (hne : A.dom ≠ B.rng) :
    compose A B = .error .valueError :=
  compose_refuses' A B hB hne


/-! ## Inverse -/

/-- Clause "an inverse map undoes its map wherever an inverse exists": whenever
    `inverse()` returns a map `B`, `B(A(x)) = x` for every point of the domain. -/
theorem inverse_apply_left (A B : Aff) (h : inverse A = .ok (some B)) (hA : A.bottomExact)
    (x : List Rat) (hx : x.length = A.nin) : B.apply (A.apply x) = x :=
  inverse_left' h hA x hx

/-- … and `A(B(y)) = y` for every point of the range; the inverse exchanges
    domain and range names and has the exact bottom row again. -/
theorem inverse_apply_right (A B : Aff) (h : inverse A = .ok (some B))
    (y : List Rat) (hy : y.length = A.nout) :
    A.apply (B.apply y) = y ∧ B.dom.names = A.rng.names ∧ B.rng.names = A.dom.names ∧
      B.bottomExact := by
  obtain ⟨_, _, _, h4, h5, h6, _, _⟩ := inverse_ok h
  exact ⟨inverse_right' h y hy, h4, h5, h6⟩

/-! ## Product -/

/-- Clause "a product map acts independently on each block of coordinates":
    `product(A, B)(x ++ y) = A(x) ++ B(y)`; names are concatenated. -/
theorem product_apply_blocks (A B C : Aff) (i o : String) (h : product [A, B] i o = .ok C)
    (x y : List Rat) (hx : x.length = A.nin) :
    C.apply (x ++ y) = A.apply x ++ B.apply y ∧
      C.dom.names = A.dom.names ++ B.dom.names ∧ C.rng.names = A.rng.names ++ B.rng.names ∧
      C.bottomExact := by
  obtain ⟨p1, p2, _, _, _⟩ := product_pair_ok h
  exact ⟨product_pair_apply h x y hx, p1, p2, product_pair_bottom h⟩

/-! ## Reordering: every permutation, named tuples -/

/-- Clause "reordering the input coordinates only permutes coordinates":
    for **every** permutation `ord` of the input axes (given by index, by name
    or the default reversal — `ord` is the resolved order), the reordered map
    fed with the permuted tuple gives the original outputs, and the new axis
    names are the old names in the requested order. -/
theorem reorderedDomain_apply (A B : Aff) (o : Order) (ord : List Nat) (ncs : CoordSys)
    (hcs : reorderCS A.dom o = .ok (ord, ncs)) (hp : ord.Perm (List.range A.nin))
    (hA : A.bottomExact) (h : reorderedDomain A o = .ok B) :
    B.dom.names = ord.map (fun i => A.dom.names.getD i "") ∧ B.rng.names = A.rng.names ∧
    B.bottomExact ∧ ∀ x, B.apply (ord.map fun k => x.getD k 0) = A.apply x :=
  reorderedDomain_apply' A B o ord ncs hcs hp hA h

/-- "every named input tuple still maps to the same named output values":
    evaluating on an assignment `name ↦ value` gives the same named outputs
    before and after `reordered_domain`, for every permutation. -/
theorem reorderedDomain_named (A B : Aff) (o : Order) (ord : List Nat) (ncs : CoordSys)
    (hcs : reorderCS A.dom o = .ok (ord, ncs)) (hp : ord.Perm (List.range A.nin))
    (hA : A.bottomExact) (h : reorderedDomain A o = .ok B) (env : String → Rat) :
    B.applyNamed env = A.applyNamed env := by
  obtain ⟨h1, h2, _, h4⟩ := reorderedDomain_apply' A B o ord ncs hcs hp hA h
  unfold Aff.applyNamed
  rw [h2, h1, ← h4 (A.dom.names.map env)]
  congr 2
  rw [List.map_map]
  apply List.map_congr_left
  intro k hk
  have hk' : k < A.dom.names.length := perm_lt hp hk
  simp [List.getD_eq_getElem?_getD, List.getElem?_eq_getElem hk']

/-- Output side: for every permutation `ord` of the output axes the reordered
    map returns exactly the permuted outputs under the permuted names, i.e. the
    named outputs are the old ones listed in the new order. -/
theorem reorderedRange_named (A B : Aff) (o : Order) (ord : List Nat) (ncs : CoordSys)
    (hcs : reorderCS A.rng o = .ok (ord, ncs)) (hp : ord.Perm (List.range A.nout))
    (hA : A.bottomExact) (h : reorderedRange A o = .ok B) (env : String → Rat) :
    B.dom.names = A.dom.names ∧ B.bottomExact ∧
    B.applyNamed env = ord.map (fun k => (A.applyNamed env).getD k ("", 0)) := by
  obtain ⟨h1, h2, h3, h4⟩ := reorderedRange_apply' A B o ord ncs hcs hp hA h
  refine ⟨h2, h3, ?_⟩
  unfold Aff.applyNamed
  rw [h1, h2, h4, List.zip_map']
  apply List.map_congr_left
  intro k hk
  have hk' : k < A.nout := perm_lt hp hk
  have hk1 : k < A.rng.names.length := hk'
  have hk2 : k < (A.apply (A.dom.names.map env)).length := by rw [apply_length]; exact hk'
  have hz : k < (A.rng.names.zip (A.apply (A.dom.names.map env))).length := by
    simp only [List.length_zip]; omega
  simp [List.getD_eq_getElem?_getD, List.getElem?_eq_getElem hk1, List.getElem?_eq_getElem hk2,
    List.getElem?_eq_getElem hz, List.getElem_zip]

/-- `reordered_*` accepts an order only if it is a permutation of the axis
    indices (`_checked_order`), so the permutation hypothesis of the theorems
    above always holds when the operation succeeds. -/
theorem reorder_accepts_only_permutations (cs ncs : CoordSys) (o : Order) (ord : List Nat)
    (h : reorderCS cs o = .ok (ord, ncs)) : ord.Perm (List.range cs.names.length) := by
  unfold reorderCS at h
  cases hr : resolveOrder cs o with
  | error e => rw [hr] at h; cases h
  | ok ord' =>
      rw [hr] at h
      simp only at h
      split_ifs at h with h1 h2
      unfold mkCS at h
      split_ifs at h
      simp only [Except.ok.injEq, Prod.mk.injEq] at h
      obtain ⟨rfl, _⟩ := h
      exact List.isPerm_iff.mp (by simpa using h1)

/-- the default order (reversal) is a permutation, so the two theorems above
    apply to `reordered_domain()` / `reordered_range()` without arguments -/
theorem reverse_is_permutation (n : Nat) : (List.range n).reverse.Perm (List.range n) :=
  List.reverse_perm _

/-! ## Renaming -/

/-- Clause "renaming only relabels coordinates": `renamed_domain` changes no
    value (`B(x) = A(x)` for all `x`), keeps the output names, and the new
    input names are the relabelled old ones. -/
theorem renamedDomain_apply (A B : Aff) (kv : List (Key × String)) (hA : A.bottomExact)
    (h : renamedDomain A kv = .ok B) :
    (∃ ncs, renameCS A.dom kv = .ok ncs ∧ B.dom.names = ncs.names) ∧ B.rng.names = A.rng.names ∧
    B.bottomExact ∧ ∀ x, B.apply x = A.apply x :=
  renamedDomain_apply' hA h

theorem renamedRange_apply (A B : Aff) (kv : List (Key × String)) (hA : A.bottomExact)
    (h : renamedRange A kv = .ok B) :
    (∃ ncs, renameCS A.rng kv = .ok ncs ∧ B.rng.names = ncs.names) ∧ B.dom.names = A.dom.names ∧
    B.bottomExact ∧ ∀ x, B.apply x = A.apply x :=
  renamedRange_apply' hA h

/-- the relabelling itself: position `k` gets the requested new name (last
    integer key wins over a name key), unknown keys are refused -/
theorem rename_relabels (cs ncs : CoordSys) (kv : List (Key × String)) (h : renameCS cs kv = .ok ncs) :
    ∃ d, resolveKeys cs.names kv = .ok d ∧ (∀ p ∈ d, p.1 ∈ cs.names) ∧
      ncs.names = cs.names.map (fun n => (lookupLast d n).getD n) ∧ ncs.name = cs.name ∧
      ncs.dtype = cs.dtype :=
  renameCS_ok h

/-! ## General `CoordinateMap` (arbitrary functions) -/

/-- Composition clause for general maps: for **any** functions,
    `compose(M, N)` evaluates as `M ∘ N`, from `N`'s domain to `M`'s range. -/
theorem ccompose_apply (M N C : CMap) (h : ccomposeList [M, N] = .ok C) :
    (∀ x, C.fn x = M.fn (N.fn x)) ∧ C.dom = N.dom ∧ C.rng = M.rng := by
  unfold ccomposeList at h
  simp only [List.reverse_cons, List.reverse_nil, List.nil_append, List.cons_append,
    ccomposeFrom, cstep, if_true] at h
  split_ifs at h with hg
  simp only [Except.ok.injEq] at h
  subst h
  exact ⟨fun x => rfl, rfl, rfl⟩

/-- Refusal clause for general maps. -/
theorem ccompose_refuses (M N : CMap) (hne : M.dom ≠ N.rng) :
    ∃ e, ccomposeList [M, N] = .error e ∧ e = .valueError := by
  unfold ccomposeList
  simp only [List.reverse_cons, List.reverse_nil, List.nil_append, List.cons_append,
    ccomposeFrom, cstep, if_true]
  rw [if_neg hne]
  exact ⟨_, rfl, rfl⟩

/-- Inverse clause for general maps: if both factors carry inverse functions
    that undo them, the composed map carries an inverse function that undoes it;
    and `inverse()` exchanges the two functions. -/
theorem ccompose_inverse (M N C : CMap) (h : ccomposeList [M, N] = .ok C)
    (gm gn : List Rat → List Rat) (hm : M.inv = some gm) (hn : N.inv = some gn)
    (hgm : ∀ y, gm (M.fn y) = y) (hgn : ∀ x, gn (N.fn x) = x) :
    ∃ g, C.inv = some g ∧ ∀ x, g (C.fn x) = x := by
  unfold ccomposeList at h
  simp only [List.reverse_cons, List.reverse_nil, List.nil_append, List.cons_append,
    ccomposeFrom, cstep, if_true] at h
  split_ifs at h with hg
  simp only [Except.ok.injEq] at h
  subst h
  simp only [hm, hn]
  exact ⟨_, rfl, fun x => by simp [hgm, hgn]⟩

theorem cinverse_exchanges (M Mi : CMap) (h : M.inverse = some Mi) :
    Mi.dom = M.rng ∧ Mi.rng = M.dom ∧ M.inv = some Mi.fn ∧ Mi.inv = some M.fn := by
  unfold CMap.inverse at h
  cases hi : M.inv with
  | none => rw [hi] at h; cases h
  | some g =>
      rw [hi] at h
      simp only [Option.some.injEq] at h
      subst h
      exact ⟨rfl, rfl, rfl, rfl⟩

/-- Product clause for general maps (`_product_cmaps`). -/
theorem cproduct_apply_blocks (M N C : CMap) (i o : String) (h : cproduct [M, N] i o = .ok C)
    (x y : List Rat) (hx : x.length = M.dom.names.length) (hy : y.length = N.dom.names.length) :
    C.fn (x ++ y) = M.fn x ++ N.fn y := by
  unfold cproduct at h
  simp only at h
  split at h
  · cases h
  · split at h
    · cases h
    · simp only [Except.ok.injEq] at h
      subst h
      simp [cproduct.go, hx, ← hy]


/-! ## Origin shifts -/

/-- `shifted_domain_origin`: the new map evaluated at `x` is the old map at
    `x + d` (`d` = the difference vector after numpy's assignment rules:
    broadcast of a length-1 vector, truncation into an int64 matrix); names are
    kept, only the coordinate-system name changes. -/
theorem shifted_domain_origin_apply (A B : Aff) (diff : List Rat) (nm : String) (hA : A.bottomExact)
    (h : shiftedDomainOrigin A diff nm = .ok B) :
    ∃ d, bcastInto A.nin A.dom.dtype diff = .ok d ∧ B.dom.name = nm ∧ B.dom.names = A.dom.names ∧
      B.rng.names = A.rng.names ∧ B.bottomExact ∧
      ∀ x, B.apply x = A.apply ((List.range A.nin).map fun i => x.getD i 0 + d.getD i 0) :=
  shiftedDomain_apply' hA h

/-- `shifted_range_origin`: `B(x) = A(x) − diff` (coordinatewise, same
    assignment rules applied to `−diff`). -/
theorem shifted_range_origin_apply (A B : Aff) (diff : List Rat) (nm : String) (hA : A.bottomExact)
    (h : shiftedRangeOrigin A diff nm = .ok B) :
    ∃ d, bcastInto A.nout A.rng.dtype (diff.map fun q => -q) = .ok d ∧ B.rng.name = nm ∧
      B.dom.names = A.dom.names ∧ B.rng.names = A.rng.names ∧ B.bottomExact ∧
      ∀ x, B.apply x = (List.range A.nout).map fun i => (A.apply x).getD i 0 + d.getD i 0 :=
  shiftedRange_apply' hA h

/-- for floating, complex and object maps and a vector of the right length the assignment
    rules change nothing: `d = diff` -/
theorem bcastInto_exact (n : Nat) (dt : DType) (d : List Rat) (hl : d.length = n)
    (hdt : dt.isInt = false) : bcastInto n dt d = .ok d := by
  unfold bcastInto
  simp [hl, hdt]

/-! ## Appending / dropping an orthogonal axis -/

/-- Clause "appending … an orthogonal axis leaves the remaining axes' mapping
    untouched": `append_io_dim(A, i, o, start, step)(x ++ [t]) = A(x) ++ [step·t + start]`. -/
theorem append_keeps_rest (A B : Aff) (i o : String) (start step : Rat) (mdt : DType)
    (h : appendIoDim A i o start step mdt = .ok B) (x : List Rat) (t : Rat) (hx : x.length = A.nin) :
    B.apply (x ++ [t]) = A.apply x ++ [step * t + start] ∧
    B.dom.names = A.dom.names ++ [i] ∧ B.rng.names = A.rng.names ++ [o] ∧ B.bottomExact :=
  appendIoDim_apply' h x t hx

/-- an axis pair that is not orthogonal to the rest of the affine is refused
    (`AxisError`) rather than dropped -/
theorem drop_refuses (A : Aff) (ax : Key) (fz : Bool) (ornts : List (Option Nat)) (i o : Nat)
    (hio : ioAxisIndices A ax ornts = .ok (some i, some o))
    (horth : orthAxes A.aff A.nout A.nin i o fz = false) :
    dropIoDim A ax fz ornts = .error .axisError :=
  dropIoDim_refuses' hio horth

/-! ## Non-vacuity: concrete objects meeting the hypotheses -/

/-- 3 → 2 map, 2 → 3 map, an invertible 2 → 2 map -/
def exA : Aff := ⟨⟨["i", "j", "k"], "d", .f8⟩, ⟨["x", "y"], "r", .f8⟩, [[1, 2, 3, 4], [0, 1, 0, -1], [0, 0, 0, 1]]⟩
def exB : Aff := ⟨⟨["u", "v"], "q", .f8⟩, ⟨["i", "j", "k"], "d", .f8⟩, [[1, 0, 1], [2, 1, 0], [0, 3, 1], [0, 0, 1]]⟩
def exS : Aff := ⟨⟨["u", "v"], "q", .f8⟩, ⟨["x", "y"], "r", .f8⟩, [[2, 1, 3], [1, 1, 0], [0, 0, 1]]⟩

example : exA.bottomExact := by unfold Aff.bottomExact; decide +kernel
example : exB.bottomExact := by unfold Aff.bottomExact; decide +kernel
example : (match compose exA exB with
    | .ok C => C.aff == [[5, 11, 8], [2, 1, -1], [0, 0, 1]] && C.dom.names == ["u", "v"] | _ => false) = true := by
  decide +kernel
-- a 3-cycle (not an involution) of the input axes
example : [1, 2, 0].Perm (List.range 3) := by decide
example : (match reorderedDomain exA (.ints [1, 2, 0]) with
    | .ok B => B.aff == [[2, 3, 1, 4], [1, 0, 0, -1], [0, 0, 0, 1]] && B.dom.names == ["j", "k", "i"]
    | _ => false) = true := by decide +kernel
example : (match reorderCS exA.dom (.ints [1, 2, 0]) with | .ok (o, _) => o == [1, 2, 0] | _ => false) = true := by
  decide +kernel
example : (match inverse exS with
    | .ok (some B) => B.aff == [[1, -1, -3], [-1, 2, 3], [0, 0, 1]] | _ => false) = true := by decide +kernel
example : exS.dom ≠ exB.rng ∧ exB.rng.dtype = exB.dom.dtype := by decide
example : (match product [exS, exB] "product" "product" with
    | .ok C => C.dom.names == ["u", "v", "u", "v"] | .error e => e == .valueError) = true := by decide +kernel
example : (match appendIoDim exA "t" "w" 5 2 with
    | .ok B => B.aff == [[1, 2, 3, 0, 4], [0, 1, 0, 0, -1], [0, 0, 0, 2, 5], [0, 0, 0, 0, 1]] | _ => false) = true := by
  decide +kernel
example : (match shiftedDomainOrigin exS [1, 2] "new" with
    | .ok B => B.aff == [[2, 1, 7], [1, 1, 3], [0, 0, 1]] | _ => false) = true := by decide +kernel
example : (match renamedDomain exS [(.idx (-1), "b"), (.nm "u", "a")] with
    | .ok B => B.dom.names == ["a", "b"] && B.aff == exS.aff | _ => false) = true := by decide +kernel
example : (match dropIoDim exS (.nm "u") true [some 0, some 1] with
    | .error e => e == .axisError | _ => false) = true := by decide +kernel

end NipyVerif.C01
