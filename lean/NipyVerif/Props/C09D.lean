/-
C09 — the hand-written kernel model (`NipyVerif.Model.C09`) is the C text: every definition that
`harness/props/c09_kern.py` regenerates from joint_histogram.c / wichmann_prng.c
(`NipyVerif.Gen.C09Kernel`) is proved equal to the model's, so the property theorems are re-checked
against what the C says now.
-/
import NipyVerif.Lemmas.C09
import NipyVerif.Gen.C09Kernel
import NipyVerif.Gen.C09Consts

namespace NipyVerif.C09

theorem kern_truncC (a : Rat) : Kern.truncC a = truncC a := rfl

/-- the `FLOOR` macro of the C text is the model's `floorC`, hence the mathematical floor -/
theorem kern_FLOOR (a : Rat) : Kern.FLOOR a = ((floorC a : Int) : Rat) ∧ Kern.FLOOR a = ((⌊a⌋ : Int) : Rat) := by
  have h : Kern.FLOOR a = ((floorC a : Int) : Rat) := by
    unfold Kern.FLOOR floorC
    simp only [kern_truncC]
    by_cases h1 : a > 0
    · simp [h1]
    · by_cases h2 : ((truncC a : Int) : Rat) - a ≠ 0
      · simp [h1, h2]
      · simp [h1, h2]
  exact ⟨h, by rw [h, floorC_eq]⟩

/-- `UROUND` -/
theorem kern_UROUND (a : Rat) : Kern.UROUND a = ((uround a : Int) : Rat) := by
  unfold Kern.UROUND uround
  simp only [kern_truncC]

/-- `ROUND(a)` is `⌊a + 1/2⌋` -/
theorem kern_ROUND (a : Rat) : Kern.ROUND a = ((⌊a + 1 / 2⌋ : Int) : Rat) := by
  unfold Kern.ROUND
  rw [(kern_FLOOR _).2]

/-- the inside test of the C loop is the model's `inside` -/
theorem kern_inside (V : Vol) (v : Vox) :
    Kern.insideTest v.i v.tx v.ty v.tz V.dx V.dy V.dz ↔ inside V v := by
  unfold Kern.insideTest inside
  have : ((v.i : Rat) ≥ 0) ↔ 0 ≤ v.i := by
    constructor
    · intro h; exact_mod_cast h
    · intro h; exact_mod_cast h
  rw [this]
  tauto

/-- the weight algebra of the C loop body is the model's `weights` at the fractional offsets -/
theorem kern_weights (tx ty tz : Rat) :
    Kern.neighbourWeights tx ty tz =
      weights ((nIdx tx : Int) - tx) ((nIdx ty : Int) - ty) ((nIdx tz : Int) - tz) := by
  have hn : ∀ t : Rat, Kern.FLOOR t + 1 = ((nIdx t : Int) : Rat) := by
    intro t; rw [(kern_FLOOR t).1]; unfold nIdx; push_cast; rfl
  unfold Kern.neighbourWeights weights
  simp only [hn]

/-- the eight flat indices read by the C loop are the model's neighbour indices -/
theorem kern_offsets (V : Vol) (v : Vox) (h : inside V v) :
    Kern.neighbourOffsets v.tx v.ty v.tz V.u2 V.u4 = (neighbours V v).map (fun p => ((p.1 : Nat) : Rat)) := by
  have hn : ∀ t : Rat, Kern.FLOOR t + 1 = ((nIdx t : Int) : Rat) := by
    intro t; rw [(kern_FLOOR t).1]; unfold nIdx; push_cast; rfl
  obtain ⟨_, ⟨x0, x1⟩, ⟨y0, y1⟩, ⟨z0, z1⟩⟩ := h
  have ax := (nIdx_range x0 x1).1
  have ay := (nIdx_range y0 y1).1
  have az := (nIdx_range z0 z1).1
  have hoff : 0 ≤ offOf V v := by
    unfold offOf
    have h1 : (0 : Int) ≤ nIdx v.tx * (V.u4 : Int) := mul_nonneg ax (Int.natCast_nonneg _)
    have h2 : (0 : Int) ≤ nIdx v.ty * (V.u2 : Int) := mul_nonneg ay (Int.natCast_nonneg _)
    omega
  have hcast : (((offOf V v).toNat : Nat) : Rat) =
      (nIdx v.tx : Rat) * (V.u4 : Rat) + (nIdx v.ty : Rat) * (V.u2 : Rat) + (nIdx v.tz : Rat) := by
    have : (((offOf V v).toNat : Nat) : Int) = offOf V v := Int.toNat_of_nonneg hoff
    have h2 : (((offOf V v).toNat : Nat) : Rat) = ((offOf V v : Int) : Rat) := by exact_mod_cast this
    rw [h2]; unfold offOf; push_cast; ring
  unfold Kern.neighbourOffsets
  simp only [hn]
  have hw : (neighbours V v).map (fun p => ((p.1 : Nat) : Rat)) =
      (offsets V).map (fun o => (((offOf V v).toNat + o : Nat) : Rat)) := by
    unfold neighbours
    rw [show (fun p : Nat × Rat => ((p.1 : Nat) : Rat)) = (fun n : Nat => (n : Rat)) ∘ Prod.fst from rfl,
      ← List.map_map, List.map_fst_zip (by simp [offsets, weights]), List.map_map]
    rfl
  rw [hw]
  simp only [offsets, List.map_cons, List.map_nil]
  push_cast
  rw [hcast]
  simp only [List.cons.injEq, and_true]
  ring

/-- the dispatch on `interp` sends each code of `interp_methods` to the interpolator of that name;
    negative codes seed the generator with `-interp` -/
theorem kern_dispatch :
    (∀ e ∈ Src.interpMethods, Kern.interpolator e.2 = "_" ++ e.1 ++ "_interpolation") ∧
    ∀ s : Int, Kern.seedOf (-s) = s := by
  constructor
  · decide +kernel
  · intro s; simp [Kern.seedOf]

/-- the four recurrences of `prng_double` (C `/` and `%`) are the model's Schrage steps on
    non-negative states -/
theorem kern_prng_step (s : Prng) (h : 0 ≤ s.ix ∧ 0 ≤ s.iy ∧ 0 ≤ s.iz ∧ 0 ≤ s.it) :
    prngStep s = ⟨Kern.step_ix s.ix, Kern.step_iy s.iy, Kern.step_iz s.iz, Kern.step_it s.it⟩ := by
  obtain ⟨a, b, c, d⟩ := h
  unfold prngStep schrage Kern.step_ix Kern.step_iy Kern.step_iz Kern.step_it
  simp only [Int.tdiv_eq_ediv_of_nonneg a, Int.tdiv_eq_ediv_of_nonneg b, Int.tdiv_eq_ediv_of_nonneg c,
    Int.tdiv_eq_ediv_of_nonneg d, Int.tmod_eq_emod_of_nonneg a, Int.tmod_eq_emod_of_nonneg b,
    Int.tmod_eq_emod_of_nonneg c, Int.tmod_eq_emod_of_nonneg d]

/-- the value returned by `prng_double` -/
theorem kern_prng_value (s : Prng) : Kern.value s.ix s.iy s.iz s.it = prngValue s := rfl

end NipyVerif.C09
