/-
C19 (wave 5) — the `enumerate` loop of `threshold_connect_components`, as regenerated from the source text
(`Ex.thresholdCC`, Gen/C19Expr.lean), computes the closed form of the model (`thresholdCC`): loop invariant
over the labels processed so far.
-/
import NipyVerif.Props.C19E

namespace NipyVerif.C19

theorem setWhere_fuse (f : Rat → Nat → Rat) (k : Nat) : ∀ (mp : List Rat) (labels : List Nat),
    Np.setWhere (List.zipWith f mp labels) (Np.eqN labels k) 0 =
      List.zipWith (fun x l => if l = k then 0 else f x l) mp labels
  | [], _ => by simp [Np.setWhere, Np.eqN]
  | _ :: _, [] => by simp [Np.setWhere, Np.eqN]
  | x :: xs, l :: ls => by
    have ih := setWhere_fuse f k xs ls
    simp only [Np.setWhere, Np.eqN] at ih ⊢
    simp only [List.zipWith_cons_cons, List.map_cons, ih]
    by_cases h : l = k <;> simp [h]

theorem zipWith_congr_mem (f g : Rat → Nat → Rat) : ∀ (mp : List Rat) (labels : List Nat),
    (∀ x, ∀ l ∈ labels, f x l = g x l) → List.zipWith f mp labels = List.zipWith g mp labels
  | [], _, _ => by simp
  | _ :: _, [], _ => by simp
  | x :: xs, l :: ls, h => by
    simp only [List.zipWith_cons_cons, h x l (List.mem_cons_self ..),
      zipWith_congr_mem f g xs ls (fun x l hl => h x l (List.mem_cons_of_mem _ hl))]

theorem zipWith_fst_of_length : ∀ (mp : List Rat) (labels : List Nat), mp.length = labels.length →
    List.zipWith (fun x _ => x) mp labels = mp
  | [], [], _ => rfl
  | [], _ :: _, h => by simp at h
  | _ :: _, [], h => by simp at h
  | x :: xs, l :: ls, h => by
    simp only [List.zipWith_cons_cons, zipWith_fst_of_length xs ls (by simpa using h)]

theorem nat_le_foldl_max (l : List Nat) : ∀ (a x : Nat), (x ∈ l ∨ x ≤ a) → x ≤ l.foldl max a := by
  induction l with
  | nil => intro a x h; rcases h with h | h; · simp at h
           · simpa using h
  | cons y ys ih =>
    intro a x h
    simp only [List.foldl_cons]
    apply ih
    rcases h with h | h
    · rcases List.mem_cons.mp h with h | h
      · right; subst h; exact Nat.le_max_right _ _
      · left; exact h
    · right; exact Nat.le_trans h (Nat.le_max_left _ _)

/-- one pass of the loop body for the pair `(weight, label)` -/
def tccStep (labels : List Nat) (thr : Rat) (st : List Rat) (wi : Nat × Nat) : List Rat :=
  if wi.2 = 0 then st else if ((wi.1 : Nat) : Rat) < thr then Np.setWhere st (Np.eqN labels wi.2) 0 else st

/-- the array after the labels `< k` have been processed -/
def tccInv (wf : Nat → Nat) (thr : Rat) (k : Nat) (mp : List Rat) (labels : List Nat) : List Rat :=
  List.zipWith (fun x l => if l ≠ 0 ∧ l < k ∧ ((wf l : Nat) : Rat) < thr then (0 : Rat) else x) mp labels

theorem tcc_step (wf : Nat → Nat) (thr : Rat) (mp : List Rat) (labels : List Nat) (k : Nat) :
    tccStep labels thr (tccInv wf thr k mp labels) (wf k, k) = tccInv wf thr (k + 1) mp labels := by
  unfold tccStep tccInv
  simp only []
  by_cases hk : k = 0
  · subst hk
    rw [if_pos rfl]
    congr 1; funext x l
    rw [if_neg (fun h => absurd h.2.1 (Nat.not_lt_zero _)), if_neg (fun h => h.1 (Nat.lt_one_iff.mp h.2.1))]
  · rw [if_neg hk]
    by_cases hlt : ((wf k : Nat) : Rat) < thr
    · rw [if_pos hlt, setWhere_fuse]
      congr 1; funext x l
      by_cases hl : l = k
      · subst hl
        rw [if_pos rfl, if_pos ⟨hk, Nat.lt_succ_self _, hlt⟩]
      · rw [if_neg hl]
        have : (l ≠ 0 ∧ l < k ∧ ((wf l : Nat) : Rat) < thr) ↔ (l ≠ 0 ∧ l < k + 1 ∧ ((wf l : Nat) : Rat) < thr) := by
          constructor
          · rintro ⟨a, b, c⟩; exact ⟨a, by omega, c⟩
          · rintro ⟨a, b, c⟩; exact ⟨a, by omega, c⟩
        simp only [this]
    · rw [if_neg hlt]
      congr 1; funext x l
      have : (l ≠ 0 ∧ l < k ∧ ((wf l : Nat) : Rat) < thr) ↔ (l ≠ 0 ∧ l < k + 1 ∧ ((wf l : Nat) : Rat) < thr) := by
        constructor
        · rintro ⟨a, b, c⟩; exact ⟨a, by omega, c⟩
        · rintro ⟨a, b, c⟩
          refine ⟨a, ?_, c⟩
          by_cases hl : l = k
          · subst hl; exact absurd c hlt
          · omega
      simp only [this]

theorem tcc_loop (wf : Nat → Nat) (thr : Rat) (mp : List Rat) (labels : List Nat) :
    ∀ (ws : List Nat) (k : Nat), (∀ i (h : i < ws.length), ws[i] = wf (k + i)) →
      (ws.zipIdx k).foldl (tccStep labels thr) (tccInv wf thr k mp labels) =
        tccInv wf thr (k + ws.length) mp labels
  | [], k, _ => by simp
  | w :: ws, k, h => by
    have hw : w = wf k := by
      have h0 := h 0 (Nat.succ_pos _)
      simp only [List.getElem_cons_zero, Nat.add_zero] at h0
      exact h0
    have ht : ∀ i (hi : i < ws.length), ws[i] = wf (k + 1 + i) := by
      intro i hi
      have h1 := h (i + 1) (Nat.succ_lt_succ hi)
      simp only [List.getElem_cons_succ] at h1
      rw [h1]; congr 1; omega
    simp only [List.zipIdx_cons, List.foldl_cons, hw, tcc_step, tcc_loop wf thr mp labels ws (k + 1) ht,
      List.length_cons]
    congr 1; omega

/-- **the loop of `threshold_connect_components` as written computes the model's closed form**: for label
    arrays of the map's size whose largest label is `nb` (the contract of `ndimage.label`), the regenerated
    `for label, weight in enumerate(weights)` loop — skip label 0, zero `map[labels == label]` when
    `weight < threshold` (strict) — yields `thresholdCC`, for both values of `copy`. -/
theorem threshold_cc_as_modelled (mp : List Rat) (labels : List Nat) (nb : Nat) (thr : Rat) (copy : Bool)
    (hl : mp.length = labels.length) (hnb : labels.foldl max 0 = nb) :
    Ex.thresholdCC mp labels thr copy = thresholdCC mp labels nb thr := by
  unfold Ex.thresholdCC Np.forEnum Np.bincount thresholdCC
  simp only [hnb, ite_self]
  let W := bincountFast labels (nb + 1)
  have hWlen : W.length = nb + 1 := by simp [W, bincountFast_eq, bincount]
  have h0 : mp = tccInv (fun l => W.getD l 0) thr 0 mp labels := by
    unfold tccInv
    rw [zipWith_congr_mem _ (fun x _ => x) mp labels
      (fun x l _ => if_neg (fun h => absurd h.2.1 (Nat.not_lt_zero _))), zipWith_fst_of_length mp labels hl]
  have hloop := tcc_loop (fun l => W.getD l 0) thr mp labels W 0
    (by intro i hi; simp [List.getD_eq_getElem?_getD, hi])
  show (W.zipIdx.foldl (fun st wi => if wi.2 = 0 then st else if ((wi.1 : Nat) : Rat) < thr then
      Np.setWhere st (Np.eqN labels wi.2) 0 else st) mp) = _
  have hstep : (fun (st : List Rat) (wi : Nat × Nat) => if wi.2 = 0 then st else if ((wi.1 : Nat) : Rat) < thr then
      Np.setWhere st (Np.eqN labels wi.2) 0 else st) = tccStep labels thr := rfl
  rw [hstep]
  conv_lhs => rw [h0]
  rw [hloop]
  unfold tccInv
  apply zipWith_congr_mem
  intro x l hlm
  have hle : l ≤ nb := hnb ▸ nat_le_foldl_max labels 0 l (Or.inl hlm)
  have hlt : l < 0 + W.length := by omega
  have hget : (bincountFast labels (nb + 1)).toArray.getD l 0 = W.getD l 0 := by
    rw [Array.getD_eq_getD_getElem?]
    simp [W, List.getD_eq_getElem?_getD]
  simp only [hget, hlt, true_and]

/-- the hypotheses are satisfiable -/
example : ([3, 0, 5] : List Rat).length = ([1, 0, 2] : List Nat).length ∧ ([1, 0, 2] : List Nat).foldl max 0 = 2 := by
  decide

/-! ## `intersect_masks` -/

theorem bool_count_member (x : Rat) : (if decide (x ≠ 0) = true then 1 else 0 : Nat) = member x := by
  unfold member
  by_cases h : x = 0 <;> simp [h]

theorem astypeInt_neS (m : List Rat) : Np.astypeInt (Np.neS m 0) = m.map member := by
  unfold Np.astypeInt Np.neS
  rw [List.map_map]
  apply List.map_congr_left
  intro x _
  exact bool_count_member x

theorem addB_neS (g : List Nat) (k : List Rat) : Np.addB g (Np.neS k 0) = addCounts g (k.map member) := by
  unfold Np.addB Np.neS addCounts
  rw [List.zipWith_map_right, List.zipWith_map_right]
  congr 1; funext c x
  rw [bool_count_member]

/-- a loop whose body adds the membership indicator of each further mask counts memberships -/
theorem intersect_loop (F : Option (List Nat) → List Rat → Option (List Nat))
    (hF : ∀ g k, F (some g) k = some (Np.addB g (Np.neS k 0))) : ∀ (ms : List (List Rat)) (g : List Nat),
    ms.foldl F (some g) = some ((ms.map (fun k => k.map member)).foldl addCounts g)
  | [], _ => rfl
  | k :: ks, g => by
    rw [List.foldl_cons, hF, addB_neS, List.map_cons, List.foldl_cons, intersect_loop F hF ks]

/-- **the regenerated body of `intersect_masks` is the model's `intersectB`** for a non-empty collection
    (`cc=False`): the two range refusals of the threshold, the cap `min(threshold, 1 - 1.e-7)` with the constant
    folded in double precision as the source writes it, membership counting (`!= 0`, first mask `astype(int)`,
    the others added) and the strict vote `count > threshold · len(masks)`. -/
theorem intersect_masks_as_modelled (lcc : List Bool → Except String (List Bool)) (m : List Rat)
    (ms : List (List Rat)) (thr : Rat) :
    Ex.intersectMasks lcc (m :: ms) thr false = intersectB (m :: ms) thr (9007198354021067 / 9007199254740992) := by
  unfold Ex.intersectMasks intersectB Np.forEach
  simp only [List.foldl_cons]
  rw [intersect_loop]
  · unfold Np.gtNS memberCount
    rw [astypeInt_neS]
    split_ifs <;> simp [bind, Except.bind]
  · intro g k; rfl

theorem except_bind_ok {α : Type} (x : Except String α) : (x >>= fun v => Except.ok v) = x := by
  cases x <;> rfl

/-- with `cc=True` the largest component of a non-empty vote is taken by the named leaf `largest_cc` -/
theorem intersect_masks_cc_as_modelled (lcc : List Bool → Except String (List Bool)) (m : List Rat)
    (ms : List (List Rat)) (thr : Rat) :
    Ex.intersectMasks lcc (m :: ms) thr true =
      (intersectB (m :: ms) thr (9007198354021067 / 9007199254740992) >>= fun v =>
        if v.any id then lcc v else .ok v) := by
  unfold Ex.intersectMasks intersectB Np.forEach
  simp only [List.foldl_cons, except_bind_ok]
  rw [intersect_loop]
  · unfold Np.gtNS memberCount Np.anyB
    rw [astypeInt_neS]
    split_ifs <;> simp_all [bind, Except.bind]
  · intro g k; rfl

end NipyVerif.C19
