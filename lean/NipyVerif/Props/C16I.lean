/-
C16 (part I) — the `fff_array` iterator (`fff_array_iterator_init[_skip_axis]`, the four `update` functions
chosen by `ndims`, the loop `while (iter.idx < iter.size)`) visits the elements in C order, for every
array of 1 to 4 dimensions, every stride and every skipped axis.
-/
import NipyVerif.Lemmas.C16I
import NipyVerif.Gen.C16Kern

namespace NipyVerif.C16

/-- effective extent of a dimension: the skipped axis is walked at index 0 only -/
def effDim (axis a d : Nat) : Nat := if axis = a then 1 else d

/-- **the array iterator is the C-order enumeration**: for a view with extents `dX × dY × dZ × dT ≥ 1`
    (trailing extents 1 for arrays of fewer dimensions — `ndims` then selects the 1-D / 2-D / 3-D update), item
    offsets `oX … oT` of any sign, and `axis ∈ {0,1,2,3}` skipped or none (`4`), the `k`-th position visited is
    the item offset of the multi-index whose C-order rank is `k` (mixed-radix digits of `k`, `t` fastest), and
    exactly `eX·eY·eZ·eT` positions are visited — each element of the (axis-0-sliced) view once, in C order. -/
theorem array_iterator_c_order (A : AView) (axis : Nat) (hX : 0 < A.dX) (hY : 0 < A.dY) (hZ : 0 < A.dZ)
    (hT : 0 < A.dT) (hax : axis ≤ 4) :
    iterPositions A axis =
      (List.range (effDim axis 0 A.dX * effDim axis 1 A.dY * effDim axis 2 A.dZ * effDim axis 3 A.dT)).map
        (fun (k : Nat) =>
          A.off + ((k / effDim axis 3 A.dT / effDim axis 2 A.dZ / effDim axis 1 A.dY : Nat) : Int) * A.oX
                + ((k / effDim axis 3 A.dT / effDim axis 2 A.dZ % effDim axis 1 A.dY : Nat) : Int) * A.oY
                + ((k / effDim axis 3 A.dT % effDim axis 2 A.dZ : Nat) : Int) * A.oZ
                + ((k % effDim axis 3 A.dT : Nat) : Int) * A.oT) := by
  -- the static part of the iterator
  obtain ⟨ddY, hddY⟩ : ∃ d, d = (if axis = 1 then 0 else A.dY - 1) := ⟨_, rfl⟩
  obtain ⟨ddZ, hddZ⟩ : ∃ d, d = (if axis = 2 then 0 else A.dZ - 1) := ⟨_, rfl⟩
  obtain ⟨ddT, hddT⟩ : ∃ d, d = (if axis = 3 then 0 else A.dT - 1) := ⟨_, rfl⟩
  have eY : ddY + 1 = effDim axis 1 A.dY := by rw [hddY]; unfold effDim; split_ifs <;> omega
  have eZ : ddZ + 1 = effDim axis 2 A.dZ := by rw [hddZ]; unfold effDim; split_ifs <;> omega
  have eT : ddT + 1 = effDim axis 3 A.dT := by rw [hddT]; unfold effDim; split_ifs <;> omega
  obtain ⟨size, hsize⟩ : ∃ s, s = (if axis = 3 then A.dX * A.dY * A.dZ * A.dT / A.dT
      else if axis = 2 then A.dX * A.dY * A.dZ * A.dT / A.dZ
      else if axis = 1 then A.dX * A.dY * A.dZ * A.dT / A.dY else if axis = 0 then A.dX * A.dY * A.dZ * A.dT / A.dX
      else A.dX * A.dY * A.dZ * A.dT) := ⟨_, rfl⟩
  have esize : size = effDim axis 0 A.dX * effDim axis 1 A.dY * effDim axis 2 A.dZ * effDim axis 3 A.dT := by
    rw [hsize]
    unfold effDim
    rcases (by omega : axis = 0 ∨ axis = 1 ∨ axis = 2 ∨ axis = 3 ∨ axis = 4) with h | h | h | h | h <;> subst h
    · simp only [show ¬ ((0 : Nat) = 3) by decide, show ¬ ((0 : Nat) = 2) by decide, show ¬ ((0 : Nat) = 1) by decide,
        if_false, if_true]
      rw [show A.dX * A.dY * A.dZ * A.dT = A.dY * A.dZ * A.dT * A.dX by ring, Nat.mul_div_cancel _ hX]; ring
    · simp only [show ¬ ((1 : Nat) = 3) by decide, show ¬ ((1 : Nat) = 2) by decide, show ¬ ((1 : Nat) = 0) by decide,
        if_false, if_true]
      rw [show A.dX * A.dY * A.dZ * A.dT = A.dX * A.dZ * A.dT * A.dY by ring, Nat.mul_div_cancel _ hY]; ring
    · simp only [show ¬ ((2 : Nat) = 3) by decide, show ¬ ((2 : Nat) = 1) by decide, show ¬ ((2 : Nat) = 0) by decide,
        if_false, if_true]
      rw [show A.dX * A.dY * A.dZ * A.dT = A.dX * A.dY * A.dT * A.dZ by ring, Nat.mul_div_cancel _ hZ]; ring
    · simp only [show ¬ ((3 : Nat) = 2) by decide, show ¬ ((3 : Nat) = 1) by decide, show ¬ ((3 : Nat) = 0) by decide,
        if_false, if_true]
      rw [Nat.mul_div_cancel _ hT]; ring
    · simp only [show ¬ ((4 : Nat) = 3) by decide, show ¬ ((4 : Nat) = 2) by decide, show ¬ ((4 : Nat) = 1) by decide,
        show ¬ ((4 : Nat) = 0) by decide, if_false]
  have hinit : iterInit A axis = stateAt A.off A.oX A.oY A.oZ A.oT ddY ddZ ddT size 0 := by
    unfold iterInit stateAt posAt
    simp only [← hddY, ← hddZ, ← hddT, ← hsize, Nat.zero_div, Nat.zero_mod, Nat.cast_zero, zero_mul, add_zero]
  have hrun : ∀ nd, (∀ k, iterUpdate nd (stateAt A.off A.oX A.oY A.oZ A.oT ddY ddZ ddT size k) =
      stateAt A.off A.oX A.oY A.oZ A.oT ddY ddZ ddT size (k + 1)) →
      iterRun nd size (stateAt A.off A.oX A.oY A.oZ A.oT ddY ddZ ddT size 0) =
        (List.range size).map (posAt A.off A.oX A.oY A.oZ A.oT ddY ddZ ddT) := by
    intro nd h
    rw [iterRun_stateAt nd _ _ _ _ _ _ _ _ _ h size 0, Nat.sub_zero, Nat.min_self, List.range_eq_range']
  have hfun : posAt A.off A.oX A.oY A.oZ A.oT ddY ddZ ddT = fun (k : Nat) =>
      A.off + ((k / effDim axis 3 A.dT / effDim axis 2 A.dZ / effDim axis 1 A.dY : Nat) : Int) * A.oX
            + ((k / effDim axis 3 A.dT / effDim axis 2 A.dZ % effDim axis 1 A.dY : Nat) : Int) * A.oY
            + ((k / effDim axis 3 A.dT % effDim axis 2 A.dZ : Nat) : Int) * A.oZ
            + ((k % effDim axis 3 A.dT : Nat) : Int) * A.oT := by
    funext k; unfold posAt; rw [eY, eZ, eT]
  have hsz : (iterInit A axis).size = size := by rw [hinit]; rfl
  unfold iterPositions
  simp only
  rw [hsz, hinit, ← esize, ← hfun]
  -- the update selected by `ndims`
  unfold AView.ndims
  by_cases t1 : A.dT = 1
  · have dT0 : ddT = 0 := by rw [hddT]; split_ifs <;> omega
    by_cases z1 : A.dZ = 1
    · have dZ0 : ddZ = 0 := by rw [hddZ]; split_ifs <;> omega
      by_cases y1 : A.dY = 1
      · have dY0 : ddY = 0 := by rw [hddY]; split_ifs <;> omega
        simp only [t1, z1, y1, if_true]
        apply hrun 1
        intro k; rw [dT0, dZ0, dY0]; exact step1 _ _ _ _ _ _ _
      · simp only [t1, z1, y1, if_true, if_false]
        apply hrun 2
        intro k; rw [dT0, dZ0]; exact step2 _ _ _ _ _ _ _ _
    · simp only [t1, z1, if_true, if_false]
      apply hrun 3
      intro k; rw [dT0]; exact step3 _ _ _ _ _ _ _ _ _
  · simp only [t1, if_false]
    apply hrun 4
    intro k; exact step4 _ _ _ _ _ _ _ _ _ _

/-- the offsets visited stay inside the view: each is `off + x oX + y oY + z oZ + t oT` with `x < dX`, `y < dY`,
    `z < dZ`, `t < dT`. -/
theorem array_iterator_positions_in_view (A : AView) (axis : Nat) (hX : 0 < A.dX) (hY : 0 < A.dY) (hZ : 0 < A.dZ)
    (hT : 0 < A.dT) (hax : axis ≤ 4) (p : Int) (hp : p ∈ iterPositions A axis) :
    ∃ x y z t : Nat, x < A.dX ∧ y < A.dY ∧ z < A.dZ ∧ t < A.dT ∧
      p = A.off + (x : Int) * A.oX + (y : Int) * A.oY + (z : Int) * A.oZ + (t : Int) * A.oT := by
  rw [array_iterator_c_order A axis hX hY hZ hT hax, List.mem_map] at hp
  obtain ⟨k, hk, rfl⟩ := hp
  rw [List.mem_range] at hk
  have pY : 0 < effDim axis 1 A.dY := by unfold effDim; split_ifs <;> omega
  have pZ : 0 < effDim axis 2 A.dZ := by unfold effDim; split_ifs <;> omega
  have pT : 0 < effDim axis 3 A.dT := by unfold effDim; split_ifs <;> omega
  have lX : effDim axis 0 A.dX ≤ A.dX := by unfold effDim; split_ifs <;> omega
  have lY : effDim axis 1 A.dY ≤ A.dY := by unfold effDim; split_ifs <;> omega
  have lZ : effDim axis 2 A.dZ ≤ A.dZ := by unfold effDim; split_ifs <;> omega
  have lT : effDim axis 3 A.dT ≤ A.dT := by unfold effDim; split_ifs <;> omega
  refine ⟨_, _, _, _, ?_, ?_, ?_, ?_, rfl⟩
  · apply lt_of_lt_of_le _ lX
    rw [Nat.div_lt_iff_lt_mul pY, Nat.div_lt_iff_lt_mul pZ, Nat.div_lt_iff_lt_mul pT]
    exact hk
  · exact lt_of_lt_of_le (Nat.mod_lt _ pY) lY
  · exact lt_of_lt_of_le (Nat.mod_lt _ pZ) lZ
  · exact lt_of_lt_of_le (Nat.mod_lt _ pT) lT

/-! ## the iterator model is what `fff_array.c` says now -/

/-- the model's iterator state read as the C structure (`pos` = `data` as an offset, in the model's unit: items) -/
def toIt (it : AIter) : Kern.Fff.It :=
  { idx := it.idx, size := it.size, data := it.pos, x := it.x, y := it.y, z := it.z, t := it.t,
    ddimY := it.ddY, ddimZ := it.ddZ, ddimT := it.ddT, incX := it.incX, incY := it.incY, incZ := it.incZ,
    incT := it.incT }

/-- the model's `iterUpdate nd` is the update function that `switch (im->ndims)` selects, statement by statement as
    regenerated from `_fff_array_iterator_update1d … 4d`. -/
theorem iterUpdate_from_source (nd : Nat) (it : AIter) :
    toIt (iterUpdate nd it) = Kern.Fff.updateFor (nd : Int) (toIt it) := by
  unfold iterUpdate Kern.Fff.updateFor
  by_cases h1 : nd = 1
  · subst h1
    simp [toIt, Kern.Fff.update1d]
  · have h1' : ¬ ((nd : Int) = 1) := by exact_mod_cast h1
    simp only [h1, h1', if_false]
    by_cases h2 : nd = 2
    · subst h2
      simp only [toIt, Kern.Fff.update2d, Nat.cast_ofNat, if_true, Nat.cast_lt]
      split_ifs <;> simp
    · have h2' : ¬ ((nd : Int) = 2) := by exact_mod_cast h2
      simp only [h2, h2', if_false]
      by_cases h3 : nd = 3
      · subst h3
        simp only [toIt, Kern.Fff.update3d, Nat.cast_ofNat, if_true, Nat.cast_lt]
        split_ifs <;> simp
      · have h3' : ¬ ((nd : Int) = 3) := by exact_mod_cast h3
        simp only [h3, h3', if_false, toIt, Kern.Fff.update4d, Nat.cast_lt]
        split_ifs <;> simp

/-- the model's `iterInit` is `fff_array_iterator_init_skip_axis` as regenerated from the C text (`axis = 4` of the
    model is the C's `-1`: no axis skipped), for every view with extents ≥ 1. -/
theorem iterInit_from_source (A : AView) (axis : Nat) (hX : 0 < A.dX) (hY : 0 < A.dY) (hZ : 0 < A.dZ)
    (hT : 0 < A.dT) (hax : axis ≤ 4) :
    toIt (iterInit A axis) =
      Kern.Fff.iterInitC A.dX A.dY A.dZ A.dT A.oX A.oY A.oZ A.oT A.off (if axis = 4 then -1 else (axis : Int)) := by
  have cY : (((A.dY - 1 : Nat) : Nat) : Int) = (A.dY : Int) - 1 := by omega
  have cZ : (((A.dZ - 1 : Nat) : Nat) : Int) = (A.dZ : Int) - 1 := by omega
  have cT : (((A.dT - 1 : Nat) : Nat) : Int) = (A.dT : Int) - 1 := by omega
  have hnn : (0 : Int) ≤ (A.dX : Int) * A.dY * A.dZ * A.dT := by positivity
  rcases (by omega : axis = 0 ∨ axis = 1 ∨ axis = 2 ∨ axis = 3 ∨ axis = 4) with h | h | h | h | h <;> subst h <;>
    simp [toIt, iterInit, Kern.Fff.iterInitC, cY, cZ, cT, Int.tdiv_eq_ediv_of_nonneg hnn]

example : iterPositions ⟨5, 2, 1, 2, 1, 10, 0, -1, 0⟩ 4 = [5, 4, 15, 14] := by decide

end NipyVerif.C16
