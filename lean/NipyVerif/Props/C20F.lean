/-
C20 (part F) — *frame* theorems (cells outside the declared output are equal before and after) for the store
side of the kernel models, the complete scan of the `fff_array` iterator, and bounds for the index arithmetic
regenerated from the `.pyx` kernels / the fffpy glue (`Gen/C20Pyx.lean`): intvol.pyx corners, `_graph.pyx::dilation`
over `compact_neighb`, the negative axis of `fffpy_multi_iterator_new`.
-/
import NipyVerif.Props.C20B
import NipyVerif.Model.C20W

namespace NipyVerif.C20
open Kern

/-! ### stores and frames -/

/-- the frame rule: a cell that is the target of no store keeps its value -/
theorem applyWrites_frame (ws : List (Int × Int)) :
    ∀ (mem : Int → Int) (j : Int), (∀ w ∈ ws, w.1 ≠ j) → applyWrites mem ws j = mem j := by
  induction ws with
  | nil => intro mem j _; rfl
  | cons w ws ih =>
      intro mem j h
      simp only [applyWrites]
      rw [ih _ j (fun w' hw' => h w' (List.mem_cons_of_mem _ hw'))]
      have hne : w.1 ≠ j := h w List.mem_cons_self
      simp [Ne.symm hne]

theorem upTo_mem {n k : Int} (h : k ∈ upTo n) : 0 ≤ k ∧ k < n := by
  simp only [upTo, List.mem_map, List.mem_range] at h
  obtain ⟨a, ha, rfl⟩ := h
  omega

/-- `ve_step` (model on the regenerated `veRowPos` / `veRowLen`): every store goes to the row of a voxel listed in `XYZ` -/
theorem veStores_index (d0 d1 d2 d3 : Int) (val : Nat → Int → Int) :
    ∀ (xyz : List (Int × Int × Int)) (n : Nat) (w : Int × Int), w ∈ veStores d0 d1 d2 d3 val n xyz →
      ∃ v ∈ xyz, ∃ k : Int, 0 ≤ k ∧ k < Mrf.veRowLen d0 d1 d2 d3 ∧
        w.1 = Mrf.veRowPos d0 d1 d2 d3 v.1 v.2.1 v.2.2 + k := by
  intro xyz
  induction xyz with
  | nil => intro n w h; simp [veStores] at h
  | cons v vs ih =>
      intro n w h
      simp only [veStores, List.mem_append, List.mem_map] at h
      rcases h with ⟨k, hk, rfl⟩ | h
      · have hk' := upTo_mem hk
        exact ⟨v, List.mem_cons_self, k, hk'.1, hk'.2, rfl⟩
      · obtain ⟨v', hv', k, h1, h2, h3⟩ := ih (n + 1) w h
        exact ⟨v', List.mem_cons_of_mem _ hv', k, h1, h2, h3⟩

/-- **frame of `ve_step`**: an entry of `ppm` that is not one of the `K` entries of the row of a voxel of `XYZ` has the
    same value before and after — whatever is stored, for every shape and every voxel list. -/
theorem ve_step_frame (d0 d1 d2 d3 : Int) (val : Nat → Int → Int) (xyz : List (Int × Int × Int)) (mem : Int → Int)
    (j : Int)
    (h : ∀ v ∈ xyz, ∀ k : Int, 0 ≤ k → k < Mrf.veRowLen d0 d1 d2 d3 → j ≠ Mrf.veRowPos d0 d1 d2 d3 v.1 v.2.1 v.2.2 + k) :
    applyWrites mem (veStores d0 d1 d2 d3 val 0 xyz) j = mem j := by
  apply applyWrites_frame
  intro w hw hj
  obtain ⟨v, hv, k, k0, k1, e⟩ := veStores_index d0 d1 d2 d3 val xyz 0 w hw
  exact h v hv k k0 k1 (by rw [← hj, e])

/-- `ve_step`: with the voxels of `XYZ` inside the grid (the front-end-only fact `rows inside ppm.shape[:3]`), every
    store is inside `ppm` -/
theorem ve_step_stores_in_bounds (d0 d1 d2 d3 : Int) (val : Nat → Int → Int) (xyz : List (Int × Int × Int))
    (hin : ∀ v ∈ xyz, 0 ≤ v.1 ∧ v.1 < d0 ∧ 0 ≤ v.2.1 ∧ v.2.1 < d1 ∧ 0 ≤ v.2.2 ∧ v.2.2 < d2) :
    ∀ w ∈ veStores d0 d1 d2 d3 val 0 xyz, 0 ≤ w.1 ∧ w.1 < d0 * d1 * d2 * d3 := by
  intro w hw
  obtain ⟨v, hv, k, k0, k1, e⟩ := veStores_index d0 d1 d2 d3 val xyz 0 w hw
  obtain ⟨a, b, c, d, e', f⟩ := hin v hv
  rw [e]
  exact (mrf_row_in_bounds d0 d1 d2 d3 v.1 v.2.1 v.2.2 k a b c d e' f k0 k1).1

theorem mem_insSorted (x i : Int) : ∀ l : List Int, i ∈ insSorted x l ↔ i = x ∨ i ∈ l
  | [] => by simp [insSorted]
  | y :: ys => by
      unfold insSorted
      split_ifs with h1 h2
      · simp
      · subst h2; simp
      · simp only [List.mem_cons, mem_insSorted x i ys]; tauto

/-- what the driver prints for a list of stores (and the harness compares with the cells observed to change) is exactly
    the set of store targets -/
theorem storeSet_mem (ws : List (Int × Int)) (i : Int) : i ∈ storeSet ws ↔ ∃ w ∈ ws, w.1 = i := by
  have gen : ∀ (ws : List (Int × Int)) (acc : List Int),
      i ∈ ws.foldl (fun acc w => insSorted w.1 acc) acc ↔ i ∈ acc ∨ ∃ w ∈ ws, w.1 = i := by
    intro ws
    induction ws with
    | nil => intro acc; simp
    | cons w ws ih =>
        intro acc
        simp only [List.foldl_cons, ih, mem_insSorted, List.mem_cons, exists_eq_or_imp]
        constructor
        · rintro ((h | h) | h)
          · exact Or.inr (Or.inl h.symm)
          · exact Or.inl h
          · exact Or.inr (Or.inr h)
        · rintro (h | h | h)
          · exact Or.inl (Or.inr h)
          · exact Or.inl (Or.inl h.symm)
          · exact Or.inr h
  simpa [storeSet] using gen ws []

/-- joint_histogram.c (PV interpolation): the stores made for a source voxel of intensity `i` stay in row `i` of `H`
    when the neighbour intensities are below `clampJ` -/
theorem jh_stores_in_row (i clampJ : Int) (js : List Int) (val : Int → Int) (hj : ∀ j ∈ js, 0 ≤ j ∧ j < clampJ) :
    ∀ w ∈ jhStores i clampJ js val, clampJ * i ≤ w.1 ∧ w.1 < clampJ * i + clampJ := by
  intro w hw
  simp only [jhStores, List.mem_map] at hw
  obtain ⟨j, hjm, rfl⟩ := hw
  obtain ⟨a, b⟩ := hj j hjm
  simp only [Jh.pvIndex]
  constructor <;> linarith

/-- **frame of the joint histogram**: a bin outside row `i` is equal before and after the voxel is binned -/
theorem jh_frame (i clampJ : Int) (js : List Int) (val : Int → Int) (mem : Int → Int) (q : Int)
    (hj : ∀ j ∈ js, 0 ≤ j ∧ j < clampJ) (hq : q < clampJ * i ∨ clampJ * i + clampJ ≤ q) :
    applyWrites mem (jhStores i clampJ js val) q = mem q := by
  apply applyWrites_frame
  intro w hw e
  have := jh_stores_in_row i clampJ js val hj w hw
  rcases hq with h | h <;> omega

/-! ### the scan of a `fff_array_iterator` -/

theorem fold_scan (f : Fff.It → Fff.It) (st : Nat → Fff.It) (hs : ∀ k, st (k + 1) = f (st k)) (n : Nat) :
    (List.range n).foldl (fun (acc : List Int × Fff.It) _ => (acc.2.data :: acc.1, f acc.2)) ([], st 0)
      = (((List.range n).map (fun k => (st k).data)).reverse, st n) := by
  induction n with
  | zero => simp
  | succ n ih => rw [List.range_succ, List.foldl_append, ih]; simp [hs]

/-- the offsets listed by the model scan are those of the successive iterator states -/
theorem fffVisits_eq (dimX dimY dimZ dimT oX oY oZ oT axis : Int) :
    fffVisits dimX dimY dimZ dimT oX oY oZ oT axis =
      (List.range (Fff.count dimX dimY dimZ dimT axis).toNat).map
        (fun k => (fffState dimY dimZ dimT oX oY oZ oT axis k).data) := by
  have h := fold_scan (fffStep dimY dimZ dimT oX oY oZ oT axis) (fffState dimY dimZ dimT oX oY oZ oT axis)
    (fun k => rfl) (Fff.count dimX dimY dimZ dimT axis).toNat
  unfold fffVisits
  simp only [fffStep, fffState] at h ⊢
  rw [h]
  simp

/-- every updater increments the rank by one -/
theorem fff_update_idx (nd : Nat) (a b c iX iY iZ iT : Int) (s : Fff.It) :
    (Fff.update nd a b c iX iY iZ iT s).idx = s.idx + 1 := by
  unfold Fff.update Fff.update1d Fff.update2d Fff.update3d Fff.update4d
  split_ifs <;> rfl

/-- the updater selected by `ndims` preserves the invariant: a trailing axis of length 1 has `ddim = 0`, which is what the
    lower-dimensional updaters assume -/
theorem fff_update_invariant (oX oY oZ oT ddY ddZ ddT dimY dimZ dimT : Int) (s : Fff.It)
    (eT : dimT = 1 → ddT = 0) (eZ : dimZ = 1 → ddZ = 0) (eY : dimY = 1 → ddY = 0)
    (h : FffInv oX oY oZ oT ddY ddZ ddT s) :
    FffInv oX oY oZ oT ddY ddZ ddT
      (Fff.update (Fff.ndims dimY dimZ dimT) ddY ddZ ddT (Fff.incX oX oY oZ oT ddY ddZ ddT)
        (Fff.incY oX oY oZ oT ddY ddZ ddT) (Fff.incZ oX oY oZ oT ddY ddZ ddT) (Fff.incT oX oY oZ oT ddY ddZ ddT) s) := by
  unfold Fff.ndims Fff.update
  by_cases hT : dimT = 1
  · obtain rfl := eT hT
    by_cases hZ : dimZ = 1
    · obtain rfl := eZ hZ
      by_cases hY : dimY = 1
      · obtain rfl := eY hY
        simp only [hT, hZ, hY, if_true]
        exact (fff_update321d_invariant oX oY oZ oT 0 0 s).2.2 h
      · simp only [hT, hZ, hY, if_true, if_false]
        exact (fff_update321d_invariant oX oY oZ oT ddY 0 s).2.1 h
    · simp only [hT, hZ, if_true, if_false]
      exact (fff_update321d_invariant oX oY oZ oT ddY ddZ s).1 h
  · simp only [hT, if_false]
    exact fff_update4d_invariant oX oY oZ oT ddY ddZ ddT s h

/-- all the states of a scan satisfy the invariant of `Props/C20B`, and the `k`-th state has rank `k` -/
theorem fff_state_invariant (dimY dimZ dimT oX oY oZ oT axis : Int) (hY : 1 ≤ dimY) (hZ : 1 ≤ dimZ) (hT : 1 ≤ dimT) :
    ∀ k : Nat,
      FffInv oX oY oZ oT (Fff.ddims dimY dimZ dimT axis).1 (Fff.ddims dimY dimZ dimT axis).2.1
        (Fff.ddims dimY dimZ dimT axis).2.2 (fffState dimY dimZ dimT oX oY oZ oT axis k) ∧
      (fffState dimY dimZ dimT oX oY oZ oT axis k).idx = k := by
  have dY : 0 ≤ (Fff.ddims dimY dimZ dimT axis).1 := by simp only [Fff.ddims]; split_ifs <;> omega
  have dZ : 0 ≤ (Fff.ddims dimY dimZ dimT axis).2.1 := by simp only [Fff.ddims]; split_ifs <;> omega
  have dT : 0 ≤ (Fff.ddims dimY dimZ dimT axis).2.2 := by simp only [Fff.ddims]; split_ifs <;> omega
  intro k
  induction k with
  | zero => exact ⟨fff_iterator_init_invariant oX oY oZ oT _ _ _ dY dZ dT, rfl⟩
  | succ k ih =>
      constructor
      · show FffInv _ _ _ _ _ _ _ (fffStep dimY dimZ dimT oX oY oZ oT axis _)
        unfold fffStep
        apply fff_update_invariant (h := ih.1)
        · intro e; simp only [Fff.ddims]; split_ifs <;> omega
        · intro e; simp only [Fff.ddims]; split_ifs <;> omega
        · intro e; simp only [Fff.ddims]; split_ifs <;> omega
      · show (fffStep dimY dimZ dimT oX oY oZ oT axis _).idx = _
        unfold fffStep
        rw [fff_update_idx, ih.2]; push_cast; rfl

/-- **the iterator of `fff_array.c` never leaves its array**: every byte offset dereferenced during a complete scan —
    `init_skip_axis`, then `update` until `idx = size` — is the offset of an element `(x, y, z, t)` of the array, for all
    dimensions (≥ 1), all byte offsets (negative and non-contiguous included) and any skipped axis. -/
theorem fff_scan_in_array (dimX dimY dimZ dimT oX oY oZ oT axis : Int)
    (hX : 1 ≤ dimX) (hY : 1 ≤ dimY) (hZ : 1 ≤ dimZ) (hT : 1 ≤ dimT) :
    ∀ d ∈ fffVisits dimX dimY dimZ dimT oX oY oZ oT axis, ∃ x y z t : Int,
      0 ≤ x ∧ x < dimX ∧ 0 ≤ y ∧ y < dimY ∧ 0 ≤ z ∧ z < dimZ ∧ 0 ≤ t ∧ t < dimT ∧
        d = x * oX + y * oY + z * oZ + t * oT := by
  intro d hd
  rw [fffVisits_eq] at hd
  simp only [List.mem_map, List.mem_range] at hd
  obtain ⟨k, hk, rfl⟩ := hd
  obtain ⟨inv, hidx⟩ := fff_state_invariant dimY dimZ dimT oX oY oZ oT axis hY hZ hT k
  have dY : 0 ≤ (Fff.ddims dimY dimZ dimT axis).1 := by simp only [Fff.ddims]; split_ifs <;> omega
  have dZ : 0 ≤ (Fff.ddims dimY dimZ dimT axis).2.1 := by simp only [Fff.ddims]; split_ifs <;> omega
  have dT : 0 ≤ (Fff.ddims dimY dimZ dimT axis).2.2 := by simp only [Fff.ddims]; split_ifs <;> omega
  have uY : (Fff.ddims dimY dimZ dimT axis).1 < dimY := by simp only [Fff.ddims]; split_ifs <;> omega
  have uZ : (Fff.ddims dimY dimZ dimT axis).2.1 < dimZ := by simp only [Fff.ddims]; split_ifs <;> omega
  have uT : (Fff.ddims dimY dimZ dimT axis).2.2 < dimT := by simp only [Fff.ddims]; split_ifs <;> omega
  have hc : Fff.count dimX dimY dimZ dimT axis =
      (if axis = 0 then 1 else dimX) * ((Fff.ddims dimY dimZ dimT axis).1 + 1) *
        ((Fff.ddims dimY dimZ dimT axis).2.1 + 1) * ((Fff.ddims dimY dimZ dimT axis).2.2 + 1) := by
    simp only [Fff.count, Fff.ddims]
    split_ifs <;> ring
  have hx := fff_iterator_x_in_range oX oY oZ oT _ _ _ (if axis = 0 then 1 else dimX) _ inv dY dZ dT
    (by rw [← hc, hidx]; omega)
  have hx' : (fffState dimY dimZ dimT oX oY oZ oT axis k).x < dimX := by
    split_ifs at hx <;> omega
  obtain ⟨hd, _, x0, y0, y1, z0, z1, t0, t1⟩ := inv
  exact ⟨_, _, _, _, x0, hx', y0, by omega, z0, by omega, t0, by omega, hd⟩

/-- the scan visits exactly `count` positions -/
theorem fff_scan_length (dimX dimY dimZ dimT oX oY oZ oT axis : Int) :
    ((fffVisits dimX dimY dimZ dimT oX oY oZ oT axis).length : Int) = max (Fff.count dimX dimY dimZ dimT axis) 0 := by
  rw [fffVisits_eq]; simp

/-! ### fffpy.c: the axis of the multi-iterator -/

/-- `fffpy_multi_iterator_new` (text after fix b9ed8b8): every axis NumPy's convention admits, `-ndim ≤ axis < ndim`, is
    handed to `PyArray_IterAllButAxis` as a genuine axis number, and a negative one counts from the last axis — which is
    what the callers size their outputs for -/
theorem fffpy_axis_normalised (axis ndim : Int) (h0 : -ndim ≤ axis) (h1 : axis < ndim) :
    0 ≤ Pyx.Fffpy.normAxis axis ndim ∧ Pyx.Fffpy.normAxis axis ndim < ndim ∧
      (axis < 0 → Pyx.Fffpy.normAxis axis ndim = ndim + axis) ∧ (0 ≤ axis → Pyx.Fffpy.normAxis axis ndim = axis) := by
  unfold Pyx.Fffpy.normAxis
  split_ifs <;> omega

/-! ### intvol.pyx -/

/-- intvol.pyx (`EC3d`, `Lips3d`): for every mask shape and every voxel the loops visit, the eight cells of the padded
    mask that the subscripts `pindex + d?[l, ?]` can name are inside `fpmask` — on the padding, loop bounds, strides and
    index expression regenerated from the `.pyx` text -/
theorem intvol_corners3_in_bounds (m0 m1 m2 i j k : Int) (l : List Int) (h : ivCorners3 m0 m1 m2 i j k = some l) :
    ∀ q ∈ l, 0 ≤ q ∧ q < Pyx.Intvol.pad m0 * Pyx.Intvol.pad m1 * Pyx.Intvol.pad m2 := by
  simp only [ivCorners3] at h
  split_ifs at h with hc
  injection h with h
  subst h
  simp only [Pyx.Intvol.pad, Pyx.Intvol.loopHi, Pyx.Intvol.stride0, Pyx.Intvol.stride1, Pyx.Intvol.stride2,
    Pyx.Intvol.pindex3] at hc ⊢
  obtain ⟨i0, i1, j0, j1, k0, k1⟩ := hc
  have key : ∀ ex ey ez : Int, 0 ≤ ex → ex ≤ 1 → 0 ≤ ey → ey ≤ 1 → 0 ≤ ez → ez ≤ 1 →
      0 ≤ (i + ex) * ((m1 + 1) * (m2 + 1)) + (j + ey) * (m2 + 1) + (k + ez) ∧
      (i + ex) * ((m1 + 1) * (m2 + 1)) + (j + ey) * (m2 + 1) + (k + ez) < (m0 + 1) * (m1 + 1) * (m2 + 1) := by
    intro ex ey ez a b c d e f
    exact rowMajor3 (i + ex) (j + ey) (k + ez) (m0 + 1) (m1 + 1) (m2 + 1) (by linarith) (by linarith) (by linarith)
      (by linarith) (by linarith) (by linarith)
  intro q hq
  simp only [List.flatMap_cons, List.flatMap_nil, List.map_cons, List.map_nil, List.append_nil, List.cons_append,
    List.nil_append, List.mem_cons, List.not_mem_nil, or_false] at hq
  rcases hq with e | e | e | e | e | e | e | e <;> subst e
  · have := key 0 0 0 (by norm_num) (by norm_num) (by norm_num) (by norm_num) (by norm_num) (by norm_num)
    constructor <;> nlinarith [this.1, this.2]
  · have := key 0 0 1 (by norm_num) (by norm_num) (by norm_num) (by norm_num) (by norm_num) (by norm_num)
    constructor <;> nlinarith [this.1, this.2]
  · have := key 0 1 0 (by norm_num) (by norm_num) (by norm_num) (by norm_num) (by norm_num) (by norm_num)
    constructor <;> nlinarith [this.1, this.2]
  · have := key 0 1 1 (by norm_num) (by norm_num) (by norm_num) (by norm_num) (by norm_num) (by norm_num)
    constructor <;> nlinarith [this.1, this.2]
  · have := key 1 0 0 (by norm_num) (by norm_num) (by norm_num) (by norm_num) (by norm_num) (by norm_num)
    constructor <;> nlinarith [this.1, this.2]
  · have := key 1 0 1 (by norm_num) (by norm_num) (by norm_num) (by norm_num) (by norm_num) (by norm_num)
    constructor <;> nlinarith [this.1, this.2]
  · have := key 1 1 0 (by norm_num) (by norm_num) (by norm_num) (by norm_num) (by norm_num) (by norm_num)
    constructor <;> nlinarith [this.1, this.2]
  · have := key 1 1 1 (by norm_num) (by norm_num) (by norm_num) (by norm_num) (by norm_num) (by norm_num)
    constructor <;> nlinarith [this.1, this.2]

/-- the same for the 2-d kernels (`EC2d`, `Lips2d`) -/
theorem intvol_corners2_in_bounds (m0 m1 i j : Int) (l : List Int) (h : ivCorners2 m0 m1 i j = some l) :
    ∀ q ∈ l, 0 ≤ q ∧ q < Pyx.Intvol.pad m0 * Pyx.Intvol.pad m1 := by
  simp only [ivCorners2] at h
  split_ifs at h with hc
  injection h with h
  subst h
  simp only [Pyx.Intvol.pad, Pyx.Intvol.loopHi, Pyx.Intvol.stride0_2, Pyx.Intvol.stride1_2, Pyx.Intvol.pindex2] at hc ⊢
  obtain ⟨i0, i1, j0, j1⟩ := hc
  have key : ∀ ex ey : Int, 0 ≤ ex → ex ≤ 1 → 0 ≤ ey → ey ≤ 1 →
      0 ≤ (i + ex) * (m1 + 1) + (j + ey) ∧ (i + ex) * (m1 + 1) + (j + ey) < (m0 + 1) * (m1 + 1) := by
    intro ex ey a b c d
    exact rowMajor_step (i + ex) (m0 + 1) (j + ey) (m1 + 1) (by linarith) (by linarith) (by linarith) (by linarith)
  intro q hq
  simp only [List.flatMap_cons, List.flatMap_nil, List.map_cons, List.map_nil, List.append_nil, List.cons_append,
    List.nil_append, List.mem_cons, List.not_mem_nil, or_false] at hq
  rcases hq with e | e | e | e <;> subst e
  · have := key 0 0 (by norm_num) (by norm_num) (by norm_num) (by norm_num)
    constructor <;> nlinarith [this.1, this.2]
  · have := key 0 1 (by norm_num) (by norm_num) (by norm_num) (by norm_num)
    constructor <;> nlinarith [this.1, this.2]
  · have := key 1 0 (by norm_num) (by norm_num) (by norm_num) (by norm_num)
    constructor <;> nlinarith [this.1, this.2]
  · have := key 1 1 (by norm_num) (by norm_num) (by norm_num) (by norm_num)
    constructor <;> nlinarith [this.1, this.2]

/-! ### `_graph.pyx::dilation` over `WeightedGraph.compact_neighb` -/

/-- `compact_neighb`: `idx` starts at 0, is non-decreasing, and ends at the number of edges when every first vertex is a
    vertex of the graph (the class invariant `edges < V` checked by the constructor) -/
theorem cidx_facts (a : List Nat) (V : Nat) (h : ∀ x ∈ a, x < V) :
    cidx a 0 = 0 ∧ (∀ u v : Nat, u ≤ v → cidx a u ≤ cidx a v) ∧ cidx a V = a.length := by
  refine ⟨?_, ?_, ?_⟩
  · simp [cidx]
  · intro u v huv
    unfold cidx
    apply List.countP_mono_left
    intro x _ hx
    simp only [decide_eq_true_eq] at hx ⊢
    omega
  · unfold cidx
    rw [List.countP_eq_length]
    intro x hx
    simpa using h x hx

/-- **`dilation` stays inside `neighb` and `field`**: for the arrays `compact_neighb` builds from an edge list whose
    vertices are below `V`, every `j` of `range(idx[i], idx[i+1])`, `i < V`, is a valid position of `neighb`, the two
    entries of `idx` read are inside its `V + 1` entries, and `neighb[j]` is a valid row of `field` -/
theorem dilation_in_bounds (V : Nat) (a b : List Nat) (hab : a.length = b.length) (ha : ∀ x ∈ a, x < V)
    (hb : ∀ x ∈ b, x < V) (i : Nat) (hi : i < V) (j : Nat)
    (hj : cidx a (Pyx.Graph.jLoIdx (i : Int)).toNat ≤ j ∧ j < cidx a (Pyx.Graph.jHiIdx (i : Int)).toNat) :
    (0 ≤ Pyx.Graph.jLoIdx (i : Int) ∧ Pyx.Graph.jHiIdx (i : Int) < Pyx.Graph.idxLen V) ∧
      ∃ hlt : j < b.length, b[j] < V := by
  obtain ⟨_, mono, last⟩ := cidx_facts a V ha
  simp only [Pyx.Graph.jLoIdx, Pyx.Graph.jHiIdx, Pyx.Graph.idxLen] at *
  refine ⟨by omega, ?_⟩
  have h1 : cidx a ((i : Int) + 1).toNat ≤ cidx a V := mono _ _ (by omega)
  have hlt : j < b.length := by omega
  exact ⟨hlt, hb _ (List.getElem_mem hlt)⟩

/-- `compact_neighb`: `idx` has `V + 1` entries, the `v`-th being `cidx a v` -/
theorem compactIdx_spec (V : Nat) (a : List Nat) :
    ((compactIdx V a).length : Int) = Pyx.Graph.idxLen V ∧
      ∀ v (hv : v < (compactIdx V a).length), (compactIdx V a)[v] = cidx a v := by
  constructor
  · simp [compactIdx, Pyx.Graph.idxLen]
  · intro v hv; simp [compactIdx]

/-! ### non-vacuity -/
example : storeSet (veStores 2 2 2 3 (fun _ _ => 7) 0 [(0, 0, 0), (1, 1, 1)]) = [0, 1, 2, 21, 22, 23] := by decide
example : applyWrites (fun _ => 0) (veStores 2 2 2 3 (fun _ _ => 7) 0 [(1, 1, 1)]) 22 = 7 ∧
    applyWrites (fun _ => 0) (veStores 2 2 2 3 (fun _ _ => 7) 0 [(1, 1, 1)]) 20 = 0 := by decide
example : storeSet (jhStores 2 5 [3, 1, 1, 4] (fun _ => 1)) = [11, 13, 14] := by decide
example : ivCorners3 1 1 1 0 0 0 = some [0, 1, 2, 3, 4, 5, 6, 7] ∧ ivCorners3 1 1 1 1 0 0 = none ∧
    ivCorners3 0 1 1 0 0 0 = none ∧ ivCorners2 2 1 1 0 = some [2, 3, 4, 5] := by decide
example : Pyx.Fffpy.normAxis (-1) 3 = 2 ∧ Pyx.Fffpy.normAxis 1 3 = 1 := by decide
example : compactIdx 3 [0, 0, 1, 2, 2] = [0, 2, 3, 5] := by decide
example : (fffState 2 1 3 100 30 7 1 (-1) 4).data = 31 ∧ (fffState 2 1 3 100 30 7 1 (-1) 4).idx = 4 := by decide

end NipyVerif.C20
