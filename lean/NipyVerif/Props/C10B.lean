/-
C10B — more of formulae.py: `natural_spline`, `Formula.subs`, `mean` / `coefs` /
`params`, `RandomEffects.cov`, `FactorTerm.__mul__`.  One theorem per construct:
the column equals the denoted expression.
-/
import NipyVerif.Lemmas.C10S
import NipyVerif.Props.C10

namespace NipyVerif.C10

/-! ## A formula of single variables (Factor, natural_spline, `Term.formula`) -/

/-- the value of a bare variable term is the variable's value -/
theorem evalMono_var (v : Nat → Rat) (a : Nat) : evalMono v ⟨1, [a]⟩ = v a := by
  simp [evalMono, prodL]

/-- a Formula whose terms are bare variables (a Factor, a natural spline basis,
    `Term(x).formula`): column `k` is variable `k` read off every row -/
theorem single_var_design (specs : List VarSpec) (rows : List (List Rat)) (vs : List Nat) (b : Bool) :
    design specs rows ⟨vs.map (fun a => ⟨1, [a]⟩), b⟩ =
      vs.map (fun a => rows.map (fun r => valuation specs r a)) := by
  simp only [design, List.map_map]
  apply List.map_congr_left
  intro a _
  simp only [Function.comp, column]
  apply List.map_congr_left
  intro r _
  exact evalMono_var _ a

/-! ## natural_spline: a piecewise polynomial basis -/

/-- `ns_i(x)`, `i ≤ order`, evaluates to `x ** i` -/
theorem spline_power_value (specs : List VarSpec) (row : List Rat) (v j i : Nat)
    (h : specs[v]? = some (.pw j i)) : valuation specs row v = (row.getD j 0) ^ i := by
  simp [valuation, h, nsPow]

/-- the knot functions evaluate to the truncated power `(x - k)₊ ** order`:
    zero up to and including the knot, the polynomial `(x - k) ** order` after it -/
theorem spline_trunc_value (specs : List VarSpec) (row : List Rat) (v j order : Nat) (k : Rat)
    (h : specs[v]? = some (.tr j k order)) :
    (row.getD j 0 ≤ k → valuation specs row v = 0) ∧
    (k < row.getD j 0 → valuation specs row v = (row.getD j 0 - k) ^ order) := by
  constructor
  · intro hle
    simp only [valuation, h, nsTrunc]
    rw [if_neg (not_lt.mpr hle)]; ring
  · intro hlt
    simp only [valuation, h, nsTrunc]
    rw [if_pos hlt]; ring

/-- for `order ≥ 1` the truncated power is continuous at its knot (both pieces give 0) -/
theorem spline_trunc_at_knot (k : Rat) (order : Nat) (ho : 1 ≤ order) :
    nsTrunc k order k = 0 ∧ (k - k) ^ order = 0 := by
  constructor
  · simp [nsTrunc]
  · rw [sub_self]; exact zero_pow (by omega)

/-- `natural_spline(t, knots, order, intercept)`: the design has the columns
    `x**i` (`i` from 1, or from 0 with the intercept, to `order`) followed by one
    truncated power per knot — a basis of piecewise polynomials in the Term's
    value `x`. -/
theorem natural_spline_design (specs : List VarSpec) (rows : List (List Rat)) (j order : Nat)
    (knots : List Rat) (vp vk : List Nat) (lo : Nat)
    (hp : vp.length = order + 1 - lo)
    (hps : ∀ (i : Nat) (hi : i < vp.length), specs[vp[i]]? = some (.pw j (lo + i)))
    (hk : vk.length = knots.length)
    (hks : ∀ (i : Nat) (hi : i < vk.length), specs[vk[i]]? = some (.tr j (knots.getD i 0) order)) :
    design specs rows ⟨(vp ++ vk).map (fun a => ⟨1, [a]⟩), false⟩ =
      (List.range (order + 1 - lo)).map (fun i => rows.map (fun r => (r.getD j 0) ^ (lo + i))) ++
      (List.range knots.length).map (fun i => rows.map (fun r => nsTrunc (knots.getD i 0) order (r.getD j 0))) := by
  rw [single_var_design, List.map_append]
  congr 1
  · apply List.ext_getElem
    · simp [hp]
    · intro i h1 h2
      have hi : i < vp.length := by simpa using h1
      simp only [List.getElem_map, List.getElem_range]
      apply List.map_congr_left
      intro r _
      exact spline_power_value specs r _ j _ (hps i hi)
  · apply List.ext_getElem
    · simp [hk]
    · intro i h1 h2
      have hi : i < vk.length := by simpa using h1
      simp only [List.getElem_map, List.getElem_range]
      apply List.map_congr_left
      intro r _
      simp [valuation, hks i hi]

/-! ## Formula.subs -/

theorem prodL_sortVars (v : Nat → Rat) (l : List Nat) :
    prodL ((l.foldr insertSorted []).map v) = prodL (l.map v) := by
  induction l with
  | nil => rfl
  | cons a l ih => simp only [List.foldr_cons, prodL_insertSorted, ih, List.map_cons, prodL]

/-- `term.subs(a, b)`: the new term under a valuation is the old term under the
    valuation that reads `b` wherever `a` was read -/
theorem subs_denotes (v : Nat → Rat) (a b : Nat) (m : Mono) :
    evalMono v (m.subsVar a b) = evalMono (fun x => if x = a then v b else v x) m := by
  simp only [evalMono, Mono.subsVar, prodL_sortVars, List.map_map]
  congr 2
  apply List.map_congr_left
  intro x _
  simp only [Function.comp]
  split_ifs <;> rfl

/-- `Formula.subs(a, b)`: one column per term (nothing is merged), each the
    substituted term evaluated on the data -/
theorem design_subs (specs : List VarSpec) (rows : List (List Rat)) (a b : Nat) (f : Formula) :
    (f.subsVar a b).terms.length = f.terms.length ∧
    design specs rows (f.subsVar a b) =
      f.terms.map (fun m => rows.map (fun r =>
        evalMono (fun x => if x = a then valuation specs r b else valuation specs r x) m)) := by
  refine ⟨by simp [Formula.subsVar], ?_⟩
  simp only [design, Formula.subsVar, List.map_map]
  apply List.map_congr_left
  intro m _
  simp only [Function.comp, column]
  apply List.map_congr_left
  intro r _
  exact subs_denotes _ a b m

/-! ## mean / coefs / params -/

theorem dedup_length_le {α} [DecidableEq α] (l : List α) : (dedup l).length ≤ l.length := by
  induction l with
  | nil => simp [dedup]
  | cons a l ih =>
      unfold dedup
      split_ifs
      · simp; omega
      · simp; omega

theorem dedup_of_nodup {α} [DecidableEq α] (l : List α) (h : l.Nodup) : dedup l = l := by
  induction l with
  | nil => simp [dedup]
  | cons a l ih =>
      obtain ⟨ha, hl⟩ := List.nodup_cons.mp h
      unfold dedup
      rw [ih hl, if_neg ha]

/-- one parameter (`Beta`) per term *position*, one `coefs` entry per distinct
    term: never more coefficients than parameters, and as many exactly when no
    term is repeated; every parameter has its own column in the design. -/
theorem params_and_coefs (specs : List VarSpec) (rows : List (List Rat)) (f : Formula) :
    (counts specs f).1 = (design specs rows f).length ∧
    (counts specs f).2.1 ≤ (counts specs f).1 ∧
    (f.terms.Nodup → (counts specs f).2.1 = (counts specs f).1) := by
  refine ⟨by simp [counts, design], dedup_length_le _, fun h => ?_⟩
  simp [counts, dedup_of_nodup _ h]

/-! ## FactorTerm.__mul__: a factor term times itself is itself -/

/-- `FactorTerm.__mul__` returns `self` for `self * self`; that is what the
    columns say: an indicator squared is the indicator -/
theorem factor_term_idempotent (heap : List Cell) (d : Data) (v : Nat) (c : Cell)
    (h : heap[v]? = some c) (hft : c.isFT = true) :
    sessColumn heap d ((varMono v).mul (varMono v)) = sessColumn heap d (varMono v) := by
  unfold sessColumn
  apply List.map_congr_left
  intro r _
  rw [evalMono_mul]
  simp only [varMono, evalMono_var, heapVal, h, cellVal, hft, if_true]
  cases fieldOf d.fields r c.fname with
  | none => simp
  | some x => by_cases hm : c.level.matches x = true <;> simp [hm]

/-! ## RandomEffects.cov -/

theorem dot_comm (a b : List Rat) : dot a b = dot b a := by
  unfold dot
  induction a generalizing b with
  | nil => cases b <;> simp
  | cons x a ih =>
      cases b with
      | nil => simp
      | cons y b => simp only [List.zipWith_cons_cons, List.sum_cons, ih b]; ring

theorem dot_zero_left (q : Nat) (x : List Rat) : dot (List.replicate q 0) x = 0 := by
  unfold dot; exact zipWith_zero_sum q x

/-- "cov structure": the covariance of two observations of a factor is the entry
    of `sigma` for their two levels -/
theorem re_cov_entry (q : Nat) (sigma : List (List Rat)) (hs : sigma.length = q)
    (a b : Nat) (ha : a < q) (hr : (sigma.getD a []).length = q) :
    dot (obsRow q (some a)) (matVec sigma (obsRow q (some b))) = (sigma.getD a []).getD b 0 := by
  simp only [obsRow]
  have hlen : (matVec sigma (unitRow q b)).length = q := by simp [matVec, hs]
  rw [unitRow_dot q a _ hlen]
  have ha' : a < sigma.length := by omega
  simp only [matVec, List.getD_eq_getElem?_getD, List.getElem?_map, List.getElem?_eq_getElem ha',
    Option.map_some, Option.getD_some]
  rw [dot_comm, unitRow_dot q b _ (by simpa [List.getD_eq_getElem?_getD, List.getElem?_eq_getElem ha'] using hr)]
  simp [List.getD_eq_getElem?_getD]

/-- an observation whose value is not a level of the factor has zero covariance
    with every observation -/
theorem re_cov_outside (q : Nat) (sigma : List (List Rat)) (x : List Rat) :
    dot (obsRow q none) (matVec sigma x) = 0 ∧
    (sigma.length = q → dot x (matVec sigma (obsRow q none)) = 0) := by
  refine ⟨dot_zero_left q _, fun hs => ?_⟩
  have : matVec sigma (obsRow q none) = List.replicate q 0 := by
    simp only [matVec, obsRow]
    rw [← hs]
    apply List.ext_getElem
    · simp
    · intro i h1 h2
      simp only [List.getElem_map, List.getElem_replicate]
      rw [dot_comm]; exact dot_zero_left _ _
  rw [this, dot_comm]; exact dot_zero_left q x

/-- the whole matrix: entry `(i, j)` of `RandomEffects.cov` is
    `rowᵢ · sigma · rowⱼᵀ` -/
theorem re_cov_entries (q : Nat) (obs : List (Option Nat)) (sigma : List (List Rat)) (i j : Nat)
    (hi : i < obs.length) (hj : j < obs.length) :
    ((reCovFactor q obs sigma).getD i []).getD j 0 =
      dot (obsRow q obs[i]) (matVec sigma (obsRow q obs[j])) := by
  simp [reCovFactor, reCov, List.getD_eq_getElem?_getD, hi, hj]

/-! ## `_eval_for` and `convolve_functions`: sampling on `np.arange` -/

/-- `np.arange(lo, hi, dt)`: the `k`-th time is `lo + k·dt` -/
theorem arange_get (lo hi dt : Rat) (k : Nat) (hk : k < (arange lo hi dt).length) :
    (arange lo hi dt).getD k 0 = lo + (k : Rat) * dt := by
  unfold arange at *
  simp only [List.length_map, List.length_range] at hk
  simp [List.getD_eq_getElem?_getD, hk]

/-- `_eval_for(f, interval, dt)`: sample `k` is `f(min(interval) + k·dt)`; the
    interval may be given in either order -/
theorem evalFor_samples (f : Rat → Rat) (a b dt : Rat) (k : Nat) (hk : k < (evalFor f a b dt).length) :
    (evalFor f a b dt).getD k 0 = f (min a b + (k : Rat) * dt) ∧ evalFor f a b dt = evalFor f b a dt := by
  constructor
  · have hk' : k < (arange (min a b) (max a b) dt).length := by simpa [evalFor] using hk
    have := arange_get (min a b) (max a b) dt k hk'
    simp only [evalFor, List.getD_eq_getElem?_getD, List.getElem?_map] at *
    rw [List.getElem?_eq_getElem hk'] at *
    simp only [Option.map_some, Option.getD_some] at *
    rw [this]
  · simp [evalFor, min_comm, max_comm]

/-- "numerically convolved functions agree with direct numerical convolution",
    with the sampling inside the model: at the `k`-th grid time
    `k·dt + min(f_interval) + min(g_interval)` the value of
    `convolve_functions(f, g, f_interval, g_interval, dt)` is the Riemann sum
    `dt · Σ_{i ≤ k} f(t^f_i) · g(t^g_{k-i})` over the samples `_eval_for` takes
    (samples beyond an interval count as 0). -/
theorem convolve_functions_grid (f g : Rat → Rat) (fa fb ga gb dt fill : Rat) (hdt : 0 < dt)
    (hf : evalFor f fa fb dt ≠ []) (hg : evalFor g ga gb dt ≠ []) (k : Nat)
    (hk : k < (evalFor f fa fb dt).length + (evalFor g ga gb dt).length - 1) :
    convolveFns f g fa fb ga gb dt fill ((k : Rat) * dt + min fa fb + min ga gb) =
      some (convAt (ofList (evalFor f fa fb dt)) (ofList (evalFor g ga gb dt)) k * dt) ∧
    (∀ i, ofList (evalFor f fa fb dt) i =
      if i < (evalFor f fa fb dt).length then f (min fa fb + (i : Rat) * dt) else 0) := by
  refine ⟨conv_grid_value _ _ dt _ _ fill hdt hf hg k hk, fun i => ?_⟩
  split_ifs with hi
  · exact (evalFor_samples f fa fb dt i hi).1
  · simp [ofList, List.getD_eq_getElem?_getD, List.getElem?_eq_none (not_lt.mp hi)]

example : evalFor (fun x => x * x) 2 0 (1/2) = [0, 1/4, 1, 9/4] := by decide +kernel
example : convolveFns (fun _ => 1) (fun x => x) 0 1 0 1 (1/2) 0 (1 * (1/2) + min 0 1 + min 0 1) = some (1/4) := by
  decide +kernel

/-! ## Non-vacuity -/

example : (Mono.subsVar 0 1 ⟨2, [0, 0, 1]⟩) = ⟨2, [1, 1, 1]⟩ := by decide +kernel
example : counts [.num 0, .num 1] ⟨[⟨1, [0]⟩, ⟨1, [0]⟩, ⟨1, [0, 1]⟩], false⟩ = (3, 2, 2) := by decide +kernel
example : reCovFactor 2 [some 0, some 1, none] [[4, 1], [1, 6]] = [[4, 1, 0], [1, 6, 0], [0, 0, 0]] := by
  decide +kernel
example : ([[4, 1], [1, 6]] : List (List Rat)).length = 2 ∧ (([[4, 1], [1, 6]] : List (List Rat)).getD 1 []).length = 2 := by
  decide
example : design [.num 0, .pw 0 1, .pw 0 2, .tr 0 1 2] [[3], [1/2]]
    ⟨[⟨1, [1]⟩, ⟨1, [2]⟩, ⟨1, [3]⟩], false⟩ = [[3, 1/2], [9, 1/4], [4, 0]] := by decide +kernel

end NipyVerif.C10
