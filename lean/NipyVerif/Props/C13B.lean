/-
C13 (part B) — property theorems about the Bayesian mixture model of `NipyVerif.Model.C13B`:
conjugate normal–Wishart updates are equivariant (for *every* labelling, empty classes included),
memberships are unchanged, the alternative implementations of the update agree, and after any
operation history the cached determinants are those of the current parameters.
-/
import NipyVerif.Lemmas.C13B
import NipyVerif.Props.C13

namespace NipyVerif.C13

/-! ## Conjugate update: equivariance -/

/-- Clause "translating the data or rescaling each axis translates or rescales the fitted means and
    covariances accordingly", Gibbs update (`BGMM.update_means / update_precisions`,
    `conditional_posterior_proba`) for a hard labelling `z`, **every** class `k` — also an empty one —
    and the per-axis affine map `x ↦ a·x + t` acting on data and prior alike: the Wishart inverse scale
    maps as `a_j a_l ·` and the posterior mean as `a·m + t`. -/
theorem bgmm_update_affine_equivariant (n : Nat) (z : Nat → Nat) (k : Nat) (x : Nat → Nat → Rat)
    (a t pm : Nat → Rat) (ips : Nat → Nat → Rat) (ps : Rat) (hps : 0 < ps) (j l : Nat) :
    let r := hardResp z k
    conjCov (rpopHard (pop n r)) n r (affineData a t x) (affineVec a t pm) (scaleMat a ips) ps j l
        = a j * a l * conjCov (rpopHard (pop n r)) n r x pm ips ps j l ∧
    mstepMean n r (affineData a t x) (affineVec a t pm) ps j = a j * mstepMean n r x pm ps j + t j := by
  intro r
  have hnn : ∀ i, i < n → 0 ≤ r i := fun i _ => hardResp_nonneg z k i
  have hp0 : 0 ≤ pop n r := sumTo_nonneg hnn
  refine ⟨?_, mstepMean_affine n r x a t pm ps j (by linarith)⟩
  by_cases hp : pop n r = 0
  · have hz := resp_zero_of_pop_zero hnn hp
    rw [conjCov_of_resp_zero _ _ _ _ _ j l hz, conjCov_of_resp_zero _ _ _ _ _ j l hz]
    rfl
  · have hrp : rpopHard (pop n r) = pop n r := by unfold rpopHard; rw [if_neg hp]
    exact conjCov_affine_nonempty _ n r x a t pm ips ps j l hrp hp

/-- `bgmm_update_translation_equivariant`: translating data and prior mean by `t` leaves the Wishart
    inverse scale of every class unchanged and translates the posterior mean. -/
theorem bgmm_update_translation_equivariant (n : Nat) (z : Nat → Nat) (k : Nat) (x : Nat → Nat → Rat)
    (t pm : Nat → Rat) (ips : Nat → Nat → Rat) (ps : Rat) (hps : 0 < ps) (j l : Nat) :
    let r := hardResp z k
    conjCov (rpopHard (pop n r)) n r (affineData (fun _ => 1) t x) (fun j => pm j + t j) ips ps j l
        = conjCov (rpopHard (pop n r)) n r x pm ips ps j l ∧
    mstepMean n r (affineData (fun _ => 1) t x) (fun j => pm j + t j) ps j
        = mstepMean n r x pm ps j + t j := by
  intro r
  have h := bgmm_update_affine_equivariant n z k x (fun _ => 1) t pm ips ps hps j l
  have e1 : affineVec (fun _ => 1) t pm = fun j => pm j + t j := by funext j; simp [affineVec]
  have e2 : scaleMat (fun _ => 1) ips = ips := by funext j l; simp [scaleMat]
  rw [e1, e2] at h
  simpa using h

/-- `bgmm_update_rescale_equivariant`: rescaling every axis by `a_j` (any sign) rescales the inverse
    scale by `a_j a_l` and the posterior mean by `a_j`. -/
theorem bgmm_update_rescale_equivariant (n : Nat) (z : Nat → Nat) (k : Nat) (x : Nat → Nat → Rat)
    (a pm : Nat → Rat) (ips : Nat → Nat → Rat) (ps : Rat) (hps : 0 < ps) (j l : Nat) :
    let r := hardResp z k
    conjCov (rpopHard (pop n r)) n r (affineData a (fun _ => 0) x) (fun j => a j * pm j) (scaleMat a ips) ps j l
        = a j * a l * conjCov (rpopHard (pop n r)) n r x pm ips ps j l ∧
    mstepMean n r (affineData a (fun _ => 0) x) (fun j => a j * pm j) ps j = a j * mstepMean n r x pm ps j := by
  intro r
  have h := bgmm_update_affine_equivariant n z k x a (fun _ => 0) pm ips ps hps j l
  have e1 : affineVec a (fun _ => 0) pm = fun j => a j * pm j := by funext j; simp [affineVec]
  rw [e1] at h
  simpa using h

/-- Why the weight of the mean-shift term must be the conjugate one: for an **empty** class the update
    with a weight `w` is `inv_prior_scale + w · pm pmᵀ`, so it is translation invariant (for all prior
    means and translations) iff `w = 0` — which `prior_shrinkage·pop/(prior_shrinkage+pop)` is at
    `pop = 0`, and the constant `prior_shrinkage` is not. -/
theorem empty_class_translation_invariant_iff (n : Nat) (r : Nat → Rat) (x : Nat → Nat → Rat)
    (ips : Nat → Nat → Rat) (w : Rat) (hz : ∀ i, i < n → r i = 0) :
    (∀ (pm t : Nat → Rat),
        conjCovW w 1 n r (affineData (fun _ => 1) t x) (fun j => pm j + t j) ips 0 0
          = conjCovW w 1 n r x pm ips 0 0) ↔ w = 0 := by
  have key : ∀ (y : Nat → Nat → Rat) (pm : Nat → Rat), conjCovW w 1 n r y pm ips 0 0 = ips 0 0 + pm 0 * pm 0 * w := by
    intro y pm
    unfold conjCovW empMeanR
    rw [scatterR_zero_of_resp_zero 1 y 0 0 hz, sx_zero_of_resp_zero y 0 hz]
    ring
  constructor
  · intro h
    have := h (fun _ => 0) (fun _ => 1)
    rw [key, key] at this
    linarith
  · intro hw pm t
    rw [key, key, hw]; ring

/-- Clause "relabelling components permutes the fitted parameters" (Gibbs update): relabelling the
    allocation by an injective `τ` and moving class `k`'s prior to `τ k` gives class `τ k` exactly the
    population, posterior mean and inverse scale class `k` had. -/
theorem bgmm_update_label_equivariant (n : Nat) (z : Nat → Nat) (τ : Nat → Nat) (hτ : Function.Injective τ)
    (k : Nat) (x : Nat → Nat → Rat) (pm : Nat → Rat) (ips : Nat → Nat → Rat) (ps pw : Rat) (j l : Nat) :
    let r := hardResp z k
    let r' := hardResp (fun i => τ (z i)) (τ k)
    pop n r' = pop n r ∧ conjWeight n r' pw = conjWeight n r pw ∧
    mstepMean n r' x pm ps j = mstepMean n r x pm ps j ∧
    conjCov (rpopHard (pop n r')) n r' x pm ips ps j l = conjCov (rpopHard (pop n r)) n r x pm ips ps j l := by
  intro r r'
  have : r' = r := hardResp_relabel z τ hτ k
  rw [this]
  exact ⟨rfl, rfl, rfl, rfl⟩

/-- Variational update (`VBGMM._Mstep`, soft memberships `r`, `empmeans = rᵀx / max(pop, tiny)`): the
    same equivariance whenever the class population is at least `tiny`. -/
theorem vbgmm_mstep_affine_equivariant (tiny : Rat) (n : Nat) (r : Nat → Rat) (x : Nat → Nat → Rat)
    (a t pm : Nat → Rat) (ips : Nat → Nat → Rat) (ps : Rat) (ht : 0 < tiny) (hps : 0 < ps)
    (hpop : tiny ≤ pop n r) (j l : Nat) :
    conjCov (rpopSoft tiny (pop n r)) n r (affineData a t x) (affineVec a t pm) (scaleMat a ips) ps j l
        = a j * a l * conjCov (rpopSoft tiny (pop n r)) n r x pm ips ps j l ∧
    mstepMean n r (affineData a t x) (affineVec a t pm) ps j = a j * mstepMean n r x pm ps j + t j := by
  have hrp : rpopSoft tiny (pop n r) = pop n r := max_eq_left hpop
  exact ⟨conjCov_affine_nonempty _ n r x a t pm ips ps j l hrp (by linarith),
    mstepMean_affine n r x a t pm ps j (by linarith)⟩

/-- The quantities of the update that do not look at the data at all (Dirichlet parameter, dof,
    shrinkage) are invariant under any map of the data. -/
theorem bgmm_update_counts_data_free (hard : Bool) (n : Nat) (r : Nat → Rat) (pw pdof ps : Rat) :
    conjWeight n r pw = pop n r + pw ∧ conjDof hard n r pdof = pdof + pop n r + (if hard then 1 else 0) ∧
      conjShrink n r ps = ps + pop n r := ⟨rfl, rfl, rfl⟩

/-! ## Alternative implementations of the update agree -/

/-- Clause "the alternative implementations of the same quantity agree": the regularised covariance
    of `GMM._Mstep` (full precision) is the conjugate inverse scale of `VBGMM._Mstep` for the diagonal
    prior, divided by `prior_dof + pop + dim + 2`. -/
theorem gmm_mstep_is_scaled_conjugate_update (tiny : Rat) (n d : Nat) (r : Nat → Rat)
    (x : Nat → Nat → Rat) (pm ips : Nat → Rat) (ps pdof : Rat) (j l : Nat) :
    mstepCovFull tiny n d r x pm ips ps pdof j l
      = conjCov (rpopSoft tiny (pop n r)) n r x pm (diagMat ips) ps j l / (pdof + pop n r + d + 2) := by
  unfold mstepCovFull conjCov scatterR empCovFull empMeanR empMean rpopSoft diagMat
  rfl

/-- … and the Gibbs update (`BGMM.update_precisions`, hard labels) is the variational one
    (`VBGMM._Mstep`) evaluated at the 0/1 memberships of the labelling — for every class, an empty one
    included (`tiny ≤ 1`). -/
theorem gibbs_update_is_vb_update_at_hard_memberships (tiny : Rat) (n : Nat) (z : Nat → Nat) (k : Nat)
    (x : Nat → Nat → Rat) (pm : Nat → Rat) (ips : Nat → Nat → Rat) (ps : Rat) (ht1 : tiny ≤ 1)
    (j l : Nat) :
    let r := hardResp z k
    conjCov (rpopHard (pop n r)) n r x pm ips ps j l = conjCov (rpopSoft tiny (pop n r)) n r x pm ips ps j l := by
  intro r
  have hnn : ∀ i, i < n → 0 ≤ r i := fun i _ => hardResp_nonneg z k i
  by_cases hp : pop n r = 0
  · have hz := resp_zero_of_pop_zero hnn hp
    rw [conjCov_of_resp_zero _ _ _ _ _ j l hz, conjCov_of_resp_zero _ _ _ _ _ j l hz]
  · -- a non-empty class of a hard labelling has population ≥ 1 ≥ tiny
    have hone : 1 ≤ pop n r := by
      by_contra hlt
      apply hp
      apply pop_zero_of_resp_zero
      intro i hi
      by_contra hne
      have hri : r i = 1 := by
        have : r i = (if z i = k then 1 else 0) := rfl
        rw [this] at hne ⊢
        split_ifs at hne ⊢ with h
        · rfl
        · exact absurd rfl hne
      have hle : r i ≤ pop n r := by
        unfold pop
        rw [sumTo_eq_sum]
        exact Finset.single_le_sum (f := r) (fun i hi => hnn i (Finset.mem_range.mp hi))
          (Finset.mem_range.mpr hi)
      rw [hri] at hle
      exact hlt hle
    have h1 : rpopHard (pop n r) = pop n r := by unfold rpopHard; rw [if_neg hp]
    have h2 : rpopSoft tiny (pop n r) = pop n r := max_eq_left (le_trans ht1 hone)
    rw [h1, h2]

/-! ## Memberships are unchanged -/

/-- Clause "… leaving memberships unchanged", translation: with the precision unchanged and the mean
    translated (previous theorems), the weighted likelihoods — `f` is the exponential applied by the
    implementation — and hence the memberships of every sample are *identical*. -/
theorem memberships_translation_invariant (f : Rat → Rat) (tiny : Rat) (K d : Nat) (l2 : Rat)
    (ld w : Nat → Rat) (b : Nat → Nat → Nat → Rat) (m : Nat → Nat → Rat) (x t : Nat → Rat) (k : Nat) :
    respRow tiny K (fun c => f (logLikeB d l2 (ld c) (b c) (fun j => m c j + t j) (fun j => x j + t j)) * w c) k
      = respRow tiny K (fun c => f (logLikeB d l2 (ld c) (b c) (m c) x) * w c) k := by
  simp only [loglike_translation_invariant]

/-- Rescaling: the quadratic form of the rescaled sample under the rescaled precision
    `B'[j,l] = B[j,l] / (a_j a_l)` is the original one. -/
theorem quadform_rescale_invariant (d : Nat) (b : Nat → Nat → Rat) (a v : Nat → Rat)
    (ha : ∀ j, j < d → a j ≠ 0) :
    quadB d (unscaleMat a b) (fun j => a j * v j) = quadB d b v := by
  unfold quadB unscaleMat
  apply sumTo_congr; intro i hi
  have hai := ha i hi
  have e : sumTo d (fun j => b i j / (a i * a j) * (a j * v j)) = sumTo d (fun j => b i j * v j) / a i := by
    rw [← sumTo_div]
    apply sumTo_congr; intro j hj
    have := ha j hj
    field_simp
  show a i * v i * sumTo d (fun j => b i j / (a i * a j) * (a j * v j)) = _
  rw [e]
  field_simp

/-- … and `B'` is the inverse of the rescaled covariance `C'[j,l] = a_j a_l C[j,l]` whenever `B` is the
    inverse of `C` (so the fitted precision after rescaling the data *is* `B'`). -/
theorem inverse_rescale (d : Nat) (c b : Nat → Nat → Rat) (a : Nat → Rat) (ha : ∀ j, j < d → a j ≠ 0)
    (h : IsInvTo d c b) : IsInvTo d (scaleMat a c) (unscaleMat a b) := by
  intro i hi l hl
  have hil := h i hi l hl
  unfold matMulTo at hil ⊢
  unfold scaleMat unscaleMat
  have hai := ha i hi
  have hal := ha l hl
  rw [show sumTo d (fun j => a i * a j * c i j * (b j l / (a j * a l)))
      = sumTo d (fun j => c i j * b j l * (a i / a l)) from
    sumTo_congr (fun j hj => by have := ha j hj; field_simp)]
  rw [sumTo_mul_right, hil]
  by_cases e : i = l
  · subst e; simp [hai]
  · simp [e]

/-- memberships under a common positive factor of the likelihood row (what a per-axis rescaling does:
    every component density is divided by `Π|a_j|`) — **partial**: exact only for the unregularised
    normaliser (`tiny = 0`); with `tiny = 1e-15` the memberships move by `O(tiny / Σ row)`, which the
    oracle bounds numerically. -/
theorem memberships_rescale_invariant_partial (K : Nat) (row : Nat → Rat) (c : Rat) (hc : c ≠ 0) (k : Nat) :
    respRow 0 K (fun j => c * row j) k = respRow 0 K row k := by
  unfold respRow
  rw [sumTo_mul_left]
  simp only [zero_div, add_zero]
  by_cases hs : sumTo K row = 0
  · simp [hs]
  · field_simp

/-! ## Variational pseudo-likelihood -/

/-- `VBGMM._Estep` computes a Gaussian log-likelihood skeleton with precision `dof·scale` and the
    log-determinant replaced by `2·c0 − dim/shrinkage` (same code path as `GMM.unweighted_likelihood_`). -/
theorem vb_estep_is_gaussian_exponent (d : Nat) (c0 l2 s f : Rat) (scale : Nat → Nat → Rat) (m x : Nat → Rat) :
    logLikeVB d c0 l2 s f scale m x = logLikeA d l2 (2 * c0 - d / s) (fun i j => f * scale i j) m x := by
  unfold logLikeVB logLikeA logDens
  ring

theorem vb_estep_translation_invariant (d : Nat) (c0 l2 s f : Rat) (scale : Nat → Nat → Rat)
    (m x t : Nat → Rat) :
    logLikeVB d c0 l2 s f scale (fun j => m j + t j) (fun j => x j + t j) = logLikeVB d c0 l2 s f scale m x := by
  have e : (fun j => (m j + t j) - (x j + t j)) = fun j => m j - x j := by funext j; ring
  unfold logLikeVB
  simp only [e]

/-! ## `IMM.update_weights` -/

/-- the weights of the infinite mixture (the `K` classes and the "new class" entry) are on the simplex -/
theorem imm_weights_sum_to_one (K : Nat) (alpha : Rat) (pops : Nat → Rat) (ha : 0 < alpha)
    (hp : ∀ k, k < K → 0 ≤ pops k) : sumTo (K + 1) (immWeight K alpha pops) = 1 := by
  unfold immWeight
  rw [sumTo_div]
  apply div_self
  have : 0 < sumTo (K + 1) (fun k' => (if k' < K then pops k' else 0) + alpha) := by
    rw [sumTo_add, sumTo_const]
    have h1 : 0 ≤ sumTo (K + 1) (fun k' => if k' < K then pops k' else 0) :=
      sumTo_nonneg (fun k _ => by split_ifs with h; exact hp k h; exact le_refl _)
    have h2 : (0 : Rat) < ((K + 1 : Nat) : Rat) * alpha := by positivity
    linarith
  exact ne_of_gt this

theorem imm_weights_nonneg (K : Nat) (alpha : Rat) (pops : Nat → Rat) (ha : 0 < alpha)
    (hp : ∀ k, k < K → 0 ≤ pops k) (k : Nat) : 0 ≤ immWeight K alpha pops k := by
  unfold immWeight
  apply div_nonneg
  · split_ifs with h
    · have := hp k h; linarith
    · linarith
  · rw [sumTo_add, sumTo_const]
    have h1 : 0 ≤ sumTo (K + 1) (fun k' => if k' < K then pops k' else 0) :=
      sumTo_nonneg (fun k _ => by split_ifs with h; exact hp k h; exact le_refl _)
    have h2 : (0 : Rat) ≤ ((K + 1 : Nat) : Rat) * alpha := by positivity
    linarith

/-! ## Parameter caches: after any history the likelihood is a function of the current parameters -/

/-- the method table generated from bgmm.py / gmm.py / imm.py obeys "whoever writes `precisions`
    recomputes `_detp` afterwards" — re-checked against the source text on every run. -/
theorem detp_discipline_holds : Gen.C13.methods.all detpDiscipline = true := by decide

/-- … and, for `BGMM` / `VBGMM`, "whoever writes `prior_scale` recomputes `_dets` and `_inv_prior_scale`". -/
theorem prior_discipline_holds : Gen.C13.methods.all priorDiscipline = true := by decide

/-- Clause "likelihoods … equal the density of their *current* parameters", cache part: for every
    operation history on one object (any API methods of the table, any new parameter values, from
    the blank object on), the cached `_detp` is the determinant of the current `precisions`. -/
theorem cache_coherent_after_history {P D : Type} (det : P → D) (inv : P → P)
    (h : List (Gen.C13.Meth × P × P)) (hm : ∀ e ∈ h, e.1 ∈ Gen.C13.methods) :
    detpCoherent det (runCache det inv Cache.blank h) := by
  have gen : ∀ (h : List (Gen.C13.Meth × P × P)) (s : Cache P D), (∀ e ∈ h, e.1 ∈ Gen.C13.methods) →
      detpCoherent det s → detpCoherent det (runCache det inv s h) := by
    intro h
    induction h with
    | nil => intro s _ hs; exact hs
    | cons e rest ih =>
        intro s hm hs
        obtain ⟨m, p, q⟩ := e
        simp only [runCache]
        apply ih _ (fun e he => hm e (List.mem_cons_of_mem _ he))
        have hmem : m ∈ Gen.C13.methods := hm (m, p, q) (List.mem_cons_self ..)
        exact stepCache_detp det inv m p q s (List.all_eq_true.mp detp_discipline_holds m hmem) hs
  exact gen h Cache.blank hm rfl

/-- the same for the prior caches of `BGMM` / `VBGMM` objects -/
theorem prior_cache_coherent_after_history {P D : Type} (det : P → D) (inv : P → P)
    (h : List (Gen.C13.Meth × P × P)) (hm : ∀ e ∈ h, e.1 ∈ Gen.C13.methods ∧ e.1.core = true) :
    priorCoherent det inv (runCache det inv Cache.blank h) := by
  have gen : ∀ (h : List (Gen.C13.Meth × P × P)) (s : Cache P D),
      (∀ e ∈ h, e.1 ∈ Gen.C13.methods ∧ e.1.core = true) →
      priorCoherent det inv s → priorCoherent det inv (runCache det inv s h) := by
    intro h
    induction h with
    | nil => intro s _ hs; exact hs
    | cons e rest ih =>
        intro s hm hs
        obtain ⟨m, p, q⟩ := e
        simp only [runCache]
        apply ih _ (fun e he => hm e (List.mem_cons_of_mem _ he))
        obtain ⟨hmem, hcore⟩ := hm (m, p, q) (List.mem_cons_self ..)
        have hd := List.all_eq_true.mp prior_discipline_holds m hmem
        unfold priorDiscipline at hd
        rw [hcore] at hd
        exact stepCache_prior det inv m p q s (by simpa using hd) hs
  exact gen h Cache.blank hm ⟨rfl, rfl⟩

/-- hence whatever `probability_under_prior` / `conditional_posterior_proba` compute from parameters
    *and* caches (`F`), after any history they return the value determined by the current parameters
    alone. -/
theorem likelihood_function_of_current_parameters {P D R : Type} (det : P → D) (inv : P → P)
    (F : Option P → Option D → Option P → Option D → Option P → R)
    (h : List (Gen.C13.Meth × P × P)) (hm : ∀ e ∈ h, e.1 ∈ Gen.C13.methods ∧ e.1.core = true) :
    likeCached F (runCache det inv Cache.blank h) = likeSpec det inv F (runCache det inv Cache.blank h) := by
  have h1 := cache_coherent_after_history det inv h (fun e he => (hm e he).1)
  have h2 := prior_cache_coherent_after_history det inv h hm
  unfold likeCached likeSpec
  unfold detpCoherent at h1
  unfold priorCoherent at h2
  rw [h1, h2.1, h2.2]

/-! ## Non-vacuity -/

-- an empty class exists for a hard labelling (two samples, both in class 0; class 1 is empty)
example : pop 2 (hardResp (fun _ => 0) 1) = 0 := by simp [pop, sumTo, hardResp]
-- … and a non-empty one
example : pop 2 (hardResp (fun _ => 0) 0) = 2 := by simp [pop, sumTo, hardResp]; norm_num
-- the hypotheses of the VB theorem are satisfiable
example : (0 : Rat) < 1 / 1000 ∧ (1 / 1000 : Rat) ≤ pop 2 (fun _ => 1 / 2) := by
  simp [pop, sumTo]; norm_num
-- an inverse pair for `inverse_rescale`
example : IsInvTo 1 (fun _ _ => 2) (fun _ _ => 1 / 2) := by
  intro i hi l hl
  have : i = 0 := by omega
  have : l = 0 := by omega
  subst_vars
  simp [matMulTo, sumTo]
-- the method table contains a writer of `precisions` (so the discipline is not vacuous)
example : Gen.C13.methods.any (fun m => m.wPrec && m.rDetp) = true := by decide
example : Gen.C13.methods.any (fun m => m.core && m.wPScale && m.rDets && m.rIps) = true := by decide
-- a stale-cache table would be rejected: a writer without refresh breaks coherence in one step
example : ¬ detpCoherent (fun n : Nat => n + 1)
    (stepCache (fun n : Nat => n + 1) id ⟨"X", "plugin", true, true, false, false, false, false⟩ 5 0
      ⟨some 1, some 2, none, none, none⟩) := by
  simp [detpCoherent, stepCache]

end NipyVerif.C13
