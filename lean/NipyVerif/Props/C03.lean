/-
C03 — property theorems about the model in `NipyVerif.Model.C03`
(`nipy2nifti`, `_find_time_like`, `nifti2nipy`).  `orient` (io_orientation)
and `sq` (np.sqrt) are universally quantified parameters throughout.
-/
import NipyVerif.Lemmas.C03

namespace NipyVerif.C03

variable (strict fix : Bool) (orient : Mat → List (Option Nat)) (sq : Rat → Rat)

/-! ## Refusals: geometry NIfTI cannot express is never written -/

/-- Clause "non-spatial axes coupled to space": any entry above `allclose`'s tolerance
    between a spatial and a non-spatial axis (either direction) makes `nipy2nifti` raise. -/
theorem refuses_space_coupled (g : Img)
    (h : ∃ r c, r < g.n - 3 ∧ c < 3 ∧
      (atol < rabs (entry g.aff (r + 3) c) ∨ atol < rabs (entry g.aff c (r + 3)))) :
    body strict fix orient sq g = .error (.nifti .spaceCoupled) := by
  have hd : spaceDecoupled g = false := by
    by_contra hne
    have ht : spaceDecoupled g = true := by simpa using hne
    obtain ⟨r, c, hr, hc, hrc⟩ := h
    have := (spaceDecoupled_iff g).1 ht r c hr hc
    rcases hrc with h1 | h1
    · exact absurd this.1 (not_le.mpr h1)
    · exact absurd this.2 (not_le.mpr h1)
  unfold body; simp [hd]

/-- Clause "non-spatial axes coupled to each other": two entries above `TINY` in one
    column (or one row) of the non-spatial block make `nipy2nifti` raise — at the site
    'Non space axes not orthogonal to each other' when the space check passed, at the site of the
    space check otherwise. -/
theorem refuses_nonspace_coupled (g : Img) (a b c : Nat)
    (ha : a < g.n - 3) (hb : b < g.n - 3) (hc : c < g.n - 3) (hab : a ≠ b)
    (h : (tiny < rabs (entry g.aff (a + 3) (c + 3)) ∧ tiny < rabs (entry g.aff (b + 3) (c + 3))) ∨
         (tiny < rabs (entry g.aff (c + 3) (a + 3)) ∧ tiny < rabs (entry g.aff (c + 3) (b + 3)))) :
    body strict fix orient sq g =
      .error (.nifti (if spaceDecoupled g = true then .nonspaceCoupled else .spaceCoupled)) := by
  have hn : nspCoupled g = true := by
    unfold nspCoupled
    simp only [Bool.or_eq_true, List.any_eq_true, List.mem_range, decide_eq_true_eq]
    rcases h with ⟨h1, h2⟩ | ⟨h1, h2⟩
    · exact Or.inl ⟨c, hc, two_le_filter_length _ _ a b ha hb hab (by simpa using h1) (by simpa using h2)⟩
    · exact Or.inr ⟨c, hc, two_le_filter_length _ _ a b ha hb hab (by simpa using h1) (by simpa using h2)⟩
  unfold body
  by_cases hd : spaceDecoupled g = true <;> simp [hd, hn]

/-- Acceptance implies decoupling: whenever a header is produced, every space/non-space
    entry is within `allclose`'s absolute tolerance of zero. -/
theorem accept_implies_decoupled (g : Img) (h : Hdr)
    (hb : body strict fix orient sq g = .ok h) (r c : Nat) (hr : r < g.n - 3) (hc : c < 3) :
    rabs (entry g.aff (r + 3) c) ≤ atol ∧ rabs (entry g.aff c (r + 3)) ≤ atol :=
  (spaceDecoupled_iff g).1 (body_ok_inv hb).1 r c hr hc

/-- Clause "unrecognised world" (1): when no output name is the x axis of a known space
    the image cannot be reordered to XYZ and `nipy2nifti` raises. -/
theorem refuses_without_xyz_names (g : Img)
    (h : ∀ nm ∈ g.outNames, name2xyz strict nm ≠ some 0) :
    nipy2nifti strict fix orient sq g = .error (.nifti .reorder) := by
  have hx := xyzOrder_none_of_no_x strict g.outNames h
  unfold nipy2nifti asXyzImage xyzAffine
  simp [hx]

/-- Clause "unrecognised world" (2): xyz names that belong to none of scanner / aligned /
    talairach / mni / unknown (and are not the plain `x y z` of non-strict mode) are refused. -/
theorem refuses_unrecognised_world (g : Img)
    (h4 : ∀ p ∈ xformSpaces, inSpace (g.outNames.take 3) p.1 = false)
    (hplain : strict = true ∨ g.outNames.take 3 ≠ ["x", "y", "z"])
    (hunk : inSpace (g.outNames.take 3) "unknown" = false) :
    ∃ e, body strict fix orient sq g = .error e :=
  body_refuses_of_spaceCodes strict fix orient sq g
    (fun xyz => ⟨_, spaceCodes_unrecognised strict sq g xyz h4 hplain hunk⟩)

/-- Clause "too many dimensions": more than 7 axes are never written. -/
theorem refuses_too_many_dims (g : Img) (hn : 7 < g.n) :
    ∃ e, body strict fix orient sq g = .error e := by
  cases hb : body strict fix orient sq g with
  | error e => exact ⟨e, rfl⟩
  | ok hd =>
    obtain ⟨_, _, xyz, sf, qf, _, _, hle, _⟩ := body_ok_inv hb
    omega

/-- Clause "too many dimensions" (2): seven axes without a time-like axis would need an
    eighth (the inserted length-1 axis) and are refused. -/
theorem refuses_seven_dims_without_time (g : Img) (hn : g.n = 7)
    (ht : findTimeLike orient fix g = .ok none) :
    ∃ e, body strict fix orient sq g = .error e := by
  cases hb : body strict fix orient sq g with
  | error e => exact ⟨e, rfl⟩
  | ok hd =>
    obtain ⟨_, _, xyz, sf, qf, _, _, hle, hcase⟩ := body_ok_inv hb
    rcases hcase with ⟨h0, _⟩ | ⟨_, hf⟩
    · omega
    · rw [ht] at hf
      rcases finish_ok_inv hf with ⟨_, h4, _⟩ | ⟨tl, htl, _⟩
      · omega
      · cases htl

/-- Clause "contradictory time-like axes": whenever `_find_time_like` raises, nothing is written. -/
theorem refuses_contradictory_time (g : Img) (e : Err) (hn : 3 < g.n)
    (ht : findTimeLike orient fix g = .error e) :
    ∃ e', body strict fix orient sq g = .error e' := by
  cases hb : body strict fix orient sq g with
  | error e => exact ⟨e, rfl⟩
  | ok hd =>
    obtain ⟨_, _, xyz, sf, qf, _, _, hle, hcase⟩ := body_ok_inv hb
    rcases hcase with ⟨h0, _⟩ | ⟨_, hf⟩
    · omega
    · rw [ht] at hf
      rcases finish_ok_inv hf with ⟨h1, _, _⟩ | ⟨tl, htl, _⟩ <;> simp_all

/-- Clause "time offset without matching output": a `t` input axis with no matching output
    axis and a non-zero non-spatial translation is refused (the offset has nowhere to go). -/
theorem refuses_toffset_without_output (g : Img) (i : Nat)
    (ht : findTimeLike orient fix g = .ok (some ⟨i, none, "t"⟩))
    (hoff : ∃ r, r < g.n - 3 ∧ entry g.aff (r + 3) g.n ≠ 0) :
    ∃ e, body strict fix orient sq g = .error e := by
  cases hb : body strict fix orient sq g with
  | error e => exact ⟨e, rfl⟩
  | ok hd =>
    obtain ⟨_, _, xyz, sf, qf, _, _, hle, hcase⟩ := body_ok_inv hb
    rcases hcase with ⟨h0, _⟩ | ⟨_, hf⟩
    · omega
    · rw [ht] at hf
      rcases finish_ok_inv hf with ⟨h1, _, _⟩ | ⟨tl, htl, hno, _⟩
      · cases h1
      · have : tl = ⟨i, none, "t"⟩ := by cases htl; rfl
        subst this
        refine absurd ⟨rfl, ?_, rfl⟩ hno
        obtain ⟨r, hr, hne⟩ := hoff
        unfold anyTrans
        simp only [List.any_eq_true, List.mem_map, List.mem_range, decide_eq_true_eq]
        exact ⟨_, ⟨r, hr, rfl⟩, hne⟩

/-! ## Round trip of expressible images (`nifti2nipy (nipy2nifti img)`)

`g` is the image after `as_xyz_image`.  The loaded image's affine is the block product of
`g`'s xyz affine, the column norms of the non-spatial block (time-like axis first, the
others in their order) and the time offset; shape and data axes are `g`'s, rolled the same way. -/

/-- Round trip without time-like axis: the inserted length-1 axis is squeezed again; shape,
    data axes, xyz affine and the extra scalings (in order) come back, in the same named
    space (`worldOf h` is the space of the codes written), extra axes named `u v w`. -/
theorem roundtrip_no_time (g : Img) (h : Hdr) (hshape : g.shape.length = g.n)
    (haxes : g.axes.length = g.n) (hn : 3 < g.n)
    (hb : body strict fix orient sq g = .ok h) (ht : findTimeLike orient fix g = .ok none) :
    ∃ g', nifti2nipy h = .ok g' ∧ g'.shape = g.shape ∧ g'.axes = g.axes ∧
      g'.aff = productAffine (xyzBlock g) (pixdims sq g) (List.replicate (g.n - 3) 0) ∧
      g'.outNames = spaceTuple (worldOf h) ++ ["u", "v", "w"].take (g.n - 3) ∧
      g'.inNames.drop 3 = ["u", "v", "w"].take (g.n - 3) := by
  obtain ⟨_, _, xyz, sf, qf, hx, _, hle, hcase⟩ := body_ok_inv hb
  have hxyz := xyzAffine_some hx
  rcases hcase with ⟨h0, _⟩ | ⟨_, hf⟩
  · omega
  rw [ht] at hf
  rcases finish_ok_inv hf with ⟨_, h4, hh⟩ | ⟨tl, htl, _⟩
  swap
  · cases htl
  subst hh
  refine ⟨_, nifti2nipy_noTimeHdr g xyz sf qf _ hshape hn, ?_, ?_, ?_, ?_, ?_⟩
  · exact eraseIdx_insert3 _ _ (by omega)
  · exact eraseIdx_insert3 _ _ (by omega)
  · subst hxyz
    exact productAffine_congr _ _ _ _ (fun r c hr hc => entry_xyzRows _ r c hr hc)
  · rfl
  · exact List.drop_left' (in3Of_length _)

/-- Round trip with a time-like axis: it becomes axis 3 under its canonical name (data, shape
    and scalings rolled consistently), the other axes keep their order, the xyz affine is
    unchanged and the time offset `toffsetOf` (`affine[out_ax, -1]` for a `t` axis) is kept. -/
theorem roundtrip_time (g : Img) (h : Hdr) (tl : TL) (hshape : g.shape.length = g.n)
    (hn : 3 < g.n) (hj : tl.inAx - 3 < g.n - 3) (hname : tl.name ∈ tlOrdered)
    (hb : body strict fix orient sq g = .ok h)
    (ht : findTimeLike orient fix g = .ok (some tl)) :
    ∃ g', nifti2nipy h = .ok g' ∧
      g'.shape = g.shape.take 3 ++ pick 0 (g.shape.drop 3) (rollOrder (g.n - 3) (tl.inAx - 3)) ∧
      g'.axes = g.axes.take 3 ++ pick none (g.axes.drop 3) (rollOrder (g.n - 3) (tl.inAx - 3)) ∧
      g'.aff = productAffine (xyzBlock g) (pick 0 (pixdims sq g) (rollOrder (g.n - 3) (tl.inAx - 3)))
                 (toffsetOf g tl :: List.replicate (g.n - 4) 0) ∧
      g'.outNames = spaceTuple (worldOf h) ++ (tl.name :: ["u", "v", "w"]).take (g.n - 3) ∧
      g'.inNames.drop 3 = (tl.name :: ["u", "v", "w"]).take (g.n - 3) := by
  obtain ⟨_, _, xyz, sf, qf, hx, _, hle, hcase⟩ := body_ok_inv hb
  have hxyz := xyzAffine_some hx
  rcases hcase with ⟨h0, _⟩ | ⟨_, hf⟩
  · omega
  rw [ht] at hf
  rcases finish_ok_inv hf with ⟨h1, _, _⟩ | ⟨tl', htl, _, hh⟩
  · cases h1
  have : tl' = tl := by cases htl; rfl
  subst this
  subst hh
  refine ⟨_, nifti2nipy_timeHdr g xyz sf qf _ tl' hshape hn hj hname, rfl, rfl, ?_, rfl, ?_⟩
  · subst hxyz
    exact productAffine_congr _ _ _ _ (fun r c hr hc => entry_xyzRows _ r c hr hc)
  · exact List.drop_left' (in3Of_length _)

/-- Round trip of a 3-D image: shape, data axes, xyz affine and named space come back. -/
theorem roundtrip_3d (g : Img) (h : Hdr) (hshape : g.shape.length = 3) (hn : g.n = 3)
    (hb : body strict fix orient sq g = .ok h) :
    ∃ g', nifti2nipy h = .ok g' ∧ g'.shape = g.shape ∧ g'.axes = g.axes ∧
      g'.aff = productAffine (xyzBlock g) [] [] ∧ g'.outNames = spaceTuple (worldOf h) := by
  obtain ⟨_, _, xyz, sf, qf, hx, _, hle, hcase⟩ := body_ok_inv hb
  have hxyz := xyzAffine_some hx
  rcases hcase with ⟨h0, hh⟩ | ⟨h0, _⟩
  swap
  · omega
  subst hh
  refine ⟨{ inNames := in3Of (header0 g xyz sf qf), outNames := spaceTuple (worldOf (header0 g xyz sf qf)),
            aff := productAffine (xyzRows xyz) [] [], shape := g.shape, axes := g.axes }, ?_, rfl, rfl, ?_, rfl⟩
  · unfold nifti2nipy
    simp only [header0, hshape]
    simp [worldOf, in3Of, xyzRows]
    by_cases hsf : sf = 0 <;> simp [hsf]
  · subst hxyz
    exact productAffine_congr _ _ _ _ (fun r c hr hc => entry_xyzRows _ r c hr hc)

/-- "attached to the same x, y, z world positions": the loaded affine (any zooms/offsets of
    the non-spatial part) has exactly `g`'s xyz block and xyz translation. -/
theorem loaded_affine_keeps_xyz (g : Img) (z t : List Rat) (r c : Nat) (hr : r < 3) (hc : c < 3) :
    entry (productAffine (xyzBlock g) z t) r c = entry g.aff r c ∧
    entry (productAffine (xyzBlock g) z t) r (3 + z.length) = entry g.aff r g.n := by
  rw [productAffine_xyz _ _ _ r c hr hc, productAffine_trans _ _ _ r hr]
  have h3 : List.range 3 = [0, 1, 2] := rfl
  constructor
  · interval_cases r <;> interval_cases c <;> simp [xyzBlock, entry, h3, List.getD_eq_getElem?_getD]
  · interval_cases r <;> simp [xyzBlock, entry, h3, List.getD_eq_getElem?_getD]

/-! ## `_find_time_like` -/

/-- `find_time_like_total`: whatever the names and the axis matching, the loop returns
    nothing, refuses, or returns one of the canonical names it was asked about. -/
theorem findTL_name_mem (inames onames : List (Option String)) (in2out out2in : List (Option Nat))
    (names : List String) (tl : TL)
    (h : findTLLoop inames onames in2out out2in names = .ok (some tl)) : tl.name ∈ names := by
  induction names with
  | nil => simp [findTLLoop] at h
  | cons nm rest ih =>
    unfold findTLLoop at h
    simp only [] at h
    split at h
    · split at h
      · split at h
        · split_ifs at h; cases h; simp
        · split_ifs at h; cases h; simp
      · split at h
        · cases h
        · split at h
          · cases h
          · cases h; simp
          · cases h
    · split at h
      · split at h
        · exact List.mem_cons_of_mem _ (ih h)
        · split at h
          · cases h
          · cases h; simp
          · cases h
      · exact List.mem_cons_of_mem _ (ih h)

/-- the time-like name `nipy2nifti` works with is one of `t, hz, ppm, rads`, so the
    hypothesis `hname` of `roundtrip_time` always holds -/
theorem find_time_like_canonical_name (g : Img) (tl : TL)
    (h : findTimeLike orient fix g = .ok (some tl)) : tl.name ∈ tlOrdered :=
  findTL_name_mem _ _ _ _ _ tl h

/-! ## Every `raise NiftiError` site of the source is a live branch of the model -/

/-- when the checks before it pass, more than four non-spatial axes stop at the site
    'Too many dimensions to convert' (first occurrence) -/
theorem too_many_dims_site (g : Img) (xyz : Mat) (c : Nat × Nat) (hn : 7 < g.n)
    (hd : spaceDecoupled g = true) (hc : nspCoupled g = false)
    (hx : xyzAffine strict orient g = some xyz) (hs : spaceCodes strict sq g xyz = .ok c) :
    body strict fix orient sq g = .error (.nifti .tooMany) := by
  unfold body
  have h1 : ¬ g.n - 3 = 0 := by omega
  have h2 : g.n - 3 > 4 := by omega
  simp only [hd, hc, hx, hs, Bool.not_true, Bool.false_eq_true, if_false, if_neg h1, if_pos h2]

/-- seven axes, no time-like axis: the second 'Too many dimensions to convert' -/
theorem seven_dims_without_time_site (g : Img) (xyz : Mat) (c : Nat × Nat) (hn : g.n = 7)
    (hd : spaceDecoupled g = true) (hc : nspCoupled g = false)
    (hx : xyzAffine strict orient g = some xyz) (hs : spaceCodes strict sq g xyz = .ok c)
    (ht : findTimeLike orient fix g = .ok none) :
    body strict fix orient sq g = .error (.nifti .tooManyNoTime) := by
  unfold body
  have h1 : ¬ g.n - 3 = 0 := by omega
  have h2 : ¬ g.n - 3 > 4 := by omega
  have h3 : g.n - 3 = 4 := by omega
  simp only [hd, hc, hx, hs, Bool.not_true, Bool.false_eq_true, if_false, if_neg h1, if_neg h2, ht, finish,
    if_pos h3]

/-- an orientation function good enough for permutation-like affines: for every input axis the
    first output row with a non-zero entry -/
def firstNonzeroOrient (m : Mat) : List (Option Nat) :=
  (List.range (m.length - 1)).map (fun c => (List.range (m.length - 1)).find? (fun r => entry m r c ≠ 0))

def mniOut (extra : List String) : List String := spaceTuple "mni" ++ extra

/-- `diag(d) ` with translation column `t` as an (n+1)×(n+1) homogeneous affine -/
def diagAff (d t : List Rat) : Mat :=
  (List.range d.length).map (fun r => (List.range d.length).map (fun c => if r = c then d.getD r 0 else 0) ++ [t.getD r 0])
    ++ [List.replicate d.length 0 ++ [1]]

def mkImg (ins outs : List String) (aff : Mat) : Img :=
  { inNames := ins, outNames := outs, aff := aff, shape := List.replicate ins.length 2,
    axes := (List.range ins.length).map some }

/-- one image per `raise` site of `nipy2nifti` / `_find_time_like` (with the `fix0` flag to use) -/
def siteWitness : Site → Bool × Img
  | .reorder => (true, mkImg ["i", "j", "k"] ["a", "b", "c"] (diagAff [2, 3, 4] [0, 0, 0]))
  | .spaceCoupled => (true, mkImg ["i", "j", "k", "t"] (mniOut ["t"])
      [[2, 0, 0, 0, 0], [0, 3, 0, 0, 0], [0, 0, 4, 0, 0], [1, 0, 0, 5, 0], [0, 0, 0, 0, 1]])
  | .nonspaceCoupled => (true, mkImg ["i", "j", "k", "t", "l"] (mniOut ["t", "u"])
      [[2, 0, 0, 0, 0, 0], [0, 3, 0, 0, 0, 0], [0, 0, 4, 0, 0, 0], [0, 0, 0, 5, 1, 0], [0, 0, 0, 0, 6, 0],
       [0, 0, 0, 0, 0, 1]])
  | .world => (true, mkImg ["i", "j", "k"] [xyzName "mni" 0, xyzName "scanner" 1, xyzName "mni" 2]
      (diagAff [2, 3, 4] [0, 0, 0]))
  | .unknownAffine => (true, mkImg ["i", "j", "k"] (spaceTuple "unknown") (diagAff [1, 1, 1] [0, 0, 0]))
  | .tooMany => (true, mkImg ["i", "j", "k", "t", "l", "m", "n", "o"] (mniOut ["t", "u", "v", "w", "q"])
      (diagAff [2, 3, 4, 1, 2, 3, 4, 5] [0, 0, 0, 0, 0, 0, 0, 0]))
  | .tooManyNoTime => (true, mkImg ["i", "j", "k", "l", "m", "n", "o"] (mniOut ["u", "v", "w", "q"])
      (diagAff [2, 3, 4, 1, 2, 3, 4] [0, 0, 0, 0, 0, 0, 0]))
  | .timeNoOutput => (false, mkImg ["i", "j", "k", "t"] (mniOut ["t"]) (diagAff [2, 3, 4, 0] [0, 0, 0, 14]))
  | .tlBothUnmatched => (false, mkImg ["i", "j", "k", "t", "l"] (mniOut ["t", "u"])
      [[2, 0, 0, 0, 0, 0], [0, 3, 0, 0, 0, 0], [0, 0, 4, 0, 0, 0], [0, 0, 0, 0, 1, 0], [0, 0, 0, 0, 0, 0],
       [0, 0, 0, 0, 0, 1]])
  | .tlBothMismatch => (true, mkImg ["i", "j", "k", "t", "l"] (mniOut ["u", "t"])
      (diagAff [2, 3, 4, 5, 6] [0, 0, 0, 0, 0]))
  | .tlInMatchesOther => (true, mkImg ["i", "j", "k", "t"] (mniOut ["hz"]) (diagAff [2, 3, 4, 5] [0, 0, 0, 0]))
  | .tlOutMatchesOther => (true, mkImg ["i", "j", "k", "hz"] (mniOut ["t"]) (diagAff [2, 3, 4, 5] [0, 0, 0, 0]))
  | .lt3d => (true, mkImg ["i", "j"] ["x", "y"] (diagAff [1, 1] [0, 0]))

/-- **every modelled refusal branch is live and lands on its own site**: for each `raise NiftiError`
    statement of `nipy2nifti` and `_find_time_like` there is an image on which the model raises
    exactly there (`raise_sites_modelled` in `Props/C03H` ties the list of sites to the source). -/
theorem every_site_reachable (s : Site) (hs : s ≠ .lt3d) :
    nipy2nifti true (siteWitness s).1 firstNonzeroOrient id (siteWitness s).2 = .error (.nifti s) := by
  cases s <;> first | exact absurd rfl hs | decide +kernel

/-- the site of `nifti2nipy` -/
theorem refuses_fewer_than_three_dims (h : Hdr) (hs : h.shape.length < 3) :
    nifti2nipy h = .error (.nifti .lt3d) := by
  unfold nifti2nipy
  simp [hs]

/-- and conversely a NIfTI image with at least three dimensions always loads -/
theorem loads_three_dims_and_more (h : Hdr) (hs : 3 ≤ h.shape.length) : ∃ g, nifti2nipy h = .ok g := by
  unfold nifti2nipy
  have : ¬ h.shape.length < 3 := by omega
  simp only [this, if_false]
  split_ifs <;> exact ⟨_, rfl⟩

/-! ## Non-vacuity -/

example : findTimeLike exOrient true exImg = .ok (some ⟨3, some 3, "t"⟩) := by decide +kernel
example : (finish exImg (header0 exImg (xyzBlock exImg) 4 4) [5 / 2]
      (.ok (some ⟨3, some 3, "t"⟩))).toOption.map
      (fun h => (h.toffset, h.sform, h.pixdim, h.tunits, h.shape)) =
    some (14, 4, [5 / 2], "sec", [2, 3, 4, 5]) := by decide +kernel
example : spaceDecoupled exImg = true ∧ nspCoupled exImg = false := by decide +kernel
example : exImg.shape.length = exImg.n ∧ 3 < exImg.n ∧ 3 - 3 < exImg.n - 3 := by decide
example : spaceCodes true id { exImg with outNames := ["foo-x", "foo-y", "foo-z", "t"] } [] =
    .error (.nifti .world) := by decide +kernel

end NipyVerif.C03
