/-
C16 (part P) — the cubic B-spline prefilter `_cubic_spline_transform1d`, run with the exact pole
`z1 = √3 − 2 ∈ ℚ(√3)`, solves the mirror-symmetric B-spline system EXACTLY, for every signal length
and every signal: `c[m(k−1)] + 4 c[k] + c[m(k+1)] = 6 s[k]` for all `k` — hence cubic-spline
interpolation reproduces the samples at the grid points.
-/
import NipyVerif.Lemmas.C16P
import NipyVerif.Props.C16
import NipyVerif.Props.C16S

namespace NipyVerif.C16

open Finset

section generic
variable (z cz : Q3) (hz : z * z + Q3.four * z + 1 = 0) (hcz : cz * (z * z - 1) = z)
include hz hcz

/-- `(2z + 4) cz = 1` and `(4z + 2) cz = −z`: consequences of `z² + 4z + 1 = 0`, `cz (z² − 1) = z` -/
theorem pole_units : (Q3.two * z + Q3.four) * cz = 1 ∧ (Q3.four * z + Q3.two) * cz = -z := by
  rw [Q3.four_eq] at hz
  rw [Q3.four_eq, Q3.two_eq]
  have hX : z * (((1 + 1) * z + (1 + 1 + 1 + 1)) * cz - 1) = 0 := by linear_combination cz * hz + hcz
  constructor
  · have : ((1 + 1) * z + (1 + 1 + 1 + 1)) * cz - 1 = 0 := by
      linear_combination (-(z + (1 + 1 + 1 + 1))) * hX + (((1 + 1) * z + (1 + 1 + 1 + 1)) * cz - 1) * hz
    linear_combination this
  · linear_combination cz * hz - hcz

/-- interior equations, for ANY initial causal value: `c(k−1) + 4 c(k) + c(k+1) = s(k)`, `1 ≤ k ≤ N−2` -/
theorem prefilter_interior (s : Array Q3) (c0 : Q3) (N k : Nat) (hk1 : 1 ≤ k) (hk2 : k + 2 ≤ N) :
    cminus z cz s c0 N (N - 1 - (k - 1)) + Q3.four * cminus z cz s c0 N (N - 1 - k)
      + cminus z cz s c0 N (N - 1 - (k + 1)) = sAt s k := by
  rw [Q3.four_eq] at hz ⊢
  obtain ⟨j, hj⟩ : ∃ j, N - 1 - (k + 1) = j := ⟨_, rfl⟩
  have e1 : N - 1 - k = j + 1 := by omega
  have e2 : N - 1 - (k - 1) = j + 2 := by omega
  rw [hj, e1, e2]
  have h1 : cminus z cz s c0 N (j + 1) = z * (cminus z cz s c0 N j - cplus z s c0 k) := by
    simp only [cminus]; congr 3; omega
  have h2 : cminus z cz s c0 N (j + 2) = z * (cminus z cz s c0 N (j + 1) - cplus z s c0 (k - 1)) := by
    simp only [cminus]; congr 3; omega
  have h3 : cplus z s c0 k = sAt s k + z * cplus z s c0 (k - 1) := by
    obtain ⟨k', rfl⟩ : ∃ k', k = k' + 1 := ⟨k - 1, by omega⟩
    simp [cplus]
  linear_combination h2 + h3 + (z + (1 + 1 + 1 + 1)) * h1 + (cminus z cz s c0 N j - cplus z s c0 k) * hz

/-- far-end equation (mirror about the last node), for ANY initial causal value:
    `2 c(N−2) + 4 c(N−1) = s(N−1)` -/
theorem prefilter_far_end (s : Array Q3) (c0 : Q3) (N : Nat) (hN : 2 ≤ N) :
    Q3.two * cminus z cz s c0 N 1 + Q3.four * cminus z cz s c0 N 0 = sAt s (N - 1) := by
  obtain ⟨hu, _⟩ := pole_units z cz hz hcz
  rw [Q3.four_eq, Q3.two_eq] at hu ⊢
  have hP : cplus z s c0 (N - 1) = sAt s (N - 1) + z * cplus z s c0 (N - 2) := by
    obtain ⟨n', rfl⟩ : ∃ n', N = n' + 2 := ⟨N - 2, by omega⟩
    simp [cplus]
  simp only [cminus, Nat.sub_zero, Q3.two_eq]
  rw [hP]
  linear_combination (sAt s (N - 1) + (1 + 1) * z * cplus z s c0 (N - 2)) * hu

/-- near-end equation (mirror about the first node) holds as soon as the initial causal value equals
    the backward-filtered value `d(0)`: `4 c(0) + 2 c(1) = s(0)` -/
theorem prefilter_near_end (s : Array Q3) (c0 : Q3) (N : Nat) (hN : 2 ≤ N)
    (hinit : c0 = dd z s c0 N (N - 1)) :
    Q3.four * cminus z cz s c0 N (N - 1) + Q3.two * cminus z cz s c0 N (N - 2) = sAt s 0 := by
  obtain ⟨hu1, hu2⟩ := pole_units z cz hz hcz
  rw [cminus_invariant z cz hcz s c0 N (N - 1) (by omega), cminus_invariant z cz hcz s c0 N (N - 2) (by omega)]
  have e0 : N - 1 - (N - 1) = 0 := by omega
  have e1 : N - 1 - (N - 2) = 1 := by omega
  have hd : dd z s c0 N (N - 1) = sAt s 0 + z * dd z s c0 N (N - 2) := by
    obtain ⟨n', rfl⟩ : ∃ n', N = n' + 2 := ⟨N - 2, by omega⟩
    show dd z s c0 (n' + 2) (n' + 1) = _
    simp only [dd]
    congr 2
    simp
  rw [e0, e1]
  simp only [cplus]
  rw [hd] at hinit ⊢
  rw [Q3.four_eq, Q3.two_eq] at hu1 hu2 ⊢
  linear_combination (c0) * hu1 + (dd z s c0 N (N - 2)) * hu2 + hinit

/-- the initial causal value of the code (`Σ s̃(k) z^k / (1 − z^{2N−2})`, exact division) IS the
    backward-filtered value: the condition of `prefilter_near_end` -/
theorem init_is_backward_value (s : Array Q3) (c0 : Q3) (N : Nat) (hN : 2 ≤ N)
    (hc0 : c0 * (1 - z ^ (2 * N - 2)) = psum z (fun k => sAt s (mirrorIdx N k)) (2 * N - 2)) :
    c0 = dd z s c0 N (N - 1) := by
  have h1 := dd_unroll z s c0 N (N - 1) (by omega)
  have h2 := cplus_unroll z s c0 N (N - 1) (by omega)
  have e : N - 1 - (N - 1) = 0 := by omega
  rw [e] at h1 h2
  simp only [dd, cplus] at h1 h2
  rw [h1, h2]
  have h3 := psum_mirror_split z s N hN
  have e2 : z ^ (2 * N - 2) = z ^ (N - 1) * z ^ (N - 1) := by rw [← pow_add]; congr 1; omega
  rw [e2] at hc0
  linear_combination hc0 + h3

end generic

/-! ## The code's constants -/

/-- the code's initial value, with the exact pole -/
theorem causalInit_spec (s : Array Q3) (N : Nat) (hN : 2 ≤ N) :
    causalInit Q3.z1 s N * (1 - Q3.z1 ^ (2 * N - 2)) =
      psum Q3.z1 (fun k => sAt s (mirrorIdx N k)) (2 * N - 2) := by
  unfold causalInit
  simp only
  rw [initLoop_eq]
  simp only
  have e : 2 * N - 3 + 1 = 2 * N - 2 := by omega
  have e2 : Q3.z1 * Q3.z1 ^ (2 * N - 3) = Q3.z1 ^ (2 * N - 2) := by rw [← pow_succ', e]
  rw [e, e2]
  exact Q3.div_mul_cancel' _ _ (Q3.norm_one_sub_z1_pow _ (by omega))

/-- **`spline_prefilter_exact`** — for every signal of length `N ≥ 2`, the stored coefficients
    `out(k) = 6 c(k)` of `_cubic_spline_transform1d` (exact pole) satisfy all `N` equations of the
    mirror-symmetric cubic B-spline system. -/
theorem spline_prefilter_exact (s : Array Q3) (N : Nat) (hN : 2 ≤ N) :
    let c := fun k => cminus Q3.z1 Q3.cz1 s (causalInit Q3.z1 s N) N (N - 1 - k)
    (Q3.four * c 0 + Q3.two * c 1 = sAt s 0) ∧
    (∀ k, 1 ≤ k → k + 2 ≤ N → c (k - 1) + Q3.four * c k + c (k + 1) = sAt s k) ∧
    (Q3.two * c (N - 2) + Q3.four * c (N - 1) = sAt s (N - 1)) := by
  intro c
  refine ⟨?_, ?_, ?_⟩
  · have := prefilter_near_end Q3.z1 Q3.cz1 Q3.z1_root Q3.cz1_spec s (causalInit Q3.z1 s N) N hN
      (init_is_backward_value Q3.z1 Q3.cz1 Q3.z1_root Q3.cz1_spec s _ N hN (causalInit_spec s N hN))
    have e : N - 1 - 1 = N - 2 := by omega
    simp only [c, e, Nat.sub_zero]
    exact this
  · intro k hk1 hk2
    exact prefilter_interior Q3.z1 Q3.cz1 Q3.z1_root Q3.cz1_spec s _ N k hk1 hk2
  · have := prefilter_far_end Q3.z1 Q3.cz1 Q3.z1_root Q3.cz1_spec s (causalInit Q3.z1 s N) N hN
    have e1 : N - 1 - (N - 2) = 1 := by omega
    have e0 : N - 1 - (N - 1) = 0 := by omega
    simp only [c, e1, e0]
    exact this

/-- a one-point axis: the coefficient is the sample -/
theorem spline_prefilter_exact_one (s : Array Q3) :
    Q3.six * cminus Q3.z1 Q3.cz1 s (causalInit Q3.z1 s 1) 1 0 = sAt s 0 := by
  have hc0 : causalInit Q3.z1 s 1 * (1 - Q3.z1) = sAt s 0 := by
    unfold causalInit
    have e : 2 * 1 - 3 = 0 := rfl
    simp only [e, initLoop]
    have : (1 : Q3) - Q3.z1 * 1 = 1 - Q3.z1 ^ 1 := by simp
    rw [this]
    have := Q3.div_mul_cancel' (sAt s 0) (1 - Q3.z1 ^ 1) (Q3.norm_one_sub_z1_pow 1 (le_refl 1))
    simpa using this
  have hk : Q3.six * Q3.cz1 * (1 + Q3.z1) = 1 - Q3.z1 := by decide +kernel
  simp only [cminus, cplus, Nat.sub_self, Q3.two_eq]
  linear_combination (causalInit Q3.z1 s 1) * hk + (Q3.six * Q3.cz1 + 1) * hc0

/-! ## Interpolation reproduces the samples at the grid points -/

theorem transform1d_getD (z cz : Q3) (s : List Q3) (k : Nat) (hk : k < s.length) :
    (transform1d z cz s).toArray.getD k 0 =
      Q3.six * cminus z cz s.toArray (causalInit z s.toArray s.length) s.length (s.length - 1 - k) := by
  unfold transform1d
  simp [Array.getD_eq_getD_getElem?, hk]

/-- the mirror system in uniform form: `out[m(k−1)] + 4 out[k] + out[m(k+1)] = 6 s[k]` for every node -/
theorem mirror_system (s : List Q3) (k : Nat) (hk : k < s.length) :
    let out := (transform1d Q3.z1 Q3.cz1 s).toArray
    out.getD (mirroredPosition ((k : Int) - 1) (s.length - 1)) 0 + Q3.four * out.getD k 0
      + out.getD (mirroredPosition ((k : Int) + 1) (s.length - 1)) 0 = Q3.six * s.toArray.getD k 0 := by
  intro out
  set N := s.length with hN
  have hs : ∀ j, s.toArray.getD j 0 = sAt s.toArray j := fun j => rfl
  rcases Nat.lt_or_ge N 2 with h1 | h2
  · -- one-point axis
    have hN1 : N = 1 := by omega
    have hk0 : k = 0 := by omega
    subst hk0
    have e0 : N - 1 = 0 := by omega
    simp only [e0, mirroredPosition, if_true]
    have h0 : out.getD 0 0 = sAt s.toArray 0 := by
      have := transform1d_getD Q3.z1 Q3.cz1 s 0 (by omega)
      rw [← hN, hN1] at this
      simp only [out]
      rw [this]
      exact spline_prefilter_exact_one s.toArray
    rw [h0, hs, Q3.four_eq, Q3.six_eq]
    ring
  · obtain ⟨hL, hI, hR⟩ := spline_prefilter_exact s.toArray N h2
    have g : ∀ j, j < N → out.getD j 0 =
        Q3.six * cminus Q3.z1 Q3.cz1 s.toArray (causalInit Q3.z1 s.toArray N) N (N - 1 - j) :=
      fun j hj => transform1d_getD Q3.z1 Q3.cz1 s j hj
    rcases Nat.eq_zero_or_pos k with hk0 | hkpos
    · subst hk0
      have m1 : mirroredPosition ((0 : Nat) - 1 : Int) (N - 1) = 1 := by
        have := (mirror_neighbours (N - 1) (by omega)).1
        simpa using this
      have m2 : mirroredPosition ((0 : Nat) + 1 : Int) (N - 1) = 1 := by
        have := mirror_fixes_grid 1 (N - 1) (by omega)
        simpa using this
      rw [m1, m2, g 0 (by omega), g 1 (by omega), hs, ← hL]
      simp only [Q3.four_eq, Q3.two_eq, Q3.six_eq]
      ring
    · rcases Nat.lt_or_ge (k + 1) N with hin | hlast
      · have m1 : mirroredPosition ((k : Int) - 1) (N - 1) = k - 1 := by
          have := mirror_fixes_grid (k - 1) (N - 1) (by omega)
          rw [← this]; congr 1; omega
        have m2 : mirroredPosition ((k : Int) + 1) (N - 1) = k + 1 := by
          have := mirror_fixes_grid (k + 1) (N - 1) (by omega)
          rw [← this]; congr 1
        rw [m1, m2, g (k - 1) (by omega), g k (by omega), g (k + 1) (by omega), hs, ← hI k hkpos (by omega)]
        simp only [Q3.four_eq, Q3.six_eq]
        ring
      · have hkN : k = N - 1 := by omega
        have m1 : mirroredPosition ((k : Int) - 1) (N - 1) = N - 2 := by
          have := mirror_fixes_grid (N - 2) (N - 1) (by omega)
          rw [← this]; congr 1; omega
        have m2 : mirroredPosition ((k : Int) + 1) (N - 1) = N - 2 := by
          have := (mirror_neighbours (N - 1) (by omega)).2
          have e : (k : Int) + 1 = ((N - 1 : Nat) : Int) + 1 := by omega
          rw [e, this]; omega
        rw [m1, m2, hkN, g (N - 2) (by omega), g (N - 1) (by omega), hs, ← hR]
        simp only [Q3.four_eq, Q3.two_eq, Q3.six_eq]
        ring

theorem ofRat_sixth : Q3.ofRat (1 / 6) * Q3.six = 1 := by decide +kernel

/-- **`spline_reproduces_samples`** — cubic-spline interpolation (exact `2/3`, exact pole) returns
    the sample at every grid point, under every boundary mode, for every signal. -/
theorem spline_reproduces_samples (s : List Q3) (mode : Nat) (i : Nat) (hi : i < s.length) :
    sample1dQ (2 / 3) mode (transform1d Q3.z1 Q3.cz1 s).toArray (i : Rat) = s.toArray.getD i 0 := by
  have hsize : (transform1d Q3.z1 Q3.cz1 s).toArray.size = s.length := by simp [transform1d]
  have hdd : ((s.length - 1 : Nat) : Rat) = (s.length : Rat) - 1 := by
    rw [Nat.cast_sub (by omega)]; simp
  have hiN : (i : Rat) ≤ (s.length : Rat) - 1 := by
    have : (i : Rat) + 1 ≤ (s.length : Rat) := by exact_mod_cast hi
    linarith
  have hi0 : (0 : Rat) ≤ (i : Rat) := by positivity
  have hb : applyBoundary mode (s.length - 1) (i : Rat) = some ((i : Rat), 1) := by
    unfold applyBoundary
    simp only [hdd]
    split_ifs <;> first | rfl | (exfalso; linarith) | (exfalso; rcases ‹_ ∨ _› with h | h <;> linarith)
  have hn : neighbors (i : Rat) (s.length - 1) = some ((i : Int) - 1, (i : Int) + 2) := by
    rw [mirror_window_is_floor]
    have hf : ⌊(i : Rat)⌋ = (i : Int) := by
      have := Int.floor_natCast (R := Rat) i
      simpa using this
    rw [hf, if_pos]
    refine ⟨by rw [hdd]; linarith, by omega⟩
  unfold sample1dQ
  simp only [hsize, hb, hn]
  have w0 : basis (2 / 3) ((i : Rat) - (((i : Int) - 1 + ((0 : Nat) : Int) : Int) : Rat)) = 1 / 6 := by
    have : (i : Rat) - (((i : Int) - 1 + ((0 : Nat) : Int) : Int) : Rat) = 1 := by push_cast; ring
    rw [this]; exact bspline_weights_at_grid.1
  have w1 : basis (2 / 3) ((i : Rat) - (((i : Int) - 1 + ((1 : Nat) : Int) : Int) : Rat)) = 2 / 3 := by
    have : (i : Rat) - (((i : Int) - 1 + ((1 : Nat) : Int) : Int) : Rat) = 0 := by push_cast; ring
    rw [this]; exact bspline_weights_at_grid.2.1
  have w2 : basis (2 / 3) ((i : Rat) - (((i : Int) - 1 + ((2 : Nat) : Int) : Int) : Rat)) = 1 / 6 := by
    have : (i : Rat) - (((i : Int) - 1 + ((2 : Nat) : Int) : Int) : Rat) = -1 := by push_cast; ring
    rw [this]; exact bspline_weights_at_grid.2.2.1
  have w3 : basis (2 / 3) ((i : Rat) - (((i : Int) - 1 + ((3 : Nat) : Int) : Int) : Rat)) = 0 := by
    have : (i : Rat) - (((i : Int) - 1 + ((3 : Nat) : Int) : Int) : Rat) = -2 := by push_cast; ring
    rw [this]; exact bspline_weights_at_grid.2.2.2
  have w0' : basis (2 / 3) ((i : Rat) - (((i : Int) - 1 : Int) : Rat)) = 1 / 6 := by
    have : (i : Rat) - (((i : Int) - 1 : Int) : Rat) = 1 := by push_cast; ring
    rw [this]; exact bspline_weights_at_grid.1
  have w1' : basis (2 / 3) ((i : Rat) - (((i : Int) : Int) : Rat)) = 2 / 3 := by
    have : (i : Rat) - (((i : Int) : Int) : Rat) = 0 := by push_cast; ring
    rw [this]; exact bspline_weights_at_grid.2.1
  have w2' : basis (2 / 3) ((i : Rat) - (((i : Int) + 1 : Int) : Rat)) = 1 / 6 := by
    have : (i : Rat) - (((i : Int) + 1 : Int) : Rat) = -1 := by push_cast; ring
    rw [this]; exact bspline_weights_at_grid.2.2.1
  have p1 : (i : Int) - 1 + ((1 : Nat) : Int) = (i : Int) := by omega
  have p2 : (i : Int) - 1 + ((2 : Nat) : Int) = (i : Int) + 1 := by omega
  have p0 : (i : Int) - 1 + ((0 : Nat) : Int) = (i : Int) - 1 := by omega
  have hm := mirror_system s i hi
  simp only at hm
  have mi : mirroredPosition (i : Int) (s.length - 1) = i := mirror_fixes_grid i (s.length - 1) (by omega)
  simp only [List.range_succ, List.range_zero, List.nil_append, List.cons_append, List.map_cons, List.map_nil,
    List.sum_cons, List.sum_nil, w0, w1, w2, w3, p0, p1, p2, mi, w0', w1', w2']
  have e23 : Q3.ofRat (2 / 3) = Q3.four * Q3.ofRat (1 / 6) := by decide +kernel
  have e0 : Q3.ofRat 0 = 0 := rfl
  have e1 : Q3.ofRat 1 = 1 := rfl
  rw [e23, e0, e1]
  have h6 := ofRat_sixth
  linear_combination (Q3.ofRat (1 / 6)) * hm + (s.toArray.getD i 0) * h6

/-! ## The constants written in the source (regenerated from its text: `Gen/C16Tables.lean`) -/

/-- the decimal literals of `cubic_spline.c` approximate the exact pole, its companion constant and
    `2/3` to 13 digits: `(z1 + 2)² ≈ 3`, `cz1 (z1² − 1) ≈ z1`, `c23 ≈ 2/3`, and the pole is the root of
    modulus `< 1`. -/
theorem source_constants_close :
    |(Gen.z1c + 2) * (Gen.z1c + 2) - 3| < 1 / 10 ^ 12 ∧ -1 < Gen.z1c ∧ Gen.z1c < 0 ∧
    |Gen.cz1c * (Gen.z1c * Gen.z1c - 1) - Gen.z1c| < 1 / 10 ^ 13 ∧
    |Gen.c23c - 2 / 3| < 1 / 10 ^ 13 := by
  simp only [Gen.z1c, Gen.cz1c, Gen.c23c]
  refine ⟨?_, ?_, ?_, ?_, ?_⟩ <;> first | (rw [abs_lt]; constructor <;> norm_num) | norm_num

/-! ## Non-vacuity -/

example : transform1d Q3.z1 Q3.cz1 [⟨1, 0⟩, ⟨4, 0⟩, ⟨2, 0⟩] =
    [⟨-7 / 4, 0⟩, ⟨13 / 2, 0⟩, ⟨-1 / 4, 0⟩] := by decide +kernel
example : synth1d (transform1d Q3.z1 Q3.cz1 [⟨1, 0⟩, ⟨4, 0⟩, ⟨2, 0⟩, ⟨-3, 0⟩]) =
    [⟨6, 0⟩, ⟨24, 0⟩, ⟨12, 0⟩, ⟨-18, 0⟩] := by decide +kernel

end NipyVerif.C16
