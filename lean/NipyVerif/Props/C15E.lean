/-
C15 — the lower intrinsic volumes of solid boxes under affine coordinate fields:
half the perimeter of a 2-d box, whole loop of `Lips2d` (with `ec2_box` and
`lips2_box_area` this is the full vector `(1, a+b, ab)` of the property for
2-d boxes).
-/
import NipyVerif.Props.C15B
import NipyVerif.Lemmas.C15Box

namespace NipyVerif.C15

/-- **`mu1` (half the perimeter) of a solid 2-d box, every affine coordinate field**: the
    loop of `Lips2d` accumulates `l1 = (a−1)·|u| + (b−1)·|v|` (`|u| = sqrt(u·u)`): the
    diagonal edges cancel against the triangles.  With `ec2_box` (`mu0 = 1`) and
    `lips2_box_area` this is the whole vector `(1, a+b, ab)` for axis-aligned voxels. -/
theorem lips2_box_mu1 (P : Num) (A : List Comp) (a b : Nat) (ha : 1 ≤ a) (hb : 1 ≤ b) :
    lipsMu1 P 2 a b 1 (boxF a b 1) (affineX A)
      = ((a : Rat) - 1) * P.sq (S A Comp.u Comp.u) + ((b : Rat) - 1) * P.sq (S A Comp.v Comp.v) := by
  set sU := P.sq (S A Comp.u Comp.u) with hsU
  set sV := P.sq (S A Comp.v Comp.v) with hsV
  set sD := P.sq (S A Comp.u Comp.u + 2 * S A Comp.u Comp.v + S A Comp.v Comp.v) with hsD
  -- the three edge lengths of the cell
  have eU : ∀ p : Pt, mu1Edge P (dotv (affineX A p) (affineX A p)) (dotv (affineX A p) (affineX A (padd p (1, 0, 0))))
      (dotv (affineX A (padd p (1, 0, 0))) (affineX A (padd p (1, 0, 0)))) = sU := by
    intro p; simp only [mu1Edge, edgeSq, dot_affine, padd, hsU]; congr 1; push_cast; ring
  have eV : ∀ p : Pt, mu1Edge P (dotv (affineX A p) (affineX A p)) (dotv (affineX A p) (affineX A (padd p (0, 1, 0))))
      (dotv (affineX A (padd p (0, 1, 0))) (affineX A (padd p (0, 1, 0)))) = sV := by
    intro p; simp only [mu1Edge, edgeSq, dot_affine, padd, hsV]; congr 1; push_cast; ring
  have eD : ∀ p : Pt, mu1Edge P (dotv (affineX A p) (affineX A p)) (dotv (affineX A p) (affineX A (padd p (1, 1, 0))))
      (dotv (affineX A (padd p (1, 1, 0))) (affineX A (padd p (1, 1, 0)))) = sD := by
    intro p; simp only [mu1Edge, edgeSq, dot_affine, padd, hsD]; congr 1; push_cast; ring
  -- per voxel
  have vox : ∀ i j k, l1Vox P 2 (boxF a b 1) (affineX A) (i, j, k)
      = ((ind a (i + 1) * ind b (j + 0) * ind 1 (k + 0) : Int) : Rat) * sU
        + ((ind a (i + 0) * ind b (j + 1) * ind 1 (k + 0) : Int) : Rat) * sV
        - ((ind a (i + 1) * ind b (j + 1) * ind 1 (k + 0) : Int) : Rat) * (sU + sV) := by
    intro i j k
    have hU := eU (i, j, k)
    have hV := eV (i, j, k)
    have hD := eD (i, j, k)
    have hU' := eU (i, j + 1, k)
    have hV' := eV (i + 1, j, k)
    simp only [padd, Nat.add_zero] at hU hV hD hU' hV'
    simp only [l1Vox, tsum, table_2_2, table_2_3, table_2_4, List.map, List.sum_cons, List.sum_nil, wt, prodAt, fat,
      edge1, tri1, tet1, mu1Tri, gramAt, List.getD_cons_zero, List.getD_cons_succ, padd, Nat.add_zero, boxF,
      hU, hV, hD, hU', hV']
    rcases ind_cases a i with ⟨h1, h2, _⟩ | ⟨h1, h2, _⟩ | ⟨h1, h2, _⟩ <;>
    rcases ind_cases b j with ⟨g1, g2, _⟩ | ⟨g1, g2, _⟩ | ⟨g1, g2, _⟩ <;>
    rcases ind01 1 k with f1 | f1 <;>
    simp only [h1, h2, g1, g2, f1] <;> push_cast <;> ring
  unfold lipsMu1
  simp only [vox]
  rw [sum3Q_sub, sum3Q_add]
  have cast3 : ∀ (f : Nat → Nat → Nat → Int) (c : Rat),
      sum3Q a b 1 (fun i j k => ((f i j k : Int) : Rat) * c) = ((sum3 a b 1 f : Int) : Rat) * c := by
    intro f c
    rw [sum3_cast]; unfold sum3Q; simp only [sumQ_mul_right]
  rw [cast3 (fun i j k => ind a (i + 1) * ind b (j + 0) * ind 1 (k + 0)),
    cast3 (fun i j k => ind a (i + 0) * ind b (j + 1) * ind 1 (k + 0)),
    cast3 (fun i j k => ind a (i + 1) * ind b (j + 1) * ind 1 (k + 0)),
    box_count, box_count, box_count]
  simp only [Nat.sub_zero]
  push_cast [Nat.cast_sub ha, Nat.cast_sub hb]
  ring


/-! ## Half the surface area of a solid 3-d box -/

/-- **`mu2` (half the surface area) of a solid 3-d box, every affine coordinate field**:
    the loop of `Lips3d` accumulates
    `l2 = (a−1)(b−1)·|u×v| + (a−1)(c−1)·|u×w| + (b−1)(c−1)·|v×w|` (`|u×v| = sqrt(|u|²|v|² − (u·v)²)`):
    every interior triangle is cancelled by the two tetrahedra it bounds, every triangle of the
    surface is kept with weight `1 − 1/2`.  For axis-aligned voxels this is `ab + bc + ca`. -/
theorem lips3_box_mu2 (P : Num) (A : List Comp) (a b c : Nat) (ha : 1 ≤ a) (hb : 1 ≤ b) (hc : 1 ≤ c) :
    lipsMu2 P 3 a b c (boxF a b c) (affineX A)
      = ((a : Rat) - 1) * ((b : Rat) - 1) * (2 * sqp P (area2 A (1, 0, 0) (0, 1, 0)))
        + ((a : Rat) - 1) * ((c : Rat) - 1) * (2 * sqp P (area2 A (1, 0, 0) (0, 0, 1)))
        + ((b : Rat) - 1) * ((c : Rat) - 1) * (2 * sqp P (area2 A (0, 1, 0) (0, 0, 1))) := by
  have vox : ∀ x : Pt, l2Vox P 3 (boxF a b c) (affineX A) x
      = ((ind a (x.1 + 1) * ind b (x.2.1 + 1) * ind c (x.2.2 + 0) : Int) : Rat) * (2 * sqp P (area2 A (1, 0, 0) (0, 1, 0)))
        + ((ind a (x.1 + 1) * ind b (x.2.1 + 0) * ind c (x.2.2 + 1) : Int) : Rat) * (2 * sqp P (area2 A (1, 0, 0) (0, 0, 1)))
        + ((ind a (x.1 + 0) * ind b (x.2.1 + 1) * ind c (x.2.2 + 1) : Int) : Rat) * (2 * sqp P (area2 A (0, 1, 0) (0, 0, 1)))
        - ((ind a (x.1 + 1) * ind b (x.2.1 + 1) * ind c (x.2.2 + 1) : Int) : Rat)
          * (2 * (sqp P (area2 A (1, 0, 0) (0, 1, 0)) + sqp P (area2 A (1, 0, 0) (0, 0, 1))
            + sqp P (area2 A (0, 1, 0) (0, 0, 1)))) := by
    intro x
    have t0 : tri2 P (gramAt (affineX A) x [(0, 0, 0), (0, 1, 0), (1, 1, 0)]) = sqp P (area2 A ((1 : Rat), (0 : Rat), (0 : Rat)) ((0 : Rat), (1 : Rat), (0 : Rat))) := by
      rw [tri2_affine]; congr 1; simp only [area2, qf, dv]; norm_num; ring
    have t1 : tri2 P (gramAt (affineX A) x [(0, 0, 0), (0, 1, 0), (0, 1, 1)]) = sqp P (area2 A ((0 : Rat), (1 : Rat), (0 : Rat)) ((0 : Rat), (0 : Rat), (1 : Rat))) := by
      rw [tri2_affine]; congr 1; simp only [area2, qf, dv]; norm_num; ring
    have t2 : tri2 P (gramAt (affineX A) x [(0, 0, 0), (0, 1, 0), (1, 1, 1)]) = sqp P (area2 A ((0 : Rat), (1 : Rat), (0 : Rat)) ((1 : Rat), (0 : Rat), (1 : Rat))) := by
      rw [tri2_affine]; congr 1; simp only [area2, qf, dv]; norm_num; ring
    have t3 : tri2 P (gramAt (affineX A) x [(0, 0, 0), (0, 0, 1), (1, 0, 1)]) = sqp P (area2 A ((1 : Rat), (0 : Rat), (0 : Rat)) ((0 : Rat), (0 : Rat), (1 : Rat))) := by
      rw [tri2_affine]; congr 1; simp only [area2, qf, dv]; norm_num; ring
    have t4 : tri2 P (gramAt (affineX A) x [(0, 0, 0), (1, 0, 0), (1, 0, 1)]) = sqp P (area2 A ((1 : Rat), (0 : Rat), (0 : Rat)) ((0 : Rat), (0 : Rat), (1 : Rat))) := by
      rw [tri2_affine]; congr 1; simp only [area2, qf, dv]; norm_num; ring
    have t5 : tri2 P (gramAt (affineX A) x [(0, 0, 0), (1, 0, 1), (1, 1, 1)]) = sqp P (area2 A ((0 : Rat), (1 : Rat), (0 : Rat)) ((1 : Rat), (0 : Rat), (1 : Rat))) := by
      rw [tri2_affine]; congr 1; simp only [area2, qf, dv]; norm_num; ring
    have t6 : tri2 P (gramAt (affineX A) x [(0, 0, 0), (0, 0, 1), (0, 1, 1)]) = sqp P (area2 A ((0 : Rat), (1 : Rat), (0 : Rat)) ((0 : Rat), (0 : Rat), (1 : Rat))) := by
      rw [tri2_affine]; congr 1; simp only [area2, qf, dv]; norm_num; ring
    have t7 : tri2 P (gramAt (affineX A) x [(0, 0, 0), (0, 0, 1), (1, 1, 1)]) = sqp P (area2 A ((0 : Rat), (0 : Rat), (1 : Rat)) ((1 : Rat), (1 : Rat), (0 : Rat))) := by
      rw [tri2_affine]; congr 1; simp only [area2, qf, dv]; norm_num; ring
    have t8 : tri2 P (gramAt (affineX A) x [(0, 0, 0), (0, 1, 1), (1, 1, 1)]) = sqp P (area2 A ((1 : Rat), (0 : Rat), (0 : Rat)) ((0 : Rat), (1 : Rat), (1 : Rat))) := by
      rw [tri2_affine]; congr 1; simp only [area2, qf, dv]; norm_num; ring
    have t9 : tri2 P (gramAt (affineX A) x [(0, 0, 0), (1, 0, 0), (1, 1, 0)]) = sqp P (area2 A ((1 : Rat), (0 : Rat), (0 : Rat)) ((0 : Rat), (1 : Rat), (0 : Rat))) := by
      rw [tri2_affine]; congr 1; simp only [area2, qf, dv]; norm_num; ring
    have t10 : tri2 P (gramAt (affineX A) x [(0, 0, 0), (1, 0, 0), (1, 1, 1)]) = sqp P (area2 A ((1 : Rat), (0 : Rat), (0 : Rat)) ((0 : Rat), (1 : Rat), (1 : Rat))) := by
      rw [tri2_affine]; congr 1; simp only [area2, qf, dv]; norm_num; ring
    have t11 : tri2 P (gramAt (affineX A) x [(0, 0, 0), (1, 1, 0), (1, 1, 1)]) = sqp P (area2 A ((0 : Rat), (0 : Rat), (1 : Rat)) ((1 : Rat), (1 : Rat), (0 : Rat))) := by
      rw [tri2_affine]; congr 1; simp only [area2, qf, dv]; norm_num; ring
    have q0 : tet2 P (gramAt (affineX A) x [(0, 0, 0), (0, 1, 0), (1, 1, 0), (1, 1, 1)]) = (sqp P (area2 A ((1 : Rat), (0 : Rat), (0 : Rat)) ((0 : Rat), (1 : Rat), (0 : Rat))) + sqp P (area2 A ((0 : Rat), (0 : Rat), (1 : Rat)) ((1 : Rat), (1 : Rat), (0 : Rat))) + sqp P (area2 A ((1 : Rat), (0 : Rat), (0 : Rat)) ((0 : Rat), (0 : Rat), (1 : Rat))) + sqp P (area2 A ((0 : Rat), (1 : Rat), (0 : Rat)) ((1 : Rat), (0 : Rat), (1 : Rat)))) * (1 / 2) := by
      have e0 : area2 A (dv (0, 0, 0) (0, 1, 0)) (dv (0, 0, 0) (1, 1, 0)) = area2 A ((1 : Rat), (0 : Rat), (0 : Rat)) ((0 : Rat), (1 : Rat), (0 : Rat)) := by
        simp only [area2, qf, dv]; norm_num; ring
      have e1 : area2 A (dv (0, 0, 0) (1, 1, 0)) (dv (0, 0, 0) (1, 1, 1)) = area2 A ((0 : Rat), (0 : Rat), (1 : Rat)) ((1 : Rat), (1 : Rat), (0 : Rat)) := by
        simp only [area2, qf, dv]; norm_num; ring
      have e2 : area2 A (dv (0, 1, 0) (1, 1, 0)) (dv (0, 1, 0) (1, 1, 1)) = area2 A ((1 : Rat), (0 : Rat), (0 : Rat)) ((0 : Rat), (0 : Rat), (1 : Rat)) := by
        simp only [area2, qf, dv]; norm_num; ring
      have e3 : area2 A (dv (0, 0, 0) (0, 1, 0)) (dv (0, 0, 0) (1, 1, 1)) = area2 A ((0 : Rat), (1 : Rat), (0 : Rat)) ((1 : Rat), (0 : Rat), (1 : Rat)) := by
        simp only [area2, qf, dv]; norm_num; ring
      rw [tet2_affine, e0, e1, e2, e3]
    have q1 : tet2 P (gramAt (affineX A) x [(0, 0, 0), (0, 1, 0), (0, 1, 1), (1, 1, 1)]) = (sqp P (area2 A ((0 : Rat), (1 : Rat), (0 : Rat)) ((0 : Rat), (0 : Rat), (1 : Rat))) + sqp P (area2 A ((1 : Rat), (0 : Rat), (0 : Rat)) ((0 : Rat), (1 : Rat), (1 : Rat))) + sqp P (area2 A ((1 : Rat), (0 : Rat), (0 : Rat)) ((0 : Rat), (0 : Rat), (1 : Rat))) + sqp P (area2 A ((0 : Rat), (1 : Rat), (0 : Rat)) ((1 : Rat), (0 : Rat), (1 : Rat)))) * (1 / 2) := by
      have e0 : area2 A (dv (0, 0, 0) (0, 1, 0)) (dv (0, 0, 0) (0, 1, 1)) = area2 A ((0 : Rat), (1 : Rat), (0 : Rat)) ((0 : Rat), (0 : Rat), (1 : Rat)) := by
        simp only [area2, qf, dv]; norm_num; ring
      have e1 : area2 A (dv (0, 0, 0) (0, 1, 1)) (dv (0, 0, 0) (1, 1, 1)) = area2 A ((1 : Rat), (0 : Rat), (0 : Rat)) ((0 : Rat), (1 : Rat), (1 : Rat)) := by
        simp only [area2, qf, dv]; norm_num; ring
      have e2 : area2 A (dv (0, 1, 0) (0, 1, 1)) (dv (0, 1, 0) (1, 1, 1)) = area2 A ((1 : Rat), (0 : Rat), (0 : Rat)) ((0 : Rat), (0 : Rat), (1 : Rat)) := by
        simp only [area2, qf, dv]; norm_num; ring
      have e3 : area2 A (dv (0, 0, 0) (0, 1, 0)) (dv (0, 0, 0) (1, 1, 1)) = area2 A ((0 : Rat), (1 : Rat), (0 : Rat)) ((1 : Rat), (0 : Rat), (1 : Rat)) := by
        simp only [area2, qf, dv]; norm_num; ring
      rw [tet2_affine, e0, e1, e2, e3]
    have q2 : tet2 P (gramAt (affineX A) x [(0, 0, 0), (0, 0, 1), (1, 0, 1), (1, 1, 1)]) = (sqp P (area2 A ((1 : Rat), (0 : Rat), (0 : Rat)) ((0 : Rat), (0 : Rat), (1 : Rat))) + sqp P (area2 A ((0 : Rat), (1 : Rat), (0 : Rat)) ((1 : Rat), (0 : Rat), (1 : Rat))) + sqp P (area2 A ((1 : Rat), (0 : Rat), (0 : Rat)) ((0 : Rat), (1 : Rat), (0 : Rat))) + sqp P (area2 A ((0 : Rat), (0 : Rat), (1 : Rat)) ((1 : Rat), (1 : Rat), (0 : Rat)))) * (1 / 2) := by
      have e0 : area2 A (dv (0, 0, 0) (0, 0, 1)) (dv (0, 0, 0) (1, 0, 1)) = area2 A ((1 : Rat), (0 : Rat), (0 : Rat)) ((0 : Rat), (0 : Rat), (1 : Rat)) := by
        simp only [area2, qf, dv]; norm_num; ring
      have e1 : area2 A (dv (0, 0, 0) (1, 0, 1)) (dv (0, 0, 0) (1, 1, 1)) = area2 A ((0 : Rat), (1 : Rat), (0 : Rat)) ((1 : Rat), (0 : Rat), (1 : Rat)) := by
        simp only [area2, qf, dv]; norm_num; ring
      have e2 : area2 A (dv (0, 0, 1) (1, 0, 1)) (dv (0, 0, 1) (1, 1, 1)) = area2 A ((1 : Rat), (0 : Rat), (0 : Rat)) ((0 : Rat), (1 : Rat), (0 : Rat)) := by
        simp only [area2, qf, dv]; norm_num; ring
      have e3 : area2 A (dv (0, 0, 0) (0, 0, 1)) (dv (0, 0, 0) (1, 1, 1)) = area2 A ((0 : Rat), (0 : Rat), (1 : Rat)) ((1 : Rat), (1 : Rat), (0 : Rat)) := by
        simp only [area2, qf, dv]; norm_num; ring
      rw [tet2_affine, e0, e1, e2, e3]
    have q3 : tet2 P (gramAt (affineX A) x [(0, 0, 0), (1, 0, 0), (1, 0, 1), (1, 1, 1)]) = (sqp P (area2 A ((1 : Rat), (0 : Rat), (0 : Rat)) ((0 : Rat), (0 : Rat), (1 : Rat))) + sqp P (area2 A ((0 : Rat), (1 : Rat), (0 : Rat)) ((1 : Rat), (0 : Rat), (1 : Rat))) + sqp P (area2 A ((0 : Rat), (1 : Rat), (0 : Rat)) ((0 : Rat), (0 : Rat), (1 : Rat))) + sqp P (area2 A ((1 : Rat), (0 : Rat), (0 : Rat)) ((0 : Rat), (1 : Rat), (1 : Rat)))) * (1 / 2) := by
      have e0 : area2 A (dv (0, 0, 0) (1, 0, 0)) (dv (0, 0, 0) (1, 0, 1)) = area2 A ((1 : Rat), (0 : Rat), (0 : Rat)) ((0 : Rat), (0 : Rat), (1 : Rat)) := by
        simp only [area2, qf, dv]; norm_num; ring
      have e1 : area2 A (dv (0, 0, 0) (1, 0, 1)) (dv (0, 0, 0) (1, 1, 1)) = area2 A ((0 : Rat), (1 : Rat), (0 : Rat)) ((1 : Rat), (0 : Rat), (1 : Rat)) := by
        simp only [area2, qf, dv]; norm_num; ring
      have e2 : area2 A (dv (1, 0, 0) (1, 0, 1)) (dv (1, 0, 0) (1, 1, 1)) = area2 A ((0 : Rat), (1 : Rat), (0 : Rat)) ((0 : Rat), (0 : Rat), (1 : Rat)) := by
        simp only [area2, qf, dv]; norm_num; ring
      have e3 : area2 A (dv (0, 0, 0) (1, 0, 0)) (dv (0, 0, 0) (1, 1, 1)) = area2 A ((1 : Rat), (0 : Rat), (0 : Rat)) ((0 : Rat), (1 : Rat), (1 : Rat)) := by
        simp only [area2, qf, dv]; norm_num; ring
      rw [tet2_affine, e0, e1, e2, e3]
    have q4 : tet2 P (gramAt (affineX A) x [(0, 0, 0), (0, 0, 1), (0, 1, 1), (1, 1, 1)]) = (sqp P (area2 A ((0 : Rat), (1 : Rat), (0 : Rat)) ((0 : Rat), (0 : Rat), (1 : Rat))) + sqp P (area2 A ((1 : Rat), (0 : Rat), (0 : Rat)) ((0 : Rat), (1 : Rat), (1 : Rat))) + sqp P (area2 A ((1 : Rat), (0 : Rat), (0 : Rat)) ((0 : Rat), (1 : Rat), (0 : Rat))) + sqp P (area2 A ((0 : Rat), (0 : Rat), (1 : Rat)) ((1 : Rat), (1 : Rat), (0 : Rat)))) * (1 / 2) := by
      have e0 : area2 A (dv (0, 0, 0) (0, 0, 1)) (dv (0, 0, 0) (0, 1, 1)) = area2 A ((0 : Rat), (1 : Rat), (0 : Rat)) ((0 : Rat), (0 : Rat), (1 : Rat)) := by
        simp only [area2, qf, dv]; norm_num; ring
      have e1 : area2 A (dv (0, 0, 0) (0, 1, 1)) (dv (0, 0, 0) (1, 1, 1)) = area2 A ((1 : Rat), (0 : Rat), (0 : Rat)) ((0 : Rat), (1 : Rat), (1 : Rat)) := by
        simp only [area2, qf, dv]; norm_num; ring
      have e2 : area2 A (dv (0, 0, 1) (0, 1, 1)) (dv (0, 0, 1) (1, 1, 1)) = area2 A ((1 : Rat), (0 : Rat), (0 : Rat)) ((0 : Rat), (1 : Rat), (0 : Rat)) := by
        simp only [area2, qf, dv]; norm_num; ring
      have e3 : area2 A (dv (0, 0, 0) (0, 0, 1)) (dv (0, 0, 0) (1, 1, 1)) = area2 A ((0 : Rat), (0 : Rat), (1 : Rat)) ((1 : Rat), (1 : Rat), (0 : Rat)) := by
        simp only [area2, qf, dv]; norm_num; ring
      rw [tet2_affine, e0, e1, e2, e3]
    have q5 : tet2 P (gramAt (affineX A) x [(0, 0, 0), (1, 0, 0), (1, 1, 0), (1, 1, 1)]) = (sqp P (area2 A ((1 : Rat), (0 : Rat), (0 : Rat)) ((0 : Rat), (1 : Rat), (0 : Rat))) + sqp P (area2 A ((0 : Rat), (0 : Rat), (1 : Rat)) ((1 : Rat), (1 : Rat), (0 : Rat))) + sqp P (area2 A ((0 : Rat), (1 : Rat), (0 : Rat)) ((0 : Rat), (0 : Rat), (1 : Rat))) + sqp P (area2 A ((1 : Rat), (0 : Rat), (0 : Rat)) ((0 : Rat), (1 : Rat), (1 : Rat)))) * (1 / 2) := by
      have e0 : area2 A (dv (0, 0, 0) (1, 0, 0)) (dv (0, 0, 0) (1, 1, 0)) = area2 A ((1 : Rat), (0 : Rat), (0 : Rat)) ((0 : Rat), (1 : Rat), (0 : Rat)) := by
        simp only [area2, qf, dv]; norm_num; ring
      have e1 : area2 A (dv (0, 0, 0) (1, 1, 0)) (dv (0, 0, 0) (1, 1, 1)) = area2 A ((0 : Rat), (0 : Rat), (1 : Rat)) ((1 : Rat), (1 : Rat), (0 : Rat)) := by
        simp only [area2, qf, dv]; norm_num; ring
      have e2 : area2 A (dv (1, 0, 0) (1, 1, 0)) (dv (1, 0, 0) (1, 1, 1)) = area2 A ((0 : Rat), (1 : Rat), (0 : Rat)) ((0 : Rat), (0 : Rat), (1 : Rat)) := by
        simp only [area2, qf, dv]; norm_num; ring
      have e3 : area2 A (dv (0, 0, 0) (1, 0, 0)) (dv (0, 0, 0) (1, 1, 1)) = area2 A ((1 : Rat), (0 : Rat), (0 : Rat)) ((0 : Rat), (1 : Rat), (1 : Rat)) := by
        simp only [area2, qf, dv]; norm_num; ring
      rw [tet2_affine, e0, e1, e2, e3]
    obtain ⟨i, j, k⟩ := x
    simp only [l2Vox, tsum, table_3_3, table_3_4, List.map, List.sum_cons, List.sum_nil, t0, t1, t2, t3, t4, t5, t6, t7,
      t8, t9, t10, t11, q0, q1, q2, q3, q4, q5, wt, prodAt, fat, boxF, Nat.add_zero]
    generalize sqp P (area2 A (1, 0, 0) (0, 1, 0)) = Auv
    generalize sqp P (area2 A (1, 0, 0) (0, 0, 1)) = Auw
    generalize sqp P (area2 A (0, 1, 0) (0, 0, 1)) = Avw
    generalize sqp P (area2 A (1, 0, 0) (0, 1, 1)) = B1
    generalize sqp P (area2 A (0, 1, 0) (1, 0, 1)) = B2
    generalize sqp P (area2 A (0, 0, 1) (1, 1, 0)) = B3
    rcases ind_cases a i with ⟨h1, h2, _⟩ | ⟨h1, h2, _⟩ | ⟨h1, h2, _⟩ <;>
    rcases ind_cases b j with ⟨g1, g2, _⟩ | ⟨g1, g2, _⟩ | ⟨g1, g2, _⟩ <;>
    rcases ind_cases c k with ⟨f1, f2, _⟩ | ⟨f1, f2, _⟩ | ⟨f1, f2, _⟩ <;>
    simp only [h1, h2, g1, g2, f1, f2] <;> push_cast <;> ring
  unfold lipsMu2
  simp only [vox]
  rw [sum3Q_sub, sum3Q_add, sum3Q_add]
  have cast3 : ∀ (f : Nat → Nat → Nat → Int) (r : Rat),
      sum3Q a b c (fun i j k => ((f i j k : Int) : Rat) * r) = ((sum3 a b c f : Int) : Rat) * r := by
    intro f r
    rw [sum3_cast]; unfold sum3Q; simp only [sumQ_mul_right]
  rw [cast3 (fun i j k => ind a (i + 1) * ind b (j + 1) * ind c (k + 0)),
    cast3 (fun i j k => ind a (i + 1) * ind b (j + 0) * ind c (k + 1)),
    cast3 (fun i j k => ind a (i + 0) * ind b (j + 1) * ind c (k + 1)),
    cast3 (fun i j k => ind a (i + 1) * ind b (j + 1) * ind c (k + 1)),
    box_count, box_count, box_count, box_count]
  simp only [Nat.sub_zero]
  push_cast [Nat.cast_sub ha, Nat.cast_sub hb, Nat.cast_sub hc]
  ring

/-- for axis-aligned voxels `h0 × h1 × h2` the squared areas are perfect squares:
    `mu2` of the solid box is `ab + bc + ca` for the edge lengths `(n_i − 1) h_i`, given that
    `sqrt` returns the non-negative root of the three squares `(h_i h_j)²`. -/
theorem lips3_box_mu2_axis (P : Num) (o0 o1 o2 h0 h1 h2 : Rat) (a b c : Nat) (ha : 1 ≤ a) (hb : 1 ≤ b) (hc : 1 ≤ c)
    (h01 : P.sq ((h0 * h1) ^ 2) = h0 * h1) (h02 : P.sq ((h0 * h2) ^ 2) = h0 * h2)
    (h12 : P.sq ((h1 * h2) ^ 2) = h1 * h2) :
    lipsMu2 P 3 a b c (boxF a b c) (affineX [⟨o0, h0, 0, 0⟩, ⟨o1, 0, h1, 0⟩, ⟨o2, 0, 0, h2⟩])
      = (((a : Rat) - 1) * h0) * (((b : Rat) - 1) * h1) + (((b : Rat) - 1) * h1) * (((c : Rat) - 1) * h2)
        + (((c : Rat) - 1) * h2) * (((a : Rat) - 1) * h0) := by
  rw [lips3_box_mu2 P _ a b c ha hb hc]
  have e01 : area2 [⟨o0, h0, 0, 0⟩, ⟨o1, 0, h1, 0⟩, ⟨o2, 0, 0, h2⟩] (1, 0, 0) (0, 1, 0) = (h0 * h1) ^ 2 := by
    simp [area2, qf, S]; ring
  have e02 : area2 [⟨o0, h0, 0, 0⟩, ⟨o1, 0, h1, 0⟩, ⟨o2, 0, 0, h2⟩] (1, 0, 0) (0, 0, 1) = (h0 * h2) ^ 2 := by
    simp [area2, qf, S]; ring
  have e12 : area2 [⟨o0, h0, 0, 0⟩, ⟨o1, 0, h1, 0⟩, ⟨o2, 0, 0, h2⟩] (0, 1, 0) (0, 0, 1) = (h1 * h2) ^ 2 := by
    simp [area2, qf, S]; ring
  have n01 : ¬ (h0 * h1) ^ 2 < 0 := not_lt.mpr (sq_nonneg _)
  have n02 : ¬ (h0 * h2) ^ 2 < 0 := not_lt.mpr (sq_nonneg _)
  have n12 : ¬ (h1 * h2) ^ 2 < 0 := not_lt.mpr (sq_nonneg _)
  simp only [e01, e02, e12, sqp, n01, n02, n12, if_false, h01, h02, h12]
  ring

end NipyVerif.C15
