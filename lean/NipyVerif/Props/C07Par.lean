/-
C07 — paradigm I/O: what `write_to_csv` writes, `load_paradigm_from_csv_file` reads back as a
paradigm that yields the same conditions (names, onsets, durations, amplitudes) to
`_convolve_regressors` — hence the same design matrix — for event-related and block paradigms,
with or without amplitudes, also in a file holding other sessions.
(`str(float)`/`float(str)` and the text layer are outside this statement: the latter is
`Props/C07Csv`, the former is checked by the oracle.)
-/
import NipyVerif.Lemmas.C07Par

namespace NipyVerif.C07

/-- **Round trip.** Loading the session a well-formed paradigm was written under gives a paradigm
    with the same conditions — the input of `compute_regressor` for every condition is the same,
    so `make_dmtx` builds the same design.  (An event-related paradigm without amplitudes comes
    back as a block paradigm with zero durations and unit amplitudes; a block paradigm whose
    durations are all zero comes back event-related: the conditions are unchanged.) -/
theorem load_write_conditions (p : Paradigm) (hp : p.WF) (s : String) :
    ∃ q, readSession (writeRows p s) s = .ok (some q) ∧ conditions q = conditions p := by
  obtain ⟨f1, f2, f3, f4, f5, f6, f7⟩ := writeRows_facts p hp s
  have hn := hp.nonempty
  have hne : writeRows p s ≠ [] := by
    intro h; rw [h] at f6; simp at f6; omega
  obtain ⟨last, hlast⟩ : ∃ r, (writeRows p s).getLast? = some r := by
    cases h : (writeRows p s).getLast? with
    | none => exact absurd (List.getLast?_eq_none_iff.mp h) hne
    | some r => exact ⟨r, rfl⟩
  have hlastmem : last ∈ writeRows p s := List.mem_of_getLast? hlast
  have hk := f7 last hlastmem
  have hdurlen : (durOf p).length = p.conId.length := by
    unfold durOf
    cases hb : p.isBlock with
    | true => obtain ⟨d, h1, h2⟩ := hp.durLen hb; simp [h1, h2]
    | false => simp [hp.onsetLen]
  have hpd : p.isBlock = true → p.dur.isSome := by
    intro hb; obtain ⟨d, h1, _⟩ := hp.durLen hb; simp [h1]
  have hmask : ((List.replicate p.conId.length true).all fun x => x == false) = false := by
    cases hc : p.conId.length with
    | zero => omega
    | succ k => simp [List.replicate_succ]
  have pk : ∀ {α : Type} (l : List α), l.length = p.conId.length →
      pick (List.replicate p.conId.length true) l = l :=
    fun l hl => pick_all_true l _ (by rw [hl])
  unfold readSession
  rw [hlast]
  simp only [f5, hmask, Bool.false_eq_true, if_false, f1, f2, f3, f4, f6, hk,
    pk p.conId rfl, pk p.onset hp.onsetLen, pk (durOf p) hdurlen]
  cases ha : p.amp with
  | some a =>
      have hal := hp.ampLen a ha
      simp only [Option.isSome_some, if_true, Option.getD_some, hdurlen, hal, ne_eq,
        not_true_eq_false, or_self, if_false, pk a hal, show min 5 5 > 4 by decide]
      by_cases hz : (durOf p).all (· == 0) = true
      · refine ⟨⟨false, p.conId, p.onset, none, some a⟩, ?_, ?_⟩
        · simp [hz, mkEvent, hp.onsetLen, hal, Except.map]
        · refine conditions_congr p _ hpd (by simp) rfl rfl ?_ ?_
          · simp only [durOf, Bool.false_eq_true, if_false]
            exact (all_zero_eq_map (durOf p) p.onset (by rw [hdurlen, hp.onsetLen]) hz).symm
          · simp [ampOf, ha]
      · refine ⟨⟨true, p.conId, p.onset, some (durOf p), some a⟩, ?_, ?_⟩
        · simp [hz, mkBlock, mkEvent, hp.onsetLen, hal, hdurlen, Except.map]
        · refine conditions_congr p _ hpd (by simp) rfl rfl ?_ ?_
          · simp only [durOf, if_true, Option.getD_some]
          · simp [ampOf, ha]
  | none =>
      simp only [Option.isSome_none, Bool.false_eq_true, if_false, hdurlen, ne_eq,
        not_true_eq_false, show ¬ (min 4 5 > 4) by decide, show min 4 5 > 3 by decide, if_true]
      refine ⟨⟨true, p.conId, p.onset, some (durOf p), some (p.onset.map (fun _ => 1))⟩, ?_, ?_⟩
      · simp [mkBlock, mkEvent, hp.onsetLen, hdurlen, Except.map]
      · refine conditions_congr p _ hpd (by simp) rfl rfl ?_ ?_
        · simp only [durOf, if_true, Option.getD_some]
        · simp [ampOf, ha]

/-- **Several sessions in one file.** Rows of other sessions placed before the rows of a file do
    not change what is loaded for session `s`, when every row has the same number of columns.
    (With different numbers of columns the boolean indexing raises IndexError — modelled, and
    exercised by the correspondence as the `ragged` cases.) -/
theorem read_session_ignores_other_sessions (k : Nat) (A B : List CsvRow) (s : String)
    (hu : UniformRows k (A ++ B)) (hB : B ≠ []) (hA : ∀ r ∈ A, (r.sess == s) = false) :
    readSession (A ++ B) s = readSession B s := by
  have huA : UniformRows k A := fun r hr => hu r (by simp [hr])
  have huB : UniformRows k B := fun r hr => hu r (by simp [hr])
  obtain ⟨last, hlast⟩ : ∃ r, B.getLast? = some r := by
    cases h : B.getLast? with
    | none => exact absurd (List.getLast?_eq_none_iff.mp h) hB
    | some r => exact ⟨r, rfl⟩
  have hlast' : (A ++ B).getLast? = some last := by
    rw [List.getLast?_append, hlast]; rfl
  have hk : last.ncols = k := (huB last (List.mem_of_getLast? hlast)).1
  have hmA : ∀ b ∈ A.map (fun r => r.sess == s), b = false := by
    intro b hb
    obtain ⟨r, hr, rfl⟩ := List.mem_map.mp hb
    exact hA r hr
  have hallA : (A.map (fun r => r.sess == s)).all (· == false) = true := by
    rw [List.all_eq_true]
    intro b hb; simp [hmA b hb]
  have pk : ∀ {α : Type} (f : CsvRow → α),
      pick ((A ++ B).map (fun r => r.sess == s)) ((A ++ B).map f) =
        pick (B.map (fun r => r.sess == s)) (B.map f) := by
    intro α f
    rw [List.map_append, List.map_append, pick_append _ _ _ _ (by simp), pick_all_false _ _ hmA,
      List.nil_append]
  have hdl : ∀ (R : List CsvRow), UniformRows k R →
      (R.filterMap (·.dur)).length = if decide (k > 3) then R.length else 0 :=
    fun R hR => filterMap_length_uniform R _ _ (fun r hr => (hR r hr).2.1)
  have hal : ∀ (R : List CsvRow), UniformRows k R →
      (R.filterMap (·.amp)).length = if decide (k > 4) then R.length else 0 :=
    fun R hR => filterMap_length_uniform R _ _ (fun r hr => (hR r hr).2.2)
  have pkd : k > 3 → pick ((A ++ B).map (fun r => r.sess == s)) ((A ++ B).filterMap (·.dur)) =
      pick (B.map (fun r => r.sess == s)) (B.filterMap (·.dur)) := by
    intro h3
    rw [List.map_append, List.filterMap_append, pick_append _ _ _ _ (by simp [hdl A huA, h3]),
      pick_all_false _ _ hmA, List.nil_append]
  have pka : k > 4 → pick ((A ++ B).map (fun r => r.sess == s)) ((A ++ B).filterMap (·.amp)) =
      pick (B.map (fun r => r.sess == s)) (B.filterMap (·.amp)) := by
    intro h4
    rw [List.map_append, List.filterMap_append, pick_append _ _ _ _ (by simp [hal A huA, h4]),
      pick_all_false _ _ hmA, List.nil_append]
  unfold readSession
  rw [hlast, hlast']
  simp only [hk]
  have hmask : ((A ++ B).map (fun r => r.sess == s)).all (· == false) =
      (B.map (fun r => r.sess == s)).all (· == false) := by
    rw [List.map_append, List.all_append, hallA, Bool.true_and]
  rw [hmask]
  by_cases hnone : (B.map (fun r => r.sess == s)).all (· == false) = true
  · simp only [hnone, if_true]
  · simp only [hnone, Bool.false_eq_true, if_false]
    rw [pk (·.cid), pk (·.onset)]
    by_cases h4 : k > 4
    · have h3 : k > 3 := by omega
      have hmin : min k 5 > 4 := by omega
      simp only [hmin, if_true, hdl (A ++ B) hu, hdl B huB, hal (A ++ B) hu, hal B huB, h3, h4,
        decide_true, ne_eq, not_true_eq_false, or_self, if_false, pkd h3, pka h4]
    · by_cases h3 : k > 3
      · have hmin : ¬ (min k 5 > 4) := by omega
        have hmin3 : min k 5 > 3 := by omega
        simp only [hmin, hmin3, if_false, if_true, hdl (A ++ B) hu, hdl B huB, h3, decide_true, ne_eq,
          not_true_eq_false, pkd h3]
      · have hmin : ¬ (min k 5 > 4) := by omega
        have hmin3 : ¬ (min k 5 > 3) := by omega
        simp only [hmin, hmin3, if_false]

/-! ## Non-vacuity -/

example : (⟨true, ["a", "b", "a"], [1, 2, 3], some [0, 2, 1], none⟩ : Paradigm).WF :=
  ⟨by decide, rfl, fun _ => ⟨_, rfl, rfl⟩, fun a h => by cases h⟩
example : UniformRows 4 (writeRows ⟨true, ["a", "b"], [1, 2], some [0, 2], none⟩ "s1") := by
  intro r hr
  simp [writeRows] at hr
  rcases hr with ⟨i, hi, rfl⟩
  simp

end NipyVerif.C07
