/-
C05 (wave 3) — `nipy.labs.glm.glm` on N-d blocks: the index bookkeeping.  Voxel `(i, j)` of the
`A × B` grid is flat column `i * B + j` of the same fibres fitted as a 2-D block, for every position of
the time axis; the `resize / .T / reshape` pipeline that builds the variance of a multi-row contrast
puts `(C nvbeta Cᵀ) * s2[i, j]` at voxel `(i, j)`.
-/
import NipyVerif.Model.C05E
import NipyVerif.Lemmas.C05B
import NipyVerif.Props.C05C

namespace NipyVerif.C05

/-! ## `(i, j) ↔ i * B + j` -/

theorem div_mod_flat {B i j : Nat} (h : j < B) : (i * B + j) / B = i ∧ (i * B + j) % B = j := by
  have hB : 0 < B := by omega
  constructor
  · rw [Nat.add_comm, Nat.add_mul_div_right _ _ hB, Nat.div_eq_of_lt h, Nat.zero_add]
  · rw [Nat.add_comm, Nat.add_mul_mod_self_right, Nat.mod_eq_of_lt h]

/-- flattening then un-flattening a voxel index gives the voxel back … -/
theorem unflat_flat {A B : Nat} (i : Fin A) (j : Fin B) :
    unflatI (flatIdx i j) = i ∧ unflatJ (flatIdx i j) = j := by
  obtain ⟨h1, h2⟩ := div_mod_flat (B := B) (i := i.1) j.2
  exact ⟨Fin.ext h1, Fin.ext h2⟩

/-- … and conversely: `(i, j) ↦ i * B + j` is a bijection between the grid and the flat columns. -/
theorem flat_unflat {A B : Nat} (c : Fin (A * B)) : flatIdx (unflatI c) (unflatJ c) = c := by
  apply Fin.ext
  simp only [flatIdx, unflatI, unflatJ]
  rw [Nat.mul_comm]
  exact Nat.div_add_mod c.1 B

/-- column `i * B + j` of the flattened block is the fibre through voxel `(i, j)` -/
theorem flatBlock_col {n A B : Nat} (fib : Fin A → Fin B → Vec n) (i : Fin A) (j : Fin B) (t : Fin n) :
    flatBlock fib t (flatIdx i j) = fib i j t := by
  unfold flatBlock
  rw [(unflat_flat i j).1, (unflat_flat i j).2]

/-! ## the fit of the grid is the fit of the flat block, voxel by voxel -/

/-- **every axis position**: whatever axis of the 3-D array carries time (the three `fib` of
    `labs_axis_fibrewise`), the `ols` engine's coefficients and residual variance at voxel `(i, j)` are
    those of column `i * B + j` of the 2-D fit of the same fibres. -/
theorem labs_nd_is_flat {n p A B : Nat} (X : Mat n p) (G : Mat p p)
    (hG : inv? (mmul (tr X) X) = some G) (fib : Fin A → Fin B → Vec n) :
    ∃ l, labsOls X (flatBlock fib) = some l ∧
      ∀ (i : Fin A) (j : Fin B),
        (∀ k : Fin p, (ndFitOls X (mmul G (tr X)) fib).beta i j k = l.beta k (flatIdx i j)) ∧
        (ndFitOls X (mmul G (tr X)) fib).s2 i j = l.s2 (flatIdx i j) ∧
        (ndFitOls X (mmul G (tr X)) fib).nvbeta = l.nvbeta := by
  unfold labsOls
  simp only [ofArr2_toArr2, ofArr1_toArr1, hG]
  refine ⟨_, rfl, ?_⟩
  intro i j
  refine ⟨?_, ?_, ?_⟩
  · intro k
    have := fibreTab_get (labsFibre X (mmul G (tr X))) fib i j ⟨k.1, by omega⟩
    simp only [ndFitOls]
    rw [this]
    simp only [labsFibre, ofArr1_toArr1, k.2, dif_pos, mvec, mmul, flatBlock_col]
  · have := fibreTab_get (labsFibre X (mmul G (tr X))) fib i j ⟨p, by omega⟩
    simp only [ndFitOls]
    rw [this]
    simp only [labsFibre, ofArr1_toArr1, lt_irrefl, dif_neg, not_false_eq_true, msub, mmul, vdot, mvec,
      flatBlock_col, fsum_eq]
  · simp only [ndFitOls, ofArr2_toArr2]

/-- the same for the Kalman engine (any per-fibre engine): the table of fibre results is indexed by
    the voxel, and the voxel is the un-flattened column. -/
theorem kalman_nd_is_flat {n p A B : Nat} (X : Mat n p) (fib : Fin A → Fin B → Vec n) (c : Fin (A * B))
    (k : Fin p) :
    (ndFitKalman X fib).beta (unflatI c) (unflatJ c) k = (kfFit X (fun t => flatBlock fib t c)).b k ∧
      (ndFitKalman X fib).s2 (unflatI c) (unflatJ c) = (kfFit X (fun t => flatBlock fib t c)).s2 := by
  have h1 := fibreTab_get (kalmanFibre X) fib (unflatI c) (unflatJ c) ⟨k.1, by omega⟩
  have h2 := fibreTab_get (kalmanFibre X) fib (unflatI c) (unflatJ c) ⟨p, by omega⟩
  simp only [ndFitKalman]
  rw [h1, h2]
  simp only [kalmanFibre, k.2, dif_pos, lt_irrefl, dif_neg, not_false_eq_true]
  exact ⟨rfl, rfl⟩

/-! ## the variance of a multi-row contrast: `resize`, `.T`, `reshape` -/

theorem flatQ_entry {q : Nat} (M : Mat q q) (x y : Fin q) : flatQ M (y.1 * q + x.1) = M y x := by
  have hlt : y.1 * q + x.1 < q * q := by
    have h1 : y.1 * q + x.1 < y.1 * q + q := Nat.add_lt_add_left x.2 _
    have h2 : y.1 * q + q = (y.1 + 1) * q := by rw [Nat.add_mul, Nat.one_mul]
    have h3 : (y.1 + 1) * q ≤ q * q := Nat.mul_le_mul_right _ y.2
    omega
  obtain ⟨h1, h2⟩ := div_mod_flat (B := q) (i := y.1) x.2
  unfold flatQ
  rw [dif_pos hlt]
  congr 1
  · exact Fin.ext h1
  · exact Fin.ext h2

/-- **the pipeline as written puts `M[y, x] · s2[i, j]` at `[x, y, i, j]`**: the `q × q` block is
    repeated by `np.resize`, transposed as a whole by `.T`, and multiplied with `s2` read in the C order
    of the voxel grid — each voxel gets its own `s2`, for every grid shape (singleton axes included). -/
theorem ndVarPipeline_eq {A B q : Nat} (M : Mat q q) (s2 : Fin A → Fin B → Rat)
    (x y : Fin q) (i : Fin A) (j : Fin B) :
    ndVarPipeline M s2 x y i j = M y x * s2 i j := by
  have hlt : y.1 * q + x.1 < q * q := by
    have h1 : y.1 * q + x.1 < y.1 * q + q := Nat.add_lt_add_left x.2 _
    have h2 : y.1 * q + q = (y.1 + 1) * q := by rw [Nat.add_mul, Nat.one_mul]
    have h3 : (y.1 + 1) * q ≤ q * q := Nat.mul_le_mul_right _ y.2
    omega
  have key : ∀ k : Nat, ((k * q + y.1) * q + x.1) % (q * q) = y.1 * q + x.1 := by
    intro k
    have e : (k * q + y.1) * q + x.1 = q * q * k + (y.1 * q + x.1) := by ring
    rw [e, Nat.mul_add_mod, Nat.mod_eq_of_lt hlt]
  simp only [ndVarPipeline, key, flatQ_entry]

/-- with a symmetric `nvbeta` (`pinv(X) pinv(X)ᵀ`, or the Kalman covariance by
    `kalman_cov_symmetric`) the transposition is invisible: the variance is `(C nvbeta Cᵀ)[x, y] · s2`. -/
theorem ndVar_symmetric {p A B q : Nat} (f : NdFit p A B) (hs : ∀ a b, f.nvbeta a b = f.nvbeta b a)
    (C : Mat q p) (x y : Fin q) (i : Fin A) (j : Fin B) :
    ndVarPipeline (ndM f C) f.s2 x y i j = ndM f C x y * f.s2 i j := by
  rw [ndVarPipeline_eq]
  congr 1
  simp only [ndM, fsum_eq, Finset.mul_sum]
  rw [Finset.sum_comm]
  apply Finset.sum_congr rfl; intro l _
  apply Finset.sum_congr rfl; intro k _
  rw [hs k l]; ring

/-- **grid = flat block for contrasts**: effect and variance (any number of rows) of voxel `(i, j)`
    are those of column `i * B + j` when the same per-voxel results are stored as an `(A·B) × 1` grid
    (which is how a 2-D block is handled). -/
theorem nd_contrast_is_flat {p A B q : Nat} (f : NdFit p A B) (C : Mat q p)
    (x y : Fin q) (i : Fin A) (j : Fin B) :
    let f' : NdFit p (A * B) 1 :=
      { beta := fun c _ => f.beta (unflatI c) (unflatJ c), s2 := fun c _ => f.s2 (unflatI c) (unflatJ c),
        nvbeta := f.nvbeta }
    ndEffect f C x i j = ndEffect f' C x (flatIdx i j) 0 ∧
      ndVarPipeline (ndM f C) f.s2 x y i j = ndVarPipeline (ndM f' C) f'.s2 x y (flatIdx i j) 0 := by
  intro f'
  constructor
  · simp only [ndEffect, f', (unflat_flat i j).1, (unflat_flat i j).2]
  · rw [ndVarPipeline_eq, ndVarPipeline_eq]
    simp only [f', (unflat_flat i j).1, (unflat_flat i j).2]
    rfl

/-- non-vacuity: a 2 × 3 grid -/
example : (flatIdx (A := 2) (B := 3) 1 2).1 = 5 ∧ unflatI (A := 2) (B := 3) 5 = 1 ∧ unflatJ (A := 2) (B := 3) 5 = 2 := by
  decide

end NipyVerif.C05
