/-
C15 — property theorems about the model in `NipyVerif.Model.C15`
(Euler characteristic / intrinsic volumes of lattice-triangulated masks, the
polynomial part of the EC densities).  Only property statements and their
non-vacuity examples live here.
-/
import NipyVerif.Lemmas.C15

namespace NipyVerif.C15

/-! ## The per-voxel tables are the lattice (Kuhn) triangulation -/

/-- **Clause "the simplicial complex the documentation describes".**  In every
    dimension `d = 1, 2, 3` and for `k = 2, 3, 4` vertices, the table the code
    derives from its hard-coded maximal simplices (faces of the cube at the
    voxel, minus everything shared with a forward neighbour cube) is exactly
    the set of `k`-vertex chains `0 < a₁ < … < a_{k-1}` of corners of the unit
    cube — the simplices of the lattice triangulation whose lowest vertex is
    the voxel itself. -/
theorem tables_are_kuhn_chains (d k : Nat) (hd : d = 1 ∨ d = 2 ∨ d = 3) (hk : k = 2 ∨ k = 3 ∨ k = 4)
    (s : List Pt) : s ∈ table d k ↔ s ∈ kuhnChains d k := by
  rcases hd with rfl | rfl | rfl <;> rcases hk with rfl | rfl | rfl <;>
    exact mem_iff_of_all _ _ (by decide +kernel) s

/-- no simplex is listed twice in a table -/
theorem tables_nodup (d k : Nat) (hd : d = 1 ∨ d = 2 ∨ d = 3) (hk : k = 2 ∨ k = 3 ∨ k = 4) :
    (table d k).Nodup := by
  rcases hd with rfl | rfl | rfl <;> rcases hk with rfl | rfl | rfl <;> decide +kernel

/-- **Each simplex of the complex is owned by exactly one voxel.**  If the same
    vertex list arises from voxel `x` with table entry `s` and from voxel `y`
    with table entry `s'` (any dimensions of simplices), then `x = y` and
    `s = s'`: the alternating count visits every simplex of the complex once. -/
theorem simplex_owner_unique (d k k' : Nat) (hd : d = 1 ∨ d = 2 ∨ d = 3)
    (hk : k = 2 ∨ k = 3 ∨ k = 4) (hk' : k' = 2 ∨ k' = 3 ∨ k' = 4)
    (x y : Pt) (s s' : List Pt) (hs : s ∈ table d k) (hs' : s' ∈ table d k')
    (h : s.map (padd x) = s'.map (padd y)) : x = y ∧ s = s' := by
  have head0 : ∀ k t, (k = 2 ∨ k = 3 ∨ k = 4) → t ∈ table d k → ∃ r, t = (0, 0, 0) :: r := by
    intro k t hk ht
    have := (tables_are_kuhn_chains d k hd hk t).1 ht
    simp only [kuhnChains, List.mem_filter, Bool.and_eq_true, beq_iff_eq] at this
    cases t with
    | nil => simp at this
    | cons a r => simp only [List.head?_cons, Option.some.injEq] at this; exact ⟨r, by rw [this.2.1]⟩
  obtain ⟨r, rfl⟩ := head0 k s hk hs
  obtain ⟨r', rfl⟩ := head0 k' s' hk' hs'
  simp only [List.map_cons, List.cons.injEq] at h
  have hxy : x = y := by
    have := h.1
    simp only [padd, Nat.add_zero] at this
    exact this
  subst hxy
  refine ⟨rfl, ?_⟩
  have inj : Function.Injective (padd x) := by
    intro ⟨a1, a2, a3⟩ ⟨b1, b2, b3⟩ hab
    simp only [padd, Prod.mk.injEq] at hab ⊢
    omega
  rw [List.map_inj_right (fun a b hab => inj hab)] at h
  rw [h.2]

/-! ## What the loops compute -/

/-- `EC3d` is the sum over the voxels of the alternating count
    `1 − edges + triangles − tetrahedra` of the six Kuhn tetrahedra of the cube
    at the voxel (vertex term `fpmask.sum()` folded in). -/
theorem ec3_explicit (n0 n1 n2 : Nat) (M : Field) :
    ec3 n0 n1 n2 M = sum3 n0 n1 n2 (fun i j k =>
      kuhn3 (M i j k) (M (i + 1) j k) (M i (j + 1) k) (M (i + 1) (j + 1) k)
        (M i j (k + 1)) (M (i + 1) j (k + 1)) (M i (j + 1) (k + 1)) (M (i + 1) (j + 1) (k + 1))) := by
  unfold ec3; exact sum3_congr (fun i j k _ _ _ => voxelEC_3 M i j k)

/-- `EC1d` as written (no padding, `% s0` with the `(i+1) < s0` guard) is the
    Euler characteristic `vertices − edges` of the padded 1-d complex. -/
theorem ec1Code_eq (s0 : Nat) (M : Field) (hM : ∀ i, s0 ≤ i → M i 0 0 = 0) :
    ec1Code s0 (fun i => M i 0 0) = ec1 s0 M := by
  unfold ec1Code ec1 sum3
  refine sumN_congr (fun i hi => ?_)
  rw [sumN_one, sumN_one]
  beta_reduce
  rw [voxelEC_1]
  by_cases h : i + 1 < s0
  · rw [Nat.mod_eq_of_lt h]; simp only [h, if_true]; ring
  · have : M (i + 1) 0 0 = 0 := hM _ (by omega)
    simp only [h, if_false, this]; ring

/-- **`EC2d` computes the Euler characteristic of the 2-d complex**: the loops
    as they stand (every triangle gated by `if m:` only — also the triangles of
    the cell at the array origin) are the alternating count
    `vertices − edges + triangles` of the lattice triangulation of the mask. -/
theorem ec2Code_eq (n0 n1 : Nat) (M : Field) : ec2Code n0 n1 M = ec2 n0 n1 M := by
  unfold ec2Code ec2 sum3
  refine sumN_congr (fun i _ => sumN_congr (fun j _ => ?_))
  rw [sumN_one]
  simp only [voxelEC2Code, voxelEC, table_2_4, contrib, List.map, List.sum_nil, sub_zero]

/-! ## Solid boxes -/

/-- **A solid box has Euler characteristic 1** — every `a, b, c ≥ 1`, wherever
    its far faces touch the array border (the array is exactly the box). -/
theorem ec3_box (a b c : Nat) (ha : 1 ≤ a) (hb : 1 ≤ b) (hc : 1 ≤ c) :
    ec3 a b c (boxF a b c) = 1 := by
  rw [ec3_explicit]
  have key : ∀ i j k, kuhn3 (boxF a b c i j k) (boxF a b c (i + 1) j k) (boxF a b c i (j + 1) k)
      (boxF a b c (i + 1) (j + 1) k) (boxF a b c i j (k + 1)) (boxF a b c (i + 1) j (k + 1))
      (boxF a b c i (j + 1) (k + 1)) (boxF a b c (i + 1) (j + 1) (k + 1))
      = lastI a i * lastI b j * lastI c k := by
    intro i j k
    simp only [boxF, kuhn3]
    rcases ind_cases a i with ⟨h1, h2, h3⟩ | ⟨h1, h2, h3⟩ | ⟨h1, h2, h3⟩ <;>
    rcases ind_cases b j with ⟨g1, g2, g3⟩ | ⟨g1, g2, g3⟩ | ⟨g1, g2, g3⟩ <;>
    rcases ind_cases c k with ⟨f1, f2, f3⟩ | ⟨f1, f2, f3⟩ | ⟨f1, f2, f3⟩ <;>
    simp only [h1, h2, h3, g1, g2, g3, f1, f2, f3] <;> norm_num
  simp only [key]
  rw [sum3_prod, sumN_lastI a ha, sumN_lastI b hb, sumN_lastI c hc]; rfl

/-- the same in two dimensions (`EC2d` through `ec2Code_eq`, and `Lips2d`'s `l0`) -/
theorem ec2_box (a b : Nat) (ha : 1 ≤ a) (hb : 1 ≤ b) : ec2 a b (boxF a b 1) = 1 := by
  unfold ec2
  have key : ∀ i j k, voxelEC 2 (boxF a b 1) (i, j, k) = lastI a i * lastI b j * ind 1 k := by
    intro i j k
    rw [voxelEC_2]
    simp only [boxF, kuhn2]
    rcases ind_cases a i with ⟨h1, h2, h3⟩ | ⟨h1, h2, h3⟩ | ⟨h1, h2, h3⟩ <;>
    rcases ind_cases b j with ⟨g1, g2, g3⟩ | ⟨g1, g2, g3⟩ | ⟨g1, g2, g3⟩ <;>
    rcases ind01 1 k with f1 | f1 <;>
    simp only [h1, h2, h3, g1, g2, g3, f1] <;> norm_num
  simp only [key]
  rw [sum3_prod, sumN_lastI a ha, sumN_lastI b hb]; simp [sumN, ind]

theorem ec1_box (a : Nat) (ha : 1 ≤ a) : ec1 a (boxF a 1 1) = 1 := by
  unfold ec1
  have key : ∀ i j k, voxelEC 1 (boxF a 1 1) (i, j, k) = lastI a i * ind 1 j * ind 1 k := by
    intro i j k
    rw [voxelEC_1]
    simp only [boxF]
    rcases ind_cases a i with ⟨h1, h2, h3⟩ | ⟨h1, h2, h3⟩ | ⟨h1, h2, h3⟩ <;>
    rcases ind01 1 j with g1 | g1 <;> rcases ind01 1 k with f1 | f1 <;>
    simp only [h1, h2, h3, g1, f1] <;> norm_num
  simp only [key]
  rw [sum3_prod, sumN_lastI a ha]; simp [sumN, ind]

/-! ## Position in the array, padding, thin slabs, axis permutations -/

/-- the mask is zero outside `[0,n0) × [0,n1) × [0,n2)` -/
def SuppIn (n0 n1 n2 : Nat) (M : Field) : Prop :=
  ∀ i j k, ¬ (i < n0 ∧ j < n1 ∧ k < n2) → M i j k = 0

/-- translate a mask by `(t0, t1, t2)`, zero-filled -/
def shiftF (t0 t1 t2 : Nat) (M : Field) : Field := fun i j k =>
  if t0 ≤ i ∧ t1 ≤ j ∧ t2 ≤ k then M (i - t0) (j - t1) (k - t2) else 0

/-- **Padding.**  Enlarging the array around a mask (zeros appended on the far
    side of every axis) does not change the Euler characteristic. -/
theorem ec3_padding_invariant (n0 n1 n2 m0 m1 m2 : Nat) (M : Field)
    (h0 : n0 ≤ m0) (h1 : n1 ≤ m1) (h2 : n2 ≤ m2) (hM : SuppIn n0 n1 n2 M) :
    ec3 m0 m1 m2 M = ec3 n0 n1 n2 M := by
  rw [ec3_explicit, ec3_explicit]
  exact sum3_mono h0 h1 h2 (fun i j k hn => by rw [hM i j k hn, kuhn3_zero])

/-- **Translation.**  Moving the mask by any offset inside a correspondingly
    larger array does not change the Euler characteristic. -/
theorem ec3_translation_invariant (t0 t1 t2 n0 n1 n2 : Nat) (M : Field) :
    ec3 (t0 + n0) (t1 + n1) (t2 + n2) (shiftF t0 t1 t2 M) = ec3 n0 n1 n2 M := by
  rw [ec3_explicit, ec3_explicit]
  have sh : ∀ i j k, shiftF t0 t1 t2 M (t0 + i) (t1 + j) (t2 + k) = M i j k := by
    intro i j k; simp [shiftF]
  rw [sum3_shift]
  · refine sum3_congr (fun i j k _ _ _ => ?_)
    simp only [Nat.add_assoc, sh]
  · intro i j k h
    have : shiftF t0 t1 t2 M i j k = 0 := by
      unfold shiftF
      rw [if_neg]; omega
    rw [this, kuhn3_zero]

/-- **Position and padding together**: a mask supported in an `n`-array, moved
    by `t` and put in any array that still contains it, keeps its Euler
    characteristic. -/
theorem ec3_position_padding_invariant (t0 t1 t2 n0 n1 n2 m0 m1 m2 : Nat) (M : Field)
    (hM : SuppIn n0 n1 n2 M) (h0 : t0 + n0 ≤ m0) (h1 : t1 + n1 ≤ m1) (h2 : t2 + n2 ≤ m2) :
    ec3 m0 m1 m2 (shiftF t0 t1 t2 M) = ec3 n0 n1 n2 M := by
  rw [← ec3_translation_invariant t0 t1 t2 n0 n1 n2 M]
  refine ec3_padding_invariant _ _ _ _ _ _ _ h0 h1 h2 ?_
  intro i j k hn
  unfold shiftF
  split_ifs with h
  · exact hM _ _ _ (by omega)
  · rfl

/-- **Thin slab.**  A 2-d mask embedded as the slab `k = 0` of a 3-d array has
    the Euler characteristic of the 2-d complex. -/
theorem ec3_slab_embedding (a b : Nat) (M : Field) (hM : ∀ i j k, 1 ≤ k → M i j k = 0) :
    ec3 a b 1 M = ec2 a b M := by
  unfold ec3 ec2
  refine sum3_congr (fun i j k _ _ hk => ?_)
  have : k = 0 := by omega
  subst this
  rw [voxelEC_3, voxelEC_2]
  simp only [hM _ _ 1 (le_refl 1), kuhn3, kuhn2]
  ring

/-- a 1-d mask embedded as a thin strip of a 2-d array -/
theorem ec2_strip_embedding (a : Nat) (M : Field) (hM : ∀ i j k, 1 ≤ j → M i j k = 0) :
    ec2 a 1 M = ec1 a M := by
  unfold ec2 ec1
  refine sum3_congr (fun i j k _ hj _ => ?_)
  have : j = 0 := by omega
  subst this
  rw [voxelEC_2, voxelEC_1]
  simp only [hM _ (0 + 1) _ (by omega), kuhn2]
  ring

/-- **Axis permutation** (first two axes) -/
theorem ec3_swap01 (a b c : Nat) (M : Field) :
    ec3 b a c (fun j i k => M i j k) = ec3 a b c M := by
  rw [ec3_explicit, ec3_explicit, sum3_swap01 a b c]
  refine sum3_congr (fun j i k _ _ _ => ?_)
  simp only [kuhn3]; ring

/-- **Axis permutation** (last two axes); with `ec3_swap01` this generates all
    six permutations of the axes. -/
theorem ec3_swap12 (a b c : Nat) (M : Field) :
    ec3 a c b (fun i k j => M i j k) = ec3 a b c M := by
  rw [ec3_explicit, ec3_explicit, sum3_swap12 a b c]
  refine sum3_congr (fun i k j _ _ _ => ?_)
  simp only [kuhn3]; ring

/-- transposing a 2-d mask -/
theorem ec2_transpose (a b : Nat) (M : Field) :
    ec2 b a (fun j i k => M i j k) = ec2 a b M := by
  unfold ec2
  rw [sum3_swap01 a b 1]
  refine sum3_congr (fun j i k _ _ _ => ?_)
  rw [voxelEC_2, voxelEC_2]; simp only [kuhn2]; ring

/-! ## Gram determinants: volume, area, length -/

/-- **`v2` of `mu3_tet` is the Gram determinant**: for vertices `p₀ … p₃ ∈ ℚ³`
    with `D_ij = p_i · p_j`, `v2 = det[p₀−p₃, p₁−p₃, p₂−p₃]²`, so
    `sqrt(v2)/6` is the volume of the tetrahedron. -/
theorem tetV2_gram (x0 y0 z0 x1 y1 z1 x2 y2 z2 x3 y3 z3 : Rat) :
    tetV2 (x0*x0+y0*y0+z0*z0) (x0*x1+y0*y1+z0*z1) (x0*x2+y0*y2+z0*z2) (x0*x3+y0*y3+z0*z3)
      (x1*x1+y1*y1+z1*z1) (x1*x2+y1*y2+z1*z2) (x1*x3+y1*y3+z1*z3)
      (x2*x2+y2*y2+z2*z2) (x2*x3+y2*y3+z2*z3) (x3*x3+y3*y3+z3*z3)
    = ((x0-x3) * ((y1-y3)*(z2-z3) - (z1-z3)*(y2-y3)) - (y0-y3) * ((x1-x3)*(z2-z3) - (z1-z3)*(x2-x3))
        + (z0-z3) * ((x1-x3)*(y2-y3) - (y1-y3)*(x2-x3))) ^ 2 := by
  simp only [tetV2]; ring

/-- **Box tetrahedra have volume `h₀h₁h₂/6`**: for a voxel at `(x,y,z)` with
    axis-aligned steps `h₀, h₁, h₂`, each of the six Kuhn tetrahedra
    (origin → one step → two steps → three steps, in any order of the axes)
    has `v2 = (h₀ h₁ h₂)²`; six of them fill the cell of volume `h₀h₁h₂`. -/
theorem tetV2_box_cell (x y z h0 h1 h2 : Rat) :
    let D := fun (p q : Rat × Rat × Rat) => p.1 * q.1 + p.2.1 * q.2.1 + p.2.2 * q.2.2
    let v2 := fun (p0 p1 p2 p3 : Rat × Rat × Rat) =>
      tetV2 (D p0 p0) (D p0 p1) (D p0 p2) (D p0 p3) (D p1 p1) (D p1 p2) (D p1 p3) (D p2 p2) (D p2 p3) (D p3 p3)
    let o := (x, y, z); let f := (x + h0, y + h1, z + h2)
    v2 o (x + h0, y, z) (x + h0, y + h1, z) f = (h0 * h1 * h2) ^ 2 ∧
    v2 o (x + h0, y, z) (x + h0, y, z + h2) f = (h0 * h1 * h2) ^ 2 ∧
    v2 o (x, y + h1, z) (x + h0, y + h1, z) f = (h0 * h1 * h2) ^ 2 ∧
    v2 o (x, y + h1, z) (x, y + h1, z + h2) f = (h0 * h1 * h2) ^ 2 ∧
    v2 o (x, y, z + h2) (x + h0, y, z + h2) f = (h0 * h1 * h2) ^ 2 ∧
    v2 o (x, y, z + h2) (x, y + h1, z + h2) f = (h0 * h1 * h2) ^ 2 := by
  simp only [tetV2]
  refine ⟨?_, ?_, ?_, ?_, ?_, ?_⟩ <;> ring

/-- **Volume of a solid box, counting part.**  In a solid `a × b × c` box of
    voxels exactly `6 (a−1)(b−1)(c−1)` tetrahedra pass the mask test of the
    `Lips3d` loop (six per lattice cell, none hanging over the border). -/
theorem box_tet_count (a b c : Nat) (ha : 1 ≤ a) (hb : 1 ≤ b) (hc : 1 ≤ c) :
    sum3 a b c (fun i j k => contrib (table 3 4) (boxF a b c) (i, j, k))
      = 6 * ((a : Int) - 1) * ((b : Int) - 1) * ((c : Int) - 1) := by
  have key : ∀ i j k, contrib (table 3 4) (boxF a b c) (i, j, k)
      = (6 * ind a (i + 1)) * ind b (j + 1) * ind c (k + 1) := by
    intro i j k
    simp only [contrib, table_3_4, List.map, List.sum_cons, List.sum_nil, prodAt, fat, Nat.add_zero, boxF]
    rcases ind_cases a i with ⟨h1, h2, _⟩ | ⟨h1, h2, _⟩ | ⟨h1, h2, _⟩ <;>
    rcases ind_cases b j with ⟨g1, g2, _⟩ | ⟨g1, g2, _⟩ | ⟨g1, g2, _⟩ <;>
    rcases ind_cases c k with ⟨f1, f2, _⟩ | ⟨f1, f2, _⟩ | ⟨f1, f2, _⟩ <;>
    simp only [h1, h2, g1, g2, f1, f2] <;> norm_num
  simp only [key]
  rw [sum3_prod, sumN_mul_left, sumN_ind_succ, sumN_ind_succ, sumN_ind_succ,
    Nat.min_eq_right (Nat.sub_le a 1), Nat.min_eq_right (Nat.sub_le b 1), Nat.min_eq_right (Nat.sub_le c 1)]
  push_cast [Nat.cast_sub ha, Nat.cast_sub hb, Nat.cast_sub hc]
  ring

/-- **`mu3` of a solid box is `abc`, arithmetic step** (the whole-loop statement is
    `lips3_box_volume` in Props/C15B; `sqrt` as a parameter `sq`): the
    `6 (n₀−1)(n₁−1)(n₂−1)` tetrahedra of `box_tet_count`, each of volume
    `sq(v2)/6` with `v2 = (h₀h₁h₂)²` (`tetV2_box_cell`), add up to the product
    of the edge lengths `(n_i − 1) h_i` measured in the supplied coordinates. -/
theorem box_volume_arith (n0 n1 n2 : Nat) (h0 h1 h2 : Rat) (sq : Rat → Rat)
    (hsq : sq ((h0 * h1 * h2) ^ 2) = h0 * h1 * h2) :
    (6 * ((n0 : Rat) - 1) * ((n1 : Rat) - 1) * ((n2 : Rat) - 1)) * (sq ((h0 * h1 * h2) ^ 2) / 6)
      = (((n0 : Rat) - 1) * h0) * (((n1 : Rat) - 1) * h1) * (((n2 : Rat) - 1) * h2) := by
  rw [hsq]; ring

/-- `L` of `mu2_tri` is Lagrange's identity: `|e₁|²|e₂|² − (e₁·e₂)² = |e₁ × e₂|²`
    with `e_i = p_i − p₀`, so `sqrt(L)/2` is the area. -/
theorem triL_cross (x0 y0 z0 x1 y1 z1 x2 y2 z2 : Rat) :
    triL (x0*x0+y0*y0+z0*z0) (x0*x1+y0*y1+z0*z1) (x0*x2+y0*y2+z0*z2)
      (x1*x1+y1*y1+z1*z1) (x1*x2+y1*y2+z1*z2) (x2*x2+y2*y2+z2*z2)
    = ((y1-y0)*(z2-z0) - (z1-z0)*(y2-y0)) ^ 2 + ((z1-z0)*(x2-x0) - (x1-x0)*(z2-z0)) ^ 2
      + ((x1-x0)*(y2-y0) - (y1-y0)*(x2-x0)) ^ 2 := by
  simp only [triL]; ring

/-- the argument of the `sqrt` in `mu1_edge` is the squared distance -/
theorem edgeSq_dist (x0 y0 z0 x1 y1 z1 : Rat) :
    edgeSq (x0*x0+y0*y0+z0*z0) (x0*x1+y0*y1+z0*z1) (x1*x1+y1*y1+z1*z1)
    = (x1-x0)^2 + (y1-y0)^2 + (z1-z0)^2 := by
  simp only [edgeSq]; ring

/-- **Rescaling of coordinates**: multiplying every coordinate by `s` multiplies
    all dot products by `s²`, hence squared length, squared (2·area) and squared
    (6·volume) by `s²`, `s⁴`, `s⁶`: `mu₁, mu₂, mu₃` scale by `|s|, s², |s|³`. -/
theorem mu_sq_rescale (s D00 D01 D02 D03 D11 D12 D13 D22 D23 D33 : Rat) :
    edgeSq (s^2*D00) (s^2*D01) (s^2*D11) = s^2 * edgeSq D00 D01 D11 ∧
    triL (s^2*D00) (s^2*D01) (s^2*D02) (s^2*D11) (s^2*D12) (s^2*D22) = s^4 * triL D00 D01 D02 D11 D12 D22 ∧
    tetV2 (s^2*D00) (s^2*D01) (s^2*D02) (s^2*D03) (s^2*D11) (s^2*D12) (s^2*D13) (s^2*D22) (s^2*D23) (s^2*D33)
      = s^6 * tetV2 D00 D01 D02 D03 D11 D12 D13 D22 D23 D33 := by
  simp only [edgeSq, triL, tetV2]
  refine ⟨?_, ?_, ?_⟩ <;> ring

/-- the Gram quantities do not depend on where the simplex sits: translating
    all vertices by `(u, v, w)` leaves `edgeSq` unchanged (same for `triL`,
    `tetV2` through `triL_cross`, `tetV2_gram`, whose right-hand sides only
    contain coordinate differences). -/
theorem edgeSq_translate (x0 y0 z0 x1 y1 z1 u v w : Rat) :
    edgeSq ((x0+u)*(x0+u)+(y0+v)*(y0+v)+(z0+w)*(z0+w)) ((x0+u)*(x1+u)+(y0+v)*(y1+v)+(z0+w)*(z1+w))
      ((x1+u)*(x1+u)+(y1+v)*(y1+v)+(z1+w)*(z1+w))
    = edgeSq (x0*x0+y0*y0+z0*z0) (x0*x1+y0*y1+z0*z1) (x1*x1+y1*y1+z1*z1) := by
  simp only [edgeSq]; ring

/-! ## EC densities: the polynomial part -/

/-- **Hermite recursion** of the polynomials `Q(dim)` (`dfd = inf`):
    `He_{n+1}(x) = x·He_n(x) − He_n'(x)`, as values. -/
theorem hermite_succ_eval (n : Nat) (x : Rat) :
    peval (hermite (n + 1)) x = x * peval (hermite n) x - peval (pderiv (hermite n)) x := by
  simp only [hermite, peval_padd', peval_pmulX, peval_pscale]; ring

/-- `ECquasi.__mul__`: numerators multiply (values multiply, exponents add) -/
theorem quasi_mul_value (a b c : Quasi) (h : a.mul b = some c) (x : Rat) :
    peval c.num x = peval a.num x * peval b.num x ∧ c.expo2 = a.expo2 + b.expo2 := by
  unfold Quasi.mul at h
  split_ifs at h
  simp only [Option.some.injEq] at h
  subst h
  exact ⟨peval_pmul _ _ _, rfl⟩

/-- `ECquasi.change_exponent(k)` does not change the represented function:
    the numerator is multiplied by `(1 + x²/m)^k` while the exponent grows by `k`. -/
theorem quasi_change_exponent_value (q : Quasi) (k : Nat) (x : Rat) :
    peval (q.changeExponent k).num x = peval q.num x * (1 + x * x / q.m) ^ k ∧
    (q.changeExponent k).expo2 = q.expo2 + 2 * k := by
  simp only [Quasi.changeExponent, peval_pmul, peval_ppow, peval_denom, and_self]

/-- **`ECquasi.__add__` adds the represented functions** (`r` plays the role of
    `sqrt(1 + x²/m)`: the value of a quasi-polynomial is `num(x) / r^(2·exponent)`). -/
theorem quasi_add_value (a b c : Quasi) (h : a.add b = some c) (x r : Rat)
    (hr : r * r = 1 + x * x / a.m) (hr0 : r ≠ 0) :
    peval c.num x / r ^ c.expo2 = peval a.num x / r ^ a.expo2 + peval b.num x / r ^ b.expo2 := by
  unfold Quasi.add at h
  split_ifs at h with hc
  simp only [Option.some.injEq] at h
  subst h
  simp only [not_or, ne_eq, not_not] at hc
  obtain ⟨hm, hpar⟩ := hc
  simp only [peval_padd', (quasi_change_exponent_value _ _ _).1]
  rw [← hm, ← hr]
  have key : ∀ (e M : Nat), e ≤ M → e % 2 = M % 2 → (r * r) ^ ((M - e) / 2) * r ^ e = r ^ M := by
    intro e M hle hp
    obtain ⟨t, ht⟩ : ∃ t, M - e = 2 * t := ⟨(M - e) / 2, by omega⟩
    have hM : M = e + 2 * t := by omega
    rw [ht, Nat.mul_div_cancel_left _ (by norm_num : 0 < 2), hM, ← pow_two, ← pow_mul, pow_add]; ring
  have ka := key a.expo2 (max a.expo2 b.expo2) (le_max_left _ _) (by
    rcases max_cases a.expo2 b.expo2 with ⟨h, _⟩ | ⟨h, _⟩ <;> rw [h] <;> omega)
  have kb := key b.expo2 (max a.expo2 b.expo2) (le_max_right _ _) (by
    rcases max_cases a.expo2 b.expo2 with ⟨h, _⟩ | ⟨h, _⟩ <;> rw [h] <;> omega)
  have hpa : r ^ a.expo2 ≠ 0 := pow_ne_zero _ hr0
  have hpb : r ^ b.expo2 ≠ 0 := pow_ne_zero _ hr0
  have hpm : r ^ (max a.expo2 b.expo2) ≠ 0 := pow_ne_zero _ hr0
  rw [div_add_div _ _ hpa hpb, div_eq_div_iff hpm (mul_ne_zero hpa hpb)]
  linear_combination (peval a.num x * r ^ b.expo2) * ka + (peval b.num x * r ^ a.expo2) * kb

/-! ## Non-vacuity -/

/-- `hsq` of `box_volume_arith` only asks `sq` for the non-negative root at one argument
    (steps 2, 1, 1/2: `sq 1 = 1`) -/
example : (fun _ : Rat => (1 : Rat)) (((2 : Rat) * 1 * (1 / 2)) ^ 2) = 2 * 1 * (1 / 2) := by norm_num

/-- a 2×3×2 box of voxels has 6·1·2·1 = 12 tetrahedra -/
example : sum3 2 3 2 (fun i j k => contrib (table 3 4) (boxF 2 3 2) (i, j, k)) = 12 := by decide +kernel

/-- the solid 3×4 mask (both triangles of the origin cell present): `EC2d` gives 1 -/
example : ec2Code 3 4 (boxF 3 4 1) = 1 := by decide +kernel

example : SuppIn 2 2 2 (boxF 2 2 2) := by
  intro i j k h
  simp only [boxF, ind]
  split_ifs <;> first | omega | simp

/-- a hollow 3×3 ring has Euler characteristic 0 (non-trivial value of the count) -/
example : ec2 3 3 (fun i j k => if i < 3 ∧ j < 3 ∧ k < 1 ∧ ¬ (i = 1 ∧ j = 1) then 1 else 0) = 0 := by
  decide +kernel

example : hermite 4 = [3, 0, -6, 0, 1] := by decide +kernel

example : ∃ c, Quasi.add ⟨[1, 2], 4, 3⟩ ⟨[5], 4, 1⟩ = some c ∧ c.expo2 = 3 := ⟨_, rfl, rfl⟩

end NipyVerif.C15
