/-
C17 (part D) — `permutation_test.py`: every p-value kind lies in (0, 1], because the identity
relabelling (magic number 0, always the first relabelling `calibrate` uses) reproduces the
observed statistic.

  voxel level      `pvalue()` (clamped at 1/ndraws), `p_values`, `Corr_p_values` (Tmax)
  cluster level    `size_p_values`, `size_Corr_p_values`, `Fisher_p_values`, `Fisher_Corr_p_values`
  region level     `Fisher_p_values`, `Fisher_Corr_p_values` (rank based, min over regions)
  thresholds       `height_threshold(pval)`: at most a fraction `pval` of the null draws reaches it
-/
import NipyVerif.Lemmas.C17P
import NipyVerif.Props.C17B

namespace NipyVerif.C17

/-! ## The identity relabelling reproduces the observed statistic -/

/-- one sample: the statistic map under magic number 0 is the observed statistic map -/
theorem identity_relabelling_reproduces_observed (stat : List Rat → Rat) (voxels : List (List Rat))
    (ms : List Nat) :
    (permMapsOne stat voxels (0 :: ms)).head? = some (voxels.map stat) := by
  simp [permMapsOne, signs_identity]

/-- two samples -/
theorem identity_relabelling_reproduces_observed_twosample (stat : List Rat → List Rat → Rat)
    (voxels : List (List Rat × List Rat)) (ms : List Nat) :
    (permMapsTwo stat voxels (0 :: ms)).head? = some (voxels.map fun v => stat v.1 v.2) := by
  simp [permMapsTwo, twosample_identity]

/-! ## Voxel level -/

/-- `pvalue()` as it is now written (`np.maximum(1 - searchsorted/ndraws, 1/ndraws)`) lies in
    (0, 1] for **every** statistic value and every non-empty null sample — no hypothesis on `t` -/
theorem pvalue_p_in_unit (draws : List Rat) (t : Rat) (hne : draws ≠ []) :
    0 < pvalueClamped draws t ∧ pvalueClamped draws t ≤ 1 := by
  have hpos : (0 : Rat) < draws.length := by exact_mod_cast List.length_pos_iff.mpr hne
  have h1 : (0 : Rat) < 1 / draws.length := div_pos one_pos hpos
  have h2 : (1 : Rat) / draws.length ≤ 1 := by
    rw [div_le_one hpos]; exact_mod_cast List.length_pos_iff.mpr hne
  unfold pvalueClamped rmax
  split
  · exact ⟨by linarith, pvalue_le_one' _ _⟩
  · exact ⟨h1, h2⟩

/-- when some draw reaches `t` the clamp is not active: the value is the plain pseudo p-value -/
theorem pvalueClamped_eq_pvalue (draws : List Rat) (t : Rat) (h : ∃ d ∈ draws, t ≤ d) :
    pvalueClamped draws t = pvalue draws t := by
  obtain ⟨d, hd, hle⟩ := h
  have hpos : (0 : Rat) < draws.length := by exact_mod_cast List.length_pos_of_mem hd
  have hlt : searchsorted draws t < draws.length := by
    unfold searchsorted
    rw [List.length_filter_lt_length_iff_exists]
    exact ⟨d, hd, by simpa using hle⟩
  have hge : (1 : Rat) / draws.length ≤ pvalue draws t := by
    unfold pvalue
    have : ((searchsorted draws t : Nat) : Rat) + 1 ≤ draws.length := by exact_mod_cast hlt
    rw [div_le_iff₀ hpos, sub_mul, div_mul_cancel₀ _ (ne_of_gt hpos)]
    linarith
  unfold pvalueClamped rmax
  split
  · rfl
  · rename_i hn; exact le_antisymm hge (not_lt.mp hn)

/-- uncorrected `p_values` of `calibrate`: in (0, 1] as soon as the observed map is among the
    relabelled maps -/
theorem voxel_p_in_unit (permT : List (List Rat)) (T : List Rat) (hid : T ∈ permT) :
    ∀ p ∈ voxelP permT T, 0 < p ∧ p ≤ 1 := by
  intro p hp
  unfold voxelP at hp
  obtain ⟨j, _, rfl⟩ := List.mem_map.mp hp
  exact ⟨frac_pos permT _ T hid (by simp), frac_le_one permT _⟩

/-- family-wise corrected `Corr_p_values` (Tmax) -/
theorem voxel_corr_p_in_unit (permT : List (List Rat)) (T : List Rat) (hid : T ∈ permT) :
    ∀ p ∈ voxelCorrP permT T, 0 < p ∧ p ≤ 1 := by
  intro p hp
  unfold voxelCorrP at hp
  obtain ⟨tj, htj, rfl⟩ := List.mem_map.mp hp
  exact ⟨frac_pos permT _ T hid (by simpa using le_maxList T tj htj), frac_le_one permT _⟩

/-- the Tmax correction is conservative: `Corr_p_values[j] ≥ p_values[j]` -/
theorem voxel_corr_ge (permT : List (List Rat)) (T : List Rat) (hlen : ∀ row ∈ permT, row.length = T.length)
    (j : Nat) (hj : j < T.length) :
    (voxelP permT T).getD j 0 ≤ (voxelCorrP permT T).getD j 0 := by
  unfold voxelP voxelCorrP
  rw [List.getD_eq_getElem?_getD, List.getD_eq_getElem?_getD]
  simp only [List.getElem?_map, List.getElem?_range hj, List.getElem?_eq_getElem hj, Option.map_some,
    Option.getD_some]
  have hT : T.getD j 0 = T[j] := by
    rw [List.getD_eq_getElem?_getD, List.getElem?_eq_getElem hj]; rfl
  rw [hT]
  by_cases hz : permT.length = 0
  · simp [List.length_eq_zero_iff.mp hz]
  · have hpos : (0 : Rat) < permT.length := by exact_mod_cast Nat.pos_of_ne_zero hz
    apply div_le_div_of_nonneg_right _ (le_of_lt hpos)
    have : (permT.filter (fun row => decide (T[j] ≤ row.getD j 0))).length ≤
        (permT.filter (fun row => decide (T[j] ≤ maxList row))).length := by
      rw [← List.countP_eq_length_filter, ← List.countP_eq_length_filter]
      apply List.countP_mono_left
      intro row hmem hrow
      simp only [decide_eq_true_eq] at hrow ⊢
      have hr : j < row.length := by rw [hlen row hmem]; exact hj
      exact le_trans hrow (le_maxList row _ (getD_mem_of_lt row j hr))
    exact_mod_cast this

/-- **one-sample calibration**: with `magic_numbers[0] = 0`, every uncorrected and every corrected
    voxel-level p-value lies in (0, 1], for every statistic, every data set, every further
    relabelling -/
theorem calibrate_p_in_unit_onesample (stat : List Rat → Rat) (voxels : List (List Rat)) (ms : List Nat) :
    (∀ p ∈ voxelP (permMapsOne stat voxels (0 :: ms)) (voxels.map stat), 0 < p ∧ p ≤ 1) ∧
    (∀ p ∈ voxelCorrP (permMapsOne stat voxels (0 :: ms)) (voxels.map stat), 0 < p ∧ p ≤ 1) := by
  have hid : voxels.map stat ∈ permMapsOne stat voxels (0 :: ms) :=
    List.mem_of_mem_head? (identity_relabelling_reproduces_observed stat voxels ms)
  exact ⟨voxel_p_in_unit _ _ hid, voxel_corr_p_in_unit _ _ hid⟩

/-- **two-sample calibration** -/
theorem calibrate_p_in_unit_twosample (stat : List Rat → List Rat → Rat)
    (voxels : List (List Rat × List Rat)) (ms : List Nat) :
    (∀ p ∈ voxelP (permMapsTwo stat voxels (0 :: ms)) (voxels.map fun v => stat v.1 v.2), 0 < p ∧ p ≤ 1) ∧
    (∀ p ∈ voxelCorrP (permMapsTwo stat voxels (0 :: ms)) (voxels.map fun v => stat v.1 v.2), 0 < p ∧ p ≤ 1) := by
  have hid : (voxels.map fun v => stat v.1 v.2) ∈ permMapsTwo stat voxels (0 :: ms) :=
    List.mem_of_mem_head? (identity_relabelling_reproduces_observed_twosample stat voxels ms)
  exact ⟨voxel_p_in_unit _ _ hid, voxel_corr_p_in_unit _ _ hid⟩

/-! ## Cluster level (size and Fisher statistics share the arithmetic) -/

/-- pooled p-values (`size_p_values`, `Fisher_p_values` of clusters): the observed cluster
    statistics are among the pooled values of the identity relabelling -/
theorem cluster_p_in_unit (perm : List (List Rat)) (obs : List Rat) (hid : obs ∈ perm) :
    ∀ p ∈ poolP perm obs, 0 < p ∧ p ≤ 1 := by
  intro p hp
  unfold poolP at hp
  obtain ⟨s, hs, rfl⟩ := List.mem_map.mp hp
  refine ⟨pvalue_pos' _ _ ⟨s, ?_, le_refl _⟩, pvalue_le_one' _ _⟩
  exact List.mem_flatten.mpr ⟨obs, hid, hs⟩

/-- corrected p-values (`size_Corr_p_values`, `Fisher_Corr_p_values`): the per-relabelling maximum
    of the identity relabelling dominates every observed cluster statistic -/
theorem cluster_corr_p_in_unit (perm : List (List Rat)) (obs : List Rat) (hid : obs ∈ perm) :
    ∀ p ∈ maxP perm obs, 0 < p ∧ p ≤ 1 := by
  intro p hp
  unfold maxP at hp
  obtain ⟨s, hs, rfl⟩ := List.mem_map.mp hp
  refine ⟨pvalue_pos' _ _ ⟨maxList obs, List.mem_map.mpr ⟨obs, hid, rfl⟩, le_maxList obs s hs⟩,
    pvalue_le_one' _ _⟩

/-- the size statistic: without clusters `[0]`, else one entry per label `0 .. max` -/
theorem clusterSizes_length (labels : List Int) :
    (clusterSizes labels).length =
      max 1 (labels.foldl (fun a b => if a < b then b else a) (-1) + 1).toNat := by
  unfold clusterSizes
  simp only
  split
  · rename_i h; simp [h]
  · rename_i h
    rw [List.length_map, List.length_range]
    omega

/-! ## Region level -/

/-- uncorrected region p-values: region `j`'s observed Fisher value is in row `j` -/
theorem region_p_in_unit (permF : List (List Rat)) (F : List Rat)
    (hid : ∀ j (h1 : j < permF.length) (h2 : j < F.length), F[j] ∈ permF[j]) :
    ∀ p ∈ regionP permF F, 0 < p ∧ p ≤ 1 := by
  intro p hp
  unfold regionP at hp
  obtain ⟨j, hj, rfl⟩ := List.getElem_of_mem hp
  rw [List.length_zipWith] at hj
  rw [List.getElem_zipWith]
  exact ⟨pvalue_pos' _ _ ⟨F[j], hid j (by omega) (by omega), le_refl _⟩, pvalue_le_one' _ _⟩

/-- the rank-based p-value of relabelling `m` within a region never exceeds the searchsorted-based
    p-value of its Fisher value (any `argsort` puts the strictly smaller entries first; the stable
    one is modelled, the inequality only uses `rank ≥ #{smaller}`) -/
theorem rankP_le_pvalue (row : List Rat) (m : Nat) : rankP row m ≤ pvalue row (row.getD m 0) := by
  unfold rankP pvalue stableRank searchsorted
  by_cases hz : row.length = 0
  · simp [List.length_eq_zero_iff.mp hz]
  · have hpos : (0 : Rat) < row.length := by exact_mod_cast Nat.pos_of_ne_zero hz
    have : ((row.filter (fun v => decide (v < row.getD m 0))).length : Rat) / row.length ≤
        (((row.filter (fun v => decide (v < row.getD m 0))).length +
          ((row.take m).filter (fun v => decide (v = row.getD m 0))).length : Nat) : Rat) / row.length := by
      apply div_le_div_of_nonneg_right _ (le_of_lt hpos)
      exact_mod_cast Nat.le_add_right _ _
    linarith

/-- **corrected region p-values** (`Fisher_Corr_p_values`) lie in (0, 1]: if relabelling `m0`
    is the identity (`permF[j][m0] = F[j]` for every region), its minimum rank-based p-value is at
    most each observed region p-value, so the count never vanishes -/
theorem region_corr_p_in_unit (permF : List (List Rat)) (F : List Rat) (m0 : Nat)
    (hl : permF.length = F.length)
    (hm0 : m0 < (permF.headD []).length)
    (hid : ∀ j (h1 : j < permF.length) (h2 : j < F.length), permF[j].getD m0 0 = F[j]) :
    ∀ p ∈ regionCorrP permF F, 0 < p ∧ p ≤ 1 := by
  intro p hp
  unfold regionCorrP at hp
  simp only at hp
  obtain ⟨pj, hpj, rfl⟩ := List.mem_map.mp hp
  refine ⟨pvalue_pos' _ _ ?_, pvalue_le_one' _ _⟩
  -- the region whose p-value `pj` is
  unfold regionP at hpj
  obtain ⟨j, hj, rfl⟩ := List.getElem_of_mem hpj
  rw [List.length_zipWith] at hj
  have hj1 : j < permF.length := by omega
  have hj2 : j < F.length := by omega
  rw [List.getElem_zipWith]
  refine ⟨-(minList (permF.map fun row => rankP row m0)), ?_, ?_⟩
  · rw [List.mem_map]
    refine ⟨minList (permF.map fun row => rankP row m0), ?_, rfl⟩
    rw [List.mem_map]
    exact ⟨m0, List.mem_range.mpr hm0, rfl⟩
  · have h1 : minList (permF.map fun row => rankP row m0) ≤ rankP permF[j] m0 :=
      minList_le _ _ (List.mem_map.mpr ⟨permF[j], List.getElem_mem hj1, rfl⟩)
    have h2 := rankP_le_pvalue permF[j] m0
    rw [hid j hj1 hj2] at h2
    linarith

/-! ## Height threshold -/

/-- `height_threshold(pval)`: if it is finite, at most a fraction `pval` of the (sorted) null draws
    reaches it, i.e. its pseudo p-value is at most `pval` -/
theorem heightThreshold_pvalue_le (draws : List Rat) (pval h : Rat) (hs : draws.Pairwise (· ≤ ·))
    (hh : heightThreshold draws pval = some h) : pvalue draws h ≤ pval := by
  unfold heightThreshold at hh
  simp only at hh
  generalize hidx : ((draws.length : Rat) * (1 - pval)).ceil.toNat = idx at hh
  have hceil : (draws.length : Rat) * (1 - pval) ≤ idx := by
    have h1 : (draws.length : Rat) * (1 - pval) ≤ (((draws.length : Rat) * (1 - pval)).ceil : Rat) :=
      Rat.le_ceil
    have h2 : (((draws.length : Rat) * (1 - pval)).ceil : Int) ≤ (idx : Int) := by
      rw [← hidx]; exact Int.self_le_toNat _
    have h3 : ((((draws.length : Rat) * (1 - pval)).ceil : Int) : Rat) ≤ ((idx : Int) : Rat) := by
      exact_mod_cast h2
    have h4 : ((idx : Int) : Rat) = (idx : Rat) := by norm_cast
    linarith
  split at hh
  · simp at hh
  · rename_i hlt
    have hlt' : idx < draws.length := by omega
    have hpos : (0 : Rat) < draws.length := by exact_mod_cast (by omega : 0 < draws.length)
    -- it suffices that at least `idx` draws lie strictly below `h`
    have key : idx ≤ (draws.filter (fun d => decide (d < h))).length →
        pvalue draws h ≤ pval := by
      intro hk
      rw [pvalue_eq]
      have : (idx : Rat) ≤ ((draws.filter (fun d => decide (d < h))).length : Rat) := by exact_mod_cast hk
      have h5 : (draws.length : Rat) * (1 - pval) ≤ ((draws.filter (fun d => decide (d < h))).length : Rat) :=
        le_trans hceil this
      have h6 : 1 - pval ≤ ((draws.filter (fun d => decide (d < h))).length : Rat) / draws.length := by
        rw [le_div_iff₀ hpos]; linarith
      linarith
    split at hh
    · -- the candidate is a strict increase: the first `idx` draws are below it
      rename_i hstrict
      injection hh with hh; subst hh
      apply key
      apply filter_length_ge_of_prefix draws _ idx (by omega)
      intro i hi
      simp only [decide_eq_true_eq]
      exact lt_of_le_of_lt (sorted_getD_le draws hs i (idx - 1) (by omega) (by omega)) hstrict
    · -- ties: the next distinct value
      split at hh
      · simp at hh
      · rename_i hlt2
        injection hh with hh; subst hh
        apply key
        generalize hc : draws.getD idx 0 = cand at *
        generalize hi2 : (draws.filter (fun v => decide (v ≤ cand))).length = idx2 at *
        have hi2lt : idx2 < draws.length := by omega
        -- the entry at position idx2 exceeds cand
        have hgt : cand < draws.getD idx2 0 := by
          by_contra hcon
          have hle : draws.getD idx2 0 ≤ cand := not_lt.mp hcon
          have : idx2 + 1 ≤ (draws.filter (fun v => decide (v ≤ cand))).length := by
            apply filter_length_ge_of_prefix draws _ (idx2 + 1) (by omega)
            intro i hi
            simp only [decide_eq_true_eq]
            exact le_trans (sorted_getD_le draws hs i idx2 (by omega) hi2lt) hle
          omega
        -- every draw ≤ cand is < the returned value, and there are more than idx of them
        have hmore : idx + 1 ≤ idx2 := by
          rw [← hi2]
          apply filter_length_ge_of_prefix draws _ (idx + 1) (by omega)
          intro i hi
          simp only [decide_eq_true_eq]
          rw [← hc]
          exact sorted_getD_le draws hs i idx (by omega) hlt'
        have hsub : (draws.filter (fun v => decide (v ≤ cand))).length ≤
            (draws.filter (fun d => decide (d < draws.getD idx2 0))).length := by
          apply List.Sublist.length_le
          apply List.monotone_filter_right
          intro v hv
          simp only [decide_eq_true_eq] at hv ⊢
          exact lt_of_le_of_lt hv hgt
        omega

/-! ## Non-vacuity -/

example : pvalueClamped [1, 2, 3] 5 = 1 / 3 := by decide +kernel
example : pvalueClamped [1, 2, 3] 2 = 2 / 3 := by decide +kernel
example : voxelCorrP [[1, 2], [3, 2], [0, 5]] [1, 2] = [1, 1] := by decide +kernel
example : ([1, 2] : List Rat) ∈ ([[1, 2], [3, 2], [0, 5]] : List (List Rat)) := by decide +kernel
example : heightThreshold [1, 2, 2, 3] (1 / 2) = some 3 := by decide +kernel
example : heightThreshold [1, 2, 2, 3] 0 = none := by decide +kernel
example : ([1, 2, 2, 3] : List Rat).Pairwise (· ≤ ·) := by decide +kernel
example : clusterSizes [0, -1, 1, 1, 0] = [2, 2] := by decide +kernel
example : ∀ p ∈ regionCorrP [[3, 1], [2, 5]] [3, 2], 0 < p ∧ p ≤ 1 :=
  region_corr_p_in_unit _ _ 0 rfl (by decide) (by
    intro j h1 h2
    match j, h1, h2 with
    | 0, _, _ => rfl
    | 1, _, _ => rfl)
example : pvalue [1, 2, 2, 3] 3 ≤ 1 / 2 :=
  heightThreshold_pvalue_le [1, 2, 2, 3] (1 / 2) 3 (by decide +kernel) (by decide +kernel)

end NipyVerif.C17
