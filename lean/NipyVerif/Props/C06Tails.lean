/-
C06 — the hypotheses of the monotonicity theorems (`z_monotone`, `z_monotone_any_state`,
`p_value_range`, `z_antitone_in_p`: "the tails are antitone maps into [0,1]", "`norm.isf` is antitone
and finite on the clip interval") hold for the *exact* tails: for every probability law on the line —
Student, Fisher and normal in particular — the survival function `x ↦ 1 - cdf x` is antitone with
values in `[0,1]`, and its upper quantile function `p ↦ inf {x | sf x ≤ p}` is antitone on `(0,1)`.
Hence, over the reals, the z-score `isf_ν(clip(sf_μ(x)))` with the clip bounds of the source is
non-decreasing in the statistic `x` on the whole line, whatever the law `μ` of the statistic and the
reference law `ν`.  What stays numeric (oracle in the check) is that SciPy's binary64 `t.sf`, `f.sf`,
`norm.isf` round these functions monotonically, and the Student tail being antitone in the degrees of
freedom.
-/
import Mathlib.Probability.CDF
import NipyVerif.Lemmas.C06

namespace NipyVerif.C06
open MeasureTheory ProbabilityTheory Set Filter Topology

/-- survival function (upper tail) of a law on the line -/
noncomputable def sfOf (μ : Measure ℝ) (x : ℝ) : ℝ := 1 - cdf μ x

/-- upper quantile function: the least `x` whose upper tail is at most `p` -/
noncomputable def isfOf (μ : Measure ℝ) (p : ℝ) : ℝ := sInf {x | sfOf μ x ≤ p}

/-- the clip of `z_score` over the reals, with the bounds of the model (those of the source) -/
noncomputable def clipR (p : ℝ) : ℝ := min (max p ((pLo : ℚ) : ℝ)) ((pHi : ℚ) : ℝ)

/-- the z-score of a statistic with law `μ`, read on the reference law `ν` -/
noncomputable def zReal (μ ν : Measure ℝ) (x : ℝ) : ℝ := isfOf ν (clipR (sfOf μ x))

/-- the exact tails are antitone maps into `[0,1]` (p-values lie in `[0,1]` and decrease with the
    statistic), and they are the probabilities `μ (x, ∞)` -/
theorem sf_antitone_unit (μ : Measure ℝ) [IsProbabilityMeasure μ] :
    Antitone (sfOf μ) ∧ (∀ x, 0 ≤ sfOf μ x ∧ sfOf μ x ≤ 1) ∧ ∀ x, sfOf μ x = μ.real (Ioi x) := by
  refine ⟨fun x y h => ?_, fun x => ⟨?_, ?_⟩, fun x => ?_⟩
  · unfold sfOf; linarith [monotone_cdf μ h]
  · unfold sfOf; linarith [cdf_le_one μ x]
  · unfold sfOf; linarith [cdf_nonneg μ x]
  · unfold sfOf
    rw [cdf_eq_real μ x, ← compl_Iic, measureReal_compl measurableSet_Iic]
    simp

/-- the upper quantile function is antitone on `(0,1)` and finite there (it is a real number by
    construction: the defining set is non-empty and bounded below) -/
theorem isf_antitone (μ : Measure ℝ) [IsProbabilityMeasure μ] {p r : ℝ} (hp : 0 < p) (hpr : p ≤ r) (hr : r < 1) :
    isfOf μ r ≤ isfOf μ p ∧ {x | sfOf μ x ≤ p}.Nonempty ∧ BddBelow {x | sfOf μ x ≤ r} := by
  have hne : {x | sfOf μ x ≤ p}.Nonempty := by
    have h := (tendsto_cdf_atTop μ).eventually (lt_mem_nhds (show 1 - p < 1 by linarith))
    obtain ⟨x, hx⟩ := h.exists
    exact ⟨x, by show 1 - cdf μ x ≤ p; linarith⟩
  have hbdd : BddBelow {x | sfOf μ x ≤ r} := by
    have h := (tendsto_cdf_atBot μ).eventually (gt_mem_nhds (show (0 : ℝ) < 1 - r by linarith))
    obtain ⟨x0, hx0⟩ := h.exists
    refine ⟨x0, fun x hx => ?_⟩
    have hx' : 1 - cdf μ x ≤ r := hx
    by_contra hlt
    have := monotone_cdf μ (le_of_lt (lt_of_not_ge hlt))
    linarith
  refine ⟨csInf_le_csInf hbdd hne (fun x hx => le_trans (show sfOf μ x ≤ p from hx) hpr), hne, hbdd⟩

/-- the clip maps into `[1e-300, 1 - 2⁻⁵³] ⊂ (0,1)` and is monotone -/
theorem clipR_mem_mono : (∀ p, 0 < clipR p ∧ clipR p < 1) ∧ Monotone clipR := by
  have hlo : (0 : ℝ) < ((pLo : ℚ) : ℝ) := by exact_mod_cast pLo_pos
  have hhi : (((pHi : ℚ) : ℝ)) < 1 := by exact_mod_cast pHi_lt_one
  have hle : ((pLo : ℚ) : ℝ) ≤ ((pHi : ℚ) : ℝ) := by exact_mod_cast pLo_le_pHi
  refine ⟨fun p => ⟨?_, ?_⟩, fun p r h => ?_⟩
  · exact lt_of_lt_of_le hlo (le_min (le_max_right _ _) hle)
  · exact lt_of_le_of_lt (min_le_right _ _) hhi
  · exact min_le_min (max_le_max h le_rfl) le_rfl

/-- **"z-scores are finite and non-decreasing in the statistic even in the extreme tails"**, for the
    exact tails: whatever the law `μ` of the statistic (Student with any degrees of freedom, Fisher
    with any pair) and the reference law `ν` (standard normal), `x ↦ isf_ν(clip(sf_μ x))` is monotone
    on the whole real line -/
theorem z_monotone_exact_tails (μ ν : Measure ℝ) [IsProbabilityMeasure μ] [IsProbabilityMeasure ν] :
    Monotone (zReal μ ν) := by
  intro x y hxy
  obtain ⟨hmem, hmono⟩ := clipR_mem_mono
  have h1 : clipR (sfOf μ y) ≤ clipR (sfOf μ x) := hmono ((sf_antitone_unit μ).1 hxy)
  exact (isf_antitone ν (hmem _).1 h1 (hmem _).2).1

/-- z is non-increasing in the p-value, and constant outside the clip interval -/
theorem z_antitone_in_p_exact (ν : Measure ℝ) [IsProbabilityMeasure ν] {p r : ℝ} (h : p ≤ r) :
    isfOf ν (clipR r) ≤ isfOf ν (clipR p) := by
  obtain ⟨hmem, hmono⟩ := clipR_mem_mono
  exact (isf_antitone ν (hmem _).1 (hmono h) (hmem _).2).1

end NipyVerif.C06
