/-
C12 (part G) — forest leftovers: `depth_from_leaves` converges to the heights within its `V`
sweeps, `subforest` is never refused on a forest and keeps ancestry through retained nodes,
`get_descendants` with both flags, component labels of `cc()` (used by `partition`/`split`).

`height V p v`: `0` for a leaf, else one more than the greatest height of a child.
-/
import NipyVerif.Lemmas.C12G
import NipyVerif.Model.C12W

namespace NipyVerif.C12

/-! ## depth_from_leaves -/

/-- the height above the leaves, as the documentation of `depth_from_leaves` describes it:
    `0` for the leaves, one more than the highest child otherwise, always below `V` -/
theorem height_spec (V : Nat) (p : Nat → Nat) (hr : InRange V p) (hc : check V p = true) (v : Nat)
    (hv : v < V) :
    (isLeaf V p v = true → height V p v = 0) ∧
      height V p v = ((children V p v).map (fun c => height V p c + 1)).foldl max 0 ∧
      height V p v + 1 ≤ V :=
  ⟨height_leaf V p hr hc v hv, height_eq V p hr hc v hv, height_lt V p hr hc V v hv⟩

/-- **`depth_from_leaves` computes the heights** on every forest: the loop (at most `V` sweeps,
    in-place updates in index order, stop when a sweep changes nothing) returns, for every node, its
    height above the leaves. -/
theorem depth_from_leaves_is_height (V : Nat) (p : Nat → Nat) (hr : InRange V p)
    (hc : check V p = true) :
    depthFromLeaves V p = (List.range V).map (fun v => (height V p v : Int)) :=
  depthLoop_heights V p hr hc V 0 (depthInit V p) (depthInv_init V p hr hc) (by omega)

/-- **Convergence within `V` sweeps**: what `depth_from_leaves` returns on a forest is a fixed point
    of the sweep — the loop never stops merely because its `V` rounds are used up.  (This replaces
    the "or exhausted" alternative of `depthLoop_fixed_or_exhausted`.) -/
theorem depth_from_leaves_converges (V : Nat) (p : Nat → Nat) (hr : InRange V p)
    (hc : check V p = true) :
    sweepL V p (depthFromLeaves V p) = depthFromLeaves V p := by
  have h0 := depthInv_init V p hr hc
  -- V sweeps from the initial array: everything is at its height, and stays
  have hk : ∀ k, DepthInv V p k ((sweepL V p)^[k] (depthInit V p)) := by
    intro k
    induction k with
    | zero => exact h0
    | succ k ih =>
      rw [Function.iterate_succ_apply']
      exact depthInv_step V p hr hc k _ ih
  have hall : ∀ m, V ≤ m + 1 → ∀ v < V, height V p v ≤ m := by
    intro m hm v hv
    have := height_lt V p hr hc V v hv
    unfold height; omega
  have h1 := depthInv_full V p V _ (hk V) (hall V (by omega))
  have h2 := depthInv_full V p (V + 1) _ (depthInv_step V p hr hc V _ (hk V)) (hall (V + 1) (by omega))
  rw [depth_from_leaves_is_height V p hr hc]
  rw [h1] at h2
  exact h2

/-- Clause "depth increases strictly from leaves to roots", now unconditionally for what the
    method returns on a forest. -/
theorem depth_from_leaves_strict (V : Nat) (p : Nat → Nat) (hr : InRange V p) (hc : check V p = true)
    (i : Nat) (hi : i < V) (hne : p i ≠ i) :
    lget (depthFromLeaves V p) i < lget (depthFromLeaves V p) (p i) :=
  depth_strict V p hr _ (depth_from_leaves_converges V p hr hc) i hi hne

/-! ## subforest -/

/-- the parent array `subforest(valid)` hands to the constructor: the retained vertex `v` (new
    index `renumb v`) gets the new index of its parent when the parent is retained, and becomes a
    root otherwise -/
theorem subforest_parent_spec (V : Nat) (p : Nat → Nat) (valid : Nat → Bool) (v : Nat) (hv : v < V)
    (hval : valid v = true) :
    fnOf (subforestParents V p valid) (renumb valid v) =
      renumb valid (if valid (p v) then p v else v) := by
  rw [fnOf_apply]; exact subforestParents_getD V p valid hv hval _

/-- **`subforest` is never refused on a forest**: for a forest and any mask retaining at least one
    node, the constructor guards (`size`, range, `check()`) accept the renumbered parent array. -/
theorem subforest_never_refused (V : Nat) (p : Nat → Nat) (hr : InRange V p) (hc : check V p = true)
    (valid : Nat → Bool) (hne : 0 < renumb valid V) :
    forestOk (subforestParents V p valid).length (subforestParents V p valid) = true := by
  set sp := subforestParents V p valid with hsp
  have hlen : sp.length = renumb valid V := subforestParents_length V p valid
  have hin := subforestParents_inRange V p hr valid
  have hfun : (fun v => sp.getD v v) = fnOf sp := by funext v; rw [fnOf_apply]
  have hr' : InRange sp.length (fnOf sp) := fun v hv => fnOf_lt_of_all_lt hin v hv
  simp only [forestOk, Bool.and_eq_true, decide_eq_true_eq]
  refine ⟨⟨⟨by omega, trivial⟩, foldl_max_le sp _ (fun x hx => Nat.le_of_lt (hin x hx))⟩, ?_⟩
  rw [hfun, forest_check_iff_acyclic _ _ hr']
  intro k hk
  refine ⟨sp.length, Nat.le_refl _, ?_⟩
  -- proper steps of the new parent map climb strictly in the old heights
  apply iterate_fixed_of_strict (fnOf sp)
    (fun a b => height V p ((retained V valid).getD a 0) < height V p ((retained V valid).getD b 0))
    (fun a => Nat.lt_irrefl _) (fun a b c => Nat.lt_trans) hr' ?_ k hk
  intro x hx hmove
  obtain ⟨h1, h2, h3⟩ := retained_spec valid V (show x < renumb valid V by rw [← hlen]; exact hx)
  obtain ⟨o, ho⟩ : ∃ o, o = (retained V valid).getD x 0 := ⟨_, rfl⟩
  rw [← ho] at h1 h2 h3
  have hq := subforest_parent_spec V p valid o h1 h2
  rw [h3] at hq
  show height V p ((retained V valid).getD x 0) < height V p ((retained V valid).getD (fnOf sp x) 0)
  rw [← ho]
  by_cases hpv : valid (p o) = true
  · rw [if_pos hpv] at hq
    have hpne : p o ≠ o := by
      intro e
      rw [e, h3] at hq
      exact hmove hq
    have hh := height_parent V p hr hc o h1 hpne
    rw [hq, retained_getD_renumb valid V (hr _ h1) hpv]
    omega
  · rw [if_neg hpv, h3] at hq
    exact absurd hq hmove

/-- **Ancestry through retained nodes**: as long as the ancestors `p v, p (p v), …, p^[k] v` of a
    retained node are all retained, `k` parent steps in the sub-forest from the new index of `v` land
    on the new index of `p^[k] v`; at the first ancestor that is dropped the chain stops (the last
    retained ancestor is a root of the sub-forest). -/
theorem subforest_preserves_ancestry (V : Nat) (p : Nat → Nat) (hr : InRange V p) (valid : Nat → Bool)
    (v : Nat) (hv : v < V) (k : Nat) (hall : ∀ j ≤ k, valid (p^[j] v) = true) :
    (fnOf (subforestParents V p valid))^[k] (renumb valid v) = renumb valid (p^[k] v) ∧
      (valid (p^[k + 1] v) = false →
        fnOf (subforestParents V p valid) (renumb valid (p^[k] v)) = renumb valid (p^[k] v)) := by
  have hlt : ∀ j, p^[j] v < V := by
    intro j; induction j with
    | zero => exact hv
    | succ j ih => rw [Function.iterate_succ_apply']; exact hr _ ih
  constructor
  · induction k with
    | zero => rfl
    | succ k ih =>
      rw [Function.iterate_succ_apply', ih (fun j hj => hall j (by omega)),
        subforest_parent_spec V p valid _ (hlt k) (hall k (by omega)),
        ← Function.iterate_succ_apply' p k v, if_pos (hall (k + 1) (Nat.le_refl _))]
  · intro hdrop
    rw [subforest_parent_spec V p valid _ (hlt k) (hall k (Nat.le_refl _)),
      ← Function.iterate_succ_apply' p k v, hdrop]
    rfl

/-! ## get_descendants, both flags -/

/-- `get_descendants(v)` contains `v`; `get_descendants(v, exclude_self=True)` is the same list
    without `v`, on every object a history can reach. -/
theorem get_descendants_flags {s : FState} (hc : Coherent s) (v : Nat) (hv : v < s.V) :
    (stepF false s (.getDescendants v false)).2 = .nats (descendants s.V (fnOf s.parents) v) ∧
      (stepF false s (.getDescendants v true)).2 =
        .nats ((descendants s.V (fnOf s.parents) v).filter (· != v)) ∧
      v ∈ descendants s.V (fnOf s.parents) v ∧
      ∀ u, u ∈ (descendants s.V (fnOf s.parents) v).filter (· != v) ↔
        (u ∈ descendants s.V (fnOf s.parents) v ∧ u ≠ v) := by
  have h1 : ¬ ((v : Int) < 0) := by omega
  have h2 : ¬ ((s.V : Int) - 1 < (v : Int)) := by omega
  refine ⟨?_, ?_, ?_, fun u => by simp [List.mem_filter]⟩
  · rw [step_answers_current_parents hc]
    simp only [answer, specView, h1, h2, if_false, Bool.false_eq_true, Int.toNat_natCast, descK_children]
  · rw [step_answers_current_parents hc]
    simp only [answer, specView, h1, h2, if_false, if_true, Int.toNat_natCast, descK_children]
  · exact (mem_descendants_iff s.V _ hc.inRange v v hv).2 ⟨0, Nat.zero_le _, rfl⟩

/-! ## component labels (`cc()`, read by `partition` and `split`) -/

/-- two vertices get the same `cc()` label exactly when `V` parent steps take them to the same
    root; labels are `< number of distinct roots` -/
theorem cc_labels_same_iff_same_root (n : Nat) (q : Nat → Nat) (u v : Nat) (hu : u < n) (hv : v < n) :
    ((ccLabels n q).getD u 0 = (ccLabels n q).getD v 0 ↔ iter q n u = iter q n v) ∧
      (ccLabels n q).getD v 0 < (dedupNat ((List.range n).map (iter q n))).length := by
  have hget : ∀ w < n, (ccLabels n q).getD w 0 =
      (dedupNat ((List.range n).map (iter q n))).idxOf (iter q n w) := by
    intro w hw
    simp [ccLabels, List.getD_eq_getElem?_getD, hw]
  have hmem : ∀ w < n, iter q n w ∈ dedupNat ((List.range n).map (iter q n)) := by
    intro w hw
    rw [mem_dedupNat]
    exact List.mem_map.2 ⟨w, List.mem_range.2 hw, rfl⟩
  rw [hget u hu, hget v hv]
  exact ⟨List.idxOf_inj (hmem u hu), List.idxOf_lt_length_iff.2 (hmem v hv)⟩

/-- `partition(threshold)` / `split(k)` label values: the label list is the `cc()` label of every
    leaf of the cut forest, in vertex order — so two leaves share a label iff they hang below the
    same root of the cut forest. -/
theorem leaf_components_spec (sp : List Nat) :
    leafComponents sp =
      ((List.range sp.length).filter (isLeaf sp.length (fnOf sp))).map
        (fun v => (ccLabels sp.length (fnOf sp)).getD v 0) := rfl

/-! ## Non-vacuity -/

/-- the forest `[0, 2, 0, 2, 3]` (the one that defeats the unpatched stopping rule): in range,
    accepted, heights `3 0 2 1 0` -/
example : InRange 5 (fnOf [0, 2, 0, 2, 3]) ∧ check 5 (fnOf [0, 2, 0, 2, 3]) = true ∧
    (List.range 5).map (height 5 (fnOf [0, 2, 0, 2, 3])) = [3, 0, 2, 1, 0] := by
  refine ⟨?_, by decide +kernel, by decide +kernel⟩
  intro v hv
  have : v = 0 ∨ v = 1 ∨ v = 2 ∨ v = 3 ∨ v = 4 := by omega
  rcases this with rfl | rfl | rfl | rfl | rfl <;> decide +kernel

end NipyVerif.C12
