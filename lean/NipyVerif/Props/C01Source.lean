/-
C01 — property theorems, fifth module: the expressions of `coordinate_map.py`, regenerated from
/repo's text into `Gen/C01Source.lean` before every build, are the model's definitions.  An edit of
a source expression (np.dot order, block layout, shift column, tolerance, …) either stops the
translation or breaks one of these obligations.
-/
import NipyVerif.Gen.C01Source
import NipyVerif.Lemmas.C01S

namespace NipyVerif.C01
open Np

/-! ## `_compose_affines` -/

/-- One round of the loop of `_compose_affines` as modelled is the regenerated source: the gate
    `cmap.function_domain == cur.function_range`, the coordinate systems handed to the
    constructor and **`np.dot(cmap.affine, cur.affine)` in this order**. -/
theorem compose_step_from_source (cur cm : Aff) :
    composeStep cur cm =
      if Src.composeGate cm.dom cur.rng = true then
        mkAff (Src.composeStepCS cur.dom cur.rng cm.dom cm.rng).1
          (Src.composeStepCS cur.dom cur.rng cm.dom cm.rng).2
          (Src.composeStepMat (ofMat (cm.nout + 1) (cur.nout + 1) cm.aff)
            (ofMat (cur.nout + 1) (cur.nin + 1) cur.aff)).toMat
          (cm.dtype.join cur.dtype)
      else .error .valueError := by
  unfold composeStep Src.composeGate Src.composeStepCS Src.composeStepMat
  by_cases h : cm.dom = cur.rng
  · simp only [h, if_true, decide_true]
    rfl
  · simp [h]

/-- `_compose_affines(*affines)` as modelled walks `affines[::-1]` starting from
    `np.identity(affines[-1].ndims[0] + 1)` on the last map's domain: the regenerated source. -/
theorem compose_list_from_source (l : List Aff) :
    composeList l =
      match Src.composeOrder l with
      | [] => .error .indexError
      | last :: rest =>
          match mkAff last.dom last.dom (Src.composeInitMat last.nin).toMat last.dtype with
          | .error e => .error e
          | .ok i0 => composeFrom i0 (last :: rest) := rfl

/-! ## `_product_affines`: the block layout -/


/-- **Block layout of `_product_affines` from the source**: zeros of shape
    `(Σ nout + 1, Σ nin + 1)`, `M[-1, -1] = 1`, then the slice assignments of the loop — the matrix
    so built is exactly the model's `prodMat` (diagonal blocks, translation column, exact bottom
    row), for every list of factors. -/
theorem product_from_source (l : List Aff) :
    (srcProductLoop l
      (Src.productCorner (Src.productZeros (sumNat (l.map Aff.nout)) (sumNat (l.map Aff.nin)))) 0 0).toMat
      = prodMat l :=
  srcProductLoop_eq l

/-! ## origin shifts -/

/-- `shifted_domain_origin` as modelled builds `np.identity(ndim+1)` with
    `shift_matrix[:-1, -1] = difference_vector` and composes `(mapping, shift_map)` in the order
    of the source. -/
theorem shift_domain_from_source (n : Nat) (d : List Rat) (A S : Aff) :
    shiftMat n d = (Src.shiftDomSet (Src.shiftDomInit n) (vec d)).toMat ∧
      ([A, S] : List Aff) = Src.shiftDomOrder A S :=
  ⟨shiftMat_eq_src n d, rfl⟩

/-- `shifted_range_origin`: the column is `-difference_vector` and the shift is composed on the
    **left** (`_compose_affines(shift_map, mapping)`), as in the source. -/
theorem shift_range_from_source (n : Nat) (d : List Rat) (A S : Aff) :
    shiftMat n (d.map fun q => -q) = (Src.shiftRngSet (Src.shiftRngInit n) (vec d)).toMat ∧
      ([S, A] : List Aff) = Src.shiftRngOrder A S :=
  ⟨shiftMat_neg_eq_src n d, rfl⟩

/-! ## `AffineTransform.__init__` -/

/-- The bottom-row test as modelled (`bottomOK`) is the regenerated
    `not np.allclose(affine[-1].astype(float), np.array([0] * ndims[0] + [1]))`. -/
theorem bottom_test_from_source (m : Mat) (nin nout : Nat) :
    bottomOK m nin nout =
      !(Src.initBottomBad (ofMat (nout + 1) (nin + 1) m) (Src.initBottomRow nin)) :=
  bottomOK_eq_src m nin nout

/-- The shape test of the source accepts exactly `(n_out + 1, n_in + 1)` (rows first). -/
theorem init_shape_from_source (r c nin nout : Nat) :
    Src.initShapeBad (r, c) nin nout = false ↔ r = nout + 1 ∧ c = nin + 1 := by
  simp [Src.initShapeBad]

/-- `from_params` refuses exactly the shapes other than `(len(outnames)+1, len(innames)+1)`;
    `from_start_step` refuses `len(outnames) ≠ len(innames)`. -/
theorem from_params_shape_from_source (r c nin nout : Nat) :
    (Src.fromParamsShapeBad (r, c) (Src.fromParamsNdim nin nout) = false ↔ r = nout + 1 ∧ c = nin + 1) ∧
    (Src.fromStartStepBad nout (Src.fromStartStepNdim nin) = true ↔ nout ≠ nin) := by
  refine ⟨by simp [Src.fromParamsShapeBad, Src.fromParamsNdim], ?_⟩
  unfold Src.fromStartStepBad Src.fromStartStepNdim
  exact decide_eq_true_iff

/-- `from_start_step` hands `(np.diag(step), start)` to `from_params`, which builds
    `from_matvec(A, b)`: for a start vector of the right length and a float `np.diag(step)` this is
    the matrix of the model's `fromMatvec (diagMat step)`. -/
theorem from_start_step_from_source (start step : List Rat) (hl : start.length = step.length) :
    fromMatvec (diagMat step) .f8 start = .ok (Src.fromStartStepParams step (vec start)).toMat :=
  fromStartStep_eq_src start step hl

/-! ## `_fix0` and `orth_axes` -/


/-- `_fix0` as modelled is the source: zero rows / columns of `aff[:-1, :-1]`, the fix only when
    there is exactly one of each, a `1` at their crossing. -/
theorem fix0_from_source (m : Mat) (nout nin i j : Nat) (hi : i ≤ nout) (hj : j ≤ nin) :
    (srcFix0 (ofMat (nout + 1) (nin + 1) m)).f i j = (fix0 m nout nin).get i j :=
  srcFix0_eq m nout nin i j hi hj


/-- `orth_axes` as modelled is the source run with the tolerance `1/100000`. -/
theorem orth_axes_from_source (m : Mat) (nout nin inAx outAx : Nat) (az : Bool) :
    orthAxes m nout nin inAx outAx az
      = srcOrth (ofMat (nout + 1) (nin + 1) m) inAx outAx az ((1 : Rat) / 100000) :=
  orthAxes_eq_src m nout nin inAx outAx az

/-- The tolerance of the source, `TINY` (binary64 value of the literal, default `tol`), lies
    within `2⁻⁶⁹` above the model's `1/100000`; the two tolerances give the same answer on every
    matrix with no entry of magnitude in the gap `(1/100000, TINY]`. -/
theorem orth_tol_as_modelled :
    (1 : Rat) / 100000 < Src.TINY ∧ Src.TINY - 1 / 100000 < 1 / 2 ^ 69 ∧
    Src.orthAllowZeroDefault = true ∧
    ∀ (M : FM) (ia oa : Nat) (az : Bool),
      (∀ i j, ¬ ((1 : Rat) / 100000 < rabs (M.f i j) ∧ rabs (M.f i j) ≤ Src.TINY)) →
      srcOrth M ia oa az Src.TINY = srcOrth M ia oa az (1 / 100000) := by
  refine ⟨by unfold Src.TINY; decide +kernel, by unfold Src.TINY; decide +kernel, rfl, ?_⟩
  intro M ia oa az hgap
  have : Src.orthNzs (Src.orthSplit M).1 Src.TINY = Src.orthNzs (Src.orthSplit M).1 (1 / 100000) := by
    unfold Src.orthNzs Src.orthSplit absGt mvA
    congr 1
    funext i j
    have hlt : (1 : Rat) / 100000 < Src.TINY := by unfold Src.TINY; decide +kernel
    by_cases h1 : (1 : Rat) / 100000 < rabs (M.f i j)
    · have h2 : Src.TINY < rabs (M.f i j) := by
        by_contra hc
        exact hgap i j ⟨h1, not_lt.mp hc⟩
      rw [decide_eq_true h1, decide_eq_true h2]
    · have h2 : ¬ Src.TINY < rabs (M.f i j) := fun hc => h1 (lt_trans hlt hc)
      rw [decide_eq_false h1, decide_eq_false h2]
  unfold srcOrth
  rw [this]

/-! ## `append_io_dim`, `CoordMapMaker.make_affine` -/

/-- `append_io_dim` as modelled uses the source's `np.array([[step, start], [0, 1]])` and the
    factor order `product(cm, extra_cmap)`. -/
theorem append_from_source (A E : Aff) (start step : Rat) :
    ([[step, start], [0, 1]] : Mat) = (Src.appendExtra start step).toMat ∧
      ([A, E] : List Aff) = Src.appendOrder A E := by
  refine ⟨?_, rfl⟩
  simp [Src.appendExtra, lit, FM.toMat, mkMat, List.range_succ]

/-- `make_affine` as modelled follows the source: the original axes are the first
    `shape[1]-1` / `shape[0]-1` names of the makers' systems for `o_n + extra_N` axes, the extra map is
    `from_matvec(np.diag(append_zooms), append_offsets)` on the remaining names, and the two are
    combined as `product(cmap0, cmap1)`. -/
theorem make_affine_from_source (names : List String) (k cols rows extra : Nat) (zooms offs : List Rat)
    (c0 c1 : Aff) (hl : offs.length = zooms.length) :
    Src.makeDom0 names k = names.take k ∧ Src.makeDom1 names k = names.drop k ∧
    Src.makeRng0 names k = names.take k ∧ Src.makeRng1 names k = names.drop k ∧
    Src.makeOND cols = cols - 1 ∧ Src.makeONR rows = rows - 1 ∧
    Src.makeDomN k extra = k + extra ∧ Src.makeRngN k extra = k + extra ∧
    ([c0, c1] : List Aff) = Src.makeOrder c0 c1 ∧
    fromMatvec (diagMat zooms) .f8 offs = .ok (Src.makeAffine1 zooms (vec offs)).toMat :=
  ⟨rfl, rfl, rfl, rfl, rfl, rfl, rfl, rfl, rfl, fromStartStep_eq_src offs zooms hl⟩

/-! ## `__call__`: a batch is evaluated row by row -/

/-- **Batch rule** (was oracle-only): the source evaluates a batch as
    `np.dot(in_vals, A.T) + b[np.newaxis, :]` with `A, b = to_matvec(self.affine)`; row `k` of
    that array is the model's `apply` of row `k` of the batch — for every batch, any number of rows
    (including none) and every matrix. -/
theorem call_batch_from_source (A : Aff) (pts : List (List Rat)) (k i : Nat) (hi : i < A.nout) :
    (Src.callOut ⟨pts.length, A.nin, fun r c => (pts.getD r []).getD c 0⟩
        (Src.callSplit (ofMat (A.nout + 1) (A.nin + 1) A.aff)).1
        (Src.callSplit (ofMat (A.nout + 1) (A.nin + 1) A.aff)).2).f k i
      = (A.apply (pts.getD k [])).getD i 0 :=
  callOut_eq A pts k i hi

/-- … hence `Aff.call` (the model of `__call__` on a 2-D batch) returns, row for row, the entries of the
    source expression. -/
theorem call_batch_rows (A : Aff) (pdt : DType) (pts out : List (List Rat))
    (h : A.call pdt pts = .ok out) :
    out.length = pts.length ∧ ∀ k, k < pts.length → out.getD k [] = A.apply (pts.getD k []) := by
  unfold Aff.call at h
  split_ifs at h
  injection h with h
  subst h
  refine ⟨by simp, fun k hk => ?_⟩
  simp [List.getD_eq_getElem?_getD, hk]

/-! ## coordinate_system.py -/

/-- numpy's composite dtype `[(name, coord_dtype) …]` as regenerated from `CoordinateSystem.__init__`:
    two of them are equal exactly when the names agree (in order) and — unless there is no
    coordinate at all — the coordinate dtypes agree. -/
theorem composite_dtype_eq_iff {δ : Type} (n1 n2 : List String) (d1 d2 : δ) :
    Src.csCompositeDtype n1 d1 = Src.csCompositeDtype n2 d2 ↔ n1 = n2 ∧ (n1 = [] ∨ d1 = d2) := by
  unfold Src.csCompositeDtype
  induction n1 generalizing n2 with
  | nil => cases n2 <;> simp
  | cons a t ih =>
      cases n2 with
      | nil => simp
      | cons b u =>
          simp only [List.map_cons, List.cons.injEq, Prod.mk.injEq, reduceCtorEq, false_or]
          rw [ih u]
          constructor
          · rintro ⟨⟨rfl, rfl⟩, rfl, _⟩
            exact ⟨⟨rfl, rfl⟩, rfl⟩
          · rintro ⟨⟨rfl, rfl⟩, rfl⟩
            exact ⟨⟨rfl, rfl⟩, rfl, Or.inr rfl⟩

/-- `CoordinateSystem.__eq__` / `similar_to` / `__ne__` as modelled are the source's expressions
    on the composite dtype and the name (including the quirk that systems with no coordinate
    compare equal whatever their dtype). -/
theorem cs_eq_from_source (a b : CoordSys) :
    csEq a b = Src.csEqExpr (Src.csCompositeDtype a.names a.dtype)
      (Src.csCompositeDtype b.names b.dtype) a.name b.name ∧
    csSimilar a b = Src.csSimilarExpr (Src.csCompositeDtype a.names a.dtype)
      (Src.csCompositeDtype b.names b.dtype) ∧
    Src.csNeExpr (csEq a b) = !(csEq a b) := by
  refine ⟨?_, ?_, rfl⟩
  · rw [Bool.eq_iff_iff]
    simp [csEq, csSimilar, Src.csEqExpr, composite_dtype_eq_iff, List.isEmpty_iff]
  · rw [Bool.eq_iff_iff]
    simp [csSimilar, Src.csSimilarExpr, composite_dtype_eq_iff, List.isEmpty_iff]

/-- `CoordSysMaker.__call__(N)` as modelled is the source: refusal exactly when
    `N > len(self.coord_names)`, otherwise the system of `self.coord_names[:N]`. -/
theorem maker_from_source (m : Maker) (N : Nat) :
    m.call (N : Int) none none =
      if Src.makerRefuse N m.names.length = true then .error .csMaker
      else mkCS (Src.makerNames m.names N) m.name m.dtype := by
  unfold Maker.call Src.makerRefuse Src.makerNames pyPrefix
  have h0 : (0 : Int) ≤ (N : Int) := Int.natCast_nonneg N
  by_cases h : N > m.names.length
  · have : (m.names.length : Int) < (N : Int) := by exact_mod_cast h
    simp [h, this]
  · have : ¬ (m.names.length : Int) < (N : Int) := by
      intro hc
      exact h (by exact_mod_cast hc)
    simp [h, this, h0]

/-- The gate of `__call__` (`_checked_values`) as modelled is the source's two tests: a
    rectangular batch of rows of width `w` is accepted exactly when `arr.shape[-1] != self.ndim` and
    `not np.can_cast(arr.dtype, self.coord_dtype)` are both false. -/
theorem call_gate_from_source (A : Aff) (pdt : DType) (pts : List (List Rat)) (w : Nat)
    (hw : ∀ p ∈ pts, p.length = w) (hne : pts ≠ []) :
    (∃ out, A.call pdt pts = .ok out) ↔
      (Src.checkedWidthBad w A.nin = false ∧ Src.checkedCastBad DType.canCast pdt A.dom.dtype = false) := by
  have hall : pts.all (fun p => p.length == A.nin) = decide (w = A.nin) := by
    rw [Bool.eq_iff_iff]
    simp only [List.all_eq_true, beq_iff_eq, decide_eq_true_eq]
    constructor
    · intro h
      obtain ⟨p, hp⟩ := List.exists_mem_of_ne_nil pts hne
      rw [← hw p hp]
      exact h p hp
    · intro h p hp
      rw [hw p hp, h]
  unfold Aff.call Src.checkedWidthBad Src.checkedCastBad
  rw [hall]
  by_cases h1 : w = A.nin
  · by_cases h2 : pdt.canCast A.dom.dtype = true
    · simp [h1, h2]
    · simp [h1, h2]
  · simp [h1]

example : csEq ⟨[], "a", .f8⟩ ⟨[], "a", .i8⟩ = true := by decide

example : Src.composeGate ⟨["i"], "d", .f8⟩ ⟨["i"], "d", .f8⟩ = true := by decide
example : ∃ M : FM, ∀ i j, ¬ ((1 : Rat) / 100000 < rabs (M.f i j) ∧ rabs (M.f i j) ≤ Src.TINY) :=
  ⟨zeros 2 2, fun i j h => by
    have : rabs (0 : Rat) = 0 := by decide +kernel
    simp only [zeros] at h
    rw [this] at h
    exact absurd h.1 (by decide +kernel)⟩

end NipyVerif.C01
