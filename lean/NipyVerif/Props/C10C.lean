/-
C10C — contrast matrices: "contrast matrices derived for a formula select
exactly the columns of the named terms", for every design (any rank), with
the pseudo-inverse as a certified parameter.
-/
import NipyVerif.Lemmas.C10M
import NipyVerif.Model.C10C

namespace NipyVerif.C10
open Matrix

/-! ## Matrix algebra of the Moore–Penrose inverse -/

/-- the Moore–Penrose equations have at most one solution: the certified
    parameter *is* the pseudo-inverse -/
theorem pinv_unique {n p : Nat} (D : Matrix (Fin n) (Fin p) ℚ) (P Q : Matrix (Fin p) (Fin n) ℚ)
    (p1 : D * P * D = D) (p2 : P * D * P = P) (p3 : (D * P)ᵀ = D * P) (p4 : (P * D)ᵀ = P * D)
    (q1 : D * Q * D = D) (q2 : Q * D * Q = Q) (q3 : (D * Q)ᵀ = D * Q) (q4 : (Q * D)ᵀ = Q * D) :
    P = Q := by
  have hP : P = P * D * Q := by
    calc P = P * D * P := p2.symm
      _ = P * (D * P)ᵀ := by rw [p3, Matrix.mul_assoc]
      _ = P * ((D * Q * D) * P)ᵀ := by rw [q1]
      _ = P * ((D * Q) * (D * P))ᵀ := by rw [Matrix.mul_assoc (D * Q) D P]
      _ = P * ((D * P)ᵀ * (D * Q)ᵀ) := by rw [Matrix.transpose_mul]
      _ = P * ((D * P) * (D * Q)) := by rw [p3, q3]
      _ = (P * D * P) * D * Q := by simp only [Matrix.mul_assoc]
      _ = P * D * Q := by rw [p2]
  have hQ : Q = P * D * Q := by
    calc Q = Q * D * Q := q2.symm
      _ = (Q * D)ᵀ * Q := by rw [q4]
      _ = (Q * (D * P * D))ᵀ * Q := by rw [p1]
      _ = ((Q * D) * (P * D))ᵀ * Q := by simp only [Matrix.mul_assoc]
      _ = ((P * D)ᵀ * (Q * D)ᵀ) * Q := by rw [Matrix.transpose_mul]
      _ = ((P * D) * (Q * D)) * Q := by rw [p4, q4]
      _ = P * D * (Q * D * Q) := by simp only [Matrix.mul_assoc]
      _ = P * D * Q := by rw [q2]
  rw [hP]; exact hQ.symm

/-- `D·P` projects onto the column space of `D`: what is in the column space is reproduced -/
theorem pinv_reproduces {n p q : Nat} (D : Matrix (Fin n) (Fin p) ℚ) (P : Matrix (Fin p) (Fin n) ℚ)
    (S : Matrix (Fin p) (Fin q) ℚ) (p1 : D * P * D = D) : D * (P * (D * S)) = D * S := by
  rw [← Matrix.mul_assoc, ← Matrix.mul_assoc, p1]

/-! ## The contrast of the model -/

theorem isPinv_eqs (D P : List (List Rat)) (h : isPinv D P = true) :
    matMul (matMul D P) D = D ∧ matMul (matMul P D) P = P ∧
    transpose (matMul D P) = matMul D P ∧ transpose (matMul P D) = matMul P D := by
  simp only [isPinv, Bool.and_eq_true, beq_iff_eq] at h
  exact ⟨h.1.1.1, h.1.1.2, h.1.2, h.2⟩

/-- **contrast_selects_columns, any rank**: `L = D·S` are columns in the column
    space of the design (for a contrast given by named terms of the formula,
    `S` is the 0/1 selector of their positions, `L` the named columns).  With a
    certified pseudo-inverse, the contrast `C = (P·L)ᵀ` satisfies `D·Cᵀ = L`:
    applied to the design it returns exactly the named columns — also when the
    design is rank deficient and `C` is not a 0/1 selector. -/
theorem contrast_reproduces_named_columns (D P S : List (List Rat)) (n p q : Nat)
    (hn : 0 < n) (hp : 0 < p) (hq : 0 < q) (hD : Rect D n p) (hP : Rect P p n) (hS : Rect S p q)
    (hcert : isPinv D P = true) :
    matMul D (transpose (contrastCols (matMul D S) P)) = matMul D S ∧
    matMul D (matMul P (matMul D S)) = matMul D S := by
  have hL : Rect (matMul D S) n q := rect_matMul hD hS hp
  have hPL : Rect (matMul P (matMul D S)) p q := rect_matMul hP hL hn
  have hDPL : Rect (matMul D (matMul P (matMul D S))) n q := rect_matMul hD hPL hp
  have hDP : Rect (matMul D P) n n := rect_matMul hD hP hp
  have h1 := (isPinv_eqs D P hcert).1
  have main : matMul D (matMul P (matMul D S)) = matMul D S := by
    apply toM_inj hDPL hL
    rw [toM_matMul hD hPL hp, toM_matMul hP hL hn, toM_matMul hD hS hp]
    apply pinv_reproduces
    rw [← toM_matMul hD hP hp, ← toM_matMul hDP hD hn, h1]
  refine ⟨?_, main⟩
  -- transposing twice gives the matrix back (it is rectangular and not empty)
  have hT : Rect (transpose (matMul P (matMul D S))) q p := rect_transpose hPL hp
  have hTT : transpose (transpose (matMul P (matMul D S))) = matMul P (matMul D S) := by
    apply toM_inj (rect_transpose hT hq) hPL
    rw [toM_transpose hT hq, toM_transpose hPL hp, Matrix.transpose_transpose]
  unfold contrastCols
  rw [hTT]; exact main

/-- with full column rank (`P·D = I`) the contrast of named columns is the 0/1
    selector itself -/
theorem contrast_full_rank_selector (D P S : List (List Rat)) (n p q : Nat)
    (hn : 0 < n) (hp : 0 < p) (hD : Rect D n p) (hP : Rect P p n) (hS : Rect S p q)
    (hfull : matMul P D = identity p) :
    matMul P (matMul D S) = S := by
  have hL : Rect (matMul D S) n q := rect_matMul hD hS hp
  have hPL : Rect (matMul P (matMul D S)) p q := rect_matMul hP hL hn
  apply toM_inj hPL hS
  rw [toM_matMul hP hL hn, toM_matMul hD hS hp, ← Matrix.mul_assoc, ← toM_matMul hP hD hn, hfull,
    toM_identity, Matrix.one_mul]

/-- the certificate is unique: any two matrices passing `isPinv` for the same
    design are equal -/
theorem certificate_unique (D P Q : List (List Rat)) (n p : Nat) (hn : 0 < n) (hp : 0 < p)
    (hD : Rect D n p) (hP : Rect P p n) (hQ : Rect Q p n)
    (h1 : isPinv D P = true) (h2 : isPinv D Q = true) : P = Q := by
  obtain ⟨a1, a2, a3, a4⟩ := isPinv_eqs D P h1
  obtain ⟨b1, b2, b3, b4⟩ := isPinv_eqs D Q h2
  have hDP := rect_matMul hD hP hp
  have hPD := rect_matMul hP hD hn
  have hDQ := rect_matMul hD hQ hp
  have hQD := rect_matMul hQ hD hn
  apply toM_inj hP hQ
  apply pinv_unique (toM n p D)
  · rw [← toM_matMul hD hP hp, ← toM_matMul hDP hD hn, a1]
  · rw [← toM_matMul hP hD hn, ← toM_matMul hPD hP hp, a2]
  · rw [← toM_matMul hD hP hp, ← toM_transpose hDP hn, a3]
  · rw [← toM_matMul hP hD hn, ← toM_transpose hPD hp, a4]
  · rw [← toM_matMul hD hQ hp, ← toM_matMul hDQ hD hn, b1]
  · rw [← toM_matMul hQ hD hn, ← toM_matMul hQD hQ hp, b2]
  · rw [← toM_matMul hD hQ hp, ← toM_transpose hDQ hn, b3]
  · rw [← toM_matMul hQ hD hn, ← toM_transpose hQD hp, b4]

/-! ## Non-vacuity: a rank-deficient design with its exact pseudo-inverse -/

example : isPinv [[1, 1], [1, 1], [0, 0]] [[1/4, 1/4, 0], [1/4, 1/4, 0]] = true := by decide +kernel
example : contrastCols (matMul [[1, 1], [1, 1], [0, 0]] [[1], [0]]) [[1/4, 1/4, 0], [1/4, 1/4, 0]] = [[1/2, 1/2]] := by
  decide +kernel
example : Rect [[1, 1], [1, 1], [0, 0]] 3 2 := ⟨rfl, by decide⟩
example : matMul [[1, 0, 0], [0, 1, 0]] [[1, 0], [0, 1], [0, 0]] = identity 2 := by decide +kernel

end NipyVerif.C10
