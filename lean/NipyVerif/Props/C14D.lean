/-
C14 — the Ward family (`ward`, `ward_quick` through its replay, the `*_segment` wrappers and
`Field.ward` which cut the same trees): the merge loop as a whole.  The stored heights are merged
within-cluster sums of squares of the items below each node (so the `max(cost, height[i],
height[j])` of the code never changes a value in exact arithmetic), the result is a proper
dendrogram with one tree per connected component, and every cut into `k` groups or at a height
yields that many connected clusters.  Only property statements and non-vacuity examples live here.
-/
import NipyVerif.Lemmas.C14Ward
import NipyVerif.Lemmas.C14Cut

namespace NipyVerif.C14

variable {p : Nat} {X : List (List Rat)} {E : List (Nat × Nat)} {s : WState}

/-! ## The loops are edge-constrained agglomerations -/

/-- `ward` only ever merges two clusters joined by a live edge, at the cost of their union, and
    runs until no live edge is left: its skeleton is a reachable agglomeration state (all the
    `agglo_*` theorems of `Props/C14B` apply to it) that is final. -/
theorem ward_is_agglomeration (hE : GoodEdges X.length E) :
    WReach p X E (ward p X E) ∧ Reach X.length E (ward p X E).sk ∧ (ward p X E).sk.edges = [] :=
  ⟨ward_reach p X E, (ward_reach p X E).skel, ward_done p X E hE⟩

/-- `ward_quick` (and `ward` on tied costs) is tied to the model through the replay of its merge
    sequence: when the replay reports every merge as joining two clusters linked by a live edge,
    the replayed state is a reachable Ward state, so everything below applies to `ward_quick`'s
    dendrogram too. -/
theorem ward_quick_replay_is_agglomeration (S : List (Nat × Nat))
    (hflags : ∀ x ∈ (replay p S (wardInit X E) []).2, x.1 = true) :
    WReach p X E (replay p S (wardInit X E) []).1 :=
  replay_reach S [] WReach.init hflags

/-! ## Heights -/

/-- **`ward_cost_ge_children`** — "non-decreasing heights from children to parents" for the whole
    loop: in every reachable state the cost of merging two clusters joined by a live edge (the
    within-cluster sum of squares of their union) is at least the height already stored for either
    of them, hence `max(cost, height[i], height[j]) = cost`: the clamp of the code is a no-op in
    exact arithmetic and the height stored is the cost. -/
theorem ward_cost_ge_children (hE : GoodEdges X.length E) (hX : ∀ x ∈ X, x.length = p)
    (h : WReach p X E s) {i j : Nat} (hadm : s.sk.adm i j = true) (g : Option Rat) :
    heightAt s i ≤ edgeCost p s (i, j) ∧ heightAt s j ≤ edgeCost p s (i, j) ∧
      max (edgeCost p s (i, j)) (max (heightAt s i) (heightAt s j)) = edgeCost p s (i, j) ∧
      (mergeInto s i j (edgeCost p s (i, j)) g).hs = s.hs.push (edgeCost p s (i, j)) := by
  obtain ⟨L, hL⟩ := h.winv hE hX
  obtain ⟨-, hi, hj, -, -⟩ := (reach_inv hE h.skel).step_facts hE hadm
  refine ⟨hL.cost_ge_left hi hj, hL.cost_ge_right hi hj, hL.clamp_noop hi hj, ?_⟩
  simp only [mergeInto]
  rw [hL.clamp_noop hi hj]

/-- "for Ward, the merged within-cluster sum of squares": the height of **every** node of the
    dendrogram is the sum of squared distances of the items below that node to their mean (`0`
    for an item). -/
theorem ward_height_is_cluster_wcss (hE : GoodEdges X.length E) (hX : ∀ x ∈ X, x.length = p)
    (h : WReach p X E s) :
    ∀ v, v < s.sk.size → ∃ I : List Nat, I ≠ [] ∧ I.Nodup ∧
      (∀ a, a ∈ I ↔ a < X.length ∧ Below (parentsOf X.length s.sk.ms) a v) ∧
      heightAt s v = ssq p (I.map (xv X)) (meanv (I.map (xv X))) := by
  intro v hv
  obtain ⟨I, hI, hL⟩ := h.items hE hX
  have hne : (I v).map (xv X) ≠ [] := hL.ne v hv
  refine ⟨I v, by simpa using hne, hI.nodup v hv, hI.mem v hv, ?_⟩
  rw [hL.height v hv, featOf_inertia_eq_ssq p _ hne]

/-- "a forest with the input items as leaves, one binary merge per non-leaf, non-decreasing
    heights from children to parents": what `ward` / `ward_quick` return (`parents`, `height`) is
    a proper dendrogram whose stored heights never decrease from a child to its parent and whose
    items sit at height `0`, below every merge. -/
theorem ward_family_dendrogram (hE : GoodEdges X.length E) (h : WReach p X E s) :
    Dendro X.length (parentsOf X.length s.sk.ms) ∧
      MonoH (parentsOf X.length s.sk.ms) s.hs.toList ∧
      LeafLow X.length (parentsOf X.length s.sk.ms) s.hs.toList :=
  ⟨(reach_inv hE h.skel).dendro, (h.hinv hE).monoH hE h.skel, (h.hinv hE).leafLow⟩

/-- `check_compatible_height()` answers `True` on every tree of the Ward family -/
theorem ward_check_compatible_height (hE : GoodEdges X.length E) (h : WReach p X E s) :
    checkCompatibleHeight (parentsOf X.length s.sk.ms) s.hs.toList = true := by
  have hM := (ward_family_dendrogram hE h).2.1
  simp only [checkCompatibleHeight, List.all_eq_true, decide_eq_true_eq]
  intro v hv
  exact hM.2 v (List.mem_range.mp hv)

/-- the heights of `ward` are also sorted in the order of creation (each step merges a cheapest
    live edge and every new edge costs at least as much as an old one it replaces) -/
theorem ward_heights_sorted (hE : GoodEdges X.length E) (hX : ∀ x ∈ X, x.length = p) :
    ∀ v w, v ≤ w → w < (ward p X E).sk.size →
      heightAt (ward p X E) v ≤ heightAt (ward p X E) w :=
  (ward_greedy p X E).sorted hE hX

/-- every live edge after a merge comes from an older live edge other than the merged one and
    costs at least as much ("each merge is the cheapest admissible one" is stable under merging) -/
theorem ward_new_costs_dominate (hE : GoodEdges X.length E) (hX : ∀ x ∈ X, x.length = p)
    (h : WReach p X E s) {i j : Nat} (hadm : s.sk.adm i j = true) (g : Option Rat) :
    ∀ e' ∈ (mergeInto s i j (edgeCost p s (i, j)) g).sk.edges,
      ∃ e0 ∈ s.sk.edges, e' = (relabel i j s.sk.size e0.1, relabel i j s.sk.size e0.2) ∧
        e'.1 ≠ e'.2 ∧
        edgeCost p s e0 ≤ edgeCost p (mergeInto s i j (edgeCost p s (i, j)) g) e' := by
  obtain ⟨L, hL⟩ := h.winv hE hX
  obtain ⟨-, hi, hj, -, -⟩ := (reach_inv hE h.skel).step_facts hE hadm
  have hed := edges_lt hE h.skel
  exact merge_costs_dominate hL (fun e he => ⟨(hed e he).1, (hed e he).2.1⟩) hi hj g

/-- **`ward_quick`'s batches are greedy steps**: after the cheapest live edge `(i, j)` is merged,
    a live edge `e1` disjoint from it that was the cheapest of the others is still live, keeps its
    cost, and is the cheapest live edge of the new graph — so merging the sorted, pairwise disjoint
    edges of a batch one after the other is, in exact arithmetic, what `ward` does. -/
theorem ward_quick_batch_greedy (hE : GoodEdges X.length E) (hX : ∀ x ∈ X, x.length = p)
    (h : WReach p X E s) {i j : Nat} (hadm : s.sk.adm i j = true) (g : Option Rat)
    (e1 : Nat × Nat) (he1 : e1 ∈ s.sk.edges)
    (hdis : e1.1 ≠ i ∧ e1.1 ≠ j ∧ e1.2 ≠ i ∧ e1.2 ≠ j)
    (hsecond : ∀ e ∈ s.sk.edges, ¬ ((e.1 = i ∨ e.1 = j) ∧ (e.2 = i ∨ e.2 = j)) →
      edgeCost p s e1 ≤ edgeCost p s e) :
    e1 ∈ (mergeInto s i j (edgeCost p s (i, j)) g).sk.edges ∧
      edgeCost p (mergeInto s i j (edgeCost p s (i, j)) g) e1 = edgeCost p s e1 ∧
      ∀ e' ∈ (mergeInto s i j (edgeCost p s (i, j)) g).sk.edges,
        edgeCost p (mergeInto s i j (edgeCost p s (i, j)) g) e1
          ≤ edgeCost p (mergeInto s i j (edgeCost p s (i, j)) g) e' := by
  obtain ⟨L, hL⟩ := h.winv hE hX
  obtain ⟨-, hi, hj, -, -⟩ := (reach_inv hE h.skel).step_facts hE hadm
  exact batch_next_is_cheapest hL (edges_lt hE h.skel) hi hj g e1 he1 hdis hsecond

/-! ## One tree per connected component -/

/-- "one tree per connected component" and "n − nbcc merges" for `ward`: two items end in the
    same tree exactly when the constraint graph connects them, and for any labelling `c` of the
    connected components the number of merges is `n` minus the number of labels. -/
theorem ward_one_tree_per_component (hE : GoodEdges X.length E) :
    (∀ a b, a < X.length → b < X.length →
      ((ward p X E).sk.rep X.length a = (ward p X E).sk.rep X.length b ↔ Conn E a b)) ∧
    ∀ c : Nat → Nat, (∀ a b, a < X.length → b < X.length → (c a = c b ↔ Conn E a b)) →
      ((Finset.range X.length).image c).card + (ward p X E).sk.ms.length = X.length := by
  obtain ⟨-, hR, hfin⟩ := ward_is_agglomeration (p := p) hE
  exact ⟨reach_final_iff hE hR hfin, fun c hc => reach_merge_count hE hR hfin c hc⟩

/-! ## Cutting the returned tree -/

/-- "cutting the dendrogram into k groups … yields that many connected clusters": on the tree
    returned by `ward` / `ward_quick`, for **every** `k` from the number of trees to the number of
    items, `split(k)` labels the `n` items with exactly `k` labels, and any two items with the
    same label are joined by a path of constraint edges inside their cluster. -/
theorem ward_split_connected (hE : GoodEdges X.length E) (h : WReach p X E s) (hn : 0 < X.length)
    (k : Nat) (hk1 : nbTrees (parentsOf X.length s.sk.ms) ≤ k) (hk2 : k ≤ X.length) :
    ∃ l, split (parentsOf X.length s.sk.ms) s.hs.toList k = some l ∧ l.length = X.length ∧
      nbLabels l = k ∧
      ∀ a b, a < X.length → b < X.length → l.getD a 0 = l.getD b 0 →
        ConnIn E (fun c => c < X.length ∧ l.getD c 0 = l.getD a 0) a b := by
  obtain ⟨hD, hM, hL⟩ := ward_family_dendrogram hE h
  obtain ⟨l, h1, h2, h3, hiff, hbel⟩ := hD.split_full hM hL hn k hk1 hk2
  refine ⟨l, h1, h2, h3, ?_⟩
  intro a b ha hb hab
  have hI := reach_inv hE h.skel
  have hlen : (parentsOf X.length s.sk.ms).length = s.sk.size := by
    rw [parentsOf_length, hI.size_eq]
  have hr : l.getD a 0 < s.sk.size := by
    rw [← hlen]; exact hD.below_lt (hbel a ha) (by rw [hlen, hI.size_eq]; omega)
  have hc := reach_subtree_conn hE h.skel (l.getD a 0) hr a b ha hb (hbel a ha)
    ((hiff a b ha hb).mp hab)
  exact connIn_mono (fun c hc => ⟨hc.1, ((hiff a c ha hc.1).mpr hc.2).symm⟩) hc

/-- "cutting the dendrogram … at a height yields that many connected clusters": on the tree
    returned by `ward` / `ward_quick`, `partition(th)` for a positive threshold gives one cluster
    per tree plus one per merge whose height is not below the threshold, each of them connected
    in the constraint graph. -/
theorem ward_partition_connected (hE : GoodEdges X.length E) (h : WReach p X E s)
    (hn : 0 < X.length) (th : Rat) (hth : 0 < th) :
    ∃ l, partition (parentsOf X.length s.sk.ms) s.hs.toList th = some l ∧ l.length = X.length ∧
      nbLabels l = nbTrees (parentsOf X.length s.sk.ms) +
        ((List.range (parentsOf X.length s.sk.ms).length).filter
          (fun v => decide (¬ s.hs.toList.getD v 0 < th))).length ∧
      ∀ a b, a < X.length → b < X.length → l.getD a 0 = l.getD b 0 →
        ConnIn E (fun c => c < X.length ∧ l.getD c 0 = l.getD a 0) a b := by
  obtain ⟨hD, hM, -⟩ := ward_family_dendrogram hE h
  have hleaf : ∀ v, v < X.length → s.hs.toList.getD v 0 < th := by
    intro v hv
    rw [toList_getD]
    have := (h.hinv hE).leaf v hv
    unfold heightAt at this
    rw [this]; exact hth
  obtain ⟨l, h1, h2, h3, hiff, hbel⟩ := hD.partition_full hM hn th hleaf
  refine ⟨l, h1, h2, h3, ?_⟩
  intro a b ha hb hab
  have hI := reach_inv hE h.skel
  have hlen : (parentsOf X.length s.sk.ms).length = s.sk.size := by
    rw [parentsOf_length, hI.size_eq]
  have hr : l.getD a 0 < s.sk.size := by
    rw [← hlen]; exact hD.below_lt (hbel a ha) (by rw [hlen, hI.size_eq]; omega)
  have hc := reach_subtree_conn hE h.skel (l.getD a 0) hr a b ha hb (hbel a ha)
    ((hiff a b ha hb).mp hab)
  exact connIn_mono (fun c hc => ⟨hc.1, ((hiff a c ha hc.1).mpr hc.2).symm⟩) hc

/-! ## Non-vacuity: four points on a line, chain graph -/

def exX : List (List Rat) := [[0], [1], [3], [7]]

example : GoodEdges exX.length exE := exE_good
example : ∀ x ∈ exX, x.length = 1 := by decide
example : (ward 1 exX exE).sk.ms = [(0, 1), (4, 2), (5, 3)] ∧
    (ward 1 exX exE).hs.toList = [0, 0, 0, 0, 1/2, 14/3, 115/4] ∧
    parentsOf 4 (ward 1 exX exE).sk.ms = [4, 4, 5, 6, 5, 6, 6] := by decide +kernel
/-- a reachable non-final state with an admissible pair (hypotheses of `ward_cost_ge_children`) -/
example : WReach 1 exX exE (wardInit exX exE) ∧ (wardInit exX exE).sk.adm 1 2 = true :=
  ⟨WReach.init, by decide⟩
/-- `ward_split_connected` at `k = 2` on the tree `ward` returns -/
example : ∃ l, split (parentsOf exX.length (ward 1 exX exE).sk.ms) (ward 1 exX exE).hs.toList 2 = some l ∧
    l.length = exX.length ∧ nbLabels l = 2 ∧
    ∀ a b, a < exX.length → b < exX.length → l.getD a 0 = l.getD b 0 →
      ConnIn exE (fun c => c < exX.length ∧ l.getD c 0 = l.getD a 0) a b :=
  ward_split_connected (X := exX) (E := exE) exE_good (ward_reach 1 exX exE) (by decide) 2
    (by rw [show nbTrees (parentsOf exX.length (ward 1 exX exE).sk.ms) = 1 by decide +kernel]; decide)
    (by decide)
/-- a replay all of whose flags are true (hypothesis of `ward_quick_replay_is_agglomeration`) -/
example : ∀ x ∈ (replay 1 [(0, 1), (4, 2), (5, 3)] (wardInit exX exE) []).2, x.1 = true := by
  decide +kernel

end NipyVerif.C14
