/-
C08 (source tie) — the expressions and tests of affine.py / transform.py / chain_transform.py as the
translator `harness/props/c08_source.py` read them from /repo's text (`Gen/C08Source.lean`) are
what the model implements (`*_as_modelled`), and the property's clauses hold of the expressions as
written (`*_from_source`).  An edit of a source expression changes the generated definition and
breaks a proof obligation here.
-/
import NipyVerif.Gen.C08Source
import NipyVerif.Props.C08B

namespace NipyVerif.C08
open NipyVerif.C08.Src
set_option linter.unusedSimpArgs false
set_option linter.unnecessarySeqFocus false
set_option linter.unusedVariables false

/-! ## `threshold`, `rotation_vec2mat` -/

/-- `np.maximum(np.minimum(x, th), -th)` is the model's `threshold` -/
theorem threshold_as_modelled (x th : Rat) : thresholdSrc x th = threshold x th := by
  unfold thresholdSrc threshold
  simp only [min_def, max_def]
  split_ifs <;> first | rfl | (exfalso; linarith) | linarith

theorem thresholdV_as_modelled (v : V3) (th : Rat) : thresholdVSrc v th = thresholdV v th := by
  unfold thresholdVSrc thresholdV
  simp only [threshold_as_modelled]

/-- within the bound `th ≥ 0` the source's `threshold` expression clips into `[-th, th]` and is
    the identity there -/
theorem threshold_from_source (x th : Rat) (h : 0 ≤ th) :
    -th ≤ thresholdSrc x th ∧ thresholdSrc x th ≤ th ∧ (-th ≤ x → x ≤ th → thresholdSrc x th = x) := by
  unfold thresholdSrc
  refine ⟨le_max_right _ _, max_le (min_le_right _ _) (by linarith), ?_⟩
  intro h1 h2
  rw [min_eq_left h2, max_eq_left h1]

/-- the body of `rotation_vec2mat` (both thresholds, the Rodrigues expression with `Sn` and the
    Taylor expression with its literal coefficients) is the model's `rotationVec2Mat` -/
theorem rotationVec2Mat_as_modelled (r : V3) (g : Trig) :
    rotationVec2MatSrc r g.theta g.s g.c = rotationVec2Mat r g := by
  unfold rotationVec2MatSrc rotationVec2Mat rodrigues taylorRot maxAngle smallAngle M3.skew
  simp only [decide_eq_true_eq]

/-- *Every rotation vector yields a proper rotation matrix*, stated of the source text: for every
    vector `r`, every value `nrm` with `nrm² = r·r` above `SMALL_ANGLE` and every `(s, c)` on the unit
    circle, the matrix the code's expression evaluates to satisfies `RᵀR = I` and `det R = 1`. -/
theorem rotationVec2Mat_from_source (r : V3) (nrm s c : Rat) (hθ : nrm * nrm = r.dot r)
    (hsc : s * s + c * c = 1) (hbig : Gen.C08.smallAngle < nrm) :
    M3.IsRotation (rotationVec2MatSrc r nrm s c) := by
  have := rotationVec2Mat_as_modelled r ⟨nrm, s, c⟩
  simp only at this
  rw [this]
  exact rotationVec2Mat_proper r ⟨nrm, s, c⟩ hθ hsc hbig

/-- the small-angle branch as written: at or below `SMALL_ANGLE` the code's expression is the Taylor
    matrix, orthogonal up to the explicit term `(θ⁴/72 − θ⁶/576)·Sr²` -/
theorem rotationVec2Mat_small_from_source (r : V3) (nrm s c : Rat) (hθ : nrm * nrm = r.dot r)
    (hsmall : nrm ≤ Gen.C08.smallAngle) :
    (rotationVec2MatSrc r nrm s c).transpose.mul (rotationVec2MatSrc r nrm s c)
      = M3.one.add (M3.smul (nrm ^ 4 / 72 - nrm ^ 6 / 576) ((M3.skew r).mul (M3.skew r))) := by
  have h := rotationVec2Mat_as_modelled r ⟨nrm, s, c⟩
  simp only at h
  rw [h]
  have h1 : ¬ nrm > maxAngle := by
    have : Gen.C08.smallAngle < maxAngle := by unfold maxAngle Gen.C08.maxAngle Gen.C08.smallAngle; norm_num
    intro h'; linarith
  have h2 : ¬ nrm > smallAngle := not_lt.mpr hsmall
  unfold rotationVec2Mat
  simp only [h1, h2, if_false]
  exact taylorRot_gram r nrm hθ

/-- what inexact leaves cost, exactly (no hypothesis on `s`, `c`): in the Rodrigues branch, for a
    vector whose computed norm satisfies `nrm² = r·r`, the code's matrix has
    `RᵀR = I + (1 − s² − c²)·Sn²` and `det R = s² + c²` — so binary64 `sin` / `cos`, which are on the
    unit circle to ~1e-16 only, give a matrix that is orthogonal to exactly that defect -/
theorem rotationVec2Mat_defect_from_source (r : V3) (nrm s c : Rat) (hθ : nrm * nrm = r.dot r)
    (hbig : Gen.C08.smallAngle < nrm) (hle : nrm ≤ Gen.C08.maxAngle) :
    (rotationVec2MatSrc r nrm s c).transpose.mul (rotationVec2MatSrc r nrm s c)
      = M3.one.add (M3.smul (1 - s * s - c * c) ((M3.skew (r.sdiv nrm)).mul (M3.skew (r.sdiv nrm)))) ∧
    (rotationVec2MatSrc r nrm s c).det = s * s + c * c := by
  have h := rotationVec2Mat_as_modelled r ⟨nrm, s, c⟩
  simp only at h
  have h1 : ¬ nrm > maxAngle := not_lt.mpr hle
  have h2 : nrm > smallAngle := hbig
  have hR : rotationVec2MatSrc r nrm s c = rodrigues (r.sdiv nrm) s c := by
    rw [h]; unfold rotationVec2Mat; simp only [h1, h2, if_false, if_true]
  have hpos : nrm ≠ 0 := ne_of_gt (lt_trans smallAngle_pos hbig)
  have hn : (r.sdiv nrm).dot (r.sdiv nrm) = 1 := by
    simp only [V3.dot, V3.sdiv] at hθ ⊢
    field_simp
    linear_combination -hθ
  have hq : rodrigues (r.sdiv nrm) s c = quadRot (r.sdiv nrm) s (1 - c) := rfl
  rw [hR, hq, quadRot_gram, quadRot_det, hn]
  constructor
  · congr 2; ring
  · ring

/-- above `MAX_ANGLE` the code returns the identity before anything else is evaluated -/
theorem rotationVec2Mat_big_from_source (r : V3) (nrm s c : Rat) (h : Gen.C08.maxAngle < nrm) :
    rotationVec2MatSrc r nrm s c = M3.one := by
  unfold rotationVec2MatSrc
  simp [h]

/-! ## `to_matrix44`, `preconditioner`, `as_affine` -/

/-- the body of `to_matrix44` on 12 (or more than 7) parameters is the model's `toMatrix44`:
    linear part `np.dot(R, np.dot(S, Q))`, thresholded translation -/
theorem toMatrix44_as_modelled (v : Vec12) (e : Ext) (n : Nat) (h6 : n ≠ 6) (h7 : n ≠ 7) :
    toMatrix44Src n (rotationVec2Mat v.rotation e.rot) (rotationVec2Mat v.preRotation e.pre) v.p6
      e.scales v.translation = toMatrix44 v e := by
  unfold toMatrix44Src toMatrix44
  simp only [decide_eq_true_eq, h6, h7, if_false, thresholdV_as_modelled, maxDist]

/-- sizes 6 and 7 as written: the rotation alone / `t[6] * R` (a plain factor, not its exponential) -/
theorem toMatrix44_six_seven_as_modelled (R Q : M3) (t6 : Rat) (sc tr : V3) :
    toMatrix44Src 6 R Q t6 sc tr = ⟨R, thresholdV tr maxDist⟩ ∧
    toMatrix44Src 7 R Q t6 sc tr = ⟨M3.smul t6 R, thresholdV tr maxDist⟩ := by
  unfold toMatrix44Src
  simp [thresholdV_as_modelled, maxDist]

/-- the general-size model `toMatrix44N` answers with the source expression whenever it accepts -/
theorem toMatrix44N_as_modelled (t : List Rat) (e : Ext) (h : 12 ≤ t.length) :
    toMatrix44N t e = .ok (toMatrix44Src t.length
      (rotationVec2Mat (Vec12.ofFn (fun i => t.getD i 0)).rotation e.rot)
      (rotationVec2Mat (Vec12.ofFn (fun i => t.getD i 0)).preRotation e.pre)
      (Vec12.ofFn (fun i => t.getD i 0)).p6 e.scales (Vec12.ofFn (fun i => t.getD i 0)).translation) := by
  rw [toMatrix44N_full t e h, toMatrix44_as_modelled _ _ _ (by omega) (by omega)]

/-- `preconditioner(radius)` as written is the model's vector -/
theorem preconditioner_as_modelled (radius : Rat) :
    preconditionerSrc radius = (preconditioner radius).toList := by
  unfold preconditionerSrc preconditioner Vec12.ofFn Vec12.toList Gen.C08.precondInv
  simp

/-- every entry of the source's preconditioner is non-zero for a non-zero radius, so `param` get / set
    (division / multiplication by it) are mutually inverse (`get_set_param`, `set_get_param`) -/
theorem preconditioner_from_source (radius : Rat) (hr : radius ≠ 0) :
    ∀ x ∈ preconditionerSrc radius, x ≠ 0 := by
  have h : (1 : Rat) / radius ≠ 0 := one_div_ne_zero hr
  unfold preconditionerSrc
  intro x hx
  simp only [List.mem_cons, List.mem_nil_iff, or_false] at hx
  rcases hx with h' | h' | h' | h' | h' | h' | h' | h' | h' | h' | h' | h' <;> rw [h'] <;> first | exact h | norm_num

/-- `as_affine`: `T[:3, :3] *= -1` when the flag is cleared is the model's `asAffine` -/
theorem asAffine_as_modelled (v : Vec12) (direct : Bool) (e : Ext) :
    asAffineSrc (toMatrix44 v e) direct = asAffine v direct e := by
  unfold asAffineSrc asAffine
  cases direct <;> simp [M3.neg]

/-! ## `compose`, `inv`, `inverse_affine`, `subgrid_affine`, generic transforms, chains -/

/-- `Affine.compose` on two members of the family: the class selection and `np.dot(self.as_affine(),
    other_aff)` are the model's `Xf.compose` -/
theorem compose_as_modelled (c d : Cls) (a b : Aff) :
    Xf.compose (.aff c a) (.aff d b) = .aff (dispatch c d) (composeMatSrc a b) := rfl

/-- *Applying the composition equals applying the second transform then the first*, of the
    expression as written -/
theorem compose_from_source (a b : Aff) (p : V3) :
    applySrc (composeMatSrc a b) p = applySrc a (applySrc b p) := by
  unfold applySrc composeMatSrc
  exact apply_mul a b p

/-- `Affine.compose` onto a generic transform, and `Transform.compose`, as written: the lambda
    `pts ↦ self.apply(other.apply(pts))` is the model's generic composition -/
theorem genericCompose_as_modelled (x y : Xf) (h : (∃ f, x = .gen f) ∨ (∃ g, y = .gen g)) :
    Xf.compose x y = genericComposeSrc x.app y.app ∧ Xf.compose x y = composeGenericSrc x y := by
  unfold genericComposeSrc composeGenericSrc
  rcases h with ⟨f, rfl⟩ | ⟨g, rfl⟩
  · cases y <;> exact ⟨rfl, rfl⟩
  · cases x <;> exact ⟨rfl, rfl⟩

theorem genericCompose_from_source (f g : V3 → V3) (p : V3) :
    (genericComposeSrc f g).app p = genericApplySrc f (genericApplySrc g p) := rfl

/-- `Affine.inv` / `inverse_affine`: `spl.inv(self.as_affine())` is the model's `Xf.inv` -/
theorem inv_as_modelled (c : Cls) (a : Aff) :
    Xf.inv (.aff c a) = (match invMatSrc a with
      | some b => .ok (.aff c b)
      | none => .error "error:linalgError") ∧ inverseAffineSrc a = a.inv := ⟨rfl, rfl⟩

/-- *The inverse transform maps transformed points back*, of the expressions as written -/
theorem inv_from_source (a b : Aff) (h : invMatSrc a = some b) (p : V3) :
    applySrc b (applySrc a p) = p ∧ applySrc a (applySrc b p) = p := by
  unfold applySrc
  unfold invMatSrc at h
  exact apply_inv a b h p

/-- `subgrid_affine` returns `np.dot(affine, slices_aff)`: index `i` of the sub-grid goes where `affine`
    sends `start + step·i` -/
theorem subgridAffine_from_source (A : Aff) (start step i : V3) :
    applySrc (subgridAffineSrc A (slicesAff3 start step)) i
      = applySrc A ⟨start.x + step.x * i.x, start.y + step.y * i.y, start.z + step.z * i.z⟩ := by
  unfold applySrc subgridAffineSrc
  exact subgrid_affine_apply A start step i

/-- `ChainTransform.apply` as written is the model's `chainApply` -/
theorem chainApply_as_modelled (pre opt post : Xf) (p : V3) :
    chainApplySrc pre opt post p = chainApply pre opt post p := rfl

/-- *the pre / optimisable / post chain maps points exactly as the product of its three parts*, of
    the expression as written -/
theorem chainApply_from_source (pre opt post : Xf) (p : V3) :
    chainApplySrc pre opt post p = post.app (opt.app (pre.app p)) := by
  rw [chainApply_as_modelled, chain_apply]

/-! ## `from_matrix44` of the three kinds -/

/-- `Affine.from_matrix44` statement by statement (sign fixes of the SVD factors *before* the
    respective `rotation_mat2vec`, the flag cleared on the second test only, slot layout of
    `vec12`) is the model: sign-fixed factors of `svdFix`, its flag, `mkVec12` -/
theorem affineFrom44_as_modelled (m2v : M3 → V3) (d0 : Bool) (t : V3) (U : M3) (sv : V3) (Vt : M3) (logs : V3) :
    affineFrom44Src m2v d0 t U sv Vt logs
      = (mkVec12 t (m2v (svdFix d0 U Vt).R) logs (m2v (svdFix d0 U Vt).Q), (svdFix d0 U Vt).direct) := by
  unfold affineFrom44Src svdFix
  simp only [decide_eq_true_eq]
  split_ifs <;> simp_all [mkVec12, Vec12.setTriple, Vec12.set, Vec12.zero]

/-- with `rotation_mat2vec` evaluated through its certified leaves this is `affineFrom44` -/
theorem affineFrom44_as_modelled_leaves (m2v : M3 → V3) (d0 : Bool) (A : Aff) (e : F44Ext)
    (hR : m2v (svdFix d0 e.U e.Vt).R = rotationMat2Vec e.eR)
    (hQ : m2v (svdFix d0 e.U e.Vt).Q = rotationMat2Vec e.eQ) :
    affineFrom44Src m2v d0 A.t e.U e.s e.Vt e.logs = affineFrom44 d0 A e := by
  rw [affineFrom44_as_modelled, hR, hQ]; rfl

/-- `Rigid.from_matrix44` statement by statement is the model (`rigidFix`) -/
theorem rigidFrom44_as_modelled (m2v : M3 → V3) (d0 : Bool) (t : V3) (A : M3) :
    rigidFrom44Src m2v d0 t A
      = (mkVec12 t (m2v (rigidFix d0 A).1) V3.zero V3.zero, (rigidFix d0 A).2) := by
  unfold rigidFrom44Src rigidFix
  simp only [decide_eq_true_eq]
  split_ifs <;> simp_all [mkVec12, Vec12.setTriple, Vec12.set, Vec12.zero, V3.zero]

/-- `Similarity.from_matrix44` statement by statement is the model (`simFix` on `s = max(cbrt, TINY)`) -/
theorem simFrom44_as_modelled (m2v : M3 → V3) (d0 : Bool) (t : V3) (A : M3) (cbrt logS : Rat) :
    simFrom44Src m2v d0 t A cbrt logS
      = (mkVec12 t (m2v (simFix d0 A (max cbrt tinySrc)).1) ⟨logS, logS, logS⟩ V3.zero,
         (simFix d0 A (max cbrt tinySrc)).2) := by
  unfold simFrom44Src simFix
  simp only [decide_eq_true_eq]
  split_ifs <;> simp_all [mkVec12, Vec12.setTriple, Vec12.set, Vec12.zero, V3.zero]

/-- the matrix `Rigid.from_matrix44` hands to `rotation_mat2vec` is a proper rotation for every
    orthogonal linear part of either determinant sign, and the flag records the sign — of the
    statements as written -/
theorem rigidFrom44_from_source (m2v : M3 → V3) (t : V3) (A : M3) (hA : A.transpose.mul A = M3.one) :
    M3.IsRotation (rigidFix true A).1 ∧
    ((rigidFrom44Src m2v true t A).2 = true ↔ 0 < A.det) := by
  rw [rigidFrom44_as_modelled]
  refine ⟨(rigidFix_sound A).2 hA, ?_⟩
  unfold rigidFix
  rcases orth_det A hA with h1 | h1 <;> rw [h1] <;> norm_num

/-! ## `PolyAffine`: the expressions of polyaffine.py and the helpers of polyaffine.c -/

/-- `np.maximum(TINY_SIGMA, sigma)` is the model's clamp -/
theorem sigClamp_as_modelled (s : Rat) : sigClampSrc s = sigClamp s := by
  unfold sigClampSrc sigClamp
  by_cases h : Gen.C08.tinySigma ≥ s
  · rw [if_pos h, max_eq_left h]
  · rw [if_neg h, max_eq_right (le_of_lt (not_le.mp h))]

/-- `PolyAffine.apply`: the point handed to the kernel (copy of the input, or the global affine applied
    to it) is the model's `Poly.pre` -/
theorem polyPre_as_modelled (P : Poly) (x : V3) : polyPreSrc P.glob x = P.pre x := by
  unfold polyPreSrc Poly.pre
  cases P.glob <;> rfl

/-- `PolyAffine.compose(affine)` as written: only the global affine changes, to `other`'s matrix or to
    `np.dot(self.glob_affine, other.as_affine())` — the model's `Poly.compose` -/
theorem polyCompose_as_modelled (P : Poly) (o : Aff) :
    P.compose o = { P with glob := some (polyComposeGlobSrc P.glob o) } := by
  unfold Poly.compose polyComposeGlobSrc
  cases P.glob <;> rfl

/-- `PolyAffine.left_compose(affine)` as written: every local affine becomes `np.dot(other_affine, ·)` -/
theorem polyLeftCompose_as_modelled (P : Poly) (o : Aff) :
    P.leftCompose o = { P with affs := P.affs.map (polyLeftAffSrc o) } := rfl

/-- *applying the composition equals applying the second transform then the first*, for
    `PolyAffine.compose` as written (whatever the weights): the kernel sees the image of `x` under `other` -/
theorem polyCompose_from_source (P : Poly) (o : Aff) (x : V3) :
    polyPreSrc (some (polyComposeGlobSrc P.glob o)) x = polyPreSrc P.glob (applySrc o x) := by
  unfold polyPreSrc polyComposeGlobSrc applySrc
  cases P.glob <;> simp [Aff.apply_mul]

/-- `_gaussian` of polyaffine.c: the weight is `exp(-.5 * d2)` with `d2` the model's `gaussArg` -/
theorem gaussianExpArg_as_modelled (x c sig : V3) :
    gaussianExpArgSrc x c sig = -(1 / 2) * gaussArg x c sig := by
  unfold gaussianExpArgSrc gaussArg
  ring

/-- the exponent is never positive, so every weight is in `(0, 1]` for any increasing `exp` with
    `exp 0 = 1` (positivity of the weights is what `polyaffine_convex_combination` needs) -/
theorem gaussianExpArg_from_source (x c sig : V3) : gaussianExpArgSrc x c sig ≤ 0 := by
  rw [gaussianExpArg_as_modelled]
  have h := (gaussArg_props x c x sig).1
  linarith

/-- `_add_weighted_affine` of polyaffine.c is one step of the model's weighted sum -/
theorem addWeightedAffine_as_modelled (w : Rat) (a : Aff) (r : List (Rat × Aff)) :
    wsum ((w, a) :: r) = addWeightedAffineSrc (wsum r) a w := by
  unfold addWeightedAffineSrc
  rw [wsum]
  apply Aff.ext
  · apply M3.ext <;> m3_simp <;> ring
  · apply V3.ext <;> m3_simp <;> ring

/-- the loop over centres (`memset(mat, 0)`, then `_add_weighted_affine(mat, affine, w)` centre after
    centre) accumulates the model's `wsum`, whatever the order of the centres -/
theorem kernelAccum_as_modelled (l : List (Rat × Aff)) :
    l.foldl (fun acc wa => addWeightedAffineSrc acc wa.2 wa.1) ⟨M3.zero, V3.zero⟩ = wsum l := by
  have gen : ∀ (l : List (Rat × Aff)) (acc : Aff),
      l.foldl (fun acc wa => addWeightedAffineSrc acc wa.2 wa.1) acc = addWeightedAffineSrc acc (wsum l) 1 := by
    intro l
    induction l with
    | nil =>
        intro acc
        simp only [List.foldl_nil, wsum, addWeightedAffineSrc]
        apply Aff.ext
        · apply M3.ext <;> m3_simp <;> ring
        · apply V3.ext <;> m3_simp <;> ring
    | cons wa r ih =>
        intro acc
        obtain ⟨w, a⟩ := wa
        simp only [List.foldl_cons]
        rw [ih]
        unfold addWeightedAffineSrc
        rw [wsum]
        apply Aff.ext
        · apply M3.ext <;> m3_simp <;> ring
        · apply V3.ext <;> m3_simp <;> ring
  rw [gen]
  unfold addWeightedAffineSrc
  apply Aff.ext
  · apply M3.ext <;> m3_simp <;> ring
  · apply V3.ext <;> m3_simp <;> ring

/-- `_apply_affine` of polyaffine.c (`mat * x`, `W` clamped at `TINY`, division) is the model's
    `polyPoint` on the clamped total -/
theorem applyAffineC_as_modelled (l : List (Rat × Aff)) (W : Rat) (y : V3) :
    applyAffineCSrc (wsum l) y W = polyPoint l (wClamp W) y := by
  unfold applyAffineCSrc polyPoint wClamp
  apply V3.ext <;> m3_simp

/-- the kernel as written, end to end on one point: accumulate over the centres, apply, normalise —
    this is `PolyAffine.apply` of the model (`Poly.applyW`) -/
theorem polyKernel_from_source (P : Poly) (ws : List Rat) (x : V3) :
    applyAffineCSrc ((ws.zip P.affs).foldl (fun acc wa => addWeightedAffineSrc acc wa.2 wa.1) ⟨M3.zero, V3.zero⟩)
      (polyPreSrc P.glob x) ws.sum = P.applyW ws x := by
  rw [kernelAccum_as_modelled, applyAffineC_as_modelled, polyPre_as_modelled]
  rfl

/-! ## `param` get / set as written -/

theorem vdiv_get (a b : Vec12) (i : Nat) : (vdiv a b).get i = a.get i / b.get i := by
  unfold vdiv Vec12.ofFn
  match i with
  | 0 | 1 | 2 | 3 | 4 | 5 | 6 | 7 | 8 | 9 | 10 | 11 => rfl
  | n + 12 => simp [Vec12.get]

/-- `_get_param` as written (`(self._vec12 / self._precond)[self.param_inds]`) is the model's `getParam` -/
theorem getParam_as_modelled (c : Cls) (v pc : Vec12) : getParamSrc v pc (paramInds c) = getParam c v pc := by
  unfold getParamSrc getParam take
  exact List.map_congr_left (fun i _ => vdiv_get v pc i)

theorem scatter_assign_aux (pc : Vec12) (p : List Rat) :
    ∀ (inds : List Nat) (k : Nat) (v : Vec12), inds.length + k = p.length →
      (inds.zip (List.range' k inds.length)).foldl
          (fun acc ik => acc.set ik.1 (p.getD ik.2 0 * pc.get ik.1)) v
        = scatter v inds (lmul (p.drop k) (take pc inds)) := by
  intro inds
  induction inds with
  | nil => intro k v _; simp [scatter]
  | cons i rest ih =>
      intro k v h
      have hk : k < p.length := by simp at h; omega
      have hd : p.drop k = p[k] :: p.drop (k + 1) := List.drop_eq_getElem_cons hk
      have hg : p.getD k 0 = p[k] := by simp [List.getD, hk]
      have := ih (k + 1) (v.set i (p[k] * pc.get i)) (by simp at h ⊢; omega)
      simp only [List.length_cons, List.range'_succ, List.zip_cons_cons, List.foldl_cons, hg]
      rw [this]
      simp only [scatter, lmul, take, hd, List.map_cons, List.zipWith_cons_cons, List.zip_cons_cons,
        List.foldl_cons]

/-- `Affine._set_param` as written (also `Affine2D`, `Rigid`, `Rigid2D`): for a parameter vector of the
    class's length the model's `setParam` accepts and is the source's fancy assignment -/
theorem setParam_as_modelled (c : Cls) (hc : fancySet c = false) (v pc : Vec12) (p : List Rat)
    (h : p.length = (paramInds c).length) :
    setParam c v pc p = .ok (setParamSrc v pc (paramInds c) p) := by
  have hp : setPairs c = (paramInds c).zip (List.range (paramInds c).length) := by
    cases c <;> simp_all [fancySet, setPairs]
  unfold setParam
  rw [hc]
  simp only [Bool.false_eq_true, if_false, h, if_true, hp, assign, setParamSrc]
  congr 1
  have := scatter_assign_aux pc p (paramInds c) 0 v (by omega)
  rw [List.range_eq_range']
  simpa using this

/-- `Similarity._set_param` / `Similarity2D._set_param` as written (index tables included) are the
    model's `setParam` whenever `p` is long enough for the fancy index -/
theorem simSetParam_as_modelled (v pc : Vec12) (p : List Rat) :
    (7 ≤ p.length → setParam .similarity v pc p = .ok (simSetParamSrc v pc p)) ∧
    (4 ≤ p.length → setParam .similarity2d v pc p = .ok (sim2dSetParamSrc v pc p)) := by
  constructor <;> intro h
  · have hall : (setPairs .similarity).all (fun ik => decide (ik.2 < p.length)) = true := by
      simp [setPairs, Gen.C08.simTargets, Gen.C08.simSources]; omega
    unfold setParam
    simp only [fancySet, if_true, hall]
    rfl
  · have hall : (setPairs .similarity2d).all (fun ik => decide (ik.2 < p.length)) = true := by
      simp [setPairs, Gen.C08.sim2dTargets, Gen.C08.sim2dSources]; omega
    unfold setParam
    simp only [fancySet, if_true, hall]
    rfl

/-- *reading and re-assigning the parameter vector reproduces the same transform*, of the two
    expressions as written: `param = param` leaves every slot of the class as it was -/
theorem get_set_param_from_source (c : Cls) (hc : fancySet c = false) (v pc : Vec12) (hpc : pc.AllNonzero) :
    setParam c v pc (getParamSrc v pc (paramInds c)) = .ok v ∧
    setParamSrc v pc (paramInds c) (getParamSrc v pc (paramInds c)) = v := by
  have hlen : (getParamSrc v pc (paramInds c)).length = (paramInds c).length := by
    rw [getParam_as_modelled]; simp [getParam]
  have h1 := setParam_as_modelled c hc v pc _ hlen
  have hns : ¬ (c = .similarity ∨ c = .similarity2d) := by
    rintro (rfl | rfl) <;> simp [fancySet] at hc
  have h2 := set_get_param c v pc hpc (fun h => absurd h hns)
  rw [getParam_as_modelled] at h1 ⊢
  rw [h1] at h2
  exact ⟨by rw [h1, h2], by injection h2⟩

/-! ## Non-vacuity -/

example : (5 : Rat) * 5 = (⟨0, 0, 5⟩ : V3).dot ⟨0, 0, 5⟩ ∧ ((3 : Rat) / 5) * (3 / 5) + (4 / 5) * (4 / 5) = 1 ∧
    Gen.C08.smallAngle < 5 := by
  refine ⟨by decide +kernel, by norm_num, ?_⟩
  unfold Gen.C08.smallAngle; norm_num

example : rotationVec2MatSrc ⟨0, 0, 5⟩ 5 (3 / 5) (4 / 5) = ⟨4 / 5, -3 / 5, 0, 3 / 5, 4 / 5, 0, 0, 0, 1⟩ := by
  decide +kernel

example : (0 : Rat) * 0 = (⟨0, 0, 0⟩ : V3).dot ⟨0, 0, 0⟩ ∧ (0 : Rat) ≤ Gen.C08.smallAngle := by
  refine ⟨by decide +kernel, ?_⟩
  unfold Gen.C08.smallAngle; norm_num

example : invMatSrc ⟨⟨2, 0, 0, 0, 1, 1, 0, 0, 1⟩, ⟨1, 2, 3⟩⟩ = some ⟨⟨1 / 2, 0, 0, 0, 1, -1, 0, 0, 1⟩, ⟨-1 / 2, 1, -3⟩⟩ := by
  decide +kernel

example : (⟨0, 1, 0, 1, 0, 0, 0, 0, 1⟩ : M3).transpose.mul ⟨0, 1, 0, 1, 0, 0, 0, 0, 1⟩ = M3.one ∧
    (rigidFrom44Src (fun _ => V3.zero) true ⟨1, 2, 3⟩ ⟨0, 1, 0, 1, 0, 0, 0, 0, 1⟩).2 = false := by
  decide +kernel

example : fancySet .affine2d = false ∧ ([1, 2, 3] : List Rat).length = (paramInds .rigid2d).length ∧
    setParamSrc Vec12.zero (preconditioner 100) (paramInds .rigid2d) [1, 2, 3]
      = ⟨1, 2, 0, 0, 0, 3 / 100, 0, 0, 0, 0, 0, 0⟩ := by
  decide +kernel

end NipyVerif.C08
