/-
C12 (wave 4, part N) — numbering of the component labels (`cc()`, read by `WeightedForest.partition` and
`split`): labels are given in order of first appearance, so the label of the first vertex of a tree is the number
of distinct trees met before it; distances in a forest (`all_distances`): zero on the diagonal, and a vertex is
at distance `k` of the ancestor it first reaches after `k` parent steps.
-/
import NipyVerif.Props.C12G
import NipyVerif.Props.C12W

namespace NipyVerif.C12

/-- one step of `dedupNat` -/
def dstep (acc : List Nat) (x : Nat) : List Nat := if acc.contains x then acc else acc ++ [x]

theorem dedupNat_eq_foldl (l : List Nat) : dedupNat l = l.foldl dstep [] := rfl

/-- what has been collected stays in front -/
theorem foldl_dstep_prefix (l acc : List Nat) : ∃ r, l.foldl dstep acc = acc ++ r := by
  induction l generalizing acc with
  | nil => exact ⟨[], by simp⟩
  | cons x l ih =>
    simp only [List.foldl_cons]
    by_cases h : x ∈ acc
    · have hd : dstep acc x = acc := by simp [dstep, h]
      rw [hd]; exact ih acc
    · have hd : dstep acc x = acc ++ [x] := by simp [dstep, h]
      rw [hd]
      obtain ⟨r, hr⟩ := ih (acc ++ [x])
      exact ⟨x :: r, by rw [hr]; simp⟩

/-- the position of a value in the list of distinct values is the number of distinct values met before its
    first occurrence -/
theorem idxOf_dedupNat_first (a : List Nat) (x : Nat) (b : List Nat) (hx : x ∉ a) :
    (dedupNat (a ++ x :: b)).idxOf x = (dedupNat a).length := by
  have hxD : x ∉ dedupNat a := by rw [mem_dedupNat]; exact hx
  rw [dedupNat_eq_foldl, List.foldl_append, List.foldl_cons, ← dedupNat_eq_foldl]
  have hs : dstep (dedupNat a) x = dedupNat a ++ [x] := by
    simp [dstep, hxD]
  rw [hs]
  obtain ⟨r, hr⟩ := foldl_dstep_prefix b (dedupNat a ++ [x])
  rw [hr]
  simp [List.idxOf_append, hxD]

/-- **`cc()` numbers the trees in order of first appearance**: a vertex `v` that is the first of its tree
    (no smaller vertex reaches the same root) gets as label the number of distinct trees among `0..v-1`;
    in particular vertex 0 has label 0.  With `cc_labels_same_iff_same_root` this fixes every label: the
    labelling is the first-occurrence numbering of the roots (what `partition` / `split` return on the leaves). -/
theorem cc_labels_first_occurrence (n : Nat) (q : Nat → Nat) (v : Nat) (hv : v < n)
    (hfirst : ∀ u < v, iter q n u ≠ iter q n v) :
    (ccLabels n q).getD v 0 = (dedupNat ((List.range v).map (iter q n))).length := by
  have hget : (ccLabels n q).getD v 0 = (dedupNat ((List.range n).map (iter q n))).idxOf (iter q n v) := by
    simp [ccLabels, List.getD_eq_getElem?_getD, hv]
  rw [hget]
  obtain ⟨k, hk⟩ : ∃ k, n = v + (k + 1) := ⟨n - v - 1, by omega⟩
  have hsplit : (List.range n).map (iter q n) =
      (List.range v).map (iter q n) ++ iter q n v :: ((List.range k).map (fun j => iter q n (v + (j + 1)))) := by
    rw [hk, List.range_add, List.map_append, List.range_succ_eq_map]
    simp [Function.comp_def]
  rw [hsplit]
  apply idxOf_dedupNat_first
  intro hmem
  obtain ⟨u, hu, he⟩ := List.mem_map.1 hmem
  exact hfirst u (List.mem_range.1 hu) he

/-- the first vertex always opens label 0 -/
theorem cc_label_zero (n : Nat) (q : Nat → Nat) (hn : 0 < n) : (ccLabels n q).getD 0 0 = 0 := by
  rw [cc_labels_first_occurrence n q 0 hn (fun u hu => absurd hu (Nat.not_lt_zero u))]
  rfl

/-- a label never exceeds the number of earlier vertices (so the labels used are `0..m-1` without gap, given that
    equal labels mean equal roots) -/
theorem dedupNat_length_le (l : List Nat) : (dedupNat l).length ≤ l.length := by
  rw [dedupNat_eq_foldl]
  suffices h : ∀ acc : List Nat, (l.foldl dstep acc).length ≤ acc.length + l.length by simpa using h []
  induction l with
  | nil => intro acc; simp
  | cons x l ih =>
    intro acc
    simp only [List.foldl_cons, List.length_cons]
    have := ih (dstep acc x)
    have h2 : (dstep acc x).length ≤ acc.length + 1 := by
      by_cases h : x ∈ acc
      · simp [dstep, h]
      · simp [dstep, h]
    omega

theorem cc_label_first_le (n : Nat) (q : Nat → Nat) (v : Nat) (hv : v < n)
    (hfirst : ∀ u < v, iter q n u ≠ iter q n v) : (ccLabels n q).getD v 0 ≤ v := by
  rw [cc_labels_first_occurrence n q v hv hfirst]
  have := dedupNat_length_le ((List.range v).map (iter q n))
  simpa using this

theorem dstep_nodup (acc : List Nat) (x : Nat) (h : acc.Nodup) : (dstep acc x).Nodup := by
  by_cases hx : x ∈ acc
  · simpa [dstep, hx] using h
  · simp only [dstep, List.contains_eq_mem, hx, decide_false, Bool.false_eq_true, if_false]
    rw [List.nodup_append]
    refine ⟨h, List.nodup_singleton x, ?_⟩
    intro a ha b hb
    rw [List.mem_singleton] at hb
    subst hb
    exact fun e => hx (e ▸ ha)

theorem dedupNat_nodup (l : List Nat) : (dedupNat l).Nodup := by
  rw [dedupNat_eq_foldl]
  suffices h : ∀ acc : List Nat, acc.Nodup → (l.foldl dstep acc).Nodup from h [] List.nodup_nil
  induction l with
  | nil => intro acc h; exact h
  | cons x l ih => intro acc h; exact ih _ (dstep_nodup acc x h)

/-- **`nbcc = cc().max() + 1` is the number of trees** (`split(k)` compares `k` with it): the labels used are
    exactly `0 .. m-1`, `m` the number of distinct roots -/
theorem cc_count_is_number_of_trees (n : Nat) (q : Nat → Nat) (hn : 0 < n) :
    (ccLabels n q).foldl max 0 + 1 = (dedupNat ((List.range n).map (iter q n))).length := by
  have hcc : ccLabels n q = ((List.range n).map (iter q n)).map
      (fun r => (dedupNat ((List.range n).map (iter q n))).idxOf r) := rfl
  generalize hD : dedupNat ((List.range n).map (iter q n)) = D at hcc
  have hmemD : ∀ r, r ∈ D ↔ r ∈ (List.range n).map (iter q n) := by
    intro r; rw [← hD]; exact mem_dedupNat _ r
  have hnd : D.Nodup := by rw [← hD]; exact dedupNat_nodup _
  have h0 : iter q n 0 ∈ D := (hmemD _).2 (List.mem_map.2 ⟨0, List.mem_range.2 hn, rfl⟩)
  have hpos : 0 < D.length := List.length_pos_of_mem h0
  -- every label is below the number of distinct roots
  have hup : (ccLabels n q).foldl max 0 ≤ D.length - 1 := by
    apply foldl_max_le
    intro x hx
    rw [hcc] at hx
    obtain ⟨r, hr, rfl⟩ := List.mem_map.1 hx
    have := List.idxOf_lt_length_iff.2 ((hmemD r).2 hr)
    omega
  -- the last distinct root is the root of some vertex, whose label is the last index
  have hlast : D.length - 1 ∈ ccLabels n q := by
    have hi : D.length - 1 < D.length := by omega
    have hx : D[D.length - 1] ∈ (List.range n).map (iter q n) := (hmemD _).1 (List.getElem_mem hi)
    rw [hcc]
    refine List.mem_map.2 ⟨D[D.length - 1], hx, ?_⟩
    have := List.get_idxOf hnd ⟨D.length - 1, hi⟩
    simpa using this
  have hlow := foldl_max_ge_mem (ccLabels n q) 0 _ hlast
  omega

/-! ## `all_distances` -/

theorem chain_head (p : Nat → Nat) (n v : Nat) : (chain p n v).head? = some v := by
  cases n <;> rfl

theorem mem_chain_self (p : Nat → Nat) (n v : Nat) : v ∈ chain p n v := by
  cases n <;> simp [chain]

/-- the diagonal of `all_distances()` is zero -/
theorem tree_dist_self (V : Nat) (p : Nat → Nat) (u : Nat) : treeDist V p u u = some 0 := by
  unfold treeDist
  cases V with
  | zero => simp [chain]
  | succ n => simp [chain, List.findIdx?_cons]

theorem chain_eq_map (p : Nat → Nat) (n v : Nat) :
    chain p n v = (List.range (n + 1)).map (fun i => p^[i] v) := by
  induction n generalizing v with
  | zero => rfl
  | succ n ih =>
    rw [chain, ih, List.range_succ_eq_map (n := n + 1), List.map_cons, List.map_map]
    rfl

theorem iterate_lt_of_inRange (V : Nat) (p : Nat → Nat) (hr : InRange V p) (v : Nat) (hv : v < V) (i : Nat) :
    p^[i] v < V := by
  induction i with
  | zero => exact hv
  | succ i ih => rw [Function.iterate_succ_apply']; exact hr _ ih

/-- **`all_distances` along ancestry**: in an accepted forest a vertex is at distance `k` of its `k`-th ancestor
    (`k` the first number of parent steps that reaches it), whatever the numbering of the nodes. -/
theorem tree_dist_to_ancestor (V : Nat) (p : Nat → Nat) (hr : InRange V p) (hc : check V p = true)
    (u : Nat) (hu : u < V) (k : Nat) (hk : k ≤ V) (hmin : ∀ i < k, p^[i] u ≠ p^[k] u) :
    treeDist V p u (p^[k] u) = some k := by
  -- no earlier vertex of the path lies on the ancestor's own path to the root
  have hnot : ∀ i < k, ∀ m, p^[i] u ≠ p^[m] (p^[k] u) := by
    intro i hi m he
    have hx : p^[i] u < V := iterate_lt_of_inRange V p hr u hu i
    have ha : p^[k] u = p^[k - i] (p^[i] u) := by
      rw [← Function.iterate_add_apply]; congr 1; omega
    have hper : p^[m + (k - i)] (p^[i] u) = p^[i] u := by
      rw [Function.iterate_add_apply, ← ha]; exact he.symm
    have hroot := forest_no_cycle V p hr hc _ hx (m + (k - i)) (by omega) hper
    apply hmin i hi
    rw [ha]; exact (Function.iterate_fixed hroot _).symm
  unfold treeDist
  simp only [chain_eq_map]
  have hfind : ((List.range (V + 1)).map (fun i => p^[i] u)).findIdx?
      (fun a => ((List.range (V + 1)).map (fun i => p^[i] (p^[k] u))).contains a) = some k := by
    rw [List.findIdx?_eq_some_iff_getElem]
    refine ⟨by simp; omega, ?_, ?_⟩
    · simp only [List.getElem_map, List.getElem_range, List.contains_eq_mem, List.mem_map, List.mem_range,
        decide_eq_true_eq]
      exact ⟨0, by omega, rfl⟩
    · intro j hj
      simp only [List.getElem_map, List.getElem_range, List.contains_eq_mem, List.mem_map, List.mem_range,
        decide_eq_true_eq, not_exists, not_and]
      intro m _ he
      exact hnot j hj m he.symm
  rw [hfind]
  have hget : ((List.range (V + 1)).map (fun i => p^[i] u)).getD k 0 = p^[k] u := by
    simp [List.getD_eq_getElem?_getD, Nat.lt_succ_of_le hk]
  simp only [hget]
  have hidx : ((List.range (V + 1)).map (fun i => p^[i] (p^[k] u))).idxOf (p^[k] u) = 0 := by
    rw [List.range_succ_eq_map]; simp
  rw [hidx]; rfl

/-- **`all_distances` = inf** exactly for vertices without a common ancestor (within the `V` parent steps the
    model looks at; in an accepted forest: in different trees) -/
theorem tree_dist_none_iff (V : Nat) (p : Nat → Nat) (u v : Nat) :
    treeDist V p u v = none ↔ ∀ i ≤ V, ∀ j ≤ V, p^[i] u ≠ p^[j] v := by
  unfold treeDist
  simp only [chain_eq_map]
  cases h : ((List.range (V + 1)).map (fun i => p^[i] u)).findIdx?
      (fun a => ((List.range (V + 1)).map (fun i => p^[i] v)).contains a) with
  | none =>
    simp only [true_iff]
    rw [List.findIdx?_eq_none_iff] at h
    intro i hi j hj he
    have := h (p^[i] u) (List.mem_map.2 ⟨i, List.mem_range.2 (by omega), rfl⟩)
    simp only [List.contains_eq_mem, List.mem_map, List.mem_range, decide_eq_false_iff_not, not_exists,
      not_and] at this
    exact this j (by omega) he.symm
  | some i =>
    rw [List.findIdx?_eq_some_iff_getElem] at h
    obtain ⟨hi, hc, _⟩ := h
    simp only [List.getElem_map, List.getElem_range, List.contains_eq_mem, List.mem_map, List.mem_range,
      decide_eq_true_eq] at hc
    obtain ⟨j, hj, he⟩ := hc
    simp only [List.length_map, List.length_range] at hi
    simp only [reduceCtorEq, false_iff]
    intro hall
    exact hall i (by omega) j (by omega) he.symm

/-- a finite distance is `i + j` for the first vertex `p^[i] u` of the path from `u` that is an ancestor-or-self of
    `v`, met after `j` steps from `v` (`j` minimal): up to the first common ancestor and down -/
theorem tree_dist_some_spec (V : Nat) (p : Nat → Nat) (u v d : Nat) (h : treeDist V p u v = some d) :
    ∃ i ≤ V, ∃ j ≤ V, d = i + j ∧ p^[i] u = p^[j] v ∧ (∀ i' < i, ∀ j' ≤ V, p^[i'] u ≠ p^[j'] v) ∧
      (∀ j' < j, p^[j'] v ≠ p^[i] u) := by
  unfold treeDist at h
  simp only [chain_eq_map] at h
  cases hf : ((List.range (V + 1)).map (fun i => p^[i] u)).findIdx?
      (fun a => ((List.range (V + 1)).map (fun i => p^[i] v)).contains a) with
  | none => rw [hf] at h; simp at h
  | some i =>
    rw [hf] at h
    simp only [Option.some.injEq] at h
    rw [List.findIdx?_eq_some_iff_getElem] at hf
    obtain ⟨hi, hc, hmin⟩ := hf
    simp only [List.length_map, List.length_range] at hi
    simp only [List.getElem_map, List.getElem_range, List.contains_eq_mem, List.mem_map, List.mem_range,
      decide_eq_true_eq] at hc
    have hget : ((List.range (V + 1)).map (fun i => p^[i] u)).getD i 0 = p^[i] u := by
      simp [List.getD_eq_getElem?_getD, hi]
    rw [hget] at h
    have hmem : p^[i] u ∈ (List.range (V + 1)).map (fun i => p^[i] v) := by
      obtain ⟨j, hj, he⟩ := hc
      exact List.mem_map.2 ⟨j, List.mem_range.2 hj, he⟩
    have hjlt := List.idxOf_lt_length_iff.2 hmem
    simp only [List.length_map, List.length_range] at hjlt
    refine ⟨i, by omega, _, Nat.le_of_lt_succ hjlt, h.symm, ?_, ?_, ?_⟩
    · have hlen : List.idxOf (p^[i] u) ((List.range (V + 1)).map (fun i => p^[i] v)) <
          ((List.range (V + 1)).map (fun i => p^[i] v)).length := by
        simp only [List.length_map, List.length_range]; exact hjlt
      have := List.getElem_idxOf hlen
      rw [List.getElem_map, List.getElem_range] at this
      exact this.symm
    · intro i' hi' j' hj' he
      have := hmin i' hi'
      simp only [List.getElem_map, List.getElem_range, List.contains_eq_mem, List.mem_map, List.mem_range,
        decide_eq_true_eq, not_exists, not_and] at this
      exact this j' (by omega) he.symm
    · intro j' hj' he
      have hj'' : j' < ((List.range (V + 1)).map (fun i => p^[i] v)).findIdx (· == p^[i] u) := hj'
      have := List.not_of_lt_findIdx hj''
      simp only [List.getElem_map, List.getElem_range, beq_eq_false_iff_ne, ne_eq] at this
      exact this he

/-! ## `leaves_of_a_subtree`: the climb to a common ancestor -/

/-- **the inner `while` of `leaves_of_a_subtree`** (partial): whatever the children table, the node the climb from
    `ca` stops at is an ancestor of `ca` (at most `fuel` parent steps above it), and — unless the step budget
    `V + 1` of the model is exhausted — its subtree contains the common ancestor found so far.  Missing for the full
    statement "the fold over `ids` ends at the lowest common ancestor of all ids": that `desc` is monotone along
    ancestry (`get_descendants` of a parent contains that of the child), which makes the containment persist. -/
theorem leaves_of_a_subtree_climb_partial (p : Nat → Nat) (desc : Nat → List Nat) (com : Option Nat)
    (fuel ca a : Nat) (h : climb p desc com fuel ca = some a) :
    ∃ k ≤ fuel, a = p^[k] ca ∧ (inOpt com (desc a) = true ∨ k = fuel) := by
  induction fuel generalizing ca with
  | zero =>
    simp only [climb, Option.some.injEq] at h
    exact ⟨0, Nat.le_refl _, h.symm, Or.inr rfl⟩
  | succ fuel ih =>
    rw [climb] at h
    by_cases h1 : inOpt com (desc ca) = true
    · simp only [h1, if_true, Option.some.injEq] at h
      subst h
      exact ⟨0, Nat.zero_le _, rfl, Or.inl h1⟩
    · simp only [h1] at h
      by_cases h2 : (p (p ca) == p ca && !inOpt com (desc (p ca))) = true
      · simp [h2] at h
      · simp only [h2] at h
        obtain ⟨k, hk, ha, hor⟩ := ih (p ca) h
        refine ⟨k + 1, by omega, by rw [Function.iterate_succ_apply]; exact ha, ?_⟩
        rcases hor with h3 | h3
        · exact Or.inl h3
        · exact Or.inr (by omega)

/-- the climb gives up (`-1` in the code) only at a root whose subtree misses the common ancestor -/
theorem leaves_of_a_subtree_climb_none (p : Nat → Nat) (desc : Nat → List Nat) (com : Option Nat)
    (fuel ca : Nat) (h : climb p desc com fuel ca = none) :
    ∃ k, 0 < k ∧ k ≤ fuel ∧ p (p^[k] ca) = p^[k] ca ∧ inOpt com (desc (p^[k] ca)) = false := by
  induction fuel generalizing ca with
  | zero => simp [climb] at h
  | succ fuel ih =>
    rw [climb] at h
    by_cases h1 : inOpt com (desc ca) = true
    · simp [h1] at h
    · simp only [h1] at h
      by_cases h2 : (p (p ca) == p ca && !inOpt com (desc (p ca))) = true
      · simp only [Bool.and_eq_true, beq_iff_eq, Bool.not_eq_true', ] at h2
        exact ⟨1, Nat.one_pos, by omega, by simpa using h2.1, by simpa using h2.2⟩
      · simp only [h2] at h
        obtain ⟨k, hk0, hk, hr, hn⟩ := ih (p ca) h
        exact ⟨k + 1, by omega, by omega, by rw [Function.iterate_succ_apply]; exact hr,
          by rw [Function.iterate_succ_apply]; exact hn⟩

/-! ## `WeightedForest.split` -/

/-- `split(k)` with `k` (clamped to `V`) not above the number of trees cuts nothing: the classes are the trees,
    numbered as `cc()` numbers them (first appearance) and read at the leaves -/
theorem split_at_most_trees (V : Nat) (ps : List Nat) (h : Nat → Rat) (k : Int)
    (hk : (if (V : Int) < k then (V : Int) else k) ≤ (((ccLabels V (fnOf ps)).foldl max 0 : Nat) : Int) + 1) :
    wfSplit V ps h k = some (leafComponents ps) := by
  simp only [wfSplit]
  rw [if_pos hk]

/-! ## Non-vacuity -/

/-- the chain `0 → 1 → 2`: the hypotheses of `tree_dist_to_ancestor` hold (u = 0, k = 2) and vertex 1 of the
    forest `[0, 1, 1]` is the first of its tree (hypothesis of `cc_labels_first_occurrence`) -/
example : InRange 3 (fnOf [1, 2, 2]) ∧ check 3 (fnOf [1, 2, 2]) = true ∧
    (∀ i < 2, (fnOf [1, 2, 2])^[i] 0 ≠ (fnOf [1, 2, 2])^[2] 0) ∧ treeDist 3 (fnOf [1, 2, 2]) 0 2 = some 2 ∧
    (∀ u < 1, iter (fnOf [0, 1, 1]) 3 u ≠ iter (fnOf [0, 1, 1]) 3 1) ∧ ccLabels 3 (fnOf [0, 1, 1]) = [0, 1, 1] := by
  refine ⟨?_, by decide +kernel, ?_, by decide +kernel, ?_, by decide +kernel⟩
  · intro v hv
    have : v = 0 ∨ v = 1 ∨ v = 2 := by omega
    rcases this with rfl | rfl | rfl <;> decide +kernel
  · intro i hi
    have : i = 0 ∨ i = 1 := by omega
    rcases this with rfl | rfl <;> decide +kernel
  · intro u hu
    have : u = 0 := by omega
    subst this; decide +kernel

end NipyVerif.C12
