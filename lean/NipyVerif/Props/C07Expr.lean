/-
C07 — tie (a), second part: the arithmetic expressions and tests of the sampling grid, the kernels, the
drifts, `_convolve_regressors` and `_full_rank`, regenerated from the text of /repo as Lean *terms*
(`Gen/C07Expr.lean`, by `harness/props/c07_expr.py`), are what the model computes.  An edit of one of
these source expressions changes the generated term and the theorem about it stops building.
-/
import NipyVerif.Gen.C07Expr
import NipyVerif.Lemmas.C07Mk

namespace NipyVerif.C07

/-- the repetition time of `_sample_condition` and of `compute_regressor` is `trOf` -/
theorem tr_as_modelled (fr : List Rat) :
    trOf fr = Gen.sampleTr (listMin fr) (listMax fr) fr.length ∧
    trOf fr = Gen.computeTr (listMin fr) (listMax fr) fr.length := ⟨rfl, rfl⟩

/-- `n_pre = int(np.ceil(-min_onset / dt))`, `dt = tr / oversampling` is `nPre` -/
theorem n_pre_as_modelled (fr : List Rat) (os : Nat) (mo : Rat) :
    ((nPre fr os mo : Int) : Rat) = Gen.sampleNPre mo (Gen.sampleDt (trOf fr) os) := rfl

/-- the high-resolution grid of the model is `np.linspace` of the three source expressions -/
theorem hr_grid_as_modelled (fr : List Rat) (os : Nat) (mo : Rat) (g : List Rat)
    (h : hrGrid fr os mo = .ok g) :
    ((nHr fr os mo : Int) : Rat) =
        Gen.hrNum (Gen.sampleNPre mo (Gen.sampleDt (trOf fr) os)) fr.length os ∧
    g = linspace (Gen.hrStart (listMin fr) (Gen.sampleNPre mo (Gen.sampleDt (trOf fr) os)) (Gen.sampleDt (trOf fr) os))
          (Gen.hrStop (listMax fr) (trOf fr)) (nHr fr os mo).toNat := by
  constructor
  · simp only [nHr, Gen.hrNum, Gen.sampleNPre, Gen.sampleDt, nPre]
    push_cast
    ring
  · unfold hrGrid at h
    split_ifs at h
    dsimp only at h
    split_ifs at h
    cases h
    rfl

/-- `t_onset = np.minimum(np.searchsorted(hr_frametimes, onsets), tmax - 1)` is `onsetIdx` -/
theorem onset_index_as_modelled (grid : List Rat) (e : Event) (hg : 0 < grid.length) :
    ((onsetIdx grid e : Nat) : Rat) =
      min ((searchsorted grid (Gen.onsetTime e.onset) : Nat) : Rat) (Gen.onsetClip grid.length) := by
  simp only [onsetIdx, Gen.onsetTime, Gen.onsetClip]
  rw [Nat.cast_min, Nat.cast_sub hg]
  simp

/-- `t_offset` with the zero-duration rule (`if to < tmax - 1 and to == t_onset[i]: t_offset[i] += 1`)
    is `offsetIdx` -/
theorem offset_index_as_modelled (grid : List Rat) (e : Event) (hg : 0 < grid.length) :
    offsetIdx grid e =
      (let tf := min (searchsorted grid (Gen.offsetTime e.onset e.dur)) (grid.length - 1)
       if Gen.zeroDurTest (tf : Rat) grid.length (onsetIdx grid e : Rat) then tf + 1 else tf) ∧
    (((min (searchsorted grid (Gen.offsetTime e.onset e.dur)) (grid.length - 1) : Nat) : Rat) =
      min ((searchsorted grid (Gen.offsetTime e.onset e.dur) : Nat) : Rat) (Gen.offsetClip grid.length)) := by
  constructor
  · simp only [offsetIdx, Gen.offsetTime, Gen.zeroDurTest, Bool.and_eq_true]
    have h1 : ∀ t : Nat, ((t : Rat) < (grid.length : Rat) - 1) ↔ t < grid.length - 1 := by
      intro t
      rw [← Nat.cast_one (R := Rat), ← Nat.cast_sub hg, Nat.cast_lt]
    simp only [h1, Nat.cast_inj, decide_eq_true_eq]
  · simp only [Gen.offsetClip]
    rw [Nat.cast_min, Nat.cast_sub hg]
    simp

/-- the fir kernel of delay `f` is `f * oversampling` zeros followed by `oversampling` ones -/
theorem fir_kernel_as_modelled (os d : Nat) :
    ∃ n0 n1 : Nat, (n0 : Rat) = Gen.firZeros d os ∧ (n1 : Rat) = Gen.firOnes os ∧
      firKernel os d = List.replicate n0 0 ++ List.replicate n1 1 :=
  ⟨d * os, os, by simp [Gen.firZeros], rfl, rfl⟩

/-- `_gamma_difference_hrf`: difference of the densities, division by the total, number of time stamps -/
theorem gamma_hrf_as_modelled (g1 g2 : List Rat) (ratio tr tl : Rat) (os : Nat) :
    gammaRaw g1 g2 ratio = List.zipWith (fun a b => Gen.gammaDiff a b ratio) g1 g2 ∧
    gammaDiffHrf g1 g2 ratio =
      (gammaRaw g1 g2 ratio).map (fun x => x / Gen.hrfTotal (gammaRaw g1 g2 ratio).sum) ∧
    ((hrfLen tr os tl : Int) : Rat) = Gen.hrfNum tl (Gen.hrfDt tr os) := ⟨rfl, rfl, rfl⟩

/-- the three derivative kernels are the finite difference `derivKernel` with the source's steps -/
theorem derivative_kernels_as_modelled (step : Rat) (h1 h0 : List Rat) :
    derivKernel step h1 h0 = List.zipWith (fun a b => Gen.spmTimeDeriv step a b) h1 h0 ∧
    derivKernel step h1 h0 = List.zipWith (fun a b => Gen.gloverTimeDeriv step a b) h1 h0 ∧
    derivKernel step h1 h0 = List.zipWith (fun a b => Gen.spmDispDeriv step a b) h1 h0 ∧
    Gen.spmTimeStep ≠ 0 ∧ Gen.gloverTimeStep ≠ 0 ∧ Gen.spmDispStep ≠ 0 :=
  ⟨rfl, rfl, rfl, by decide +kernel, by decide +kernel, by decide +kernel⟩

/-- `_poly_drift`: columns `(t / tmax) ** k` for `k < order + 1`, orthogonalised, re-ordered by the source's
    `hstack` — this is `polyDrift`, and the block has the source's number of columns -/
theorem poly_drift_as_modelled (order : Nat) (frames : List Rat) (tmax : Rat) :
    ((order + 1 : Nat) : Rat) = Gen.polyLoopEnd order ∧ ((order + 1 : Nat) : Rat) = Gen.polyCols order ∧
    polyDrift order frames tmax =
      Gen.polyReorder (orthogonalize ((List.range (order + 1)).map
        (fun k => frames.map (fun t => Gen.polyEntry t tmax k)))) := by
  refine ⟨by simp [Gen.polyLoopEnd], by simp [Gen.polyCols], ?_⟩
  simp only [polyDrift, Gen.polyReorder, Gen.polyEntry]
  cases orthogonalize ((List.range (order + 1)).map (fun k => frames.map (fun t => (t / tmax) ^ k))) with
  | nil => rfl
  | cons c0 rest => simp

/-- number of columns of the drift block for the three models of the source's dispatch;
    cosine: `max(int(np.floor(2 * len_tim * hfcut * dt)), 1)` with `hfcut = 1. / period_cut` -/
theorem drift_cols_as_modelled (model : String) (n : Nat) (dt hfcut : Rat) (order : Nat) :
    (model.toLower = "polynomial" → ∃ k, driftCols model n dt hfcut order = .ok k ∧ (k : Rat) = Gen.polyCols order) ∧
    (model.toLower = "cosine" → ∃ k, driftCols model n dt hfcut order = .ok k ∧
        (k : Rat) = Gen.cosineOrder n (Gen.cosineHfcut hfcut) dt) ∧
    (model.toLower = "blank" → driftCols model n dt hfcut order = .ok 1) ∧
    (model.toLower ∉ Gen.driftDispatch.map (·.1) → driftCols model n dt hfcut order = .error "error:notImplemented") := by
  refine ⟨?_, ?_, ?_, ?_⟩
  · intro h
    exact ⟨order + 1, by simp [driftCols, h], by simp [Gen.polyCols]⟩
  · intro h
    refine ⟨max (Rat.floor (2 * (n : Rat) * (1 / hfcut) * dt)).toNat 1, by simp [driftCols, h], ?_⟩
    simp only [Gen.cosineOrder, Gen.cosineHfcut]
    exact cast_max_toNat_one _
  · intro h
    simp [driftCols, h]
  · intro h
    simp only [Gen.driftDispatch, List.map_cons, List.map_nil, List.mem_cons, List.not_mem_nil, or_false,
      not_or] at h
    obtain ⟨h1, h2, h3⟩ := h
    unfold driftCols
    split <;> simp_all

/-- the drift names are the source's comprehension followed by the appended constant;
    the default user names are the source's comprehension -/
theorem drift_names_as_modelled (n : Nat) :
    driftNames n = Gen.driftNameList n ++ [Gen.driftAppended] ∧
    defaultRegNames n = Gen.defaultNameList n := by
  refine ⟨?_, rfl⟩
  simp only [driftNames, Gen.driftNameList, Gen.driftAppended, List.range'_eq_map_range, List.map_map]
  congr 1
  apply List.map_congr_left
  intro k _
  simp [Nat.add_comm]

/-- `_convolve_regressors` hands `compute_regressor` the oversampling of the source's test -/
theorem convolve_oversampling_as_modelled (name : String) (m : Hrf) (h : hrfOfName name = some m) :
    convolveOversampling m = Gen.convolveOversampling name := by
  unfold hrfOfName at h
  split at h <;>
    first
    | (injection h with h; subst h; simp [convolveOversampling, Gen.convolveOversampling])
    | simp at h

/-- `_full_rank`: the test, the shift `lda` and the new singular values are the source's expressions -/
theorem full_rank_as_modelled (s : List Rat) (smax smin cmax : Rat) :
    fullRankLda smax smin cmax = Gen.fullRankLda smax cmax smin ∧
    (smin ≠ 0 → fullRankKeep smax smin cmax = Gen.fullRankKeep (Gen.fullRankCond smax smin) cmax) ∧
    (fullRankKeep (listMax s) (listMin s) cmax = false →
      fullRank s cmax = (s.map (fun x => Gen.fullRankShift x (Gen.fullRankLda (listMax s) cmax (listMin s))), cmax)) ∧
    (fullRankKeep (listMax s) (listMin s) cmax = true →
      fullRank s cmax = (s, Gen.fullRankCond (listMax s) (listMin s))) := by
  refine ⟨rfl, ?_, ?_, ?_⟩
  · intro h
    simp [fullRankKeep, Gen.fullRankKeep, Gen.fullRankCond, h]
    congr
  · intro h
    simp [fullRank, h, Gen.fullRankShift, Gen.fullRankLda, fullRankLda]
  · intro h
    simp [fullRank, h, Gen.fullRankCond]

/-- the steps of `compute_regressor` the model's `computeRegressor` was written from — truncated convolution
    with every kernel (`convTrunc`), linear interpolation at the frame times (`resample`), Gram–Schmidt
    unless fir (`orthogonalize`, a no-op on one column) — and the blank drift (`driftCols … "blank" = 1`) -/
theorem pipeline_source_as_modelled :
    Gen.pipelineExprs =
      [("compute_regressor: conv_reg", "np.array([np.convolve(hr_regressor, h)[:hr_regressor.size] for h in hkernel])"),
       ("compute_regressor: hkernel", "_hrf_kernel(hrf_model, tr, oversampling, fir_delays)"),
       ("compute_regressor: reg_names", "_regressor_names(con_id, hrf_model, fir_delays=fir_delays)"),
       ("compute_regressor: creg", "_resample_regressor(conv_reg, hr_frametimes, frametimes)"),
       ("compute_regressor: if hrf_model != 'fir'", "creg = _orthogonalize(creg)"),
       ("_resample_regressor: f", "interp1d(hr_frametimes, hr_regressor)"),
       ("_resample_regressor: return", "f(frametimes).T"),
       ("_orthogonalize: if X.size == X.shape[0]", "return X"),
       ("_orthogonalize: for i in range(1, X.shape[1])", "X[:, i] -= np.dot(X[:, i], np.dot(X[:, :i], pinv(X[:, :i])))"),
       ("_blank_drift: return", "np.reshape(np.ones_like(frametimes), (np.size(frametimes), 1))")] := by
  decide

/-- `_hrf_kernel`: every model of its dispatch is a haemodynamic model of the model with as many kernels as
    `_regressor_names` gives names (`kernelCount`), the first kernel being the response itself -/
theorem hrf_kernels_as_modelled (c : String) (d : List Nat) :
    ∀ p ∈ Gen.hrfKernelTable, ∃ m, hrfOfName p.1 = some m ∧ m ≠ .fir ∧ kernelCount m d = p.2.length ∧
      (regressorNames c m d).length = p.2.length ∧ (p.2.head? = some "spm_hrf" ∨ p.2.head? = some "glover_hrf") := by
  intro p hp
  simp only [Gen.hrfKernelTable, List.mem_cons, List.not_mem_nil, or_false] at hp
  rcases hp with rfl | rfl | rfl | rfl | rfl
  · exact ⟨.spm, rfl, by decide, rfl, rfl, Or.inl rfl⟩
  · exact ⟨.spmTime, rfl, by decide, rfl, rfl, Or.inl rfl⟩
  · exact ⟨.spmTimeDisp, rfl, by decide, rfl, rfl, Or.inl rfl⟩
  · exact ⟨.canonical, rfl, by decide, rfl, rfl, Or.inr rfl⟩
  · exact ⟨.canonicalDeriv, rfl, by decide, rfl, rfl, Or.inr rfl⟩

/-- `_hrf_kernel` and `_regressor_names` know the same non-fir models -/
theorem hrf_kernel_models_complete :
    Gen.hrfKernelTable.map (·.1) =
      ["spm", "spm_time", "spm_time_dispersion", "canonical", "canonical with derivative"] := by
  decide

/-- `load_paradigm_from_csv_file`: the cells the row loop reads (`CsvRow`, `pCsvRow`: session, condition,
    `float` onset, `float` duration when `len(row) > 3`, `float` amplitude when `len(row) > 4`), the order of
    the column arrays cut to `len(last row)` (`readSession`: `keep`), and the branches of `read_session`
    (`keep > 4`: event-related iff all durations are zero, else block; `keep > 3`: block with unit
    amplitudes; else event-related) are those the model was written from -/
theorem paradigm_loader_as_modelled :
    Gen.loaderColumns =
      [("sess", 0, false, none), ("cid", 1, false, none), ("onset", 2, true, none),
       ("duration", 3, true, some 3), ("amplitude", 4, true, some 4)] ∧
    Gen.loaderArrays = ["sess", "cid", "onset", "duration", "amplitude"] ∧
    Gen.readSessionBranches =
      [(4, ["BlockParadigm", "EventRelatedParadigm"], ["(duration == 0).all()"]),
       (3, ["BlockParadigm"], []),
       (0, ["EventRelatedParadigm"], [])] := by
  decide

end NipyVerif.C07
