/-
C12 (part W) — `WeightedForest`: the height array against the forest structure.
-/
import NipyVerif.Model.C12W
import NipyVerif.Props.C12B

namespace NipyVerif.C12

/-- `check_compatible_height()` is true exactly when no node is higher than its parent. -/
theorem compatible_height_iff (V : Nat) (p : Nat → Nat) (h : Nat → Rat) :
    compatibleHeight V p h = true ↔ ∀ i < V, h i ≤ h (p i) := by
  simp only [compatibleHeight, List.all_eq_true, List.mem_range, Bool.not_eq_true', decide_eq_false_iff_not,
    not_lt]

/-- Height monotonicity along ancestry: with compatible heights, every ancestor (any number of
    parent steps) is at least as high as the node. -/
theorem compatible_height_monotone_along_ancestry (V : Nat) (p : Nat → Nat) (hr : InRange V p)
    (h : Nat → Rat) (hc : compatibleHeight V p h = true) (i : Nat) (hi : i < V) (k : Nat) :
    h i ≤ h (p^[k] i) := by
  rw [compatible_height_iff] at hc
  induction k with
  | zero => exact le_refl _
  | succ k ih =>
    rw [Function.iterate_succ_apply']
    have hlt : ∀ n, p^[n] i < V := by
      intro n; induction n with
      | zero => exact hi
      | succ n ihn => rw [Function.iterate_succ_apply']; exact hr _ ihn
    exact le_trans ih (hc _ (hlt k))

/-- `partition(threshold)` keeps the nodes with `height < threshold`.  With compatible heights the
    kept set is closed under descendants: below a kept node the whole subtree is kept, so the cut
    removes tops of trees only and every kept leaf of the original forest is a leaf of the cut one. -/
theorem partition_cut_keeps_whole_subtrees (V : Nat) (p : Nat → Nat) (hr : InRange V p)
    (h : Nat → Rat) (hc : compatibleHeight V p h = true) (th : Rat) (u v : Nat) (hu : u < V)
    (hd : u ∈ descendants V p v) (hv : h v < th) : h u < th := by
  obtain ⟨k, _, hk⟩ := (mem_descendants_iff V p hr u v hu).1 hd
  have := compatible_height_monotone_along_ancestry V p hr h hc u hu k
  rw [hk] at this
  exact lt_of_le_of_lt this hv

/-- non-vacuity: a dendrogram with compatible heights, its cut at 2 and `split(1)` -/
example :
    let ps := [3, 3, 4, 4, 4]
    compatibleHeight 5 (fnOf ps) (hOf [0, 0, 0, 1, 2]) = true ∧
      wfPartition 5 (fnOf ps) (hOf [0, 0, 0, 1, 2]) 2 = some [0, 0, 1] ∧
      wfSplit 5 ps (hOf [0, 0, 0, 1, 2]) 1 = some [0, 0, 0] := by
  decide +kernel

end NipyVerif.C12
