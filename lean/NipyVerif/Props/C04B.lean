/-
C04 — property theorems, part B: the dtype pipeline's conversions, SciPy's boundary modes as
index maps, and the sampling side of `cubic_spline.c` (registration fast path, 4-D realignment).
Only property statements and their non-vacuity examples live here.
-/
import NipyVerif.Lemmas.C04B

namespace NipyVerif.C04

/-! ## Storing an interpolated value in an output dtype -/

/-- floating-point outputs: nothing is rounded ("interpolate in float, cast only if asked") -/
theorem cast_float_exact (r : RoundRule) (d : DType) (h : d.intRange = none) (q : Rat) :
    castTo r d q = q := by
  unfold castTo; rw [h]

/-- a value the output dtype can hold is stored unchanged, under either rounding rule: lattice
    look-ups of integer-typed images survive the conversion -/
theorem cast_representable_exact (r : RoundRule) (d : DType) (q : Rat) (hd : d.isIntegral = true)
    (h : d.representable q = true) : castTo r d q = q := by
  unfold DType.isIntegral at hd
  obtain ⟨⟨lo, hi⟩, hr⟩ := Option.isSome_iff_exists.1 hd
  obtain ⟨z, rfl, h1, h2⟩ := (representable_iff d lo hi hr q).1 h
  unfold castTo
  rw [hr]
  simp only []
  rw [roundBy_int, clampInt_id _ _ _ h1 h2]

/-- integer outputs always hold a value of the dtype -/
theorem cast_in_range (r : RoundRule) (d : DType) (lo hi : Int) (h : d.intRange = some (lo, hi))
    (q : Rat) : ∃ z : Int, castTo r d q = z ∧ lo ≤ z ∧ z ≤ hi := by
  have hr := intRange_ok d lo hi h
  unfold castTo
  rw [h]
  exact ⟨_, rfl, clampInt_mem lo hi _ (by omega)⟩

/-- integer outputs: an interpolated value inside the dtype's range is stored to within one half
    (rounded, not truncated, not wrapped) -/
theorem cast_within_half (r : RoundRule) (d : DType) (lo hi : Int) (h : d.intRange = some (lo, hi))
    (q : Rat) (hlo : (lo : Rat) ≤ q) (hhi : q ≤ (hi : Rat)) : |castTo r d q - q| ≤ 1 / 2 := by
  unfold castTo
  rw [h]
  simp only []
  have h1 : lo ≤ roundBy r q := by
    have := roundBy_mono r hlo
    rwa [roundBy_int] at this
  have h2 : roundBy r q ≤ hi := by
    have := roundBy_mono r hhi
    rwa [roundBy_int] at this
  rw [clampInt_id _ _ _ h1 h2]
  exact roundBy_near r q

/-- the conversion is monotone (no wrap-around for out-of-range values: they are clipped) -/
theorem cast_mono (r : RoundRule) (d : DType) {p q : Rat} (h : p ≤ q) : castTo r d p ≤ castTo r d q := by
  unfold castTo
  cases hr : d.intRange with
  | none => exact h
  | some lh =>
    obtain ⟨lo, hi⟩ := lh
    have hok := intRange_ok d lo hi hr
    simp only []
    exact_mod_cast clampInt_mono lo hi (by omega) (roundBy_mono r h)

/-- out-of-range values are clipped to the nearest end of the dtype's range -/
theorem cast_clips (r : RoundRule) (d : DType) (lo hi : Int) (h : d.intRange = some (lo, hi)) (q : Rat) :
    ((hi : Rat) ≤ q → castTo r d q = hi) ∧ (q ≤ (lo : Rat) → castTo r d q = lo) := by
  have hok := intRange_ok d lo hi h
  unfold castTo
  rw [h]
  simp only []
  constructor
  · intro hq
    have := roundBy_mono r hq
    rw [roundBy_int] at this
    have : clampInt lo hi (roundBy r q) = hi := by unfold clampInt; split_ifs <;> omega
    rw [this]
  · intro hq
    have := roundBy_mono r hq
    rw [roundBy_int] at this
    have : clampInt lo hi (roundBy r q) = lo := by unfold clampInt; split_ifs <;> omega
    rw [this]

/-- the general resampler (both branches), the world-space interpolator and the 4-D realignment
    return double precision whatever the image's dtype — so nothing they compute is rounded
    (the statement that the integer-data defect of `resample` violated) -/
theorem general_resampler_returns_float64 (src : DType) (asked : Option DType) (order : Nat) :
    outDType .resampleAffine src asked order = .float64 ∧
    outDType .resampleInterp src asked order = .float64 ∧
    outDType .interpolator src asked order = .float64 ∧
    outDType .realign src asked order = .float64 := ⟨rfl, rfl, rfl, rfl⟩

/-- … hence their stored value is the interpolated value itself, for every source dtype -/
theorem general_resampler_stores_exact (src : DType) (asked : Option DType) (order : Nat) (x : Rat) :
    storeValue .resampleAffine src asked order x = x ∧ storeValue .resampleInterp src asked order x = x ∧
    storeValue .interpolator src asked order x = x ∧ storeValue .realign src asked order x = x := by
  refine ⟨?_, ?_, ?_, ?_⟩ <;> exact cast_float_exact _ _ rfl x

/-- the registration resampler returns the requested dtype, by default the moving image's -/
theorem registration_out_dtype (src : DType) (asked : Option DType) (order : Nat) :
    outDType .regFast src asked order = asked.getD src ∧
    outDType .regNdimage src asked order = asked.getD src := ⟨rfl, rfl⟩

/-- the datasets package never rounds an interpolated (order > 0) value: integer and boolean
    images come back in double precision, floating-point images keep their dtype;
    nearest-neighbour look-ups (order 0) keep the image's dtype, and are exact in it -/
theorem volume_out_dtype (src : DType) (asked : Option DType) (order : Nat) :
    (0 < order → (outDType .vol src asked order).intRange = none) ∧
    (order = 0 → outDType .vol src asked order = src) := by
  constructor
  · intro h
    unfold outDType
    simp only []
    by_cases hs : src.isIntegral = true
    · rw [if_pos ⟨h, hs⟩]; rfl
    · rw [if_neg (fun hc => hs hc.2)]
      unfold DType.isIntegral at hs
      cases hr : src.intRange with
      | none => rfl
      | some _ => rw [hr] at hs; simp at hs
  · intro h
    subst h
    unfold outDType
    simp

/-! ## SciPy's boundary modes as index maps -/

/-- `boundary_index_in_range`: whatever the mode and however far outside the coordinate, the
    index that is read lies in the array -/
theorem boundary_index_in_range (m : Mode) (len : Nat) (hlen : 0 < len) (i : Int) (j : Nat)
    (h : extIndex m len i = some j) : j < len := extIndex_lt m len hlen i j h

/-- inside the array every mode reads the point itself -/
theorem boundary_inside_identity (m : Mode) (len : Nat) (i : Int) (h0 : 0 ≤ i) (h1 : i < (len : Int)) :
    extIndex m len i = some i.toNat := extIndex_inside m len i h0 h1

/-- the fill value is used exactly for `constant` / `grid-constant` outside the array -/
theorem boundary_fill_iff (m : Mode) (len : Nat) (i : Int) :
    extIndex m len i = none ↔ m.fills = true ∧ ¬ (0 ≤ i ∧ i < (len : Int)) :=
  extIndex_none_iff m len i

/-- `nearest` clamps -/
theorem boundary_nearest_clamps (len : Nat) (hlen : 0 < len) (i : Int) :
    extIndex .nearest len i = some (clampInt 0 ((len : Int) - 1) i).toNat := by
  unfold extIndex clampInt
  simp only []
  by_cases hin : 0 ≤ i ∧ i < (len : Int)
  · rw [if_pos hin, if_neg (by omega), if_neg (by omega)]
  · rw [if_neg hin]
    by_cases hneg : i < 0
    · rw [if_pos hneg, if_pos hneg]; rfl
    · rw [if_neg hneg, if_neg hneg, if_pos (by omega)]
      congr 1
      omega

/-- `grid-mirror` is `reflect` -/
theorem boundary_gridMirror_is_reflect (len : Nat) (i : Int) :
    extIndex .gridMirror len i = extIndex .reflect len i := rfl

/-- `reflect` is the half-sample symmetric extension: `-1-i` reads what `i` reads … -/
theorem boundary_reflect_symm (len : Nat) (hlen : 0 < len) (i : Int) :
    extIndex .reflect len (-1 - i) = extIndex .reflect len i := by
  rw [extIndex_reflect_eq len hlen, extIndex_reflect_eq len hlen]
  have hp : (0 : Int) < 2 * (len : Int) := by omega
  have h1 := Int.emod_nonneg i (ne_of_gt hp)
  have h2 := Int.emod_lt_of_pos i hp
  have e := Int.mul_ediv_add_emod i (2 * (len : Int))
  have : (-1 - i) % (2 * (len : Int)) = 2 * (len : Int) - 1 - i % (2 * (len : Int)) :=
    emod_of_decomp _ _ _ (-(i / (2 * (len : Int))) - 1) (by linear_combination e)
      (by omega) (by omega)
  rw [this]
  congr 2
  split_ifs <;> omega

/-- … with period `2·len` -/
theorem boundary_reflect_period (len : Nat) (hlen : 0 < len) (i : Int) :
    extIndex .reflect len (i + 2 * (len : Int)) = extIndex .reflect len i := by
  rw [extIndex_reflect_eq len hlen, extIndex_reflect_eq len hlen]
  have : (i + 2 * (len : Int)) % (2 * (len : Int)) = i % (2 * (len : Int)) := by
    rw [Int.add_emod_right]
  rw [this]

/-- `mirror` is the whole-sample symmetric extension: `-i` reads what `i` reads … -/
theorem boundary_mirror_symm (len : Nat) (hlen : 1 < len) (i : Int) :
    extIndex .mirror len (-i) = extIndex .mirror len i := by
  rw [extIndex_mirror_eq len hlen, extIndex_mirror_eq len hlen]
  have hp : (0 : Int) < 2 * ((len : Int) - 1) := by omega
  have h1 := Int.emod_nonneg i (ne_of_gt hp)
  have h2 := Int.emod_lt_of_pos i hp
  have e := Int.mul_ediv_add_emod i (2 * ((len : Int) - 1))
  by_cases hz : i % (2 * ((len : Int) - 1)) = 0
  · have : (-i) % (2 * ((len : Int) - 1)) = 0 :=
      emod_of_decomp _ _ _ (-(i / (2 * ((len : Int) - 1)))) (by linear_combination e - hz)
        (by omega) (by omega)
    rw [this, hz]
  · have : (-i) % (2 * ((len : Int) - 1)) = 2 * ((len : Int) - 1) - i % (2 * ((len : Int) - 1)) :=
      emod_of_decomp _ _ _ (-(i / (2 * ((len : Int) - 1))) - 1) (by linear_combination e)
        (by omega) (by omega)
    rw [this]
    congr 2
    split_ifs <;> omega

/-- … with period `2·(len-1)` -/
theorem boundary_mirror_period (len : Nat) (hlen : 1 < len) (i : Int) :
    extIndex .mirror len (i + 2 * ((len : Int) - 1)) = extIndex .mirror len i := by
  rw [extIndex_mirror_eq len hlen, extIndex_mirror_eq len hlen]
  have : (i + 2 * ((len : Int) - 1)) % (2 * ((len : Int) - 1)) = i % (2 * ((len : Int) - 1)) := by
    rw [Int.add_emod_right]
  rw [this]

/-- `grid-wrap` is periodic with period `len` -/
theorem boundary_gridWrap_period (len : Nat) (hlen : 0 < len) (i : Int) :
    extIndex .gridWrap len (i + (len : Int)) = extIndex .gridWrap len i := by
  rw [extIndex_gridWrap_eq len hlen, extIndex_gridWrap_eq len hlen, Int.add_emod_right]

/-- legacy `wrap`: the index read is congruent to the coordinate modulo `len - 1` (the first and
    the last sample are identified) -/
theorem boundary_wrap_congr (len : Nat) (hlen : 1 < len) (i : Int) (j : Nat)
    (h : extIndex .wrap len i = some j) : ((len : Int) - 1) ∣ ((j : Int) - i) := by
  unfold extIndex at h
  simp only [] at h
  by_cases hin : 0 ≤ i ∧ i < (len : Int)
  · rw [if_pos hin] at h
    have := Option.some.inj h
    have : (j : Int) - i = 0 := by omega
    rw [this]; exact dvd_zero _
  · rw [if_neg hin, if_neg (by omega)] at h
    have hsz : (0 : Int) < (len : Int) - 1 := by omega
    by_cases hneg : i < 0
    · rw [if_pos hneg] at h
      have e := Int.mul_ediv_add_emod (-i) ((len : Int) - 1)
      have hm := Int.emod_nonneg (-i) (show ((len : Int) - 1) ≠ 0 by omega)
      have hl := Int.emod_lt_of_pos (-i) hsz
      have hj := Option.some.inj h
      refine ⟨(-i) / ((len : Int) - 1) + 1, ?_⟩
      have : (j : Int) = i + ((len : Int) - 1) * (-i / ((len : Int) - 1)) + ((len : Int) - 1) := by omega
      rw [this]; ring
    · rw [if_neg hneg] at h
      have e := Int.mul_ediv_add_emod i ((len : Int) - 1)
      have hm := Int.emod_nonneg i (show ((len : Int) - 1) ≠ 0 by omega)
      have hl := Int.emod_lt_of_pos i hsz
      have hj := Option.some.inj h
      refine ⟨-(i / ((len : Int) - 1)), ?_⟩
      have : (j : Int) = i - ((len : Int) - 1) * (i / ((len : Int) - 1)) := by omega
      rw [this]; ring

/-! ## `cubic_spline.c`: the sampler at grid points -/

/-- every coefficient the sampler reads lies in the coefficient array -/
theorem cs_mirror_in_range (x : Int) (ddim : Nat) : csMirror x ddim ≤ ddim := csMirror_le x ddim

/-- the C modes against SciPy's: `zero` reads what `constant` reads, `nearest` what `nearest`
    reads, and `reflect` what `mirror` reads on the interval `[-ddim, 2·ddim]` it accepts -/
theorem cs_modes_are_scipy_modes (ddim : Nat) (x : Int) :
    csExtIndex 0 ddim x = extIndex .constant (ddim + 1) x ∧
    csExtIndex 1 ddim x = extIndex .nearest (ddim + 1) x ∧
    (0 < ddim → -(ddim : Int) ≤ x → x ≤ 2 * (ddim : Int) →
      csExtIndex 2 ddim x = extIndex .mirror (ddim + 1) x) := by
  refine ⟨?_, ?_, ?_⟩
  · unfold csExtIndex extIndex
    simp only [if_true]
    by_cases h : 0 ≤ x ∧ x ≤ (ddim : Int)
    · rw [if_pos h, if_pos (by push_cast; omega)]
    · rw [if_neg h, if_neg (by push_cast; omega)]
  · rw [boundary_nearest_clamps (ddim + 1) (by omega)]
    unfold csExtIndex
    simp only [show ¬ (1 = 0) by omega, if_false, if_true]
    congr 2
    push_cast
    rw [add_sub_cancel_right]
  · intro hd h0 h1
    rw [extIndex_mirror_eq (ddim + 1) (by omega)]
    unfold csExtIndex
    simp only [show ¬ (2 = 0) by omega, show ¬ (2 = 1) by omega, if_false]
    rw [if_pos ⟨h0, h1⟩]
    congr 1
    have hw := csMirror_window x ddim hd (by omega) (by omega)
    have e : (((ddim + 1 : Nat) : Int) - 1) = (ddim : Int) := by push_cast; ring
    rw [e]
    have hp : (0 : Int) < 2 * (ddim : Int) := by omega
    have hm := Int.emod_nonneg x (ne_of_gt hp)
    have hl := Int.emod_lt_of_pos x hp
    have hle := csMirror_le x ddim
    by_cases hneg : x < 0
    · have ee : x % (2 * (ddim : Int)) = x + 2 * (ddim : Int) :=
        emod_of_decomp x _ _ (-1) (by ring) (by omega) (by omega)
      rw [ee]
      split_ifs at hw ⊢ <;> omega
    · by_cases hbig : x < 2 * (ddim : Int)
      · have ee : x % (2 * (ddim : Int)) = x := Int.emod_eq_of_lt (by omega) hbig
        rw [ee]
        split_ifs at hw ⊢ <;> omega
      · have ee : x % (2 * (ddim : Int)) = x - 2 * (ddim : Int) :=
          emod_of_decomp x _ _ 1 (by ring) (by omega) (by omega)
        rw [ee]
        split_ifs at hw ⊢ <;> omega

/-- `cubic_spline_sample1d` at an integer abscissa, for every boundary mode: the three-tap
    operator at the sample the mode designates, `0` where the mode refuses (or tapers to zero) -/
theorem cs_sample1_lattice (mode d : Nat) (f : Nat → Rat) (x : Int) :
    csSample1 (2 / 3) mode d f (x : Rat) = optTap d f (csExtIndex mode d x) := by
  have key : ∀ y : Int, -(d : Int) ≤ y → y ≤ 2 * (d : Int) →
      csAfter (2 / 3) d f (y : Rat) 1 = csTap d f (csMirror y d) := by
    intro y h0 h1
    unfold csAfter
    rw [csNeighbors_int y d h0 h1]
    simp only [one_mul]
    exact csWindow_tap d f y h0 h1
  have zero : ∀ y : Rat, csAfter (2 / 3) d f y 0 = 0 := by
    intro y; unfold csAfter; cases csNeighbors y d <;> simp
  unfold csSample1 csBoundary csExtIndex optTap
  simp only []
  by_cases hm0 : mode = 0
  · simp only [hm0, if_true]
    by_cases c1 : x < -1
    · have : (x : Rat) < -1 := by exact_mod_cast c1
      rw [if_pos this, if_neg (by omega)]
    · have n1 : ¬ (x : Rat) < -1 := by intro hc; apply c1; exact_mod_cast hc
      rw [if_neg n1]
      by_cases c2 : x < 0
      · have : (x : Rat) < 0 := by exact_mod_cast c2
        rw [if_pos this, if_neg (by omega)]
        have hx : x = -1 := by omega
        subst hx
        simp only []
        have : (1 : Rat) + ((-1 : Int) : Rat) = 0 := by norm_num
        rw [this]
        exact zero 0
      · have n2 : ¬ (x : Rat) < 0 := by intro hc; apply c2; exact_mod_cast hc
        rw [if_neg n2]
        by_cases c3 : (d : Int) + 1 < x
        · have : (((d : Nat) : Int) : Rat) + 1 < (x : Rat) := by exact_mod_cast c3
          rw [if_pos this, if_neg (by omega)]
        · have n3 : ¬ (((d : Nat) : Int) : Rat) + 1 < (x : Rat) := by
            intro hc; apply c3; exact_mod_cast hc
          rw [if_neg n3]
          by_cases c4 : (d : Int) < x
          · have : (((d : Nat) : Int) : Rat) < (x : Rat) := by exact_mod_cast c4
            rw [if_pos this, if_neg (by omega)]
            have hx : x = (d : Int) + 1 := by omega
            subst hx
            simp only []
            have : (((d : Nat) : Int) : Rat) + 1 - ((((d : Int) + 1 : Int)) : Rat) = 0 := by push_cast; ring
            rw [this]
            exact zero _
          · have n4 : ¬ (((d : Nat) : Int) : Rat) < (x : Rat) := by
              intro hc; apply c4; exact_mod_cast hc
            rw [if_neg n4, if_pos ⟨by omega, by omega⟩]
            simp only []
            rw [key x (by omega) (by omega)]
            have : csMirror x d = x.toNat := by
              have := csMirror_fixes x.toNat d (by omega)
              rwa [Int.toNat_of_nonneg (by omega)] at this
            rw [this]
  · simp only [hm0, if_false]
    by_cases hm1 : mode = 1
    · simp only [hm1, if_true]
      by_cases c2 : x < 0
      · have : (x : Rat) < 0 := by exact_mod_cast c2
        rw [if_pos this]
        simp only []
        have := key 0 (by omega) (by omega)
        simp only [Int.cast_zero] at this
        rw [this]
        have h0 : clampInt 0 (d : Int) x = 0 := by unfold clampInt; rw [if_pos c2]
        rw [h0]
        have := csMirror_fixes 0 d (by omega)
        simp only [Int.toNat_zero]
        exact congrArg _ this
      · have n2 : ¬ (x : Rat) < 0 := by intro hc; apply c2; exact_mod_cast hc
        rw [if_neg n2]
        by_cases c4 : (d : Int) < x
        · have : (((d : Nat) : Int) : Rat) < (x : Rat) := by exact_mod_cast c4
          rw [if_pos this]
          simp only []
          rw [key (d : Int) (by omega) (by omega)]
          have h0 : clampInt 0 (d : Int) x = (d : Int) := by
            unfold clampInt; rw [if_neg c2, if_pos c4]
          rw [h0, csMirror_fixes d d (le_refl d)]
          simp
        · have n4 : ¬ (((d : Nat) : Int) : Rat) < (x : Rat) := by
            intro hc; apply c4; exact_mod_cast hc
          rw [if_neg n4]
          simp only []
          rw [key x (by omega) (by omega)]
          have h0 : clampInt 0 (d : Int) x = x := by
            unfold clampInt; rw [if_neg c2, if_neg c4]
          rw [h0]
          have : csMirror x d = x.toNat := by
            have := csMirror_fixes x.toNat d (by omega)
            rwa [Int.toNat_of_nonneg (by omega)] at this
          rw [this]
    · simp only [hm1, if_false]
      by_cases c : -(d : Int) ≤ x ∧ x ≤ 2 * (d : Int)
      · have n : ¬ ((x : Rat) < -(((d : Nat) : Int) : Rat) ∨ 2 * (((d : Nat) : Int) : Rat) < (x : Rat)) := by
          intro hc
          rcases hc with hc | hc
          · have : x < -(d : Int) := by exact_mod_cast hc
            omega
          · have : 2 * (d : Int) < x := by exact_mod_cast hc
            omega
        rw [if_neg n, if_pos c]
        simp only []
        exact key x c.1 c.2
      · have p : ((x : Rat) < -(((d : Nat) : Int) : Rat) ∨ 2 * (((d : Nat) : Int) : Rat) < (x : Rat)) := by
          by_cases h : x < -(d : Int)
          · left; exact_mod_cast h
          · right
            have : 2 * (d : Int) < x := by omega
            exact_mod_cast this
        rw [if_pos p, if_neg c]

/-- `cubic_spline_sample3d` at an integer point, for every triple of boundary modes: when the
    coefficients are the B-spline coefficients of the samples `s`, the sampler returns the sample
    each axis' mode designates — the moving image's own value at grid points inside it — and `0`
    as soon as one axis refuses.  (The registration fast path uses `zero` on every axis, the 4-D
    realignment `reflect`.) -/
theorem cs_fast_path_lattice_lookup (mx my mz dx dy dz : Nat) (coef s : Nat → Nat → Nat → Rat)
    (hc : IsSplineCoef3 dx dy dz coef s) (x y z : Int) :
    csSample3 (2 / 3) mx my mz dx dy dz coef (x : Rat) (y : Rat) (z : Rat) =
      optSample3 s (csExtIndex mx dx x) (csExtIndex my dy y) (csExtIndex mz dz z) := by
  have hrange : ∀ (m d : Nat) (t : Int) (j : Nat), csExtIndex m d t = some j → j ≤ d := by
    intro m d t j h
    unfold csExtIndex at h
    split_ifs at h with h1 h2 h3 h4
    · have := Option.some.inj h; omega
    · have := Option.some.inj h
      have := clampInt_mem 0 (d : Int) t (by omega)
      omega
    · have := Option.some.inj h
      have := csMirror_le t d
      omega
  have tap0 : ∀ (d j : Nat), csTap d (fun _ => (0 : Rat)) j = 0 := by intro d j; simp [csTap]
  unfold csSample3
  have hA : (fun k => csSample1 (2 / 3) my dy (fun j => csSample1 (2 / 3) mx dx (fun i => coef i j k) (x : Rat)) (y : Rat))
      = fun k => optTap dy (fun j => optTap dx (fun i => coef i j k) (csExtIndex mx dx x)) (csExtIndex my dy y) := by
    funext k
    have : (fun j => csSample1 (2 / 3) mx dx (fun i => coef i j k) (x : Rat))
        = fun j => optTap dx (fun i => coef i j k) (csExtIndex mx dx x) := by
      funext j; exact cs_sample1_lattice mx dx _ x
    rw [this]
    exact cs_sample1_lattice my dy _ y
  rw [hA, cs_sample1_lattice mz dz _ z]
  cases hz : csExtIndex mz dz z with
  | none => cases csExtIndex mx dx x <;> cases csExtIndex my dy y <;> rfl
  | some k =>
    cases hy : csExtIndex my dy y with
    | none => cases csExtIndex mx dx x <;> simp [optTap, optSample3, tap0]
    | some j =>
      cases hx : csExtIndex mx dx x with
      | none => simp [optTap, optSample3, tap0]
      | some i =>
        simp only [optTap, optSample3]
        exact hc i j k (hrange _ _ _ _ hx) (hrange _ _ _ _ hy) (hrange _ _ _ _ hz)

/-! ## Non-vacuity -/

-- the two rounding rules differ exactly on ties
example : castTo .halfEven .int16 (5 / 2) = 2 ∧ castTo .halfAway .int16 (5 / 2) = 3 ∧
    castTo .halfEven .int16 (-5 / 2) = -2 ∧ castTo .halfAway .int16 (-5 / 2) = -3 ∧
    castTo .halfAway .uint8 (-15 / 2) = 0 ∧ castTo .halfAway .int8 300 = 127 ∧
    castTo .halfAway .float64 (-15 / 2) = -15 / 2 := by decide +kernel
-- index extension on an axis of 4 samples
example : (List.map (extIndex .reflect 4) [-5, -1, 4, 7, 8]) = [some 3, some 0, some 3, some 0, some 0] := by
  decide +kernel
example : (List.map (extIndex .mirror 4) [-4, -1, 4, 6, 7]) = [some 2, some 1, some 2, some 0, some 1] := by
  decide +kernel
example : (List.map (extIndex .wrap 5) [-4, -1, 5, 8]) = [some 4, some 3, some 1, some 0] := by decide +kernel
example : extIndex .constant 4 (-1) = none ∧ extIndex .gridWrap 4 (-1) = some 3 := by decide +kernel
-- spline coefficients: the constant array is its own coefficient array (taps sum to one)
example : IsSplineCoef3 2 1 0 (fun _ _ _ => 7) (fun _ _ _ => 7) := by
  intro i j k _ _ _
  simp [csTap]; norm_num

end NipyVerif.C04
