/-
C20 (memory half, part B) — bounds theorems stated over the index / guard expressions that
`harness/props/c20_kern.py` regenerates from the *current text* of the C kernels
(`Gen/C20Kernels.lean`).  "Guard passed ⇒ every address read or written lies in `[0, size)`",
for all dimensions, positions and neighbour offsets.  C integers are modelled as `Int`
(no overflow: an assumption), doubles as `Rat`.
-/
import NipyVerif.Lemmas.C20
import NipyVerif.Props.C20
import NipyVerif.Model.C20K
import Mathlib.Tactic.LinearCombination

namespace NipyVerif.C20
open Kern

/-! ### mrf.c -/

/-- `_ngb_integrate`: a neighbour that is not skipped has all the doubles the inner loops read
    (`ppm_data[pos + kk]`, `kk < K`) inside the posterior map — for every shape, voxel and offset. -/
theorem mrf_ngb_reads_in_bounds (d0 d1 d2 d3 x y z b0 b1 b2 kk : Int)
    (h : Mrf.ngbSkip d0 d1 d2 d3 x y z b0 b1 b2 = false)
    (hk0 : 0 ≤ kk) (hk : kk < Mrf.ngbReadLen d0 d1 d2 d3) :
    0 ≤ Mrf.ngbPos d0 d1 d2 d3 x y z b0 b1 b2 + kk ∧
      Mrf.ngbPos d0 d1 d2 d3 x y z b0 b1 b2 + kk < d0 * d1 * d2 * d3 := by
  simp only [Mrf.ngbSkip, Mrf.ngbPos, Mrf.ngbReadLen, decide_eq_false_iff_not, not_or, not_lt] at *
  obtain ⟨h1, h2⟩ := h
  constructor
  · linarith
  · have e : d0 * (d1 * (d2 * d3)) = d0 * d1 * d2 * d3 := by ring
    linarith

/-- `_ngb_integrate`: `res` (the caller's `p = calloc(K)`) is cleared and written on `K` entries only. -/
theorem mrf_ngb_res_in_alloc (d0 d1 d2 d3 : Int) :
    Mrf.ngbResLen d0 d1 d2 d3 ≤ Mrf.veAllocLen d0 d1 d2 d3 ∧
    Mrf.ngbMemsetLen d0 d1 d2 d3 ≤ Mrf.veAllocLen d0 d1 d2 d3 ∧
    Mrf.ngbResLen d0 d1 d2 d3 ≤ Mrf.ieAllocLen d0 d1 d2 d3 ∧
    Mrf.ngbMemsetLen d0 d1 d2 d3 ≤ Mrf.ieAllocLen d0 d1 d2 d3 := by
  simp [Mrf.ngbResLen, Mrf.ngbMemsetLen, Mrf.veAllocLen, Mrf.ieAllocLen]

/-- the neighbour loops (`ngb_idx < ngb_size`, three ints per step) stay inside the selected table -/
theorem mrf_ngb_table_length (n : Int) (t : List (Int × Int × Int)) (h : Mrf.selectNgb n = some t) :
    (t.length : Int) = n := by
  unfold Mrf.selectNgb at h
  split_ifs at h with h6 h26
  · cases h; subst h6; rfl
  · cases h; subst h26; rfl

/-- `ve_step` / `interaction_energy`: the row of a voxel inside the grid is inside `ppm`. -/
theorem mrf_row_in_bounds (d0 d1 d2 d3 x y z k : Int)
    (hx0 : 0 ≤ x) (hx : x < d0) (hy0 : 0 ≤ y) (hy : y < d1) (hz0 : 0 ≤ z) (hz : z < d2)
    (hk0 : 0 ≤ k) (hk : k < Mrf.veRowLen d0 d1 d2 d3) :
    (0 ≤ Mrf.veRowPos d0 d1 d2 d3 x y z + k ∧ Mrf.veRowPos d0 d1 d2 d3 x y z + k < d0 * d1 * d2 * d3) ∧
    (0 ≤ Mrf.ieRowPos d0 d1 d2 d3 x y z + k ∧ Mrf.ieRowPos d0 d1 d2 d3 x y z + k < d0 * d1 * d2 * d3) ∧
    Mrf.ieRowLen d0 d1 d2 d3 = Mrf.veRowLen d0 d1 d2 d3 := by
  simp only [Mrf.veRowLen, Mrf.veRowPos, Mrf.ieRowPos, Mrf.ieRowLen] at *
  have s1 := rowMajor_step z d2 k d3 hz0 hz hk0 hk
  have s2 := rowMajor_step y d1 (z * d3 + k) (d2 * d3) hy0 hy s1.1 s1.2
  have s3 := rowMajor_step x d0 (y * (d2 * d3) + (z * d3 + k)) (d1 * (d2 * d3)) hx0 hx s2.1 s2.2
  have e : x * (d1 * (d2 * d3)) + y * (d2 * d3) + z * d3 + k
      = x * (d1 * (d2 * d3)) + (y * (d2 * d3) + (z * d3 + k)) := by ring
  have e2 : d0 * (d1 * (d2 * d3)) = d0 * d1 * d2 * d3 := by ring
  rw [e, ← e2]
  exact ⟨s3, s3, trivial⟩

/-- `ve_step`: the `K` entries of `ref` read for the `index`-th point are inside a `(npts, K)` array. -/
theorem mrf_ref_in_bounds (d0 d1 d2 d3 index npts k : Int) (hi0 : 0 ≤ index) (hi : index < npts)
    (hk0 : 0 ≤ k) (hk : k < Mrf.veRefLen d0 d1 d2 d3) :
    0 ≤ Mrf.veRefPos d0 d1 d2 d3 index + k ∧ Mrf.veRefPos d0 d1 d2 d3 index + k < npts * d3 := by
  simp only [Mrf.veRefLen, Mrf.veRefPos] at *
  exact rowMajor_step index npts k d3 hi0 hi hk0 hk

/-- `make_edges`: a neighbour that is not skipped is read inside the index grid. -/
theorem mrf_edge_read_in_bounds (d0 d1 d2 x y z b0 b1 b2 : Int)
    (h : Mrf.edgeSkip d0 d1 d2 x y z b0 b1 b2 = false) :
    0 ≤ Mrf.edgePos d0 d1 d2 x y z b0 b1 b2 ∧ Mrf.edgePos d0 d1 d2 x y z b0 b1 b2 < d0 * d1 * d2 := by
  simp only [Mrf.edgeSkip, Mrf.edgePos, decide_eq_false_iff_not, not_or, not_lt, ge_iff_le, not_le] at *
  obtain ⟨h1, h2⟩ := h
  have e : d0 * (d1 * d2) = d0 * d1 * d2 := by ring
  exact ⟨h1, by linarith⟩

/-- `make_edges`: with at most `ngb_size` edges stored per mask voxel, every `npy_intp` written to the
    edge list (`buf_edges[0]`, `buf_edges[1]` of edge number `e`) is inside the allocation. -/
theorem mrf_edge_write_in_alloc (ngb_size mask_size e b : Int)
    (he0 : 0 ≤ e) (he : e < ngb_size * mask_size) (hb0 : 0 ≤ b) (hb : b < 2) :
    0 ≤ 2 * e + b ∧ 2 * e + b < Mrf.edgeAlloc ngb_size mask_size := by
  simp only [Mrf.edgeAlloc]
  constructor
  · linarith
  · nlinarith

/-- the number of edges stored by loops of the `make_edges` shape (`≤ n` per visited mask voxel) -/
theorem edges_count_le {α β : Type} (l : List α) (f : α → List β) (n : Nat) (h : ∀ a ∈ l, (f a).length ≤ n) :
    (l.flatMap f).length ≤ n * l.length := by
  induction l with
  | nil => simp
  | cons a t ih =>
      simp only [List.flatMap_cons, List.length_append, List.length_cons]
      have h1 := h a (by simp)
      have h2 := ih (fun b hb => h b (by simp [hb]))
      nlinarith

/-! ### joint_histogram.c -/

/-- the `FLOOR` macro of the C text is the mathematical floor -/
theorem jh_FLOOR_eq (a : Rat) : Jh.FLOOR a = ⌊a⌋ := by
  unfold Jh.FLOOR; exact truncFloor_eq a

/-- joint_histogram.c: a voxel that passes the inside test reads all eight neighbours
    (`J[q]` of the `APPEND_NEIGHBOR(q, w)` calls) inside the padded target image — for every
    transformed coordinate and every shape.  (`dimJ ≥ 2` per axis is what the padding by the Python
    front end guarantees; it makes the unsigned `dimJ[k]-2` of the C meaningful.) -/
theorem jh_reads_in_bounds (i : Int) (Tx Ty Tz : Rat) (d0 d1 d2 : Int)
    (_h0 : 2 ≤ d0) (_h1 : 2 ≤ d1) (_h2 : 2 ≤ d2)
    (h : Jh.inside i Tx Ty Tz d0 d1 d2 = true) :
    ∀ q ∈ Jh.offsets Tx Ty Tz d0 d1 d2, 0 ≤ q ∧ q < d0 * d1 * d2 := by
  simp only [Jh.inside, decide_eq_true_eq] at h
  obtain ⟨⟨⟨⟨⟨⟨_, hx1⟩, hx2⟩, hy1⟩, hy2⟩, hz1⟩, hz2⟩ := h
  obtain ⟨ax0, ax1⟩ := jh_axis_index Tx d0 hx1 hx2
  obtain ⟨ay0, ay1⟩ := jh_axis_index Ty d1 hy1 hy2
  obtain ⟨az0, az1⟩ := jh_axis_index Tz d2 hz1 hz2
  intro q hq
  simp only [Jh.offsets, List.mem_cons, List.not_mem_nil, or_false] at hq
  generalize Jh.FLOOR Tx + 1 = nx at *
  generalize Jh.FLOOR Ty + 1 = ny at *
  generalize Jh.FLOOR Tz + 1 = nz at *
  have key : ∀ ex ey ez : Int, 0 ≤ ex → ex ≤ 1 → 0 ≤ ey → ey ≤ 1 → 0 ≤ ez → ez ≤ 1 →
      0 ≤ (nx + ex) * (d1 * d2) + (ny + ey) * d2 + (nz + ez) ∧
      (nx + ex) * (d1 * d2) + (ny + ey) * d2 + (nz + ez) < d0 * d1 * d2 := by
    intro ex ey ez a b c d e f
    exact rowMajor3 (nx + ex) (ny + ey) (nz + ez) d0 d1 d2 (by linarith) (by linarith) (by linarith)
      (by linarith) (by linarith) (by linarith)
  rcases hq with e | e | e | e | e | e | e | e <;> subst e
  · have := key 0 0 0 (by norm_num) (by norm_num) (by norm_num) (by norm_num) (by norm_num) (by norm_num)
    constructor <;> nlinarith [this.1, this.2]
  · have := key 0 0 1 (by norm_num) (by norm_num) (by norm_num) (by norm_num) (by norm_num) (by norm_num)
    constructor <;> nlinarith [this.1, this.2]
  · have := key 0 1 0 (by norm_num) (by norm_num) (by norm_num) (by norm_num) (by norm_num) (by norm_num)
    constructor <;> nlinarith [this.1, this.2]
  · have := key 0 1 1 (by norm_num) (by norm_num) (by norm_num) (by norm_num) (by norm_num) (by norm_num)
    constructor <;> nlinarith [this.1, this.2]
  · have := key 1 0 0 (by norm_num) (by norm_num) (by norm_num) (by norm_num) (by norm_num) (by norm_num)
    constructor <;> nlinarith [this.1, this.2]
  · have := key 1 0 1 (by norm_num) (by norm_num) (by norm_num) (by norm_num) (by norm_num) (by norm_num)
    constructor <;> nlinarith [this.1, this.2]
  · have := key 1 1 0 (by norm_num) (by norm_num) (by norm_num) (by norm_num) (by norm_num) (by norm_num)
    constructor <;> nlinarith [this.1, this.2]
  · have := key 1 1 1 (by norm_num) (by norm_num) (by norm_num) (by norm_num) (by norm_num) (by norm_num)
    constructor <;> nlinarith [this.1, this.2]

/-- joint_histogram.c: the per-voxel neighbour buffers `Jnn[8]`, `W[8]` hold every `APPEND_NEIGHBOR` -/
theorem jh_local_buffers : Jh.nAppend ≤ Jh.JnnLen ∧ Jh.nAppend ≤ Jh.WLen := by decide

/-- joint_histogram.c: the PV and RAND interpolators write `H` inside the `clampI × clampJ` histogram
    when the source intensity is below `clampI` and the target intensity below `clampJ` (the clamping done
    by the Python front end: a hypothesis here). -/
theorem jh_write_in_bounds (i clampI clampJ j : Int) (hi0 : 0 ≤ i) (hi : i < clampI) (hj0 : 0 ≤ j)
    (hj : j < clampJ) :
    (0 ≤ Jh.pvIndex i clampJ j ∧ Jh.pvIndex i clampJ j < Jh.histLen clampI clampJ) ∧
    (0 ≤ Jh.randIndex i clampJ j ∧ Jh.randIndex i clampJ j < Jh.histLen clampI clampJ) := by
  simp only [Jh.pvIndex, Jh.randIndex, Jh.histLen]
  have s := rowMajor_step i clampI j clampJ hi0 hi hj0 hj
  have e : j + clampJ * i = i * clampJ + j := by ring
  rw [e]; exact ⟨s, s⟩

/-- joint_histogram.c: the TRI interpolator rounds a mean intensity `jm ∈ [0, clampJ-1]` to a bin inside `H` -/
theorem jh_tri_write_in_bounds (i clampI clampJ : Int) (jm : Rat) (hi0 : 0 ≤ i) (hi : i < clampI)
    (hj0 : 0 ≤ jm) (hj : jm ≤ ((clampJ - 1 : Int) : Rat)) :
    0 ≤ Jh.triIndex i clampJ jm ∧ Jh.triIndex i clampJ jm < Jh.histLen clampI clampJ := by
  simp only [Jh.triIndex, Jh.histLen, Jh.UROUND]
  have hp : (0 : Rat) ≤ jm + 1 / 2 := by linarith
  rw [truncC_nonneg hp]
  have l0 : 0 ≤ ⌊jm + 1 / 2⌋ := Int.floor_nonneg.mpr hp
  have l1 : ⌊jm + 1 / 2⌋ < clampJ := by
    rw [Int.floor_lt]; push_cast at hj ⊢; linarith
  have s := rowMajor_step i clampI ⌊jm + 1 / 2⌋ clampJ hi0 hi l0 l1
  have e : ⌊jm + 1 / 2⌋ + clampJ * i = i * clampJ + ⌊jm + 1 / 2⌋ := by ring
  rw [e]; exact s

/-! ### cubic_spline.c -/

/-- `_mirrored_position` (as written: truncating `%`, then the two fix-ups) lands in `[0, ddim]` for
    every grid coordinate. -/
theorem spline_mirror_in_range (x ddim : Int) (h : 0 ≤ ddim) :
    0 ≤ Spline.mirroredPosition x ddim ∧ Spline.mirroredPosition x ddim ≤ ddim := by
  unfold Spline.mirroredPosition
  by_cases h0 : ddim = 0
  · simp [h0]
  · have hp : (0 : Int) < 2 * ddim := by omega
    have b1 := Int.lt_tmod_of_pos x hp
    have b2 := Int.tmod_lt_of_pos x hp
    simp only [h0, if_false]
    generalize x.tmod (2 * ddim) = y at *
    split_ifs <;> omega

/-- `_mirror_grid_neighbors` + the sampling loops `for (xx = nx; xx <= px; …)`: exactly `bsp?[4]` /
    `pos?[4]` are filled and re-read, whatever the coordinate. -/
theorem spline_neighbors_fill_buffers (x : Rat) (ddim : Int) :
    Spline.sampleLoopCount (Spline.neighborsNx x ddim) (Spline.neighborsPx x ddim) = Spline.sampleBufLen := by
  simp only [Spline.sampleLoopCount, Spline.neighborsNx, Spline.neighborsPx, Spline.sampleBufLen]
  ring

/-- when neighbours exist, the right neighbour is within `[2 - ddim, 2·ddim + 2]` (so `nx = px - 3 ≥ -ddim - 1`):
    the window handed to `_mirrored_position` is bounded by the grid size -/
theorem spline_neighbors_window (x : Rat) (ddim : Int) (h : Spline.neighborsOk x ddim = true) :
    2 - ddim ≤ Spline.neighborsPx x ddim ∧ Spline.neighborsPx x ddim ≤ 2 * ddim + 2 := by
  have h' := of_decide_eq_true h
  simp only [Spline.neighborsPx] at *
  first
  | omega
  | (obtain ⟨h1, h2⟩ := h'
     have hp : (0 : Rat) ≤ x + ((ddim : Int) : Rat) + 2 := by linarith
     rw [truncC_nonneg hp]
     have l1 : (2 : Int) ≤ ⌊x + ((ddim : Int) : Rat) + 2⌋ := Int.le_floor.mpr (by push_cast; linarith)
     have l2 : ⌊x + ((ddim : Int) : Rat) + 2⌋ < 3 * ddim + 3 := Int.floor_lt.mpr (by push_cast; linarith)
     omega)

/-- `_mirror_grid_neighbors`: when the `(int)` conversion is executed and neighbours are reported, the
    converted double lies in `[2, 3·ddim + 3)`, i.e. the conversion is defined for every grid that fits an `int`.
    PARTIAL: this is the whole guarantee only when the C tests the range *before* converting
    (`neighborsCastGuard` is then the test itself); for a text that converts unconditionally
    (`neighborsCastGuard = true`) the conversion of a NaN / huge coordinate stays undefined and is left to the
    UBSan stream. -/
theorem spline_cast_defined_partial (x : Rat) (ddim : Int)
    (_hg : Spline.neighborsCastGuard x ddim = true) (h : Spline.neighborsOk x ddim = true) :
    (2 : Rat) ≤ Spline.neighborsCastArg x ddim ∧ Spline.neighborsCastArg x ddim < 3 * ((ddim : Int) : Rat) + 3 := by
  have h' := of_decide_eq_true h
  simp only [Spline.neighborsCastArg] at *
  first
  | exact h'
  | (have w := truncC_window (x + ((ddim : Int) : Rat) + 2) 2 (3 * ddim + 2) h' (by norm_num)
     push_cast at w
     constructor <;> linarith [w.1, w.2])

/-- `_cubic_spline_transform1d` (the recursive filter along one fibre of `dim ≥ 1` elements): every index
    at which `buf_src` and `buf_res` are dereferenced — through the four loops, forwards and backwards — is in
    `[0, dim)`.  (`dim = 0` never reaches the function: the fibre iterator of an empty array is empty.) -/
theorem spline_transform1d_in_bounds (dim : Nat) (h : 1 ≤ dim) :
    (∀ i ∈ segVisits dim 0 Spline.transform1dSrc, 0 ≤ i ∧ i < dim) ∧
    (∀ i ∈ segVisits dim 0 Spline.transform1dRes, 0 ≤ i ∧ i < dim) := by
  constructor
  · intro i hi
    simp only [Spline.transform1dSrc, segVisits, if_true, List.mem_cons, List.mem_append, List.mem_map,
      List.mem_range, List.not_mem_nil, or_false] at hi
    rcases hi with rfl | ⟨j, hj, rfl⟩ | ⟨j, hj, rfl⟩ | ⟨j, hj, rfl⟩ | rfl <;> omega
  · intro i hi
    simp only [Spline.transform1dRes, segVisits, if_true, List.mem_cons, List.mem_append, List.mem_map,
      List.mem_range, List.not_mem_nil, or_false] at hi
    rcases hi with rfl | ⟨j, hj, rfl⟩ | rfl | ⟨j, hj, rfl⟩ <;> omega

/-- cubic_spline_sample3d: the coefficient read for any three grid coordinates (mirrored as in the C)
    lies inside the extent of the coefficient array, for arbitrary (also negative) strides. -/
theorem spline_sample3d_in_extent (n0 n1 n2 : Nat) (sX sY sZ xx yy zz : Int)
    (h0 : 1 ≤ n0) (h1 : 1 ≤ n1) (h2 : 1 ≤ n2) :
    viewLo 0 [n0, n1, n2] [sX, sY, sZ] ≤
        Spline.sample3dOffset sX sY sZ (Spline.mirroredPosition xx (Spline.sample3d_ddimX n0))
          (Spline.mirroredPosition yy (Spline.sample3d_ddimY n1)) (Spline.mirroredPosition zz (Spline.sample3d_ddimZ n2)) ∧
      Spline.sample3dOffset sX sY sZ (Spline.mirroredPosition xx (Spline.sample3d_ddimX n0))
          (Spline.mirroredPosition yy (Spline.sample3d_ddimY n1)) (Spline.mirroredPosition zz (Spline.sample3d_ddimZ n2))
        ≤ viewHi 0 [n0, n1, n2] [sX, sY, sZ] := by
  have bx := spline_mirror_in_range xx ((n0 : Int) - 1) (by omega)
  have by' := spline_mirror_in_range yy ((n1 : Int) - 1) (by omega)
  have bz := spline_mirror_in_range zz ((n2 : Int) - 1) (by omega)
  simp only [Spline.sample3d_ddimX, Spline.sample3d_ddimY, Spline.sample3d_ddimZ]
  generalize Spline.mirroredPosition xx ((n0 : Int) - 1) = px at *
  generalize Spline.mirroredPosition yy ((n1 : Int) - 1) = py at *
  generalize Spline.mirroredPosition zz ((n2 : Int) - 1) = pz at *
  have hv := viewOffset_bounds [n0, n1, n2] [sX, sY, sZ] [px.toNat, py.toNat, pz.toNat] 0
    ⟨by omega, by omega, by omega, trivial⟩ rfl
  have e : viewOffset 0 [sX, sY, sZ] [px.toNat, py.toNat, pz.toNat] = Spline.sample3dOffset sX sY sZ px py pz := by
    simp only [viewOffset, Spline.sample3dOffset]
    rw [Int.toNat_of_nonneg bx.1, Int.toNat_of_nonneg by'.1, Int.toNat_of_nonneg bz.1]
    ring
  rw [e] at hv; exact hv

/-- the same for the 1-d, 2-d and 4-d samplers -/
theorem spline_sample124d_in_extent (n0 n1 n2 n3 : Nat) (s0 s1 s2 s3 x0 x1 x2 x3 : Int)
    (h0 : 1 ≤ n0) (h1 : 1 ≤ n1) (h2 : 1 ≤ n2) (h3 : 1 ≤ n3) :
    (viewLo 0 [n0] [s0] ≤ Spline.sample1dOffset s0 (Spline.mirroredPosition x0 (Spline.sample1d_ddim n0)) ∧
      Spline.sample1dOffset s0 (Spline.mirroredPosition x0 (Spline.sample1d_ddim n0)) ≤ viewHi 0 [n0] [s0]) ∧
    (viewLo 0 [n0, n1] [s0, s1] ≤ Spline.sample2dOffset s0 s1 (Spline.mirroredPosition x0 (Spline.sample2d_ddimX n0))
        (Spline.mirroredPosition x1 (Spline.sample2d_ddimY n1)) ∧
      Spline.sample2dOffset s0 s1 (Spline.mirroredPosition x0 (Spline.sample2d_ddimX n0))
        (Spline.mirroredPosition x1 (Spline.sample2d_ddimY n1)) ≤ viewHi 0 [n0, n1] [s0, s1]) ∧
    (viewLo 0 [n0, n1, n2, n3] [s0, s1, s2, s3] ≤
        Spline.sample4dOffset s0 s1 s2 s3 (Spline.mirroredPosition x0 (Spline.sample4d_ddimX n0))
          (Spline.mirroredPosition x1 (Spline.sample4d_ddimY n1)) (Spline.mirroredPosition x2 (Spline.sample4d_ddimZ n2))
          (Spline.mirroredPosition x3 (Spline.sample4d_ddimT n3)) ∧
      Spline.sample4dOffset s0 s1 s2 s3 (Spline.mirroredPosition x0 (Spline.sample4d_ddimX n0))
          (Spline.mirroredPosition x1 (Spline.sample4d_ddimY n1)) (Spline.mirroredPosition x2 (Spline.sample4d_ddimZ n2))
          (Spline.mirroredPosition x3 (Spline.sample4d_ddimT n3)) ≤ viewHi 0 [n0, n1, n2, n3] [s0, s1, s2, s3]) := by
  have b0 := spline_mirror_in_range x0 ((n0 : Int) - 1) (by omega)
  have b1 := spline_mirror_in_range x1 ((n1 : Int) - 1) (by omega)
  have b2 := spline_mirror_in_range x2 ((n2 : Int) - 1) (by omega)
  have b3 := spline_mirror_in_range x3 ((n3 : Int) - 1) (by omega)
  simp only [Spline.sample1d_ddim, Spline.sample2d_ddimX, Spline.sample2d_ddimY, Spline.sample4d_ddimX,
    Spline.sample4d_ddimY, Spline.sample4d_ddimZ, Spline.sample4d_ddimT]
  generalize Spline.mirroredPosition x0 ((n0 : Int) - 1) = p0 at *
  generalize Spline.mirroredPosition x1 ((n1 : Int) - 1) = p1 at *
  generalize Spline.mirroredPosition x2 ((n2 : Int) - 1) = p2 at *
  generalize Spline.mirroredPosition x3 ((n3 : Int) - 1) = p3 at *
  refine ⟨?_, ?_, ?_⟩
  · have hv := viewOffset_bounds [n0] [s0] [p0.toNat] 0 ⟨by omega, trivial⟩ rfl
    have e : viewOffset 0 [s0] [p0.toNat] = Spline.sample1dOffset s0 p0 := by
      simp only [viewOffset, Spline.sample1dOffset]; rw [Int.toNat_of_nonneg b0.1]; ring
    rw [e] at hv; exact hv
  · have hv := viewOffset_bounds [n0, n1] [s0, s1] [p0.toNat, p1.toNat] 0 ⟨by omega, by omega, trivial⟩ rfl
    have e : viewOffset 0 [s0, s1] [p0.toNat, p1.toNat] = Spline.sample2dOffset s0 s1 p0 p1 := by
      simp only [viewOffset, Spline.sample2dOffset]
      rw [Int.toNat_of_nonneg b0.1, Int.toNat_of_nonneg b1.1]; ring
    rw [e] at hv; exact hv
  · have hv := viewOffset_bounds [n0, n1, n2, n3] [s0, s1, s2, s3] [p0.toNat, p1.toNat, p2.toNat, p3.toNat] 0
      ⟨by omega, by omega, by omega, by omega, trivial⟩ rfl
    have e : viewOffset 0 [s0, s1, s2, s3] [p0.toNat, p1.toNat, p2.toNat, p3.toNat]
        = Spline.sample4dOffset s0 s1 s2 s3 p0 p1 p2 p3 := by
      simp only [viewOffset, Spline.sample4dOffset]
      rw [Int.toNat_of_nonneg b0.1, Int.toNat_of_nonneg b1.1, Int.toNat_of_nonneg b2.1, Int.toNat_of_nonneg b3.1]; ring
    rw [e] at hv; exact hv

/-! ### lib/fff/fff_array.c: the array iterator -/

/-- what a `fff_array_iterator` maintains: `data` is the byte offset of the element `(x, y, z, t)`, `idx` is the
    rank of that element in the (possibly axis-skipping) scan, the inner coordinates are within their bounds -/
def FffInv (oX oY oZ oT ddY ddZ ddT : Int) (s : Fff.It) : Prop :=
  s.data = s.x * oX + s.y * oY + s.z * oZ + s.t * oT ∧
  s.idx = ((s.x * (ddY + 1) + s.y) * (ddZ + 1) + s.z) * (ddT + 1) + s.t ∧
  0 ≤ s.x ∧ 0 ≤ s.y ∧ s.y ≤ ddY ∧ 0 ≤ s.z ∧ s.z ≤ ddZ ∧ 0 ≤ s.t ∧ s.t ≤ ddT

/-- `_fff_array_iterator_update4d` with the increments computed by `fff_array_iterator_init_skip_axis`
    preserves the invariant — for all dimensions and all (also non-contiguous) byte offsets. -/
theorem fff_update4d_invariant (oX oY oZ oT ddY ddZ ddT : Int) (s : Fff.It) (h : FffInv oX oY oZ oT ddY ddZ ddT s) :
    FffInv oX oY oZ oT ddY ddZ ddT
      (Fff.update4d ddY ddZ ddT (Fff.incX oX oY oZ oT ddY ddZ ddT) (Fff.incY oX oY oZ oT ddY ddZ ddT)
        (Fff.incZ oX oY oZ oT ddY ddZ ddT) (Fff.incT oX oY oZ oT ddY ddZ ddT) s) := by
  obtain ⟨hd, hi, hx, hy0, hy, hz0, hz, ht0, ht⟩ := h
  unfold Fff.update4d Fff.incX Fff.incY Fff.incZ Fff.incT FffInv
  split_ifs with c1 c2 c3
  · refine ⟨by simp only; linear_combination hd, by simp only; linear_combination hi, hx, hy0, hy, hz0, hz,
      by simp only; omega, by simp only; omega⟩
  · have e : s.t = ddT := by omega
    refine ⟨by simp only; linear_combination hd + oT * e, by simp only; linear_combination hi + e, hx, hy0, hy,
      by simp only; omega, by simp only; omega, by simp only; omega, by simp only; omega⟩
  · have e : s.t = ddT := by omega
    have e2 : s.z = ddZ := by omega
    refine ⟨by simp only; linear_combination hd + oT * e + oZ * e2,
      by simp only; linear_combination hi + e + (ddT + 1) * e2, hx,
      by simp only; omega, by simp only; omega, by simp only; omega, by simp only; omega, by simp only; omega,
      by simp only; omega⟩
  · have e : s.t = ddT := by omega
    have e2 : s.z = ddZ := by omega
    have e3 : s.y = ddY := by omega
    refine ⟨by simp only; linear_combination hd + oT * e + oZ * e2 + oY * e3,
      by simp only; linear_combination hi + e + (ddT + 1) * e2 + (ddT + 1) * (ddZ + 1) * e3,
      by simp only; omega, by simp only; omega, by simp only; omega, by simp only; omega, by simp only; omega,
      by simp only; omega, by simp only; omega⟩

/-- the 3-d, 2-d and 1-d updaters (selected when the trailing axes have length 1, i.e. `ddim = 0`) preserve it too -/
theorem fff_update321d_invariant (oX oY oZ oT ddY ddZ : Int) (s : Fff.It) :
    (FffInv oX oY oZ oT ddY ddZ 0 s → FffInv oX oY oZ oT ddY ddZ 0
      (Fff.update3d ddY ddZ 0 (Fff.incX oX oY oZ oT ddY ddZ 0) (Fff.incY oX oY oZ oT ddY ddZ 0)
        (Fff.incZ oX oY oZ oT ddY ddZ 0) (Fff.incT oX oY oZ oT ddY ddZ 0) s)) ∧
    (FffInv oX oY oZ oT ddY 0 0 s → FffInv oX oY oZ oT ddY 0 0
      (Fff.update2d ddY 0 0 (Fff.incX oX oY oZ oT ddY 0 0) (Fff.incY oX oY oZ oT ddY 0 0)
        (Fff.incZ oX oY oZ oT ddY 0 0) (Fff.incT oX oY oZ oT ddY 0 0) s)) ∧
    (FffInv oX oY oZ oT 0 0 0 s → FffInv oX oY oZ oT 0 0 0
      (Fff.update1d 0 0 0 (Fff.incX oX oY oZ oT 0 0 0) (Fff.incY oX oY oZ oT 0 0 0)
        (Fff.incZ oX oY oZ oT 0 0 0) (Fff.incT oX oY oZ oT 0 0 0) s)) := by
  refine ⟨?_, ?_, ?_⟩
  · rintro ⟨hd, hi, hx, hy0, hy, hz0, hz, ht0, ht⟩
    have et : s.t = 0 := by omega
    unfold Fff.update3d Fff.incX Fff.incY Fff.incZ FffInv
    split_ifs with c2 c3
    · refine ⟨by simp only; linear_combination hd, by simp only; linear_combination hi, hx, hy0, hy,
        by simp only; omega, by simp only; omega, ht0, ht⟩
    · have e2 : s.z = ddZ := by omega
      refine ⟨by simp only; linear_combination hd + oZ * e2, by simp only; linear_combination hi + e2, hx,
        by simp only; omega, by simp only; omega, by simp only; omega, by simp only; omega, ht0, ht⟩
    · have e2 : s.z = ddZ := by omega
      have e3 : s.y = ddY := by omega
      refine ⟨by simp only; linear_combination hd + oZ * e2 + oY * e3,
        by simp only; linear_combination hi + e2 + (ddZ + 1) * e3,
        by simp only; omega, by simp only; omega, by simp only; omega, by simp only; omega, by simp only; omega, ht0, ht⟩
  · rintro ⟨hd, hi, hx, hy0, hy, hz0, hz, ht0, ht⟩
    unfold Fff.update2d Fff.incX Fff.incY FffInv
    split_ifs with c3
    · refine ⟨by simp only; linear_combination hd, by simp only; linear_combination hi, hx,
        by simp only; omega, by simp only; omega, hz0, hz, ht0, ht⟩
    · have e3 : s.y = ddY := by omega
      refine ⟨by simp only; linear_combination hd + oY * e3, by simp only; linear_combination hi + e3,
        by simp only; omega, by simp only; omega, by simp only; omega, hz0, hz, ht0, ht⟩
  · rintro ⟨hd, hi, hx, hy0, hy, hz0, hz, ht0, ht⟩
    have ey : s.y = 0 := by omega
    have ez : s.z = 0 := by omega
    have et : s.t = 0 := by omega
    unfold Fff.update1d Fff.incX FffInv
    refine ⟨by simp only; linear_combination hd - oX * hi - oX * ey - oX * ez - oX * et, ?_, by simp only; omega,
      hy0, hy, hz0, hz, ht0, ht⟩
    simp only; rw [ey, ez, et]; ring

/-- a position reached before the scan ends (`idx < size`) has its outer coordinate inside the array as well: with the
    invariant, every element the iterator dereferences is an element of the array -/
theorem fff_iterator_x_in_range (oX oY oZ oT ddY ddZ ddT dimX : Int) (s : Fff.It)
    (h : FffInv oX oY oZ oT ddY ddZ ddT s) (hY : 0 ≤ ddY) (hZ : 0 ≤ ddZ) (hT : 0 ≤ ddT)
    (hidx : s.idx < dimX * (ddY + 1) * (ddZ + 1) * (ddT + 1)) : s.x < dimX := by
  obtain ⟨_, hi, hx, hy0, _, hz0, _, ht0, _⟩ := h
  by_contra hc
  have hge : dimX ≤ s.x := not_lt.mp hc
  have p1 : 0 < (ddY + 1) := by omega
  have p2 : 0 < (ddZ + 1) := by omega
  have p3 : 0 < (ddT + 1) := by omega
  have a1 : dimX * (ddY + 1) ≤ s.x * (ddY + 1) + s.y := by nlinarith
  have a2 : dimX * (ddY + 1) * (ddZ + 1) ≤ (s.x * (ddY + 1) + s.y) * (ddZ + 1) + s.z := by nlinarith
  have a3 : dimX * (ddY + 1) * (ddZ + 1) * (ddT + 1) ≤ ((s.x * (ddY + 1) + s.y) * (ddZ + 1) + s.z) * (ddT + 1) + s.t := by
    nlinarith
  omega

/-- the initial state of `fff_array_iterator_init_skip_axis` satisfies the invariant -/
theorem fff_iterator_init_invariant (oX oY oZ oT ddY ddZ ddT : Int) (hY : 0 ≤ ddY) (hZ : 0 ≤ ddZ) (hT : 0 ≤ ddT) :
    FffInv oX oY oZ oT ddY ddZ ddT ⟨0, 0, 0, 0, 0, 0⟩ := by
  unfold FffInv; simp; omega

/-! ### quantile.c -/

/-- quantile.c: for an accepted ratio and a fibre of at least two elements (one element is returned
    directly), the order statistic(s) asked of the partition loops are inside the fibre: `p` for
    `_pth_element`, `p` and `p+1` for `_pth_interval`. -/
theorem quantile_index_in_range (r : Rat) (size : Int) (hr : Quantile.refuse r = false) (hs : 2 ≤ size) :
    (Quantile.noInterpInf r size = false → 0 ≤ Quantile.pNoInterp r size ∧ Quantile.pNoInterp r size < size) ∧
    (0 ≤ Quantile.pInterp r size ∧ Quantile.pInterp r size < size) ∧
    (Quantile.interpSingle r size = false → Quantile.pInterp r size + 1 < size) := by
  simp only [Quantile.refuse, decide_eq_false_iff_not, not_or, not_lt] at hr
  obtain ⟨r0, r1⟩ := hr
  have hsz : (0 : Rat) ≤ ((size : Int) : Rat) := by exact_mod_cast (by omega : (0 : Int) ≤ size)
  have hsz1 : (0 : Rat) ≤ ((size - 1 : Int) : Rat) := by exact_mod_cast (by omega : (0 : Int) ≤ size - 1)
  refine ⟨?_, ?_, ?_⟩
  · intro hne
    have hne' := of_decide_eq_false hne
    simp only [Quantile.pNoInterp, Quantile.UNSIGNED_CEIL] at *
    have hpp : (0 : Rat) ≤ r * ((size : Int) : Rat) := mul_nonneg r0 hsz
    rw [truncCeil_eq hpp] at hne' ⊢
    have l0 : 0 ≤ ⌈r * ((size : Int) : Rat)⌉ := Int.ceil_nonneg hpp
    have l1 : ⌈r * ((size : Int) : Rat)⌉ ≤ size := by
      rw [Int.ceil_le]; nlinarith
    omega
  · simp only [Quantile.pInterp, Quantile.UNSIGNED_FLOOR]
    have hpp : (0 : Rat) ≤ r * ((size - 1 : Int) : Rat) := mul_nonneg r0 hsz1
    rw [truncC_nonneg hpp]
    have l0 : 0 ≤ ⌊r * ((size - 1 : Int) : Rat)⌋ := Int.floor_nonneg.mpr hpp
    have l1 : ⌊r * ((size - 1 : Int) : Rat)⌋ ≤ size - 1 := by
      have : r * ((size - 1 : Int) : Rat) ≤ ((size - 1 : Int) : Rat) := by nlinarith
      exact Int.le_of_lt_add_one (by rw [Int.floor_lt]; push_cast at this ⊢; linarith)
    omega
  · intro hw
    have hw' := of_decide_eq_false hw
    simp only [Quantile.pInterp, Quantile.UNSIGNED_FLOOR, not_le] at *
    have hpp : (0 : Rat) ≤ r * ((size - 1 : Int) : Rat) := mul_nonneg r0 hsz1
    rw [truncC_nonneg hpp] at hw' ⊢
    have hle : r * ((size - 1 : Int) : Rat) ≤ ((size - 1 : Int) : Rat) := by nlinarith
    have : ⌊r * ((size - 1 : Int) : Rat)⌋ < size - 1 := by
      rw [Int.floor_lt]
      have h3 : ((⌊r * ((size - 1 : Int) : Rat)⌋ : Int) : Rat) < r * ((size - 1 : Int) : Rat) := by linarith
      by_contra hc
      have hc' := not_lt.mp hc
      have h4 : r * ((size - 1 : Int) : Rat) = ((size - 1 : Int) : Rat) := le_antisymm hle hc'
      rw [h4] at h3
      simp at h3
    omega

/-! ### caller data: the decision taken on an observed mutation -/

/-- an observed modification of caller data is reported exactly when the routine is not in the registry of
    documented in-place routines; an unmodified argument is never reported -/
theorem mutVerdict_violation_iff (reg : List (String × String)) (routine : String) (mutated : Bool) :
    mutVerdict reg routine mutated = "violation" ↔ (mutated = true ∧ ∀ e ∈ reg, e.1 ≠ routine) := by
  unfold mutVerdict
  cases mutated with
  | false => simp
  | true =>
      by_cases h : reg.any (fun e => e.1 == routine) = true
      · simp only [Bool.not_true, Bool.false_eq_true, if_false, h, if_true]
        simp only [List.any_eq_true, beq_iff_eq] at h
        obtain ⟨e, he, hq⟩ := h
        constructor
        · intro hc; exact absurd hc (by decide)
        · intro ⟨_, hall⟩; exact absurd hq (hall e he)
      · simp only [Bool.not_true, Bool.false_eq_true, if_false, h]
        simp only [List.any_eq_true, beq_iff_eq, not_exists, not_and] at h
        constructor
        · intro _; exact ⟨trivial, fun e he => h e he⟩
        · intro _; trivial

/-! ### wrapper guards -/

/-- every precondition the bounds theorems need is either validated by the glue text (the table regenerated
    from the `.pyx` / C text) or is one of the listed front-end-only assumptions — and that list is exact:
    dropping a check from the glue, or adding one, changes `unvalidated` and breaks this proof. -/
theorem wrapper_guards_cover : unvalidated validated required = frontEndOnly := by decide +kernel

/-- nothing is assumed that the glue already validates -/
theorem frontEndOnly_not_validated : ∀ r ∈ frontEndOnly, validated.contains r = false := by decide +kernel

/-! ### non-vacuity -/
example : Mrf.ngbSkip 2 2 2 3 1 1 1 1 0 0 = true ∧ Mrf.ngbSkip 2 2 2 3 0 1 1 1 0 0 = false ∧
    Mrf.ngbPos 2 2 2 3 0 1 1 1 0 0 = 21 := by decide
example : Mrf.edgeSkip 2 2 2 1 1 1 0 0 1 = true ∧ Mrf.edgeSkip 2 2 2 0 1 1 0 0 1 = false := by decide
example : mutVerdict inplaceRegistry "nipy.algorithms.statistics.utils.multiple_fast_inv" true = "documented" ∧
    mutVerdict inplaceRegistry "nipy.algorithms.statistics.models.regression.yule_walker" true = "violation" ∧
    mutVerdict inplaceRegistry "nipy.algorithms.statistics.models.regression.yule_walker" false = "unchanged" := by
  decide
example : Mrf.selectNgb 26 = some Mrf.ngb26 ∧ Mrf.selectNgb 7 = none := by decide
example : Jh.inside 3 (-1/2) (3/2) 0 4 5 3 = true ∧ Jh.offsets (-1/2) (3/2) 0 4 5 3 = [7, 8, 10, 11, 22, 23, 25, 26] := by
  decide +kernel
example : Jh.inside 3 2 (3/2) 0 4 5 3 = false := by decide +kernel
example : segVisits 4 0 Spline.transform1dSrc = [0, 1, 2, 3, 2, 1, 1, 2, 3, 3] ∧
    segVisits 1 0 Spline.transform1dRes = [0, 0] := by decide
example : fffVisits 2 2 1 3 100 30 7 1 (-1) = [0, 1, 2, 30, 31, 32, 100, 101, 102, 130, 131, 132] ∧
    fffVisits 2 2 1 3 100 30 7 1 3 = [0, 30, 100, 130] := by decide
example : Spline.mirroredPosition (-3) 2 = 1 ∧ Spline.mirroredPosition 7 2 = 1 ∧ Spline.mirroredPosition 5 0 = 0 := by decide
example : Spline.neighborsOk (5/2) 4 = true ∧ Spline.neighborsNx (5/2) 4 = 1 ∧ Spline.neighborsPx (5/2) 4 = 4 := by
  decide +kernel
example : Quantile.refuse (1/2) = false ∧ Quantile.pNoInterp (1/2) 5 = 3 ∧ Quantile.pInterp (1/2) 4 = 1 ∧
    Quantile.interpSingle (1/2) 4 = false ∧ Quantile.noInterpInf 1 5 = true := by decide +kernel

end NipyVerif.C20
