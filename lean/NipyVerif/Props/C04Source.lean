/-
C04 — the constants and guards the model uses are those the source text has now
(`Gen/C04Consts.lean` is regenerated from /repo at every run of the check: an edit of
`n_prepad_if_needed`, of the guards of `_buildknots`, of the short-cut guard of
`registration.resample` or of the 2/3 literal of `cubic_spline.c` breaks one of these proofs).
-/
import NipyVerif.Model.C04
import NipyVerif.Gen.C04Consts

namespace NipyVerif.C04

/-- `_buildknots`: pre-pad of `n_prepad_if_needed` voxels exactly when a pre-filter runs
    (`order >` the source's bound) and the mode is one of the source's tuple -/
theorem nPrepad_is_source (order : Nat) (mode : String) :
    nPrepad order mode =
      if order > Src.prefilterOrderAbove ∧ mode ∈ Src.prepadModes then Src.nPrepadIfNeeded else 0 := by
  unfold nPrepad Src.prefilterOrderAbove Src.prepadModes Src.nPrepadIfNeeded
  simp only [List.mem_cons, List.not_mem_nil, or_false]

/-- `registration.resample`: the cubic-spline short cut is taken for the triple the source names -/
theorem useCspline_is_source (order : Nat) (mode : String) (cval : Rat) :
    useCspline order mode cval =
      (decide (order = Src.shortcutOrder) && decide (mode = Src.shortcutMode) && decide (cval = Src.shortcutCval)) := by
  unfold useCspline Src.shortcutOrder Src.shortcutMode Src.shortcutCval
  rfl

/-- `cubic_spline_basis`: the literal standing for 2/3 -/
theorem c23_is_source : c23C = Src.c23 := by
  unfold c23C Src.c23
  rfl

end NipyVerif.C04
