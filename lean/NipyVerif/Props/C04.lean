/-
C04 — property theorems about the model in `NipyVerif.Model.C04`:
"the value a resampled image holds at a target voxel is the source interpolated at the location
obtained by mapping that voxel's world position through the supplied transform …".
Only property statements and their non-vacuity examples live here.
-/
import NipyVerif.Lemmas.C04

namespace NipyVerif.C04

/-! ## The voxel→voxel map each entry point hands to its interpolator -/

/-- `resample` (matrix, `(A, b)` pair or `AffineTransform` mapping): the map handed to
    `ndimage.affine_transform` is target voxel → target world → (mapping) → image world →
    image voxel, in that order. -/
theorem resample_pipeline_spec {n k : Nat} (srcInv mapping : Aff n n) (tgt : Aff n k) (v : Vec k) :
    (resampleMap srcInv mapping tgt).apply v = srcInv.apply (mapping.apply (tgt.apply v)) := by
  unfold resampleMap tv2iw
  rw [Aff.apply_comp, Aff.apply_comp]

/-- … hence the source location that is sampled lies at the world position obtained by mapping
    the target voxel's world position through the supplied transform. -/
theorem resample_samples_mapped_world {n k : Nat} (src srcInv mapping : Aff n n) (tgt : Aff n k)
    (hinv : ∀ y, src.apply (srcInv.apply y) = y) (v : Vec k) :
    src.apply ((resampleMap srcInv mapping tgt).apply v) = mapping.apply (tgt.apply v) := by
  rw [resample_pipeline_spec, hinv]

/-- `resample` with a plain callable goes through `ImageInterpolator`; the coordinates it hands
    to `map_coordinates`, less the pre-pad offset, are the same voxel map: both branches sample
    the same location. -/
theorem resample_interp_branch_spec {n k : Nat} (srcInv mapping : Aff n n) (tgt : Aff n k)
    (order : Nat) (mode : String) (v : Fin k → Int) (i : Fin n) :
    resampleInterpCoords srcInv mapping tgt order mode v i - ((nPrepad order mode : Nat) : Rat)
      = (resampleMap srcInv mapping tgt).apply (castPt v) i := by
  rw [resample_pipeline_spec]
  simp [resampleInterpCoords, evalCoords]

/-- `resample_img2img`: refuses exactly when the world dimensions differ; otherwise the map is
    target voxel → shared world → source voxel. -/
theorem img2img_spec {n k : Nat} (sop top : Nat) (srcInv : Aff n n) (tgt : Aff n k) :
    (sop ≠ top → img2imgMap sop top srcInv tgt = .error "error:valueError") ∧
    (sop = top → ∃ M, img2imgMap sop top srcInv tgt = .ok M ∧
        ∀ v, M.apply v = srcInv.apply (tgt.apply v)) := by
  constructor
  · intro h; simp [img2imgMap, h]
  · intro h
    refine ⟨resampleMap srcInv (Aff.ident n) tgt, by simp [img2imgMap, h], fun v => ?_⟩
    rw [resample_pipeline_spec, Aff.apply_ident]

/-- `registration.resample`, all four voxel/world flag combinations: `Tv` is
    `[inv(mov_aff)] ∘ T ∘ [ref_aff]`, a factor being dropped exactly when the corresponding
    `*_voxel_coords` flag says the transform already works in voxels. -/
theorem registration_spec (movInv T ref : Aff 3 3) (movVox refVox : Bool) (v : Vec 3) :
    (regMap movInv T ref movVox refVox).apply v =
      (if movVox then id else movInv.apply) (T.apply ((if refVox then id else ref.apply) v)) := by
  cases movVox <;> cases refVox <;> simp [regMap, Aff.apply_comp]

/-- the cubic-spline short cut and the `scipy.ndimage` path of `registration.resample` differ only
    in the routine: the short cut is taken exactly for `(3, 'constant', 0)`. -/
theorem registration_shortcut_iff (isAffine : Bool) (order : Nat) (mode : String) (cval : Rat) :
    (regRoutine isAffine order mode cval = "cspline_resample3d" ∨
     regRoutine isAffine order mode cval = "cspline_sample3d") ↔
      (order = 3 ∧ mode = "constant" ∧ cval = 0) := by
  unfold regRoutine useCspline
  by_cases h1 : order = 3 <;> by_cases h2 : mode = "constant" <;> by_cases h3 : cval = 0 <;>
    cases isAffine <;> simp [h1, h2, h3]

/-- 4-D realignment (`scanner_coords`): with identity transforms every grid point is sampled at
    itself, so resampling without time interpolation reproduces the input. -/
theorem realign_identity (affInv aff : Aff 3 3) (hinv : ∀ x, affInv.apply (aff.apply x) = x)
    (v : Vec 3) : (realignMap affInv (Aff.ident 3) aff).apply v = v := by
  unfold realignMap
  rw [Aff.apply_comp, Aff.apply_comp, Aff.apply_ident, hinv]

/-- `VolumeImg.as_volume_img` (4×4 target affine): the matrix and offset handed to
    `ndimage.affine_transform` realise target voxel → world → source voxel, for diagonal and
    full matrices alike (the offset is the translation of `inv(self.affine) · affine`). -/
theorem volimg_spec (selfInv self tgt : Aff 3 3) (AInv : Fin 3 → Fin 3 → Rat)
    (hself : ∀ x, selfInv.apply (self.apply x) = x)
    (hA : ∀ y : Vec 3, (⟨AInv, fun _ => 0⟩ : Aff 3 3).apply
        ((⟨(volTransform selfInv self tgt).A, fun _ => 0⟩ : Aff 3 3).apply y) = y)
    (v : Vec 3) :
    (volMap selfInv self tgt AInv).apply v = selfInv.apply (tgt.apply v) := by
  have hoff : ∀ i, (volMap selfInv self tgt AInv).b i = (volTransform selfInv self tgt).b i := by
    intro i
    have := congrFun (hA (volTransform selfInv self tgt).b) i
    simpa [volMap, Aff.apply] using this
  have h1 : (volMap selfInv self tgt AInv).apply v = (volTransform selfInv self tgt).apply v := by
    funext i
    simp only [Aff.apply, hoff]
    rfl
  rw [h1]
  unfold volTransform
  split
  · rename_i hb
    rw [Aff.eq_of_beq _ _ hb, Aff.apply_ident, hself]
  · rw [Aff.apply_comp]

/-! ## The returned image carries the target grid's coordinate map -/

/-- `Image(idata, copy.copy(target))` -/
theorem resample_carries_target_coordmap {n k : Nat} (I : Interp n) (g : Grid n)
    (srcInv mapping : Aff n n) (tgt : Aff n k) :
    (resampleImage I g srcInv mapping tgt).coordmap = tgt ∧
    ∀ v, (resampleImage I g srcInv mapping tgt).value v
      = I.eval g (srcInv.apply (mapping.apply (tgt.apply (castPt v)))) := by
  refine ⟨rfl, fun v => ?_⟩
  simp [resampleImage, resampled, resample_pipeline_spec]

/-! ## Maps that send grid points to grid points: the output is the looked-up source -/

/-- For every interpolation scheme (every order): when the voxel map sends target voxel `v` onto
    a source index, the output holds the stored source sample there, and the fill value when that
    index is outside the array (`mode='constant'`).  `latticeLookup` is what the driver prints. -/
theorem lattice_lookup {n k : Nat} (I : Interp n) (g : Grid n) (fill : Option Rat) (M : Aff n k)
    (v : Fin k → Int) (r : Rat) (hfill : ∀ c, fill = some c → I.FillsOutside c)
    (h : latticeLookup g fill M v = some r) : resampled I g M v = r := by
  unfold latticeLookup at h
  unfold resampled
  split at h
  · rename_i p hp
    rw [latticePt_some _ _ hp]
    by_cases hin : g.insideB p = true
    · rw [if_pos hin] at h
      rw [I.at_lattice g p ((insideB_iff g p).1 hin)]
      exact Option.some.inj h
    · rw [if_neg hin] at h
      exact hfill r h g p (fun hc => hin ((insideB_iff g p).2 hc))
  · cases h

/-- converse direction: an index point always gets a verdict (no silent gaps in the check) -/
theorem lattice_lookup_defined {n k : Nat} (g : Grid n) (c : Rat) (M : Aff n k) (v : Fin k → Int)
    (p : Fin n → Int) (hp : M.apply (castPt v) = castPt p) :
    latticeLookup g (some c) M v = some (if g.insideB p then g.val p else c) := by
  unfold latticeLookup
  rw [hp, latticePt_castPt]
  by_cases h : g.insideB p = true <;> simp [h]

/-- identity, axis flips and permutations, whole-voxel shifts, integer sub-sampling: a voxel map
    with integer matrix and integer offset sends *every* target voxel onto a source index, so the
    whole output is a lookup, for every interpolation order. -/
theorem integer_map_all_lookup {n k : Nat} (I : Interp n) (g : Grid n) (c : Rat) (M : Aff n k)
    (hA : ∀ i j, ∃ z : Int, M.A i j = z) (hb : ∀ i, ∃ z : Int, M.b i = z)
    (hfill : I.FillsOutside c) (v : Fin k → Int) :
    ∃ p : Fin n → Int, M.apply (castPt v) = castPt p ∧
      resampled I g M v = if g.insideB p then g.val p else c := by
  obtain ⟨p, hp⟩ := apply_int M hA hb v
  exact ⟨p, hp, lattice_lookup I g (some c) M v _ (fun c' hc => by cases hc; exact hfill)
    (lattice_lookup_defined g c M v p hp)⟩

/-- identity resampling (same grid, identity transform) returns the source array -/
theorem identity_reproduces {n : Nat} (I : Interp n) (g : Grid n) (src srcInv : Aff n n)
    (hinv : ∀ x, srcInv.apply (src.apply x) = x) (v : Fin n → Int) (hv : g.inside v) :
    resampled I g (resampleMap srcInv (Aff.ident n) src) v = g.val v := by
  unfold resampled
  rw [resample_pipeline_spec, Aff.apply_ident, hinv, I.at_lattice g v hv]

/-- points farther than the interpolator's margin outside the field of view receive the fill value -/
theorem fill_value_outside {n k : Nat} (I : Interp n) (g : Grid n) (c margin : Rat) (M : Aff n k)
    (hI : I.FillsBeyond c margin) (v : Fin k → Int)
    (hout : ∃ i, M.apply (castPt v) i < -margin ∨
      ((g.shape i : Int) : Rat) - 1 + margin < M.apply (castPt v) i) :
    resampled I g M v = c := hI g _ hout

/-! ## Linear interpolation of a linear intensity field -/

/-- If the source samples an intensity that is an affine function `c` of world position, an
    order-1-exact interpolator returns, at every target voxel mapped into the field of view,
    the field at the mapped world position `mapping (tgt v)` — for any affine maps. -/
theorem linear_field_reproduced {n k : Nat} (I : Interp n) (hI : I.LinearExact) (g : Grid n)
    (src srcInv mapping : Aff n n) (tgt : Aff n k) (c : Aff 1 n)
    (hinv : ∀ y, src.apply (srcInv.apply y) = y)
    (hdata : ∀ p, g.inside p → g.val p = c.apply (src.apply (castPt p)) 0)
    (v : Fin k → Int) (hfov : g.inFov ((resampleMap srcInv mapping tgt).apply (castPt v))) :
    resampled I g (resampleMap srcInv mapping tgt) v
      = c.apply (mapping.apply (tgt.apply (castPt v))) 0 := by
  unfold resampled
  rw [hI g (c.comp src) (fun p hp => by rw [hdata p hp, Aff.apply_comp]) _ hfov,
    Aff.apply_comp, resample_samples_mapped_world src srcInv mapping tgt hinv]

/-- what the driver prints for field cases is that value -/
theorem fieldExpected_spec {n k : Nat} (g : Grid n) (L : Aff 1 n) (cval : Rat) (cm : Bool)
    (M : Aff n k) (v : Fin k → Int) (hfov : g.inFov (M.apply (castPt v))) :
    fieldExpected g L cval cm M v = some (L.apply (M.apply (castPt v)) 0) := by
  unfold fieldExpected
  simp [(inFovB_iff g _).2 hfov]

/-! ## `ImageInterpolator`: the 12-voxel pre-pad does not move the samples -/

/-- index `p` of the image is index `p + k` of the edge-padded knot array, with the same value -/
theorem prepad_lookup {n : Nat} (g : Grid n) (k : Nat) (p : Fin n → Int) (hp : g.inside p) :
    (padEdge g k).inside (fun i => p i + (k : Int)) ∧
    (padEdge g k).val (fun i => p i + (k : Int)) = g.val p := by
  constructor
  · intro i
    have := hp i
    simp only [padEdge]
    push_cast
    omega
  · simp only [padEdge]
    congr 1
    funext i
    have := hp i
    rw [clampInt_id] <;> omega

/-- `evaluate` at the world position of voxel `p` returns the sample at `p`, whatever the
    order/mode (i.e. with or without pre-padding). -/
theorem interpolator_lattice {n : Nat} (I : Interp n) (g : Grid n) (src srcInv : Aff n n)
    (hinv : ∀ x, srcInv.apply (src.apply x) = x) (order : Nat) (mode : String)
    (p : Fin n → Int) (hp : g.inside p) :
    I.eval (padEdge g (nPrepad order mode)) (evalCoords srcInv order mode (src.apply (castPt p)))
      = g.val p := by
  have hc : evalCoords srcInv order mode (src.apply (castPt p))
      = castPt (fun i => p i + ((nPrepad order mode : Nat) : Int)) := by
    funext i
    simp [evalCoords, hinv, castPt]
  obtain ⟨h1, h2⟩ := prepad_lookup g (nPrepad order mode) p hp
  rw [hc, I.at_lattice _ _ h1, h2]

/-! ## Concrete interpolators satisfying the hypotheses -/

/-- order 0 (nearest sample), any dimension, `mode='constant'` -/
def nearestInterp (n : Nat) (cval : Rat) : Interp n where
  eval := nearestEval cval
  at_lattice := by
    intro g p hp
    have : (fun i => roundHalfUp (castPt p i)) = p := by
      funext i; simp [castPt, roundHalfUp_int]
    simp only [nearestEval, this]
    rw [if_pos ((insideB_iff g p).2 hp)]

theorem nearest_fills_outside (n : Nat) (cval : Rat) : (nearestInterp n cval).FillsOutside cval := by
  intro g p hp
  have : (fun i => roundHalfUp (castPt p i)) = p := by
    funext i; simp [castPt, roundHalfUp_int]
  simp only [nearestInterp, nearestEval, this]
  rw [if_neg (fun h => hp ((insideB_iff g p).1 h))]

/-- order 1 in one dimension, `mode='constant'` -/
def linear1Interp (cval : Rat) : Interp 1 where
  eval := linear1Eval cval
  at_lattice := by
    intro g p hp
    have h0 := hp 0
    have hx : castPt p 0 = ((p 0 : Int) : Rat) := rfl
    have hlo : ¬ ((p 0 : Rat) < 0) := by
      have : (0 : Rat) ≤ (p 0 : Rat) := by exact_mod_cast h0.1
      linarith
    have hhi : ¬ (((g.shape 0 : Int) : Rat) - 1 < (p 0 : Rat)) := by
      have : (p 0 : Rat) ≤ ((g.shape 0 : Int) : Rat) - 1 := by
        have h : p 0 ≤ (g.shape 0 : Int) - 1 := by omega
        exact_mod_cast h
      linarith
    have hp' : (fun _ : Fin 1 => p 0) = p := by
      funext i; rw [Subsingleton.elim i 0]
    simp only [linear1Eval, hx, hlo, hhi, or_self, if_false, floor_int, sub_self, sub_zero,
      one_mul, zero_mul, add_zero, hp']

theorem linear1_fills_beyond (cval : Rat) : (linear1Interp cval).FillsBeyond cval 0 := by
  intro g x hx
  obtain ⟨i, hi⟩ := hx
  have hi0 : i = 0 := Subsingleton.elim i 0
  subst hi0
  simp only [neg_zero, add_zero] at hi
  simp only [linear1Interp, linear1Eval]
  rw [if_pos hi]

theorem linear1_exact (cval : Rat) : (linear1Interp cval).LinearExact := by
  intro g L hL x hx
  have h0 := hx 0
  have hval : ∀ z : Int, 0 ≤ z → z < (g.shape 0 : Int) →
      g.val (fun _ => z) = L.A 0 0 * (z : Rat) + L.b 0 := by
    intro z hz1 hz2
    rw [hL (fun _ => z) (fun i => ⟨hz1, by rw [Subsingleton.elim i 0]; exact hz2⟩)]
    simp [Aff.apply, sumFin_eq, castPt]
  have hLx : L.apply x 0 = L.A 0 0 * x 0 + L.b 0 := by
    simp [Aff.apply, sumFin_eq]
  simp only [linear1Interp, linear1Eval]
  rw [if_neg (by intro h; rcases h with h | h <;> linarith [h0.1, h0.2]), hLx, floor_eq]
  have hfl : ((⌊x 0⌋ : Int) : Rat) ≤ x 0 := Int.floor_le (x 0)
  have hfl2 : x 0 < ((⌊x 0⌋ : Int) : Rat) + 1 := Int.lt_floor_add_one (x 0)
  have hz0 : 0 ≤ ⌊x 0⌋ := Int.floor_nonneg.2 h0.1
  have hzlt : ⌊x 0⌋ < (g.shape 0 : Int) := by
    have : ((⌊x 0⌋ : Int) : Rat) < ((g.shape 0 : Int) : Rat) := by linarith [h0.2]
    exact_mod_cast this
  rw [hval ⌊x 0⌋ hz0 hzlt]
  by_cases hnext : ⌊x 0⌋ + 1 < (g.shape 0 : Int)
  · rw [hval (⌊x 0⌋ + 1) (by omega) hnext]
    push_cast
    ring
  · -- `x` is the last sample: the weight of the (absent) right neighbour is zero
    have heq : ((⌊x 0⌋ : Int) : Rat) = ((g.shape 0 : Int) : Rat) - 1 := by
      have h : ⌊x 0⌋ = (g.shape 0 : Int) - 1 := by omega
      rw [h]; push_cast; ring
    have hx0 : x 0 = ((⌊x 0⌋ : Int) : Rat) := by linarith [h0.2]
    rw [← hx0]
    ring

/-! ## `xyz_ordered`: axis swaps and flips keep every sample at its world position -/

/-- `_swapaxes`: voxel `p` of the swapped image holds the sample of voxel `p ∘ swap` of the
    original, at the same world position. -/
theorem swapaxes_world (v : Vol) (a c : Fin 3) (p : Fin 3 → Int) :
    (v.swapaxes a c).g.val p = v.g.val (fun i => p (swapFin a c i)) ∧
    (v.swapaxes a c).aff.apply (castPt p) = v.aff.apply (castPt (fun i => p (swapFin a c i))) ∧
    ((v.swapaxes a c).g.inside p ↔ v.g.inside (fun i => p (swapFin a c i))) := by
  refine ⟨rfl, ?_, ?_⟩
  · funext i
    simp only [Vol.swapaxes, Aff.apply, castPt]
    rw [← sum_swapFin a c (fun j => v.aff.A i j * ((p (swapFin a c j) : Int) : Rat))]
    simp only [swapFin_invol]
  · simp only [Vol.swapaxes, Grid.inside]
    constructor
    · intro h i
      have := h (swapFin a c i)
      rwa [swapFin_invol] at this
    · intro h i
      have := h (swapFin a c i)
      rwa [swapFin_invol] at this

/-- flip of axis `a`: voxel `p` of the flipped image holds the sample of the mirrored voxel, at
    the same world position (the origin moves by exactly `step · (shape − 1)`, no more). -/
theorem flip_world (v : Vol) (a : Fin 3) (p : Fin 3 → Int) :
    let q : Fin 3 → Int := fun i => if i = a then (v.g.shape a : Int) - 1 - p i else p i
    (v.flip a).g.val p = v.g.val q ∧
    (v.flip a).aff.apply (castPt p) = v.aff.apply (castPt q) ∧
    ((v.flip a).g.inside p ↔ v.g.inside q) := by
  intro q
  refine ⟨rfl, ?_, ?_⟩
  · funext i
    simp only [Vol.flip, Aff.apply, castPt, sumFin3, q]
    fin_cases a <;> simp <;> ring
  · simp only [Vol.flip, Grid.inside, q]
    constructor
    · intro h i
      have := h i
      by_cases hi : i = a
      · subst hi; simp only [if_true]; omega
      · simp only [if_neg hi]; exact this
    · intro h i
      have := h i
      by_cases hi : i = a
      · subst hi; simp only [if_true] at this; omega
      · simp only [if_neg hi] at this; exact this

/-- every sample of `w` is a sample of `v` at the same world position -/
def SameWorld (w v : Vol) : Prop :=
  ∃ σ : (Fin 3 → Int) → (Fin 3 → Int), ∀ p,
    (w.g.inside p ↔ v.g.inside (σ p)) ∧ w.g.val p = v.g.val (σ p) ∧
    w.aff.apply (castPt p) = v.aff.apply (castPt (σ p))

theorem SameWorld.refl (v : Vol) : SameWorld v v := ⟨id, fun _ => ⟨Iff.rfl, rfl, rfl⟩⟩

theorem SameWorld.trans {u w v : Vol} (h1 : SameWorld u w) (h2 : SameWorld w v) : SameWorld u v := by
  obtain ⟨σ, hσ⟩ := h1
  obtain ⟨τ, hτ⟩ := h2
  refine ⟨fun p => τ (σ p), fun p => ?_⟩
  obtain ⟨a1, a2, a3⟩ := hσ p
  obtain ⟨b1, b2, b3⟩ := hτ (σ p)
  exact ⟨a1.trans b1, a2.trans b2, a3.trans b3⟩

/-- the whole reordering loop of `xyz_ordered` (all axis swaps, then all flips of negative axes)
    keeps every sample at its world position, for any affine.  Partial: the final
    `from_matrix_vector(np.diag(pixdim), b)`, which discards off-diagonal entries below the 1e-3
    guard, is not covered (it is exact when those entries are zero). -/
theorem xyz_reorder_same_world_partial (v : Vol) : SameWorld (Vol.sortAxes 3 v).flipNeg v := by
  have hswap : ∀ (u : Vol) (a c : Fin 3), SameWorld (u.swapaxes a c) u := fun u a c =>
    ⟨fun p i => p (swapFin a c i), fun p =>
      ⟨(swapaxes_world u a c p).2.2, (swapaxes_world u a c p).1, (swapaxes_world u a c p).2.1⟩⟩
  have hflip : ∀ (u : Vol) (a : Fin 3), SameWorld (u.flip a) u := fun u a =>
    ⟨fun p i => if i = a then (u.g.shape a : Int) - 1 - p i else p i, fun p =>
      ⟨(flip_world u a p).2.2, (flip_world u a p).1, (flip_world u a p).2.1⟩⟩
  have hsort : ∀ (fuel : Nat) (u : Vol), SameWorld (Vol.sortAxes fuel u) u := by
    intro fuel
    induction fuel with
    | zero => intro u; exact SameWorld.refl u
    | succ k ih =>
        intro u
        simp only [Vol.sortAxes]
        split
        · exact (ih _).trans (hswap u 1 0)
        · split
          · exact (ih _).trans (hswap u 2 1)
          · exact SameWorld.refl u
  have hneg : ∀ u : Vol, SameWorld u.flipNeg u := by
    intro u
    simp only [Vol.flipNeg]
    have h0 : SameWorld (if u.aff.A 0 0 < 0 then u.flip 0 else u) u := by
      split
      · exact hflip u 0
      · exact SameWorld.refl u
    generalize (if u.aff.A 0 0 < 0 then u.flip 0 else u) = u0 at h0 ⊢
    have h1 : SameWorld (if u0.aff.A 1 1 < 0 then u0.flip 1 else u0) u0 := by
      split
      · exact hflip u0 1
      · exact SameWorld.refl u0
    generalize (if u0.aff.A 1 1 < 0 then u0.flip 1 else u0) = u1 at h1 ⊢
    split
    · exact ((hflip u1 2).trans h1).trans h0
    · exact h1.trans h0
  exact (hneg _).trans (hsort 3 v)

/-! ## Non-vacuity: concrete objects meeting the hypotheses -/

-- an inverse pair accepted by the driver's check (anisotropic, flipped, shifted)
example : (⟨fun i j => if i = j then (if i = 0 then -2 else 1 / 2) else 0, fun _ => 3⟩ : Aff 2 2).isInverse
    ⟨fun i j => if i = j then (if i = 0 then -1 / 2 else 2) else 0,
     fun i => if i = 0 then 3 / 2 else -6⟩ = true := by decide +kernel
-- a sub-sampling + shift voxel map is integral, and looks up the shifted sample
example : latticeLookup (gridOfFlat 1 [5] #[10, 11, 12, 13, 14]) (some (-1))
    (⟨fun _ _ => 2, fun _ => 1⟩ : Aff 1 1) (fun _ => 1) = some 13 := by decide +kernel
example : latticeLookup (gridOfFlat 1 [5] #[10, 11, 12, 13, 14]) (some (-1))
    (⟨fun _ _ => 2, fun _ => 1⟩ : Aff 1 1) (fun _ => 2) = some (-1) := by decide +kernel
-- the order-1 interpolator reproduces a linear ramp between samples
example : linear1Eval 0 (gridOfFlat 1 [3] #[1, 3, 5]) (fun _ => 3 / 2) = 4 := by decide +kernel
-- the pre-pad is 12 only for pre-filtered nearest / grid-constant
example : nPrepad 3 "nearest" = 12 ∧ nPrepad 1 "nearest" = 0 ∧ nPrepad 3 "constant" = 0 := by decide

end NipyVerif.C04
