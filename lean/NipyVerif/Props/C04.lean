/-
C04 — property theorems about the model in `NipyVerif.Model.C04`:
"the value a resampled image holds at a target voxel is the source interpolated at the location
obtained by mapping that voxel's world position through the supplied transform …".
Only property statements and their non-vacuity examples live here.
-/
import NipyVerif.Props.C04B

namespace NipyVerif.C04

/-! ## The voxel→voxel map each entry point hands to its interpolator -/

/-- `resample` (matrix, `(A, b)` pair or `AffineTransform` mapping): the map handed to
    `ndimage.affine_transform` is target voxel → target world → (mapping) → image world →
    image voxel, in that order. -/
theorem resample_pipeline_spec {n k : Nat} (srcInv mapping : Aff n n) (tgt : Aff n k) (v : Vec k) :
    (resampleMap srcInv mapping tgt).apply v = srcInv.apply (mapping.apply (tgt.apply v)) := by
  unfold resampleMap tv2iw
  rw [Aff.apply_comp, Aff.apply_comp]

/-- … hence the source location that is sampled lies at the world position obtained by mapping
    the target voxel's world position through the supplied transform. -/
theorem resample_samples_mapped_world {n k : Nat} (src srcInv mapping : Aff n n) (tgt : Aff n k)
    (hinv : ∀ y, src.apply (srcInv.apply y) = y) (v : Vec k) :
    src.apply ((resampleMap srcInv mapping tgt).apply v) = mapping.apply (tgt.apply v) := by
  rw [resample_pipeline_spec, hinv]

/-- `resample` with a plain callable goes through `ImageInterpolator`; the coordinates it hands
    to `map_coordinates`, less the pre-pad offset, are the same voxel map: both branches sample
    the same location. -/
theorem resample_interp_branch_spec {n k : Nat} (srcInv mapping : Aff n n) (tgt : Aff n k)
    (order : Nat) (mode : String) (v : Fin k → Int) (i : Fin n) :
    resampleInterpCoords srcInv mapping tgt order mode v i - ((nPrepad order mode : Nat) : Rat)
      = (resampleMap srcInv mapping tgt).apply (castPt v) i := by
  rw [resample_pipeline_spec]
  simp [resampleInterpCoords, evalCoords]

/-- `resample_img2img`: refuses exactly when the world dimensions differ; otherwise the map is
    target voxel → shared world → source voxel. -/
theorem img2img_spec {n k : Nat} (sop top : Nat) (srcInv : Aff n n) (tgt : Aff n k) :
    (sop ≠ top → img2imgMap sop top srcInv tgt = .error "error:valueError") ∧
    (sop = top → ∃ M, img2imgMap sop top srcInv tgt = .ok M ∧
        ∀ v, M.apply v = srcInv.apply (tgt.apply v)) := by
  constructor
  · intro h; simp [img2imgMap, h]
  · intro h
    refine ⟨resampleMap srcInv (Aff.ident n) tgt, by simp [img2imgMap, h], fun v => ?_⟩
    rw [resample_pipeline_spec, Aff.apply_ident]

/-- `registration.resample`, all four voxel/world flag combinations: `Tv` is
    `[inv(mov_aff)] ∘ T ∘ [ref_aff]`, a factor being dropped exactly when the corresponding
    `*_voxel_coords` flag says the transform already works in voxels. -/
theorem registration_spec (movInv T ref : Aff 3 3) (movVox refVox : Bool) (v : Vec 3) :
    (regMap movInv T ref movVox refVox).apply v =
      (if movVox then id else movInv.apply) (T.apply ((if refVox then id else ref.apply) v)) := by
  cases movVox <;> cases refVox <;> simp [regMap, Aff.apply_comp]

/-- the cubic-spline short cut and the `scipy.ndimage` path of `registration.resample` differ only
    in the routine: the short cut is taken exactly for `(3, 'constant', 0)`. -/
theorem registration_shortcut_iff (isAffine : Bool) (order : Nat) (mode : String) (cval : Rat) :
    (regRoutine isAffine order mode cval = "cspline_resample3d" ∨
     regRoutine isAffine order mode cval = "cspline_sample3d") ↔
      (order = 3 ∧ mode = "constant" ∧ cval = 0) := by
  unfold regRoutine useCspline
  by_cases h1 : order = 3 <;> by_cases h2 : mode = "constant" <;> by_cases h3 : cval = 0 <;>
    cases isAffine <;> simp [h1, h2, h3]

/-- 4-D realignment (`scanner_coords`): with identity transforms every grid point is sampled at
    itself, so resampling without time interpolation reproduces the input. -/
theorem realign_identity (affInv aff : Aff 3 3) (hinv : ∀ x, affInv.apply (aff.apply x) = x)
    (v : Vec 3) : (realignMap affInv (Aff.ident 3) aff).apply v = v := by
  unfold realignMap
  rw [Aff.apply_comp, Aff.apply_comp, Aff.apply_ident, hinv]

/-- `VolumeImg.as_volume_img` (4×4 target affine): the matrix and offset handed to
    `ndimage.affine_transform` realise target voxel → world → source voxel, for diagonal and
    full matrices alike (the offset is the translation of `inv(self.affine) · affine`). -/
theorem volimg_spec (selfInv self tgt : Aff 3 3) (AInv : Fin 3 → Fin 3 → Rat)
    (hself : ∀ x, selfInv.apply (self.apply x) = x)
    (hA : ∀ y : Vec 3, (⟨AInv, fun _ => 0⟩ : Aff 3 3).apply
        ((⟨(volTransform selfInv self tgt).A, fun _ => 0⟩ : Aff 3 3).apply y) = y)
    (v : Vec 3) :
    (volMap selfInv self tgt AInv).apply v = selfInv.apply (tgt.apply v) := by
  have hoff : ∀ i, (volMap selfInv self tgt AInv).b i = (volTransform selfInv self tgt).b i := by
    intro i
    have := congrFun (hA (volTransform selfInv self tgt).b) i
    simpa [volMap, Aff.apply] using this
  have h1 : (volMap selfInv self tgt AInv).apply v = (volTransform selfInv self tgt).apply v := by
    funext i
    simp only [Aff.apply, hoff]
    rfl
  rw [h1]
  unfold volTransform
  split
  · rename_i hb
    rw [Aff.eq_of_beq _ _ hb, Aff.apply_ident, hself]
  · rw [Aff.apply_comp]

/-! ## The returned image carries the target grid's coordinate map -/

/-- `Image(idata, copy.copy(target))` -/
theorem resample_carries_target_coordmap {n k : Nat} (I : Interp n) (g : Grid n)
    (srcInv mapping : Aff n n) (tgt : Aff n k) :
    (resampleImage I g srcInv mapping tgt).coordmap = tgt ∧
    ∀ v, (resampleImage I g srcInv mapping tgt).value v
      = I.eval g (srcInv.apply (mapping.apply (tgt.apply (castPt v)))) := by
  refine ⟨rfl, fun v => ?_⟩
  simp [resampleImage, resampled, resample_pipeline_spec]

/-! ## Maps that send grid points to grid points: the output is the looked-up source -/

/-- For every interpolation scheme (every order): when the voxel map sends target voxel `v` onto
    a source index, the output holds the stored source sample there, and the fill value when that
    index is outside the array (`mode='constant'`).  `latticeLookup` is what the driver prints. -/
theorem lattice_lookup {n k : Nat} (I : Interp n) (g : Grid n) (fill : Option Rat) (M : Aff n k)
    (v : Fin k → Int) (r : Rat) (hfill : ∀ c, fill = some c → I.FillsOutside c)
    (h : latticeLookup g fill M v = some r) : resampled I g M v = r := by
  unfold latticeLookup at h
  unfold resampled
  split at h
  · rename_i p hp
    rw [latticePt_some _ _ hp]
    by_cases hin : g.insideB p = true
    · rw [if_pos hin] at h
      rw [I.at_lattice g p ((insideB_iff g p).1 hin)]
      exact Option.some.inj h
    · rw [if_neg hin] at h
      exact hfill r h g p (fun hc => hin ((insideB_iff g p).2 hc))
  · cases h

/-- converse direction: an index point always gets a verdict (no silent gaps in the check) -/
theorem lattice_lookup_defined {n k : Nat} (g : Grid n) (c : Rat) (M : Aff n k) (v : Fin k → Int)
    (p : Fin n → Int) (hp : M.apply (castPt v) = castPt p) :
    latticeLookup g (some c) M v = some (if g.insideB p then g.val p else c) := by
  unfold latticeLookup
  rw [hp, latticePt_castPt]
  by_cases h : g.insideB p = true <;> simp [h]

/-- identity, axis flips and permutations, whole-voxel shifts, integer sub-sampling: a voxel map
    with integer matrix and integer offset sends *every* target voxel onto a source index, so the
    whole output is a lookup, for every interpolation order. -/
theorem integer_map_all_lookup {n k : Nat} (I : Interp n) (g : Grid n) (c : Rat) (M : Aff n k)
    (hA : ∀ i j, ∃ z : Int, M.A i j = z) (hb : ∀ i, ∃ z : Int, M.b i = z)
    (hfill : I.FillsOutside c) (v : Fin k → Int) :
    ∃ p : Fin n → Int, M.apply (castPt v) = castPt p ∧
      resampled I g M v = if g.insideB p then g.val p else c := by
  obtain ⟨p, hp⟩ := apply_int M hA hb v
  exact ⟨p, hp, lattice_lookup I g (some c) M v _ (fun c' hc => by cases hc; exact hfill)
    (lattice_lookup_defined g c M v p hp)⟩

/-- identity resampling (same grid, identity transform) returns the source array -/
theorem identity_reproduces {n : Nat} (I : Interp n) (g : Grid n) (src srcInv : Aff n n)
    (hinv : ∀ x, srcInv.apply (src.apply x) = x) (v : Fin n → Int) (hv : g.inside v) :
    resampled I g (resampleMap srcInv (Aff.ident n) src) v = g.val v := by
  unfold resampled
  rw [resample_pipeline_spec, Aff.apply_ident, hinv, I.at_lattice g v hv]

/-- points farther than the interpolator's margin outside the field of view receive the fill value -/
theorem fill_value_outside {n k : Nat} (I : Interp n) (g : Grid n) (c margin : Rat) (M : Aff n k)
    (hI : I.FillsBeyond c margin) (v : Fin k → Int)
    (hout : ∃ i, M.apply (castPt v) i < -margin ∨
      ((g.shape i : Int) : Rat) - 1 + margin < M.apply (castPt v) i) :
    resampled I g M v = c := hI g _ hout

/-! ## Linear interpolation of a linear intensity field -/

/-- If the source samples an intensity that is an affine function `c` of world position, an
    order-1-exact interpolator returns, at every target voxel mapped into the field of view,
    the field at the mapped world position `mapping (tgt v)` — for any affine maps. -/
theorem linear_field_reproduced {n k : Nat} (I : Interp n) (hI : I.LinearExact) (g : Grid n)
    (src srcInv mapping : Aff n n) (tgt : Aff n k) (c : Aff 1 n)
    (hinv : ∀ y, src.apply (srcInv.apply y) = y)
    (hdata : ∀ p, g.inside p → g.val p = c.apply (src.apply (castPt p)) 0)
    (v : Fin k → Int) (hfov : g.inFov ((resampleMap srcInv mapping tgt).apply (castPt v))) :
    resampled I g (resampleMap srcInv mapping tgt) v
      = c.apply (mapping.apply (tgt.apply (castPt v))) 0 := by
  unfold resampled
  rw [hI g (c.comp src) (fun p hp => by rw [hdata p hp, Aff.apply_comp]) _ hfov,
    Aff.apply_comp, resample_samples_mapped_world src srcInv mapping tgt hinv]

/-- what the driver prints for field cases is that value -/
theorem fieldExpected_spec {n k : Nat} (g : Grid n) (L : Aff 1 n) (cval : Rat) (cm : Bool)
    (M : Aff n k) (v : Fin k → Int) (hfov : g.inFov (M.apply (castPt v))) :
    fieldExpected g L cval cm M v = some (L.apply (M.apply (castPt v)) 0) := by
  unfold fieldExpected
  simp [(inFovB_iff g _).2 hfov]

/-! ## `ImageInterpolator`: the 12-voxel pre-pad does not move the samples -/

/-- index `p` of the image is index `p + k` of the edge-padded knot array, with the same value -/
theorem prepad_lookup {n : Nat} (g : Grid n) (k : Nat) (p : Fin n → Int) (hp : g.inside p) :
    (padEdge g k).inside (fun i => p i + (k : Int)) ∧
    (padEdge g k).val (fun i => p i + (k : Int)) = g.val p := by
  constructor
  · intro i
    have := hp i
    simp only [padEdge]
    push_cast
    omega
  · simp only [padEdge]
    congr 1
    funext i
    have := hp i
    rw [clampInt_id] <;> omega

/-- the same for the fill-value pad of `grid-constant` -/
theorem prepad_const_lookup {n : Nat} (g : Grid n) (k : Nat) (c : Rat) (p : Fin n → Int) (hp : g.inside p) :
    (padConst g k c).inside (fun i => p i + (k : Int)) ∧
    (padConst g k c).val (fun i => p i + (k : Int)) = g.val p := by
  constructor
  · intro i
    have := hp i
    simp only [padConst]
    push_cast
    omega
  · simp only [padConst]
    have e : (fun i => p i + (k : Int) - (k : Int)) = p := by funext i; omega
    rw [e, if_pos ((insideB_iff g p).2 hp)]

/-- `evaluate` at the world position of voxel `p` returns the sample at `p`, whatever the
    order/mode/fill value (i.e. with or without pre-padding, of either kind). -/
theorem interpolator_lattice {n : Nat} (I : Interp n) (g : Grid n) (src srcInv : Aff n n)
    (hinv : ∀ x, srcInv.apply (src.apply x) = x) (order : Nat) (mode : String) (cval : Rat)
    (p : Fin n → Int) (hp : g.inside p) :
    I.eval (knots g order mode cval) (evalCoords srcInv order mode (src.apply (castPt p)))
      = g.val p := by
  have hc : evalCoords srcInv order mode (src.apply (castPt p))
      = castPt (fun i => p i + ((nPrepad order mode : Nat) : Int)) := by
    funext i
    simp [evalCoords, hinv, castPt]
  unfold knots
  split
  · obtain ⟨h1, h2⟩ := prepad_const_lookup g (nPrepad order mode) cval p hp
    rw [hc, I.at_lattice _ _ h1, h2]
  · obtain ⟨h1, h2⟩ := prepad_lookup g (nPrepad order mode) p hp
    rw [hc, I.at_lattice _ _ h1, h2]

/-- the pre-pad *is* the boundary mode it stands for: every knot of the padded array holds what
    the mode's own index extension reads there — the border samples for `nearest` … -/
theorem prepad_edge_is_nearest {n : Nat} (g : Grid n) (hpos : ∀ i, 0 < g.shape i) (k : Nat) (c : Rat)
    (q : Fin n → Int) :
    (padEdge g k).val q = extValue .nearest c g (fun i => q i - (k : Int)) := by
  have hall : (List.finRange n).all (fun i => (extIndex .nearest (g.shape i) (q i - (k : Int))).isSome) = true := by
    rw [List.all_eq_true]
    intro i _
    rw [boundary_nearest_clamps _ (hpos i)]
    rfl
  simp only [extValue, extPoint]
  rw [if_pos hall]
  simp only [padEdge]
  congr 1
  funext i
  rw [boundary_nearest_clamps _ (hpos i)]
  have := clampInt_mem 0 ((g.shape i : Int) - 1) (q i - (k : Int)) (by have := hpos i; omega)
  simp only [Option.getD_some]
  omega

/-- … and the fill value for `grid-constant` (the statement the edge-replicating pre-pad of
    `ImageInterpolator` violated) -/
theorem prepad_const_is_grid_constant {n : Nat} (g : Grid n) (k : Nat) (c : Rat) (q : Fin n → Int) :
    (padConst g k c).val q = extValue .gridConstant c g (fun i => q i - (k : Int)) := by
  simp only [padConst]
  by_cases hin : g.insideB (fun i => q i - (k : Int)) = true
  · rw [if_pos hin]
    have hi := (insideB_iff g _).1 hin
    have hall : (List.finRange n).all (fun i => (extIndex .gridConstant (g.shape i) (q i - (k : Int))).isSome) = true := by
      rw [List.all_eq_true]
      intro i _
      rw [extIndex_inside _ _ _ (hi i).1 (hi i).2]
      rfl
    simp only [extValue, extPoint]
    rw [if_pos hall]
    congr 1
    funext i
    rw [extIndex_inside _ _ _ (hi i).1 (hi i).2]
    simp only [Option.getD_some]
    have h0 : 0 ≤ q i - (k : Int) := (hi i).1
    omega
  · rw [if_neg hin]
    have hall : ¬ (List.finRange n).all (fun i => (extIndex .gridConstant (g.shape i) (q i - (k : Int))).isSome) = true := by
      intro hc
      apply hin
      rw [insideB_iff]
      intro i
      have hs := (List.all_eq_true.1 hc) i (List.mem_finRange i)
      by_contra hout
      have : extIndex .gridConstant (g.shape i) (q i - (k : Int)) = none :=
        (extIndex_none_iff _ _ _).2 ⟨rfl, hout⟩
      rw [this] at hs
      cases hs
    simp only [extValue, extPoint]
    rw [if_neg hall]

/-! ## Concrete interpolators satisfying the hypotheses -/

/-- order 0 (nearest sample), any dimension, `mode='constant'` -/
def nearestInterp (n : Nat) (cval : Rat) : Interp n where
  eval := nearestEval cval
  at_lattice := by
    intro g p hp
    have : (fun i => roundHalfUp (castPt p i)) = p := by
      funext i; simp [castPt, roundHalfUp_int]
    simp only [nearestEval, this]
    rw [if_pos ((insideB_iff g p).2 hp)]

theorem nearest_fills_outside (n : Nat) (cval : Rat) : (nearestInterp n cval).FillsOutside cval := by
  intro g p hp
  have : (fun i => roundHalfUp (castPt p i)) = p := by
    funext i; simp [castPt, roundHalfUp_int]
  simp only [nearestInterp, nearestEval, this]
  rw [if_neg (fun h => hp ((insideB_iff g p).1 h))]

/-- order 1 in one dimension, `mode='constant'` -/
def linear1Interp (cval : Rat) : Interp 1 where
  eval := linear1Eval cval
  at_lattice := by
    intro g p hp
    have h0 := hp 0
    have hx : castPt p 0 = ((p 0 : Int) : Rat) := rfl
    have hlo : ¬ ((p 0 : Rat) < 0) := by
      have : (0 : Rat) ≤ (p 0 : Rat) := by exact_mod_cast h0.1
      linarith
    have hhi : ¬ (((g.shape 0 : Int) : Rat) - 1 < (p 0 : Rat)) := by
      have : (p 0 : Rat) ≤ ((g.shape 0 : Int) : Rat) - 1 := by
        have h : p 0 ≤ (g.shape 0 : Int) - 1 := by omega
        exact_mod_cast h
      linarith
    have hp' : (fun _ : Fin 1 => p 0) = p := by
      funext i; rw [Subsingleton.elim i 0]
    simp only [linear1Eval, hx, hlo, hhi, or_self, if_false, floor_int, sub_self, sub_zero,
      one_mul, zero_mul, add_zero, hp']

theorem linear1_fills_beyond (cval : Rat) : (linear1Interp cval).FillsBeyond cval 0 := by
  intro g x hx
  obtain ⟨i, hi⟩ := hx
  have hi0 : i = 0 := Subsingleton.elim i 0
  subst hi0
  simp only [neg_zero, add_zero] at hi
  simp only [linear1Interp, linear1Eval]
  rw [if_pos hi]

theorem linear1_exact (cval : Rat) : (linear1Interp cval).LinearExact := by
  intro g L hL x hx
  have h0 := hx 0
  have hval : ∀ z : Int, 0 ≤ z → z < (g.shape 0 : Int) →
      g.val (fun _ => z) = L.A 0 0 * (z : Rat) + L.b 0 := by
    intro z hz1 hz2
    rw [hL (fun _ => z) (fun i => ⟨hz1, by rw [Subsingleton.elim i 0]; exact hz2⟩)]
    simp [Aff.apply, sumFin_eq, castPt]
  have hLx : L.apply x 0 = L.A 0 0 * x 0 + L.b 0 := by
    simp [Aff.apply, sumFin_eq]
  simp only [linear1Interp, linear1Eval]
  rw [if_neg (by intro h; rcases h with h | h <;> linarith [h0.1, h0.2]), hLx, floor_eq]
  have hfl : ((⌊x 0⌋ : Int) : Rat) ≤ x 0 := Int.floor_le (x 0)
  have hfl2 : x 0 < ((⌊x 0⌋ : Int) : Rat) + 1 := Int.lt_floor_add_one (x 0)
  have hz0 : 0 ≤ ⌊x 0⌋ := Int.floor_nonneg.2 h0.1
  have hzlt : ⌊x 0⌋ < (g.shape 0 : Int) := by
    have : ((⌊x 0⌋ : Int) : Rat) < ((g.shape 0 : Int) : Rat) := by linarith [h0.2]
    exact_mod_cast this
  rw [hval ⌊x 0⌋ hz0 hzlt]
  by_cases hnext : ⌊x 0⌋ + 1 < (g.shape 0 : Int)
  · rw [hval (⌊x 0⌋ + 1) (by omega) hnext]
    push_cast
    ring
  · -- `x` is the last sample: the weight of the (absent) right neighbour is zero
    have heq : ((⌊x 0⌋ : Int) : Rat) = ((g.shape 0 : Int) : Rat) - 1 := by
      have h : ⌊x 0⌋ = (g.shape 0 : Int) - 1 := by omega
      rw [h]; push_cast; ring
    have hx0 : x 0 = ((⌊x 0⌋ : Int) : Rat) := by linarith [h0.2]
    rw [← hx0]
    ring

/-! ## `xyz_ordered`: axis swaps and flips keep every sample at its world position -/

/-- `_swapaxes`: voxel `p` of the swapped image holds the sample of voxel `p ∘ swap` of the
    original, at the same world position. -/
theorem swapaxes_world (v : Vol) (a c : Fin 3) (p : Fin 3 → Int) :
    (v.swapaxes a c).g.val p = v.g.val (fun i => p (swapFin a c i)) ∧
    (v.swapaxes a c).aff.apply (castPt p) = v.aff.apply (castPt (fun i => p (swapFin a c i))) ∧
    ((v.swapaxes a c).g.inside p ↔ v.g.inside (fun i => p (swapFin a c i))) := by
  refine ⟨rfl, ?_, ?_⟩
  · funext i
    simp only [Vol.swapaxes, Aff.apply, castPt]
    rw [← sum_swapFin a c (fun j => v.aff.A i j * ((p (swapFin a c j) : Int) : Rat))]
    simp only [swapFin_invol]
  · simp only [Vol.swapaxes, Grid.inside]
    constructor
    · intro h i
      have := h (swapFin a c i)
      rwa [swapFin_invol] at this
    · intro h i
      have := h (swapFin a c i)
      rwa [swapFin_invol] at this

/-- flip of axis `a`: voxel `p` of the flipped image holds the sample of the mirrored voxel, at
    the same world position (the origin moves by exactly `step · (shape − 1)`, no more). -/
theorem flip_world (v : Vol) (a : Fin 3) (p : Fin 3 → Int) :
    let q : Fin 3 → Int := fun i => if i = a then (v.g.shape a : Int) - 1 - p i else p i
    (v.flip a).g.val p = v.g.val q ∧
    (v.flip a).aff.apply (castPt p) = v.aff.apply (castPt q) ∧
    ((v.flip a).g.inside p ↔ v.g.inside q) := by
  intro q
  refine ⟨rfl, ?_, ?_⟩
  · funext i
    simp only [Vol.flip, Aff.apply, castPt, sumFin3, q]
    fin_cases a <;> simp <;> ring
  · simp only [Vol.flip, Grid.inside, q]
    constructor
    · intro h i
      have := h i
      by_cases hi : i = a
      · subst hi; simp only [if_true]; omega
      · simp only [if_neg hi]; exact this
    · intro h i
      have := h i
      by_cases hi : i = a
      · subst hi; simp only [if_true] at this; omega
      · simp only [if_neg hi] at this; exact this

/-- every sample of `w` is a sample of `v` at the same world position -/
def SameWorld (w v : Vol) : Prop :=
  ∃ σ : (Fin 3 → Int) → (Fin 3 → Int), ∀ p,
    (w.g.inside p ↔ v.g.inside (σ p)) ∧ w.g.val p = v.g.val (σ p) ∧
    w.aff.apply (castPt p) = v.aff.apply (castPt (σ p))

theorem SameWorld.refl (v : Vol) : SameWorld v v := ⟨id, fun _ => ⟨Iff.rfl, rfl, rfl⟩⟩

theorem SameWorld.trans {u w v : Vol} (h1 : SameWorld u w) (h2 : SameWorld w v) : SameWorld u v := by
  obtain ⟨σ, hσ⟩ := h1
  obtain ⟨τ, hτ⟩ := h2
  refine ⟨fun p => τ (σ p), fun p => ?_⟩
  obtain ⟨a1, a2, a3⟩ := hσ p
  obtain ⟨b1, b2, b3⟩ := hτ (σ p)
  exact ⟨a1.trans b1, a2.trans b2, a3.trans b3⟩

/-- the whole reordering loop of `xyz_ordered` (all axis swaps, then all flips of negative axes)
    keeps every sample at its world position, for any affine.  Partial: the final
    `from_matrix_vector(np.diag(pixdim), b)`, which discards off-diagonal entries below the 1e-3
    guard, is not covered (it is exact when those entries are zero). -/
theorem xyz_reorder_same_world_partial (v : Vol) : SameWorld (Vol.sortAxes 3 v).flipNeg v := by
  have hswap : ∀ (u : Vol) (a c : Fin 3), SameWorld (u.swapaxes a c) u := fun u a c =>
    ⟨fun p i => p (swapFin a c i), fun p =>
      ⟨(swapaxes_world u a c p).2.2, (swapaxes_world u a c p).1, (swapaxes_world u a c p).2.1⟩⟩
  have hflip : ∀ (u : Vol) (a : Fin 3), SameWorld (u.flip a) u := fun u a =>
    ⟨fun p i => if i = a then (u.g.shape a : Int) - 1 - p i else p i, fun p =>
      ⟨(flip_world u a p).2.2, (flip_world u a p).1, (flip_world u a p).2.1⟩⟩
  have hsort : ∀ (fuel : Nat) (u : Vol), SameWorld (Vol.sortAxes fuel u) u := by
    intro fuel
    induction fuel with
    | zero => intro u; exact SameWorld.refl u
    | succ k ih =>
        intro u
        simp only [Vol.sortAxes]
        split
        · exact (ih _).trans (hswap u 1 0)
        · split
          · exact (ih _).trans (hswap u 2 1)
          · exact SameWorld.refl u
  have hneg : ∀ u : Vol, SameWorld u.flipNeg u := by
    intro u
    simp only [Vol.flipNeg]
    have h0 : SameWorld (if u.aff.A 0 0 < 0 then u.flip 0 else u) u := by
      split
      · exact hflip u 0
      · exact SameWorld.refl u
    generalize (if u.aff.A 0 0 < 0 then u.flip 0 else u) = u0 at h0 ⊢
    have h1 : SameWorld (if u0.aff.A 1 1 < 0 then u0.flip 1 else u0) u0 := by
      split
      · exact hflip u0 1
      · exact SameWorld.refl u0
    generalize (if u0.aff.A 1 1 < 0 then u0.flip 1 else u0) = u1 at h1 ⊢
    split
    · exact ((hflip u1 2).trans h1).trans h0
    · exact h1.trans h0
  exact (hneg _).trans (hsort 3 v)

/-- `composed_with_transform` (a world-to-world affine applied to an image of the datasets
    package, no resampling): every sample moves to the image of its world position -/
theorem vol_compose_world (W A : Aff 3 3) (x : Vec 3) :
    (volCompose W A).apply x = W.apply (A.apply x) := by
  unfold volCompose
  rw [Aff.apply_comp]

/-! ## The dtype pipeline: what is stored for every source and output dtype -/

/-- Linear field, every entry point, every source dtype: when the entry point's output dtype is a
    floating one, the stored value *is* the field at the mapped world position (interpolation is
    done in floating point and nothing is cast). -/
theorem linear_field_reproduced_typed {n k : Nat} (e : Entry) (sdt : DType) (asked : Option DType)
    (order : Nat) (hf : (outDType e sdt asked order).intRange = none)
    (I : Interp n) (hI : I.LinearExact) (g : Grid n)
    (src srcInv mapping : Aff n n) (tgt : Aff n k) (c : Aff 1 n)
    (hinv : ∀ y, src.apply (srcInv.apply y) = y)
    (hdata : ∀ p, g.inside p → g.val p = c.apply (src.apply (castPt p)) 0)
    (v : Fin k → Int) (hfov : g.inFov ((resampleMap srcInv mapping tgt).apply (castPt v))) :
    entryValue e sdt asked order I g (resampleMap srcInv mapping tgt) v
      = c.apply (mapping.apply (tgt.apply (castPt v))) 0 := by
  unfold entryValue storeValue
  rw [cast_float_exact _ _ hf, linear_field_reproduced I hI g src srcInv mapping tgt c hinv hdata v hfov]

/-- … in particular for the general resampler (both branches), for *every* source dtype and
    without any condition: an int16, uint8 or boolean image is resampled as exactly as a float64
    one. -/
theorem linear_field_reproduced_every_dtype {n k : Nat} (sdt : DType) (asked : Option DType) (order : Nat)
    (I : Interp n) (hI : I.LinearExact) (g : Grid n)
    (src srcInv mapping : Aff n n) (tgt : Aff n k) (c : Aff 1 n)
    (hinv : ∀ y, src.apply (srcInv.apply y) = y)
    (hdata : ∀ p, g.inside p → g.val p = c.apply (src.apply (castPt p)) 0)
    (v : Fin k → Int) (hfov : g.inFov ((resampleMap srcInv mapping tgt).apply (castPt v))) :
    entryValue .resampleAffine sdt asked order I g (resampleMap srcInv mapping tgt) v
      = c.apply (mapping.apply (tgt.apply (castPt v))) 0 ∧
    entryValue .resampleInterp sdt asked order I g (resampleMap srcInv mapping tgt) v
      = c.apply (mapping.apply (tgt.apply (castPt v))) 0 :=
  ⟨linear_field_reproduced_typed _ sdt asked order rfl I hI g src srcInv mapping tgt c hinv hdata v hfov,
   linear_field_reproduced_typed _ sdt asked order rfl I hI g src srcInv mapping tgt c hinv hdata v hfov⟩

/-- Integer output dtypes (only the registration resampler, when asked or by its documented
    default): the stored value is the field rounded to the nearest integer — within one half of
    it whenever the field lies in the dtype's range. -/
theorem linear_field_rounded_typed {n k : Nat} (e : Entry) (sdt : DType) (asked : Option DType)
    (order : Nat) (lo hi : Int) (hr : (outDType e sdt asked order).intRange = some (lo, hi))
    (I : Interp n) (hI : I.LinearExact) (g : Grid n)
    (src srcInv mapping : Aff n n) (tgt : Aff n k) (c : Aff 1 n)
    (hinv : ∀ y, src.apply (srcInv.apply y) = y)
    (hdata : ∀ p, g.inside p → g.val p = c.apply (src.apply (castPt p)) 0)
    (v : Fin k → Int) (hfov : g.inFov ((resampleMap srcInv mapping tgt).apply (castPt v)))
    (hlo : (lo : Rat) ≤ c.apply (mapping.apply (tgt.apply (castPt v))) 0)
    (hhi : c.apply (mapping.apply (tgt.apply (castPt v))) 0 ≤ (hi : Rat)) :
    |entryValue e sdt asked order I g (resampleMap srcInv mapping tgt) v
      - c.apply (mapping.apply (tgt.apply (castPt v))) 0| ≤ 1 / 2 := by
  unfold entryValue storeValue
  rw [linear_field_reproduced I hI g src srcInv mapping tgt c hinv hdata v hfov]
  exact cast_within_half _ _ lo hi hr _ hlo hhi

/-- Fill value, every entry point and source dtype: a target voxel mapped beyond the
    interpolator's margin holds the fill value stored in the output dtype … -/
theorem fill_value_outside_typed {n k : Nat} (e : Entry) (sdt : DType) (asked : Option DType)
    (order : Nat) (I : Interp n) (g : Grid n) (c margin : Rat) (M : Aff n k)
    (hI : I.FillsBeyond c margin) (v : Fin k → Int)
    (hout : ∃ i, M.apply (castPt v) i < -margin ∨
      ((g.shape i : Int) : Rat) - 1 + margin < M.apply (castPt v) i) :
    entryValue e sdt asked order I g M v = storeValue e sdt asked order c := by
  unfold entryValue
  rw [fill_value_outside I g c margin M hI v hout]

/-- … which for the general resampler is the fill value itself, for every source dtype
    (`cval = -7.5` stays `-7.5` on an int16 or uint8 image). -/
theorem fill_value_outside_every_dtype {n k : Nat} (sdt : DType) (asked : Option DType)
    (order : Nat) (I : Interp n) (g : Grid n) (c margin : Rat) (M : Aff n k)
    (hI : I.FillsBeyond c margin) (v : Fin k → Int)
    (hout : ∃ i, M.apply (castPt v) i < -margin ∨
      ((g.shape i : Int) : Rat) - 1 + margin < M.apply (castPt v) i) :
    entryValue .resampleAffine sdt asked order I g M v = c ∧
    entryValue .resampleInterp sdt asked order I g M v = c := by
  constructor <;>
  · rw [fill_value_outside_typed _ sdt asked order I g c margin M hI v hout]
    exact cast_float_exact _ _ rfl c

/-- Lattice look-up through the dtype pipeline: a looked-up sample that the output dtype can hold
    is stored unchanged. -/
theorem lattice_lookup_typed {n k : Nat} (e : Entry) (sdt : DType) (asked : Option DType) (order : Nat)
    (I : Interp n) (g : Grid n) (fill : Option Rat) (M : Aff n k) (v : Fin k → Int) (r : Rat)
    (hfill : ∀ c, fill = some c → I.FillsOutside c)
    (h : latticeLookup g fill M v = some r)
    (hrep : (outDType e sdt asked order).representable r = true) :
    entryValue e sdt asked order I g M v = r := by
  unfold entryValue storeValue
  rw [lattice_lookup I g fill M v r hfill h]
  cases hr : (outDType e sdt asked order).intRange with
  | none => exact cast_float_exact _ _ hr r
  | some lh =>
    exact cast_representable_exact _ _ r (by unfold DType.isIntegral; rw [hr]; rfl) hrep

/-- … in particular when the output dtype is the image's own (the registration resampler's
    default, nearest-neighbour look-ups of the datasets package): every looked-up sample of an
    array of that dtype comes back exactly, whatever the dtype. -/
theorem lattice_lookup_same_dtype {n k : Nat} (e : Entry) (sdt : DType) (asked : Option DType) (order : Nat)
    (hsame : outDType e sdt asked order = sdt)
    (I : Interp n) (g : Grid n) (hg : g.Typed sdt) (M : Aff n k) (v : Fin k → Int) (p : Fin n → Int)
    (hp : M.apply (castPt v) = castPt p) (hin : g.inside p) :
    entryValue e sdt asked order I g M v = g.val p := by
  have hl : latticeLookup g none M v = some (g.val p) := by
    unfold latticeLookup
    rw [hp, latticePt_castPt]
    simp [(insideB_iff g p).2 hin]
  exact lattice_lookup_typed e sdt asked order I g none M v _ (fun c hc => by cases hc) hl
    (by rw [hsame]; exact hg p hin)

/-! ## Boundary modes on `n`-dimensional indices -/

/-- `boundary_index_in_range`, n-D: the point a boundary mode reads lies in the array -/
theorem boundary_point_in_range {n : Nat} (m : Mode) (g : Grid n) (hpos : ∀ i, 0 < g.shape i)
    (p q : Fin n → Int) (h : extPoint m g p = some q) : g.inside q := by
  unfold extPoint at h
  split at h
  · rename_i hall
    have hq := Option.some.inj h
    intro i
    have hs := (List.all_eq_true.1 hall) i (List.mem_finRange i)
    obtain ⟨j, hj⟩ := Option.isSome_iff_exists.1 hs
    have hlt := boundary_index_in_range m (g.shape i) (hpos i) (p i) j hj
    rw [← hq]
    simp only [hj, Option.getD_some]
    omega
  · cases h

/-- a point of the array is read as itself under every mode -/
theorem boundary_point_inside {n : Nat} (m : Mode) (g : Grid n) (p : Fin n → Int) (hp : g.inside p) :
    extPoint m g p = some p := by
  have hall : (List.finRange n).all (fun i => (extIndex m (g.shape i) (p i)).isSome) = true := by
    rw [List.all_eq_true]
    intro i _
    rw [extIndex_inside _ _ _ (hp i).1 (hp i).2]
    rfl
  unfold extPoint
  rw [if_pos hall]
  congr 1
  funext i
  rw [extIndex_inside _ _ _ (hp i).1 (hp i).2]
  simp only [Option.getD_some]
  have := (hp i).1
  omega

/-- `lattice_lookup` under every boundary mode: when the voxel map sends target voxel `v` onto an
    integer point — inside *or outside* the array — an interpolator that realises the mode returns
    the sample the mode's index extension designates (the fill value for the constant modes).
    `latticeLookupMode` is what the driver prints. -/
theorem lattice_lookup_mode {n k : Nat} (I : Interp n) (g : Grid n) (m : Mode) (order : Nat)
    (cval : Rat) (M : Aff n k) (v : Fin k → Int) (r : Rat) (hI : I.Extends m cval)
    (h : latticeLookupMode g m order cval M v = some r) : resampled I g M v = r := by
  unfold latticeLookupMode at h
  unfold resampled
  split at h
  · rename_i p hp
    rw [latticePt_some _ _ hp, hI g p]
    by_cases hin : g.insideB p = true
    · rw [if_pos hin] at h
      have := boundary_point_inside m g p ((insideB_iff g p).1 hin)
      simp only [extValue, this]
      exact Option.some.inj h
    · rw [if_neg hin] at h
      split at h
      · exact Option.some.inj h
      · cases h
  · cases h

/-- an interpolator realising a mode reproduces the samples, and one realising `constant` fills
    outside: `Extends` subsumes the two lattice laws used above -/
theorem extends_constant_fills {n : Nat} (I : Interp n) (c : Rat) (h : I.Extends .constant c) :
    I.FillsOutside c := by
  intro g p hp
  rw [h g p]
  have hall : ¬ (List.finRange n).all (fun i => (extIndex .constant (g.shape i) (p i)).isSome) = true := by
    intro hc
    apply hp
    intro i
    have hs := (List.all_eq_true.1 hc) i (List.mem_finRange i)
    by_contra hout
    have : extIndex .constant (g.shape i) (p i) = none := (extIndex_none_iff _ _ _).2 ⟨rfl, hout⟩
    rw [this] at hs
    cases hs
  simp only [extValue, extPoint]
  rw [if_neg hall]

/-- order 0 under any boundary mode, any dimension: a concrete interpolator realising the mode -/
def nearestInterpMode (n : Nat) (m : Mode) (cval : Rat) : Interp n where
  eval := nearestEvalMode m cval
  at_lattice := by
    intro g p hp
    have : (fun i => roundHalfUp (castPt p i)) = p := by
      funext i; simp [castPt, roundHalfUp_int]
    simp only [nearestEvalMode, this, extValue, boundary_point_inside m g p hp]

theorem nearestMode_extends (n : Nat) (m : Mode) (cval : Rat) : (nearestInterpMode n m cval).Extends m cval := by
  intro g p
  have : (fun i => roundHalfUp (castPt p i)) = p := by
    funext i; simp [castPt, roundHalfUp_int]
  simp only [nearestInterpMode, nearestEvalMode, this]

/-- linear field under `mode='nearest'` (orders 0 and 1 clamp the coordinate): outside the field
    of view the output is the field at the clamped location -/
theorem linear_field_nearest_mode {n k : Nat} (I : Interp n) (hI : I.LinearExact) (hC : I.ClampsCoordinate)
    (g : Grid n) (hpos : ∀ i, 0 < g.shape i) (L : Aff 1 n)
    (hdata : ∀ p, g.inside p → g.val p = L.apply (castPt p) 0) (M : Aff n k) (v : Fin k → Int) :
    resampled I g M v = L.apply (clampVec g (M.apply (castPt v))) 0 := by
  unfold resampled
  rw [hC g]
  apply hI g L hdata
  intro i
  have hs : (1 : Rat) ≤ ((g.shape i : Int) : Rat) := by
    have := hpos i
    have h1 : (1 : Int) ≤ (g.shape i : Int) := by omega
    exact_mod_cast h1
  constructor
  · beta_reduce
    split_ifs with h1 h2
    · exact le_refl _
    · linarith
    · exact not_lt.1 h1
  · beta_reduce
    split_ifs with h1 h2
    · linarith
    · exact le_refl _
    · exact not_lt.1 h2

/-- what the driver prints for field cases under a mode is that value -/
theorem fieldExpectedMode_nearest {n k : Nat} (g : Grid n) (L : Aff 1 n) (cval : Rat) (M : Aff n k)
    (v : Fin k → Int) :
    fieldExpectedMode g L cval .nearest M v = some (L.apply (clampVec g (M.apply (castPt v))) 0) := by
  unfold fieldExpectedMode
  simp only []
  by_cases h : g.inFovB (M.apply (castPt v)) = true
  · rw [if_pos h]
    have hf := (inFovB_iff g _).1 h
    have : clampVec g (M.apply (castPt v)) = M.apply (castPt v) := by
      funext i
      unfold clampVec
      rw [if_neg (not_lt.2 (hf i).1), if_neg (not_lt.2 (hf i).2)]
    rw [this]
  · rw [if_neg h]

/-! ## Order 1 in any dimension, under every boundary mode: a concrete interpolator -/

/-- `scipy.ndimage`'s `order=1` as modelled by `mlinMode` is an interpolation scheme: at array
    indices it returns the stored sample -/
def mlinInterp (n : Nat) (m : Mode) (cval : Rat) : Interp n where
  eval := mlinMode m cval
  at_lattice := by
    intro g p hp
    have hin : g.inFovB (castPt p) = true := by
      rw [inFovB_iff]
      intro i
      have := hp i
      constructor
      · have h0 : (0 : Int) ≤ p i := this.1
        simp only [castPt]; exact_mod_cast h0
      · have h1 : p i ≤ (g.shape i : Int) - 1 := by omega
        simp only [castPt]; exact_mod_cast h1
    unfold mlinMode
    by_cases hm : m = .constant
    · rw [if_pos hm, if_pos hin, mlin_at_lattice]
      simp only [extValue, boundary_point_inside .constant g p hp]
    · rw [if_neg hm, mlin_at_lattice]
      simp only [extValue, boundary_point_inside m g p hp]

/-- it realises the boundary mode at every integer point, inside or outside the array -/
theorem mlinInterp_extends (n : Nat) (m : Mode) (cval : Rat) : (mlinInterp n m cval).Extends m cval := by
  intro g p
  simp only [mlinInterp, mlinMode]
  by_cases hm : m = .constant
  · subst hm
    rw [if_pos rfl]
    by_cases hin : g.inFovB (castPt p) = true
    · rw [if_pos hin, mlin_at_lattice]
    · rw [if_neg hin]
      have hout : ¬ g.inside p := by
        intro hp
        apply hin
        rw [inFovB_iff]
        intro i
        have := hp i
        constructor
        · have h0 : (0 : Int) ≤ p i := this.1
          simp only [castPt]; exact_mod_cast h0
        · have h1 : p i ≤ (g.shape i : Int) - 1 := by omega
          simp only [castPt]; exact_mod_cast h1
      have hall : ¬ (List.finRange n).all (fun i => (extIndex .constant (g.shape i) (p i)).isSome) = true := by
        intro hc
        apply hout
        intro i
        have hs := (List.all_eq_true.1 hc) i (List.mem_finRange i)
        by_contra hcon
        have : extIndex .constant (g.shape i) (p i) = none := (extIndex_none_iff _ _ _).2 ⟨rfl, hcon⟩
        rw [this] at hs
        cases hs
      simp only [extValue, extPoint]
      rw [if_neg hall]
  · rw [if_neg hm, mlin_at_lattice]

/-- `mode='constant'`: the fill value as soon as the coordinate leaves the field of view -/
theorem mlinInterp_fills_beyond (n : Nat) (cval : Rat) : (mlinInterp n .constant cval).FillsBeyond cval 0 := by
  intro g x hx
  obtain ⟨i, hi⟩ := hx
  simp only [neg_zero, add_zero] at hi
  have hin : ¬ g.inFovB x = true := by
    rw [inFovB_iff]
    intro h
    have := h i
    rcases hi with hi | hi <;> linarith [this.1, this.2]
  simp only [mlinInterp, mlinMode, if_true]
  rw [if_neg hin]

/-- order-1 exactness in any dimension and under every mode: an array that samples an affine
    function is interpolated to that function everywhere in the field of view — the hypotheses of
    `linear_field_reproduced`, `fill_value_outside` and `lattice_lookup_mode` are met together by
    this interpolator -/
theorem mlinInterp_linear_exact (n : Nat) (m : Mode) (cval : Rat) : (mlinInterp n m cval).LinearExact := by
  intro g L hL x hx
  have key : ∀ m' : Mode, mlin n (extValue m' cval g) x = L.apply x 0 := by
    intro m'
    have hc : mlin n (extValue m' cval g) x
        = mlin n (fun p => (∑ j, L.A 0 j * ((p j : Int) : Rat)) + L.b 0) x := by
      apply mlin_congr
      intro p hp
      have hin : g.inside p := by
        intro i
        have hxi := hx i
        have hfl1 : (((x i).floor : Int) : Rat) ≤ x i := by rw [floor_eq]; exact Int.floor_le _
        have hfl0 : (0 : Int) ≤ (x i).floor := by rw [floor_eq]; exact Int.floor_nonneg.2 hxi.1
        have hlt : (x i).floor ≤ (g.shape i : Int) - 1 := by
          have : (((x i).floor : Int) : Rat) ≤ (((g.shape i : Int) - 1 : Int) : Rat) := by
            rw [Int.cast_sub, Int.cast_one]; linarith [hxi.2]
          exact_mod_cast this
        rcases hp i with h | ⟨h, hne⟩
        · rw [h]; omega
        · rw [h]
          have hlt' : (((x i).floor : Int) : Rat) < (((g.shape i : Int) - 1 : Int) : Rat) := by
            rw [Int.cast_sub, Int.cast_one]
            have : (((x i).floor : Int) : Rat) < x i := lt_of_le_of_ne hfl1 (Ne.symm hne)
            linarith [hxi.2]
          have : (x i).floor < (g.shape i : Int) - 1 := by exact_mod_cast hlt'
          omega
      simp only [extValue, boundary_point_inside m' g p hin]
      rw [hL p hin]
      simp [Aff.apply, sumFin_eq, castPt]
    rw [hc, mlin_affine]
    simp [Aff.apply, sumFin_eq]
  simp only [mlinInterp, mlinMode]
  by_cases hm : m = .constant
  · rw [if_pos hm, if_pos ((inFovB_iff g x).2 hx)]
    exact key .constant
  · rw [if_neg hm]
    exact key m

/-- what the driver prints for `lin1` is the value of that interpolator -/
theorem lin1Expected_spec {n k : Nat} (g : Grid n) (m : Mode) (cval : Rat) (M : Aff n k) (v : Fin k → Int)
    (r : Rat) (h : lin1Expected g m cval M v = some r) : resampled (mlinInterp n m cval) g M v = r := by
  unfold lin1Expected at h
  simp only [] at h
  split at h
  · cases h
  · exact Option.some.inj h

/-! ## Non-vacuity: concrete objects meeting the hypotheses -/

-- an inverse pair accepted by the driver's check (anisotropic, flipped, shifted)
example : (⟨fun i j => if i = j then (if i = 0 then -2 else 1 / 2) else 0, fun _ => 3⟩ : Aff 2 2).isInverse
    ⟨fun i j => if i = j then (if i = 0 then -1 / 2 else 2) else 0,
     fun i => if i = 0 then 3 / 2 else -6⟩ = true := by decide +kernel
-- a sub-sampling + shift voxel map is integral, and looks up the shifted sample
example : latticeLookup (gridOfFlat 1 [5] #[10, 11, 12, 13, 14]) (some (-1))
    (⟨fun _ _ => 2, fun _ => 1⟩ : Aff 1 1) (fun _ => 1) = some 13 := by decide +kernel
example : latticeLookup (gridOfFlat 1 [5] #[10, 11, 12, 13, 14]) (some (-1))
    (⟨fun _ _ => 2, fun _ => 1⟩ : Aff 1 1) (fun _ => 2) = some (-1) := by decide +kernel
-- the order-1 interpolator reproduces a linear ramp between samples
example : linear1Eval 0 (gridOfFlat 1 [3] #[1, 3, 5]) (fun _ => 3 / 2) = 4 := by decide +kernel
-- bilinear interpolation of a 2x2 array at its centre, and one voxel outside under `reflect`
example : mlinMode .reflect 0 (gridOfFlat 2 [2, 2] #[0, 2, 4, 10]) (fun _ => 1 / 2) = 4 := by decide +kernel
example : mlinMode .reflect 0 (gridOfFlat 2 [2, 2] #[0, 2, 4, 10]) (fun i => if i = 0 then -1 else 1 / 2) = 1 := by
  decide +kernel
-- the pre-pad is 12 only for pre-filtered nearest / grid-constant
example : nPrepad 3 "nearest" = 12 ∧ nPrepad 1 "nearest" = 0 ∧ nPrepad 3 "constant" = 0 := by decide
-- an int16 image read under `reflect` one voxel before its first sample, stored as uint8
example : fmtStored .regNdimage .int16 (some .uint8) 1
    (latticeLookupMode (gridOfFlat 1 [3] #[-5, 11, 300]) .reflect 1 0 (⟨fun _ _ => 1, fun _ => -1⟩ : Aff 1 1)
      (fun _ => 0)) = "0" := by decide +kernel
-- a typed grid: an int16 ramp
example : (⟨fun _ => 3, fun p => ((p 0 : Int) : Rat)⟩ : Grid 1).Typed .int16 := by
  intro p hp
  have h := hp 0
  rw [representable_iff .int16 (-32768) 32767 rfl]
  simp only [] at h
  exact ⟨p 0, rfl, by omega, by omega⟩

end NipyVerif.C04
