/-
C17 — property theorems about the model in `NipyVerif.Model.C17`:
seeded relabellings (sign flips, permutations, combinations, two-sample
exchanges) enumerate exactly; rational statistics are odd under a global sign
flip; calibrated p-values lie in (0, 1] as soon as the identity relabelling is
among the draws.
-/
import NipyVerif.Lemmas.C17

namespace NipyVerif.C17

/-! ## Sign flips (`fff_onesample_permute_signs`) -/

/-- magic number 0 is the identity relabelling of every sample -/
theorem signs_identity (x : List Rat) : permuteSigns x 0 = x := by
  unfold permuteSigns; rw [signFlips_zero]; exact applyFlips_false x

/-- hence every statistic evaluated at magic 0 is the observed statistic -/
theorem stat_identity_magic {β} (stat : List Rat → β) (x : List Rat) :
    stat (permuteSigns x 0) = stat x := by rw [signs_identity]

/-- distinct magic numbers in `[0, 2ⁿ)` give distinct sign patterns -/
theorem signs_injective (n m1 m2 : Nat) (h1 : m1 < 2 ^ n) (h2 : m2 < 2 ^ n)
    (h : signFlips n m1 = signFlips n m2) : m1 = m2 := signFlips_inj n m1 m2 h1 h2 h

/-- every sign pattern of `n` subjects is produced by a magic number in `[0, 2ⁿ)`
    (with `signs_injective`: exactly one) -/
theorem signs_surjective (l : List Bool) :
    ∃ m, m < 2 ^ l.length ∧ signFlips l.length m = l :=
  ⟨encodeFlips l, encodeFlips_lt l, signFlips_encode l⟩

/-! ## `fff_permutation` -/

/-- every magic number yields a permutation of `0..n-1` -/
theorem permutation_valid (n m : Nat) : (permutation n m).Perm (List.range n) :=
  permAux_perm n (List.range n) m (List.length_range)

/-- magic 0 is the identity permutation -/
theorem permutation_identity (n : Nat) : permutation n 0 = List.range n :=
  permAux_zero n (List.range n) (List.length_range)

/-- distinct magic numbers in `[0, n!)` give distinct permutations -/
theorem permutation_injective (n m1 m2 : Nat) (h1 : m1 < n.factorial) (h2 : m2 < n.factorial)
    (h : permutation n m1 = permutation n m2) : m1 = m2 :=
  permAux_inj n (List.range n) m1 m2 (List.length_range) (List.nodup_range) h1 h2 h

/-- the `n!` magic numbers enumerate `n!` distinct permutations, i.e. all of them, once -/
theorem permutation_enumerates (n : Nat) :
    ((Finset.range n.factorial).image (permutation n)).card = n.factorial := by
  rw [Finset.card_image_of_injOn, Finset.card_range]
  intro a ha b hb h
  exact permutation_injective n a b (by simpa using ha) (by simpa using hb) h

/-! ## `_combinations` / `fff_combination` -/

/-- the multiply-then-divide loop computes the binomial coefficient exactly -/
theorem combinations_eq_choose (k n : Nat) (h : k ≤ n) : combinations k n = n.choose k :=
  combinations_eq k n h

/-- every magic number yields a strictly increasing `k`-subset of `0..n-1` -/
theorem combination_sorted_subset (k n m : Nat) (h : k ≤ n) :
    (combination k n m).length = k ∧ (∀ x ∈ combination k n m, x < n) ∧
      (combination k n m).Pairwise (· < ·) := by
  unfold combination
  rw [combinations_eq k n h]
  obtain ⟨a, b, c⟩ := combAux_spec n k 0 (m % n.choose k) h (Nat.mod_lt _ (Nat.choose_pos h))
  exact ⟨a, fun x hx => by have := b x hx; omega, c⟩

/-- distinct magic numbers in `[0, C(n,k))` give distinct subsets; with
    `combination_sorted_subset` and `|{k-subsets}| = C(n,k)` each subset appears exactly once -/
theorem combination_injective (k n m1 m2 : Nat) (h : k ≤ n) (h1 : m1 < n.choose k)
    (h2 : m2 < n.choose k) (he : combination k n m1 = combination k n m2) : m1 = m2 := by
  unfold combination at he
  rw [combinations_eq k n h, Nat.mod_eq_of_lt h1, Nat.mod_eq_of_lt h2] at he
  exact combAux_inj n k 0 m1 m2 h h1 h2 he

theorem combination_enumerates (k n : Nat) (h : k ≤ n) :
    ((Finset.range (n.choose k)).image (combination k n)).card = n.choose k := by
  rw [Finset.card_image_of_injOn, Finset.card_range]
  intro a ha b hb he
  exact combination_injective k n a b h (by simpa using ha) (by simpa using hb) he

/-- magic 0 is the first combination `0..k-1` -/
theorem combination_first (k n : Nat) (h : k ≤ n) : combination k n 0 = List.range k := by
  unfold combination
  rw [Nat.zero_mod, combAux_zero n k 0 h]; simp

/-! ## Two-sample relabellings -/

/-- the counting mode of `fff_twosample_permutation` (`count_permutations`) returns the
    number of two-group splits `C(n1+n2, n1)` (Vandermonde) -/
theorem twosample_count (n1 n2 : Nat) : twosampleCount n1 n2 = (n1 + n2).choose n1 := by
  unfold twosampleCount
  have h := count_go n1 n2 (min n1 n2 + 1) 0
  have s1 : stratumSum n1 n2 (0 + 1) = 1 := by simp [stratumSum]
  rw [Nat.choose_zero_right, Nat.choose_zero_right, s1] at h
  rw [h]
  have a : 0 + (min n1 n2 + 1) + 1 = min n1 n2 + 1 + 1 := by omega
  rw [a, stratumSum_stable n1 n2 1, ← stratumSum_vandermonde]
  have b : n2 + 1 = min n1 n2 + 1 + (n2 - min n1 n2) := by
    have := Nat.min_le_right n1 n2; omega
  rw [b, stratumSum_stable]

/-! ## Statistics change sign when the data are flipped -/

theorem osMean_odd (x : List Rat) (base : Rat) :
    osMean (x.map (fun v => -v)) (-base) = -osMean x base := by
  unfold osMean; rw [mean_neg]; ring

theorem osSign_odd (x : List Rat) (base : Rat) :
    osSign (x.map (fun v => -v)) (-base) = -osSign x base := by
  unfold osSign
  rw [List.map_map, List.length_map]
  have : ((fun v => sgn (v - -base)) ∘ fun v : Rat => -v) = fun v => -sgn (v - base) := by
    funext v
    have e : -v - -base = -(v - base) := by ring
    simp only [Function.comp, e, sgn_neg]
  rw [this]
  have : (x.map (fun v => -sgn (v - base))) = (x.map (fun v => sgn (v - base))).map (fun u => -u) := by
    rw [List.map_map]; rfl
  rw [this, sum_map_neg]; ring

/-- the signed-rank statistic (ties ranked in input order) is exactly odd -/
theorem osWilcoxon_odd (x : List Rat) (base : Rat) :
    osWilcoxon (x.map (fun v => -v)) (-base) = -osWilcoxon x base := by
  unfold osWilcoxon
  rw [List.map_map, List.length_map]
  have : ((fun v => v - -base) ∘ fun v : Rat => -v) = (fun u => -u) ∘ (fun v => v - base) := by
    funext v; simp only [Function.comp]; ring
  rw [this, ← List.map_map, sortAbs_neg, rankSum_neg]; ring

/-- Student: the sign flips, the square (and the infinite case) is unchanged -/
theorem osStudentSq_odd (x : List Rat) (base : Rat) :
    osStudentSq (x.map (fun v => -v)) (-base) =
      (-(osStudentSq x base).1, (osStudentSq x base).2) := by
  unfold osStudentSq
  simp only [mean_neg, ssd_neg, List.length_map]
  have e : -mean x - -base = -(mean x - base) := by ring
  rw [e]
  generalize mean x - base = d
  by_cases h : d = 0
  · simp [h]
  · by_cases hv : ssd x / (x.length : Rat) = 0
    · simp [h, hv, sgn_neg]
    · simp [h, hv, sgn_neg]

/-! ## Mixed-effects model fits -/

/-- one EM step of the C implementation (`_fff_onesample_gmfx_EM`: `m1 = mean(mi)`,
    `v1 = mean(vi + mi²) - m1²`) equals one step of `MixedEffectsModel._one_step` for the
    one-sample design (`V2 = mean((Y_ - mean Y_)²) + mean(cvar)`): both fit the same model. -/
theorem gmfxStep_eq_memStep (x var : List Rat) (m0 v0 : Rat) (hne : x ≠ []) (hlen : var.length = x.length) :
    gmfxStep x var (m0, v0) = memStep x var (m0, v0) := by
  have hn : ((x.length : Nat) : Rat) ≠ 0 := by
    have := List.length_pos_iff.mpr hne
    exact_mod_cast (Nat.pos_iff_ne_zero.mp this)
  -- name the posterior means and variances
  let U := List.zipWith (fun yi si => (v0 * yi + si * m0) / (v0 + si)) x var
  let Cv := List.zipWith (fun (_ : Rat) si => si * v0 / (v0 + si)) x var
  have hUlen : U.length = x.length := by simp [U, hlen]
  have p1 : (List.zipWith (fun xi si => ((v0 * xi + si * m0) / (si + v0), si * v0 / (si + v0))) x var).map (·.1) = U := by
    rw [List.map_zipWith]; exact zipWith_ext' _ _ _ _ (fun a b => by simp only [add_comm b v0])
  have p2 : ((List.zipWith (fun xi si => ((v0 * xi + si * m0) / (si + v0), si * v0 / (si + v0))) x var).map
      (fun p => p.2 + p.1 * p.1)).sum = Cv.sum + (U.map (fun u => u * u)).sum := by
    rw [List.map_zipWith]
    have : (U.map (fun u => u * u)) =
        List.zipWith (fun yi si => (v0 * yi + si * m0) / (v0 + si) * ((v0 * yi + si * m0) / (v0 + si))) x var := by
      simp only [U, List.map_zipWith]
    rw [this, ← sum_zipWith_add]
    congr 1
    exact zipWith_ext' _ _ _ _ (fun a b => by simp only [add_comm b v0])
  have q1 : gmfxStep x var (m0, v0) =
      (U.sum / x.length, (Cv.sum + (U.map (fun u => u * u)).sum) / x.length - U.sum / x.length * (U.sum / x.length)) := by
    simp only [gmfxStep, p1, p2]
  have q2 : memStep x var (m0, v0) =
      (U.sum / x.length, (U.map (fun u => (u - U.sum / x.length) * (u - U.sum / x.length))).sum / x.length
        + Cv.sum / x.length) := by
    simp only [memStep, U, Cv]
  rw [q1, q2, sum_sq_dev, hUlen]
  simp only [Prod.mk.injEq, true_and]
  field_simp
  ring


/-! ## Variance ratio: the `df`-weighted fixed-effects variance -/

/-- `'fixed'` only depends on the *relative* weights: rescaling `df` (e.g. real degrees of
    freedom 30 per subject instead of 1) leaves it unchanged — it is normalised by `df.sum()`,
    not by the number of subjects. -/
theorem fixedVar_scale_invariant (c : Rat) (hc : c ≠ 0) (df s : List Rat) :
    fixedVar (df.map (c * ·)) s = fixedVar df s := by
  unfold fixedVar
  rw [sum_zipWith_scale, sum_map_mul_left]
  by_cases h : df.sum = 0
  · simp [h]
  · field_simp

/-- with the default `df = ones` it is the plain mean of the first-level variances -/
theorem fixedVar_ones (s : List Rat) :
    fixedVar (List.replicate s.length 1) s = s.sum / s.length := by
  unfold fixedVar
  rw [sum_zipWith_replicate_one, sum_replicate_one]

/-- constant weights of any size give the plain mean too -/
theorem fixedVar_const (c : Rat) (hc : c ≠ 0) (s : List Rat) :
    fixedVar (List.replicate s.length c) s = s.sum / s.length := by
  have : List.replicate s.length c = (List.replicate s.length (1 : Rat)).map (c * ·) := by simp
  rw [this, fixedVar_scale_invariant c hc, fixedVar_ones]

/-- `'ratio'` is `'random' / 'fixed'` for every `df`, `niter` -/
theorem varatio_ratio (y sd df : List Rat) (niter : Nat) (red mn : Rat) :
    (estimateVaratio y sd df niter red mn).2.1 =
      (estimateVaratio y sd df niter red mn).2.2 / (estimateVaratio y sd df niter red mn).1 := rfl

/-- `'random'` does not depend on `df` -/
theorem varatio_random_indep_df (y sd df df' : List Rat) (niter : Nat) (red mn : Rat) :
    (estimateVaratio y sd df niter red mn).2.2 = (estimateVaratio y sd df' niter red mn).2.2 := rfl

/-! ## p-values -/

theorem pvalue_le_one (draws : List Rat) (t : Rat) : pvalue draws t ≤ 1 := by
  unfold pvalue
  have : (0 : Rat) ≤ (searchsorted draws t : Rat) / draws.length :=
    div_nonneg (Nat.cast_nonneg _) (Nat.cast_nonneg _)
  linarith

/-- `1 - searchsorted(draws, T)/N > 0` **provided some draw reaches `T`** -/
theorem pvalue_pos (draws : List Rat) (t : Rat) (h : ∃ d ∈ draws, t ≤ d) :
    0 < pvalue draws t := by
  obtain ⟨d, hd, hle⟩ := h
  unfold pvalue
  have hlt : searchsorted draws t < draws.length := by
    unfold searchsorted
    rw [List.length_filter_lt_length_iff_exists]
    exact ⟨d, hd, by simpa using hle⟩
  have hpos : (0 : Rat) < draws.length := by exact_mod_cast List.length_pos_of_mem hd
  have : (searchsorted draws t : Rat) / draws.length < 1 := by
    rw [div_lt_one hpos]; exact_mod_cast hlt
  linarith

/-- the excluded point: if the observed statistic exceeds every draw the formula gives
    exactly 0 (this is the input the oracle runs on the real code) -/
theorem pvalue_zero_of_all_lt (draws : List Rat) (t : Rat) (hne : draws ≠ [])
    (h : ∀ d ∈ draws, d < t) : pvalue draws t = 0 := by
  unfold pvalue searchsorted
  have : draws.filter (· < t) = draws := by
    rw [List.filter_eq_self]; intro d hd; simpa using h d hd
  rw [this]
  have hpos : (draws.length : Rat) ≠ 0 := by
    have := List.length_pos_iff.mpr hne
    exact_mod_cast (Nat.pos_iff_ne_zero.mp this)
  rw [div_self hpos]; ring

theorem calibP_range (draws : List Rat) (t : Rat) (h : ∃ d ∈ draws, t ≤ d) :
    0 < calibP draws t ∧ calibP draws t ≤ 1 := by
  obtain ⟨d, hd, hle⟩ := h
  unfold calibP
  have hpos : (0 : Rat) < draws.length := by exact_mod_cast List.length_pos_of_mem hd
  have hnum : 0 < (draws.filter (t ≤ ·)).length :=
    List.length_pos_of_mem (List.mem_filter.mpr ⟨hd, by simpa using hle⟩)
  refine ⟨div_pos (by exact_mod_cast hnum) hpos, ?_⟩
  rw [div_le_one hpos]
  exact_mod_cast List.length_filter_le _ _

/-- **calibrated p-values lie in (0, 1]**: when the null sample is the exhaustive
    enumeration over magic numbers `[0, 2ⁿ)`, the identity relabelling (magic 0) reproduces
    the observed statistic, which discharges the hypothesis of `pvalue_pos`/`calibP_range`
    for every statistic and every sample. -/
theorem calibrated_p_in_unit (stat : List Rat → Rat) (x : List Rat) :
    0 < calibP (nullDraws stat x) (stat x) ∧ calibP (nullDraws stat x) (stat x) ≤ 1 ∧
    0 < pvalue (nullDraws stat x) (stat x) ∧ pvalue (nullDraws stat x) (stat x) ≤ 1 := by
  have hmem : ∃ d ∈ nullDraws stat x, stat x ≤ d := by
    refine ⟨stat x, ?_, le_refl _⟩
    unfold nullDraws
    rw [List.mem_map]
    exact ⟨0, by simp, stat_identity_magic stat x⟩
  exact ⟨(calibP_range _ _ hmem).1, (calibP_range _ _ hmem).2, pvalue_pos _ _ hmem,
    pvalue_le_one _ _⟩

/-! ## Non-vacuity -/

example : signFlips 3 5 = [true, false, true] := by decide
example : permutation 3 4 = [1, 2, 0] := by decide
example : combination 2 4 4 = [1, 3] := by decide
example : twosampleCount 3 2 = 10 := by decide
example : twosamplePerm 3 2 4 = some (1, [0], [1]) := by decide
example : osWilcoxon [1, -2, 3] 0 = 2 / 9 := by decide +kernel
example : osStudentSq [1, 2, 4] 0 = (1, some 7) := by decide +kernel
example : ∃ d ∈ ([1, 2, 3] : List Rat), (3 : Rat) ≤ d := ⟨3, by simp, le_refl _⟩
example : pvalue [1, 2, 3] 3 = 1 / 3 := by decide +kernel
example : pvalue [1, 2, 3] 4 = 0 := by decide +kernel   -- the excluded point is reachable
example : fixedVar [30, 30] [1, 3] = 2 := by decide +kernel
example : fixedVar [10, 30] [1, 3] = 5 / 2 := by decide +kernel
example : gmfxStep [1, 2, 4] [1, 1, 2] (1, 1) = memStep [1, 2, 4] [1, 1, 2] (1, 1) := by decide +kernel

end NipyVerif.C17
