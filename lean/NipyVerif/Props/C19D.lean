/-
C19 (wave 3) — property theorems about `NipyVerif.Model.C19D`: `pca` with its design projectors,
rank rule, standardisation and certified `svd` / `eigh` / `pinv` / `sqrt` parameters; axis names of the
image front ends; the plotted difference series.
-/
import NipyVerif.Lemmas.C19D
import NipyVerif.Props.C19C
import NipyVerif.Gen.C19Source

namespace NipyVerif.C19
open Matrix

/-! ## Design projections with a certified pseudo-inverse -/

/-- **the certificate the model decides is the Moore–Penrose system**: when `mpOK` answers `true`
    for `K : t × k` and `P : k × t`, the four equations hold for the matrices. -/
theorem mpOK_sound (t k : ℕ) (K P : Mat) (h : mpOK t k K P = true) : IsMP (toM t k K) (toM k t P) := by
  unfold mpOK at h
  simp only [Bool.and_eq_true, beq_iff_eq] at h
  obtain ⟨⟨⟨h1, h2⟩, h3⟩, h4⟩ := h
  have e1 := congrArg (toM t k) h1
  have e2 := congrArg (toM k t) h2
  have e3 := congrArg (toM t t) h3
  have e4 := congrArg (toM k k) h4
  rw [toM_mulT, toM_mulT] at e1 e2
  rw [toM_mulT, toM_trT, toM_mulT] at e3 e4
  have hK : toM t k (tab t k (ent K)) = toM t k K := by
    ext i j; simp only [toM, ent_tab _ i.2 j.2]
  have hP : toM k t (tab k t (ent P)) = toM k t P := by
    ext i j; simp only [toM, ent_tab _ i.2 j.2]
  rw [hK] at e1
  rw [hP] at e2
  exact ⟨e1, e2, e3.symm, e4.symm⟩

/-- **the pseudo-inverse is unique**: two matrices satisfying the Moore–Penrose equations for the
    same `K` are equal — so whatever exact `P` passes `mpOK` *is* `pinv(K)`. -/
theorem mp_unique {t k : ℕ} (K : Matrix (Fin t) (Fin k) ℚ) (P Q : Matrix (Fin k) (Fin t) ℚ)
    (hP : IsMP K P) (hQ : IsMP K Q) : P = Q :=
  (mp_left hP hQ).trans (mp_right hP hQ).symm

/-- **`design_keep`: the data are projected onto the column span of the design**: with a certified
    pseudo-inverse the matrix `X = K · pinv(K)` the model forms is symmetric, idempotent and fixes
    every column of `K`. -/
theorem design_keep_projector_of_cert (t : ℕ) (K P : Mat) (h : mpOK t (width K) K P = true) :
    let X := toM t t (designX t (some (K, P)))
    X * X = X ∧ Xᵀ = X ∧ X * toM t (width K) K = toM t (width K) K := by
  obtain ⟨h1, h2, h3, _⟩ := mpOK_sound t (width K) K P h
  simp only [designX, toM_mulT]
  refine ⟨?_, h3, h1⟩
  calc toM t (width K) K * toM (width K) t P * (toM t (width K) K * toM (width K) t P)
      = (toM t (width K) K * toM (width K) t P * toM t (width K) K) * toM (width K) t P := by
        simp only [Matrix.mul_assoc]
    _ = _ := by rw [h1]

/-- **`design_resid`: the data are projected perpendicular to the column span**: with a certified
    pseudo-inverse, `M = 1 - R · pinv(R)` is symmetric, idempotent and annihilates every column of `R`. -/
theorem design_resid_projector_of_cert (t : ℕ) (R P : Mat) (h : mpOK t (width R) R P = true) :
    let M := (1 : Matrix (Fin t) (Fin t) ℚ) - toM t (width R) R * toM (width R) t P
    M * M = M ∧ Mᵀ = M ∧ M * toM t (width R) R = 0 := by
  obtain ⟨h1, h2, h3, _⟩ := mpOK_sound t (width R) R P h
  have hidem : toM t (width R) R * toM (width R) t P * (toM t (width R) R * toM (width R) t P)
      = toM t (width R) R * toM (width R) t P := by
    calc _ = (toM t (width R) R * toM (width R) t P * toM t (width R) R) * toM (width R) t P := by
          simp only [Matrix.mul_assoc]
      _ = _ := by rw [h1]
  refine ⟨?_, ?_, ?_⟩
  · simp only [Matrix.mul_sub, Matrix.sub_mul, Matrix.mul_one, Matrix.one_mul, hidem]
    abel
  · rw [Matrix.transpose_sub, Matrix.transpose_one, h3]
  · rw [Matrix.sub_mul, Matrix.one_mul, h1, sub_self]

/-- **`design_resid='mean'` removes the mean**: the residual series sums to zero. -/
theorem mean_resid_sum_zero (t : ℕ) (y : List Rat) (hy : y.length = t) (ht : t ≠ 0) :
    (residVec t .mean y).sum = 0 := by
  have htq : (t : ℚ) ≠ 0 := by exact_mod_cast ht
  simp only [residVec]
  have : ∀ (l : List Rat) (c : ℚ), (l.map (fun x => x - c)).sum = l.sum - l.length * c := by
    intro l c
    induction l with
    | nil => simp
    | cons a l ih => simp only [List.map_cons, List.sum_cons, List.length_cons, ih]; push_cast; ring
  rw [this, hy]
  field_simp
  ring

/-! ## The rank rule `(S / S.max() > tol_ratio).sum()` and `UX = U[:, :rank].T` -/

/-- **the first `rank` singular vectors are exactly those above the tolerance**: for singular
    values in non-increasing order (the `svd` contract, certified per run by `sortedDesc`) the values
    with `S / S.max() > tol_ratio` form the prefix of length `rankOf` — what `U[:, :rank]` selects. -/
theorem rank_selects_leading (s : List Rat) (tol smax : Rat) (hs : sortedDesc s = true) (hm : 0 < smax) :
    s.filter (fun x => decide (tol < x / smax))
      = s.take (s.filter (fun x => decide (tol < x / smax))).length := by
  unfold sortedDesc at hs
  simp only [Bool.and_eq_true] at hs
  apply filter_eq_take_of_sorted _ _ s (pairwise_of_zipWith_tail s hs.1)
  intro x y hyx hy
  simp only [decide_eq_true_eq] at hy ⊢
  exact lt_of_lt_of_le hy (div_le_div_of_nonneg_right hyx hm.le)

/-- the rank never exceeds the number of singular values -/
theorem rank_le_length (s : List Rat) (tol : Rat) : rankOf s tol ≤ s.length := by
  unfold rankOf
  dsimp only
  split
  · exact Nat.zero_le _
  · exact List.length_filter_le _ _

/-- **`ncomp`**: `basis_vectors[:ncomp]` returns `ncomp` components, and all `rank` of them when
    `ncomp` exceeds the rank; never more than exist. -/
theorem ncomp_slice (rank : ℕ) (n : ℕ) :
    pySliceTo rank (n : Int) = min n rank ∧ pySliceTo rank (n : Int) ≤ rank := by
  unfold pySliceTo
  simp

/-! ## Orthonormal components and the SVD equivalence from certificates -/

/-- **principal components are orthonormal** (from the certificates the model computes for every
    run): let `ux = U[:, :rank].T` and `(D, Vs)` be the recorded `svd` / `eigh` outputs.  If the exact
    residuals satisfy `max|UX UXᵀ - 1| ≤ ε` and `max|Vsᵀ Vs - 1| ≤ δ`, and `|Vs| ≤ β`, then the rows of
    `basis_vectors` (in the order `argsort(-D)`) are orthonormal up to `δ + rank² β² ε`:
    distinct components have inner product within the bound of 0, each has squared norm within the
    bound of 1. -/
theorem pca_basis_orthonormal_of_cert (r t : ℕ) (f : ℕ → ℕ → ℚ) (vs : Mat) (d : List Rat) (ε δ β : ℚ)
    (hd : d.length = r)
    (hU : maxAbs (subT r r (mulT r t r (tab r t f) (trT t r (tab r t f))) (idT r)) ≤ ε)
    (hV : maxAbs (subT r r (mulT r r r (trT r r vs) vs) (idT r)) ≤ δ)
    (hβ : ∀ i < r, ∀ j < r, |ent vs i j| ≤ β) (a b : ℕ) (ha : a < r) (hb : b < r) :
    |sumTo t (fun k => ent (basisVectors (tab r t f) vs d) a k * ent (basisVectors (tab r t f) vs d) b k)
        - (if a = b then 1 else 0)| ≤ δ + (r : ℚ) * ((r : ℚ) * (β * ε) * β) := by
  set ux := tab r t f with hux
  have hperm := orderDesc_perm d
  rw [hd] at hperm
  have hol : (orderDesc d).length = r := by rw [hperm.length_eq, List.length_range]
  have hnd : (orderDesc d).Nodup := hperm.nodup_iff.2 List.nodup_range
  have hlt : ∀ x, x < r → (orderDesc d).getD x 0 < r := by
    intro x hx
    rw [List.getD_eq_getElem?_getD, List.getElem?_eq_getElem (by omega : x < (orderDesc d).length)]
    exact List.mem_range.1 (hperm.mem_iff.1 (List.getElem_mem _))
  -- matrices
  let U := toM r t ux
  let W := toM r r vs
  have hUm : ∀ i j, |(U * Uᵀ - (1 : Matrix (Fin r) (Fin r) ℚ)) i j| ≤ ε := by
    intro i j
    have := toM_entry_le_maxAbs r r
      (fun i j => ent (mulT r t r ux (trT t r ux)) i j - ent (idT r) i j) i j
    have e : toM r r (tab r r (fun i j => ent (mulT r t r ux (trT t r ux)) i j - ent (idT r) i j))
        = U * Uᵀ - 1 := by
      have := toM_subT r r (mulT r t r ux (trT t r ux)) (idT r)
      rw [toM_mulT, toM_trT, toM_idT] at this
      exact this
    rw [e] at this
    exact le_trans this hU
  have hVm : ∀ i j, |(Wᵀ * W - (1 : Matrix (Fin r) (Fin r) ℚ)) i j| ≤ δ := by
    intro i j
    have := toM_entry_le_maxAbs r r
      (fun i j => ent (mulT r r r (trT r r vs) vs) i j - ent (idT r) i j) i j
    have e : toM r r (tab r r (fun i j => ent (mulT r r r (trT r r vs) vs) i j - ent (idT r) i j))
        = Wᵀ * W - 1 := by
      have := toM_subT r r (mulT r r r (trT r r vs) vs) (idT r)
      rw [toM_mulT, toM_trT, toM_idT] at this
      exact this
    rw [e] at this
    exact le_trans this hV
  have hWm : ∀ i j, |W i j| ≤ β := fun i j => hβ i i.2 j j.2
  have key := gram_dev_bound U W β ε δ hUm hVm hWm ⟨_, hlt a ha⟩ ⟨_, hlt b hb⟩
  -- the model's Gram entry is the matrix entry
  have hsum : sumTo t (fun k => ent (basisVectors ux vs d) a k * ent (basisVectors ux vs d) b k)
      = ((Uᵀ * W)ᵀ * (Uᵀ * W)) ⟨_, hlt a ha⟩ ⟨_, hlt b hb⟩ := by
    rw [sumTo_congr t _ (fun k => sumTo r (fun i => ent vs i ((orderDesc d).getD a 0) * ent ux i k)
        * sumTo r (fun i => ent vs i ((orderDesc d).getD b 0) * ent ux i k))
      (fun k hk => by rw [ent_basisVectors ux vs d r t f hux hd a k ha hk,
                          ent_basisVectors ux vs d r t f hux hd b k hb hk])]
    rw [sumTo_eq_fin]
    simp only [Matrix.mul_apply, Matrix.transpose_apply, sumTo_eq_fin]
    apply Finset.sum_congr rfl
    intro k _
    congr 1
    · apply Finset.sum_congr rfl; intro i _; rw [mul_comm]; rfl
    · apply Finset.sum_congr rfl; intro i _; rw [mul_comm]; rfl
  have hone : (if a = b then (1 : ℚ) else 0)
      = (1 : Matrix (Fin r) (Fin r) ℚ) ⟨_, hlt a ha⟩ ⟨_, hlt b hb⟩ := by
    rw [Matrix.one_apply]
    have : (a = b) ↔ ((⟨_, hlt a ha⟩ : Fin r) = ⟨_, hlt b hb⟩) := by
      rw [Fin.ext_iff]
      simp only
      rw [List.getD_eq_getElem?_getD, List.getD_eq_getElem?_getD,
        List.getElem?_eq_getElem (by omega : a < (orderDesc d).length),
        List.getElem?_eq_getElem (by omega : b < (orderDesc d).length)]
      simp only [Option.getD_some]
      exact (hnd.getElem_inj_iff).symm
    simp only [this]
  rw [hsum, hone, ← Matrix.sub_apply]
  exact key

/-- **equal to the singular-value decomposition of the projected, standardised data** (from the
    certificates): with `C = YX · YXᵀ` the accumulated covariance, `max|C Vs - Vs diag D| ≤ η`,
    `max|Vsᵀ Vs - 1| ≤ δ`, `|Vs| ≤ β`, the component scores `Vsᵀ YX` have Gram matrix `Vsᵀ C Vs` equal to
    `diag D` up to `r β η + δ |D_j|`: the scores are mutually orthogonal with squared norms `D` — `YX =
    Vs · diag(√D) · Wᵀ` is a singular-value decomposition and `D / ΣD` the explained variance. -/
theorem pca_diagonalises_of_cert (r : ℕ) (c vs : Mat) (d : List Rat) (η δ β : ℚ)
    (hE : maxAbs (tab r r (fun i j => ent (mulT r r r c vs) i j - ent vs i j * d.getD j 0)) ≤ η)
    (hV : maxAbs (subT r r (mulT r r r (trT r r vs) vs) (idT r)) ≤ δ)
    (hβ : ∀ i < r, ∀ j < r, |ent vs i j| ≤ β) (i j : Fin r) :
    |((toM r r vs)ᵀ * toM r r c * toM r r vs - Matrix.diagonal (fun k : Fin r => d.getD k 0)) i j|
      ≤ (r : ℚ) * (β * η) + δ * |d.getD j 0| := by
  let W := toM r r vs
  have hVm : ∀ i j, |(Wᵀ * W - (1 : Matrix (Fin r) (Fin r) ℚ)) i j| ≤ δ := by
    intro i j
    have := toM_entry_le_maxAbs r r
      (fun i j => ent (mulT r r r (trT r r vs) vs) i j - ent (idT r) i j) i j
    have e : toM r r (tab r r (fun i j => ent (mulT r r r (trT r r vs) vs) i j - ent (idT r) i j))
        = Wᵀ * W - 1 := by
      have := toM_subT r r (mulT r r r (trT r r vs) vs) (idT r)
      rw [toM_mulT, toM_trT, toM_idT] at this
      exact this
    rw [e] at this
    exact le_trans this hV
  have hEm : ∀ i j, |(toM r r c * W - W * Matrix.diagonal (fun k : Fin r => d.getD k 0)) i j| ≤ η := by
    intro i j
    have := toM_entry_le_maxAbs r r (fun i j => ent (mulT r r r c vs) i j - ent vs i j * d.getD j 0) i j
    rw [toM_tab] at this
    have e : (toM r r c * W - W * Matrix.diagonal (fun k : Fin r => d.getD k 0)) i j
        = ent (mulT r r r c vs) i j - ent vs i j * d.getD j 0 := by
      rw [Matrix.sub_apply, Matrix.mul_diagonal, ← toM_mulT]
      rfl
    rw [e]
    exact le_trans this hE
  exact diag_dev_bound (toM r r c) W _ β η δ hEm hVm (fun i j => hβ i i.2 j j.2) i j

/-- **standardisation gives every series the same (unit) standard deviation** (from the `sqrt`
    certificate): scaling a residual series by `s` scales its mean square by `s²`, so a scale whose
    certificate `|s² · msq - 1| ≤ ε` holds yields a mean square within `ε` of 1. -/
theorem standardised_unit_msq_of_cert (t : ℕ) (res : List Rat) (s ε : Rat)
    (h : rabs (s * s * msq t res - 1) ≤ ε) :
    |msq t (res.map (fun x => s * x)) - 1| ≤ ε := by
  have hm : msq t (res.map (fun x => s * x)) = s * s * msq t res := by
    unfold msq
    rw [List.map_map]
    have : ∀ l : List Rat, (l.map ((fun x => x * x) ∘ fun x => s * x)).sum
        = s * s * (l.map (fun x => x * x)).sum := by
      intro l
      induction l with
      | nil => simp
      | cons a l ih => simp only [List.map_cons, List.sum_cons, ih, Function.comp]; ring
    rw [this]; ring
  rw [hm, ← rabs_eq_abs]
  exact h

/-- a voxel whose floating-point mask entry is NaN has weight 0 (`nan_to_num`) and contributes
    nothing to any covariance entry -/
theorem nan_mask_voxel_excluded (ux : Mat) (y : List Rat) (i j : Nat) :
    (projVox ux (y, (none : Option Rat).getD 0)).getD i 0 * (projVox ux (y, (none : Option Rat).getD 0)).getD j 0 = 0 := by
  have := projVox_zero_getD ux y i
  simp only [Option.getD_none]
  rw [this, zero_mul]

/-! ## Image front ends: axis names -/

/-- **`pca_image` names the component axis in place**: rolling the chosen input axis to the
    front, renaming position 0 and rolling it back to `in_ax` gives the input's domain names with
    exactly the entry `in_ax` replaced by `'PCA components'` (images of 2..5 dimensions, every axis). -/
theorem pca_image_names (dom : List String) (hlo : 2 ≤ dom.length) (hhi : dom.length ≤ 5) (i : ℕ)
    (hi : i < dom.length) : pcaImageDom dom i = dom.set i pcaName := by
  match dom, hlo, hhi, hi with
  | [a, b], _, _, hi =>
      have : i = 0 ∨ i = 1 := by simp at hi; omega
      rcases this with rfl | rfl <;> rfl
  | [a, b, c], _, _, hi =>
      have : i = 0 ∨ i = 1 ∨ i = 2 := by simp at hi; omega
      rcases this with rfl | rfl | rfl <;> rfl
  | [a, b, c, d], _, _, hi =>
      have : i = 0 ∨ i = 1 ∨ i = 2 ∨ i = 3 := by simp at hi; omega
      rcases this with rfl | rfl | rfl | rfl <;> rfl
  | [a, b, c, d, e], _, _, hi =>
      have : i = 0 ∨ i = 1 ∨ i = 2 ∨ i = 3 ∨ i = 4 := by simp at hi; omega
      rcases this with rfl | rfl | rfl | rfl | rfl <;> rfl

/-- **negative axis indices count from the end** (`io_axis_indices`, hence `pca_image`,
    `time_slice_diffs_image`, `drop_io_dim`): for `1 ≤ k ≤ n` the index `-k` denotes the same input and
    output axis as `n - k`. -/
theorem io_axis_negative_index (cm : CMapN) (k : ℕ) (hk : 1 ≤ k) (hkn : k ≤ cm.dom.length) :
    ioAxisIndices cm (.idx (-(k : Int))) = ioAxisIndices cm (.idx ((cm.dom.length - k : ℕ) : Int)) := by
  unfold ioAxisIndices
  have h1 : ¬ (0 ≤ -(k : Int)) := by omega
  have h2 : (0 : Int) ≤ ((cm.dom.length - k : ℕ) : Int) := by omega
  simp only [h1, h2, if_false, if_true]
  have : (cm.dom.length : Int) + -(k : Int) = ((cm.dom.length - k : ℕ) : Int) := by omega
  rw [this]
  simp [h2]

/-- `input_axis_index` (used by `screen` and `rollimg`): same convention -/
theorem input_axis_negative_index (cm : CMapN) (k : ℕ) (hk : 1 ≤ k) (hkn : k ≤ cm.dom.length) :
    inputAxisIndex cm (.idx (-(k : Int))) = inputAxisIndex cm (.idx ((cm.dom.length - k : ℕ) : Int)) := by
  unfold inputAxisIndex
  have h1 : (-(k : Int)) < 0 := by omega
  have h2 : ¬ (((cm.dom.length - k : ℕ) : Int) < 0) := by omega
  simp only [h1, h2, if_false, if_true]
  congr 1
  omega

/-- an integer axis the front ends accept denotes an existing input axis -/
theorem io_axis_in_range (cm : CMapN) (a : Int) (i : ℕ) (o : Option ℕ)
    (h : ioAxisIndices cm (.idx a) = .ok (some i, o)) : i < cm.dom.length := by
  simp only [ioAxisIndices] at h
  split_ifs at h with hc hc2
  · have := Except.ok.inj h
    simp only [Prod.mk.injEq, Option.some.injEq] at this
    omega
  · have := Except.ok.inj h
    simp only [Prod.mk.injEq, Option.some.injEq] at this
    omega

/-! ## `plot_tsdiffs` -/

/-- **the "scaled mean voxel intensity" panel averages to one**: the plotted series is
    `volume_means / mean(volume_means)`. -/
theorem plot_scaled_means_average_one (volds : List Rat) (sliceds : List (List Rat)) (means : List Rat)
    (h : mean means ≠ 0) : mean (tsdPlot volds sliceds means).volMean = 1 := by
  simp only [tsdPlot]
  unfold mean at *
  rw [List.length_map]
  have : ∀ (l : List Rat) (c : ℚ), (l.map (fun x => x / c)).sum = l.sum / c := by
    intro l c
    induction l with
    | nil => simp
    | cons a l ih => simp only [List.map_cons, List.sum_cons, ih]; ring
  rw [this]
  have hl : ((means.length : ℕ) : ℚ) ≠ 0 := by
    intro h0; apply h; rw [h0]; simp
  have hs : means.sum ≠ 0 := by
    intro h0; apply h; rw [h0]; simp
  field_simp


/-! ## Output volumes keep the input's axis order -/

/-- the back-roll list of `time_slice_diffs` only addresses existing volume axes -/
def tsdBoundOK (nd : Nat) (ta : Int) (sa : Option Int) : Bool :=
  match tsdAxes nd ta sa with
  | .error _ => true
  | .ok (p, sa') =>
      match rollaxisPerm (nd - 1) 0 sa' with
      | .ok q => q.all (fun i => decide (i < p.tail.length))
      | .error _ => true

theorem tsd_bound_table : ∀ nd ∈ [2, 3, 4, 5], ∀ ta ∈ axisRange nd,
    ∀ sa ∈ none :: (axisRange nd).map some, tsdBoundOK nd ta sa = true := by decide +kernel

/-- **the volume outputs of `time_slice_diffs` have the input's shape with the time axis removed,
    axes in the input's order** — for every array of 2..5 dimensions, every time axis and slice axis
    (negative indices and `None` included): `diff2_mean_vol` and `slice_diff2_max_vol` are rolled back to
    where the caller's axes were. -/
theorem tsd_volume_shape (v : View) (nd : Nat) (hnd : nd ∈ [2, 3, 4, 5]) (hv : v.shape.length = nd)
    (ta : Int) (hta : ta ∈ axisRange nd) (sa : Option Int) (hsa : sa ∈ none :: (axisRange nd).map some)
    (o : TsdOut) (h : tsd v ta sa = .ok o) : o.volShape = v.shape.eraseIdx (normI nd ta) := by
  have ht := tsd_axis_table nd hnd ta hta sa hsa
  have hb := tsd_bound_table nd hnd ta hta sa hsa
  unfold tsdAxisOK at ht
  unfold tsdBoundOK at hb
  unfold tsd at h
  rw [hv] at h
  cases h1 : tsdAxes nd ta sa with
  | error e => simp [h1, bind, Except.bind] at h
  | ok ps =>
    obtain ⟨p, sa'⟩ := ps
    simp only [h1] at ht hb
    cases h2 : rollaxisPerm (nd - 1) 0 sa' with
    | error e => simp [h2] at ht
    | ok q =>
      simp only [h2, Bool.and_eq_true, decide_eq_true_eq] at ht hb
      obtain ⟨_, hq⟩ := ht
      simp only [h1, h2, bind, Except.bind] at h
      rw [tsdOn_volShape v p q o h]
      have hbound : ∀ i ∈ q, i < p.tail.length := by
        intro i hi
        have := List.all_eq_true.1 hb i hi
        simpa using this
      rw [List.map_congr_left (fun i hi => map_tail_getD p (fun i => v.shape.getD i 0) i (hbound i hi))]
      rw [show (fun i => v.shape.getD (p.tail.getD i 0) 0)
            = (fun k => v.shape.getD k 0) ∘ (fun i => p.tail.getD i 0) from rfl, ← List.map_map, hq, ← hv]
      have h25 : 2 ≤ v.shape.length ∧ v.shape.length ≤ 5 := by
        rw [hv]; simp only [List.mem_cons, List.not_mem_nil, or_false] at hnd
        rcases hnd with rfl | rfl | rfl | rfl <;> omega
      rw [hv] at h25 ⊢
      rw [← hv]
      exact erase_range_map_getD v.shape (by omega) (by omega) _

/-- `pca_axis_moved` with the back-roll list known to be a permutation of the axes -/
theorem pca_axis_moved_perm (v : View) (nd : Nat) (hnd : nd ∈ [2, 3, 4, 5]) (hv : v.shape.length = nd)
    (axis : Int) (hax : axis ∈ axisRange nd) (ux : Mat) (scale mask : Option Vol)
    (eig : Mat → List Rat × Mat) (ncomp : Nat) :
    ∃ q, q.Perm (List.range nd) ∧
      composePerm (normI nd axis :: (List.range nd).erase (normI nd axis)) q = List.range nd ∧
      pca v axis ux scale mask eig ncomp =
        pcaOn v (normI nd axis :: (List.range nd).erase (normI nd axis)) q ux scale mask eig ncomp
          (normI nd axis) := by
  have h := pca_axis_table nd hnd axis hax
  unfold pcaAxisOK at h
  unfold pca
  rw [hv]
  cases h1 : rollaxisPerm nd axis 0 with
  | error e => simp [h1] at h
  | ok p =>
    have hn : ((if axis < 0 then axis + (nd : Int) else axis).toNat : Int)
        = (if axis < 0 then axis + (nd : Int) else axis) := by
      have : axis ∈ axisRange nd := hax
      simp only [axisRange, List.mem_map, List.mem_range] at this
      obtain ⟨i, hi, rfl⟩ := this
      split <;> omega
    cases h2 : rollaxisPerm nd 0 (((normI nd axis : Nat) : Int) + 1) with
    | error e => simp [h1, h2] at h
    | ok q =>
      simp only [h1, h2, Bool.and_eq_true, decide_eq_true_eq] at h
      obtain ⟨hp, hq⟩ := h
      subst hp
      refine ⟨q, rollaxis_perm nd 0 _ q h2, hq, ?_⟩
      unfold normI at h2
      rw [hn] at h2
      simp only [bind, Except.bind, h1, h2]
      rfl

/-- **the projections of `pca` have the input's shape with the PCA axis replaced by the number of
    components**, for every array of 2..5 dimensions and every axis (negative included):
    `s = list(data.shape); s[axis] = ncomp`. -/
theorem pca_projection_shape (v : View) (nd : Nat) (hnd : nd ∈ [2, 3, 4, 5]) (hv : v.shape.length = nd)
    (axis : Int) (hax : axis ∈ axisRange nd) (ux : Mat) (scale mask : Option Vol)
    (eig : Mat → List Rat × Mat) (ncomp : Nat) (o : PcaOut)
    (h : pca v axis ux scale mask eig ncomp = .ok o) :
    o.projShape = v.shape.set (normI nd axis) (min ncomp o.pcnt.length) := by
  obtain ⟨q, hqperm, hq, he⟩ := pca_axis_moved_perm v nd hnd hv axis hax ux scale mask eig ncomp
  rw [he] at h
  set a := normI nd axis with ha
  have han : a < nd := by
    simp only [axisRange, List.mem_map, List.mem_range] at hax
    obtain ⟨i, hi, rfl⟩ := hax
    simp only [ha, normI]
    split <;> omega
  -- shape of the result of pcaOn
  unfold pcaOn at h
  simp only [View.transpose] at h
  split at h
  · rename_i T S rest heq
    have := Except.ok.inj h
    subst this
    simp only [View.transpose, pcnt_var_length]
    -- the number of components returned
    have hlen : (projections (List.take ncomp (basisVectors ux (eig (covariance ux (voxels
        (gather ⟨List.map (fun i => v.shape.getD i 0) (a :: (List.range nd).erase a),
          fun idx => v.get (unperm (a :: (List.range nd).erase a) idx)⟩) S (prod rest) scale mask))).2
        (eig (covariance ux (voxels (gather ⟨List.map (fun i => v.shape.getD i 0) (a :: (List.range nd).erase a),
          fun idx => v.get (unperm (a :: (List.range nd).erase a) idx)⟩) S (prod rest) scale mask))).1))
        (voxels (gather ⟨List.map (fun i => v.shape.getD i 0) (a :: (List.range nd).erase a),
          fun idx => v.get (unperm (a :: (List.range nd).erase a) idx)⟩) S (prod rest) scale none)).length
        = min ncomp (eig (covariance ux (voxels (gather ⟨List.map (fun i => v.shape.getD i 0)
            (a :: (List.range nd).erase a), fun idx => v.get (unperm (a :: (List.range nd).erase a) idx)⟩)
            S (prod rest) scale mask))).1.length := by
      simp [projections, basisVectors, (orderDesc_perm _).length_eq]
    rw [hlen]
    generalize (eig (covariance ux (voxels (gather ⟨List.map (fun i => v.shape.getD i 0)
      (a :: (List.range nd).erase a), fun idx => v.get (unperm (a :: (List.range nd).erase a) idx)⟩)
      S (prod rest) scale mask))).1.length = m
    -- S :: rest are the non-PCA extents in order
    have hrest : S :: rest = ((List.range nd).erase a).map (fun i => v.shape.getD i 0) := by
      simp only [List.map_cons, List.cons.injEq] at heq
      exact heq.2.symm
    rw [hrest]
    -- finite check over the dimensions
    have hcomp : composePerm (a :: (List.range nd).erase a) q = List.range nd := hq
    clear h he heq hrest hq
    simp only [List.mem_cons, List.not_mem_nil, or_false] at hnd
    have hqlen : q.length = nd := by
      have := congrArg List.length hcomp
      simpa [composePerm] using this
    apply List.ext_getElem
    · simp [hqlen, hv]
    · intro i h1 h2
      simp only [List.length_map] at h1
      have hi : i < nd := by omega
      have hpi := congrArg (fun l => l.getD i 0) hcomp
      simp only [composePerm, List.getD_eq_getElem?_getD, List.getElem?_map, List.getElem?_eq_getElem h1,
        Option.map_some, Option.getD_some, List.getElem?_range hi] at hpi
      simp only [List.getElem_map, List.getD_eq_getElem?_getD]
      rw [List.getElem_set]
      cases hqi : q[i] with
      | zero =>
          rw [hqi] at hpi
          simp only [List.getElem?_cons_zero, Option.getD_some] at hpi
          simp [hpi]
      | succ k =>
          rw [hqi] at hpi
          simp only [List.getElem?_cons_succ] at hpi ⊢
          have hk1 : k < ((List.range nd).erase a).length := by
            rw [List.length_erase_of_mem (List.mem_range.2 han), List.length_range]
            have : q[i] < nd := List.mem_range.1 (hqperm.mem_iff.1 (List.getElem_mem _))
            omega
          rw [List.getElem?_eq_getElem hk1] at hpi
          simp only [Option.getD_some] at hpi
          have hne : a ≠ i := by
            intro hai
            have hm : ((List.range nd).erase a)[k] ∈ (List.range nd).erase a := List.getElem_mem _
            rw [hpi, ← hai] at hm
            exact absurd hm (List.Nodup.not_mem_erase List.nodup_range)
          rw [if_neg hne, List.getElem?_map, List.getElem?_eq_getElem hk1]
          simp only [Option.map_some, Option.getD_some, hpi]
          rw [List.getElem?_eq_getElem (by simpa using h2)]
          rfl
  · cases h

/-! ## Generators: every voxel in exactly one (slice, parcel) pair -/

/-- **`slice_parcels` enumerates each position exactly once**: with the default labels, among the
    pairs `(slice index, parcel)` generated for slice `j` exactly one parcel contains a given voxel of
    that slice. -/
theorem slice_parcels_partition (v : View) (axis : Int) (sl : List (List Rat))
    (l : List (Nat × List Bool)) (hs : sliceGenInt v axis = .ok sl) (hl : sliceParcels v axis none = .ok l)
    (j : Nat) (hj : j < sl.length) (x : Nat) (hx : x < (sl.getD j []).length) :
    (((l.filter (fun p => decide (p.1 = j))).map (fun p => p.2.getD x false)).count true) = 1 := by
  unfold sliceParcels at hl
  rw [hs] at hl
  simp only [Except.map] at hl
  have := Except.ok.inj hl
  subst this
  rw [filter_tagged_flatMap (fun j' => parcels (sl.getD j' []) none []) sl.length j hj, List.map_map]
  exact parcels_partition (sl.getD j []) x hx



/-- **`slice_generator(data, axis)` visits every position of the array exactly once** (arrays of
    2..5 dimensions, every axis, negative included): the elements of the generated slices, in order,
    are the array read at a list of positions that is a permutation of all its index tuples. -/
theorem slice_generator_covers_once (v : View) (hlo : 2 ≤ v.shape.length) (hhi : v.shape.length ≤ 5)
    (axis : Int) (sl : List (List Rat)) (h : sliceGenInt v axis = .ok sl) :
    ∃ visited : List (List Nat), visited.Perm (allIdx v.shape) ∧ sl.flatten = visited.map v.get := by
  unfold sliceGenInt at h
  cases hn : normAxis v.shape.length axis with
  | none => simp [hn] at h
  | some a =>
    have han := normAxis_lt hn
    simp only [hn] at h
    have hsl := (Except.ok.inj h).symm
    subst hsl
    refine ⟨(List.range (v.shape.getD a 0)).flatMap (fun j =>
      (allIdx (v.shape.eraseIdx a)).map (fun idx => idx.insertIdx a j)), allIdx_insert_perm v.shape a han, ?_⟩
    rw [List.map_flatMap, ← List.flatMap_def]
    apply List.flatMap_congr
    intro j _
    have hflat : (fixAxes v [a] [j]).flat
        = (allIdx (((List.range v.shape.length).filter (fun x => !([a].contains x))).map
            (fun i => v.shape.getD i 0))).map (fun idx => v.get (fullIdx v.shape.length a j idx)) := rfl
    rw [hflat, filter_ne_eq_erase, erase_range_map_getD v.shape hlo hhi a, List.map_map]
    apply List.map_congr_left
    intro idx hidx
    have hl := allIdx_length _ idx hidx
    rw [List.length_eraseIdx_of_lt han] at hl
    simp only [Function.comp]
    rw [fullIdx_eq_insert v.shape.length a j idx hlo hhi han (by omega)]

/-! ## The formula-like source lines, regenerated from the current text (`Gen/C19Source.lean`) -/

/-- the rank rule read from `pca.py` is the one the model (and `rank_selects_leading`) uses -/
theorem source_rank_rule : Src2.rankOf = rankOf := rfl

/-- `pcntvar = D * 100 / D.sum()` in the order `argsort(-D)`, as read from `pca.py` -/
theorem source_pcnt_var (d : List Rat) :
    pcntVar d = (orderDesc d).map (fun i => Src2.pcntOf (d.getD i 0) d.sum) := rfl

/-- the mean square under the root divides by `resid.shape[0]` as read from `pca.py`
    (`np.std` convention: what `standardised_unit_msq_of_cert` is about) -/
theorem source_msq (t : Nat) (r : List Rat) :
    msq t r = (r.map (fun x => x * x)).sum / Src2.msqDenom t := by
  simp [msq, Src2.msqDenom]

/-- the projections are rolled back to `axis + 1` as read from `pca.py` / `pca_image` -/
theorem source_back_roll (v : View) (axis : Int) (ux : Mat) (scale mask : Option Vol)
    (eig : Mat → List Rat × Mat) (ncomp : Nat) :
    pca v axis ux scale mask eig ncomp =
      (do let p ← rollaxisPerm v.shape.length axis 0
          let ax : Int := if axis < 0 then axis + (v.shape.length : Int) else axis
          let q ← rollaxisPerm v.shape.length 0 (Src2.backRollStart ax)
          pcaOn v p q ux scale mask eig ncomp ax.toNat) := rfl

/-- `slice_axis=None` in `time_slice_diffs` means the axis read from `timediff.py`: the last axis,
    or the one before when time is last -/
theorem source_tsd_default_slice (nd : Nat) (hnd : 2 ≤ nd) (ta : Int) (h0 : 0 ≤ ta) (h1 : ta < nd) :
    tsdAxes nd ta none = tsdAxes nd ta (some (Src2.tsdDefaultSlice nd ta)) := by
  unfold tsdAxes Src2.tsdDefaultSlice
  have hneg : ¬ ta < 0 := by omega
  simp only [hneg, if_false]
  by_cases h : ta = (nd : Int) - 1
  · have : ¬ ((nd : Int) - 2 < 0) := by omega
    simp only [h, if_true, this, if_false]
  · have : ¬ ((nd : Int) - 1 < 0) := by omega
    simp only [h, if_false, this]

/-- **`screen` guesses the slice axis `time_slice_diffs` would default to**: the positional guess
    read from `screens.py` is, for every time axis of a 4-D image, the last non-time axis — the very
    default of `time_slice_diffs(arr, time_axis, None)` read from `timediff.py`. -/
theorem source_screen_guess : Src2.screenGuess = screenGuess ∧
    ∀ t ∈ [(0 : Int), 1, 2, 3], Src2.screenGuess t = Src2.tsdDefaultSlice 4 t := by
  refine ⟨rfl, ?_⟩
  decide

/-- defaults of `commands.parse_fname_axes` as read from `commands.py` -/
theorem source_parse_defaults (dom : List String) (an : Bool) (nd : Nat) :
    parseFnameAxes dom an nd none none =
      (if dom.contains Src2.parseSliceName then .ok (.name Src2.parseTimeDefault, .name Src2.parseSliceName)
       else if an && nd == Src2.parseAnalyzeNdim then .ok (.name Src2.parseTimeDefault, .idx Src2.parseAnalyzeSlice)
       else .error "error:valueError") := rfl

/-- right x-limits of the four panels as read from `tsdiffplot.py` -/
theorem source_plot_limits (volds : List Rat) (sliceds : List (List Rat)) (means : List Rat) :
    (tsdPlot volds sliceds means).xmax = Src2.plotXmax means.length (width sliceds) := rfl

/-- the signature defaults the generated calls rely on when an argument is omitted -/
theorem source_defaults : Src2.pcaAxisDefault = 0 ∧ Src2.pcaImageAxisDefault = "t" ∧
    Src2.pcaStandardizeDefault = true ∧ Src2.pcaResidDefault = "mean" ∧ Src2.pcaTolDefault = 1 / 100 ∧
    Src2.screenTimeDefault = "t" ∧ Src2.screenSliceName = "slice" := by decide +kernel

/-! ## Non-vacuity -/

example : mpOK 2 1 [[1], [1]] [[1/2, 1/2]] = true := by decide +kernel
example : mpOK 3 2 [[1, 0], [1, 1], [1, 2]] [[5/6, 1/3, -1/6], [-1/2, 0, 1/2]] = true := by decide +kernel
example : sortedDesc [1, 1, 1/2, 0] = true ∧ rankOf [1, 1, 1/2, 0] (1/100) = 3 := by decide +kernel
example : rabs ((2 : Rat) * 2 * msq 2 [1/2, -1/2] - 1) ≤ 0 := by decide +kernel
example : pcaImageDom ["i", "j", "k", "t"] 3 = ["i", "j", "k", pcaName] := by decide
example : ioAxisIndices ⟨["i", "j", "t"], ["x", "y", "t"], [some 0, some 1, some 2]⟩ (.idx (-1))
    = .ok (some 2, some 2) := by decide
example : (tsd (View.ofFlat [2, 3, 2] #[1, 2, 3, 4, 5, 6, 7, 8, 9, 10, 11, 12]) (-1) none).toOption.map (·.volShape)
    = some [2, 3] := by decide +kernel
example : (pca (View.ofFlat [2, 3] #[1, 2, 4, 3, 5, 7]) (-1) [[1, -1, 0]] none none
    (fun _ => ([2], [[1]])) 1).toOption.map (·.projShape) = some [2, 1] := by decide +kernel
example : sliceGenInt (View.ofFlat [2, 2] #[1, 1, 2, 1]) 0 = .ok [[1, 1], [2, 1]] := by decide +kernel
example : ∃ l, sliceParcels (View.ofFlat [2, 2] #[1, 1, 2, 1]) 0 none = .ok l := by
  unfold sliceParcels
  rw [show sliceGenInt (View.ofFlat [2, 2] #[1, 1, 2, 1]) 0 = .ok [[1, 1], [2, 1]] by decide +kernel]
  exact ⟨_, rfl⟩
example : maxAbs (subT 1 1 (mulT 1 2 1 (tab 1 2 (fun _ j => if j = 0 then 1 else 0))
    (trT 2 1 (tab 1 2 (fun _ j => if j = 0 then 1 else 0)))) (idT 1)) ≤ 0 := by decide +kernel

end NipyVerif.C19
