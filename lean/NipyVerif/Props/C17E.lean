/-
C17 (part E) — mixed-effects fits: exact statements about one EM step of each variant.

  * Gaussian one-sample EM (`_fff_onesample_gmfx_EM`): closed form of a step through the
    likelihood scores; a state is a fixed point of the step iff both score equations hold;
    the whole fit is odd in the data (`mean_gauss_mfx`, `student_mfx` antisymmetric).
  * general design: the E step of `fff_glm_twolevel_EM_run` / `two_level_glm` (precision form)
    equals the E step of `MixedEffectsModel._one_step`; the three loops share the M step and differ
    only by the divisor (`n`, `n`, `n - p`).
  * two-sample design of `_fff_twosample_mfx_assembly`: `PX` is a left inverse of `X`; the M-step
    effect is (mean of group 2, mean of group 1 - mean of group 2) of the posterior means; it
    changes sign when the groups are exchanged; `PPX` fits the common mean (null model).
-/
import NipyVerif.Lemmas.C17M
import NipyVerif.Props.C17C

namespace NipyVerif.C17

/-! ## Gaussian one-sample EM -/

/-- **closed form of one EM step**: with `S_m = Σ (x_i - m)/(s_i + v)` and
    `S_v = Σ [(x_i - m)²/(s_i + v)² - 1/(s_i + v)]` (the two likelihood scores),
    `m' = m + (v/n) S_m` and `v' = v + (v²/n) S_v - ((v/n) S_m)²` -/
theorem gmfxStep_closed_form (x var : List Rat) (m v : Rat) (hne : x ≠ [])
    (hlen : x.length = var.length) (hs : ∀ s ∈ var, s + v ≠ 0) :
    gmfxStep x var (m, v) =
      (m + v / x.length * scoreM x var m v,
       v + v * v / x.length * scoreV x var m v - (v / x.length * scoreM x var m v) * (v / x.length * scoreM x var m v)) := by
  have hn : ((x.length : Nat) : Rat) ≠ 0 := by
    have := List.length_pos_iff.mpr hne
    exact_mod_cast (Nat.pos_iff_ne_zero.mp this)
  obtain ⟨s1, s2⟩ := gmfx_sums m v x var hs hlen
  simp only [gmfxStep, s1, s2, Prod.mk.injEq]
  constructor
  · field_simp
  · field_simp; ring

/-- **EM fixed points are the stationary points of the likelihood**: for `v ≠ 0`, a state
    `(m, v)` is reproduced by the EM step iff both score equations hold -/
theorem gmfxStep_fixed_iff_score (x var : List Rat) (m v : Rat) (hne : x ≠ [])
    (hlen : x.length = var.length) (hs : ∀ s ∈ var, s + v ≠ 0) (hv : v ≠ 0) :
    gmfxStep x var (m, v) = (m, v) ↔ scoreM x var m v = 0 ∧ scoreV x var m v = 0 := by
  have hn : ((x.length : Nat) : Rat) ≠ 0 := by
    have := List.length_pos_iff.mpr hne
    exact_mod_cast (Nat.pos_iff_ne_zero.mp this)
  rw [gmfxStep_closed_form x var m v hne hlen hs]
  constructor
  · intro h
    simp only [Prod.mk.injEq] at h
    obtain ⟨h1, h2⟩ := h
    have hq : v / (x.length : Rat) ≠ 0 := div_ne_zero hv hn
    have a : scoreM x var m v = 0 := by
      have : v / (x.length : Rat) * scoreM x var m v = 0 := by linarith
      rcases mul_eq_zero.mp this with h | h
      · exact absurd h hq
      · exact h
    refine ⟨a, ?_⟩
    rw [a] at h2
    have : v * v / (x.length : Rat) * scoreV x var m v = 0 := by
      simp only [mul_zero, sub_zero] at h2; linarith
    rcases mul_eq_zero.mp this with h | h
    · exact absurd h (div_ne_zero (mul_ne_zero hv hv) hn)
    · exact h
  · rintro ⟨a, b⟩
    rw [a, b]; simp

/-- `mean_gauss_mfx` is odd: negating data and baseline negates the statistic, for every number
    of EM iterations and every first-level variances -/
theorem osMeanGmfx_odd (x var : List Rat) (niter : Nat) (base : Rat) :
    osMeanGmfx (x.map (fun v => -v)) var niter (-base) = -osMeanGmfx x var niter base := by
  unfold osMeanGmfx
  rw [gmfxEM_neg]; simp only [negFst]; ring

/-- `student_mfx` (Gaussian likelihood ratio): sign and fitted mean flip, both variance fits
    (hence both likelihoods) are unchanged -/
theorem osLRGmfx_odd (x var : List Rat) (niter : Nat) (base : Rat) :
    osLRGmfx (x.map (fun v => -v)) var niter (-base) =
      (-(osLRGmfx x var niter base).1, -(osLRGmfx x var niter base).2.1,
       (osLRGmfx x var niter base).2.2.1, (osLRGmfx x var niter base).2.2.2) := by
  unfold osLRGmfx
  have hr : (x.map (fun v => -v)).map (· - -base) = (x.map (· - base)).map (fun v => -v) := by
    simp only [List.map_map]; apply List.map_congr_left; intro a _; simp only [Function.comp]; ring
  simp only [hr, gmfxEM_neg, negFst, sgn_neg]

/-! ## General design: the three loops -/

/-- the E step in precision form (`fff_glm_twolevel_EM_run`, `two_level_glm`) is the E step of
    `MixedEffectsModel._one_step`, for positive (more generally: non-degenerate) variances -/
theorem eStep_forms_agree (y vy zfit : List Rat) (s2 : Rat) (hs : s2 ≠ 0)
    (hv : ∀ v ∈ vy, v ≠ 0 ∧ v + s2 ≠ 0) : eStepPrec y vy zfit s2 = eStepMem y vy zfit s2 :=
  eStep_prec_eq_mem y vy zfit s2 hs hv

/-- hence one iteration of the C loop (from a finite state) is one `MixedEffectsModel._one_step` -/
theorem glmStep_eq_memStepX (X P : List (List Rat)) (y vy b : List Rat) (s2 : Rat) (hs : s2 ≠ 0)
    (hv : ∀ v ∈ vy, v ≠ 0 ∧ v + s2 ≠ 0) :
    glmStep X P (y.length : Rat) y vy (b, some s2) =
      ((memStepX X P y vy (b, s2)).1, some (memStepX X P y vy (b, s2)).2) := by
  simp only [glmStep, memStepX, eStep_prec_eq_mem y vy _ s2 hs hv]

/-- the variational-Bayes loop (`two_level_glm`) makes the same step up to the divisor: same
    effects, `(n - p) s2_VB = n s2_EM` -/
theorem vb_step_scale (X P : List (List Rat)) (d d' : Rat) (hd : d ≠ 0) (hd' : d' ≠ 0) (zv : List (Rat × Rat)) :
    (mStep X P d zv).1 = (mStep X P d' zv).1 ∧ d * (mStep X P d zv).2 = d' * (mStep X P d' zv).2 := by
  unfold mStep
  refine ⟨rfl, ?_⟩
  simp only
  field_simp

/-- the first iteration of the C / VB loops (infinite initial variance) is ordinary least squares
    on the data, `b = P y`, with `s2 = (Σ (y - X b)² + Σ vy)/d` -/
theorem glmStep_first (X P : List (List Rat)) (d : Rat) (y vy b : List Rat) (hl : y.length = vy.length) :
    (glmStep X P d y vy (b, none)).1 = matVec P y := by
  simp only [glmStep, mStep, eStepInf]
  congr 1
  induction y generalizing vy with
  | nil => simp
  | cons a t ih =>
      cases vy with
      | nil => simp at hl
      | cons v vs => simp only [List.zipWith_cons_cons, List.map_cons, ih vs (by simpa using hl)]

/-! ## The two-sample design -/

/-- `X b` for the two-sample design: `b0 + b1` in group 1, `b0` in group 2 -/
theorem tsX_apply (n1 n2 : Nat) (b0 b1 : Rat) :
    matVec (tsX n1 n2) [b0, b1] = List.replicate n1 (b0 + b1) ++ List.replicate n2 b0 := by
  unfold matVec tsX
  simp [dot]

/-- the unconstrained M step: `(mean of group 2, mean of group 1 - mean of group 2)` -/
theorem tsPX_apply (z1 z2 : List Rat) :
    matVec (tsPX z1.length z2.length) (z1 ++ z2) =
      [z2.sum / z2.length, z1.sum / z1.length - z2.sum / z2.length] := by
  unfold matVec tsPX
  simp only [List.map_cons, List.map_nil, dot_two_blocks]
  congr 1
  · ring
  · congr 1; ring

/-- the constrained (null) M step: the common mean, no group difference -/
theorem tsPPX_apply (z1 z2 : List Rat) :
    matVec (tsPPX z1.length z2.length) (z1 ++ z2) =
      [(z1.sum + z2.sum) / ((z1.length + z2.length : Nat) : Rat), 0] := by
  unfold matVec tsPPX
  have h : z1.length + z2.length = (z1 ++ z2).length := by simp
  simp only [List.map_cons, List.map_nil]
  rw [h, dot_replicate, dot_replicate, List.sum_append]
  congr 1
  · ring
  · congr 1; ring

/-- `PX` is a left inverse of `X` (so `PX = pinv(X)` restricted to the column space): fitting
    noiseless data `X b` returns `b` -/
theorem tsPX_left_inverse (n1 n2 : Nat) (h1 : 0 < n1) (h2 : 0 < n2) (b0 b1 : Rat) :
    matVec (tsPX n1 n2) (matVec (tsX n1 n2) [b0, b1]) = [b0, b1] := by
  rw [tsX_apply]
  have e := tsPX_apply (List.replicate n1 (b0 + b1)) (List.replicate n2 b0)
  simp only [List.length_replicate] at e
  rw [e]
  have s1 : (List.replicate n1 (b0 + b1)).sum = n1 * (b0 + b1) := by
    induction n1 with
    | zero => simp
    | succ n ih => simp [List.replicate_succ]; ring
  have s2 : (List.replicate n2 b0).sum = n2 * b0 := by
    induction n2 with
    | zero => simp
    | succ n ih => simp [List.replicate_succ]; ring
  have hn1 : ((n1 : Nat) : Rat) ≠ 0 := by exact_mod_cast (Nat.pos_iff_ne_zero.mp h1)
  have hn2 : ((n2 : Nat) : Rat) ≠ 0 := by exact_mod_cast (Nat.pos_iff_ne_zero.mp h2)
  rw [s1, s2]
  congr 1
  · field_simp
  · congr 1; field_simp; ring

/-- **group swap**: exchanging the two groups negates the estimated group difference `b[1]`
    (whose sign is the sign of the two-sample `student_mfx` statistic) -/
theorem ts_effect_swap (z1 z2 : List Rat) :
    (matVec (tsPX z2.length z1.length) (z2 ++ z1)).getD 1 0 =
      -(matVec (tsPX z1.length z2.length) (z1 ++ z2)).getD 1 0 := by
  rw [tsPX_apply, tsPX_apply]
  simp only [List.getD_cons_succ, List.getD_cons_zero]
  ring

/-! ## Non-vacuity -/

example : gmfxStep [1, 2, 4] [1, 1, 2] (2, 1) =
    (2 + 1 / 3 * scoreM [1, 2, 4] [1, 1, 2] 2 1,
     1 + 1 * 1 / 3 * scoreV [1, 2, 4] [1, 1, 2] 2 1 -
       (1 / 3 * scoreM [1, 2, 4] [1, 1, 2] 2 1) * (1 / 3 * scoreM [1, 2, 4] [1, 1, 2] 2 1)) := by
  have := gmfxStep_closed_form [1, 2, 4] [1, 1, 2] 2 1 (by simp) rfl (by
    intro s hs; simp at hs; rcases hs with rfl | rfl <;> norm_num)
  simpa using this
-- a genuine fixed point with non-zero first-level variances, and the score equations it satisfies
example : gmfxStep [0, 4] [1, 1] (2, 3) = (2, 3) := by decide +kernel
example : scoreM [0, 4] [1, 1] 2 3 = 0 ∧ scoreV [0, 4] [1, 1] 2 3 = 0 :=
  (gmfxStep_fixed_iff_score [0, 4] [1, 1] 2 3 (by simp) rfl (by
    intro s hs; simp at hs; subst hs; norm_num) (by norm_num)).mp (by decide +kernel)
example : eStepPrec [1, 2] [1, 2] [0, 1] 1 = eStepMem [1, 2] [1, 2] [0, 1] 1 := by decide +kernel
example : matVec (tsPX 2 3) [1, 3, 0, 3, 3] = [2, 0] := by decide +kernel
example : (tsStudentMfx [1, 3] [0, 1, -1] [2, 1] [1, 3, 1] 1).1 = 1 := by decide +kernel

end NipyVerif.C17
