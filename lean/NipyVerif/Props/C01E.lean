/-
C01 — property theorems, sixth module (wave 4): `equivalent_complete`, the block structure of
`CoordMapMaker.make_affine`, the shape rule of point batches, and the `CoordinateSystem` algebra.
-/
import NipyVerif.Lemmas.C01E

namespace NipyVerif.C01

/-! ## `equivalent` is complete on exact reorderings -/

/-- **equivalent_complete** (was oracle-only): a map and any exact reordering of it — input axes
    reordered by any accepted order `o1` (indices, names or the default reversal), then output axes by
    any accepted `o2` — are reported equivalent, for every matrix, every dtype and all dimensions
    ≥ 1 (with no axis at all `reordered_domain(m, [])` raises IndexError in the code, and in the model). -/
theorem equivalent_complete (A B1 B : Aff) (o1 o2 : Order) (hA : A.bottomExact)
    (hnd : A.dom.names.Nodup) (hnr : A.rng.names.Nodup) (hin : 0 < A.nin) (hout : 0 < A.nout)
    (h1 : reorderedDomain A o1 = .ok B1) (h2 : reorderedRange B1 o2 = .ok B) :
    equivalent A B = .ok true := by
  cases hcs1 : reorderCS A.dom o1 with
  | error e => unfold reorderedDomain at h1; rw [hcs1] at h1; cases h1
  | ok p1 =>
    obtain ⟨ord1, ncs1⟩ := p1
    have hp1 := reorderCS_perm hcs1
    obtain ⟨d1, d2, hB1, _⟩ := reorderedDomain_apply' A B1 o1 ord1 ncs1 hcs1 hp1 hA h1
    obtain ⟨n1, _, _⟩ := reorderCS_ok hcs1
    cases hcs2 : reorderCS B1.rng o2 with
    | error e => unfold reorderedRange at h2; rw [hcs2] at h2; cases h2
    | ok p2 =>
      obtain ⟨ord2, ncs2⟩ := p2
      have hp2 := reorderCS_perm hcs2
      obtain ⟨r1, r2, _, _⟩ := reorderedRange_apply' B1 B o2 ord2 ncs2 hcs2 hp2 hB1 h2
      obtain ⟨n2, _, _⟩ := reorderCS_ok hcs2
      -- the orders are found again from the names of `B`
      have e1 : reorderCS A.dom (.names B.dom.names) = reorderCS A.dom o1 := by
        rw [hcs1, r2, d1, ← n1]
        exact reorderCS_names hnd hin hcs1
      have hnr' : B1.rng.names.Nodup := by rw [d2]; exact hnr
      have hout' : 0 < B1.rng.names.length := by rw [d2]; exact hout
      have e2 : reorderCS B1.rng (.names B.rng.names) = reorderCS B1.rng o2 := by
        rw [hcs2, r1, ← n2]
        exact reorderCS_names hnr' hout' hcs2
      unfold equivalent
      rw [reorderedDomain_congr A _ _ e1, h1]
      simp only
      rw [reorderedRange_congr B1 _ _ e2, h2]
      simp only
      exact affEq_refl B

/-- a 2 → 2 map with a non-symmetric matrix (non-vacuity of the hypotheses above) -/
def exE : Aff := ⟨⟨["i", "j"], "d", .f8⟩, ⟨["x", "y"], "r", .f8⟩, [[1, 2, 3], [4, 5, 6], [0, 0, 1]]⟩

/-- Conversely, maps whose input names are not the same names (as a multiset: another name, a
    missing or an extra axis) are reported **not** equivalent — the refusal of the reordering inside
    `equivalent` is turned into `False`, for every pair of matrices. (The analogous statement for the
    output names needs the intermediate reordered map and is covered by correspondence.) -/
theorem equivalent_false_of_domain_names (A B : Aff) (hne : B.dom.names ≠ [])
    (hnp : ¬ B.dom.names.Perm A.dom.names) : equivalent A B = .ok false := by
  have h : reorderedDomain A (.names B.dom.names) = .error .valueError := by
    unfold reorderedDomain
    rw [reorderCS_names_refuses A.dom B.dom.names hne hnp]
  unfold equivalent
  rw [h]

example : equivalent exE ⟨⟨["i", "k"], "d", .f8⟩, ⟨["x", "y"], "r", .f8⟩, exE.aff⟩ = .ok false := by
  decide +kernel

example : exE.bottomExact := by unfold Aff.bottomExact; decide +kernel
example : (match reorderedDomain exE .rev with
    | .ok B1 => (match reorderedRange B1 (.ints [1, 0]) with
        | .ok B => B.aff == [[5, 4, 6], [2, 1, 3], [0, 0, 1]] && B.dom.names == ["j", "i"]
        | .error _ => false)
    | .error _ => false) = true := by decide +kernel

/-! ## `CoordMapMaker.make_affine`: block structure -/

/-- **Block structure of `make_affine`** (was "modelled and compared, no theorem"): with
    `append_zooms` given, the result acts as the original matrix on the first `shape[1]-1` coordinates
    and, independently, as the diagonal map `y ↦ zoom·y + offset` on the appended ones; its axis
    names are the makers' names for the total dimensions. `offs` is `append_offsets` (zeros when
    empty) after numpy assigned it into an array of the zooms' dtype. -/
theorem make_affine_blocks (dm rm : Maker) (m : Mat) (mdt zdt : DType) (zooms offsets : List Rat)
    (B : Aff) (h : makeAffine dm rm m mdt zooms offsets zdt = .ok B) (hz : zooms.length ≠ 0) :
    ∃ (c0 c1 : Aff) (m1 : Mat), c0.aff = m ∧ c1.aff = m1 ∧
      fromMatvec (diagMat zooms) zdt
        (if offsets.length = 0 then List.replicate zooms.length 0 else offsets) = .ok m1 ∧
      B.dom.names = c0.dom.names ++ c1.dom.names ∧ B.rng.names = c0.rng.names ++ c1.rng.names ∧
      ∀ x y, x.length = c0.nin → B.apply (x ++ y) = c0.apply x ++ c1.apply y :=
  makeAffine_blocks' h hz

/-! ## Point batches -/

/-- **Shape rule of `__call__`** (was oracle-only): an accepted batch of any number of axes whose
    last axis has the `nin` coordinates comes back with the same leading axes and `nout` as last
    axis; a scalar or 1-D point gives a 1-D result; everything else — wrong last axis, or a point
    dtype that cannot be cast safely — is a `CoordinateSystemError`, never a silently reshaped array.
    Together with `call_batch_from_source` (row `k` of the result is `apply` of row `k`) this is
    "a batch is evaluated row by row". -/
theorem call_shape_rule (nin nout : Nat) (csdt pdt : DType) (shape : List Nat) :
    (∀ out, callShape nin nout csdt pdt shape = .ok out →
        pdt.canCast csdt = true ∧
        (2 ≤ shape.length → shape.getLast? = some nin ∧ out = shape.dropLast ++ [nout]) ∧
        (shape.length ≤ 1 → out = [nout] ∧ (shape = [nin] ∨ (shape = [] ∧ nin = 1)))) ∧
    (∀ e, callShape nin nout csdt pdt shape = .error e → e = .coordSys) := by
  constructor
  · intro out h
    rcases shape with _ | ⟨a, _ | ⟨b, t⟩⟩ <;> simp only [callShape] at h <;> split_ifs at h <;>
      simp_all
  · intro e h
    simp only [callShape] at h
    split_ifs at h <;> first | (injection h with h; exact h.symm) | cases h

/-! ## `CoordinateSystem` as a small algebra -/

/-- `index` finds exactly the position of a coordinate name: `cs.index(cs.coord_names[i]) = i` for
    every `i` (names are distinct), and a name that is not a coordinate is a `ValueError`. -/
theorem cs_index_spec (cs : CoordSys) (hn : cs.names.Nodup) :
    (∀ i, i < cs.names.length → csIndex cs (cs.names.getD i "") = .ok i) ∧
    (∀ s, s ∉ cs.names → csIndex cs s = .error .valueError) ∧
    (∀ s i, csIndex cs s = .ok i → i < cs.names.length ∧ cs.names.getD i "" = s) := by
  refine ⟨fun i hi => ?_, fun s hs => ?_, fun s i h => ?_⟩
  · unfold csIndex
    rw [indexOf_getD hn hi]
  · unfold csIndex
    rw [indexOf_none hs]
  · unfold csIndex at h
    cases hix : indexOf? cs.names s with
    | none => rw [hix] at h; cases h
    | some k =>
        rw [hix] at h
        injection h with h
        subst h
        exact indexOf_some hix

/-- `==` and `similar_to` of coordinate systems are equivalence relations; `==` refines
    `similar_to`; equal systems have the same names (in order), the same `name`, and — unless they
    have no coordinate at all — the same dtype. -/
theorem cs_eq_equivalence (a b c : CoordSys) :
    csEq a a = true ∧ csSimilar a a = true ∧
    (csEq a b = true → csEq b a = true) ∧ (csSimilar a b = true → csSimilar b a = true) ∧
    (csEq a b = true → csEq b c = true → csEq a c = true) ∧
    (csSimilar a b = true → csSimilar b c = true → csSimilar a c = true) ∧
    (csEq a b = true → csSimilar a b = true ∧ a.name = b.name ∧ a.names = b.names ∧
      (a.names ≠ [] → a.dtype = b.dtype)) := by
  refine ⟨by simp [csEq, csSimilar], by simp [csSimilar], ?_, ?_, ?_, ?_, ?_⟩ <;>
    simp only [csEq, csSimilar, Bool.and_eq_true, Bool.or_eq_true, decide_eq_true_eq, List.isEmpty_iff]
  · rintro ⟨⟨h1, h2⟩, h3⟩
    exact ⟨⟨h1.symm, h2.imp (fun h => h1 ▸ h) Eq.symm⟩, h3.symm⟩
  · rintro ⟨h1, h2⟩
    exact ⟨h1.symm, h2.imp (fun h => h1 ▸ h) Eq.symm⟩
  · rintro ⟨⟨h1, h2⟩, h3⟩ ⟨⟨g1, g2⟩, g3⟩
    refine ⟨⟨h1.trans g1, ?_⟩, h3.trans g3⟩
    rcases h2 with h2 | h2
    · exact Or.inl h2
    · rcases g2 with g2 | g2
      · exact Or.inl (h1 ▸ g2)
      · exact Or.inr (h2.trans g2)
  · rintro ⟨h1, h2⟩ ⟨g1, g2⟩
    refine ⟨h1.trans g1, ?_⟩
    rcases h2 with h2 | h2
    · exact Or.inl h2
    · rcases g2 with g2 | g2
      · exact Or.inl (h1 ▸ g2)
      · exact Or.inr (h2.trans g2)
  · rintro ⟨⟨h1, h2⟩, h3⟩
    exact ⟨⟨h1, h2⟩, h3, h1, fun hne => h2.resolve_left hne⟩

/-- The composition gate of the model (structural equality of coordinate systems) is the
    code's `==` whenever there is at least one coordinate. -/
theorem cs_eq_is_structural (a b : CoordSys) (hne : a.names ≠ []) : csEq a b = true ↔ a = b := by
  simp only [csEq, csSimilar, Bool.and_eq_true, Bool.or_eq_true, decide_eq_true_eq, List.isEmpty_iff]
  constructor
  · rintro ⟨⟨h1, h2⟩, h3⟩
    cases a; cases b
    simp only at h1 h2 h3 hne
    simp [h1, h3, h2.resolve_left hne]
  · rintro rfl
    simp

/-- `product(*coord_systems)`: names are concatenated in order, the dtype is `safe_dtype` of the
    factors' dtypes (an upper bound of each in the casting order), a repeated name or a
    non-numeric dtype is refused (`ValueError` / `TypeError`), any unknown keyword is a `TypeError`. -/
theorem cs_product_spec (l : List CoordSys) (name : Option String) (kw : Bool) :
    (∀ p, csProduct l name kw = .ok p →
      kw = false ∧ p.names = l.flatMap (fun c => c.names) ∧ p.names.Nodup ∧
      p.name = name.getD "product" ∧ p.dtype = joinAll (l.map fun c => c.dtype) ∧
      ∀ c ∈ l, c.dtype ≠ .txt) ∧
    (kw = true → csProduct l name kw = .error .typeError) ∧
    (kw = false → (∃ c ∈ l, c.dtype = .txt) → csProduct l name kw = .error .typeError) := by
  refine ⟨fun p h => ?_, fun hk => by simp [csProduct, hk], fun hk ⟨c, hc, ht⟩ => ?_⟩
  · unfold csProduct at h
    split_ifs at h with hk
    unfold safeDType at h
    split_ifs at h with ht
    simp only at h
    obtain ⟨rfl, hnd⟩ := mkCS_ok h
    simp only [Bool.not_eq_true] at hk
    refine ⟨hk, rfl, hnd, rfl, rfl, fun c hc hct => ?_⟩
    apply ht
    simp only [List.any_map, List.any_eq_true, Function.comp]
    exact ⟨c, hc, by simp [hct]⟩
  · unfold csProduct safeDType
    have : (l.map fun c => c.dtype).any (fun d => d == .txt) = true := by
      simp only [List.any_map, List.any_eq_true, Function.comp]
      exact ⟨c, hc, by simp [ht]⟩
    simp [hk, this]

/-- `CoordinateSystem(names, name, dtype)` accepts exactly distinct names with a numeric or object
    dtype and stores what it was given; `CoordSysMaker(names…)(N)` is the system of the first `N`
    names, refused (`CoordSysMakerError`) when `N` exceeds the names on offer. -/
theorem cs_new_spec (names : List String) (name : String) (dt : DType) (mk : Maker) (n : Nat) :
    (∀ c, mkCS names name dt = .ok c → c = ⟨names, name, dt⟩ ∧ names.Nodup) ∧
    (¬ names.Nodup → ∃ e, mkCS names name dt = .error e) ∧
    (∀ c, mk.call (n : Int) none none = .ok c →
      n ≤ mk.names.length ∧ c.names = mk.names.take n ∧ c.name = mk.name ∧ c.dtype = mk.dtype) ∧
    (mk.names.length < n → mk.call (n : Int) none none = .error .csMaker) := by
  refine ⟨fun c h => mkCS_ok h, fun hn => ?_, fun c h => ?_, fun hlt => ?_⟩
  · unfold mkCS
    rw [if_pos hn]
    exact ⟨_, rfl⟩
  · unfold Maker.call at h
    split_ifs at h with h1
    obtain ⟨rfl, _⟩ := mkCS_ok h
    have : (0 : Int) ≤ (n : Int) := Int.natCast_nonneg n
    refine ⟨by omega, ?_⟩
    simp [pyPrefix]
  · unfold Maker.call
    have : (mk.names.length : Int) < (n : Int) := by exact_mod_cast hlt
    simp [this]

example : csEq ⟨["i"], "a", .f8⟩ ⟨["i"], "a", .f8⟩ = true ∧ csEq ⟨[], "a", .f8⟩ ⟨[], "a", .i8⟩ = true ∧
    csEq ⟨["i"], "a", .f8⟩ ⟨["i"], "b", .f8⟩ = false ∧ csSimilar ⟨["i"], "a", .f8⟩ ⟨["i"], "b", .f8⟩ = true := by
  decide
example : callShape 3 2 .f8 .i8 [4, 5, 3] = .ok [4, 5, 2] ∧ callShape 3 2 .f8 .i8 [3] = .ok [2] ∧
    callShape 3 2 .f8 .i8 [0, 3] = .ok [0, 2] ∧ callShape 3 2 .f8 .i8 [4, 2] = .error .coordSys ∧
    callShape 3 2 .i8 .f8 [4, 3] = .error .coordSys := by decide
example : (match makeAffine ⟨["i", "j", "k"], "a", .f8⟩ ⟨["x", "y", "z"], "w", .f8⟩
      [[2, 0, 1], [0, 3, 1], [0, 0, 1]] .f8 [5] [7] .f8 with
    | .ok B => B.aff == [[2, 0, 0, 1], [0, 3, 0, 1], [0, 0, 5, 7], [0, 0, 0, 1]] | .error _ => false) = true := by
  decide +kernel

end NipyVerif.C01
