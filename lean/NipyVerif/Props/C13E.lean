/-
C13 — the update / membership / BIC expressions of `gmm.py`, `bgmm.py` and `ggmixture.py` *as the source
states them now* (`Gen/C13Expr.lean`, regenerated from /repo's text by `harness/props/c13_expr.py` before
every build: function bodies executed symbolically, statement by statement, for a generic element) are
the definitions of the model the other C13 theorems are about (`*_from_source`).  An edit of one of these
source expressions changes the generated term; the theorem about it then no longer builds and the check
reports the tie as broken.

On top of that, properties read off the *generated* terms directly: the membership rows of `pop` /
`_Mstep` sum to one, the fitted weights sum to one, the diagonal precision is the inverse of the fitted
covariance, the right-hand side of the gamma shape equation does not depend on the scale of the memberships.
-/
import NipyVerif.Lemmas.C13K
import NipyVerif.Gen.C13Expr

namespace NipyVerif.C13
open NipyVerif.Gen.C13

/-! ### `GMM.pop`, head of `GMM._Mstep` -/

/-- `GMM.pop`: one entry of `nl` is the model's regularised membership -/
theorem pop_membership_from_source (tiny : Rat) (K : Nat) (like : Nat → Nat → Rat) (i k : Nat) :
    popNl (like i k) tiny K (sumTo K (like i)) = resp tiny K like i k := rfl

/-- the denominator of `nl` is `sl` -/
theorem pop_nl_uses_sl (l tiny : Rat) (K : Nat) (rowsum : Rat) :
    popNl l tiny K rowsum = (l + tiny / K) / popSl rowsum tiny := rfl

/-- `_Mstep` normalises the likelihood exactly as `pop` does (same expression in both bodies) -/
theorem mstep_membership_from_source (tiny : Rat) (K : Nat) (like : Nat → Nat → Rat) (i k : Nat) :
    mstepNl (like i k) tiny K (sumTo K (like i)) = resp tiny K like i k := rfl

/-- `tiny` of `_Mstep` is the default `tiny` of `pop` (the populations and the memberships of one M-step
    are computed with the same regulariser) -/
theorem mstep_tiny_is_pop_tiny : mstepTiny = popTiny := rfl

/-- **rows of the memberships as the source computes them sum to one**, for every row whose regularised
    sum is not zero (in particular every non-negative row with `tiny > 0`) -/
theorem source_membership_row_sums_to_one (tiny : Rat) (K : Nat) (hK : 0 < K) (row : Nat → Rat)
    (h : sumTo K row + tiny ≠ 0) :
    sumTo K (fun k => popNl (row k) tiny K (sumTo K row)) = 1 := by
  have hK' : (K : Rat) ≠ 0 := by exact_mod_cast (Nat.pos_iff_ne_zero.1 hK)
  unfold popNl
  rw [sumTo_div K (sumTo K row + tiny) (fun k => row k + tiny / K), sumTo_add, sumTo_const]
  rw [mul_div_cancel₀ _ hK']
  exact div_self h

example : sumTo 2 (fun k => popNl ((fun _ => (0 : Rat)) k) (1 / 10) 2 (sumTo 2 (fun _ => (0 : Rat)))) = 1 :=
  source_membership_row_sums_to_one (1 / 10) 2 (by decide) _ (by simp [sumTo])

/-! ### `GMM._Mstep`: weights, means, covariances -/

/-- `weights = (prior_weights + pop) / Σ` with the uniform prior of `guess_regularizing` -/
theorem mstep_weight_from_source (K : Nat) (pops : Nat → Rat) (k : Nat) :
    mstepW1 (mstepW0 (1 / (K : Rat)) (pops k)) (sumTo K (fun k' => mstepW0 (1 / (K : Rat)) (pops k')))
      = mstepWeight K pops k := rfl

/-- **the fitted weights as the source computes them sum to one** whenever their total is not zero -/
theorem source_weights_sum_to_one (K : Nat) (pw : Rat) (pops : Nat → Rat)
    (h : sumTo K (fun k => mstepW0 pw (pops k)) ≠ 0) :
    sumTo K (fun k => mstepW1 (mstepW0 pw (pops k)) (sumTo K (fun k' => mstepW0 pw (pops k')))) = 1 := by
  unfold mstepW1
  rw [sumTo_div K _ (fun k => mstepW0 pw (pops k))]
  exact div_self h

theorem mstep_shrinkage_from_source (n : Nat) (r : Nat → Rat) (ps : Rat) :
    mstepShrinkS n r ps = pop n r + ps := rfl

theorem mstep_mean_from_source (n : Nat) (r : Nat → Rat) (x : Nat → Nat → Rat) (pm : Nat → Rat) (ps : Rat)
    (j : Nat) : mstepMeanS n r x pm ps j = mstepMean n r x pm ps j := rfl

theorem mstep_empmean_from_source (tiny : Rat) (n : Nat) (r : Nat → Rat) (x : Nat → Nat → Rat) (j : Nat) :
    empMeanS tiny n r x j = empMean tiny n r x j := rfl

/-- full precisions: the matrix handed to the final `pinv` is the model's fitted covariance -/
theorem mstep_cov_full_from_source (tiny : Rat) (n d : Nat) (r : Nat → Rat) (x : Nat → Nat → Rat)
    (pm ips : Nat → Rat) (ps pdof : Rat) (j l : Nat) :
    mstepCovFullS tiny n d r x pm ips ps pdof j l = mstepCovFull tiny n d r x pm ips ps pdof j l := rfl

/-- diagonal precisions: the source inverts the prior scale entry by entry (`1.0 / prior_scale[k]`) -/
theorem mstep_cov_diag_from_source (tiny : Rat) (n d : Nat) (r : Nat → Rat) (x : Nat → Nat → Rat)
    (pm pscale : Nat → Rat) (ps pdof : Rat) (j : Nat) :
    mstepCovDiagS tiny n d r x pm pscale ps pdof j
      = mstepCovDiag tiny n d r x pm (fun j => 1 / pscale j) ps pdof j := rfl

/-- the diagonal of the full-precision covariance is the diagonal-precision covariance (same prior):
    both branches of `_Mstep` as written fit the same per-axis variances -/
theorem source_cov_full_diagonal_is_cov_diag (tiny : Rat) (n d : Nat) (r : Nat → Rat) (x : Nat → Nat → Rat)
    (pm pscale : Nat → Rat) (ps pdof : Rat) (j : Nat) :
    mstepCovFullS tiny n d r x pm (fun j => 1 / pscale j) ps pdof j j
      = mstepCovDiagS tiny n d r x pm pscale ps pdof j := by
  unfold mstepCovFullS mstepCovDiagS
  rw [if_pos rfl]
  congr 2
  · congr 1
    apply sumTo_congr
    intro i _
    ring
  · ring

/-- the stored diagonal precision is the inverse of the fitted covariance -/
theorem source_diag_precision_inverts_covariance (c : Rat) (hc : c ≠ 0) : mstepPrecDiagS c * c = 1 := by
  unfold mstepPrecDiagS
  field_simp

/-! ### `GMM.guess_regularizing` -/

theorem greg_var_from_source (n : Nat) (x : Nat → Nat → Rat) (j : Nat) : gregVarS n x j = dataVar n x j := by
  unfold gregVarS dataVar
  congr 1
  apply sumTo_congr
  intro i _
  ring

/-- `prior_scale` (both precision types): `(1 / vx_jj) · exp(2/d · log k)`; the model's parameter `c` is
    that exponential -/
theorem greg_scale_from_source (fexp flog : Rat → Rat) (n d K : Nat) (x : Nat → Nat → Rat) (j : Nat) :
    gregScaleDiagS fexp flog n d K x j = priorScale (fexp ((2 : Rat) / d * flog K)) n x j ∧
    gregScaleFullS fexp flog n d K x j = priorScale (fexp ((2 : Rat) / d * flog K)) n x j := by
  have h := greg_var_from_source n x j
  unfold gregVarS at h
  constructor
  · unfold gregScaleDiagS priorScale; rw [h]
  · unfold gregScaleFullS priorScale; rw [h]

/-- `prior_dof = dim + 2`, `prior_shrinkage = 0.01` (the values the model's `mstep` line is run with) -/
theorem greg_constants_from_source (d : Nat) : gregDofS d = (d : Rat) + 2 ∧ gregShrinkS = 1 / 100 :=
  ⟨rfl, rfl⟩

/-! ### `GMM.bic` -/

theorem bic_eta_from_source (k d : Nat) :
    bicEtaFullS k d = bicEta true k d ∧ bicEtaDiagS k d = bicEta false k d := ⟨rfl, rfl⟩

theorem bic_from_source (k d : Nat) (L logn : Rat) :
    bicFullS k d L logn = bicVal true k d L logn ∧ bicDiagS k d L logn = bicVal false k d L logn := ⟨rfl, rfl⟩

/-- the row sums enter the BIC clamped from below by `tiny` -/
theorem bic_clamp_from_source (rowsum tiny : Rat) : bicSlS rowsum tiny = max rowsum tiny := rfl

/-- a full-precision model of the same size never has fewer parameters than the diagonal one:
    `eta_full − eta_diag = k·(d − 1)²/2` -/
theorem source_bic_eta_full_ge_diag (k d : Nat) : bicEtaDiagS k d ≤ bicEtaFullS k d := by
  have h : bicEtaFullS k d - bicEtaDiagS k d = (k : Rat) * ((d : Rat) - 1) ^ 2 / 2 := by
    unfold bicEtaFullS bicEtaDiagS; ring
  have : (0 : Rat) ≤ (k : Rat) * ((d : Rat) - 1) ^ 2 / 2 := by positivity
  linarith

/-! ### `BGMM.update_weights`, `update_means`, `update_precisions` (Gibbs step, hard labelling) -/

theorem bgmm_weight_from_source (n : Nat) (r : Nat → Rat) (pw : Rat) : bgWeightS n r pw = conjWeight n r pw := rfl

theorem bgmm_shrinkage_from_source (n : Nat) (r : Nat → Rat) (ps : Rat) : bgShrinkS n r ps = conjShrink n r ps := rfl

theorem bgmm_dof_from_source (n : Nat) (r : Nat → Rat) (pdof : Rat) : bgDofS n r pdof = conjDof true n r pdof := rfl

/-- `rpop = pop + (pop == 0)` is the model's `rpopHard` -/
theorem bgmm_rpop_from_source (n : Nat) (r : Nat → Rat) : bgRpopS n r = rpopHard (pop n r) := by
  unfold bgRpopS rpopHard
  by_cases h : pop n r = 0 <;> simp [h]

theorem bgmm_empmean_from_source (n : Nat) (r : Nat → Rat) (x : Nat → Nat → Rat) (j : Nat) :
    bgEmpMeanS n r x j = empMeanR (rpopHard (pop n r)) n r x j := by
  have h := bgmm_rpop_from_source n r
  unfold bgRpopS at h
  unfold bgEmpMeanS empMeanR
  rw [h]

/-- mean of the conditional posterior of a component mean: `(Σ_{z=k} x + prior_means·prior_shrinkage) /
    (prior_shrinkage + pop)` — the regularised M-step mean of `GMM._Mstep` on the 0/1 memberships -/
theorem bgmm_mean_from_source (n : Nat) (r : Nat → Rat) (x : Nat → Nat → Rat) (pm : Nat → Rat) (ps : Rat)
    (j : Nat) : bgMeanS n r x pm ps j = mstepMean n r x pm ps j := by
  unfold bgMeanS mstepMean
  rw [add_comm ps]

/-- the matrix handed to `inv` in `update_precisions` is the model's `conjCov` -/
theorem bgmm_cov_from_source (n : Nat) (r : Nat → Rat) (x : Nat → Nat → Rat) (pm : Nat → Rat)
    (ips : Nat → Nat → Rat) (ps : Rat) (j l : Nat) :
    bgCovS n r x pm ips ps j l = conjCov (rpopHard (pop n r)) n r x pm ips ps j l := by
  have h := bgmm_rpop_from_source n r
  unfold bgRpopS at h
  unfold bgCovS conjCov scatterR empMeanR apms
  rw [h, add_comm ps (pop n r)]
  congr 2
  apply sumTo_congr
  intro i _
  ring

/-- the bias term vanishes for an empty class (`pop = 0`), whatever `rpop` is -/
theorem source_bgmm_addcov_empty_class (n : Nat) (r : Nat → Rat) (x : Nat → Nat → Rat) (pm : Nat → Rat)
    (ps : Rat) (j l : Nat) (h : pop n r = 0) : bgAddcovS n r x pm ps j l = 0 := by
  unfold bgAddcovS
  rw [h]
  simp

/-! ### `normal_eval`, `dirichlet_eval`, `dkl_gaussian`, `IMM.update_weights` -/

theorem normal_eval_from_source (d : Nat) (log2pi logdet : Rat) (b : Nat → Nat → Rat) (m x : Nat → Rat) :
    normalEvalLogS d log2pi logdet b m x = logLikeN d log2pi logdet b m x := rfl

theorem dirichlet_eval_from_source (K : Nat) (alpha lw : Nat → Rat) (logb : Rat) :
    dirichletLogS K alpha lw logb = dirichletLog K alpha lw logb := rfl

theorem dkl_gaussian_from_source (d : Nat) (ld1 ld2 : Rat) (P2 Q1 : Nat → Nat → Rat) (m1 m2 : Nat → Rat) :
    dklGaussianS d ld1 ld2 P2 Q1 m1 m2 = dklGaussian d ld1 ld2 P2 Q1 m1 m2 := rfl

/-- `IMM.update_weights`: `hstack((pop, 0)) + alpha`, normalised over the `K + 1` classes -/
theorem imm_weight_from_source (K : Nat) (alpha : Rat) (pops : Nat → Rat) (k : Nat) :
    immW0S K alpha pops k / sumTo (K + 1) (fun k' => immW0S K alpha pops k') = immWeight K alpha pops k := rfl

/-- the uniform Dirichlet density (`alpha = 1`) has exponent `−logb` whatever the weights are -/
theorem source_dirichlet_uniform (K : Nat) (lw : Nat → Rat) (logb : Rat) :
    dirichletLogS K (fun _ => 1) lw logb = -logb := by
  unfold dirichletLogS
  have : sumTo K (fun k => (((fun _ => (1 : Rat)) k) - 1) * lw k) = 0 := by
    rw [sumTo_congr (g := fun _ => (0 : Rat)) (fun i _ => by simp), sumTo_const]; simp
  rw [this]; ring

/-! ### `GGM.Mstep`, `GGGM.Mstep`, `_compute_c` -/

theorem ggm_mstep_from_source (tiny : Rat) (n : Nat) (x z : Nat → Rat) :
    ggmSzS tiny n z = ggSz tiny n z ∧ ggmMeanS tiny n x z = ggMean tiny n x z ∧
    ggmVarS tiny n x z = ggVar tiny n x z ∧ ggmMixtS tiny n z = ggmMixt tiny n z := ⟨rfl, rfl, rfl, rfl⟩

/-- `GGGM.Mstep` writes the clamp with its arguments in the other order -/
theorem gggm_mstep_from_source (tiny : Rat) (n : Nat) (x z : Nat → Rat) :
    gggmSzS tiny n z = ggSz tiny n z ∧ gggmMeanS tiny n x z = ggMean tiny n x z ∧
    gggmVarS tiny n x z = ggVar tiny n x z := by
  refine ⟨?_, ?_, ?_⟩
  · unfold gggmSzS ggSz; exact max_comm _ _
  · unfold gggmMeanS ggMean ggSz; rw [max_comm]
  · unfold gggmVarS ggVar ggMean ggSz; rw [max_comm]

theorem gggm_mixt_from_source (tiny : Rat) (n : Nat) (z : Nat → Nat → Rat) (c : Nat) :
    gggmMixtS (gggmSzS tiny n (fun i => z i c)) (sumTo 3 (fun c' => gggmSzS tiny n (fun i => z i c')))
      = gggmMixt tiny n z c := by
  unfold gggmMixtS gggmMixt gggmSzS ggSz
  simp only [max_comm]

/-- **the three mixing proportions of `GGGM.Mstep` as written sum to one** (`tiny > 0`) -/
theorem source_gggm_mixt_sums_to_one (tiny : Rat) (ht : 0 < tiny) (n : Nat) (z : Nat → Nat → Rat) :
    sumTo 3 (fun c => gggmMixtS (gggmSzS tiny n (fun i => z i c))
      (sumTo 3 (fun c' => gggmSzS tiny n (fun i => z i c')))) = 1 := by
  unfold gggmMixtS
  rw [sumTo_div 3 _ (fun c => gggmSzS tiny n (fun i => z i c))]
  apply div_self
  have hpos : ∀ c, 0 < gggmSzS tiny n (fun i => z i c) := fun c => lt_of_lt_of_le ht (le_max_right _ _)
  have : 0 < sumTo 3 (fun c' => gggmSzS tiny n (fun i => z i c')) := by
    simp only [sumTo]
    have h0 := hpos 0; have h1 := hpos 1; have h2 := hpos 2
    linarith
  exact ne_of_gt this

/-- the right-hand side `y` of the gamma shape equation `psi(c) − log(c) = y` does not depend on the
    scale of the memberships: `z ↦ a·z` leaves it unchanged (whatever `np.log` returns) -/
theorem source_gamma_shape_rhs_membership_scale_invariant (flog : Rat → Rat) (a sz szlogx szx : Rat)
    (ha : a ≠ 0) :
    gamYS flog (a * sz) (a * szlogx) (a * szx) = gamYS flog sz szlogx szx := by
  unfold gamYS
  rw [mul_div_mul_left _ _ ha, mul_div_mul_left _ _ ha]

end NipyVerif.C13
