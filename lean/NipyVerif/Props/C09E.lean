/-
C09 — structural theorems about the logarithmic similarity measures (mutual information, normalised
mutual information, supervised likelihood ratio) that hold for *every* function `log`
(`NipyVerif.Model.C09`, `C09Sim`; the `TINY` clamps are as in the source).
-/
import NipyVerif.Lemmas.C09S
import Mathlib.NumberTheory.Padics.PadicVal.Basic

namespace NipyVerif.C09

/-! ## Relabelling the source intensities (permuting histogram rows) -/

/-- mutual information does not depend on how the bins of the source image are labelled: any
    permutation of the rows of the histogram leaves it unchanged -/
theorem mi_row_perm (log : Rat → Rat) (w : Nat) (H H' : List (List Rat)) (h : H.Perm H')
    (hw : ∀ row ∈ H, row.length = w) : mi log H' = mi log H := by
  rw [mi_rep, mi_rep, ← total_perm h,
    ← colSums_perm w (normalise_perm h) (normalise_width w H hw)]
  congr 1
  exact ((h.map _).sum_eq).symm

/-- the same for normalised mutual information -/
theorem nmi_row_perm (log : Rat → Rat) (w : Nat) (H H' : List (List Rat)) (h : H.Perm H')
    (hw : ∀ row ∈ H, row.length = w) : nmi log H' = nmi log H := by
  unfold nmi
  simp only
  have hp := normalise_perm h
  rw [← colSums_perm w hp (normalise_width w H hw),
    entropy_perm log (List.Perm.flatten_congr hp).symm]
  · have : (rowSums (normalise H)).Perm (rowSums (normalise H')) := hp.map _
    rw [entropy_perm log this]
  where
  List.Perm.flatten_congr {l l' : List (List Rat)} (h : l.Perm l') : l.flatten.Perm l'.flatten := by
    induction h with
    | nil => exact List.Perm.refl _
    | cons a _ ih => simpa using ih.append_left a
    | swap a b l => simp only [List.flatten_cons, ← List.append_assoc]; exact (List.perm_append_comm).append_right _
    | trans _ _ ih1 ih2 => exact ih1.trans ih2

/-! ## Only the normalised histogram matters -/

/-- multiplying all counts by a positive constant (more samples with the same proportions) does not
    change mutual information, as long as the totals stay clear of the `TINY` clamp -/
theorem mi_scale_invariant (log : Rat → Rat) (c : Rat) (hc : 0 < c) (H : List (List Rat))
    (hn : tiny ≤ total H) (hcn : tiny ≤ c * total H) : mi log (scaleH c H) = mi log H := by
  rw [mi_rep, mi_rep, normalise_scale c hc H hn hcn, total_scale, nonzero_of_le hn, nonzero_of_le hcn]
  unfold scaleH
  rw [List.map_map]
  have : (miRow log (c * total H) (colSums (normalise H)).toArray ∘ fun (r : List Rat) => r.map (c * ·))
      = fun r => c * miRow log (total H) (colSums (normalise H)).toArray r := by
    funext r
    exact miRow_scale log c (total H) hc.ne' _ r
  rw [this]
  have hs : ∀ (l : List (List Rat)) (g : List Rat → Rat), (l.map (fun r => c * g r)).sum = c * (l.map g).sum := by
    intro l g
    induction l with
    | nil => simp
    | cons a r ih => simp [ih, mul_add]
  rw [hs]
  have hn0 : total H ≠ 0 := by have := tiny_pos; intro h0; rw [h0] at hn; linarith
  field_simp

/-- normalised mutual information is a function of the normalised histogram only -/
theorem nmi_depends_on_normalised (log : Rat → Rat) (H H' : List (List Rat))
    (h : normalise H' = normalise H) : nmi log H' = nmi log H := by
  unfold nmi
  rw [h]

theorem nmi_scale_invariant (log : Rat → Rat) (c : Rat) (hc : 0 < c) (H : List (List Rat))
    (hn : tiny ≤ total H) (hcn : tiny ≤ c * total H) : nmi log (scaleH c H) = nmi log H :=
  nmi_depends_on_normalised log _ _ (normalise_scale c hc H hn hcn)

/-! ## Supervised likelihood ratio -/

/-- SLR is the histogram-weighted mean of a log-likelihood-ratio table that depends on the model
    distribution `q` only: `Σ h·llr / n` with `llr = log(nonzero(q / nonzero(qI) / nonzero(qJ)))` -/
theorem slr_is_weighted_llr (log : Rat → Rat) (H q : List (List Rat)) :
    slr log H q =
      (List.zipWith (fun hr lr => dot hr lr) H ((lossArgs q).map (fun r => r.map log))).sum
        / nonzero (total H) := by
  unfold slr logMeasure
  congr 1
  rw [List.zipWith_map_right]
  congr 1
  apply congrArg (fun f => List.zipWith f H (lossArgs q))
  funext hr ar
  unfold dot
  rw [List.zipWith_map_right]

/-- hence, for a fixed model, the un-normalised SLR is additive in the histogram: the measure of
    the sum of two histograms of the same shape is the sum of the un-normalised measures -/
theorem dot_add (a b l : List Rat) (h : a.length = b.length) :
    dot (List.zipWith (· + ·) a b) l = dot a l + dot b l := by
  unfold dot
  induction a generalizing b l with
  | nil => cases b <;> simp at h ⊢
  | cons x xs ih =>
      cases b with
      | nil => simp at h
      | cons y ys =>
          cases l with
          | nil => simp
          | cons z zs =>
              simp only [List.zipWith_cons_cons, List.sum_cons]
              rw [ih ys zs (by simpa using h)]
              ring


/-! ## Mutual information is `H(I) + H(J) − H(I,J)` -/

/-- **MI = H(I) + H(J) − H(I,J)** for every additive `log`, whenever no `TINY` clamp is active on
    a non-empty cell (every non-empty cell, its two marginals and the likelihood ratio are at
    least `TINY`) — the two forms of mutual information in the docstrings are the same number -/
theorem mi_eq_entropy_identity (log : Rat → Rat) (hadd : Additive log) (w : Nat) (H : List (List Rat))
    (hw : ∀ row ∈ H, row.length = w) (hn : tiny ≤ total H)
    (hok : ∀ row ∈ normalise H, ∀ p ∈ row.zipIdx, p.1 = 0 ∨
      (tiny ≤ p.1 ∧ tiny ≤ (colSums (normalise H)).toArray.getD p.2 0 ∧ tiny ≤ row.sum ∧
        tiny ≤ p.1 / (colSums (normalise H)).toArray.getD p.2 0 / row.sum)) :
    mi log H = entropy log (colSums (normalise H)) + entropy log (rowSums (normalise H))
      - entropy log (normalise H).flatten := by
  have hn0 : total H ≠ 0 := by have := tiny_pos; intro h0; rw [h0] at hn; linarith
  set QI := (colSums (normalise H)).toArray with hQI
  -- each row
  have hrow : ∀ row ∈ H, miRow log (total H) QI row / total H =
      ((row.map (· / total H)).map (fun x => x * log (nonzero x))).sum
        - isum (fun c => log (nonzero (QI.getD c 0))) 0 (row.map (· / total H))
        - (row.map (· / total H)).sum * log (nonzero (row.map (· / total H)).sum) := by
    intro row hr
    unfold miRow
    rw [zipWith_div_left log (total H) hn0]
    have hmem : row.map (· / total H) ∈ normalise H := by
      unfold normalise
      rw [nonzero_of_le hn]
      exact List.mem_map.mpr ⟨row, hr, rfl⟩
    exact row_split log hadd QI _ _ 0 (hok _ hmem)
  rw [mi_rep, nonzero_of_le hn]
  -- distribute the division over the rows
  have hdiv : ∀ (l : List (List Rat)),
      (l.map (miRow log (total H) QI)).sum / total H = (l.map (fun r => miRow log (total H) QI r / total H)).sum := by
    intro l
    induction l with
    | nil => simp
    | cons a r ih => simp [add_div, ih]
  rw [hdiv, List.map_congr_left hrow]
  -- the three sums
  have hP : normalise H = H.map (fun r => r.map (· / total H)) := by
    unfold normalise; rw [nonzero_of_le hn]
  have hsum3 : ∀ (l : List (List Rat)) (a b c : List Rat → Rat),
      (l.map (fun r => a r - b r - c r)).sum = (l.map a).sum - (l.map b).sum - (l.map c).sum := by
    intro l a b c
    induction l with
    | nil => simp
    | cons x xs ih => simp only [List.map_cons, List.sum_cons, ih]; ring
  rw [hsum3]
  -- joint entropy
  have hj : entropy log (normalise H).flatten =
      - (H.map (fun r => ((r.map (· / total H)).map (fun x => x * log (nonzero x))).sum)).sum := by
    unfold entropy
    rw [sum_flatten_map, hP, List.map_map]
    rfl
  -- row entropy
  have hr : entropy log (rowSums (normalise H)) =
      - (H.map (fun r => (r.map (· / total H)).sum * log (nonzero (r.map (· / total H)).sum))).sum := by
    unfold entropy rowSums
    rw [hP, List.map_map, List.map_map]
    rfl
  -- column entropy
  have hc : entropy log (colSums (normalise H)) =
      - (H.map (fun r => isum (fun c => log (nonzero (QI.getD c 0))) 0 (r.map (· / total H)))).sum := by
    have h1 := isum_colSums (fun c => log (nonzero (QI.getD c 0))) w (normalise H) (normalise_width w H hw)
    have h2 := isum_self_getD (fun x => log (nonzero x)) [] (colSums (normalise H))
    simp only [List.nil_append, List.length_nil] at h2
    unfold entropy
    rw [← h2, ← hQI, h1]
    unfold sumI
    rw [hP, List.map_map]
    rfl
  rw [hj, hr, hc]
  ring

/-- the docstring of `NormalizedMutualInformation`: `2*(1 − H(I,J)/[H(I)+H(J)]) = 2*MI/[H(I)+H(J)]`,
    under the same conditions and when the sum of the marginal entropies is clear of the clamp -/
theorem nmi_eq_two_mi_over_entropies (log : Rat → Rat) (hadd : Additive log) (w : Nat) (H : List (List Rat))
    (hw : ∀ row ∈ H, row.length = w) (hn : tiny ≤ total H)
    (hok : ∀ row ∈ normalise H, ∀ p ∈ row.zipIdx, p.1 = 0 ∨
      (tiny ≤ p.1 ∧ tiny ≤ (colSums (normalise H)).toArray.getD p.2 0 ∧ tiny ≤ row.sum ∧
        tiny ≤ p.1 / (colSums (normalise H)).toArray.getD p.2 0 / row.sum))
    (he : tiny ≤ entropy log (colSums (normalise H)) + entropy log (rowSums (normalise H))) :
    nmi log H = 2 * mi log H /
      (entropy log (colSums (normalise H)) + entropy log (rowSums (normalise H))) := by
  rw [mi_eq_entropy_identity log hadd w H hw hn hok]
  unfold nmi
  simp only
  rw [nonzero_of_le he]
  have : entropy log (colSums (normalise H)) + entropy log (rowSums (normalise H)) ≠ 0 := by
    have := tiny_pos; intro h0; rw [h0] at he; linarith
  field_simp

/-- the hypotheses are satisfiable: the zero function is additive, and so is any function that is
    additive on positives (a concrete histogram meets the clamp conditions) -/
example : Additive (fun _ => 0) := fun _ _ _ _ => by simp
/-- a non-constant additive function on the rationals: the 2-adic valuation -/
example : Additive (fun x => ((padicValRat 2 x : Int) : Rat)) := fun a b ha hb => by
  have : Fact (Nat.Prime 2) := ⟨Nat.prime_two⟩
  simp only
  rw [padicValRat.mul ha.ne' hb.ne']
  push_cast
  rfl
example : ∀ row ∈ normalise [[2, 1], [1, 2]], ∀ p ∈ row.zipIdx, p.1 = 0 ∨
    (tiny ≤ p.1 ∧ tiny ≤ (colSums (normalise [[2, 1], [1, 2]])).toArray.getD p.2 0 ∧ tiny ≤ row.sum ∧
      tiny ≤ p.1 / (colSums (normalise [[2, 1], [1, 2]])).toArray.getD p.2 0 / row.sum) := by
  decide +kernel

example : mi (fun x => x - 1) [[2, 1], [1, 2]] = mi (fun x => x - 1) [[1, 2], [2, 1]] := by decide +kernel

end NipyVerif.C09
