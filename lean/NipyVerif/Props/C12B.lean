/-
C12 (part B) — property theorems about operation histories on one `Forest` object:
"parent/children/descendant/leaf/root queries are mutually consistent" in EVERY state
an object can reach, because every method answers for the *current* parent array
(the derived `edges` and the `children` cache stay coherent with `parents`).
-/
import NipyVerif.Lemmas.C12B
import NipyVerif.Props.C12

namespace NipyVerif.C12

/-! ## Cache coherence -/

/-- A freshly constructed `Forest(V, parents)` (parents inside the vertex range) is coherent:
    edges are the child-parent links, the cache is empty. -/
theorem fresh_forest_coherent {ps : List Nat} {s : FState} (h : mkForest ps = some s)
    (hr : ∀ x ∈ ps, x < ps.length) : Coherent s :=
  mkForest_coherent h hr

/-- On a coherent object, what a call returns is a function of the parent array only:
    it is the answer computed from `children V p`, `isLeaf V p`, `p` themselves. -/
theorem step_answers_current_parents {s : FState} (h : Coherent s) (op : FOp) :
    (stepF false s op).2 = answer (specView s.V (fnOf s.parents)) op := by
  simp only [stepF, viewOf_coherent h]

/-- Every public method (patched `reorder_from_leaves_to_roots` included) takes a coherent
    object to a coherent object: after it, `edges` are again the links of the *new* parents
    and the cache is empty or holds the children lists of the *new* parents. -/
theorem step_preserves_coherence {s : FState} (h : Coherent s) (op : FOp) :
    Coherent (stepF false s op).1 := by
  have hfill : Coherent { s with cache := some (s.cache.getD (computeChildren s.V s.edges)) } := by
    refine ⟨h.len, h.inRange, h.edges, Or.inr ?_⟩
    show some _ = some _
    rcases h.cache with hc | hc
    · rw [hc, Option.getD_none, h.edges, computeChildren_defEdges]
    · rw [hc, Option.getD_some]
  have hcomp : Coherent { s with cache := some (computeChildren s.V s.edges) } := by
    refine ⟨h.len, h.inRange, h.edges, Or.inr ?_⟩
    show some _ = some _
    rw [h.edges, computeChildren_defEdges]
  -- the cache step
  have h1 : Coherent (afterCache s op) ∧ (afterCache s op).V = s.V ∧
      (afterCache s op).parents = s.parents := by
    unfold afterCache
    cases op <;> first
      | exact ⟨hcomp, rfl, rfl⟩
      | (simp only []; split
         · exact ⟨hfill, rfl, rfl⟩
         · exact ⟨h, rfl, rfl⟩)
  -- continuing on a returned sub-forest
  have hcont : ∀ (ans : Obs) (s1 : FState), Coherent s1 →
      (∀ sp, ans = .nats sp → ∀ x ∈ sp, x < sp.length) → Coherent (continueOn ans s1) := by
    intro ans s1 hs1 hsp
    unfold continueOn
    split
    · rename_i sp
      cases hm : mkForest sp with
      | none => exact hs1
      | some s' => exact mkForest_coherent hm (hsp sp rfl)
    · exact hs1
  have hsub : ∀ valid : List Bool, ∀ x ∈ subParents (viewOf s) valid,
      x < (subParents (viewOf s) valid).length := by
    intro valid
    rw [viewOf_coherent h]
    exact subforestParents_inRange _ _ h.inRange _
  unfold stepF
  simp only []
  cases op with
  | reorder order =>
    by_cases hv : validOrder (viewOf s).V (lget (depthL (viewOf s))) order = true
    · have ha : answer (viewOf s) (.reorder order) = .nats order := by simp [answer, hv]
      rw [ha]
      simp only [nextState]
      have hr := reorder_inRange s.V (fnOf s.parents) h.inRange hv
      have hlen : (reorder s.V (fnOf s.parents) (fnOf order)).length = s.V := by simp [reorder]
      exact ⟨hlen, by
        intro v hv'
        have := fnOf_lt_of_all_lt hr v (by rw [hlen]; exact hv')
        rwa [hlen] at this, rfl, Or.inl rfl⟩
    · have ha : answer (viewOf s) (.reorder order) = .err "invalid-order" := by simp [answer, hv]
      rw [ha]
      exact h1.1
  | subforest valid replace =>
    simp only [nextState]
    split
    · apply hcont _ _ h1.1
      intro sp hsp
      simp only [answer] at hsp
      split at hsp
      · cases hsp
      · split at hsp
        · cases hsp; exact hsub valid
        · cases hsp
    · exact h1.1
  | merge replace =>
    simp only [nextState]
    split
    · apply hcont _ _ h1.1
      intro sp hsp
      simp only [answer] at hsp
      split at hsp
      · cases hsp; exact hsub _
      · cases hsp
    · exact h1.1
  | defineGraphAttributes =>
    simp only [nextState]
    obtain ⟨hc, hV, hp⟩ := h1
    refine ⟨hc.len, hc.inRange, ?_, hc.cache⟩
    show defEdges s.V (fnOf s.parents) = defEdges (afterCache s .defineGraphAttributes).V
      (fnOf (afterCache s .defineGraphAttributes).parents)
    rw [hV, hp]
  | computeChildren => exact h1.1
  | getChildren v => exact h1.1
  | getDescendants v e => exact h1.1
  | leavesOfSubtree ids c => exact h1.1
  | propUp l => exact h1.1
  | isLeaf => exact h1.1
  | isRoot => exact h1.1
  | allDistances sd => exact h1.1
  | depth => exact h1.1
  | treeDepth => exact h1.1
  | propAnd l => exact h1.1
  | check => exact h1.1
  | cc => exact h1.1

/-- the state after `pre ++ [op]` is one more call on the state after `pre` -/
theorem finalState_snoc (stale : Bool) (s : FState) (pre : List FOp) (op : FOp) :
    finalState stale s (pre ++ [op]) = (stepF stale (finalState stale s pre) op).1 := by
  simp [finalState, List.foldl_append]

/-- what the driver prints for a history: the calls made one after the other on the states
    `finalState` passes through -/
theorem runHist_snoc (stale : Bool) (s : FState) (pre : List FOp) (op : FOp) :
    runHist stale s (pre ++ [op]) = runHist stale s pre ++ [stepF stale (finalState stale s pre) op] := by
  induction pre generalizing s with
  | nil => simp [runHist, finalState]
  | cons a t ih =>
    simp only [List.cons_append, runHist, ih, finalState, List.foldl_cons]

/-- **Histories**: after ANY sequence of public method calls on one object (queries, in-place
    reordering, continuing on a sub-forest, cache and edge recomputation), the object is coherent
    and the next call — whatever it is — answers for the parent array the object holds *now*. -/
theorem history_queries_consistent {s0 : FState} (h0 : Coherent s0) (pre : List FOp) (op : FOp) :
    Coherent (finalState false s0 pre) ∧
      (stepF false (finalState false s0 pre) op).2 =
        answer (specView (finalState false s0 pre).V (fnOf (finalState false s0 pre).parents)) op := by
  have hc : Coherent (finalState false s0 pre) := by
    unfold finalState
    induction pre generalizing s0 with
    | nil => exact h0
    | cons a t ih => rw [List.foldl_cons]; exact ih (step_preserves_coherence h0 a)
  exact ⟨hc, step_answers_current_parents hc op⟩

/-! ## Mutual consistency in every reachable state -/

/-- `get_descendants` and `parents` are consistent: `u` is listed below `v` exactly when `v` is
    reached from `u` by at most `V` parent steps. -/
theorem mem_descendants_iff (V : Nat) (p : Nat → Nat) (hr : InRange V p) (u v : Nat) (hu : u < V) :
    u ∈ descendants V p v ↔ ∃ k ≤ V, p^[k] u = v := by
  have hmem : ∀ fuel v, u ∈ descRec V p fuel v ↔ ∃ k ≤ fuel, p^[k] u = v ∧
      ∀ j < k, p^[j + 1] u ≠ p^[j] u := by
    intro fuel
    induction fuel with
    | zero =>
      intro v
      simp only [descRec, List.mem_singleton, Nat.le_zero]
      constructor
      · rintro rfl; exact ⟨0, rfl, rfl, by intro j hj; omega⟩
      · rintro ⟨k, rfl, h, _⟩; exact h
    | succ fuel ih =>
      intro v
      simp only [descRec, List.mem_cons, List.mem_flatMap]
      constructor
      · rintro (rfl | ⟨c, hc, hmem⟩)
        · exact ⟨0, by omega, rfl, by intro j hj; omega⟩
        · obtain ⟨k, hk, hkc, hne⟩ := (ih c).1 hmem
          obtain ⟨_, hpc, hcv⟩ := (children_parents_consistent V p v c).1 hc
          refine ⟨k + 1, by omega, by rw [Function.iterate_succ_apply', hkc, hpc], ?_⟩
          intro j hj
          rcases Nat.lt_succ_iff_lt_or_eq.1 hj with hj | rfl
          · exact hne j hj
          · rw [Function.iterate_succ_apply', hkc, hpc]; exact fun h => hcv h.symm
      · rintro ⟨k, hk, hkv, hne⟩
        cases k with
        | zero => left; exact hkv
        | succ k =>
          right
          refine ⟨p^[k] u, ?_, (ih _).2 ⟨k, by omega, rfl, fun j hj => hne j (by omega)⟩⟩
          rw [children_parents_consistent]
          have hlt : ∀ n, p^[n] u < V := by
            intro n; induction n with
            | zero => exact hu
            | succ n ih => rw [Function.iterate_succ_apply']; exact hr _ ih
          refine ⟨hlt k, by rw [← hkv, Function.iterate_succ_apply'], ?_⟩
          have := hne k (by omega)
          rw [hkv] at this
          exact fun h => this h.symm
  unfold descendants
  rw [List.mem_mergeSort, hmem]
  constructor
  · rintro ⟨k, hk, h, _⟩; exact ⟨k, hk, h⟩
  · rintro ⟨k, hk, h⟩
    -- take the first time the chain from u is at v
    classical
    have hex : ∃ k, p^[k] u = v := ⟨k, h⟩
    refine ⟨Nat.find hex, le_trans (Nat.find_min' hex h) hk, Nat.find_spec hex, ?_⟩
    intro j hj hfix
    -- a fixed point before reaching v: the chain stays there, so it is v already
    have hstay : ∀ n, p^[j + n] u = p^[j] u := by
      intro n; induction n with
      | zero => rfl
      | succ n ih =>
        rw [← Nat.add_assoc, Function.iterate_succ_apply', ih, ← Function.iterate_succ_apply' p j u, hfix]
    have : p^[Nat.find hex] u = p^[j] u := by
      have := hstay (Nat.find hex - j)
      rwa [Nat.add_sub_cancel' (Nat.le_of_lt hj)] at this
    exact Nat.find_min hex hj (by rw [← this]; exact Nat.find_spec hex)

/-- Clause "parent/children/descendant/leaf/root queries are mutually consistent", on every coherent
    object — hence (`history_queries_consistent`) in every state reached by any history from a fresh
    in-range forest: `get_children()`, `isleaf()`, `isroot()`, `get_descendants(v)` all describe the
    parent array `p` the object holds, and those descriptions agree with each other. -/
theorem coherent_queries_mutually_consistent {s : FState} (hc : Coherent s) :
    (stepF false s (.getChildren (-1))).2 =
        .natss ((List.range s.V).map (children s.V (fnOf s.parents))) ∧
      (stepF false s .isLeaf).2 = .bools ((List.range s.V).map (isLeaf s.V (fnOf s.parents))) ∧
      (stepF false s .isRoot).2 = .bools ((List.range s.V).map (isRoot (fnOf s.parents))) ∧
      (∀ v < s.V, (stepF false s (.getDescendants v false)).2 =
        .nats (descendants s.V (fnOf s.parents) v)) ∧
      (∀ v c, c ∈ children s.V (fnOf s.parents) v ↔ c < s.V ∧ fnOf s.parents c = v ∧ c ≠ v) ∧
      (∀ v, isLeaf s.V (fnOf s.parents) v = true ↔ children s.V (fnOf s.parents) v = []) ∧
      (∀ u < s.V, ∀ v, u ∈ descendants s.V (fnOf s.parents) v ↔
        ∃ k ≤ s.V, (fnOf s.parents)^[k] u = v) := by
  refine ⟨?_, ?_, ?_, ?_, fun v c => children_parents_consistent _ _ v c,
    fun v => isLeaf_iff_no_children _ _ v, fun u hu v => mem_descendants_iff _ _ hc.inRange u v hu⟩
  · rw [step_answers_current_parents hc]
    have : ¬ ((s.V : Int) - 1 < -1) := by omega
    simp only [answer, specView, this, if_false, if_true]
  · rw [step_answers_current_parents hc]; rfl
  · rw [step_answers_current_parents hc]; rfl
  · intro v hv
    rw [step_answers_current_parents hc]
    have h1 : ¬ ((v : Int) < 0) := by omega
    have h2 : ¬ ((s.V : Int) - 1 < (v : Int)) := by omega
    simp only [answer, specView, h1, h2, if_false, Bool.false_eq_true, Int.toNat_natCast,
      descK_children]

/-- … in particular after any history (the instance the correspondence run exercises) -/
theorem reachable_queries_mutually_consistent {s0 : FState} (h0 : Coherent s0) (pre : List FOp) :
    (stepF false (finalState false s0 pre) (.getChildren (-1))).2 =
      .natss ((List.range (finalState false s0 pre).V).map
        (children (finalState false s0 pre).V (fnOf (finalState false s0 pre).parents))) :=
  (coherent_queries_mutually_consistent (history_queries_consistent h0 pre .isLeaf).1).1

/-- The *unpatched* `reorder_from_leaves_to_roots` kept the children cache: on
    `Forest(2, [0, 0])`, `get_children(); reorder; get_children()` still answers `[[1], []]`
    although the parents are now `[1, 1]`, whose children lists are `[[], [0]]` — what the
    patched method answers. -/
theorem stale_cache_breaks_consistency :
    ∀ s0, mkForest [0, 0] = some s0 →
      let ops := [FOp.getChildren (-1), FOp.reorder [1, 0], FOp.getChildren (-1)]
      (runHist true s0 ops).map (·.2) = [.natss [[1], []], .nats [1, 0], .natss [[1], []]] ∧
        (runHist false s0 ops).map (·.2) = [.natss [[1], []], .nats [1, 0], .natss [[], [0]]] ∧
        (finalState true s0 ops).parents = [1, 1] := by
  intro s0 h
  have : s0 = ⟨2, [0, 0], defEdges 2 (fnOf [0, 0]), none⟩ := by
    have h' : mkForest [0, 0] = some ⟨2, [0, 0], defEdges 2 (fnOf [0, 0]), none⟩ := by decide +kernel
    rw [h'] at h; cases h; rfl
  subst this
  decide +kernel

/-! ## Reachable states are forests; the constructor guard -/

/-- Clause "reordering from leaves to roots preserves ancestry", at full strength: `k` parent steps
    from position `i` in the new numbering land on the position of the `k`-th ancestor of the vertex
    placed at `i` — and therefore the reordered object is again a forest (`check()` holds). -/
theorem reorder_keeps_forest (V : Nat) (p : Nat → Nat) (hr : InRange V p) (hc : check V p = true)
    {d : Nat → Int} {order : List Nat} (h : validOrder V d order = true) :
    (∀ k, ∀ i < V, (fnOf (reorder V p (fnOf order)))^[k] i =
        inverseOrder V (fnOf order) (p^[k] (fnOf order i))) ∧
      check V (fnOf (reorder V p (fnOf order))) = true := by
  refine ⟨fun k i hi => (reorder_iterate V p hr h k i hi).1, ?_⟩
  have hr' : InRange V (fnOf (reorder V p (fnOf order))) := by
    have hlen : (reorder V p (fnOf order)).length = V := by simp [reorder]
    intro v hv
    have := fnOf_lt_of_all_lt (reorder_inRange V p hr h) v (by rw [hlen]; exact hv)
    rwa [hlen] at this
  rw [forest_check_iff_acyclic V _ hr']
  intro i hi
  obtain ⟨_, _, hlt⟩ := validOrder_perm h
  obtain ⟨k, hk, hfix⟩ := (forest_check_iff_acyclic V p hr).1 hc (fnOf order i) (hlt i hi)
  refine ⟨k, hk, ?_⟩
  have h1 := (reorder_iterate V p hr h (k + 1) i hi).1
  have h0 := (reorder_iterate V p hr h k i hi).1
  rw [Function.iterate_succ_apply'] at h1
  rw [h1, h0, Function.iterate_succ_apply', hfix]

/-- Every state reached from a forest is a forest: no public method (the in-place renumbering
    included) can make `check()` fail.  With `history_queries_consistent`: acyclicity, and with it
    every clause proved about accepted parent arrays, holds along every history. -/
theorem step_preserves_forest {s : FState} (h : Coherent s)
    (hc : check s.V (fnOf s.parents) = true) (op : FOp) :
    check (stepF false s op).1.V (fnOf (stepF false s op).1.parents) = true := by
  obtain ⟨hV, hp⟩ := afterCache_same s op
  have hs1 : check (afterCache s op).V (fnOf (afterCache s op).parents) = true := by rw [hV, hp]; exact hc
  have hcont : ∀ ans : Obs, check (continueOn ans (afterCache s op)).V
      (fnOf (continueOn ans (afterCache s op)).parents) = true := by
    intro ans
    unfold continueOn
    split
    · rename_i sp
      cases hm : mkForest sp with
      | none => exact hs1
      | some s' => exact mkForest_check hm
    · exact hs1
  unfold stepF
  simp only []
  cases op with
  | reorder order =>
    by_cases hv : validOrder (viewOf s).V (lget (depthL (viewOf s))) order = true
    · have ha : answer (viewOf s) (.reorder order) = .nats order := by simp [answer, hv]
      rw [ha]
      simp only [nextState]
      exact (reorder_keeps_forest s.V (fnOf s.parents) h.inRange hc hv).2
    · have ha : answer (viewOf s) (.reorder order) = .err "invalid-order" := by simp [answer, hv]
      rw [ha]
      exact hs1
  | subforest valid replace =>
    simp only [nextState]
    split
    · exact hcont _
    · exact hs1
  | merge replace =>
    simp only [nextState]
    split
    · exact hcont _
    · exact hs1
  | defineGraphAttributes => simp only [nextState]; exact hs1
  | computeChildren => exact hs1
  | getChildren v => exact hs1
  | getDescendants v e => exact hs1
  | leavesOfSubtree ids c => exact hs1
  | propUp l => exact hs1
  | isLeaf => exact hs1
  | isRoot => exact hs1
  | allDistances sd => exact hs1
  | depth => exact hs1
  | treeDepth => exact hs1
  | propAnd l => exact hs1
  | check => exact hs1
  | cc => exact hs1

/-- … along whole histories: `check()` answers 1 in every reachable state. -/
theorem reachable_is_forest {s0 : FState} (h0 : Coherent s0)
    (hc0 : check s0.V (fnOf s0.parents) = true) (pre : List FOp) :
    check (finalState false s0 pre).V (fnOf (finalState false s0 pre).parents) = true ∧
      (stepF false (finalState false s0 pre) .check).2 = .bool true := by
  have hboth : Coherent (finalState false s0 pre) ∧
      check (finalState false s0 pre).V (fnOf (finalState false s0 pre).parents) = true := by
    unfold finalState
    induction pre generalizing s0 with
    | nil => exact ⟨h0, hc0⟩
    | cons a t ih =>
      rw [List.foldl_cons]
      exact ih (step_preserves_coherence h0 a) (step_preserves_forest h0 hc0 a)
  refine ⟨hboth.2, ?_⟩
  rw [step_answers_current_parents hboth.1]
  simp only [answer, specView, hboth.2]

/-- The constructor guard (as patched: every entry inside `0..V-1`, then `check()`): an accepted
    parent array has the right size, is in range, and every vertex reaches a root within `V` steps —
    in particular an accepted forest HAS a root. -/
theorem accepted_forest_is_rooted (V : Nat) (ps : List Int) (h : forestOkI V ps = true) :
    ps.length = V ∧ (∀ x ∈ ps, 0 ≤ x ∧ x < V) ∧
      ∀ v < V, ∃ k ≤ V, isRoot (fnOf (ps.map Int.toNat)) ((fnOf (ps.map Int.toNat))^[k] v) = true := by
  simp only [forestOkI, forestOk, Bool.and_eq_true, List.all_eq_true, decide_eq_true_eq, List.length_map] at h
  obtain ⟨hrange, ⟨⟨_, hlen⟩, _⟩, hcheck⟩ := h
  have hr : InRange V (fnOf (ps.map Int.toNat)) := by
    have hall : ∀ x ∈ ps.map Int.toNat, x < (ps.map Int.toNat).length := by
      intro x hx
      obtain ⟨y, hy, rfl⟩ := List.mem_map.1 hx
      have := hrange y hy
      simp only [List.length_map, hlen]
      omega
    intro v hv
    have := fnOf_lt_of_all_lt hall v (by simpa [hlen] using hv)
    simpa [hlen] using this
  have hfun : (fun v => (ps.map Int.toNat).getD v v) = fnOf (ps.map Int.toNat) := by
    funext v; rw [fnOf_apply]
  rw [hfun] at hcheck
  refine ⟨hlen, hrange, fun v hv => ?_⟩
  obtain ⟨k, hk, hfix⟩ := (forest_check_iff_acyclic V _ hr).1 hcheck v hv
  exact ⟨k, hk, by simp [isRoot, hfix]⟩

/-- The *unpatched* guard (`parents.max() > V` alone, NumPy wrap-around for negative entries)
    builds `Forest(2, [-1, -1])` — whose `isroot()` marks no vertex — and `Forest(1, [1])`; it
    answers `[0, 2]` with an `IndexError`.  The patched guard refuses all three. -/
theorem unpatched_guard_accepts_rootless :
    forestOkUnpatched 2 [-1, -1] = some true ∧ forestOkUnpatched 1 [1] = some true ∧
      forestOkUnpatched 2 [0, 2] = none ∧
      forestOkI 2 [-1, -1] = false ∧ forestOkI 1 [1] = false ∧ forestOkI 2 [0, 2] = false ∧
      forestOkUnpatched 3 [0, 0, 1] = some true ∧ forestOkI 3 [0, 0, 1] = true := by
  decide +kernel

/-! ## Non-vacuity -/

/-- a fresh forest exists, is coherent, and a history with every kind of call runs on it -/
example : ∃ s0, mkForest [0, 2, 0, 2, 3] = some s0 ∧ Coherent s0 ∧
    (finalState false s0 [.getChildren 2, .reorder [1, 4, 3, 2, 0], .merge true, .isLeaf]).parents = [2, 1, 2] := by
  have h' : mkForest [0, 2, 0, 2, 3] = some ⟨5, [0, 2, 0, 2, 3], defEdges 5 (fnOf [0, 2, 0, 2, 3]), none⟩ := by
    decide +kernel
  refine ⟨_, h', mkForest_coherent h' (by decide), by decide +kernel⟩

end NipyVerif.C12
