/-
C19 (extension) — property theorems about the mask utilities
(`NipyVerif.Model.C19` §5 and `NipyVerif.Model.C19B`).
-/
import NipyVerif.Lemmas.C19C
import NipyVerif.Props.C19

namespace NipyVerif.C19

/-! ## `intersect_masks` : threshold-level intersection of any collection of masks -/

/-- **threshold semantics, every collection of masks**: whatever the values stored in the masks
    (booleans, integers, fractions, negative numbers), a voxel is kept iff the number of masks
    that are non-zero there exceeds `min(threshold, 1-1e-7) · n_masks`; the count is an exact
    integer (no machine word), so the statement holds for collections of any size. -/
theorem intersectB_threshold_semantics (m : List Rat) (ms : List (List Rat)) (thr cap : Rat)
    (n v : Nat) (hv : v < n) (hlen : ∀ k ∈ m :: ms, k.length = n) (h0 : 0 ≤ thr) (h1 : thr ≤ 1) :
    ∃ r, intersectB (m :: ms) thr cap = .ok r ∧ r.length = n ∧
      r.getD v false = decide (min thr cap * ((m :: ms).length : Rat)
          < (((m :: ms).filter (fun k => k.getD v 0 ≠ 0)).length : Rat)) := by
  unfold intersectB
  rw [if_neg (not_lt.2 h1), if_neg (not_lt.2 h0)]
  obtain ⟨hl, hc⟩ := memberCount_spec m ms n hlen
  refine ⟨_, rfl, by simp [hl], ?_⟩
  rw [map_getD_of_lt _ _ v (by omega) false 0, hc v hv]

/-- **a collection has no order**: permuting the masks does not change the result. -/
theorem intersectB_perm_invariant (l1 l2 : List (List Rat)) (h : l1.Perm l2) (thr cap : Rat) (n : Nat)
    (hlen : ∀ k ∈ l1, k.length = n) : intersectB l1 thr cap = intersectB l2 thr cap := by
  have hcount : memberCount l1 = memberCount l2 := by
    cases l1 with
    | nil => rw [List.nil_perm.1 h]
    | cons m ms =>
      cases l2 with
      | nil => exact absurd h.symm (List.nil_perm.not.2 (by simp))
      | cons m' ms' =>
        have hlen' : ∀ k ∈ m' :: ms', k.length = n := fun k hk => hlen k (h.mem_iff.2 hk)
        obtain ⟨hl1, hc1⟩ := memberCount_spec m ms n hlen
        obtain ⟨hl2, hc2⟩ := memberCount_spec m' ms' n hlen'
        apply List.ext_getElem (by rw [hl1, hl2])
        intro i h1 h2
        rw [← getD_eq_getElem' _ 0 h1, ← getD_eq_getElem' _ 0 h2, hc1 i (by omega), hc2 i (by omega)]
        exact (h.filter _).length_eq
  unfold intersectB
  rw [hcount, h.length_eq]

/-- **threshold = 0 is the union** (`cap > 0`). -/
theorem intersectB_union (m : List Rat) (ms : List (List Rat)) (cap : Rat) (hcap : 0 < cap)
    (n v : Nat) (hv : v < n) (hlen : ∀ k ∈ m :: ms, k.length = n) :
    ∃ r, intersectB (m :: ms) 0 cap = .ok r ∧
      (r.getD v false = true ↔ ∃ k ∈ m :: ms, k.getD v 0 ≠ 0) := by
  obtain ⟨r, hr, _, hs⟩ := intersectB_threshold_semantics m ms 0 cap n v hv hlen (le_refl _) (by norm_num)
  refine ⟨r, hr, ?_⟩
  rw [hs, min_eq_left hcap.le, zero_mul, decide_eq_true_eq]
  constructor
  · intro h
    have : 0 < ((m :: ms).filter (fun k => k.getD v 0 ≠ 0)).length := by exact_mod_cast h
    obtain ⟨k, hk⟩ := List.exists_mem_of_length_pos this
    have := List.mem_filter.1 hk
    exact ⟨k, this.1, by simpa using this.2⟩
  · rintro ⟨k, hk, hk1⟩
    have : k ∈ (m :: ms).filter (fun k => k.getD v 0 ≠ 0) := List.mem_filter.2 ⟨hk, by simpa using hk1⟩
    exact_mod_cast List.length_pos_of_mem this

/-- **threshold = 1 is the intersection** (`cap = 1 - 1e-7` satisfies the hypotheses for fewer
    than 10⁷ masks). -/
theorem intersectB_all (m : List Rat) (ms : List (List Rat)) (cap : Rat) (hcap : cap < 1)
    (hcap2 : (((m :: ms).length : Nat) : Rat) * (1 - cap) < 1)
    (n v : Nat) (hv : v < n) (hlen : ∀ k ∈ m :: ms, k.length = n) :
    ∃ r, intersectB (m :: ms) 1 cap = .ok r ∧
      (r.getD v false = true ↔ ∀ k ∈ m :: ms, k.getD v 0 ≠ 0) := by
  obtain ⟨r, hr, _, hs⟩ := intersectB_threshold_semantics m ms 1 cap n v hv hlen (by norm_num) (le_refl _)
  refine ⟨r, hr, ?_⟩
  rw [hs, min_eq_right hcap.le, decide_eq_true_eq]
  have hle := List.length_filter_le (fun k : List Rat => decide (k.getD v 0 ≠ 0)) (m :: ms)
  constructor
  · intro h
    have hcount : ((m :: ms).filter (fun k => k.getD v 0 ≠ 0)).length = (m :: ms).length := by
      by_contra hne
      have hlt : ((m :: ms).filter (fun k => k.getD v 0 ≠ 0)).length + 1 ≤ (m :: ms).length := by omega
      have : ((((m :: ms).filter (fun k => k.getD v 0 ≠ 0)).length : Nat) : Rat) + 1
          ≤ (((m :: ms).length : Nat) : Rat) := by exact_mod_cast hlt
      nlinarith
    intro k hk
    have := (List.filter_eq_self.1 ((List.filter_sublist (l := m :: ms)).eq_of_length hcount)) k hk
    simpa using this
  · intro h
    have : (m :: ms).filter (fun k => k.getD v 0 ≠ 0) = m :: ms :=
      List.filter_eq_self.2 (fun k hk => by simpa using h k hk)
    rw [this]
    have hpos : (0 : Rat) < (((m :: ms).length : Nat) : Rat) := by
      simp only [List.length_cons]; positivity
    nlinarith

/-- **monotone in the threshold**: raising the threshold never adds voxels. -/
theorem intersectB_monotone (masks : List (List Rat)) (t1 t2 cap : Rat) (r1 r2 : List Bool)
    (h12 : t1 ≤ t2)
    (e1 : intersectB masks t1 cap = .ok r1) (e2 : intersectB masks t2 cap = .ok r2)
    (v : Nat) (hv : r2.getD v false = true) : r1.getD v false = true := by
  unfold intersectB at e1 e2
  split_ifs at e1 e2
  have h1 := Except.ok.inj e1; have h2 := Except.ok.inj e2
  subst h1; subst h2
  rw [List.getD_eq_getElem?_getD, List.getElem?_map] at hv ⊢
  cases hs : (memberCount masks)[v]? with
  | none => simp [hs] at hv
  | some x =>
      simp only [hs, Option.map_some, Option.getD_some, decide_eq_true_eq] at hv ⊢
      have hk : (0 : Rat) ≤ ((masks.length : Nat) : Rat) := by positivity
      have : min t1 cap ≤ min t2 cap := min_le_min_right _ h12
      nlinarith [mul_le_mul_of_nonneg_right this hk]

/-! ## `compute_mask_sessions` -/

/-- **sessions: threshold-level intersection of the session masks**: the combination step keeps a
    voxel iff the number of session masks containing it exceeds `min(threshold, cap) · n_sessions`
    (exact count: any number of sessions). -/
theorem sessions_threshold_semantics (b : List Bool) (bs : List (List Bool)) (thr cap : Rat)
    (n v : Nat) (hv : v < n) (hlen : ∀ k ∈ b :: bs, k.length = n) :
    (sessionsCombine (b :: bs) thr cap).length = n ∧
    (sessionsCombine (b :: bs) thr cap).getD v false
      = decide (min thr cap * ((b :: bs).length : Rat)
          < (((b :: bs).filter (fun k => k.getD v false)).length : Rat)) := by
  unfold sessionsCombine
  have hlen' : ∀ k ∈ boolsToRat b :: bs.map boolsToRat, k.length = n := by
    intro k hk
    rcases List.mem_cons.1 hk with rfl | hk
    · simp [boolsToRat, hlen b List.mem_cons_self]
    · obtain ⟨k', hk', rfl⟩ := List.mem_map.1 hk
      simp [boolsToRat, hlen k' (List.mem_cons_of_mem _ hk')]
  obtain ⟨hl, hc⟩ := memberCount_spec (boolsToRat b) (bs.map boolsToRat) n hlen'
  rw [List.map_cons]
  refine ⟨by simp [hl], ?_⟩
  rw [map_getD_of_lt _ _ v (by omega) false 0, hc v hv]
  have hcnt : ((boolsToRat b :: bs.map boolsToRat).filter (fun k => k.getD v 0 ≠ 0)).length
      = ((b :: bs).filter (fun k => k.getD v false)).length := by
    rw [← List.map_cons (f := boolsToRat), List.filter_map, List.length_map]
    congr 1
    apply List.filter_congr
    intro k _
    simp only [Function.comp]
    rw [Bool.eq_iff_iff]
    simp only [decide_eq_true_eq]
    exact boolsToRat_getD_ne k v
  rw [hcnt]

/-- the combination step *is* `intersect_masks` on the session masks (thresholds in `[0,1]`). -/
theorem sessions_eq_intersect (masks : List (List Bool)) (thr cap : Rat) (h0 : 0 ≤ thr) (h1 : thr ≤ 1) :
    intersectB (masks.map boolsToRat) thr cap = .ok (sessionsCombine masks thr cap) := by
  unfold intersectB sessionsCombine
  rw [if_neg (not_lt.2 h1), if_neg (not_lt.2 h0), List.length_map]

/-! ## `largest_cc`, `threshold_connect_components` (labels of `ndimage.label` are inputs) -/

/-- **empty mask refused**, **single component**: with no component `largest_cc` raises
    `ValueError`; with exactly one it returns `mask != 0`. -/
theorem largestCC_degenerate (mask : List Rat) (labels : List Nat) :
    largestCC mask labels 0 = .error "error:valueError" ∧
    largestCC mask labels 1 = .ok (mask.map (fun x => decide (x ≠ 0))) := by
  constructor <;> simp [largestCC]

/-- **largest-component semantics with the tie rule as written**: with two or more components the
    result is exactly the voxels of one label `l`; `l` has the largest voxel count among the labels
    `1 … nb` and is the *first* (smallest) label attaining it.  Counts are exact integers, so any
    number of components (beyond 255, beyond 32767) is covered. -/
theorem largestCC_spec (mask : List Rat) (labels : List Nat) (nb : Nat) (h2 : 2 ≤ nb)
    (hpos : ∃ k, 1 ≤ k ∧ k ≤ nb ∧ 0 < labels.count k) :
    ∃ l, 1 ≤ l ∧ l ≤ nb ∧ largestCC mask labels nb = .ok (labels.map (fun k => decide (k = l))) ∧
      (∀ k, 1 ≤ k → k ≤ nb → labels.count k ≤ labels.count l) ∧
      (∀ k, 1 ≤ k → k < l → labels.count k < labels.count l) := by
  have hne : ccCounts labels nb ≠ [] := by
    intro h; have := ccCounts_length labels nb; rw [h] at this; simp at this
  obtain ⟨hlt, hmax, hfirst⟩ := argmax_spec (ccCounts labels nb) hne
  rw [ccCounts_length] at hlt
  set l := argmax (ccCounts labels nb) with hl
  have hmem : ∀ k, k ≤ nb → (ccCounts labels nb).getD k 0 ≤ (ccCounts labels nb).getD l 0 := by
    intro k hk
    apply hmax
    rw [getD_eq_getElem' _ 0 (by rw [ccCounts_length]; omega)]
    exact List.getElem_mem _
  have hl1 : 1 ≤ l := by
    by_contra h0
    have hl0 : l = 0 := by omega
    obtain ⟨k, hk1, hk2, hk3⟩ := hpos
    have := hmem k hk2
    rw [ccCounts_getD _ _ _ hk2, hl0, ccCounts_getD _ _ _ (by omega), if_neg (by omega), if_pos rfl] at this
    have : (0 : Rat) < (labels.count k : Rat) := by exact_mod_cast hk3
    linarith
  refine ⟨l, hl1, by omega, ?_, ?_, ?_⟩
  · unfold largestCC
    rw [if_neg (by omega), if_neg (by omega), bincountFast_eq]
    rfl
  · intro k hk1 hk2
    have := hmem k hk2
    rw [ccCounts_getD _ _ _ hk2, ccCounts_getD _ _ _ (by omega), if_neg (by omega), if_neg (by omega)] at this
    exact_mod_cast this
  · intro k hk1 hk2
    have := hfirst k hk2
    rw [ccCounts_getD _ _ _ (by omega), ccCounts_getD _ _ _ (by omega), if_neg (by omega), if_neg (by omega)] at this
    exact_mod_cast this

/-- **`threshold_connect_components`**: a voxel is zeroed iff it carries a label whose component has
    fewer voxels than the threshold; every other entry (background included) is unchanged. -/
theorem thresholdCC_spec (map : List Rat) (labels : List Nat) (nb : Nat) (thr : Rat) (v : Nat)
    (hv : v < map.length) (hv' : v < labels.length) (hk : labels[v] ≤ nb) :
    (thresholdCC map labels nb thr).getD v 0
      = if labels[v] ≠ 0 ∧ ((labels.count labels[v] : Nat) : Rat) < thr then 0 else map[v] := by
  unfold thresholdCC
  rw [bincountFast_eq]
  simp only [List.getD_eq_getElem?_getD, List.getElem?_zipWith, List.getElem?_eq_getElem hv,
    List.getElem?_eq_getElem hv', Option.map_some, Option.getD_some, Option.bind_some]
  have : (bincount labels (nb + 1)).toArray.getD labels[v] 0 = labels.count labels[v] := by
    rw [Array.getD_eq_getD_getElem?]
    simp [bincount, List.getElem?_range (by omega : labels[v] < nb + 1)]
  rw [this]

/-! ## `compute_mask` : histogram threshold and affine invariance -/

/-- **threshold specification of `compute_mask`**: when the search succeeds the threshold is the
    midpoint of two adjacent sorted intensities `s[i], s[i+1]` with `⌊m·N⌋ ≤ i < ⌊M·N⌋`; that gap
    is the widest in the window and the *first* widest one. -/
theorem compute_mask_threshold_spec (s : List Rat) (m M t : Rat) (h : histThreshold s m M = .ok t) :
    ∃ i, (m * ((s.length : Nat) : Rat)).floor.toNat ≤ i ∧ i < (M * ((s.length : Nat) : Rat)).floor.toNat ∧
      i + 1 < s.length ∧ t = (s.getD i 0 + s.getD (i + 1) 0) / 2 ∧
      (∀ j, (m * ((s.length : Nat) : Rat)).floor.toNat ≤ j → j < (M * ((s.length : Nat) : Rat)).floor.toNat →
        s.getD (j + 1) 0 - s.getD j 0 ≤ s.getD (i + 1) 0 - s.getD i 0) ∧
      (∀ j, (m * ((s.length : Nat) : Rat)).floor.toNat ≤ j → j < i →
        s.getD (j + 1) 0 - s.getD j 0 < s.getD (i + 1) 0 - s.getD i 0) := by
  unfold histThreshold at h
  simp only at h
  set lo := (m * ((s.length : Nat) : Rat)).floor.toNat with hlo
  set hi := (M * ((s.length : Nat) : Rat)).floor.toNat with hhi
  split_ifs at h with hc
  obtain ⟨hlh, hlen, hla, hlb⟩ := hist_window s lo hi hc
  have ht := (Except.ok.inj h).symm
  set delta := List.zipWith (· - ·) ((s.drop (lo + 1)).take (hi - lo)) ((s.drop lo).take (hi - lo)) with hd
  have hdl : delta.length = hi - lo := by simp [hd, List.length_zipWith, hla, hlb]
  have hdg : ∀ k, k < hi - lo → delta.getD k 0 = s.getD (lo + k + 1) 0 - s.getD (lo + k) 0 := by
    intro k hk
    rw [hd, zipWith_sub_getD _ _ k (by omega) (by omega), takeDrop_getD _ _ _ _ hk, takeDrop_getD _ _ _ _ hk]
    congr 2; omega
  have hne : delta ≠ [] := by
    intro h0; rw [h0] at hdl; simp at hdl; omega
  obtain ⟨hia, hmax, hfirst⟩ := argmax_spec delta hne
  rw [hdl] at hia
  refine ⟨argmax delta + lo, by omega, by omega, by omega, ?_, ?_, ?_⟩
  · rw [ht]
  · intro j hj1 hj2
    have h1 := hmax (delta.getD (j - lo) 0) (by
      rw [getD_eq_getElem' _ 0 (by omega)]; exact List.getElem_mem _)
    rw [hdg _ (by omega), hdg _ hia] at h1
    rw [show lo + (j - lo) + 1 = j + 1 by omega, show lo + (j - lo) = j by omega,
      show lo + argmax delta + 1 = argmax delta + lo + 1 by omega,
      show lo + argmax delta = argmax delta + lo by omega] at h1
    exact h1
  · intro j hj1 hj2
    have h1 := hfirst (j - lo) (by omega)
    rw [hdg _ (by omega), hdg _ hia] at h1
    rw [show lo + (j - lo) + 1 = j + 1 by omega, show lo + (j - lo) = j by omega,
      show lo + argmax delta + 1 = argmax delta + lo + 1 by omega,
      show lo + argmax delta = argmax delta + lo by omega] at h1
    exact h1

/-- **invariance to positive affine intensity changes** (`exclude_zeros=False`): mapping the mean
    and the reference volume by `x ↦ a·x + b`, `a > 0`, maps the threshold the same way and leaves
    the mask unchanged (ties in the gap widths included); refusals are preserved. -/
theorem compute_mask_affine_invariant (a b : Rat) (ha : 0 < a) (vals ref : List Rat) (m M : Rat) :
    computeMask (vals.map (fun x => a * x + b)) (ref.map (fun x => a * x + b)) m M false
      = (computeMask vals ref m M false).map (fun tm => (a * tm.1 + b, tm.2)) := by
  unfold computeMask
  simp only [Bool.false_eq_true, if_false]
  rw [mergeSort_map_affine a b ha, hist_threshold_affine a b ha]
  cases histThreshold (vals.mergeSort (fun x y => decide (x ≤ y))) m M with
  | error e => rfl
  | ok t =>
      simp only [Except.map, bind, Except.bind, pure, Except.pure]
      rw [threshold_mask_affine_invariant a b t ha]

/-- **with `exclude_zeros=True` the invariance holds for pure rescaling** (`b = 0`: the zeros that are
    excluded stay zeros; a shift would move them, which is the exact precondition). -/
theorem compute_mask_scale_invariant_exclude_zeros (a : Rat) (ha : 0 < a) (vals ref : List Rat) (m M : Rat) :
    computeMask (vals.map (fun x => a * x + 0)) (ref.map (fun x => a * x + 0)) m M true
      = (computeMask vals ref m M true).map (fun tm => (a * tm.1 + 0, tm.2)) := by
  unfold computeMask
  simp only [if_true]
  rw [mergeSort_map_affine a 0 ha]
  have hf : ((vals.mergeSort (fun x y => decide (x ≤ y))).map (fun x => a * x + 0)).filter (fun x => decide (x ≠ 0))
      = ((vals.mergeSort (fun x y => decide (x ≤ y))).filter (fun x => decide (x ≠ 0))).map (fun x => a * x + 0) := by
    rw [List.filter_map]
    congr 1
    apply List.filter_congr
    intro x _
    simp only [Function.comp, add_zero]
    congr 1
    apply propext
    constructor
    · intro h hx; exact h (by rw [hx]; ring)
    · intro h hx; rcases mul_eq_zero.1 hx with h1 | h1
      · exact absurd h1 (ne_of_gt ha)
      · exact h h1
  rw [hf, hist_threshold_affine a 0 ha]
  cases histThreshold ((vals.mergeSort (fun x y => decide (x ≤ y))).filter (fun x => decide (x ≠ 0))) m M with
  | error e => rfl
  | ok t =>
      simp only [Except.map, bind, Except.bind, pure, Except.pure]
      rw [threshold_mask_affine_invariant a 0 t ha]

/-! ## `series_from_mask` -/

/-- **masked computation equals computation on the extracted voxels** (`series_from_mask`): the
    returned rows are exactly the time series of the voxels whose mask value is non-zero, in
    C order. -/
theorem series_from_mask_spec (mask : List Rat) (data : List (List Rat)) (h : mask.length = data.length) :
    seriesFromMask mask data
      = ((List.range mask.length).filter (fun i => mask.getD i 0 ≠ 0)).map (fun i => data.getD i []) := by
  induction mask generalizing data with
  | nil => simp [seriesFromMask]
  | cons x xs ih =>
      cases data with
      | nil => simp at h
      | cons d ds =>
          have ih' := ih ds (by simpa using h)
          unfold seriesFromMask at ih' ⊢
          rw [List.length_cons, List.range_succ_eq_map, List.zip_cons_cons, List.filter_cons, List.filter_cons,
            List.filter_map]
          by_cases hx : x = 0
          · have e1 : decide ((x, d).1 ≠ 0) = false := by simp [hx]
            have e2 : decide ((x :: xs).getD 0 0 ≠ 0) = false := by simp [hx]
            rw [e1, e2]
            simp only [Bool.false_eq_true, if_false, List.map_map, Function.comp_def, Nat.succ_eq_add_one,
              List.getD_cons_succ]
            exact ih'
          · have e1 : decide ((x, d).1 ≠ 0) = true := by simp [hx]
            have e2 : decide ((x :: xs).getD 0 0 ≠ 0) = true := by simp [hx]
            rw [e1, e2]
            simp only [if_true, List.map_cons, List.map_map, Function.comp_def, Nat.succ_eq_add_one,
              List.getD_cons_succ, List.getD_cons_zero]
            rw [ih']

end NipyVerif.C19
