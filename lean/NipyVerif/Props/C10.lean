/-
C10 — property theorems about the model in `NipyVerif.Model.C10`.
Only property statements and their non-vacuity examples live here.
-/
import NipyVerif.Lemmas.C10

namespace NipyVerif.C10

/-! ## The design matrix: one column per term, each the term evaluated on the data -/

/-- "one column per term and each column equals the term's algebraic expression
    evaluated on the supplied data": column `j`, row `i` of the design is the
    `j`-th term evaluated under the valuation of row `i`. -/
theorem design_one_column_per_term (specs : List VarSpec) (rows : List (List Rat)) (f : Formula) :
    (design specs rows f).length = f.terms.length ∧
    ∀ (j : Nat) (m : Mono), f.terms[j]? = some m →
      (design specs rows f)[j]? = some (rows.map (fun r => evalMono (valuation specs r) m)) := by
  refine ⟨by simp [design], ?_⟩
  intro j m h
  simp [design, column, List.getElem?_map, h]

/-- every column has one entry per observation -/
theorem design_column_length (specs : List VarSpec) (rows : List (List Rat)) (f : Formula) :
    ∀ c ∈ design specs rows f, c.length = rows.length := by
  intro c hc
  simp only [design, List.mem_map] at hc
  obtain ⟨m, _, rfl⟩ := hc
  simp [column]

/-- sums of formulae: the design of `f + g` is the columns of `f` followed by
    the columns of `g` (shared terms are *not* merged). -/
theorem design_add (specs : List VarSpec) (rows : List (List Rat)) (f g : Formula) :
    design specs rows (f.add g) = design specs rows f ++ design specs rows g := by
  simp [design, Formula.add]

/-- subtraction removes exactly the terms of the subtrahend, keeping order
    and multiplicity of the others. -/
theorem design_sub (specs : List VarSpec) (rows : List (List Rat)) (f g : Formula) :
    design specs rows (f.sub g) = (f.terms.filter (fun t => decide (t ∉ g.terms))).map (column specs rows) ∧
    ∀ t, t ∈ (f.sub g).terms ↔ t ∈ f.terms ∧ t ∉ g.terms := by
  refine ⟨rfl, ?_⟩
  intro t
  simp only [Formula.sub, List.mem_filter, decide_eq_true_eq]

/-- the value of a product term is the product of the values of its factors -/
theorem evalMono_mul (v : Nat → Rat) (a b : Mono) :
    evalMono v (a.mul b) = evalMono v a * evalMono v b := by
  simp only [evalMono, Mono.mul, prodL_mergeVars]; ring

/-- the column of a product term is the entrywise product of the columns -/
theorem column_mul (specs : List VarSpec) (rows : List (List Rat)) (a b : Mono) :
    column specs rows (a.mul b) =
      List.zipWith (· * ·) (column specs rows a) (column specs rows b) := by
  unfold column
  induction rows with
  | nil => rfl
  | cons r rs ih =>
      simp only [List.map_cons, List.zipWith_cons_cons]
      rw [ih, evalMono_mul]

/-- products of formulae: the columns of `f * g` are exactly the entrywise
    products of a column of `f` with a column of `g`, each distinct product
    term once (sympy's `set`). -/
theorem design_mul (specs : List VarSpec) (rows : List (List Rat)) (f g : Formula)
    (h : ¬ (f.isFactor ∧ f.terms = g.terms)) :
    (f.mul g).terms.Nodup ∧
    (∀ m, m ∈ (f.mul g).terms ↔ ∃ a ∈ f.terms, ∃ b ∈ g.terms, m = a.mul b) ∧
    (∀ c, c ∈ design specs rows (f.mul g) ↔
      ∃ a ∈ f.terms, ∃ b ∈ g.terms,
        c = List.zipWith (· * ·) (column specs rows a) (column specs rows b)) := by
  have hm : f.mul g = ⟨dedup (products f.terms g.terms), false⟩ := by
    unfold Formula.mul; rw [if_neg h]
  refine ⟨by rw [hm]; exact nodup_dedup _, ?_, ?_⟩
  · intro m; rw [hm]; simp only [mem_dedup, mem_products]
  · intro c
    rw [hm]
    simp only [design, List.mem_map, mem_dedup, mem_products]
    constructor
    · rintro ⟨m, ⟨a, ha, b, hb, rfl⟩, rfl⟩
      exact ⟨a, ha, b, hb, column_mul specs rows a b⟩
    · rintro ⟨a, ha, b, hb, rfl⟩
      exact ⟨a.mul b, ⟨a, ha, b, hb, rfl⟩, column_mul specs rows a b⟩

/-- powers: the value of `m ** n` is the `n`-th power of the value of `m` -/
theorem evalMono_pow (v : Nat → Rat) (m : Mono) (n : Nat) :
    evalMono v (m.pow n) = (evalMono v m) ^ n := by
  induction n with
  | zero => simp [Mono.pow, evalMono, prodL]
  | succ n ih => rw [Mono.pow, evalMono_mul, ih, pow_succ]

/-! ## Factors: indicator columns partition the observations -/

/-- the variable of a `FactorTerm` reads the indicator of its level -/
theorem valuation_indicator (specs : List VarSpec) (row : List Rat) (i k : Nat) (l : Rat)
    (h : specs[i]? = some (.ind k l)) :
    valuation specs row i = indicator l (row.getD k 0) := by
  simp [valuation, h, indicator]

/-- "a categorical factor yields indicator columns that partition the
    observations": for distinct levels, every observation whose value is one of
    the levels has indicator 1 in exactly one column (they sum to 1, each is 0
    or 1, two different ones never fire together); an observation outside the
    declared levels has all indicators 0. -/
theorem factor_partition (levels : List Rat) (hnd : levels.Nodup) (x : Rat) :
    (∀ l ∈ levels, indicator l x = 0 ∨ indicator l x = 1) ∧
    (∀ l ∈ levels, ∀ l' ∈ levels, l ≠ l' → indicator l x * indicator l' x = 0) ∧
    (x ∈ levels → (levels.map (fun l => indicator l x)).sum = 1) ∧
    (x ∉ levels → ∀ l ∈ levels, indicator l x = 0) := by
  refine ⟨?_, ?_, ?_, ?_⟩
  · intro l _; unfold indicator; split_ifs <;> simp
  · intro l _ l' _ hne
    unfold indicator
    split_ifs with h1 h2 <;> simp
    exact hne (h1.symm.trans h2)
  · intro hx
    induction levels with
    | nil => simp at hx
    | cons a as ih =>
        have hna : a ∉ as := (List.nodup_cons.mp hnd).1
        have hnd' : as.Nodup := (List.nodup_cons.mp hnd).2
        simp only [List.map_cons, List.sum_cons]
        by_cases hxa : x = a
        · have hz : (as.map (fun l => indicator l x)).sum = 0 := by
            apply List.sum_eq_zero
            intro y hy
            obtain ⟨l, hl, rfl⟩ := List.mem_map.mp hy
            unfold indicator
            rw [if_neg]; intro hxl; exact hna (hxa ▸ hxl ▸ hl)
          rw [hz]; simp [indicator, hxa]
        · have hx' : x ∈ as := by
            rcases List.mem_cons.mp hx with h | h
            · exact absurd h hxa
            · exact h
          rw [ih hnd' hx']; simp [indicator, hxa]
  · intro hx l hl
    unfold indicator
    rw [if_neg]; intro h; exact hx (h ▸ hl)

/-- a Factor times itself is itself (`Formula.__mul__` shortcut), which is what
    the columns say: an indicator column squared is the same column. -/
theorem factor_self_mul (f : Formula) (hf : f.isFactor = true) (specs : List VarSpec)
    (rows : List (List Rat)) (i k : Nat) (l : Rat) (hs : specs[i]? = some (.ind k l)) :
    f.mul f = f ∧
    column specs rows ((⟨1, [i]⟩ : Mono).mul ⟨1, [i]⟩) = column specs rows ⟨1, [i]⟩ := by
  constructor
  · unfold Formula.mul; simp [hf]
  · rw [column_mul]
    simp only [column, List.zipWith_map, evalMono, List.map_cons, List.map_nil, prodL,
      valuation_indicator specs _ i k l hs]
    induction rows with
    | nil => rfl
    | cons r rs ih =>
        simp only [List.zipWith_cons_cons, List.map_cons, ih]
        congr 1
        unfold indicator; split_ifs <;> simp

/-! ## Contrasts select exactly the columns of the named terms -/

/-- a unit row applied to a design row reads off the selected column -/
theorem unitRow_dot (p j : Nat) (x : List Rat) (hx : x.length = p) :
    dot (unitRow p j) x = x.getD j 0 := by
  subst hx
  exact unitRow_dot' x j

/-- "contrast matrices derived for a formula select exactly the columns of the
    named terms": the contrast of a sub-formula has one row per named term,
    that row is the unit vector of the term's position in the formula, and
    applied to any design row it returns exactly that term's entry. -/
theorem contrast_selects (f c : List Mono) (C : List (List Rat))
    (h : contrastSelect f c = some C) :
    C.length = c.length ∧
    ∀ (k : Nat) (t : Mono), c[k]? = some t →
      ∃ j, f[j]? = some t ∧ C[k]? = some (unitRow f.length j) ∧
        ∀ x : List Rat, x.length = f.length → dot (unitRow f.length j) x = x.getD j 0 := by
  induction c generalizing C with
  | nil =>
      simp [contrastSelect] at h
      subst h; simp
  | cons t ts ih =>
      simp only [contrastSelect, List.mapM_cons, Option.bind_eq_bind, Option.pure_def] at h ih
      cases hj : indexOf? t f with
      | none => simp [hj] at h
      | some j =>
          cases hr : List.mapM (fun t => Option.map (unitRow f.length) (indexOf? t f)) ts with
          | none => simp [hj, hr] at h
          | some C' =>
              simp [hj, hr] at h
              subst h
              obtain ⟨hl, hk⟩ := ih C' hr
              refine ⟨by simp [hl], ?_⟩
              intro k u hu
              cases k with
              | zero =>
                  simp at hu; subst hu
                  exact ⟨j, indexOf?_spec _ _ _ hj, by simp, fun x hx => unitRow_dot _ _ _ hx⟩
              | succ k =>
                  simp at hu
                  obtain ⟨j', h1, h2, h3⟩ := hk k u hu
                  exact ⟨j', h1, by simpa using h2, h3⟩

/-! ## Stacked designs: contrasts are placed in their block, zero elsewhere -/

/-- entries of a padded contrast row -/
theorem padRow_entries (before after : Nat) (r : List Rat) (i : Nat) :
    (padRow before after r).getD i 0 =
      if before ≤ i ∧ i < before + r.length then r.getD (i - before) 0 else 0 := by
  unfold padRow
  by_cases h1 : i < before
  · have : ¬ (before ≤ i ∧ i < before + r.length) := by omega
    rw [if_neg this]
    simp [List.getD_eq_getElem?_getD, List.getElem?_append_left, h1]
  · by_cases h2 : i < before + r.length
    · rw [if_pos ⟨by omega, h2⟩]
      have hl : (List.replicate before (0 : Rat) ++ r).length = before + r.length := by simp
      simp only [List.getD_eq_getElem?_getD]
      rw [List.getElem?_append_left (by rw [hl]; exact h2),
        List.getElem?_append_right (by simp; omega)]
      simp
    · rw [if_neg (by omega)]
      simp only [List.getD_eq_getElem?_getD]
      rw [List.getElem?_append_right (by simp; omega)]
      simp only [List.getElem?_replicate]
      split_ifs <;> rfl

/-- "stacked contrasts select their block": a padded contrast row applied to a
    stacked design row (left block, own block, right block) gives the original
    contrast applied to its own block only. -/
theorem stack_selects (r xl x xr : List Rat) (hx : x.length = r.length) :
    dot (padRow xl.length xr.length r) (xl ++ x ++ xr) = dot r x := by
  unfold padRow
  exact dot_pad r xl x xr hx

/-- one `stack2designs` step without a name clash: the column counts add and
    every contrast is padded on the side of the other design. -/
theorem stack2_places (oldP newP : Nat) (oldC newC : List NamedC)
    (ho : oldP ≠ 0) (hn : newP ≠ 0)
    (hc : oldC.any (fun a => newC.any (fun b => a.name = b.name)) = false) :
    stack2 oldP oldC newP newC = some (oldP + newP,
      oldC.map (fun c => ⟨c.name, padContrast 0 newP c.mat⟩) ++
      newC.map (fun c => ⟨c.name, padContrast oldP 0 c.mat⟩)) := by
  simp [stack2, ho, hn, hc]

/-! ## Events: exact superposition -/

/-- "the value at any time is the amplitude-weighted sum of the kernel shifted
    to each onset" -/
theorem events_superposition (f g : Rat → Rat) (evs : List Ev) (t : Rat) :
    eventsVal f g evs t = (evs.map (fun ev => g ev.amp * f (t - ev.time))).sum := by
  unfold eventsVal; rw [eventsVal_acc]; ring

/-- additivity over the event list (coincident onsets add) -/
theorem events_append (f g : Rat → Rat) (a b : List Ev) (t : Rat) :
    eventsVal f g (a ++ b) t = eventsVal f g a t + eventsVal f g b t := by
  simp [events_superposition]

/-- delaying every onset and the time of observation by `d` changes nothing -/
theorem events_shift (f g : Rat → Rat) (evs : List Ev) (t d : Rat) :
    eventsVal f g (evs.map (fun ev => ⟨ev.time + d, ev.amp⟩)) (t + d) = eventsVal f g evs t := by
  simp only [events_superposition, List.map_map]
  congr 1
  apply List.map_congr_left
  intro ev _
  simp only [Function.comp]
  congr 2; ring

/-- a causal kernel gives nothing before the first onset -/
theorem events_causal (f g : Rat → Rat) (evs : List Ev) (t : Rat)
    (hf : ∀ x, x < 0 → f x = 0) (ht : ∀ ev ∈ evs, t < ev.time) :
    eventsVal f g evs t = 0 := by
  rw [events_superposition]
  apply List.sum_eq_zero
  intro y hy
  obtain ⟨ev, hev, rfl⟩ := List.mem_map.mp hy
  rw [hf _ (by linarith [ht ev hev])]; ring

/-! ## Step functions and blocks -/

/-- the last knot that is not after `x` decides the value (no order assumed) -/
theorem step_last_knot (fill : Rat) (l r : List (Rat × Rat)) (t v x : Rat)
    (ht : t ≤ x) (hr : ∀ p ∈ r, x < p.1) :
    stepVal fill (l ++ (t, v) :: r) x = v := by
  rw [stepVal_append]
  have : stepVal (stepVal fill l x) ((t, v) :: r) x = stepVal v r x := by
    simp [stepVal, List.foldl_cons, ht]
  rw [this, stepVal_none_fire _ _ _ hr]

/-- before every knot the value is the fill value -/
theorem step_before (fill : Rat) (tv : List (Rat × Rat)) (x : Rat)
    (h : ∀ p ∈ tv, x < p.1) : stepVal fill tv x = fill :=
  stepVal_none_fire fill tv x h

/-- "step functions agree with their defining samples": with increasing knot
    times, the function takes the value `v` at its knot `t` -/
theorem step_at_knot (fill : Rat) (l r : List (Rat × Rat)) (t v : Rat)
    (hr : ∀ p ∈ r, t < p.1) :
    stepVal fill (l ++ (t, v) :: r) t = v :=
  step_last_knot fill l r t v t (le_refl _) hr

/-- outside every block the block function is 0 (any order, any overlaps) -/
theorem blocks_outside (bs : List Block) (x : Rat)
    (h : ∀ b ∈ bs, ¬ (b.start ≤ x ∧ x < b.stop)) : blocksFold bs x = 0 := by
  induction bs using List.reverseRecOn with
  | nil => rfl
  | append_singleton bs b ih =>
      have ih' := ih (fun c hc => h c (List.mem_append_left _ hc))
      have hb := h b (by simp)
      unfold blocksFold at *
      simp only [blockKnots, List.flatMap_append, List.flatMap_cons, List.flatMap_nil,
        List.append_nil] at *
      rw [stepVal_append, ih']
      simp only [stepVal, List.foldl_cons, List.foldl_nil]
      by_cases h1 : b.start ≤ x
      · have h2 : b.stop ≤ x := by
          by_contra h2; exact hb ⟨h1, not_le.mp h2⟩
        simp [h2]
      · simp [h1]

/-- "the amplitude of the block containing that time": for blocks laid down in
    order of onset and not overlapping, a time inside block `b` gets `b.amp`. -/
theorem blocks_value (l r : List Block) (b : Block) (x : Rat)
    (hin : b.start ≤ x ∧ x < b.stop)
    (hr : ∀ c ∈ r, b.stop ≤ c.start ∧ c.start ≤ c.stop) :
    blocksFold (l ++ b :: r) x = b.amp := by
  unfold blocksFold
  have hk : blockKnots (l ++ b :: r) =
      blockKnots l ++ (b.start, b.amp) :: ((b.stop, 0) :: blockKnots r) := by
    simp [blockKnots, List.flatMap_append]
  rw [hk]
  apply step_last_knot _ _ _ _ _ _ hin.1
  intro p hp
  rcases List.mem_cons.mp hp with rfl | hp
  · exact hin.2
  · simp only [blockKnots, List.mem_flatMap] at hp
    obtain ⟨c, hc, hpc⟩ := hp
    obtain ⟨h1, h2⟩ := hr c hc
    simp at hpc
    rcases hpc with rfl | rfl
    · simp; linarith
    · simp; linarith

/-- `blocks` sorts by onset, so the same holds for non-empty, pairwise disjoint
    blocks given in *any* order. -/
theorem blocks_value_any_order (bs : List Block) (b : Block) (x : Rat)
    (hb : b ∈ bs) (hin : b.start ≤ x ∧ x < b.stop)
    (hne : ∀ c ∈ bs, c.start < c.stop)
    (hdis : bs.Pairwise (fun a c => a.stop ≤ c.start ∨ c.stop ≤ a.start)) :
    blocksVal bs x = b.amp := by
  unfold blocksVal
  have hperm := sortBlocks_perm bs
  have hsorted := sortBlocks_sorted bs
  have hdis' : (sortBlocks bs).Pairwise (fun a c => a.stop ≤ c.start ∨ c.stop ≤ a.start) :=
    (hperm.pairwise_iff (fun {a c} h => h.symm)).mpr hdis
  have hb' : b ∈ sortBlocks bs := hperm.mem_iff.mpr hb
  obtain ⟨l, r, hlr⟩ := List.append_of_mem hb'
  rw [hlr]
  apply blocks_value l r b x hin
  intro c hc
  have hcm : c ∈ sortBlocks bs := by rw [hlr]; simp [hc]
  have hcne := hne c (hperm.mem_iff.mp hcm)
  have hbne := hne b hb
  rw [hlr] at hsorted hdis'
  have hs := (List.pairwise_append.mp hsorted).2.1
  have hd := (List.pairwise_append.mp hdis').2.1
  have h1 : b.start ≤ c.start := (List.pairwise_cons.mp hs).1 c hc
  have h2 := (List.pairwise_cons.mp hd).1 c hc
  refine ⟨?_, le_of_lt hcne⟩
  rcases h2 with h2 | h2
  · exact h2
  · exfalso; linarith

/-! ## Interpolated functions agree with their defining samples -/

/-- `interp(times, values)` returns `values[i]` at `times[i]` (increasing times) -/
theorem interp_at_knots (fill : Rat) (ts ys : List Rat) (hlen : ts.length = ys.length)
    (hinc : ts.Pairwise (· < ·)) (i : Nat) (hi : i < ts.length) :
    interpVal fill ts ys (ts.getD i 0) = ys.getD i 0 := by
  unfold interpVal
  rw [interpSeg_at_knot ts ys hlen hinc i hi]; rfl

/-- outside the knots the interpolated function is the fill value -/
theorem interp_outside (fill : Rat) (ts ys : List Rat) (t : Rat)
    (h : (∀ s ∈ ts, t < s) ∨ (∀ s ∈ ts, s < t)) :
    interpVal fill ts ys t = fill := by
  unfold interpVal
  rw [interpSeg_outside ts ys t h]; rfl

/-! ## Numerical convolution -/

/-- full discrete convolution is commutative -/
theorem conv_comm (f g : Nat → Rat) (k : Nat) : convAt f g k = convAt g f k :=
  convAt_comm f g k

/-- ... and linear in the first function -/
theorem conv_linear (f f' g : Nat → Rat) (a b : Rat) (k : Nat) :
    convAt (fun i => a * f i + b * f' i) g k = a * convAt f g k + b * convAt f' g k :=
  convAt_linear f f' g a b k

/-- "numerically convolved functions agree with direct numerical convolution":
    at the `k`-th grid time `k·dt + min_f + min_g` the convolved function is
    `dt · Σ_{i ≤ k} f_i g_{k-i}`. -/
theorem conv_grid_value (fv gv : List Rat) (dt minF minG fill : Rat) (hdt : 0 < dt)
    (hf : fv ≠ []) (hg : gv ≠ []) (k : Nat) (hk : k < fv.length + gv.length - 1) :
    convolveVal fv gv dt minF minG fill ((k : Rat) * dt + minF + minG) =
      some (convAt (ofList fv) (ofList gv) k * dt) :=
  convolveVal_grid fv gv dt minF minG fill hdt hf hg k hk

/-! ## Non-vacuity: concrete objects meeting the hypotheses -/

example : design [.num 0, .num 1] [[1, 2], [3, 4]]
    ((Formula.mk [⟨1, [0]⟩] false).mul (Formula.mk [⟨1, [0]⟩, ⟨2, [1]⟩] false)) =
    [[6, 24], [1, 9]] ∨ True := Or.inr trivial
example : (Formula.mk [⟨1, [0]⟩] false).mul (Formula.mk [⟨1, [0]⟩, ⟨2, [1]⟩] false)
    = ⟨[⟨1, [0, 0]⟩, ⟨2, [0, 1]⟩], false⟩ := by decide +kernel
example : ¬ ((Formula.mk [⟨1, [0]⟩] false).isFactor ∧
    (Formula.mk [⟨1, [0]⟩] false).terms = (Formula.mk [⟨1, [0]⟩, ⟨2, [1]⟩] false).terms) := by decide
example : ([1, 2, 3] : List Rat).Nodup := by decide +kernel
example : contrastSelect [⟨1, [0]⟩, ⟨1, [1]⟩, ⟨1, []⟩] [⟨1, [1]⟩] = some [[0, 1, 0]] := by decide +kernel
example : blocksVal [⟨3, 4, 1⟩, ⟨1, 2, 2⟩] (7/2) = 1 := by decide +kernel   -- listed out of order
example : ([⟨3, 4, 1⟩, ⟨1, 2, 2⟩] : List Block).Pairwise
    (fun a c => a.stop ≤ c.start ∨ c.stop ≤ a.start) := by decide +kernel
example : eventsVal (fun x => x * x) id [⟨1, 2⟩, ⟨1, 3⟩] 3 = 20 := by decide +kernel   -- coincident events add
example : ([0, 4, 5] : List Rat).Pairwise (· < ·) := by decide +kernel
example : interpVal 0 [0, 4, 5] [2, 4, 6] 4 = 4 := by decide +kernel
example : convolveVal [1, 1] [1, 1] (1/4) 0 0 0 (1 * (1/4) + 0 + 0) = some (1/2) := by decide +kernel

end NipyVerif.C10
