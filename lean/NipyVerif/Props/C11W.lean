/- C11 (wave 3) — theorems about the routines `Model/C11C.lean` adds to the model: `compact_neighb`
   (key arithmetic and slices), `normalize(2)`, `remove_edges`, `set_euclidian`, `voronoi_diagram`,
   column-compressed input of `wgraph_from_coo_matrix`, `main_cc`. -/
import NipyVerif.Lemmas.C11W
import NipyVerif.Props.C11

namespace NipyVerif.C11

/-! ## `compact_neighb`: the key `edges[:, 0] * V + edges[:, 1]` -/

/-- the sort key of `compact_neighb` separates the pairs of `[0, V)²`: two rows with the same key join
the same ordered pair of vertices (so ties of `np.argsort` are repetitions of one pair only). -/
theorem cnKey_injective (V : Nat) (a b : Edge) (ha : a.2.1 < V) (hb : b.2.1 < V)
    (h : cnKey V a = cnKey V b) : a.1 = b.1 ∧ a.2.1 = b.2.1 :=
  key_inj V a.1 a.2.1 b.1 b.2.1 ha hb h

/-- the key orders the rows lexicographically by (source, target) -/
theorem cnKey_lt_iff_lex (V : Nat) (a b : Edge) (ha : a.2.1 < V) (hb : b.2.1 < V) :
    cnKey V a < cnKey V b ↔ a.1 < b.1 ∨ (a.1 = b.1 ∧ a.2.1 < b.2.1) :=
  key_lt_iff V a.1 a.2.1 b.1 b.2.1 ha hb

/-- **the dtype bound, as an explicit hypothesis**: the code forms the key in double precision
(`edges[:, 0] * float(V)`); under `V² ≤ 2⁵³` — which the model checks (`cnExact`, and the harness never
exceeds) — every key of a well-formed graph is an integer below `2⁵³`, hence exactly representable:
the float key *is* the integer key the theorems above speak of. -/
theorem cnKey_exact (g : Graph) (hw : WF g) (hb : cnExact g.V = true) (e : Edge) (he : e ∈ g.edges) :
    cnKey g.V e < 9007199254740992 := by
  have h := key_lt_sq g.V e.1 e.2.1 (hw e he).1 (hw e he).2
  simp only [cnExact, decide_eq_true_eq] at hb
  unfold cnKey
  omega

/-- `idx[v]` is the number of rows whose source is smaller than `v`; in particular `idx[V] = E`. -/
theorem cnIdx_counts (g : Graph) (v : Nat) (hv : v ≤ g.V) :
    (cnIdx g).getD v 0 = (g.edges.filter (fun e => decide (e.1 < v))).length := cnIdx_getD g v hv

/-- **`compact_neighb` slices**: for every well-formed graph (parallel edges, loops, any order of the
rows) and every vertex `v`, the slice `neighb[idx[v] : idx[v+1]]`, `weights[idx[v] : idx[v+1]]` of the
arrays as the code builds them (`argsort` of the key, out-degrees cumulated) holds exactly the
`(target, weight)` pairs of the rows leaving `v`, each as often as it occurs — this is the
"slice order does not matter" assumption of the shortest-path model, now proved for the code's
own construction. -/
theorem compact_slice_perm (g : Graph) (hw : WF g) (v : Nat) (hv : v < g.V) :
    (cnSlice g v).Perm (outEdges g v) := by
  have hsorted := cnSorted_src_sorted g hw
  have hperm := cnSorted_perm g
  have hlt : (cnIdx g).getD v 0 = ((cnSorted g).filter (fun e => decide (e.1 < v))).length := by
    rw [cnIdx_getD g v (by omega)]
    exact ((hperm.filter _).length_eq).symm
  have hlt1 : (cnIdx g).getD (v + 1) 0 = ((cnSorted g).filter (fun e => decide (e.1 < v + 1))).length := by
    rw [cnIdx_getD g (v + 1) (by omega)]
    exact ((hperm.filter _).length_eq).symm
  have hsplit := filter_len_succ (cnSorted g) v
  have heqf : (cnSorted g).filter (fun e => e.1 == v) = (cnSorted g).filter (fun e => decide (e.1 = v)) := by
    apply List.filter_congr
    intro e _
    by_cases h : e.1 = v <;> simp [h]
  have hdiff : (cnIdx g).getD (v + 1) 0 - (cnIdx g).getD v 0 =
      ((cnSorted g).filter (fun e => decide (e.1 = v))).length := by
    rw [hlt, hlt1, ← hsplit, heqf]; omega
  unfold cnSlice cnSliceOf
  rw [hdiff, hlt, sorted_slice (fun e => e.1) v (cnSorted g) hsorted]
  unfold outEdges
  apply List.Perm.map
  have : g.edges.filter (fun e => e.1 == v) = g.edges.filter (fun e => decide (e.1 = v)) := by
    apply List.filter_congr
    intro e _
    by_cases h : e.1 = v <;> simp [h]
  rw [this]
  exact hperm.filter _

/-! ## `normalize(2)` -/

/-- `normalize(2)` as written: entry `(i, j)` of the adjacency matrix is multiplied by the scaling of
the *column* sum of `i` and by the scaling of the *row* sum of `j` (on a symmetric graph: the documented
symmetric normalisation). -/
theorem normalize2_adj (g : Graph) (r1 r2 : List Rat) (i j : Nat) (hi : i < g.V) (hj : j < g.V) :
    (normalize2 g r1 r2).adj i j = r1.getD i 0 * g.adj i j * r2.getD j 0 := fromDense_adj' _ _ i j hi hj

/-- an accepted scaling is never 0 -/
theorem invSqrtOK_ne_zero (s r : Rat) (h : invSqrtOK s r = true) : r ≠ 0 := by
  unfold invSqrtOK at h
  split at h
  · simp only [beq_iff_eq] at h; rw [h]; norm_num
  · simp only [Bool.and_eq_true, decide_eq_true_eq] at h
    intro hr
    rw [hr] at h
    have := h.2
    norm_num at this

/-- "when the sum is 0 nothing is performed", and no entry appears, vanishes or is created: with
certified scalings the zero pattern of the adjacency matrix is unchanged (directed graphs included). -/
theorem normalize2_zero_pattern (g : Graph) (r1 r2 : List Rat) (h : normalize2Cert g r1 r2 = true)
    (i j : Nat) (hi : i < g.V) (hj : j < g.V) :
    (normalize2 g r1 r2).adj i j = 0 ↔ g.adj i j = 0 := by
  rw [normalize2_adj g r1 r2 i j hi hj]
  simp only [normalize2Cert, Bool.and_eq_true, List.all_eq_true, List.mem_range] at h
  have h1 := invSqrtOK_ne_zero _ _ (h.2 i hi).1
  have h2 := invSqrtOK_ne_zero _ _ (h.2 j hj).2
  constructor
  · intro hz
    rcases mul_eq_zero.mp hz with hz | hz
    · rcases mul_eq_zero.mp hz with hz | hz
      · exact absurd hz h1
      · exact hz
    · exact absurd hz h2
  · intro hz; rw [hz]; ring

/-- where a sum is 0 the certified scaling is exactly 1 (nothing is performed) -/
theorem normalize2_zero_sum_rule (g : Graph) (r1 r2 : List Rat) (h : normalize2Cert g r1 r2 = true)
    (i : Nat) (hi : i < g.V) :
    (colSum g i = 0 → r1.getD i 0 = 1) ∧ (rowSum g i = 0 → r2.getD i 0 = 1) := by
  simp only [normalize2Cert, Bool.and_eq_true, List.all_eq_true, List.mem_range] at h
  obtain ⟨ha, hb⟩ := h.2 i hi
  constructor
  · intro hs; simpa [invSqrtOK, hs] using ha
  · intro hs; simpa [invSqrtOK, hs] using hb

/-- on a graph with a symmetric adjacency matrix and one scaling for both sides the result is
symmetric again -/
theorem normalize2_symmetric (g : Graph) (r : List Rat) (hsym : ∀ i j, g.adj i j = g.adj j i)
    (i j : Nat) (hi : i < g.V) (hj : j < g.V) :
    (normalize2 g r r).adj i j = (normalize2 g r r).adj j i := by
  rw [normalize2_adj g r r i j hi hj, normalize2_adj g r r j i hj hi, hsym i j]; ring

/-! ## `remove_edges`, `set_euclidian` -/

/-- `remove_edges(valid)` keeps a row exactly when its entry of `valid` is not 0 — whatever the values
are (booleans, 0/1, signed scores): the rows that remain are, in order, those at the positions `k` with
`valid[k] ≠ 0`. -/
theorem removeEdges_mem (g : Graph) (valid : List Rat) (e : Edge) :
    e ∈ (removeEdges g valid).edges ↔ ∃ (k : Nat) (x : Rat), g.edges[k]? = some e ∧ valid[k]? = some x ∧ x ≠ 0 := by
  unfold removeEdges
  simp only [List.mem_map, List.mem_filter, bne_iff_ne, ne_eq]
  constructor
  · rintro ⟨p, ⟨hp, hx⟩, rfl⟩
    obtain ⟨k, hk⟩ := List.getElem?_of_mem hp
    rw [List.getElem?_zip_eq_some] at hk
    exact ⟨k, p.2, hk.1, hk.2, hx⟩
  · rintro ⟨k, x, h1, h2, hx⟩
    refine ⟨(e, x), ⟨?_, hx⟩, rfl⟩
    apply List.mem_of_getElem? (i := k)
    rw [List.getElem?_zip_eq_some]
    exact ⟨h1, h2⟩

/-- nothing is reordered or duplicated -/
theorem removeEdges_sublist (g : Graph) (valid : List Rat) : (removeEdges g valid).edges.Sublist g.edges := by
  unfold removeEdges
  simp only
  have h1 : (((g.edges.zip valid).filter (fun p => p.2 != 0)).map Prod.fst).Sublist ((g.edges.zip valid).map Prod.fst) :=
    (List.filter_sublist).map _
  exact h1.trans (map_fst_zip_sublist _ _)

/-- a selector without zeros (of the right length) removes nothing -/
theorem removeEdges_all (g : Graph) (valid : List Rat) (hl : valid.length = g.edges.length)
    (hnz : ∀ x ∈ valid, x ≠ 0) : (removeEdges g valid).edges = g.edges := by
  unfold removeEdges
  simp only
  rw [List.filter_eq_self.mpr]
  · rw [List.map_fst_zip (by omega)]
  · intro p hp
    simp only [bne_iff_ne, ne_eq]
    exact hnz p.2 (List.of_mem_zip hp).2

/-- the squared lengths `set_euclidian` takes roots of are non-negative and do not depend on the
direction of the edge -/
theorem sqDistDef_nonneg : ∀ (x y : List Rat), 0 ≤ sqDistDef x y := by
  intro x y
  unfold sqDistDef
  apply list_sum_nonneg
  intro a ha
  simp only [List.mem_map] at ha
  obtain ⟨d, _, rfl⟩ := ha
  exact mul_self_nonneg d

theorem sqDistDef_comm : ∀ (x y : List Rat), sqDistDef x y = sqDistDef y x
  | [], [] => rfl
  | [], _ :: _ => by simp [sqDistDef]
  | _ :: _, [] => by simp [sqDistDef]
  | a :: x, b :: y => by
      have ih := sqDistDef_comm x y
      unfold sqDistDef at ih ⊢
      simp only [List.zipWith_cons_cons, List.map_cons, List.sum_cons]
      rw [ih]; ring

/-- `set_euclidian`: entry `k` of the squared weights is `‖X[a] − X[b]‖²` for the `k`-th row `(a, b)`;
a certified root `s` (`sqrtOK q s`) is non-negative and squares to `q` within 2⁻⁴⁸ relative. -/
theorem edgeSq_getElem (g : Graph) (X : List (List Rat)) (k : Nat) (e : Edge) (h : g.edges[k]? = some e) :
    (edgeSq g X)[k]? = some (sqDistDef (X.getD e.1 []) (X.getD e.2.1 [])) := by
  unfold edgeSq
  rw [List.getElem?_map, h]; rfl

/-! ## `voronoi_diagram` -/

/-- the certified pair of a sample: the first seed is a nearest one, the second a nearest one among
the others -/
theorem nearest2OK_sound (row : List Rat) (a b : Nat) (h : nearest2OK row a b = true) :
    a < row.length ∧ b < row.length ∧ a ≠ b ∧ (∀ c, c < row.length → row.getD a 0 ≤ row.getD c 0) ∧
      (∀ c, c < row.length → c ≠ a → row.getD b 0 ≤ row.getD c 0) := by
  simp only [nearest2OK, Bool.and_eq_true, decide_eq_true_eq, bne_iff_ne, ne_eq, List.all_eq_true,
    List.mem_range, Bool.or_eq_true, beq_iff_eq] at h
  obtain ⟨⟨⟨⟨ha, hb⟩, hab⟩, hle⟩, hall⟩ := h
  refine ⟨ha, hb, hab, ?_, ?_⟩
  · intro c hc
    rcases hall c hc with (h1 | h1) | h1
    · rw [h1]
    · rw [h1]; exact hle
    · exact le_trans hle h1
  · intro c hc hca
    rcases hall c hc with (h1 | h1) | h1
    · exact absurd h1 hca
    · rw [h1]
    · exact h1

/-- **`voronoi_diagram` links exactly the pairs of nearest seeds**: in the graph the routine leaves in
the object (one row of weight 1 per sample, `cut_redundancies()` without effect, `symmeterize()`), two
seeds `a`, `b` are joined iff some sample has `(a, b)` or `(b, a)` as its pair of two nearest seeds —
however often, in whichever order. -/
theorem voronoiDiagram_adj_ne_zero_iff (V : Nat) (pairs : List (Nat × Nat)) (a b : Nat) (ha : a < V) (hb : b < V) :
    (voronoiDiagram V pairs).adj a b ≠ 0 ↔ ((a, b) ∈ pairs ∨ (b, a) ∈ pairs) := by
  unfold voronoiDiagram
  rw [symmeterize_adj ⟨V, vdRows pairs⟩ a b ha hb]
  show (adjL (vdRows pairs) a b + adjL (vdRows pairs) b a) / 2 ≠ 0 ↔ _
  unfold vdRows
  have h1 := adjL_ones_nonneg pairs a b
  have h2 := adjL_ones_nonneg pairs b a
  have p1 := adjL_ones_pos_iff pairs a b
  have p2 := adjL_ones_pos_iff pairs b a
  constructor
  · intro hne
    by_contra hc
    have hc := not_or.mp hc
    have z1 : ¬ 0 < adjL (pairs.map (fun p => (p.1, p.2, (1 : Rat)))) a b := fun h => hc.1 (p1.mp h)
    have z2 : ¬ 0 < adjL (pairs.map (fun p => (p.1, p.2, (1 : Rat)))) b a := fun h => hc.2 (p2.mp h)
    apply hne
    have e1 : adjL (pairs.map (fun p => (p.1, p.2, (1 : Rat)))) a b = 0 := le_antisymm (not_lt.mp z1) h1
    have e2 : adjL (pairs.map (fun p => (p.1, p.2, (1 : Rat)))) b a = 0 := le_antisymm (not_lt.mp z2) h2
    rw [e1, e2]; norm_num
  · rintro (h | h)
    · have := p1.mpr h
      intro hz
      have : adjL (pairs.map (fun p => (p.1, p.2, (1 : Rat)))) a b + adjL (pairs.map (fun p => (p.1, p.2, (1 : Rat)))) b a = 0 := by
        linarith [hz]
      linarith
    · have := p2.mpr h
      intro hz
      have : adjL (pairs.map (fun p => (p.1, p.2, (1 : Rat)))) a b + adjL (pairs.map (fun p => (p.1, p.2, (1 : Rat)))) b a = 0 := by
        linarith [hz]
      linarith

/-- the diagram is symmetric -/
theorem voronoiDiagram_symmetric (V : Nat) (pairs : List (Nat × Nat)) (a b : Nat) (ha : a < V) (hb : b < V) :
    (voronoiDiagram V pairs).adj a b = (voronoiDiagram V pairs).adj b a :=
  symmeterize_symmetric ⟨V, vdRows pairs⟩ a b ha hb

/-! ## sparse input in column-compressed form -/

/-- `wgraph_from_coo_matrix` on `csc` input: the rows come back column by column, the adjacency matrix
is the one stored (repeated positions added, stored zeros kept as rows) -/
theorem fromSupportCM_adj (g : Graph) (i j : Nat) (hi : i < g.V) (hj : j < g.V) :
    (fromSupportCM g.V g.edges g.adj).adj i j = g.adj i j := by
  unfold Graph.adj fromSupportCM
  simp only
  set ES := (List.range g.V).flatMap (fun j' => (List.range g.V).filterMap (fun i' =>
        if hasEdge g.edges i' j' then some (i', j', adjL g.edges i' j') else none)) with hES
  have hmap : ∀ j', ((List.range g.V).filterMap (fun i' =>
        if hasEdge g.edges i' j' then some (i', j', adjL g.edges i' j') else none)).map swapE =
      (List.range g.V).filterMap (fun i' =>
        if hasEdge g.edges i' j' then some (j', i', adjL g.edges i' j') else none) := by
    intro j'
    rw [List.map_filterMap]
    apply List.filterMap_congr
    intro i' _
    by_cases h : hasEdge g.edges i' j' = true <;> simp [h, swapE]
  have hswap : ES.map swapE = (List.range g.V).flatMap (fun j' => (List.range g.V).filterMap (fun i' =>
        if hasEdge g.edges i' j' then some (j', i', adjL g.edges i' j') else none)) := by
    rw [hES, List.map_flatMap]
    simp only [hmap]
  rw [← adjL_swap ES j i, hswap]
  rw [adjL_matrix g.V (fun j' i' => if hasEdge g.edges i' j' then some (j', i', adjL g.edges i' j') else none)
    (fun j' i' => adjL g.edges i' j')
    (fun j' i' => by by_cases h : hasEdge g.edges i' j' = true <;> simp [h]) j i hj hi]
  by_cases h : hasEdge g.edges i j = true
  · simp [h]
  · simp only [h]
    exact (adjL_zero_of_not_hasEdge g.edges i j (by simpa using h)).symm

/-! ## `main_cc` -/

/-- **`main_cc()`** on a symmetric graph with at least one edge: the vertices returned are exactly one
reachability class — the one labelled `b` — and no class is larger (`np.argmax`: among several largest
classes the one numbered first, i.e. the one containing the smallest vertex). -/
theorem mainCC_largest (g : Graph) (hw : WF g) (hs : Sym g) (hE : g.edges.length ≠ 0) :
    ∃ b L, mainCC g = some L ∧ b < numCC (cc g) ∧
      (∀ v, v ∈ L ↔ v < g.V ∧ (cc g).getD v none = some b) ∧
      (∀ j, j < numCC (cc g) →
        ((cc g).filter (· == some j)).length ≤ ((cc g).filter (· == some b)).length) ∧
      (∀ u v, u ∈ L → v < g.V → (v ∈ L ↔ Conn g u v)) := by
  obtain ⟨k, hC, h0, hused⟩ := cc_inv' g hw hs
  have hk := numCC_eq (cc g) k hC.lt hused
  set pop := (List.range (numCC (cc g))).map (fun j => ((cc g).filter (· == some j)).length) with hpop
  have hV : 0 < g.V := by
    cases hge : g.edges with
    | nil => rw [hge] at hE; simp at hE
    | cons e es => have := (hw e (by rw [hge]; simp)).1; omega
  have hk1 : 0 < numCC (cc g) := by
    obtain ⟨j, hj⟩ := cc_labelled g hw hs 0 hV
    have := hC.lt 0 j hj
    omega
  have hne : pop ≠ [] := by
    intro h
    have : pop.length = 0 := by rw [h]; rfl
    simp [hpop] at this
    omega
  obtain ⟨hlt, hmax, _⟩ := argmaxN_spec pop hne
  have hlen : pop.length = numCC (cc g) := by simp [hpop]
  have hget : ∀ j, j < numCC (cc g) → pop.getD j 0 = ((cc g).filter (· == some j)).length := by
    intro j hj
    rw [List.getD_eq_getElem?_getD, hpop, List.getElem?_map, List.getElem?_range hj]
    rfl
  refine ⟨argmaxN pop, (List.range g.V).filter (fun v => (cc g).getD v none == some (argmaxN pop)), ?_, ?_, ?_, ?_, ?_⟩
  · unfold mainCC
    rw [if_neg hE]
  · omega
  · intro v
    simp only [List.mem_filter, List.mem_range, beq_iff_eq]
  · intro j hj
    have := hmax j (by omega)
    rw [hget j hj, hget _ (by omega)] at this
    exact this
  · intro u v hu hv
    simp only [List.mem_filter, List.mem_range, beq_iff_eq] at hu ⊢
    constructor
    · intro hv'
      exact hC.conn u v _ hu.2 hv'.2
    · intro hc
      exact ⟨hv, cinv_conn_label g hs k (cc g) hC u v _ hc hu.2⟩

/-! ## Non-vacuity -/

/-- the slice of vertex 2 (two parallel rows to vertex 1) through the theorem — `mergeSort` itself does
    not reduce in the kernel -/
example : (cnSlice ⟨4, [(2, 1, 1), (0, 3, 2), (0, 1, 3), (2, 1, 4), (3, 0, 5)]⟩ 2).Perm [(1, 1), (1, 4)] := by
  have hw : WF ⟨4, [(2, 1, 1), (0, 3, 2), (0, 1, 3), (2, 1, 4), (3, 0, 5)]⟩ := by
    intro e he; simp only [List.mem_cons, List.not_mem_nil, or_false] at he
    rcases he with rfl | rfl | rfl | rfl | rfl <;> decide
  have := compact_slice_perm _ hw 2 (by decide)
  rwa [show outEdges ⟨4, [(2, 1, 1), (0, 3, 2), (0, 1, 3), (2, 1, 4), (3, 0, 5)]⟩ 2 = [(1, 1), (1, 4)] from by
    decide +kernel] at this
example : cnExact 4 = true := by decide
/-- a directed graph with its exact scalings (`1/2`, `1`, …): the certificate is met -/
example : normalize2Cert ⟨2, [(0, 1, 4)]⟩ [1, 1 / 2] [1 / 2, 1] = true := by decide +kernel
example : (normalize2 ⟨2, [(0, 1, 4)]⟩ [1, 1 / 2] [1 / 2, 1]).edges = [(0, 1, 4)] := by decide +kernel
example : (removeEdges ⟨3, [(0, 1, 1), (1, 2, 2), (2, 0, 3)]⟩ [-1, 0, 2]).edges = [(0, 1, 1), (2, 0, 3)] := by
  decide +kernel
example : nearest2OK [4, 1, 1, 9] 1 2 = true := by decide +kernel
example : (voronoiDiagram 2 [(0, 1), (1, 0), (1, 0)]).edges = [(0, 1, 3 / 2), (1, 0, 3 / 2)] := by decide +kernel
example : (fromSupportCM 3 [(0, 1, 1), (1, 0, 2), (0, 1, 3)] (adjL [(0, 1, 1), (1, 0, 2), (0, 1, 3)])).edges
    = [(1, 0, 2), (0, 1, 4)] := by decide +kernel
example : mainCC ⟨4, [(0, 3, 1), (3, 0, 1)]⟩ = some [0, 3] := by decide +kernel

end NipyVerif.C11
