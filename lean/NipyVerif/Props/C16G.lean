/-
C16 (part G) — `fff_gen_stats.c`: generated permutations and combinations are valid and distinct for distinct
magic numbers within the enumeration range.

The C16 model of `fff_permutation` / `fff_combination` (the one the C16 driver runs against the re-compiled C)
is proved equal to the C17 model of the same routines, and the enumeration theorems of `Props/C17.lean`
(factoradic / combinatorial number system) are carried over, so the clause of C16 is a theorem about the
C16 model and not only an exhaustive oracle.
-/
import NipyVerif.Lemmas.C16G

namespace NipyVerif.C16

/-- **distinct permutations for distinct seeds**: magic numbers `m1 ≠ m2` in `[0, n!)` give different
    permutations (`fff_permutation` decodes the factorial number system). -/
theorem permutation_distinct (n m1 m2 : Nat) (h1 : m1 < n.factorial) (h2 : m2 < n.factorial)
    (h : permutation n m1 = permutation n m2) : m1 = m2 := by
  rw [permutation_eq_C17, permutation_eq_C17] at h
  exact C17.permutation_injective n m1 m2 h1 h2 h

/-- the `n!` magic numbers of the enumeration range produce `n!` different permutations: every permutation of
    `0 … n-1` exactly once. -/
theorem permutation_enumerates (n : Nat) :
    ((Finset.range n.factorial).image (permutation n)).card = n.factorial := by
  have : permutation n = C17.permutation n := funext (permutation_eq_C17 n)
  rw [this]; exact C17.permutation_enumerates n

/-- `_combinations(k, n)` (multiply, then divide, in that order) is the binomial coefficient. -/
theorem combinations_eq_choose (k n : Nat) (h : k ≤ n) : combinations k n = n.choose k := by
  rw [combinations_eq_C17]; exact C17.combinations_eq_choose k n h

/-- **valid combinations**: for every magic number `fff_combination` writes `k` strictly increasing indices
    below `n` (a `k`-subset of `0 … n-1`). -/
theorem combination_valid (k n magic : Nat) (h : k ≤ n) :
    (combination k n magic).length = k ∧ (∀ x ∈ combination k n magic, x < n) ∧
      (combination k n magic).Pairwise (· < ·) := by
  rw [combination_eq_C17 k n magic h]; exact C17.combination_sorted_subset k n magic h

/-- **distinct combinations for distinct seeds**: magic numbers `m1 ≠ m2` in `[0, C(n,k))` give different
    subsets (combinatorial number system). -/
theorem combination_distinct (k n m1 m2 : Nat) (h : k ≤ n) (h1 : m1 < n.choose k) (h2 : m2 < n.choose k)
    (he : combination k n m1 = combination k n m2) : m1 = m2 := by
  rw [combination_eq_C17 k n m1 h, combination_eq_C17 k n m2 h] at he
  exact C17.combination_injective k n m1 m2 h h1 h2 he

/-- beyond the enumeration range the magic number is reduced modulo `C(n,k)` (`m = magic % c`). -/
theorem combination_periodic (k n magic : Nat) (h : k ≤ n) :
    combination k n (magic + n.choose k) = combination k n magic := by
  unfold combination
  rw [combinations_eq_choose k n h, Nat.add_mod_right]

example : permutation 3 4 = [1, 2, 0] := by decide
example : combination 2 4 3 = [1, 2] := by decide

end NipyVerif.C16
