/-
C05 — property theorems about the model in `NipyVerif.Model.C05`
(linear-model fits are least-squares optimal and implementation-independent).
Only property statements and their non-vacuity examples live here.
-/
import NipyVerif.Lemmas.C05

namespace NipyVerif.C05

/-! ## Optimality -/

/-- Clause "whitened residuals are orthogonal to the whitened design":
    `wXᵀ · wresid = 0` for every successful fit. -/
theorem normal_eq_orth {n p v : Nat} (wX : Mat n p) (wY : Mat n v) (f : Fit n p v)
    (h : fitW wX wY = some f) : mmul (tr wX) f.wresid = fun _ _ => 0 :=
  orth_of_spec (fitW_spec h).choose_spec.2

/-- the same for the four model classes (`OLSModel`, `WLSModel`, `ARModel`, `GLSModel`):
    the residuals of the whitened problem are orthogonal to the whitened design. -/
theorem fit_normal_eq_orth {n p v : Nat} (w : Whitener n) (X : Mat n p) (Y : Mat n v) (f : Fit n p v)
    (h : fit w X Y = some f) : mmul (tr (w.apply X)) f.wresid = fun _ _ => 0 := by
  rw [fit_eq] at h; exact normal_eq_orth _ _ _ h

/-- Clause "the fitted coefficients minimise the (whitened) residual sum of squares":
    no coefficient matrix `b` has a smaller RSS in any voxel `j`. -/
theorem ols_minimises {n p v : Nat} (wX : Mat n p) (wY : Mat n v) (f : Fit n p v)
    (h : fitW wX wY = some f) (b : Mat p v) (j : Fin v) :
    rss wX wY f.beta j ≤ rss wX wY b j :=
  rss_min_of_spec (fitW_spec h).choose_spec.2 b j

/-- … and for the four model classes, on the whitened design and data. -/
theorem fit_minimises {n p v : Nat} (w : Whitener n) (X : Mat n p) (Y : Mat n v) (f : Fit n p v)
    (h : fit w X Y = some f) (b : Mat p v) (j : Fin v) :
    rss (w.apply X) (w.apply Y) f.beta j ≤ rss (w.apply X) (w.apply Y) b j := by
  rw [fit_eq] at h; exact ols_minimises _ _ _ h b j

/-- the reported `SSE` (hence `dispersion·(n-p)` and `MSE·df_resid`) is the minimal RSS. -/
theorem sse_is_min_rss {n p v : Nat} (wX : Mat n p) (wY : Mat n v) (f : Fit n p v)
    (h : fitW wX wY = some f) (j : Fin v) : f.sse j = rss wX wY f.beta j := by
  have s := (fitW_spec h).choose_spec.2
  rw [s.sse]; unfold rss
  have : ∀ i, f.wresid i j = wY i j - mmul wX f.beta i j := by intro i; rw [s.wresid]; rfl
  simp only [this]

/-- `normalized_cov_beta = pinv · pinvᵀ` is the inverse of the Gram matrix of the whitened design. -/
theorem cov_is_gram_inverse {n p v : Nat} (wX : Mat n p) (wY : Mat n v) (f : Fit n p v)
    (h : fitW wX wY = some f) : mmul f.cov (mmul (tr wX) wX) = idm p :=
  cov_gram_of_spec (fitW_spec h).choose_spec.2

/-- `MSE = SSE / df_resid` coincides with `dispersion = SSE / (n - p)` -/
theorem mse_eq_dispersion {n p v : Nat} (wX : Mat n p) (wY : Mat n v) (f : Fit n p v)
    (h : fitW wX wY = some f) : mse f = f.dispersion := by
  have s := (fitW_spec h).choose_spec.2
  funext j; unfold mse; rw [s.dispersion, s.df]; push_cast; rfl

/-! ## Invariance: parametrisation of the design -/

/-- Clause "fitted values, residual variance … depend only on the design's column space, not on its
    parametrisation": for an invertible `T`, the fit on `X T` (any of the four covariance structures)
    has the same fitted values (`T β' = β`, hence `X T β' = X β`), whitened residuals, dispersion,
    degrees of freedom; a contrast `c` on `X` and its image `cᵀT` on `X T` have the same effect. -/
theorem reparam_invariant {n p v : Nat} (w : Whitener n) (X : Mat n p) (Y : Mat n v) (T Ti : Mat p p)
    (hT : mmul T Ti = idm p) (f f' : Fit n p v)
    (h : fit w X Y = some f) (h' : fit w (mmul X T) Y = some f') :
    mmul T f'.beta = f.beta ∧ predicted (mmul X T) f' = predicted X f ∧ f'.wresid = f.wresid ∧
      f'.dispersion = f.dispersion ∧ f'.dfResid = f.dfResid ∧
      ∀ c : Vec p, tEffect f' (fun a => fsum fun b => c b * T b a) = tEffect f c := by
  rw [fit_eq] at h h'
  rw [apply_mmul] at h'
  have hb := fitW_reparam_beta _ _ T Ti hT f f' h h'
  obtain ⟨G, _, s⟩ := fitW_spec h
  obtain ⟨G', _, s'⟩ := fitW_spec h'
  have hr : f'.wresid = f.wresid := by rw [s'.wresid, s.wresid, mmul_assoc, hb]
  have hs : f'.sse = f.sse := by rw [s'.sse, s.sse, hr]
  refine ⟨hb, ?_, hr, ?_, ?_, ?_⟩
  · unfold predicted; rw [mmul_assoc, hb]
  · rw [s'.dispersion, s.dispersion, hs]
  · rw [s'.df, s.df]
  · intro c; funext j
    have : ∀ b, f.beta b j = ∑ a, T b a * f'.beta a j := by
      intro b; rw [← hb]; simp [mmul, fsum_eq]
    simp only [tEffect, fsum_eq, this, Finset.sum_mul, Finset.mul_sum]
    rw [Finset.sum_comm]
    apply Finset.sum_congr rfl; intro b _
    apply Finset.sum_congr rfl; intro a _; ring

/-- Clause "contrast statistics depend only on the column space": the normalised covariance
    transforms as `T cov' Tᵀ = cov`, so `(cᵀT) cov' (cᵀT)ᵀ = c cov cᵀ` for every contrast, and with
    equal dispersion (`reparam_invariant`) every t and F statistic is unchanged. -/
theorem reparam_covariance {n p v : Nat} (w : Whitener n) (X : Mat n p) (Y : Mat n v) (T Ti : Mat p p)
    (hT : mmul T Ti = idm p) (f f' : Fit n p v)
    (h : fit w X Y = some f) (h' : fit w (mmul X T) Y = some f') :
    mmul (mmul T f'.cov) (tr T) = f.cov := by
  rw [fit_eq] at h h'
  rw [apply_mmul] at h'
  exact fitW_reparam_cov _ _ T Ti hT f f' h h'

/-! ## Invariance: order and grouping of voxels, rescaling -/

/-- Clause "… not on the order or grouping of voxels": for *any* map `σ` of voxel indices
    (a permutation, a single voxel, the voxels of one AR(1) bin, with or without repeats) fitting the
    selected columns gives exactly the selected columns of the full fit. -/
theorem voxelwise {n p v v' : Nat} (w : Whitener n) (X : Mat n p) (Y : Mat n v) (σ : Fin v' → Fin v)
    (f : Fit n p v) (h : fit w X Y = some f) :
    ∃ f', fit w X (fun i k => Y i (σ k)) = some f' ∧
      f'.beta = (fun a k => f.beta a (σ k)) ∧ f'.wresid = (fun i k => f.wresid i (σ k)) ∧
      f'.dispersion = (fun k => f.dispersion (σ k)) ∧ f'.cov = f.cov ∧ f'.dfResid = f.dfResid := by
  rw [fit_eq] at h
  obtain ⟨f', h1, h2, h3, _, h5, h6, h7⟩ := fitW_select _ _ σ f h
  refine ⟨f', ?_, h2, h3, h5, h6, h7⟩
  rw [fit_eq, apply_select w σ Y]; exact h1

/-- the per-bin refit of `GeneralLinearModel.fit(model='ar1')` — `ARModel(X, l/steps)` on the columns
    `labels_ == l` — equals, column for column, the AR fit of the whole block with that coefficient:
    a voxel's estimates depend on its own data and its own label only. -/
theorem glm_ar1_group_fit {n p v : Nat} (steps : Nat) (X : Mat n p) (Y : Mat n v) (lab : Fin v → Int)
    (l : Int) (f : Fit n p v) (h : fit (.ar [(l : Rat) / (steps : Rat)]) X Y = some f) :
    ∃ g, groupFit steps X Y lab l = some g ∧
      g.beta = (fun a k => f.beta a ((group lab l).get k)) ∧
      mse g = (fun k => mse f ((group lab l).get k)) := by
  obtain ⟨g, hg, hb, _, hd, _, hdf⟩ := voxelwise _ X Y (fun k => (group lab l).get k) f h
  refine ⟨g, hg, hb, ?_⟩
  rw [fit_eq] at h hg
  rw [mse_eq_dispersion _ _ g hg, mse_eq_dispersion _ _ f h, hd]

/-- every voxel of a bin is really a member of that bin (the scatter `beta[:, labels_ == l] = …`
    writes each group column back to a voxel carrying label `l`). -/
theorem group_label {v : Nat} (lab : Fin v → Int) (l : Int) (k : Fin (group lab l).length) :
    lab ((group lab l).get k) = l := by
  have hm : (group lab l).get k ∈ group lab l := List.get_mem _ k
  have := (List.mem_filter.mp hm).2
  simpa using this

/-- Clause "… or on positive rescaling of the data beyond the obvious factor": scaling the data by
    `a` scales coefficients and residuals by `a`, the dispersion by `a²`, and leaves the normalised
    covariance and degrees of freedom alone (so t and F statistics are unchanged for `a > 0`). -/
theorem scale_equivariant {n p v : Nat} (w : Whitener n) (X : Mat n p) (Y : Mat n v) (a : Rat)
    (f : Fit n p v) (h : fit w X Y = some f) :
    ∃ f', fit w X (fun i k => a * Y i k) = some f' ∧
      f'.beta = (fun l k => a * f.beta l k) ∧ f'.wresid = (fun i k => a * f.wresid i k) ∧
      f'.dispersion = (fun k => a * a * f.dispersion k) ∧ f'.cov = f.cov ∧ f'.dfResid = f.dfResid := by
  rw [fit_eq] at h
  obtain ⟨f', h1, h2⟩ := fitW_smul _ _ a f h
  refine ⟨f', ?_, h2⟩
  rw [fit_eq, apply_smul]; exact h1

/-- the t statistic `effect / sd` is scale invariant for `a > 0`: `effect² · var' = effect'² · var`
    and the effects have the same sign. -/
theorem t_stat_scale_invariant {n p v : Nat} (f f' : Fit n p v) (a : Rat) (_ha : 0 < a)
    (hb : f'.beta = fun l k => a * f.beta l k) (hd : f'.dispersion = fun k => a * a * f.dispersion k)
    (hc : f'.cov = f.cov) (c : Vec p) (j : Fin v) :
    tEffect f' c j = a * tEffect f c j ∧ tVar f' c j = a * a * tVar f c j := by
  constructor
  · simp only [tEffect, fsum_eq, hb, Finset.mul_sum]
    apply Finset.sum_congr rfl; intro l _; ring
  · simp only [tVar, hc, hd]; ring

/-! ## Reductions between the model classes -/

/-- "Weighted least squares with unit weights … reduce exactly to ordinary least squares" -/
theorem wls_unit_eq_ols {n p v : Nat} (X : Mat n p) (Y : Mat n v) :
    fit (.wls fun _ => 1) X Y = fit .ols X Y := by
  have : ∀ (k : Nat) (A : Mat n k), whitenWLS (fun _ => 1) A = A := by
    intro k A; funext i j; simp [whitenWLS]
  simp only [fit_eq, Whitener.apply, this]

/-- "autoregressive fits with zero coefficients … reduce exactly to ordinary least squares",
    for every order `m` (`ARModel(X, m)` initialises `rho = zeros(m)`). -/
theorem ar_zero_eq_ols {n p v : Nat} (m : Nat) (X : Mat n p) (Y : Mat n v) :
    fit (.ar (List.replicate m 0)) X Y = fit .ols X Y := by
  simp only [fit_eq, Whitener.apply, whitenAR, arLoop_zero]

/-- "generalised least squares with identity … covariance reduce exactly to ordinary … least squares" -/
theorem gls_identity_eq_ols {n p v : Nat} (X : Mat n p) (Y : Mat n v) :
    fit (.gls (idm n)) X Y = fit .ols X Y := by
  simp only [fit_eq, Whitener.apply, whitenGLS, idm_mmul]

/-- "… or diagonal covariance reduce exactly to … weighted least squares": with
    `cholsigmainv = diag(c)` (covariance `diag(1/c²)`) GLS is WLS with weights `c²`. -/
theorem gls_diag_eq_wls {n p v : Nat} (c : Vec n) (X : Mat n p) (Y : Mat n v) :
    fit (.gls (diag c)) X Y = fit (.wls c) X Y := by
  simp only [fit_eq, Whitener.apply, whitenGLS_diag]

/-- AR(1) whitening, closed form of the loop: first row unchanged, then `x_t - ρ x_{t-1}`. -/
theorem whitenAR_one {n k : Nat} (ρ : Rat) (X : Mat n k) (t : Fin n) (j : Fin k) :
    whitenAR [ρ] X t j = if h : 1 ≤ t.1 then X t j - ρ * X ⟨t.1 - 1, by omega⟩ j else X t j := by
  simp only [whitenAR, arLoop, arStep, Nat.zero_add]

/-! ## The separate implementations denote the same estimates -/

/-- "the library's separate GLM implementations … return the same estimates, variances and degrees of
    freedom": labs `ols` (β, nvbeta, s2, dof), the models package `OLSModel.fit` (theta,
    normalized_cov_beta, dispersion, df_resid) and the fMRI `GeneralLinearModel` (`get_beta`,
    `get_mse`) agree field by field, and so do their t-contrast effect and variance. -/
theorem implementations_agree {n p v : Nat} (X : Mat n p) (Y : Mat n v) (l : LabsFit p v)
    (h : labsOls X Y = some l) :
    ∃ f, fit .ols X Y = some f ∧ glmOls X Y = some (f.beta, f.dispersion) ∧
      l.beta = f.beta ∧ l.nvbeta = f.cov ∧ l.s2 = f.dispersion ∧ l.dof = ((f.dfResid : Int) : Rat) ∧
      ∀ c : Vec p, labsTEffect l c = tEffect f c ∧ labsTVar l c = tVar f c := by
  obtain ⟨f, hf, hb, hc, hs, hd⟩ := labsOls_spec h
  have hfit : fit .ols X Y = some f := by rw [fit_eq]; exact hf
  refine ⟨f, hfit, ?_, hb, hc, hs, hd, ?_⟩
  · unfold glmOls; rw [hfit]; simp only [Option.map_some]
    rw [mse_eq_dispersion X Y f hf]
  · intro c; constructor
    · funext j; simp only [labsTEffect, tEffect, hb]
    · funext j; simp only [labsTVar, tVar, hc, hs]

/-- conversely labs `ols` succeeds whenever the models-package fit does (same certified inverse) -/
theorem labs_succeeds_iff {n p v : Nat} (X : Mat n p) (Y : Mat n v) :
    (labsOls X Y).isSome = (fit .ols X Y).isSome := by
  rw [fit_eq]
  unfold labsOls fitW
  simp only [ofArr2_toArr2, Whitener.apply]
  split <;> rfl

/-! ## Kalman engine -/

/-- the filter has seen every row, and its `s2` is `ssd / n` — *not* `ssd / (n - p)`; the wrapper
    `kalman.ols` returns this `s2` (the corrected `s2_cor = n/(n-p) · s2` is computed by the C code
    but not used).  This is the recorded finding `kalman-s2-uncorrected`. -/
theorem kalman_s2_uncorrected {n p : Nat} (X : Mat n p) (y : Vec n) (hn : 0 < n) :
    (kfFit X y).t = n ∧ (kfFit X y).s2 = (kfFit X y).ssd / (n : Rat) := by
  have key : ∀ rows : List (Vec p × Rat),
      (kfRun kfInitVar rows).t = rows.length ∧
        (rows ≠ [] → (kfRun kfInitVar rows).s2 = (kfRun kfInitVar rows).ssd / (rows.length : Rat)) := by
    intro rows
    induction rows using List.reverseRecOn with
    | nil => exact ⟨rfl, fun h => absurd rfl h⟩
    | append_singleton rs r ih =>
        have : kfRun kfInitVar (rs ++ [r]) = kfStep (kfRun kfInitVar rs) r.1 r.2 := by
          simp [kfRun, List.foldl_append]
        rw [this]
        refine ⟨?_, fun _ => ?_⟩
        · simp [kfStep, ih.1]
        · simp [kfStep, ih.1]
  have hlen : (kfRows X y).length = n := by simp [kfRows]
  obtain ⟨h1, h2⟩ := key (kfRows X y)
  have hne : kfRows X y ≠ [] := by
    intro h; rw [h] at hlen; simp at hlen; omega
  unfold kfFit
  rw [h1, h2 hne, hlen]
  exact ⟨rfl, rfl⟩

/-- "…the labs GLM with its ordinary and Kalman-filter engines return the same estimates": the
    Kalman recursion of `fff_glm_kalman.c` (recursive least squares from the prior `b = 0`,
    `Vb = 1e7·I`) ends exactly at the batch solution of the *regularised* normal equations
    `(XᵀX + λI) b = Xᵀy`, `(XᵀX + λI) Vb = I` with `λ = 1e-7` — for every design, rank deficient or
    not.  (Sherman–Morrison induction over the rows.)  Hence `b` differs from the OLS estimate by
    `λ (XᵀX + λI)⁻¹ b_ols`, negligible unless `XᵀX` has eigenvalues near `1e-7`. -/
theorem kalman_is_ridge {n p : Nat} (X : Mat n p) (y : Vec n) :
    (∀ i, ∑ k, ((if i = k then 1 / kfInitVar else 0) + ∑ t, X t i * X t k) * (kfFit X y).b k
        = ∑ t, y t * X t i) ∧
    (∀ i j, ∑ k, ((if i = k then 1 / kfInitVar else 0) + ∑ t, X t i * X t k) * (kfFit X y).P k j
        = if i = j then 1 else 0) :=
  ⟨(kfFit_inv X y).Ab, (kfFit_inv X y).AP⟩

/-- the filter covariance `Vb` is symmetric after every fit (BLAS `dsymv` reads only one triangle of
    it: the triangle is immaterial). -/
theorem kalman_cov_symmetric {n p : Nat} (X : Mat n p) (y : Vec n) (i j : Fin p) :
    (kfFit X y).P i j = (kfFit X y).P j i := (kfFit_inv X y).sym i j

/-- the innovation variance `Vy = x·Vb·x + 1` by which the C code divides is never zero: the
    regularised information matrix is positive semi-definite at every step. -/
theorem kalman_information_psd {n p : Nat} (X : Mat n p) (y : Vec n) (z : Vec p) :
    0 ≤ ∑ i, z i * ∑ k, ((if i = k then 1 / kfInitVar else 0) + ∑ t, X t i * X t k) * z k :=
  (kfFit_inv X y).psd z

/-! ## Non-vacuity: concrete non-trivial objects satisfy the hypotheses used above -/

-- a 3×2 design with intercept and slope, one voxel: every fit hypothesis `… = some f` is satisfiable
example : (fit .ols exX exY).isSome = true := by decide +kernel
example : (fit (.wls fun i => (i.1 : Rat) + 1) exX exY).isSome = true := by decide +kernel
example : (fit (.ar [1 / 2]) exX exY).isSome = true := by decide +kernel
example : (fit (.gls (diag fun i => (i.1 : Rat) + 1)) exX exY).isSome = true := by decide +kernel
example : (labsOls exX exY).isSome = true := by decide +kernel
-- an invertible, non-orthogonal reparametrisation and the fit on the reparametrised design
example : mmul exT exTi = idm 2 := by funext i j; fin_cases i <;> fin_cases j <;> decide +kernel
example : (fit (.ar [1 / 2]) (mmul exX exT) exY).isSome = true := by decide +kernel
-- the least-squares fit is not trivial here: the residual is non-zero
example : ((fit .ols exX exY).map fun f => f.sse 0) = some (3 / 2) := by decide +kernel

end NipyVerif.C05
