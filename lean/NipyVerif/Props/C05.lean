/-
C05 — property theorems about the model in `NipyVerif.Model.C05`.
-/
import NipyVerif.Lemmas.C05

namespace NipyVerif.C05

end NipyVerif.C05
