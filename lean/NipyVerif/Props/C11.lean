/-
C11 — property theorems about the model in `NipyVerif.Model.C11`.
-/
import NipyVerif.Lemmas.C11

namespace NipyVerif.C11

/-- Shortest-path certificate: if the seeds are at 0, every edge out of a finite vertex is
relaxed and every finite value is the length of a real path from a seed, then `d` is the true
distance: finite values are minimum path lengths and `none` (∞) means unreachable.
Arbitrary directed multigraph (loops, parallel edges, any weights). -/
theorem sp_certificate_sound (g : Graph) (S : List Nat) (d : Nat → Option Rat)
    (h0 : ∀ s ∈ S, d s = some 0)
    (hrel : ∀ u v w a, (u, v, w) ∈ g.edges → d u = some a → ∃ b, d v = some b ∧ b ≤ a + w)
    (hach : ∀ v b, d v = some b → ∃ s ∈ S, Path g s v b) (v : Nat) :
    (∀ b, d v = some b → (∃ s ∈ S, Path g s v b) ∧ ∀ s ∈ S, ∀ l, Path g s v l → b ≤ l) ∧
    (d v = none → ∀ s ∈ S, ∀ l, ¬ Path g s v l) := by
  have key : ∀ s ∈ S, ∀ v l, Path g s v l → ∃ b, d v = some b ∧ b ≤ l := by
    intro s hs v l hp
    induction hp with
    | nil => exact ⟨0, h0 s hs, le_refl _⟩
    | snoc _ he ih =>
        obtain ⟨a, ha, hal⟩ := ih
        obtain ⟨b, hb, hbl⟩ := hrel _ _ _ a he ha
        exact ⟨b, hb, by linarith⟩
  refine ⟨fun b hb => ⟨hach v b hb, fun s hs l hp => ?_⟩, fun hn s hs l hp => ?_⟩
  · obtain ⟨b', hb', hl⟩ := key s hs v l hp
    rw [hb] at hb'; cases hb'; exact hl
  · obtain ⟨b', hb', _⟩ := key s hs v l hp
    rw [hn] at hb'; cases hb'

end NipyVerif.C11
