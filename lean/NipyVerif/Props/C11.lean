/-
C11 — property theorems about the model in `NipyVerif.Model.C11`.
Only property statements and their non-vacuity examples live here.
-/
import NipyVerif.Lemmas.C11

namespace NipyVerif.C11

/-! ## Shortest paths -/

/-- Shortest-path certificate (clause "shortest-path distances equal the true minimum path
lengths, infinite when unreachable"): if the seeds are at 0, every edge out of a finite vertex is
relaxed and every finite value is the length of a real walk from a seed, then `d` is the true
distance.  Arbitrary directed multigraph (loops, parallel edges, zero weights). -/
theorem sp_certificate_sound (g : Graph) (S : List Nat) (d : Nat → Option Rat)
    (h0 : ∀ s ∈ S, d s = some 0)
    (hrel : ∀ u v w a, (u, v, w) ∈ g.edges → d u = some a → ∃ b, d v = some b ∧ b ≤ a + w)
    (hach : ∀ v b, d v = some b → ∃ s ∈ S, Path g s v b) (v : Nat) :
    (∀ b, d v = some b → (∃ s ∈ S, Path g s v b) ∧ ∀ s ∈ S, ∀ l, Path g s v l → b ≤ l) ∧
    (d v = none → ∀ s ∈ S, ∀ l, ¬ Path g s v l) := by
  have key : ∀ s ∈ S, ∀ v l, Path g s v l → ∃ b, d v = some b ∧ b ≤ l := by
    intro s hs v l hp
    induction hp with
    | nil => exact ⟨0, h0 s hs, le_refl _⟩
    | snoc _ he ih =>
        obtain ⟨a, ha, hal⟩ := ih
        obtain ⟨b, hb, hbl⟩ := hrel _ _ _ a he ha
        exact ⟨b, hb, by linarith⟩
  refine ⟨fun b hb => ⟨hach v b hb, fun s hs l hp => ?_⟩, fun hn s hs l hp => ?_⟩
  · obtain ⟨b', hb', hl⟩ := key s hs v l hp
    rw [hb] at hb'; cases hb'; exact hl
  · obtain ⟨b', hb', _⟩ := key s hs v l hp
    rw [hn] at hb'; cases hb'

/-- Every finite entry that `dijkstra` (vectorised relaxation) or `voronoi_labelling`
(sequential relaxation) stores is the length of a real walk from one of the seeds — for every
graph, seed list and relaxation mode, whatever the weights. -/
theorem sssp_dist_achievable (g : Graph) (vec : Bool) (seeds : List Nat) (v : Nat) (b : Rat)
    (h : (sssp g vec seeds).dist.getD v none = some b) : ∃ s ∈ seeds, Path g s v b :=
  (iter_inv g seeds vec g.V _ (init_inv g seeds)).1 v b h

/-- `dijkstra` returns the true distances whenever the relaxation certificate (seeds at 0, every
edge relaxed), which the model evaluates on its own output and the correspondence run observes to
be `ok` on every case, holds.  PARTIAL: the loop invariant showing that the certificate always
holds for non-negative weights (popped keys are monotone, `V` iterations suffice) is not proved. -/
theorem dijkstra_correct_partial (g : Graph) (seeds : List Nat)
    (hc : certOK g seeds (dijkstra g seeds) = true) (v : Nat) :
    (∀ b, (dijkstra g seeds).getD v none = some b →
        (∃ s ∈ seeds, Path g s v b) ∧ ∀ s ∈ seeds, ∀ l, Path g s v l → b ≤ l) ∧
    ((dijkstra g seeds).getD v none = none → ∀ s ∈ seeds, ∀ l, ¬ Path g s v l) := by
  simp only [certOK, Bool.and_eq_true, seedsZero, relaxedAll, List.all_eq_true, beq_iff_eq] at hc
  apply sp_certificate_sound g seeds (fun v => (dijkstra g seeds).getD v none)
  · exact hc.1
  · intro u w' w a he hu
    have := hc.2 (u, w', w) he
    simp only [hu] at this
    cases hv : (dijkstra g seeds).getD w' none with
    | none => rw [hv] at this; simp at this
    | some b => rw [hv] at this; simp only [decide_eq_true_eq] at this; exact ⟨b, rfl, this⟩
  · intro v b hv
    exact sssp_dist_achievable g true seeds v b hv

/-- Voronoi clause ("assigns each reachable vertex to a nearest seed in graph distance and marks
unreachable vertices"): when the Voronoi certificate holds (evaluated by the model on its output,
observed `ok` on every case), an unlabelled vertex is reachable from no seed, and a vertex
labelled `i` is joined to seed number `i` by a walk that is no longer than any walk from any seed.
PARTIAL for the same reason as `dijkstra_correct_partial`. -/
theorem voronoi_nearest_partial (g : Graph) (seeds : List Nat) (lab : List (Option Nat))
    (hc : voronoiCert g seeds lab = true) (v : Nat) (hv : v < g.V) :
    (lab.getD v none = none → ∀ s ∈ seeds, ∀ l, ¬ Path g s v l) ∧
    (∀ i, lab.getD v none = some i → ∃ s b, seeds[i]? = some s ∧ Path g s v b ∧
        ∀ s' ∈ seeds, ∀ l, Path g s' v l → b ≤ l) := by
  simp only [voronoiCert, Bool.and_eq_true, List.all_eq_true, List.mem_range] at hc
  obtain ⟨⟨hS, hI⟩, hL⟩ := hc
  have hLv := hL v hv
  have hDS := dijkstra_correct_partial g seeds hS v
  constructor
  · intro hn
    rw [hn] at hLv
    exact hDS.2 (by simpa using hLv)
  · intro i hi
    rw [hi] at hLv
    simp only at hLv
    cases hp : (seeds.map (fun s => (s, dijkstra g [s])))[i]? with
    | none => rw [hp] at hLv; simp at hLv
    | some p =>
        rw [hp] at hLv
        simp only [Bool.and_eq_true, beq_iff_eq] at hLv
        obtain ⟨hsome, heq⟩ := hLv
        have hmem : p ∈ seeds.map (fun s => (s, dijkstra g [s])) := List.mem_of_getElem? hp
        have hcert := hI p hmem
        rw [List.getElem?_map] at hp
        cases hs : seeds[i]? with
        | none => rw [hs] at hp; simp at hp
        | some s =>
            rw [hs] at hp
            simp only [Option.map_some, Option.some.injEq] at hp
            subst hp
            simp only at hcert heq
            obtain ⟨b, hb⟩ := Option.isSome_iff_exists.mp hsome
            rw [hb] at heq
            have h1 := (dijkstra_correct_partial g [s] hcert v).1 b heq
            obtain ⟨⟨s0, hs0, hpath⟩, _⟩ := h1
            simp only [List.mem_singleton] at hs0
            subst hs0
            exact ⟨s0, b, rfl, hpath, (hDS.1 b hb).2⟩

/-! ## Queries describe the current graph (operation histories) -/

/-- Walks, hence true distances, reachability and nearest seeds, depend only on the *set* of
weighted edges of the graph: any re-ordering or re-sorting of the edge arrays (as
`compact_neighb` or a structural operation performs) cannot change what a query must answer. -/
theorem path_edges_congr (g1 g2 : Graph) (h : ∀ e, e ∈ g1.edges ↔ e ∈ g2.edges) (s v : Nat) (l : Rat) :
    Path g1 s v l ↔ Path g2 s v l := by
  constructor
  · intro hp
    induction hp with
    | nil => exact Path.nil _
    | snoc _ he ih => exact Path.snoc ih ((h _).mp he)
  · intro hp
    induction hp with
    | nil => exact Path.nil _
    | snoc _ he ih => exact Path.snoc ih ((h _).mpr he)

/-- After any history of structural operations on one object, `dijkstra` answers for the graph the
object holds *now* (`runHistory g ops`): its finite entries are minimum walk lengths of that graph
and `inf` means unreachable in it — under the same certificate as `dijkstra_correct_partial`,
which the correspondence run evaluates after every step of every generated history.  PARTIAL for
the reason stated there. -/
theorem history_dijkstra_partial (g : Graph) (ops : List Op) (seeds : List Nat)
    (hc : certOK (runHistory g ops) seeds (dijkstra (runHistory g ops) seeds) = true) (v : Nat) :
    (∀ b, (dijkstra (runHistory g ops) seeds).getD v none = some b →
        (∃ s ∈ seeds, Path (runHistory g ops) s v b) ∧
        ∀ s ∈ seeds, ∀ l, Path (runHistory g ops) s v l → b ≤ l) ∧
    ((dijkstra (runHistory g ops) seeds).getD v none = none →
        ∀ s ∈ seeds, ∀ l, ¬ Path (runHistory g ops) s v l) :=
  dijkstra_correct_partial (runHistory g ops) seeds hc v

/-- a history step by step: the state after `ops ++ [op]` is the operation applied to the state
after `ops` (no other memory) -/
theorem runHistory_snoc (g : Graph) (ops : List Op) (op : Op) :
    runHistory g (ops ++ [op]) = applyOp (runHistory g ops) op := by
  simp [runHistory, List.foldl_append]

/-! ## Connected components -/

/-- Component clause, direction "reachable ⇒ same label": when the closure certificate holds
(every vertex labelled, every edge joins equal labels — evaluated by the model on the output of
`cc`, observed `ok` on every symmetric case) two vertices joined by a chain of edges carry the
same label.  PARTIAL: that `lil_cc` always produces a closed labelling, and that equal labels
imply a chain, are checked by the oracle against union–find, not proved. -/
theorem cc_connected_same_label_partial (g : Graph) (lab : List (Option Nat))
    (hc : ccClosed g lab = true) (u v : Nat) (h : Conn g u v) :
    lab.getD u none = lab.getD v none := by
  simp only [ccClosed, Bool.and_eq_true, List.all_eq_true, beq_iff_eq] at hc
  induction h with
  | refl => rfl
  | step _ he ih =>
      rcases he with he | he
      · rw [ih]; exact hc.2 _ he
      · rw [ih]; exact (hc.2 _ he).symm

/-! ## Spanning forest -/

/-- Spanning-forest clause, the part proved: every edge `kruskal` selects is an edge of the graph
(or the reverse of one) with its own weight.  Acyclicity, spanning and minimality are oracle-only
(union–find and a reference minimum spanning forest on every case). -/
theorem kruskal_edges_subset (g : Graph) (x : Edge) (h : x ∈ kruskal g) :
    x ∈ g.edges ∨ (x.2.1, x.1, x.2.2) ∈ g.edges := by
  unfold kruskal at h
  rcases kruskalLoop_subset _ _ _ _ x h with h | h | h
  · simp at h
  · exact Or.inl (by simpa [sortByWeight, List.mem_mergeSort] using h)
  · exact Or.inr (by simpa [sortByWeight, List.mem_mergeSort] using h)

/-! ## Structural operations against the weighted adjacency matrix -/

/-- `wgraph_from_adjacency`: the graph built from a matrix has that matrix as adjacency. -/
theorem fromDense_adj (V : Nat) (M : Nat → Nat → Rat) (i j : Nat) (hi : i < V) (hj : j < V) :
    (fromDense V M).adj i j = M i j := fromDense_adj' V M i j hi hj

/-- `symmeterize`: the adjacency becomes the symmetric part `(A + Aᵀ)/2` (parallel edges, loops
and zero weights included). -/
theorem symmeterize_adj (g : Graph) (i j : Nat) (hi : i < g.V) (hj : j < g.V) :
    (symmeterize g).adj i j = (g.adj i j + g.adj j i) / 2 := fromDense_adj' _ _ i j hi hj

/-- the symmetrised graph is symmetric -/
theorem symmeterize_symmetric (g : Graph) (i j : Nat) (hi : i < g.V) (hj : j < g.V) :
    (symmeterize g).adj i j = (symmeterize g).adj j i := by
  rw [symmeterize_adj g i j hi hj, symmeterize_adj g j i hj hi]; ring

/-- `anti_symmeterize`: the adjacency becomes the antisymmetric part `(A − Aᵀ)/2`. -/
theorem antiSymmeterize_adj (g : Graph) (i j : Nat) (hi : i < g.V) (hj : j < g.V) :
    (antiSymmeterize g).adj i j = (g.adj i j - g.adj j i) / 2 := fromDense_adj' _ _ i j hi hj

/-- `cut_redundancies` preserves the weighted adjacency matrix (weights of repeated edges add). -/
theorem cutRedundancies_adj (g : Graph) (i j : Nat) (hi : i < g.V) (hj : j < g.V) :
    (cutRedundancies g).adj i j = g.adj i j := by
  unfold cutRedundancies
  rw [fromSupport_adj' _ _ _ i j hi hj]
  by_cases h : hasEdge g.edges i j = true
  · simp [h]
  · simp only [h]
    exact (adjL_zero_of_not_hasEdge g.edges i j (by simpa using h)).symm

/-- `remove_trivial_edges` zeroes the diagonal and leaves every other entry unchanged. -/
theorem removeTrivial_adj (g : Graph) (i j : Nat) :
    (removeTrivial g).adj i j = if i = j then 0 else g.adj i j := by
  unfold removeTrivial Graph.adj
  simp only
  induction g.edges with
  | nil => simp [adjL]
  | cons e es ih =>
      rw [List.filter_cons, adjL_cons]
      by_cases h : e.1 = e.2.1
      · have hb : (e.1 != e.2.1) = false := by simp [h]
        rw [hb]; simp only [Bool.false_eq_true, if_false]
        rw [ih]
        by_cases hij : i = j
        · simp [hij]
        · have : ¬ (e.1 = i ∧ e.2.1 = j) := by rintro ⟨h1, h2⟩; exact hij (by rw [← h1, ← h2, h])
          simp [hij, this]
      · have hb : (e.1 != e.2.1) = true := by simp [h]
        rw [hb]; simp only [if_true]
        rw [adjL_cons, ih]
        by_cases hij : i = j
        · subst hij
          have : ¬ (e.1 = i ∧ e.2.1 = i) := by rintro ⟨h1, h2⟩; exact h (by rw [h1, h2])
          simp [this]
        · simp [hij]

/-- `normalize(0)` scales row `i` of the adjacency matrix by `1 / (row sum)`; a row of sum 0 is
left as it is. -/
theorem normalize_rows_adj (g : Graph) (i j : Nat) (hi : i < g.V) (hj : j < g.V) :
    (normalize g 0).adj i j = invOr1 (rowSum g i) * g.adj i j := by
  unfold normalize; simp only [if_true]
  exact fromDense_adj' _ _ i j hi hj

/-- after `normalize(0)` the weights leaving each vertex with a non-zero sum add up to 1. -/
theorem normalize_rows_sum_to_one (g : Graph) (i : Nat) (hi : i < g.V) (hs : rowSum g i ≠ 0) :
    rowSum (normalize g 0) i = 1 := by
  have hV : (normalize g 0).V = g.V := by unfold normalize; simp [fromDense]
  unfold rowSum at *
  rw [hV]
  have : (List.range g.V).map (fun j => (normalize g 0).adj i j) =
      (List.range g.V).map (fun j => invOr1 (rowSum g i) * g.adj i j) := by
    apply List.map_congr_left
    intro j hj
    exact normalize_rows_adj g i j hi (List.mem_range.mp hj)
  rw [this, List.sum_map_mul_left]
  unfold rowSum invOr1
  rw [if_neg hs]
  field_simp

/-- `normalize(1)`: column scaling, and columns with a non-zero sum add up to 1. -/
theorem normalize_cols_sum_to_one (g : Graph) (j : Nat) (hj : j < g.V) (hs : colSum g j ≠ 0) :
    colSum (normalize g 1) j = 1 := by
  have hV : (normalize g 1).V = g.V := by unfold normalize; simp [fromDense]
  unfold colSum at *
  rw [hV]
  have : (List.range g.V).map (fun i => (normalize g 1).adj i j) =
      (List.range g.V).map (fun i => g.adj i j * invOr1 (colSum g j)) := by
    apply List.map_congr_left
    intro i hi
    unfold normalize; simp only [Nat.one_ne_zero, if_false]
    exact fromDense_adj' _ _ i j (List.mem_range.mp hi) hj
  rw [this, List.sum_map_mul_right]
  unfold colSum invOr1
  rw [if_neg hs]
  field_simp

/-- `concatenate_graphs`: the first diagonal block of the adjacency matrix is that of `G1`
(no hypothesis on `G1`: the shifted edges of `G2` never reach it). -/
theorem concat_adj_left (g1 g2 : Graph) (i j : Nat) (hi : i < g1.V) :
    (concat g1 g2).adj i j = g1.adj i j := by
  unfold concat Graph.adj
  simp only
  rw [adjL_append]
  have : adjL (g2.edges.map (fun e => (g1.V + e.1, g1.V + e.2.1, e.2.2))) i j = 0 := by
    induction g2.edges with
    | nil => simp [adjL]
    | cons e es ih =>
        rw [List.map_cons, adjL_cons, ih]
        have : ¬ (g1.V + e.1 = i ∧ g1.V + e.2.1 = j) := by omega
        simp [this]
  rw [this, add_zero]

/-- `concatenate_graphs`: the second diagonal block is the adjacency matrix of `G2`. -/
theorem concat_adj_right (g1 g2 : Graph) (i j : Nat)
    (hwf : ∀ e ∈ g1.edges, e.1 < g1.V) :
    (concat g1 g2).adj (g1.V + i) (g1.V + j) = g2.adj i j := by
  unfold concat Graph.adj
  simp only
  rw [adjL_append]
  have h1 : adjL g1.edges (g1.V + i) (g1.V + j) = 0 := by
    revert hwf
    induction g1.edges with
    | nil => intro _; simp [adjL]
    | cons e es ih =>
        intro hwf
        rw [adjL_cons, ih (fun e' he' => hwf e' (List.mem_cons_of_mem _ he'))]
        have := hwf e (by simp)
        have : ¬ (e.1 = g1.V + i ∧ e.2.1 = g1.V + j) := by omega
        simp [this]
  have h2 : adjL (g2.edges.map (fun e => (g1.V + e.1, g1.V + e.2.1, e.2.2))) (g1.V + i) (g1.V + j)
      = adjL g2.edges i j := by
    induction g2.edges with
    | nil => simp [adjL]
    | cons e es ih =>
        rw [List.map_cons, adjL_cons, adjL_cons, ih]
        simp
  rw [h1, h2, zero_add]

/-- `subgraph(valid)` keeps exactly the edges whose two ends are retained, renumbered by the
number of retained vertices before each end, with their weights. -/
theorem subgraph_edges (g h : Graph) (valid : List Bool) (hs : subgraph g valid = some h) (e' : Edge) :
    e' ∈ h.edges ↔ ∃ e ∈ g.edges, valid.getD e.1 false = true ∧ valid.getD e.2.1 false = true ∧
      e' = (renumb valid e.1, renumb valid e.2.1, e.2.2) := by
  unfold subgraph at hs
  split at hs
  · simp at hs
  · simp only [Option.some.injEq] at hs
    subst hs
    simp only [List.mem_map, List.mem_filter, Bool.and_eq_true]
    constructor
    · rintro ⟨e, ⟨he, h1, h2⟩, rfl⟩; exact ⟨e, he, h1, h2, rfl⟩
    · rintro ⟨e, he, h1, h2, rfl⟩; exact ⟨e, ⟨he, h1, h2⟩, rfl⟩

/-! ## Builders -/

/-- `eps_nn`: the adjacency entry of `(i, j)` is the (clipped) distance exactly when `i ≠ j` and
that distance is below `eps`, and 0 (no edge) otherwise. -/
theorem epsNN_adj (n : Nat) (dist : List (List Rat)) (eps tiny : Rat) (i j : Nat)
    (hi : i < n) (hj : j < n) :
    (epsNN n dist eps tiny).adj i j =
      if i ≠ j ∧ max (getM dist i j) tiny < eps then max (getM dist i j) tiny else 0 :=
  fromDense_adj' _ _ i j hi hj

/-- `knn`: `(i, j)` carries the distance exactly when `i ≠ j` and `i` is within the `k`-th
smallest distance of column `j` or `j` within that of column `i` (symmetrised k-nearest
neighbours, `k` clamped to `n − 1`); no other entry is set. -/
theorem knn_adj (n : Nat) (dist : List (List Rat)) (k : Nat) (i j : Nat) (hi : i < n) (hj : j < n) :
    (knn n dist k).adj i j =
      if i ≠ j ∧ (getM dist i j ≤ kthOfCol dist n j (min k (n - 1)) ∨
                  getM dist j i ≤ kthOfCol dist n i (min k (n - 1)))
      then getM dist i j else 0 := by
  unfold knn
  simp only
  rw [fromDense_adj' _ _ i j hi hj]
  have hget : ∀ c, c < n → ((List.range n).map (fun j => kthOfCol dist n j (min k (n - 1)))).getD c 0
      = kthOfCol dist n c (min k (n - 1)) := by
    intro c hc
    simp [List.getD_eq_getElem?_getD, hc]
  simp only [hget j hj, hget i hi, Bool.or_eq_true, decide_eq_true_eq]

/-- `cross_eps`: the edge list is exactly the pairs whose squared distance is below `eps`,
weighted by that (clipped) squared distance. -/
theorem crossEps_mem (n1 n2 : Nat) (sq : List (List Rat)) (eps tiny : Rat) (i j : Nat) (w : Rat) :
    (i, j, w) ∈ crossEps n1 n2 sq eps tiny ↔
      i < n1 ∧ j < n2 ∧ getM sq i j < eps ∧ w = max (getM sq i j) tiny := by
  unfold crossEps
  simp only [List.mem_flatMap, List.mem_range, List.mem_filterMap]
  constructor
  · rintro ⟨i', hi', j', hj', h⟩
    split at h
    · next hlt =>
        simp only [Option.some.injEq, Prod.mk.injEq] at h
        obtain ⟨rfl, rfl, rfl⟩ := h
        exact ⟨hi', hj', hlt, rfl⟩
    · simp at h
  · rintro ⟨hi, hj, hlt, rfl⟩
    exact ⟨i, hi, j, hj, by simp [hlt]⟩

/-! ## Non-vacuity: concrete objects meeting the hypotheses -/

/-- parallel edges 0→1 (3 and 5), then 1→2: the case on which the unrepaired code answered [0,5,4] -/
example : dijkstra ⟨3, [(0, 1, 3), (0, 1, 5), (1, 2, 1)]⟩ [0] = [some 0, some 3, some 4] := by decide +kernel
example : certOK ⟨3, [(0, 1, 3), (0, 1, 5), (1, 2, 1)]⟩ [0]
    (dijkstra ⟨3, [(0, 1, 3), (0, 1, 5), (1, 2, 1)]⟩ [0]) = true := by decide +kernel
example : voronoi ⟨4, [(0, 1, 1), (1, 0, 1), (1, 2, 0), (2, 1, 0)]⟩ [0, 2] = [some 0, some 1, some 1, none] := by
  decide +kernel
example : voronoiCert ⟨4, [(0, 1, 1), (1, 0, 1), (1, 2, 0), (2, 1, 0)]⟩ [0, 2]
    (voronoi ⟨4, [(0, 1, 1), (1, 0, 1), (1, 2, 0), (2, 1, 0)]⟩ [0, 2]) = true := by decide +kernel
example : cc ⟨4, [(0, 3, 1), (3, 0, 1)]⟩ = [some 0, some 1, some 2, some 0] := by decide +kernel
example : ccClosed ⟨4, [(0, 3, 1), (3, 0, 1)]⟩ (cc ⟨4, [(0, 3, 1), (3, 0, 1)]⟩) = true := by decide +kernel
example : rowSum ⟨3, [(1, 0, 1), (0, 1, 1), (0, 2, 3)]⟩ 0 ≠ 0 := by decide +kernel
example : (normalize ⟨3, [(1, 0, 1), (0, 1, 1), (0, 2, 3)]⟩ 0).edges = [(0, 1, 1/4), (0, 2, 3/4), (1, 0, 1)] := by
  decide +kernel
example : (subgraph ⟨4, [(0, 1, 1), (1, 3, 2), (3, 3, 3), (2, 3, 4)]⟩ [false, true, false, true]).map (·.edges)
    = some [(0, 1, 2), (1, 1, 3)] := by decide +kernel

/-- query → normalize → query: the second answer is about the normalised graph -/
example : dijkstra (runHistory ⟨3, [(0, 1, 1), (0, 2, 3), (1, 2, 1)]⟩ [.normalize 0]) [0]
    = [some 0, some (1/4), some (3/4)] := by decide +kernel
example : certOK (runHistory ⟨3, [(0, 1, 1), (0, 2, 3), (1, 2, 1)]⟩ [.normalize 0]) [0]
    (dijkstra (runHistory ⟨3, [(0, 1, 1), (0, 2, 3), (1, 2, 1)]⟩ [.normalize 0]) [0]) = true := by decide +kernel

end NipyVerif.C11
