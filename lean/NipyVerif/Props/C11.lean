/-
C11 — property theorems about the model in `NipyVerif.Model.C11`.
Only property statements and their non-vacuity examples live here.
-/
import NipyVerif.Lemmas.C11Kru
import NipyVerif.Lemmas.C11Grid

namespace NipyVerif.C11

/-! ## Shortest paths -/

/-- Shortest-path certificate (clause "shortest-path distances equal the true minimum path
lengths, infinite when unreachable"): if the seeds are at 0, every edge out of a finite vertex is
relaxed and every finite value is the length of a real walk from a seed, then `d` is the true
distance.  Arbitrary directed multigraph (loops, parallel edges, zero weights). -/
theorem sp_certificate_sound (g : Graph) (S : List Nat) (d : Nat → Option Rat)
    (h0 : ∀ s ∈ S, d s = some 0)
    (hrel : ∀ u v w a, (u, v, w) ∈ g.edges → d u = some a → ∃ b, d v = some b ∧ b ≤ a + w)
    (hach : ∀ v b, d v = some b → ∃ s ∈ S, Path g s v b) (v : Nat) :
    (∀ b, d v = some b → (∃ s ∈ S, Path g s v b) ∧ ∀ s ∈ S, ∀ l, Path g s v l → b ≤ l) ∧
    (d v = none → ∀ s ∈ S, ∀ l, ¬ Path g s v l) := by
  have key : ∀ s ∈ S, ∀ v l, Path g s v l → ∃ b, d v = some b ∧ b ≤ l := by
    intro s hs v l hp
    induction hp with
    | nil => exact ⟨0, h0 s hs, le_refl _⟩
    | snoc _ he ih =>
        obtain ⟨a, ha, hal⟩ := ih
        obtain ⟨b, hb, hbl⟩ := hrel _ _ _ a he ha
        exact ⟨b, hb, by linarith⟩
  refine ⟨fun b hb => ⟨hach v b hb, fun s hs l hp => ?_⟩, fun hn s hs l hp => ?_⟩
  · obtain ⟨b', hb', hl⟩ := key s hs v l hp
    rw [hb] at hb'; cases hb'; exact hl
  · obtain ⟨b', hb', _⟩ := key s hs v l hp
    rw [hn] at hb'; cases hb'

/-- Every finite entry that `dijkstra` (vectorised relaxation) or `voronoi_labelling`
(sequential relaxation) stores is the length of a real walk from one of the seeds — for every
graph, seed list and relaxation mode, whatever the weights. -/
theorem sssp_dist_achievable (g : Graph) (vec : Bool) (seeds : List Nat) (v : Nat) (b : Rat)
    (h : (sssp g vec seeds).dist.getD v none = some b) : ∃ s ∈ seeds, Path g s v b :=
  (iter_inv g seeds vec g.V _ (init_inv g seeds)).1 v b h

/-- `dijkstra` returns the true distances whenever the relaxation certificate (seeds at 0, every
edge relaxed), which the model evaluates on its own output and the correspondence run observes to
be `ok` on every case, holds.  Certificate form (hence `_partial`); the certificate itself is proved
to hold for all non-negative weights in `dijkstra_certificate_holds`, giving `dijkstra_correct`. -/
theorem dijkstra_correct_partial (g : Graph) (seeds : List Nat)
    (hc : certOK g seeds (dijkstra g seeds) = true) (v : Nat) :
    (∀ b, (dijkstra g seeds).getD v none = some b →
        (∃ s ∈ seeds, Path g s v b) ∧ ∀ s ∈ seeds, ∀ l, Path g s v l → b ≤ l) ∧
    ((dijkstra g seeds).getD v none = none → ∀ s ∈ seeds, ∀ l, ¬ Path g s v l) := by
  simp only [certOK, Bool.and_eq_true, seedsZero, relaxedAll, List.all_eq_true, beq_iff_eq] at hc
  apply sp_certificate_sound g seeds (fun v => (dijkstra g seeds).getD v none)
  · exact hc.1
  · intro u w' w a he hu
    have := hc.2 (u, w', w) he
    simp only [hu] at this
    cases hv : (dijkstra g seeds).getD w' none with
    | none => rw [hv] at this; simp at this
    | some b => rw [hv] at this; simp only [decide_eq_true_eq] at this; exact ⟨b, rfl, this⟩
  · intro v b hv
    exact sssp_dist_achievable g true seeds v b hv

/-- **Shortest paths, full statement** (clause "on every weighted directed graph, shortest-path
distances equal the true minimum path lengths, infinite when unreachable"): for every graph whose
weights are non-negative (`NonNeg`, the complement of the guard that raises `ValueError`), whose edges
join vertices of the graph (`WF`, what the constructor enforces) and every list of seeds `< V`
(duplicates allowed), the heap loop of `dijkstra` as written — heap with stale entries popped at
its lexicographic minimum, at most `V` rounds, vectorised relaxation with the comparison against
the distances before the slice assignment — returns for every vertex the minimum length of a walk
from a seed, and `inf` exactly for the vertices no seed reaches.  No certificate is assumed: the
loop invariant (`DInv`: settled vertices are final and relaxed, every tentative distance is the
length of a walk and has a heap entry, the popped vertex has minimal tentative distance) is proved
in `Lemmas/C11Dij.lean`.  Directed multigraphs, loops, parallel edges and zero weights included. -/
theorem dijkstra_correct (g : Graph) (hn : NonNeg g) (hw : WF g) (seeds : List Nat)
    (hs : ∀ s ∈ seeds, s < g.V) (v : Nat) :
    (∀ b, (dijkstra g seeds).getD v none = some b →
        (∃ s ∈ seeds, Path g s v b) ∧ ∀ s ∈ seeds, ∀ l, Path g s v l → b ≤ l) ∧
    ((dijkstra g seeds).getD v none = none → ∀ s ∈ seeds, ∀ l, ¬ Path g s v l) :=
  dijkstra_correct_partial g seeds (sssp_cert g hn hw seeds hs true) v

/-- the certificate that `dijkstra_correct_partial` assumes always holds (so the `| ok` the model
prints for every correspondence line is a theorem, not an observation) -/
theorem dijkstra_certificate_holds (g : Graph) (hn : NonNeg g) (hw : WF g) (seeds : List Nat)
    (hs : ∀ s ∈ seeds, s < g.V) : certOK g seeds (dijkstra g seeds) = true :=
  sssp_cert g hn hw seeds hs true

/-- "∞ iff unreachable" as an equivalence: a vertex has a finite entry exactly when some seed
reaches it. -/
theorem dijkstra_finite_iff_reachable (g : Graph) (hn : NonNeg g) (hw : WF g) (seeds : List Nat)
    (hs : ∀ s ∈ seeds, s < g.V) (v : Nat) :
    (∃ b, (dijkstra g seeds).getD v none = some b) ↔ ∃ s ∈ seeds, ∃ l, Path g s v l := by
  have h := dijkstra_correct g hn hw seeds hs v
  constructor
  · rintro ⟨b, hb⟩
    obtain ⟨⟨s, hs', hp⟩, _⟩ := h.1 b hb
    exact ⟨s, hs', b, hp⟩
  · rintro ⟨s, hs', l, hp⟩
    cases hd : (dijkstra g seeds).getD v none with
    | some b => exact ⟨b, rfl⟩
    | none => exact absurd hp (h.2 hd s hs' l)

/-- `floyd(seeds)` stacks one `dijkstra(s)` row per seed: every row is the true single-source
distance vector. -/
theorem floyd_rows_correct (g : Graph) (hn : NonNeg g) (hw : WF g) (seeds : List Nat)
    (hs : ∀ s ∈ seeds, s < g.V) (s : Nat) (hmem : s ∈ seeds) (v : Nat) :
    (∀ b, (dijkstra g [s]).getD v none = some b → Path g s v b ∧ ∀ l, Path g s v l → b ≤ l) ∧
    ((dijkstra g [s]).getD v none = none → ∀ l, ¬ Path g s v l) := by
  have h := dijkstra_correct g hn hw [s] (by intro x hx; simp only [List.mem_singleton] at hx; subst hx; exact hs x hmem) v
  constructor
  · intro b hb
    obtain ⟨⟨s', hs', hp⟩, hmin⟩ := h.1 b hb
    simp only [List.mem_singleton] at hs'
    subst hs'
    exact ⟨hp, fun l hl => hmin s' (by simp) l hl⟩
  · intro hn' l
    exact h.2 hn' s (by simp) l

/-- Voronoi clause ("assigns each reachable vertex to a nearest seed in graph distance and marks
unreachable vertices"): when the Voronoi certificate holds (evaluated by the model on its output,
observed `ok` on every case), an unlabelled vertex is reachable from no seed, and a vertex
labelled `i` is joined to seed number `i` by a walk that is no longer than any walk from any seed.
Certificate form; the unconditional statement is `voronoi_nearest_seed`. -/
theorem voronoi_nearest_partial (g : Graph) (seeds : List Nat) (lab : List (Option Nat))
    (hc : voronoiCert g seeds lab = true) (v : Nat) (hv : v < g.V) :
    (lab.getD v none = none → ∀ s ∈ seeds, ∀ l, ¬ Path g s v l) ∧
    (∀ i, lab.getD v none = some i → ∃ s b, seeds[i]? = some s ∧ Path g s v b ∧
        ∀ s' ∈ seeds, ∀ l, Path g s' v l → b ≤ l) := by
  simp only [voronoiCert, voronoiCertWith, Bool.and_eq_true, List.all_eq_true, List.mem_range] at hc
  obtain ⟨⟨hS, hI⟩, hL⟩ := hc
  have hLv := hL v hv
  have hDS := dijkstra_correct_partial g seeds hS v
  constructor
  · intro hn
    rw [hn] at hLv
    exact hDS.2 (by simpa using hLv)
  · intro i hi
    rw [hi] at hLv
    simp only at hLv
    cases hp : (seeds.map (fun s => (s, dijkstra g [s])))[i]? with
    | none => rw [hp] at hLv; simp at hLv
    | some p =>
        rw [hp] at hLv
        simp only [Bool.and_eq_true, beq_iff_eq] at hLv
        obtain ⟨hsome, heq⟩ := hLv
        have hmem : p ∈ seeds.map (fun s => (s, dijkstra g [s])) := List.mem_of_getElem? hp
        have hcert := hI p hmem
        rw [List.getElem?_map] at hp
        cases hs : seeds[i]? with
        | none => rw [hs] at hp; simp at hp
        | some s =>
            rw [hs] at hp
            simp only [Option.map_some, Option.some.injEq] at hp
            subst hp
            simp only at hcert heq
            obtain ⟨b, hb⟩ := Option.isSome_iff_exists.mp hsome
            rw [hb] at heq
            have h1 := (dijkstra_correct_partial g [s] hcert v).1 b heq
            obtain ⟨⟨s0, hs0, hpath⟩, _⟩ := h1
            simp only [List.mem_singleton] at hs0
            subst hs0
            exact ⟨s0, b, rfl, hpath, (hDS.1 b hb).2⟩

/-- **Voronoi labelling, full statement** (clause "assigns each reachable vertex to a nearest seed
in graph distance and marks unreachable vertices"): for non-negative weights, well-formed edges and
seeds `< V`, the sequential-relaxation loop of `voronoi_labelling` as written leaves `-1` exactly on
the vertices no seed reaches, and a vertex labelled `i` is joined to seed number `i` by a walk that
is at most as long as every walk from every seed (directed graphs included; on the symmetric graphs
the property quantifies over this is the nearest seed in graph distance).  Proved from the loop
invariants `DInv` (distances) and `LInv` (a label always names the seed whose walk realises the
stored distance); no certificate is assumed. -/
theorem voronoi_nearest_seed (g : Graph) (hn : NonNeg g) (hw : WF g) (seeds : List Nat)
    (hs : ∀ s ∈ seeds, s < g.V) (v : Nat) :
    ((voronoi g seeds).getD v none = none → ∀ s ∈ seeds, ∀ l, ¬ Path g s v l) ∧
    (∀ i, (voronoi g seeds).getD v none = some i → ∃ s b, seeds[i]? = some s ∧ Path g s v b ∧
        ∀ s' ∈ seeds, ∀ l, Path g s' v l → b ≤ l) := by
  have hL := sssp_linv g hn hw seeds hs false
  have hc := sssp_cert g hn hw seeds hs false
  simp only [certOK, Bool.and_eq_true, seedsZero, relaxedAll, List.all_eq_true, beq_iff_eq] at hc
  have hsp := sp_certificate_sound g seeds (fun v => (sssp g false seeds).dist.getD v none) hc.1
    (by
      intro u w' w a he hu
      have := hc.2 (u, w', w) he
      simp only [hu] at this
      cases hv : (sssp g false seeds).dist.getD w' none with
      | none => rw [hv] at this; simp at this
      | some b => rw [hv] at this; simp only [decide_eq_true_eq] at this; exact ⟨b, rfl, this⟩)
    (fun v b hv => sssp_dist_achievable g false seeds v b hv) v
  constructor
  · intro hnone
    exact hsp.2 (hL.unl v hnone)
  · intro i hi
    obtain ⟨s, b, hsi, hd, hp⟩ := hL.lab v i hi
    exact ⟨s, b, hsi, hp, (hsp.1 b hd).2⟩

/-- a label is `-1` exactly when the vertex is unreachable from every seed -/
theorem voronoi_unlabelled_iff_unreachable (g : Graph) (hn : NonNeg g) (hw : WF g) (seeds : List Nat)
    (hs : ∀ s ∈ seeds, s < g.V) (v : Nat) :
    (voronoi g seeds).getD v none = none ↔ ∀ s ∈ seeds, ∀ l, ¬ Path g s v l := by
  have h := voronoi_nearest_seed g hn hw seeds hs v
  constructor
  · exact h.1
  · intro hun
    cases hl : (voronoi g seeds).getD v none with
    | none => rfl
    | some i =>
        obtain ⟨s, b, hsi, hp, _⟩ := h.2 i hl
        exact absurd hp (hun s (List.mem_of_getElem? hsi) b)

/-! ## Queries describe the current graph (operation histories) -/

/-- Walks, hence true distances, reachability and nearest seeds, depend only on the *set* of
weighted edges of the graph: any re-ordering or re-sorting of the edge arrays (as
`compact_neighb` or a structural operation performs) cannot change what a query must answer. -/
theorem path_edges_congr (g1 g2 : Graph) (h : ∀ e, e ∈ g1.edges ↔ e ∈ g2.edges) (s v : Nat) (l : Rat) :
    Path g1 s v l ↔ Path g2 s v l := by
  constructor
  · intro hp
    induction hp with
    | nil => exact Path.nil _
    | snoc _ he ih => exact Path.snoc ih ((h _).mp he)
  · intro hp
    induction hp with
    | nil => exact Path.nil _
    | snoc _ he ih => exact Path.snoc ih ((h _).mpr he)

/-- After any history of structural operations on one object, `dijkstra` answers for the graph the
object holds *now* (`runHistory g ops`): its finite entries are minimum walk lengths of that graph
and `inf` means unreachable in it — under the same certificate as `dijkstra_correct_partial`,
which the correspondence run evaluates after every step of every generated history.  Certificate
form; the unconditional statement is `history_dijkstra`. -/
theorem history_dijkstra_partial (g : Graph) (ops : List Op) (seeds : List Nat)
    (hc : certOK (runHistory g ops) seeds (dijkstra (runHistory g ops) seeds) = true) (v : Nat) :
    (∀ b, (dijkstra (runHistory g ops) seeds).getD v none = some b →
        (∃ s ∈ seeds, Path (runHistory g ops) s v b) ∧
        ∀ s ∈ seeds, ∀ l, Path (runHistory g ops) s v l → b ≤ l) ∧
    ((dijkstra (runHistory g ops) seeds).getD v none = none →
        ∀ s ∈ seeds, ∀ l, ¬ Path (runHistory g ops) s v l) :=
  dijkstra_correct_partial (runHistory g ops) seeds hc v

/-- Histories, full statement: after any sequence of structural operations the answer of
`dijkstra` is the true distance vector of the graph the object holds now, provided that graph has
non-negative weights and well-formed edges (no certificate). -/
theorem history_dijkstra (g : Graph) (ops : List Op) (seeds : List Nat)
    (hn : NonNeg (runHistory g ops)) (hw : WF (runHistory g ops))
    (hs : ∀ s ∈ seeds, s < (runHistory g ops).V) (v : Nat) :
    (∀ b, (dijkstra (runHistory g ops) seeds).getD v none = some b →
        (∃ s ∈ seeds, Path (runHistory g ops) s v b) ∧
        ∀ s ∈ seeds, ∀ l, Path (runHistory g ops) s v l → b ≤ l) ∧
    ((dijkstra (runHistory g ops) seeds).getD v none = none →
        ∀ s ∈ seeds, ∀ l, ¬ Path (runHistory g ops) s v l) :=
  dijkstra_correct (runHistory g ops) hn hw seeds hs v

/-- a history step by step: the state after `ops ++ [op]` is the operation applied to the state
after `ops` (no other memory) -/
theorem runHistory_snoc (g : Graph) (ops : List Op) (op : Op) :
    runHistory g (ops ++ [op]) = applyOp (runHistory g ops) op := by
  simp [runHistory, List.foldl_append]

/-! ## Connected components -/

/-- Component clause, direction "reachable ⇒ same label": when the closure certificate holds
(every vertex labelled, every edge joins equal labels — evaluated by the model on the output of
`cc`, observed `ok` on every symmetric case) two vertices joined by a chain of edges carry the
same label.  Certificate form (any closed labelling); that `lil_cc` always produces a closed
labelling and that equal labels imply a chain is `cc_closed` / `cc_label_eq_iff_reachable`. -/
theorem cc_connected_same_label_partial (g : Graph) (lab : List (Option Nat))
    (hc : ccClosed g lab = true) (u v : Nat) (h : Conn g u v) :
    lab.getD u none = lab.getD v none := by
  simp only [ccClosed, Bool.and_eq_true, List.all_eq_true, beq_iff_eq] at hc
  induction h with
  | refl => rfl
  | step _ he ih =>
      rcases he with he | he
      · rw [ih]; exact hc.2 _ he
      · rw [ih]; exact (hc.2 _ he).symm

/-- the closure certificate always holds on symmetric graphs: every vertex is labelled and every
edge joins equal labels (so the `| ok` of every `cc` line is a theorem) -/
theorem cc_closed (g : Graph) (hw : WF g) (hs : Sym g) : ccClosed g (cc g) = true := by
  obtain ⟨k, hC, _⟩ := cc_inv g hw hs
  simp only [ccClosed, Bool.and_eq_true, List.all_eq_true, List.mem_range, beq_iff_eq]
  refine ⟨fun v hv => ?_, fun e he => ?_⟩
  · obtain ⟨j, hj⟩ := cc_labelled g hw hs v hv
    rw [hj]; rfl
  · obtain ⟨j, hj⟩ := cc_labelled g hw hs e.1 (hw e he).1
    rw [hj, hC.closed e.1 e.2.1 e.2.2 j he hj]

/-- **Connected components, full statement** (clause "on every symmetric graph, connected-component
labels partition the vertices exactly by reachability"): for the `lil_cc` loop as written
(first unvisited vertex as root, FIFO front, rows of the adjacency structure appended on a first
visit; the fuel of the model is proved sufficient), on every graph with a symmetric edge set —
loops, parallel edges, zero weights and isolated vertices included — two vertices carry the same
label if and only if a chain of edges joins them. -/
theorem cc_label_eq_iff_reachable (g : Graph) (hw : WF g) (hs : Sym g) (u v : Nat)
    (hu : u < g.V) (_hv : v < g.V) :
    (cc g).getD u none = (cc g).getD v none ↔ Conn g u v := by
  constructor
  · intro h
    obtain ⟨k, hC, _⟩ := cc_inv g hw hs
    obtain ⟨j, hj⟩ := cc_labelled g hw hs u hu
    exact hC.conn u v j hj (by rw [← h]; exact hj)
  · exact cc_connected_same_label_partial g (cc g) (cc_closed g hw hs) u v

/-- every vertex receives a label (no `-1` is left) -/
theorem cc_all_labelled (g : Graph) (hw : WF g) (hs : Sym g) (v : Nat) (hv : v < g.V) :
    ∃ j, (cc g).getD v none = some j := cc_labelled g hw hs v hv

/-! ## Spanning forest -/

/-- Spanning-forest clause, the part proved: every edge `kruskal` selects is an edge of the graph
(or the reverse of one) with its own weight, for every graph (also non-symmetric ones, where the
full statements `kruskal_spanning_forest` / `kruskal_minimum` do not apply). -/
theorem kruskal_edges_subset (g : Graph) (x : Edge) (h : x ∈ kruskal g) :
    x ∈ g.edges ∨ (x.2.1, x.1, x.2.2) ∈ g.edges := by
  unfold kruskal at h
  rcases kruskalLoop_subset _ _ _ _ x h with h | h | h
  · simp at h
  · exact Or.inl (by simpa [sortByWeight, List.mem_mergeSort] using h)
  · exact Or.inr (by simpa [sortByWeight, List.mem_mergeSort] using h)

/-- the edge array `kruskal` returns lists each selected edge `kruskalT g` in both directions, one
after the other (rows `2i`, `2i+1`) -/
theorem kruskal_rows (g : Graph) : kruskal g = dir (kruskalT g) := kruskal_eq_dir g

/-- **Spanning forest, full statement** (clause "spanning-tree routines return a spanning forest"):
on every symmetric well-formed graph the edges `kruskal` selects (loop as written: edges sorted by
weight, an edge skipped when its ends carry the same label, labels merged otherwise, stop after
`V − k` selections where `k = cc().max() + 1`)
* form a forest — each selected edge joins two vertices the earlier selections do not connect
  (acyclic),
* are edges of the graph,
* connect exactly the pairs of vertices the graph connects (same components), and
* are `V − k` in number, `k` the number of components (so the returned array has `2 (V − k)`
  rows before the padding). -/
theorem kruskal_spanning_forest (g : Graph) (hw : WF g) (hs : Sym g) :
    Forest g.V (kruskalT g) ∧ (∀ e ∈ kruskalT g, e ∈ g.edges) ∧
    (∀ u v, Conn g u v ↔ Conn ⟨g.V, kruskalT g⟩ u v) ∧
    (kruskalT g).length + numCC (cc g) = g.V ∧ (kruskal g).length = 2 * (g.V - numCC (cc g)) := by
  have h := kruskalT_facts g hw hs
  refine ⟨h.forest, h.sub, fun u v => ⟨h.span u v, fun hc => conn_mono (V' := g.V) h.sub hc⟩, h.count, ?_⟩
  rw [kruskal_rows]
  have : ∀ F : List Edge, (dir F).length = 2 * F.length := by
    intro F
    induction F using List.reverseRecOn with
    | nil => rfl
    | append_singleton F e ih => rw [dir_snoc, List.length_append, ih]; simp; omega
  rw [this]
  have := h.count
  omega

/-- `cc().max() + 1`, which `kruskal` takes as the number of components, is the number of
classes of the reachability relation (counted through the representatives of the labelling that
merges the ends of every edge). -/
theorem numCC_is_component_count (g : Graph) (hw : WF g) (hs : Sym g) :
    numCC (cc g) = (reps g.V (comp g.V g.edges)).card := numCC_cc_eq_reps g hw hs

/-- **Minimum-weight certificate** (general, independent of how `T` was obtained): if `T` is a
forest of edges of `E` and the ends of every edge `e` of `E` are joined inside `T` by edges no heavier
than `e` (equivalently: every non-tree edge is at least as heavy as every tree edge on the tree path
between its ends), then `T` weighs no more than any forest `T'` of edges of `E` that connects what `E`
connects.  Proof: for every threshold `t` the light part of `T'` is a forest inside the components
of the light part of `T`, so it has no more edges (rank inequality, by counting components); equal
sizes and this domination give the inequality of the sums.  The model evaluates this certificate
on the output of `mst` (Borůvka on point clouds). -/
theorem mst_certificate_sound (V : Nat) (E T T' : List Edge) (hE : WFE V E)
    (hT : Forest V T) (hTE : ∀ e ∈ T, e ∈ E ∨ revE e ∈ E)
    (hcert : ∀ e ∈ E, Conn ⟨V, leW e.2.2 T⟩ e.1 e.2.1)
    (hT' : Forest V T') (hT'E : ∀ e ∈ T', e ∈ E ∨ revE e ∈ E)
    (hspan' : ∀ e ∈ E, Conn ⟨V, T'⟩ e.1 e.2.1) : weight T ≤ weight T' :=
  mst_certificate_sound' V E T T' hE hT hTE hcert hT' hT'E hspan'

/-- **Minimality of `kruskal`** (clause "a spanning forest of minimum total weight"): on every
symmetric well-formed graph — negative weights, ties, parallel edges and loops included — the
selection of `kruskal` weighs no more than any spanning forest `T'` of the graph (a forest of graph
edges, in either direction, connecting what the graph connects).  No certificate is assumed: the
loop invariant establishes it (an edge is skipped only when lighter selected edges already join
its ends). -/
theorem kruskal_minimum (g : Graph) (hw : WF g) (hs : Sym g) (T' : List Edge) (hT' : Forest g.V T')
    (hsub : ∀ e ∈ T', e ∈ g.edges ∨ revE e ∈ g.edges) (hspan : ∀ u v, Conn g u v → Conn ⟨g.V, T'⟩ u v) :
    weight (kruskalT g) ≤ weight T' := by
  have h := kruskalT_facts g hw hs
  exact mst_certificate_sound' g.V g.edges (kruskalT g) T' hw h.forest (fun e he => Or.inl (h.sub e he))
    h.cert hT' hsub (fun e he => hspan _ _ (Conn.step (Conn.refl _) (Or.inl he)))

/-- `mst(X)` (Borůvka rounds on a point cloud): the model evaluates `mstCertB` on every output
(complete graph on the points with the squared distances, the selected rows as `T`) and prints `ok`;
whenever that check succeeds, the selection weighs no more than any spanning tree of the complete
graph.  (Squared lengths order the edges exactly as lengths do; minimality of the sum of lengths
is the oracle's clause.)  PARTIAL in the sense that the certificate is evaluated per output, not
proved to hold for every point cloud. -/
theorem mst_checked_minimal_partial (V : Nat) (E T : List Edge) (h : mstCertB V E T = true) (T' : List Edge)
    (hT' : Forest V T') (hT'E : ∀ e ∈ T', e ∈ E ∨ revE e ∈ E) (hspan' : ∀ e ∈ E, Conn ⟨V, T'⟩ e.1 e.2.1) :
    weight T ≤ weight T' := mstCertB_sound V E T h T' hT' hT'E hspan'

/-- the rank inequality behind both results: a forest whose edges lie inside the components of
another edge set has no more edges than that set (so all spanning forests of a graph have the same
number of edges, `V − k`) -/
theorem forest_rank_le (V : Nat) (A B : List Edge) (hA : WFE V A) (hB : WFE V B) (hf : Forest V A)
    (hspan : ∀ e ∈ A, Conn ⟨V, B⟩ e.1 e.2.1) : A.length ≤ B.length := forest_card_le V A B hA hB hf hspan

/-! ## Structural operations against the weighted adjacency matrix -/

/-- `wgraph_from_adjacency`: the graph built from a matrix has that matrix as adjacency. -/
theorem fromDense_adj (V : Nat) (M : Nat → Nat → Rat) (i j : Nat) (hi : i < V) (hj : j < V) :
    (fromDense V M).adj i j = M i j := fromDense_adj' V M i j hi hj

/-- `symmeterize`: the adjacency becomes the symmetric part `(A + Aᵀ)/2` (parallel edges, loops
and zero weights included). -/
theorem symmeterize_adj (g : Graph) (i j : Nat) (hi : i < g.V) (hj : j < g.V) :
    (symmeterize g).adj i j = (g.adj i j + g.adj j i) / 2 := fromDense_adj' _ _ i j hi hj

/-- the symmetrised graph is symmetric -/
theorem symmeterize_symmetric (g : Graph) (i j : Nat) (hi : i < g.V) (hj : j < g.V) :
    (symmeterize g).adj i j = (symmeterize g).adj j i := by
  rw [symmeterize_adj g i j hi hj, symmeterize_adj g j i hj hi]; ring

/-- `anti_symmeterize`: the adjacency becomes the antisymmetric part `(A − Aᵀ)/2`. -/
theorem antiSymmeterize_adj (g : Graph) (i j : Nat) (hi : i < g.V) (hj : j < g.V) :
    (antiSymmeterize g).adj i j = (g.adj i j - g.adj j i) / 2 := fromDense_adj' _ _ i j hi hj

/-- `cut_redundancies` preserves the weighted adjacency matrix (weights of repeated edges add). -/
theorem cutRedundancies_adj (g : Graph) (i j : Nat) (hi : i < g.V) (hj : j < g.V) :
    (cutRedundancies g).adj i j = g.adj i j := by
  unfold cutRedundancies
  rw [fromSupport_adj' _ _ _ i j hi hj]
  by_cases h : hasEdge g.edges i j = true
  · simp [h]
  · simp only [h]
    exact (adjL_zero_of_not_hasEdge g.edges i j (by simpa using h)).symm

/-- `remove_trivial_edges` zeroes the diagonal and leaves every other entry unchanged. -/
theorem removeTrivial_adj (g : Graph) (i j : Nat) :
    (removeTrivial g).adj i j = if i = j then 0 else g.adj i j := by
  unfold removeTrivial Graph.adj
  simp only
  induction g.edges with
  | nil => simp [adjL]
  | cons e es ih =>
      rw [List.filter_cons, adjL_cons]
      by_cases h : e.1 = e.2.1
      · have hb : (e.1 != e.2.1) = false := by simp [h]
        rw [hb]; simp only [Bool.false_eq_true, if_false]
        rw [ih]
        by_cases hij : i = j
        · simp [hij]
        · have : ¬ (e.1 = i ∧ e.2.1 = j) := by rintro ⟨h1, h2⟩; exact hij (by rw [← h1, ← h2, h])
          simp [hij, this]
      · have hb : (e.1 != e.2.1) = true := by simp [h]
        rw [hb]; simp only [if_true]
        rw [adjL_cons, ih]
        by_cases hij : i = j
        · subst hij
          have : ¬ (e.1 = i ∧ e.2.1 = i) := by rintro ⟨h1, h2⟩; exact h (by rw [h1, h2])
          simp [this]
        · simp [hij]

/-- `normalize(0)` scales row `i` of the adjacency matrix by `1 / (row sum)`; a row of sum 0 is
left as it is. -/
theorem normalize_rows_adj (g : Graph) (i j : Nat) (hi : i < g.V) (hj : j < g.V) :
    (normalize g 0).adj i j = invOr1 (rowSum g i) * g.adj i j := by
  unfold normalize; simp only [if_true]
  exact fromDense_adj' _ _ i j hi hj

/-- after `normalize(0)` the weights leaving each vertex with a non-zero sum add up to 1. -/
theorem normalize_rows_sum_to_one (g : Graph) (i : Nat) (hi : i < g.V) (hs : rowSum g i ≠ 0) :
    rowSum (normalize g 0) i = 1 := by
  have hV : (normalize g 0).V = g.V := by unfold normalize; simp [fromDense]
  unfold rowSum at *
  rw [hV]
  have : (List.range g.V).map (fun j => (normalize g 0).adj i j) =
      (List.range g.V).map (fun j => invOr1 (rowSum g i) * g.adj i j) := by
    apply List.map_congr_left
    intro j hj
    exact normalize_rows_adj g i j hi (List.mem_range.mp hj)
  rw [this, List.sum_map_mul_left]
  unfold rowSum invOr1
  rw [if_neg hs]
  field_simp

/-- `normalize(1)`: column scaling, and columns with a non-zero sum add up to 1. -/
theorem normalize_cols_sum_to_one (g : Graph) (j : Nat) (hj : j < g.V) (hs : colSum g j ≠ 0) :
    colSum (normalize g 1) j = 1 := by
  have hV : (normalize g 1).V = g.V := by unfold normalize; simp [fromDense]
  unfold colSum at *
  rw [hV]
  have : (List.range g.V).map (fun i => (normalize g 1).adj i j) =
      (List.range g.V).map (fun i => g.adj i j * invOr1 (colSum g j)) := by
    apply List.map_congr_left
    intro i hi
    unfold normalize; simp only [Nat.one_ne_zero, if_false]
    exact fromDense_adj' _ _ i j (List.mem_range.mp hi) hj
  rw [this, List.sum_map_mul_right]
  unfold colSum invOr1
  rw [if_neg hs]
  field_simp

/-- `concatenate_graphs`: the first diagonal block of the adjacency matrix is that of `G1`
(no hypothesis on `G1`: the shifted edges of `G2` never reach it). -/
theorem concat_adj_left (g1 g2 : Graph) (i j : Nat) (hi : i < g1.V) :
    (concat g1 g2).adj i j = g1.adj i j := by
  unfold concat Graph.adj
  simp only
  rw [adjL_append]
  have : adjL (g2.edges.map (fun e => (g1.V + e.1, g1.V + e.2.1, e.2.2))) i j = 0 := by
    induction g2.edges with
    | nil => simp [adjL]
    | cons e es ih =>
        rw [List.map_cons, adjL_cons, ih]
        have : ¬ (g1.V + e.1 = i ∧ g1.V + e.2.1 = j) := by omega
        simp [this]
  rw [this, add_zero]

/-- `concatenate_graphs`: the second diagonal block is the adjacency matrix of `G2`. -/
theorem concat_adj_right (g1 g2 : Graph) (i j : Nat)
    (hwf : ∀ e ∈ g1.edges, e.1 < g1.V) :
    (concat g1 g2).adj (g1.V + i) (g1.V + j) = g2.adj i j := by
  unfold concat Graph.adj
  simp only
  rw [adjL_append]
  have h1 : adjL g1.edges (g1.V + i) (g1.V + j) = 0 := by
    revert hwf
    induction g1.edges with
    | nil => intro _; simp [adjL]
    | cons e es ih =>
        intro hwf
        rw [adjL_cons, ih (fun e' he' => hwf e' (List.mem_cons_of_mem _ he'))]
        have := hwf e (by simp)
        have : ¬ (e.1 = g1.V + i ∧ e.2.1 = g1.V + j) := by omega
        simp [this]
  have h2 : adjL (g2.edges.map (fun e => (g1.V + e.1, g1.V + e.2.1, e.2.2))) (g1.V + i) (g1.V + j)
      = adjL g2.edges i j := by
    induction g2.edges with
    | nil => simp [adjL]
    | cons e es ih =>
        rw [List.map_cons, adjL_cons, adjL_cons, ih]
        simp
  rw [h1, h2, zero_add]

/-- `subgraph(valid)` keeps exactly the edges whose two ends are retained, renumbered by the
number of retained vertices before each end, with their weights. -/
theorem subgraph_edges (g h : Graph) (valid : List Bool) (hs : subgraph g valid = some h) (e' : Edge) :
    e' ∈ h.edges ↔ ∃ e ∈ g.edges, valid.getD e.1 false = true ∧ valid.getD e.2.1 false = true ∧
      e' = (renumb valid e.1, renumb valid e.2.1, e.2.2) := by
  unfold subgraph at hs
  split at hs
  · simp at hs
  · simp only [Option.some.injEq] at hs
    subst hs
    simp only [List.mem_map, List.mem_filter, Bool.and_eq_true]
    constructor
    · rintro ⟨e, ⟨he, h1, h2⟩, rfl⟩; exact ⟨e, he, h1, h2, rfl⟩
    · rintro ⟨e, he, h1, h2, rfl⟩; exact ⟨e, ⟨he, h1, h2⟩, rfl⟩

/-! ## Builders -/

/-- `eps_nn`: the adjacency entry of `(i, j)` is the (clipped) distance exactly when `i ≠ j` and
that distance is below `eps`, and 0 (no edge) otherwise. -/
theorem epsNN_adj (n : Nat) (dist : List (List Rat)) (eps tiny : Rat) (i j : Nat)
    (hi : i < n) (hj : j < n) :
    (epsNN n dist eps tiny).adj i j =
      if i ≠ j ∧ max (getM dist i j) tiny < eps then max (getM dist i j) tiny else 0 :=
  fromDense_adj' _ _ i j hi hj

/-- `knn`: `(i, j)` carries the distance exactly when `i ≠ j` and `i` is within the `k`-th
smallest distance of column `j` or `j` within that of column `i` (symmetrised k-nearest
neighbours, `k` clamped to `n − 1`); no other entry is set. -/
theorem knn_adj (n : Nat) (dist : List (List Rat)) (k : Nat) (i j : Nat) (hi : i < n) (hj : j < n) :
    (knn n dist k).adj i j =
      if i ≠ j ∧ (getM dist i j ≤ kthOfCol dist n j (min k (n - 1)) ∨
                  getM dist j i ≤ kthOfCol dist n i (min k (n - 1)))
      then getM dist i j else 0 := by
  unfold knn
  simp only
  rw [fromDense_adj' _ _ i j hi hj]
  have hget : ∀ c, c < n → ((List.range n).map (fun j => kthOfCol dist n j (min k (n - 1)))).getD c 0
      = kthOfCol dist n c (min k (n - 1)) := by
    intro c hc
    simp [List.getD_eq_getElem?_getD, hc]
  simp only [hget j hj, hget i hi, Bool.or_eq_true, decide_eq_true_eq]

/-- `cross_eps`: the edge list is exactly the pairs whose squared distance is below `eps`,
weighted by that (clipped) squared distance. -/
theorem crossEps_mem (n1 n2 : Nat) (sq : List (List Rat)) (eps tiny : Rat) (i j : Nat) (w : Rat) :
    (i, j, w) ∈ crossEps n1 n2 sq eps tiny ↔
      i < n1 ∧ j < n2 ∧ getM sq i j < eps ∧ w = max (getM sq i j) tiny := by
  unfold crossEps
  simp only [List.mem_flatMap, List.mem_range, List.mem_filterMap]
  constructor
  · rintro ⟨i', hi', j', hj', h⟩
    split at h
    · next hlt =>
        simp only [Option.some.injEq, Prod.mk.injEq] at h
        obtain ⟨rfl, rfl, rfl⟩ := h
        exact ⟨hi', hj', hlt, rfl⟩
    · simp at h
  · rintro ⟨hi, hj, hlt, rfl⟩
    exact ⟨i, hi, j, hj, by simp [hlt]⟩

/-- **Lattice neighbourhoods** (clause "the 6/18/26 lattice neighbourhoods … for all sets of lattice
coordinates"): for every list of pairwise distinct lattice points — any shape, any offset from the
origin — `graph_3d_grid(xyz, k)` as written (shift to the bounding-box corner, base
`m = 3·Σ extents + 2`, one linear code per direction, `argsort`, neighbours in the sorted order
whose codes differ by exactly `l1dist`) contains the row `(i, j, l)` if and only if points `i` and
`j` both exist and their difference is a unit offset (all components in {−1, 0, 1}) of squared
length `l`, with `l = 1` always, `l = 2` when `k ≥ 18` and `l = 3` when `k = 26`.
The direction tables `n6`/`n18`/`n26` and the base are regenerated from the source text by the
translator (`Gen/C11Grid.lean`); `RowOK` (digits below the base, unique unit solution) is re-proved
for every regenerated row, so a change of a table entry or of the base breaks this build unless the
argument still goes through. -/
theorem grid3d_edge_iff (xyz : List Pt) (hnd : xyz.Nodup) (k i j : Nat) (l : Int) :
    (i, j, l) ∈ grid3d xyz k ↔
      ∃ p q, xyz[i]? = some p ∧ xyz[j]? = some q ∧ unitOffset (sub3 q p) l ∧
        (l = 1 ∨ (l = 2 ∧ 18 ≤ k) ∨ (l = 3 ∧ k = 26)) := by
  unfold grid3d
  rw [List.mem_mergeSort]
  exact gridEdges_iff xyz hnd k i j l

/-- the lattice graph is symmetric: `(i, j)` is a row exactly when `(j, i)` is, with the same
length -/
theorem grid3d_symmetric (xyz : List Pt) (hnd : xyz.Nodup) (k i j : Nat) (l : Int) :
    (i, j, l) ∈ grid3d xyz k ↔ (j, i, l) ∈ grid3d xyz k := by
  have flip : ∀ p q : Pt, unitOffset (sub3 q p) l → unitOffset (sub3 p q) l := by
    intro p q h
    simp only [unitOffset, sub3] at h ⊢
    obtain ⟨h1, h2, h3, h4, h5, h6, h7⟩ := h
    refine ⟨by omega, by omega, by omega, by omega, by omega, by omega, ?_⟩
    nlinarith [h7]
  rw [grid3d_edge_iff xyz hnd, grid3d_edge_iff xyz hnd]
  constructor
  · rintro ⟨p, q, hp, hq, hu, hk⟩; exact ⟨q, p, hq, hp, flip p q hu, hk⟩
  · rintro ⟨p, q, hp, hq, hu, hk⟩; exact ⟨q, p, hq, hp, flip p q hu, hk⟩

/-- no point is its own neighbour -/
theorem grid3d_no_self_edge (xyz : List Pt) (hnd : xyz.Nodup) (k i : Nat) (l : Int) :
    (i, i, l) ∉ grid3d xyz k := by
  rw [grid3d_edge_iff xyz hnd]
  rintro ⟨p, q, hp, hq, hu, hk⟩
  rw [hp] at hq
  cases hq
  simp only [unitOffset, sub3, sub_self, mul_zero, add_zero] at hu
  omega

/-- `euclidean_distance` expands `‖x − y‖²` as `‖x‖² + ‖y‖² − 2 x·y` and clips at 0: in exact
arithmetic the expansion equals the sum of squared differences, which is never negative, so the
clip is inert and the squared distances are exactly the defined ones (vectors of equal length). -/
theorem sqDist_eq_def : ∀ (x y : List Rat), x.length = y.length → sqDist x y = sqDistDef x y := by
  have key : ∀ (x y : List Rat), x.length = y.length →
      dot x x + dot y y - 2 * dot x y = sqDistDef x y ∧ 0 ≤ sqDistDef x y := by
    intro x
    induction x with
    | nil => intro y hy; cases y with
      | nil => simp [dot, sqDistDef]
      | cons b y => simp at hy
    | cons a x ih => intro y hy; cases y with
      | nil => simp at hy
      | cons b y =>
          obtain ⟨h1, h2⟩ := ih y (by simpa using hy)
          simp only [dot, sqDistDef, List.zipWith_cons_cons, List.sum_cons, List.map_cons] at h1 h2 ⊢
          constructor
          · linarith [h1, mul_comm a b, sq_nonneg (a - b)]
          · nlinarith [h2, mul_self_nonneg (a - b)]
  intro x y h
  obtain ⟨h1, h2⟩ := key x y h
  unfold sqDist
  rw [h1]; exact max_eq_left h2

/-- `complete_graph(n)`: every ordered pair (loops included, as written) carries weight 1 -/
theorem completeGraph_adj (n i j : Nat) (hi : i < n) (hj : j < n) : (completeGraph n).adj i j = 1 :=
  fromDense_adj' n _ i j hi hj

/-- `subgraph_left(valid, renumb=True)`: exactly the edges whose left end is retained, with the left
end renumbered by the number of retained vertices before it -/
theorem subLeft_edges (b : BGraph) (valid : List Bool) (h : BGraph)
    (hs : subLeft b valid true = .ok (some h)) (hE : b.edges.length ≠ 0) (e' : Edge) :
    e' ∈ h.edges ↔ ∃ e ∈ b.edges, valid.getD e.1 false = true ∧ e' = (renumb valid e.1, e.2.1, e.2.2) := by
  unfold subLeft at hs
  by_cases h1 : valid.length ≠ b.V
  · rw [if_pos h1] at hs; cases hs
  · rw [if_neg h1] at hs
    by_cases h2 : (valid.filter id).length = 0
    · rw [if_pos h2] at hs; cases hs
    · rw [if_neg h2, if_neg hE] at hs
      simp only [if_true, Except.ok.injEq, Option.some.injEq] at hs
      subst hs
      simp only [List.mem_map, List.mem_filter]
      constructor
      · rintro ⟨e, ⟨he, hv⟩, rfl⟩; exact ⟨e, he, hv, rfl⟩
      · rintro ⟨e, he, hv, rfl⟩; exact ⟨e, ⟨he, hv⟩, rfl⟩

/-- `is_connected()` on a symmetric graph with at least two vertices and one edge answers whether
every pair of vertices is joined by a chain of edges (the two early exits `V < 2 → True`,
`E = 0 → False` are part of the model). -/
theorem isConnected_iff (g : Graph) (hw : WF g) (hs : Sym g) (hV : 2 ≤ g.V) (hE : g.edges.length ≠ 0) :
    isConnected g = true ↔ ∀ u v, u < g.V → v < g.V → Conn g u v := by
  obtain ⟨k, hC, _, hused⟩ := cc_inv' g hw hs
  have hk := numCC_eq (cc g) k hC.lt hused
  unfold isConnected
  rw [if_neg (by omega), if_neg hE, hk]
  simp only [beq_iff_eq]
  constructor
  · rintro rfl u v hu hv
    obtain ⟨j, hj⟩ := cc_labelled g hw hs u hu
    obtain ⟨j', hj'⟩ := cc_labelled g hw hs v hv
    have h0 : j = 0 := by have := hC.lt u j hj; omega
    have h0' : j' = 0 := by have := hC.lt v j' hj'; omega
    subst h0; subst h0'
    exact hC.conn u v 0 hj hj'
  · intro hall
    obtain ⟨j, hj⟩ := cc_labelled g hw hs 0 (by omega)
    have hk1 : 1 ≤ k := by have := hC.lt 0 j hj; omega
    by_contra hne
    have hk2 : 2 ≤ k := by omega
    obtain ⟨v0, hv0⟩ := hused 0 (by omega)
    obtain ⟨v1, hv1⟩ := hused 1 (by omega)
    have lt_of : ∀ v j, (cc g).getD v none = some j → v < g.V := by
      intro v j h
      by_contra hc
      rw [getD_none_of_le _ _ (by rw [hC.len]; exact Nat.le_of_not_lt hc)] at h
      cases h
    have := cinv_conn_label g hs k (cc g) hC v0 v1 0 (hall v0 v1 (lt_of v0 0 hv0) (lt_of v1 1 hv1)) hv0
    rw [hv1] at this
    cases this

/-- `list_of_neighbors()`: row `v` lists exactly the targets of the edges leaving `v` -/
theorem listOfNeighbors_mem (g : Graph) (v x : Nat) (hv : v < g.V) :
    x ∈ (listOfNeighbors g).getD v [] ↔ ∃ w, (v, x, w) ∈ g.edges := by
  unfold listOfNeighbors
  rw [List.getD_eq_getElem?_getD, List.getElem?_map, List.getElem?_range hv]
  simp only [Option.map_some, Option.getD_some, List.mem_eraseDups, List.mem_mergeSort]
  exact ⟨mem_rowOf g v x, fun ⟨w, h⟩ => rowOf_mem g v x w h⟩

/-- `degrees()`: the out-degrees add up to the number of edges (parallel edges and loops counted
once each), and so do the in-degrees -/
theorem degrees_sum (g : Graph) (hw : WF g) :
    (degrees g).1.sum = g.edges.length ∧ (degrees g).2.sum = g.edges.length := by
  have key : ∀ (f : Edge → Nat) (es : List Edge), (∀ e ∈ es, f e < g.V) →
      ((List.range g.V).map (fun v => (es.filter (fun e => f e == v)).length)).sum = es.length := by
    intro f es
    induction es with
    | nil => intro _; simp
    | cons e es ih =>
        intro h
        have hone : ∀ V, f e < V → ((List.range V).map (fun v => if f e == v then 1 else 0)).sum = 1 := by
          intro V
          induction V with
          | zero => intro h; omega
          | succ n ihn =>
              intro hlt
              rw [List.range_succ, List.map_append, List.sum_append]
              by_cases hn : f e = n
              · have : ((List.range n).map (fun v => if f e == v then 1 else 0)).sum = 0 := by
                  apply List.sum_eq_zero
                  intro x hx
                  simp only [List.mem_map, List.mem_range] at hx
                  obtain ⟨v, hv, rfl⟩ := hx
                  have : ¬ f e = v := by omega
                  simp [this]
                rw [this]; simp [hn]
              · rw [ihn (by omega)]; simp [hn]
        have hsplit : ∀ v, ((e :: es).filter (fun e' => f e' == v)).length =
            (if f e == v then 1 else 0) + (es.filter (fun e' => f e' == v)).length := by
          intro v
          rw [List.filter_cons]
          by_cases hv : (f e == v) = true
          · simp [hv]; omega
          · simp [hv]
        simp only [hsplit]
        rw [List.sum_map_add, hone g.V (h e (by simp)), ih (fun e' he' => h e' (List.mem_cons_of_mem _ he'))]
        simp; omega
  exact ⟨key (fun e => e.1) g.edges (fun e he => (hw e he).1), key (fun e => e.2.1) g.edges (fun e he => (hw e he).2)⟩

/-- `cross_knn(X, Y, k)`: the weights kept for a point of `X` are the `min k n₂` smallest squared
distances to the points of `Y` — every kept (unclipped) distance is at most every distance that was
not kept (for every `k`, also `k ≥ n₂`, where everything is kept). -/
theorem crossKnn_nearest (row : List Rat) (k : Nat) (a b : Rat)
    (ha : a ∈ (row.mergeSort (fun x y => decide (x ≤ y))).take k)
    (hb : b ∈ (row.mergeSort (fun x y => decide (x ≤ y))).drop k) : a ≤ b := by
  have hs : (row.mergeSort (fun x y => decide (x ≤ y))).Pairwise (fun x y => x ≤ y) := by
    have := List.pairwise_mergeSort (le := fun (x y : Rat) => decide (x ≤ y))
      (by intro a b c h1 h2; simp only [decide_eq_true_eq] at *; exact le_trans h1 h2)
      (by intro a b; simp only [Bool.or_eq_true, decide_eq_true_eq]; exact le_total _ _) row
    exact this.imp (by intro a b h; simpa using h)
  rw [← List.take_append_drop k (row.mergeSort (fun x y => decide (x ≤ y)))] at hs
  exact (List.pairwise_append.mp hs).2.2 a ha b hb

/-! ## Non-vacuity: concrete objects meeting the hypotheses -/

/-- parallel edges 0→1 (3 and 5), then 1→2: the case on which the unrepaired code answered [0,5,4] -/
example : dijkstra ⟨3, [(0, 1, 3), (0, 1, 5), (1, 2, 1)]⟩ [0] = [some 0, some 3, some 4] := by decide +kernel
example : certOK ⟨3, [(0, 1, 3), (0, 1, 5), (1, 2, 1)]⟩ [0]
    (dijkstra ⟨3, [(0, 1, 3), (0, 1, 5), (1, 2, 1)]⟩ [0]) = true := by decide +kernel
example : voronoi ⟨4, [(0, 1, 1), (1, 0, 1), (1, 2, 0), (2, 1, 0)]⟩ [0, 2] = [some 0, some 1, some 1, none] := by
  decide +kernel
example : voronoiCert ⟨4, [(0, 1, 1), (1, 0, 1), (1, 2, 0), (2, 1, 0)]⟩ [0, 2]
    (voronoi ⟨4, [(0, 1, 1), (1, 0, 1), (1, 2, 0), (2, 1, 0)]⟩ [0, 2]) = true := by decide +kernel
example : cc ⟨4, [(0, 3, 1), (3, 0, 1)]⟩ = [some 0, some 1, some 2, some 0] := by decide +kernel
example : ccClosed ⟨4, [(0, 3, 1), (3, 0, 1)]⟩ (cc ⟨4, [(0, 3, 1), (3, 0, 1)]⟩) = true := by decide +kernel
example : rowSum ⟨3, [(1, 0, 1), (0, 1, 1), (0, 2, 3)]⟩ 0 ≠ 0 := by decide +kernel
example : (normalize ⟨3, [(1, 0, 1), (0, 1, 1), (0, 2, 3)]⟩ 0).edges = [(0, 1, 1/4), (0, 2, 3/4), (1, 0, 1)] := by
  decide +kernel
example : (subgraph ⟨4, [(0, 1, 1), (1, 3, 2), (3, 3, 3), (2, 3, 4)]⟩ [false, true, false, true]).map (·.edges)
    = some [(0, 1, 2), (1, 1, 3)] := by decide +kernel

/-- query → normalize → query: the second answer is about the normalised graph -/
example : dijkstra (runHistory ⟨3, [(0, 1, 1), (0, 2, 3), (1, 2, 1)]⟩ [.normalize 0]) [0]
    = [some 0, some (1/4), some (3/4)] := by decide +kernel
example : certOK (runHistory ⟨3, [(0, 1, 1), (0, 2, 3), (1, 2, 1)]⟩ [.normalize 0]) [0]
    (dijkstra (runHistory ⟨3, [(0, 1, 1), (0, 2, 3), (1, 2, 1)]⟩ [.normalize 0]) [0]) = true := by decide +kernel

/-- hypotheses of the full theorems are met by ordinary graphs -/
example : NonNeg ⟨3, [(0, 1, 3), (0, 1, 5), (1, 2, 1)]⟩ ∧ WF ⟨3, [(0, 1, 3), (0, 1, 5), (1, 2, 1)]⟩ := by
  constructor
  · intro e he; simp at he; rcases he with rfl | rfl | rfl <;> norm_num
  · intro e he; simp at he; rcases he with rfl | rfl | rfl <;> simp
example : Sym ⟨4, [(0, 3, 1), (3, 0, 1)]⟩ := by
  intro u v w h; simp at h
  rcases h with ⟨rfl, rfl, rfl⟩ | ⟨rfl, rfl, rfl⟩
  · exact ⟨1, by simp⟩
  · exact ⟨1, by simp⟩
/-- a triangle with a heavy side: the two light sides are selected, both directions each -/
example : kruskalLoop [(0, 1, 1), (1, 0, 1), (1, 2, 2), (2, 1, 2), (0, 2, 5), (2, 0, 5)] 2 (List.range 3) []
    = [(0, 1, 1), (1, 0, 1), (1, 2, 2), (2, 1, 2)] := by decide +kernel
example : Forest 3 [(0, 1, (1 : Rat)), (1, 2, 2)] := by
  have h1 : Forest 3 ([] ++ [(0, 1, (1 : Rat))]) := Forest.snoc Forest.nil (fun h => by
    have := conn_nil 3 h; simp at this)
  have h2 : Forest 3 (([] ++ [(0, 1, (1 : Rat))]) ++ [(1, 2, 2)]) := Forest.snoc h1 (fun h => by
    have hk := (comp_inv 3 [(0, 1, (1 : Rat))] (by intro e he; simp at he; subst he; simp)).2 1 2 (by omega) (by omega)
    have : (comp 3 [(0, 1, (1 : Rat))]).getD 1 0 = (comp 3 [(0, 1, (1 : Rat))]).getD 2 0 := hk.mpr h
    revert this; decide +kernel)
  simpa using h2

/-- three distinct lattice points in an L shape: the diagonal pair appears from `k = 18` on -/
example : ([(0, 0, 0), (1, 0, 0), (1, 1, 0)] : List Pt).Nodup := by decide
example : (0, 2, 2) ∈ grid3d [(5, 5, 5), (6, 5, 5), (6, 6, 5)] 18 :=
  (grid3d_edge_iff _ (by decide) 18 0 2 2).mpr ⟨(5, 5, 5), (6, 6, 5), rfl, rfl, by decide, by decide⟩
example : (0, 2, 2) ∉ grid3d [(5, 5, 5), (6, 5, 5), (6, 6, 5)] 6 := by
  rw [grid3d_edge_iff _ (by decide)]
  rintro ⟨p, q, _, _, _, (h | ⟨_, h⟩ | ⟨_, h⟩)⟩ <;> omega
example : RowOK (((1, 1, 1), (1, -1, 0), (1, 0, -1)), (1, 1, 1)) 3 := n26_ok _ (by decide)

/-- the minimum-spanning-tree certificate on a concrete triangle: the two light sides pass, the
selection containing the heavy side does not -/
example : mstCertB 3 [(0, 1, 1), (1, 2, 2), (0, 2, 5)] [(0, 1, 1), (1, 2, 2)] = true := by decide +kernel
example : mstCertB 3 [(0, 1, 1), (1, 2, 2), (0, 2, 5)] [(0, 1, 1), (0, 2, 5)] = false := by decide +kernel

end NipyVerif.C11
