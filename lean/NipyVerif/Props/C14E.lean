/-
C14 — k-means as a whole (wrapper argument handling, random restarts, stationarity, the returned
solution never worse than the initial labelling), and the remaining helpers of
hierarchical_clustering.py (`check_compatible_height`, `_auxiliary_graph`, `fusion`,
`average_link_graph` as an edge-constrained agglomeration).  Only property statements and
non-vacuity examples live here.
-/
import NipyVerif.Props.C14
import NipyVerif.Lemmas.C14Extra

namespace NipyVerif.C14

/-! ## k-means: the public wrapper -/

/-- the wrapper's argument handling: a non-positive `maxiter` means 300 iterations (and `delta`
    is then left alone); with a positive `maxiter` a negative `delta` means `0.0001` -/
theorem kmeansW_args (p : Nat) (X : List Vec) (k0 : Int) (z0 : List Nat) (maxiter : Int) (delta : Rat) :
    (maxiter ≤ 0 → kmeansW p X k0 z0 maxiter delta = kmeans p X k0.toNat z0 300 delta) ∧
    (0 < maxiter → delta < 0 →
      kmeansW p X k0 z0 maxiter delta = kmeans p X k0.toNat z0 maxiter.toNat deltaDefault) ∧
    (0 < maxiter → 0 ≤ delta →
      kmeansW p X k0 z0 maxiter delta = kmeans p X k0.toNat z0 maxiter.toNat delta) := by
  refine ⟨fun h => ?_, fun h hd => ?_, fun h hd => ?_⟩
  · simp [kmeansW, not_lt.mpr h]
  · simp [kmeansW, h, hd]
  · simp [kmeansW, h, not_lt.mpr hd]

/-- "K-means returns labels within range and centres that are exactly the means of their members
    (the global mean for an empty cluster)" — for the public `kmeans` whatever the cluster count
    (clamped to `1..n`), iteration budget (also `≤ 0`) and `delta` (also negative). -/
theorem kmeansW_returns_valid (p : Nat) (X : List Vec) (hX : X ≠ []) (k0 : Int) (z0 : List Nat)
    (maxiter : Int) (delta : Rat) :
    let r := kmeansW p X k0 z0 maxiter delta
    let k := min (max k0.toNat 1) X.length
    r.1.length = X.length ∧ (∀ l ∈ r.1, l < k) ∧
      ∀ q, q < k → ∀ d, d < p → centresOf r.2.1 q d = mstep X r.1 q d := by
  unfold kmeansW
  exact kmeans_returns_valid p X hX k0.toNat z0 _ _

/-- "from a fixed initial labelling running more iterations never increases the within-cluster
    sum of squares of the returned solution" — through the wrapper, for positive budgets -/
theorem kmeansW_wcss_antitone (p : Nat) (X : List Vec) (hX : X ≠ []) (k0 : Int) (z0 : List Nat)
    (delta : Rat) (m m' : Int) (hm : 1 ≤ m) (hmm : m ≤ m') :
    wcss p X (kmeansW p X k0 z0 m' delta).1 (centresOf (kmeansW p X k0 z0 m' delta).2.1)
      ≤ wcss p X (kmeansW p X k0 z0 m delta).1 (centresOf (kmeansW p X k0 z0 m delta).2.1) := by
  have h1 : 0 < m := by omega
  have h2 : 0 < m' := by omega
  simp only [kmeansW, h1, h2, if_true]
  exact kmeans_wcss_antitone p X hX k0.toNat z0 _ m.toNat m'.toNat (by omega) (by omega)

/-- the returned solution is never worse than the initial labelling with its own means as
    centres (for an initial labelling with labels in range) -/
theorem kmeans_wcss_le_initial (p : Nat) (X : List Vec) (hX : X ≠ []) (k0 : Nat) (z0 : List Nat)
    (hlen : z0.length = X.length) (hz : ∀ l ∈ z0, l < min (max k0 1) X.length)
    (delta : Rat) (m : Nat) (hm : 1 ≤ m) :
    wcss p X (kmeans p X k0 z0 m delta).1 (centresOf (kmeans p X k0 z0 m delta).2.1)
      ≤ wcss p X z0 (mstep X z0) := by
  have hk : 0 < min (max k0 1) X.length := by
    have : 0 < X.length := List.length_pos_iff.mpr hX
    omega
  refine le_trans (kmeans_wcss_antitone p X hX k0 z0 delta 1 m (le_refl 1) hm) ?_
  have e : wcss p X z0 (mstep X z0)
      = wcss p X z0 (centresOf (mstepL p X z0 (min (max k0 1) X.length))) := by
    rw [wcss_eq_wcssP, wcss_eq_wcssP]
    exact (wcssP_congr p _ _ _ _ (zip_label_lt hz)
      (fun q hq d hd => centresOf_mstepL p X z0 _ q d hq hd)).symm
  rw [e]
  simp only [kmeans, Nat.sub_self, runFrom]
  exact kmStep_wcss_le p _ hk X _ z0 hlen hz

/-! ## k-means: the stopping rule -/

/-- once an iteration leaves the centres where they were, every later iteration returns the same
    solution: stopping when the centres move by less than `delta * vdata` loses nothing at a
    stationary point, and with `delta = 0` (never stopping early) the run stays there -/
theorem kmeans_stationary_stable (p k : Nat) (X : List Vec) (thr : Rat) (C : List (List Rat))
    (hfix : (kmStep p k X C).2 = C) (f : Nat) :
    runFrom p k X thr f C = kmStep p k X C := by
  induction f with
  | zero => rfl
  | succ f ih =>
      rw [runFrom]
      split_ifs
      · rfl
      · rw [hfix]; exact ih

/-- with a threshold `≤ 0` (`delta = 0`, or a negative `delta` kept because `maxiter ≤ 0`) the loop
    never stops early: `f` further iterations are `f` applications of the loop body -/
theorem kmeans_no_early_stop (p k : Nat) (X : List Vec) (thr : Rat) (hthr : thr ≤ 0) (f : Nat)
    (C : List (List Rat)) :
    runFrom p k X thr (f + 1) C = runFrom p k X thr f (kmStep p k X C).2 := by
  rw [runFrom]
  have h0 : 0 ≤ moved p k (centresOf C) (centresOf (kmStep p k X C).2) :=
    sumTo_nonneg (fun q _ => sqDist_nonneg p _ _)
  rw [if_neg (by linarith)]

/-! ## k-means: random restarts -/

/-- `_kmeans` with `ninit` restarts returns the solution of the **last** restart: labels in
    range, centres the means of their members, for any initial centre sets (the rows `X[seeds]`) -/
theorem kmeansR_returns_valid (p k : Nat) (hk : 0 < k) (X : List Vec)
    (inits : List (List (List Rat))) (maxiter : Nat) (delta : Rat)
    (r : List Nat × List (List Rat) × Option Rat) (hr : kmeansR p k X inits maxiter delta = some r) :
    r.1.length = X.length ∧ (∀ l ∈ r.1, l < k) ∧ r.2.1 = mstepL p X r.1 k ∧
      ∃ C0, inits.getLast? = some C0 ∧ (r.1, r.2.1) = runFrom p k X (delta * vdata p X) (maxiter - 1) C0 := by
  unfold kmeansR at hr
  cases hl : inits.getLast? with
  | none => rw [hl] at hr; simp at hr
  | some C0 =>
      rw [hl] at hr
      simp only [Option.some.injEq] at hr
      subst hr
      obtain ⟨h1, h2, h3⟩ := runFrom_returns_means p k hk X (delta * vdata p X) (maxiter - 1) C0
      exact ⟨h2, h3, h1, C0, rfl, rfl⟩

/-- with the same draws, a larger iteration budget never increases the within-cluster sum of
    squares of what the restarts return -/
theorem kmeansR_wcss_antitone (p k : Nat) (hk : 0 < k) (X : List Vec)
    (inits : List (List (List Rat))) (delta : Rat) (m m' : Nat) (hm : 1 ≤ m) (hmm : m ≤ m')
    (r r' : List Nat × List (List Rat) × Option Rat)
    (hr : kmeansR p k X inits m delta = some r) (hr' : kmeansR p k X inits m' delta = some r') :
    wcss p X r'.1 (centresOf r'.2.1) ≤ wcss p X r.1 (centresOf r.2.1) := by
  unfold kmeansR at hr hr'
  cases hl : inits.getLast? with
  | none => rw [hl] at hr; simp at hr
  | some C0 =>
      rw [hl] at hr hr'
      simp only [Option.some.injEq] at hr hr'
      subst hr hr'
      simp only
      obtain ⟨t, rfl⟩ := Nat.exists_eq_add_of_le hmm
      induction t with
      | zero => exact le_refl _
      | succ t ih =>
          have hstep := runFrom_succ_le p k hk X (delta * vdata p X) (m + t - 1) C0
          have e : m + (t + 1) - 1 = (m + t - 1) + 1 := by omega
          rw [e]
          exact le_trans hstep (ih (by omega))

/-! ## `check_compatible_height` -/

/-- `check_compatible_height()` is `True` exactly when no node is higher than its parent -/
theorem checkCompatibleHeight_iff (par : List Nat) (h : List Rat) :
    checkCompatibleHeight par h = true ↔
      ∀ v, v < par.length → h.getD v 0 ≤ h.getD (parFn par v) 0 := by
  simp [checkCompatibleHeight, parFn, List.all_eq_true]

/-! ## `_auxiliary_graph` -/

/-- the auxiliary graph of `ward` has one edge `(a, b)`, `a < b`, for every pair of distinct
    vertices joined in either direction in the input graph (loops and repetitions dropped), so
    it is a valid constraint edge set for the agglomeration theorems -/
theorem auxEdges_spec (E : List (Nat × Nat)) (e : Nat × Nat) :
    e ∈ auxEdges E ↔ e.1 < e.2 ∧ ((e.1, e.2) ∈ E ∨ (e.2, e.1) ∈ E) :=
  auxEdges_mem E e

theorem auxEdges_good (n : Nat) (E : List (Nat × Nat)) (hE : ∀ e ∈ E, e.1 < n ∧ e.2 < n) :
    GoodEdges n (auxEdges E) :=
  auxEdges_goodEdges n E hE

/-! ## `fusion` and `average_link_graph` -/

/-- the population-weighted average of `fusion` keeps "weight = mean similarity between the two
    clusters": if `w(i,x) = S_i / (n_i n_x)` and `w(j,x) = S_j / (n_j n_x)` then
    `fi·w(i,x) + fj·w(j,x) = (S_i + S_j) / ((n_i + n_j) n_x)` with `fi = n_i/(n_i+n_j)`,
    `fj = 1 − fi` -/
theorem fusion_weight_is_mean (ni nj nx : Nat) (hi : 0 < ni) (hj : 0 < nj) (hx : 0 < nx) (Si Sj : Rat) :
    let fi : Rat := (ni : Rat) / ((ni + nj : Nat) : Rat)
    fi * (Si / ((ni : Rat) * nx)) + (1 - fi) * (Sj / ((nj : Rat) * nx))
      = (Si + Sj) / (((ni + nj : Nat) : Rat) * nx) :=
  fusion_mean ni nj nx hi hj hx Si Sj

/-- the new similarities never exceed the one just merged when similarities are non-negative
    (a missing edge counts as `0`): heights of `average_link_graph`, the negated similarities,
    do not decrease along the merges -/
theorem fusion_weight_le (ni nj : Nat) (hi : 0 < ni) (hj : 0 < nj) (wi wj c : Rat)
    (h0i : 0 ≤ wi) (h0j : 0 ≤ wj) (hic : wi ≤ c) (hjc : wj ≤ c) :
    let fi : Rat := (ni : Rat) / ((ni + nj : Nat) : Rat)
    0 ≤ fi * wi + (1 - fi) * wj ∧ fi * wi + (1 - fi) * wj ≤ c :=
  fusion_le ni nj hi hj wi wj c h0i h0j hic hjc

/-- what `fusion` computes for the merged node: the similarity between `k` and a third cluster
    `x` is `fi ·` (total similarity between `i` and `x`) `+ fj ·` (total between `j` and `x`) -/
theorem fusion_weight (ws : List ((Nat × Nat) × Rat)) (i j k x : Nat) (fi fj : Rat)
    (hij : i ≠ j) (hki : k ≠ i) (hkj : k ≠ j) (hx : x ≠ i ∧ x ≠ j ∧ x ≠ k)
    (hk : ∀ ew ∈ ws, ew.1.1 ≠ k ∧ ew.1.2 ≠ k)
    (e : Nat × Nat) (he : (e, w) ∈ fuseW ws i j k fi fj) (hex : samePair e (k, x) = true) :
    w = fi * wsum ws i x + fj * wsum ws j x :=
  fuseW_weight ws i j k x fi fj hij hki hkj hx hk e w he hex

/-- "non-decreasing heights from children to parents" for average link, one step: with one
    non-negative similarity per pair of clusters, all at most `c` (in particular `c` = the
    similarity of the pair being merged, the largest one), every similarity after `fusion` is
    again between `0` and `c` — so the next merge is not more similar than this one and its height
    (the negated similarity) is not lower.  (The loop-level statement needs in addition that
    `fusion` keeps one edge per pair, which is checked on the real code by the oracle only.) -/
theorem avg_step_weights_bounded (ws : List ((Nat × Nat) × Rat)) (i j k ni nj : Nat)
    (hij : i ≠ j) (hki : k ≠ i) (hkj : k ≠ j) (hni : 0 < ni) (hnj : 0 < nj)
    (hk : ∀ ew ∈ ws, ew.1.1 ≠ k ∧ ew.1.2 ≠ k) (hU : UniquePairs ws) (c : Rat) (hc : 0 ≤ c)
    (hb : ∀ ew ∈ ws, 0 ≤ ew.2 ∧ ew.2 ≤ c) :
    let fi : Rat := (ni : Rat) / ((ni + nj : Nat) : Rat)
    ∀ ew ∈ fuseW ws i j k fi (1 - fi), 0 ≤ ew.2 ∧ ew.2 ≤ c :=
  avg_step_bounded ws i j k ni nj hij hki hkj hni hnj hk hU c hc hb

/-- `average_link_graph` merges two clusters joined by a live edge into a new node and renames /
    merges the edges exactly as the Ward loop does: its skeleton steps are agglomeration steps,
    so a replay all of whose merges are reported admissible is a reachable state and the
    `agglo_*` theorems (forest, one tree per component, connected subtrees, `n − nbcc` merges)
    and the cut theorems apply to its dendrogram. -/
theorem avg_replay_is_agglomeration (n : Nat) (W : List ((Nat × Nat) × Rat)) (S : List (Nat × Nat))
    (hflags : ∀ x ∈ (avgReplay S (avgInit n W) []).2, x.1 = true) :
    Reach n (W.map (·.1)) (avgReplay S (avgInit n W) []).1.skel :=
  avgReplay_reach S [] Reach.init hflags

/-! ## Non-vacuity -/

example : kmeansW 1 [vecOf [0], vecOf [1], vecOf [5]] 7 [0, 1, 1] (-1) (-1)
    = kmeans 1 [vecOf [0], vecOf [1], vecOf [5]] 7 [0, 1, 1] 300 (-1) := by
  exact (kmeansW_args 1 _ 7 _ (-1) (-1)).1 (by decide)
example : (kmeansW 1 [vecOf [0], vecOf [1], vecOf [5]] 2 [0, 1, 1] 3 0).1 = [0, 0, 1] := by decide +kernel
/-- a stationary point (hypothesis of `kmeans_stationary_stable`) -/
example : (kmStep 1 2 [vecOf [0], vecOf [1], vecOf [5]] [[1/2], [5]]).2 = [[1/2], [5]] := by decide +kernel
example : ∃ r, kmeansR 1 2 [vecOf [0], vecOf [1], vecOf [5]] [[[0], [1]], [[1], [5]]] 2 0 = some r :=
  ⟨_, rfl⟩
example : checkCompatibleHeight [2, 2, 2] [0, 0, 1] = true ∧ checkCompatibleHeight [2, 2, 2] [0, 3, 1] = false := by
  decide +kernel
example : (0, 2) ∈ auxEdges [(2, 0), (0, 2), (1, 1), (0, 1)] ∧ (1, 1) ∉ auxEdges [(2, 0), (0, 2), (1, 1), (0, 1)] := by
  simp [auxEdges_spec]
/-- hypotheses of `avg_step_weights_bounded` on a triangle with a pendant edge -/
example : UniquePairs [((0, 2), 1), ((2, 1), 1/2), ((2, 3), 1/4)] ∧
    (∀ ew ∈ [((0, 2), (1 : Rat)), ((2, 1), 1/2), ((2, 3), 1/4)], ew.1.1 ≠ 4 ∧ ew.1.2 ≠ 4) ∧
    (∀ ew ∈ [((0, 2), (1 : Rat)), ((2, 1), 1/2), ((2, 3), 1/4)], 0 ≤ ew.2 ∧ ew.2 ≤ 2) := by
  refine ⟨by unfold UniquePairs; decide, by decide, by decide +kernel⟩
example : (avgReplay [(0, 1), (3, 2)] (avgInit 3 [((0, 1), 2), ((1, 2), 1)]) []).2
    = [(true, 2, 2), (true, 1/2, 1/2)] := by decide +kernel

end NipyVerif.C14
