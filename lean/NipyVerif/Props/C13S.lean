/-
C13 (part S) — property theorems about the segmentation model of `NipyVerif.Model.C13S`:
`make_edges` (memory safety, completeness), `map_from_ppm` (both mask options), `vm_step`
(equivariance), operation histories of a `Segmentation` object (simplex, frame), and the ownership of
the caller's posterior map.
-/
import NipyVerif.Lemmas.C13S
import NipyVerif.Props.C13

namespace NipyVerif.C13

/-! ## `make_edges` -/

/-- the model's neighbourhood tables are the ones regenerated from mrf.c -/
theorem ngb_tables_from_source : ngb6 = Gen.C13.ngb6 ∧ ngb26 = Gen.C13.ngb26 := by
  constructor <;> rfl

/-- `make_edges_in_bounds` (reads): every neighbour that passes the test `!(pos < 0 || pos >= u0)` is
    read inside the `idx` array. -/
theorem make_edges_in_bounds (g : Grid) (hK : g.K = 1) (v : Nat × Nat × Nat) (o : Int × Int × Int)
    (h : posOk g (ngbPos g v o) = true) : (ngbPos g v o).toNat < g.X * g.Y * g.Z := by
  have := ve_step_pos_in_bounds g (ngbPos g v o) h 0 (by omega)
  unfold Grid.size at this
  rw [hK] at this
  omega

/-- `make_edges_in_bounds` (writes): the number of stored edges never exceeds the
    `ngb_size * mask_size` pairs that were allocated. -/
theorem make_edges_fits_buffer (g : Grid) (idx : Array Int) (ngb : List (Int × Int × Int)) :
    (makeEdges g idx ngb).length ≤ ngb.length * maskSize g idx :=
  edges_length_le g idx ngb (allVoxels g)

/-- `make_edges_complete`: the rows of the result are *exactly* the pairs `(idx[v], idx[pos])` for an
    in-mask voxel `v` (in C order) and an offset `o` of the neighbourhood system (in table order) whose
    flat position `pos` passes the bounds test and is in the mask. -/
theorem make_edges_complete (g : Grid) (idx : Array Int) (ngb : List (Int × Int × Int)) (e : Int × Int) :
    e ∈ makeEdges g idx ngb ↔
      ∃ v, inGrid g v ∧ 0 ≤ idxAt g idx v ∧ ∃ o ∈ ngb,
        posOk g (ngbPos g v o) = true ∧ 0 ≤ idx.getD (ngbPos g v o).toNat (-1) ∧
          e = (idxAt g idx v, idx.getD (ngbPos g v o).toNat (-1)) := by
  unfold makeEdges
  simp only [List.mem_flatMap, mem_allVoxels]
  constructor
  · rintro ⟨v, hv, he⟩
    unfold edgesAt at he
    split_ifs at he with hneg
    · simp at he
    · obtain ⟨o, ho, heo⟩ := List.mem_filterMap.mp he
      exact ⟨v, hv, by omega, o, ho, (mem_edgeTo g idx v o e).mp heo⟩
  · rintro ⟨v, hv, hpos, o, ho, h⟩
    refine ⟨v, hv, ?_⟩
    unfold edgesAt
    rw [if_neg (by omega)]
    exact List.mem_filterMap.mpr ⟨o, ho, (mem_edgeTo g idx v o e).mpr h⟩

/-- every stored edge joins two voxels of the mask: both endpoints are non-negative entries of `idx`
    (so below any bound `M` on the entries — the labels `0..mask_size-1` in practice). -/
theorem make_edges_endpoints (g : Grid) (idx : Array Int) (ngb : List (Int × Int × Int)) (M : Int)
    (hM : ∀ p, idx.getD p (-1) < M) : ∀ e ∈ makeEdges g idx ngb, 0 ≤ e.1 ∧ e.1 < M ∧ 0 ≤ e.2 ∧ e.2 < M := by
  intro e he
  obtain ⟨v, _, hv, o, _, _, hj, rfl⟩ := (make_edges_complete g idx ngb e).mp he
  exact ⟨hv, hM _, hj, hM _⟩

/-- completeness w.r.t. the geometry: whenever two in-mask voxels are neighbours in the grid for the
    neighbourhood system (`w = v + o`), the ordered pair `(idx[v], idx[w])` is stored. -/
theorem make_edges_contains_geometric_neighbours (g : Grid) (hK : g.K = 1) (idx : Array Int)
    (ngb : List (Int × Int × Int)) (v w : Nat × Nat × Nat) (o : Int × Int × Int) (hv : inGrid g v)
    (ho : o ∈ ngb) (hw : ngbVoxel g v o = some w) (hiv : 0 ≤ idxAt g idx v) (hiw : 0 ≤ idxAt g idx w) :
    (idxAt g idx v, idxAt g idx w) ∈ makeEdges g idx ngb := by
  obtain ⟨hpos, hwg⟩ := ngbPos_of_ngbVoxel g v w o hw
  rw [make_edges_complete]
  refine ⟨v, hv, hiv, o, ho, ?_, ?_, ?_⟩
  · have := posOk_of_inGrid g w hwg
    rw [flatPos_cast] at this
    rw [hpos]; exact this
  · rw [hpos, Int.toNat_natCast, hK, Nat.mul_one]; exact hiw
  · rw [hpos, Int.toNat_natCast, hK, Nat.mul_one]; rfl

/-- … and when no in-mask voxel lies on the border of the grid (what the class comment of
    `Segmentation` asks of the mask), the stored edges are *exactly* the geometric ones: every row is
    `(idx[v], idx[v + o])` for an in-grid neighbour `v + o`.  (On border voxels the flat-index test lets
    a neighbour position wrap into the adjacent row — the same leniency as in `ve_step`.) -/
theorem make_edges_interior_exact (g : Grid) (hK : g.K = 1) (idx : Array Int)
    (ngb : List (Int × Int × Int)) (hu : unitOffsets ngb)
    (hint : ∀ v, inGrid g v → 0 ≤ idxAt g idx v → interior g v) (e : Int × Int) :
    e ∈ makeEdges g idx ngb ↔
      ∃ v w o, inGrid g v ∧ o ∈ ngb ∧ ngbVoxel g v o = some w ∧ 0 ≤ idxAt g idx v ∧ 0 ≤ idxAt g idx w ∧
        e = (idxAt g idx v, idxAt g idx w) := by
  constructor
  · intro he
    obtain ⟨v, hv, hiv, o, ho, _, hj, rfl⟩ := (make_edges_complete g idx ngb e).mp he
    obtain ⟨w, hw⟩ := ngbVoxel_of_interior g v o (hint v hv hiv) (hu o ho)
    obtain ⟨hpos, _⟩ := ngbPos_of_ngbVoxel g v w o hw
    have e1 : idx.getD (ngbPos g v o).toNat (-1) = idxAt g idx w := by
      rw [hpos, Int.toNat_natCast, hK, Nat.mul_one]; rfl
    exact ⟨v, w, o, hv, ho, hw, hiv, by rw [← e1]; exact hj, by rw [e1]⟩
  · rintro ⟨v, w, o, hv, ho, hw, hiv, hiw, rfl⟩
    exact make_edges_contains_geometric_neighbours g hK idx ngb v w o hv ho hw hiv hiw

/-- both neighbourhood systems of mrf.c consist of unit steps -/
theorem ngb_tables_unit_offsets : unitOffsets ngb6 ∧ unitOffsets ngb26 := by
  constructor <;> (unfold unitOffsets; decide)

/-! ## `map_from_ppm` -/

/-- Clause "the most-probable labelling is their arg-max", default mask: `map_from_ppm(ppm)` labels
    **every** voxel with `1 +` the first maximiser of its row.  (The default mask is the one found in
    the source text.) -/
theorem map_from_ppm_default_mask (K : Nat) (hK : 0 < K) (hK8 : K < 256) (ppm : Nat → Nat → Rat) (v : Nat) :
    mapFromPpm none K ppm v = some (argmax (ppm v) K + 1) := by
  have : Gen.C13.mapDefaultMaskAllTrue = true := rfl
  unfold mapFromPpm mapLabel
  simp only [this, if_true]
  have := argmax_lt (ppm v) K hK
  congr 1
  omega

/-- explicit mask: `1 + arg-max` inside, `0` outside -/
theorem map_from_ppm_masked (m : Nat → Bool) (K : Nat) (hK : 0 < K) (hK8 : K < 256) (ppm : Nat → Nat → Rat)
    (v : Nat) : mapFromPpm (some m) K ppm v = some (if m v then argmax (ppm v) K + 1 else 0) := by
  unfold mapFromPpm mapLabel
  have := argmax_lt (ppm v) K hK
  simp only
  congr 1
  split_ifs <;> omega

/-- both options: a labelled voxel carries a class `1..K` whose posterior is maximal, the first such -/
theorem map_from_ppm_is_argmax (mask : Option (Nat → Bool)) (K : Nat) (hK : 0 < K) (hK8 : K < 256)
    (ppm : Nat → Nat → Rat) (v : Nat) (hin : ∀ m, mask = some m → m v = true) :
    ∃ l, mapFromPpm mask K ppm v = some (l + 1) ∧ l < K ∧ (∀ j, j < K → ppm v j ≤ ppm v l) ∧
      (∀ j, j < l → ppm v j < ppm v l) := by
  refine ⟨argmax (ppm v) K, ?_, argmax_lt _ K hK, argmax_ge _ K, argmax_first _ K⟩
  cases mask with
  | none => exact map_from_ppm_default_mask K hK hK8 ppm v
  | some m => rw [map_from_ppm_masked m K hK hK8 ppm v, hin m rfl]; rfl

/-- `binarize_ppm`: every row of the binarised map is a point of the simplex — the indicator of the
    (first) arg-max class of that row. -/
theorem binarize_is_one_hot_argmax (K : Nat) (hK : 0 < K) (row : Nat → Rat) :
    sumTo K (binarizeRow K row) = 1 ∧ binarizeRow K row (argmax row K) = 1 ∧
      (∀ c, c ≠ argmax row K → binarizeRow K row c = 0) ∧ ∀ j, j < K → row j ≤ row (argmax row K) := by
  refine ⟨?_, by simp [binarizeRow], fun c hc => by simp [binarizeRow, hc], argmax_ge row K⟩
  unfold binarizeRow
  rw [sumTo_eq_sum, Finset.sum_eq_single (argmax row K)]
  · simp
  · intro b _ hb; simp [hb]
  · intro h; exact absurd (Finset.mem_range.mpr (argmax_lt row K hK)) h

/-! ## `vm_step` -/

/-- Clause "translating the data or rescaling each axis translates or rescales the fitted means and
    covariances accordingly", tissue parameters: for `x ↦ a·x + t` per channel, `mu ↦ a·mu + t` and
    `sigma[j,l] ↦ a_j a_l sigma[j,l]`, whenever the class carries posterior mass at least `1e-50`. -/
theorem vm_step_affine_equivariant (tiny : Rat) (n : Nat) (p : Nat → Rat) (x : Nat → Nat → Rat)
    (a t : Nat → Rat) (ht : 0 < tiny) (hp : tiny ≤ sumTo n p) (j l : Nat) :
    vmMu tiny n p (affineData a t x) j = a j * vmMu tiny n p x j + t j ∧
    vmSigma tiny n p (affineData a t x) j l = a j * a l * vmSigma tiny n p x j l := by
  have hZ : vmZ tiny n p = sumTo n p := vmZ_eq tiny n p hp
  have hne : sumTo n p ≠ 0 := by linarith
  have hmu : ∀ j, vmMu tiny n p (affineData a t x) j = a j * vmMu tiny n p x j + t j := by
    intro j
    unfold vmMu
    rw [hZ]
    have : sumTo n (fun i => affineData a t x i j * p i)
        = a j * sumTo n (fun i => x i j * p i) + t j * sumTo n p := by
      rw [← sumTo_mul_left, ← sumTo_mul_left, ← sumTo_add]
      apply sumTo_congr; intro i _; unfold affineData; ring
    rw [this]; field_simp
  refine ⟨hmu j, ?_⟩
  unfold vmSigma
  rw [hmu j, hmu l]
  unfold vmMu
  rw [hZ]
  have : sumTo n (fun i => affineData a t x i j * p i * affineData a t x i l)
      = a j * a l * sumTo n (fun i => x i j * p i * x i l) + a j * t l * sumTo n (fun i => x i j * p i)
        + t j * a l * sumTo n (fun i => x i l * p i) + t j * t l * sumTo n p := by
    rw [← sumTo_mul_left, ← sumTo_mul_left, ← sumTo_mul_left, ← sumTo_mul_left, ← sumTo_add, ← sumTo_add,
      ← sumTo_add]
    apply sumTo_congr; intro i _; unfold affineData; ring
  rw [this]; field_simp; ring

/-- `sigma` is the posterior-weighted covariance about the fitted mean (the "second moment minus
    outer product" form of the code is the same quantity). -/
theorem vm_step_sigma_is_weighted_covariance (tiny : Rat) (n : Nat) (p : Nat → Rat) (x : Nat → Nat → Rat)
    (ht : 0 < tiny) (hp : tiny ≤ sumTo n p) (j l : Nat) :
    vmSigma tiny n p x j l
      = sumTo n (fun i => p i * (x i j - vmMu tiny n p x j) * (x i l - vmMu tiny n p x l)) / sumTo n p := by
  have hZ : vmZ tiny n p = sumTo n p := vmZ_eq tiny n p hp
  have hne : sumTo n p ≠ 0 := by linarith
  have : sumTo n (fun i => p i * (x i j - vmMu tiny n p x j) * (x i l - vmMu tiny n p x l))
      = sumTo n (fun i => x i j * p i * x i l) - vmMu tiny n p x l * sumTo n (fun i => x i j * p i)
        - vmMu tiny n p x j * sumTo n (fun i => x i l * p i)
        + vmMu tiny n p x j * vmMu tiny n p x l * sumTo n p := by
    rw [← sumTo_mul_left, ← sumTo_mul_left, ← sumTo_mul_left]
    have e : ∀ (f g : Nat → Rat), sumTo n f - sumTo n g = sumTo n (fun i => f i - g i) := by
      intro f g
      rw [sub_eq_add_neg, ← neg_one_mul, ← sumTo_mul_left, ← sumTo_add]
      apply sumTo_congr; intro i _; ring
    rw [e, e, ← sumTo_add]
    apply sumTo_congr; intro i _; ring
  rw [this]
  unfold vmSigma vmMu
  rw [hZ]
  field_simp
  ring

/-- variances are non-negative for non-negative posteriors -/
theorem vm_step_variance_nonneg (tiny : Rat) (n : Nat) (p : Nat → Rat) (x : Nat → Nat → Rat)
    (ht : 0 < tiny) (hp : tiny ≤ sumTo n p) (hnn : ∀ i, i < n → 0 ≤ p i) (j : Nat) :
    0 ≤ vmSigma tiny n p x j j := by
  rw [vm_step_sigma_is_weighted_covariance tiny n p x ht hp j j]
  apply div_nonneg
  · apply sumTo_nonneg
    intro i hi
    have := hnn i hi
    have h2 : 0 ≤ (x i j - vmMu tiny n p x j) * (x i j - vmMu tiny n p x j) := mul_self_nonneg _
    calc (0 : Rat) ≤ p i * ((x i j - vmMu tiny n p x j) * (x i j - vmMu tiny n p x j)) := mul_nonneg this h2
      _ = p i * (x i j - vmMu tiny n p x j) * (x i j - vmMu tiny n p x j) := by ring
  · linarith

/-- `vm_step(freeze=…)` leaves the parameters of frozen classes alone and refits the others from
    their own posterior column only (hence relabelling classes permutes the fitted parameters). -/
theorem vm_step_freeze_and_label (tiny : Rat) (n : Nat) (frozen : Nat → Bool) (post : Nat → Nat → Rat)
    (x : Nat → Nat → Rat) (old : Nat → Nat → Rat) (c j : Nat) :
    (frozen c = true → vmStepMu tiny n frozen post x old c j = old c j) ∧
    (frozen c = false → ∀ σ : Nat → Nat,
      vmStepMu tiny n (fun _ => false) (relabel σ post) x old c j
        = vmStepMu tiny n (fun _ => false) post x old (σ c) j) := by
  unfold vmStepMu relabel
  constructor
  · intro h; simp [h]
  · intro _ σ; simp

/-! ## Normalised external field, β = 0 -/

/-- `f /= f.sum(0)`: the normalised external field (and so the posterior map for β = 0) sums to one -/
theorem normalize_row_sums_to_one (f : List Rat) (h : f.sum ≠ 0) : (normalizeRow f).sum = 1 := by
  unfold normalizeRow
  rw [list_sum_map_div]
  exact div_self h

/-- `BrainT1Segmentation.convert` (posterior of the tissues = `ppm · mixmat`): when every class is
    distributed over the tissues by a stochastic row, the converted memberships are non-negative and
    have the same total (one) as before. -/
theorem convert_preserves_simplex (K C : Nat) (M : Nat → Nat → Rat) (row : Nat → Rat)
    (hM : ∀ k, k < K → sumTo C (M k) = 1) (hM0 : ∀ k, k < K → ∀ c, c < C → 0 ≤ M k c)
    (hr : ∀ k, k < K → 0 ≤ row k) :
    sumTo C (convertRow K M row) = sumTo K row ∧ ∀ c, c < C → 0 ≤ convertRow K M row c := by
  constructor
  · unfold convertRow
    rw [sumTo_comm]
    apply sumTo_congr; intro k hk
    rw [sumTo_mul_left, hM k hk]; ring
  · intro c hc
    unfold convertRow
    exact sumTo_nonneg (fun k hk => mul_nonneg (hr k hk) (hM0 k hk c hc))

/-! ## Operation histories -/

/-- After **any** history of `ve_step` / `vm_step` calls on one object whose last `ve_step` swept the
    voxel list `pts` (distinct in-grid voxels, non-negative reference rows and exponential transforms),
    every swept voxel carries a posterior on the simplex — whatever the map contained before. -/
theorem seg_history_simplex (g : Grid) (tiny : Rat) (U : Array Rat) (ngb) (pre tail : List SegOp)
    (pts : List Pt) (ppm : Array Rat) (hsize : ppm.size = g.size) (htail : ∀ op ∈ tail, op = SegOp.vm)
    (hok : ∀ p ∈ pts, ptOk g p) (hpw : pts.Pairwise (fun p q => p.1 ≠ q.1)) (ht : 0 < tiny) (hK : 0 < g.K)
    (hpos : ∀ p ∈ pts, (∀ v ∈ p.2.1, 0 ≤ v) ∧ (∀ v ∈ p.2.2, 0 ≤ v)) :
    let out := segRun g tiny U ngb ppm (pre ++ [SegOp.ve pts] ++ tail)
    ∀ p ∈ pts, (readRow out (flatPos g p.1.1 p.1.2.1 p.1.2.2).toNat g.K).sum = 1 ∧
      ∀ q ∈ readRow out (flatPos g p.1.1 p.1.2.1 p.1.2.2).toNat g.K, 0 ≤ q := by
  intro out
  have e : out = (veStep g tiny U ngb (segRun g tiny U ngb ppm pre) pts).1 := by
    show segRun g tiny U ngb ppm (pre ++ [SegOp.ve pts] ++ tail) = _
    rw [segRun_append, segRun_append, segRun_vm_only g tiny U ngb tail htail]
    rfl
  rw [e]
  exact ve_step_sweep_simplex g tiny U ngb pts _ (by rw [segRun_size]; exact hsize) hok hpw ht hK hpos

/-- `run(niters ≥ 1)` is such a history, whether the object was built from parameters or from a map. -/
theorem run_ends_on_simplex (g : Grid) (tiny : Rat) (U : Array Rat) (ngb) (isPpm : Bool)
    (ves : List (List Pt)) (pts : List Pt) (ppm : Array Rat) (hsize : ppm.size = g.size)
    (hok : ∀ p ∈ pts, ptOk g p) (hpw : pts.Pairwise (fun p q => p.1 ≠ q.1)) (ht : 0 < tiny) (hK : 0 < g.K)
    (hpos : ∀ p ∈ pts, (∀ v ∈ p.2.1, 0 ≤ v) ∧ (∀ v ∈ p.2.2, 0 ≤ v)) :
    let out := segRun g tiny U ngb ppm (runOps isPpm (ves ++ [pts]))
    ∀ p ∈ pts, (readRow out (flatPos g p.1.1 p.1.2.1 p.1.2.2).toNat g.K).sum = 1 ∧
      ∀ q ∈ readRow out (flatPos g p.1.1 p.1.2.1 p.1.2.2).toNat g.K, 0 ≤ q := by
  have e : runOps isPpm (ves ++ [pts])
      = ((if isPpm then [SegOp.vm] else []) ++ ves.flatMap (fun p => [SegOp.ve p, SegOp.vm]))
          ++ [SegOp.ve pts] ++ [SegOp.vm] := by
    unfold runOps
    simp [List.flatMap_append]
  rw [e]
  exact seg_history_simplex g tiny U ngb _ [SegOp.vm] pts ppm hsize (by simp) hok hpw ht hK hpos

/-- frame: a history never writes outside the rows of the voxels it sweeps (out-of-mask voxels keep
    their initial content through every `ve_step` / `vm_step` / `run`). -/
theorem seg_history_frame (g : Grid) (tiny : Rat) (U : Array Rat) (ngb) (ops : List SegOp) (i : Nat) :
    ∀ ppm : Array Rat, ppm.size = g.size →
      (∀ op ∈ ops, ∀ pts, op = SegOp.ve pts → (∀ p ∈ pts, ptOk g p) ∧
        ∀ p ∈ pts, ¬ (voxIdx g p.1 * g.K ≤ i ∧ i < voxIdx g p.1 * g.K + g.K)) →
      (segRun g tiny U ngb ppm ops).getD i 0 = ppm.getD i 0 := by
  induction ops with
  | nil => intro ppm _ _; rfl
  | cons op rest ih =>
      intro ppm hsize h
      simp only [segRun]
      rw [ih _ (by rw [segStep_size]; exact hsize) (fun o ho => h o (List.mem_cons_of_mem _ ho))]
      cases op with
      | vm => rfl
      | ve pts =>
          obtain ⟨h1, h2⟩ := h (SegOp.ve pts) (List.mem_cons_self ..) pts rfl
          exact veStep_frame g tiny U ngb pts ppm hsize h1 i h2

/-! ## Ownership of the caller's posterior map -/

/-- `Segmentation(data, ppm=q)` starts from the content of `q` … -/
theorem seg_init_content (h : Heap) (caller : Nat) :
    (segInit h caller).1.getD (segInit h caller).2 #[] = h.getD caller #[] := by
  have : Gen.C13.segPpmCopied = true := rfl
  unfold segInit
  simp only [this, if_true]
  simp [List.getD_eq_getElem?_getD]

/-- … and no history of `ve_step` / `vm_step` / `run` on the object changes the caller's array `q`
    (the in-place C sweep writes through `self.ppm`, which `__init__` — as the source text says now —
    makes a copy). -/
theorem caller_ppm_unchanged (g : Grid) (tiny : Rat) (U : Array Rat) (ngb) (h : Heap) (caller : Nat)
    (hc : caller < h.length) (ops : List SegOp) :
    (segRunHeap g tiny U ngb (segInit h caller) ops).getD caller #[] = h.getD caller #[] := by
  have : Gen.C13.segPpmCopied = true := rfl
  unfold segRunHeap segInit
  simp only [this, if_true]
  simp only [List.getD_eq_getElem?_getD]
  rw [List.getElem?_set_ne (by omega), List.getElem?_append_left hc]

/-! ## Non-vacuity -/

example : makeEdges (grid3 1 1 2) #[0, 1] ngb6 = [(0, 1), (1, 0)] := by decide +kernel
example : maskSize (grid3 1 1 2) #[0, -1] = 1 := by decide +kernel
-- an interior voxel exists in a 3×3×3 grid and satisfies the hypothesis of `make_edges_interior_exact`
example : interior (grid3 3 3 3) (1, 1, 1) := by unfold interior grid3; decide
example : ngbVoxel (grid3 3 3 3) (1, 1, 1) (1, 0, -1) = some (2, 1, 0) := by decide +kernel
-- the border leniency: in a 1×2×2 grid voxel (0,0,1) and voxel (0,1,0) are joined through offset (0,0,1)
example : (1, 2) ∈ makeEdges (grid3 1 2 2) #[0, 1, 2, 3] ngb6 := by decide +kernel
example : mapFromPpm none 2 (fun _ k => if k = 1 then 1 else 0) 0 = some 2 := by decide +kernel
example : (0 : Rat) < 1 / 1000 ∧ (1 / 1000 : Rat) ≤ sumTo 2 (fun _ => 1 / 2) := by
  simp [sumTo]; norm_num
example : (segInit [#[1, 2]] 0).2 = 1 := by decide +kernel

end NipyVerif.C13
