/-
C15 — rft.py: `ECquasi` operations represent the operations on functions,
`deriv` is the derivative, the Hermite polynomials `Q(dim)` satisfy the
three-term recurrence and are Mathlib's `Polynomial.hermite`, and the EC densities
of order 1..3 of the Gaussian and the t field as assembled by `ECcone.__call__`
are the published polynomial × kernel forms (kernels, powers of 2π and Gamma
values as parameters).
-/
import NipyVerif.Lemmas.C15Rft
import NipyVerif.Props.C15

open Polynomial
namespace NipyVerif.C15

/-! ## `ECquasi`: the operations on the representation are the operations on functions -/

/-- **`np.poly1d.deriv` as modelled is the formal derivative** (Mathlib's
    `Polynomial.derivative`), and `peval` is evaluation. -/
theorem pderiv_is_formal_derivative (p : Poly) (x : ℚ) :
    toPoly (pderiv p) = derivative (toPoly p) ∧ peval (pderiv p) x = (derivative (toPoly p)).eval x := by
  refine ⟨toPoly_pderiv p, ?_⟩
  rw [← toPoly_pderiv, toPoly_eval]

/-- **`ECquasi.deriv()` is the derivative of the represented function**
    `f = p(x) · D(x)^(-e)`, `D = 1 + x²/m`: the result represents
    `p'·D^(-e) − e·p·D'·D^(-e-1)` (product and chain rule; `r = sqrt D` stands for the
    half-integer powers, `e = expo2/2`, `D' = 2x/m`), with `p'` the formal derivative. -/
theorem deriv_is_formal_derivative (q : Quasi) (x r : ℚ) (hm : q.m ≠ 0) (hr : r * r = 1 + x * x / q.m)
    (hr0 : r ≠ 0) :
    (q.deriv).expo2 = q.expo2 + 2 ∧
    peval (q.deriv).num x / r ^ (q.deriv).expo2
      = (derivative (toPoly q.num)).eval x / r ^ q.expo2
        - ((q.expo2 : ℚ) / 2) * peval q.num x * (2 * x / q.m) / r ^ (q.expo2 + 2) := by
  refine ⟨rfl, ?_⟩
  have hD : r ^ (q.expo2 + 2) = r ^ q.expo2 * (1 + x * x / q.m) := by rw [pow_add, pow_two, hr]
  have hp : r ^ q.expo2 ≠ 0 := pow_ne_zero _ hr0
  have hD0 : (1 + x * x / q.m) ≠ 0 := by rw [← hr]; exact mul_ne_zero hr0 hr0
  rw [← (pderiv_is_formal_derivative q.num x).2]
  have e2 : peval [0, 2 / q.m] x = 2 * x / q.m := by simp only [peval_cons, peval_nil]; ring
  simp only [Quasi.deriv, Quasi.changeExponent, peval_padd', peval_pmul, peval_ppow, peval_denom, peval_pscale,
    e2, hD, pow_one]
  generalize 1 + x * x / q.m = D at hD0 ⊢
  generalize 2 * x / q.m = U
  field_simp
  ring

/-- the `m = inf` case: plain polynomials -/
theorem eq_deriv_inf (p : Poly) (k : ℕ) : ((EQ.inf p).deriv k).num = (pderiv^[k]) p ∧ ((EQ.inf p).deriv k).expo2 = 0 := by
  induction k generalizing p with
  | zero => exact ⟨rfl, rfl⟩
  | succ k ih =>
      have := ih (pderiv p)
      simpa [EQ.deriv, EQ.deriv1, Function.iterate_succ] using this

/-- **`change_exponent` does not change the represented function** and raises the
    exponent by the (non-negative integer) argument; other arguments are refused. -/
theorem eq_change_exponent_value (q : Quasi) (pw : ℚ) (x r : ℚ) (hr : r * r = 1 + x * x / q.m) (hr0 : r ≠ 0) :
    (pw.den = 1 ∧ 0 ≤ pw →
      ∃ b, (EQ.fin q).changeExponent pw = .ok b ∧ b.call x r = (EQ.fin q).call x r ∧
        b.expo2 = q.expo2 + 2 * pw.num.toNat) ∧
    (¬ (pw.den = 1 ∧ 0 ≤ pw) → (EQ.fin q).changeExponent pw = .error "error:valueError") := by
  constructor
  · rintro ⟨h1, h2⟩
    refine ⟨.fin (q.changeExponent pw.num.toNat), ?_, ?_, rfl⟩
    · simp [EQ.changeExponent, h1, not_lt.mpr h2]
    · simp only [EQ.call, (quasi_change_exponent_value q _ x).1, (quasi_change_exponent_value q _ x).2]
      have hp : r ^ q.expo2 ≠ 0 := pow_ne_zero _ hr0
      have hD0 : (1 + x * x / q.m) ≠ 0 := by rw [← hr]; exact mul_ne_zero hr0 hr0
      rw [pow_add, pow_mul, pow_two, hr, mul_div_mul_right _ _ (pow_ne_zero _ hD0)]
  · intro h
    have : pw.den ≠ 1 ∨ pw < 0 := by
      by_cases h1 : pw.den = 1
      · right; exact not_le.mp (fun h2 => h ⟨h1, h2⟩)
      · left; exact h1
    simp [EQ.changeExponent, this]

/-- `compatible` compares the degrees of freedom only -/
theorem eq_compatible_iff (a b : EQ) : a.compatible b = true ↔ a.m = b.m := by
  simp [EQ.compatible]

/-- **`__call__`**: numerator over `(1+x²/m)^exponent`; a plain polynomial for `m = inf` -/
theorem eq_call_spec (q : Quasi) (p : Poly) (x r : ℚ) :
    (EQ.fin q).call x r = (toPoly q.num).eval x / r ^ q.expo2 ∧ (EQ.inf p).call x r = (toPoly p).eval x := by
  simp [EQ.call, toPoly_eval]

/-- scalar multiples, products and powers represent the scaled function, the product and the power -/
theorem eq_smul_mul_pow_value (a b : EQ) (c x r : ℚ) (n : ℕ) :
    (a.smul c).call x r = c * a.call x r ∧
    (∀ ab, a.mul b = some ab → ab.call x r = a.call x r * b.call x r) ∧
    (a.pow n).call x r = a.call x r ^ n := by
  refine ⟨?_, ?_, ?_⟩
  · cases a <;> simp [EQ.smul, EQ.call, peval_pscale] <;> ring
  · intro ab h
    cases a with
    | fin p => cases b with
      | fin q =>
          simp only [EQ.mul, Option.map_eq_some_iff] at h
          obtain ⟨c', hc, rfl⟩ := h
          have := quasi_mul_value p q c' hc x
          simp only [EQ.call, this.1, this.2, pow_add]
          rw [mul_div_mul_comm]
      | inf q => simp [EQ.mul] at h
    | inf p => cases b with
      | fin q => simp [EQ.mul] at h
      | inf q =>
          simp only [EQ.mul, Option.some.injEq] at h
          subst h
          simp [EQ.call, peval_pmul]
  · cases a with
    | fin q => simp [EQ.pow, EQ.call, peval_ppow, div_pow, ← pow_mul, Nat.mul_comm]
    | inf p => simp [EQ.pow, EQ.call, peval_ppow]

/-! ## Hermite polynomials -/

/-- **Three-term recurrence** `He_{n+2}(x) = x He_{n+1}(x) − (n+1) He_n(x)` of the
    polynomials `Q(dim)` the code takes from `hermitenorm`, and the Appell property
    `He_{n+1}' = (n+1) He_n` — for the polynomials, hence for all values. -/
theorem hermite_three_term (n : ℕ) (x : ℚ) :
    H (n + 2) = X * H (n + 1) - C ((n : ℚ) + 1) * H n ∧
    derivative (H (n + 1)) = C ((n : ℚ) + 1) * H n ∧
    peval (hermite (n + 2)) x = x * peval (hermite (n + 1)) x - ((n : ℚ) + 1) * peval (hermite n) x := by
  have h3 : H (n + 2) = X * H (n + 1) - C ((n : ℚ) + 1) * H n := by rw [H_succ (n + 1), H_deriv]
  refine ⟨h3, H_deriv n, ?_⟩
  have := congrArg (Polynomial.eval x) h3
  simpa [H, toPoly_eval] using this

/-- the model's `hermite n` is Mathlib's probabilists' Hermite polynomial -/
theorem hermite_is_mathlib_hermite (n : ℕ) : H n = (Polynomial.hermite n).map (Int.castRingHom ℚ) := by
  induction n with
  | zero => simp [H_zero]
  | succ n ih =>
      rw [H_succ, ih, Polynomial.hermite_succ]
      simp [Polynomial.derivative_map]

/-- **χ² and F fields, the step from order 1 to orders 2 and 3 (partial).**  If the
    curvature-weighted Hermite sum of order 1 is the monomial `K t^N` (for the sphere
    curvatures `c_k = mu_k/(2π)^(k/2)` of `ChiSquared(n)` this is the Hermite expansion of
    `t^(n-1)`: not proved here — Gamma values at half-integers; checked by the oracle), then
    the sums of order 2 and 3 that `ECcone.quasi` assembles are
    `K t^(N-1) (t² − N)` and `K t^(N-2) (t⁴ − (2N+1) t² + N(N−1))` — with `t² = x`, `N = n−1`
    the published `x − (n−1)` and `x² − (2n−1)x + (n−1)(n−2)`. -/
theorem chi2_density_poly_partial (c : ℕ → ℚ) (n N : ℕ) (K : ℚ)
    (h1 : ∑ k ∈ Finset.range n, C (c k) * H k = C K * X ^ (N + 2)) :
    ∑ k ∈ Finset.range n, C (c k) * H (k + 1) = C K * X ^ (N + 1) * (X ^ 2 - C ((N : ℚ) + 2)) ∧
    ∑ k ∈ Finset.range n, C (c k) * H (k + 2)
      = C K * X ^ N * (X ^ 4 - C (2 * ((N : ℚ) + 2) + 1) * X ^ 2 + C (((N : ℚ) + 2) * ((N : ℚ) + 1))) := by
  -- the operator `T p = X p − p'` raises every Hermite index by one and is linear
  have T : ∀ (f : ℕ → ℚ[X]), (∀ k, f (k + 1) = X * f k - derivative (f k)) →
      ∑ k ∈ Finset.range n, C (c k) * f (k + 1)
        = X * (∑ k ∈ Finset.range n, C (c k) * f k) - derivative (∑ k ∈ Finset.range n, C (c k) * f k) := by
    intro f hf
    rw [Finset.mul_sum, derivative_sum, ← Finset.sum_sub_distrib]
    refine Finset.sum_congr rfl (fun k _ => ?_)
    rw [hf k, derivative_mul, derivative_C]; ring
  have s1 : ∑ k ∈ Finset.range n, C (c k) * H (k + 1) = C K * X ^ (N + 1) * (X ^ 2 - C ((N : ℚ) + 2)) := by
    rw [T H H_succ, h1]
    simp only [derivative_mul, derivative_C, derivative_X_pow, zero_mul, zero_add]
    push_cast
    simp only [C_add, C_mul, C_1, C_ofNat, Nat.add_sub_cancel]
    ring
  refine ⟨s1, ?_⟩
  have := T (fun k => H (k + 1)) (fun k => H_succ (k + 1))
  rw [this, s1]
  simp only [derivative_mul, derivative_C, derivative_X_pow, derivative_sub, derivative_X, zero_mul, zero_add,
    derivative_pow]
  push_cast
  simp only [C_add, C_mul, C_1, C_ofNat, Nat.add_sub_cancel]
  have e : (N + 1 : ℕ) - 1 = N := by omega
  rw [show X ^ (N + 1) = X ^ N * X from pow_succ X N]
  simp only [map_natCast]
  ring_nf
  try simp only [e]
  try ring

/-! ## Hermite expansion of monomials and the χ² field -/

/-- **Hermite inversion** `X^N = Σ_j hinv N j · He_{N−2j}` with
    `hinv N j = N! / (2^j j! (N−2j)!)` (`hinv_closed`). -/
theorem hermite_inversion (N : ℕ) : (X : ℚ[X]) ^ N = ∑ j ∈ Finset.range (N + 1), C (hinv N j) * H (N - 2 * j) := by
  induction N with
  | zero => simp [hinv, H_zero]
  | succ N ih =>
      rw [pow_succ, ih, Finset.sum_mul]
      have step : ∀ j ∈ Finset.range (N + 1), C (hinv N j) * H (N - 2 * j) * X
          = C (hinv N j) * H (N + 1 - 2 * j) + C (hinv N j * ((N - 2 * j : ℕ) : ℚ)) * H (N + 1 - 2 * (j + 1)) := by
        intro j _
        by_cases h : N < 2 * j
        · rw [hinv_zero_of_lt N j h]; simp
        · have e1 : N - 2 * j + 1 = N + 1 - 2 * j := by omega
          have e2 : N - 2 * j - 1 = N + 1 - 2 * (j + 1) := by omega
          have := X_mul_H (N - 2 * j)
          rw [e1, e2] at this
          rw [mul_assoc, mul_comm (H _) X, this, C_mul]; ring
      rw [Finset.sum_congr rfl step, Finset.sum_add_distrib]
      -- right-hand side: split off j = 0 and shift
      rw [Finset.sum_range_succ' (fun j => C (hinv (N + 1) j) * H (N + 1 - 2 * j))]
      have e : ∀ j, hinv (N + 1) (j + 1) = hinv N (j + 1) + hinv N j * ((N - 2 * j : ℕ) : ℚ) := fun j => rfl
      simp only [e, C_add, add_mul, Finset.sum_add_distrib]
      rw [Finset.sum_range_succ' (fun j => C (hinv N j) * H (N + 1 - 2 * j))]
      have last : C (hinv N (N + 1)) * H (N + 1 - 2 * (N + 1)) = 0 := by
        rw [hinv_zero_of_lt N (N + 1) (by omega)]; simp
      have h0 : hinv (N + 1) 0 = hinv N 0 := rfl
      rw [Finset.sum_range_succ (fun j => C (hinv N (j + 1)) * H (N + 1 - 2 * (j + 1))), last, h0]
      simp only [Nat.mul_zero, Nat.sub_zero]
      ring

/-- closed form of the coefficients of `hermite_inversion` -/
theorem hinv_closed (N j : ℕ) (h : 2 * j ≤ N) :
    hinv N j * ((2 : ℚ) ^ j * (j.factorial : ℚ) * ((N - 2 * j).factorial : ℚ)) = (N.factorial : ℚ) := by
  induction N generalizing j with
  | zero =>
      have : j = 0 := by omega
      subst this; simp [hinv]
  | succ N ih =>
      cases j with
      | zero =>
          have e : hinv (N + 1) 0 = hinv N 0 := rfl
          have := ih 0 (by omega)
          simp only [pow_zero, Nat.factorial_zero, Nat.cast_one, mul_one, Nat.mul_zero, Nat.sub_zero, one_mul] at this ⊢
          rw [e]
          have hN : hinv N 0 = 1 := by
            have hf : (N.factorial : ℚ) ≠ 0 := by exact_mod_cast Nat.factorial_ne_zero N
            exact mul_right_cancel₀ hf (by rw [this, one_mul])
          rw [hN, one_mul]
      | succ j =>
          have e : hinv (N + 1) (j + 1) = hinv N (j + 1) + hinv N j * ((N - 2 * j : ℕ) : ℚ) := rfl
          rw [e]
          have ihj := ih j (by omega)
          by_cases h2 : 2 * (j + 1) ≤ N
          · have ihj1 := ih (j + 1) h2
            obtain ⟨M, hM⟩ : ∃ M, N = 2 * j + 2 + M := ⟨N - (2 * j + 2), by omega⟩
            subst hM
            have a1 : 2 * j + 2 + M - 2 * (j + 1) = M := by omega
            have a2 : 2 * j + 2 + M - 2 * j = M + 2 := by omega
            have a3 : 2 * j + 2 + M + 1 - 2 * (j + 1) = M + 1 := by omega
            rw [a1] at ihj1
            rw [a2] at ihj
            rw [a3, a2]
            simp only [Nat.factorial_succ, pow_succ] at ihj ihj1 ⊢
            push_cast at ihj ihj1 ⊢
            have : ((2 * j + 2 + M + 1 : ℕ) : ℚ) = 2 * j + 2 + M + 1 := by push_cast; ring
            linear_combination ((M : ℚ) + 1) * ihj1 + 2 * ((j : ℚ) + 1) * ihj
          · obtain rfl : N = 2 * j + 1 := by omega
            have hz : hinv (2 * j + 1) (j + 1) = 0 := hinv_zero_of_lt _ (j + 1) (by omega)
            have a2 : 2 * j + 1 - 2 * j = 1 := by omega
            have a3 : 2 * j + 1 + 1 - 2 * (j + 1) = 0 := by omega
            rw [a2] at ihj
            rw [hz, a3, a2]
            simp only [Nat.factorial_succ, pow_succ, Nat.factorial_zero, Nat.factorial_one] at ihj ⊢
            push_cast at ihj ⊢
            linear_combination 2 * ((j : ℚ) + 1) * ihj


/-- **χ² field with `n = N + 1` degrees of freedom, orders 1, 2, 3** (Worsley 1994).  With
    the sphere curvatures `c_k = mu_k(S^{n-1}) / (2π)^(k/2) = κ · N!/(2^j j! k!)`, `k = N − 2j`
    (the Gamma-function identity behind this identification is checked numerically by the
    harness, case kind `chi2coef`), the polynomials `Σ_k c_k He_{k+dim-1}(t)` that
    `ECcone.quasi(dim)` assembles are, for `dim = 1, 2, 3`,
    `κ t^N`, `κ (t^(N+1) − N t^(N-1))`, `κ (t^(N+2) − (2N+1) t^N + N(N−1) t^(N-2))`:
    with `t² = x` the published `x^((n-1)/2)`, `x^((n-2)/2) (x − (n−1))`,
    `x^((n-3)/2) (x² − (2n−1) x + (n−1)(n−2))`. -/
theorem chi2_density_closed_form (N : ℕ) (κ : ℚ) :
    ∑ j ∈ Finset.range (N + 1), C (κ * hinv N j) * H (N - 2 * j) = C κ * X ^ N ∧
    ∑ j ∈ Finset.range (N + 1), C (κ * hinv N j) * H (N - 2 * j + 1)
      = C κ * (X ^ (N + 1) - C (N : ℚ) * X ^ (N - 1)) ∧
    ∑ j ∈ Finset.range (N + 1), C (κ * hinv N j) * H (N - 2 * j + 2)
      = C κ * (X ^ (N + 2) - C (2 * (N : ℚ) + 1) * X ^ N + C ((N : ℚ) * ((N : ℚ) - 1)) * X ^ (N - 2)) := by
  have T : ∀ (f g : ℕ → ℚ[X]), (∀ j, g j = X * f j - derivative (f j)) →
      ∑ j ∈ Finset.range (N + 1), C (κ * hinv N j) * g j
        = X * (∑ j ∈ Finset.range (N + 1), C (κ * hinv N j) * f j)
          - derivative (∑ j ∈ Finset.range (N + 1), C (κ * hinv N j) * f j) := by
    intro f g hf
    rw [Finset.mul_sum, derivative_sum, ← Finset.sum_sub_distrib]
    refine Finset.sum_congr rfl (fun k _ => ?_)
    rw [hf k, derivative_mul, derivative_C]; ring
  have s0 : ∑ j ∈ Finset.range (N + 1), C (κ * hinv N j) * H (N - 2 * j) = C κ * X ^ N := by
    rw [hermite_inversion N, Finset.mul_sum]
    exact Finset.sum_congr rfl (fun j _ => by rw [C_mul]; ring)
  have s1 : ∑ j ∈ Finset.range (N + 1), C (κ * hinv N j) * H (N - 2 * j + 1)
      = C κ * (X ^ (N + 1) - C (N : ℚ) * X ^ (N - 1)) := by
    rw [T (fun j => H (N - 2 * j)) (fun j => H (N - 2 * j + 1)) (fun j => H_succ _), s0]
    simp only [derivative_mul, derivative_C, derivative_X_pow, zero_mul, zero_add, map_natCast]
    ring
  refine ⟨s0, s1, ?_⟩
  rw [T (fun j => H (N - 2 * j + 1)) (fun j => H (N - 2 * j + 2)) (fun j => H_succ _), s1]
  simp only [derivative_mul, derivative_C, derivative_X_pow, derivative_sub, zero_mul, zero_add, map_natCast,
    derivative_natCast, Nat.add_sub_cancel]
  have hc : ∀ n : ℕ, (C ((n : ℚ)) : ℚ[X]) = (n : ℚ[X]) := fun n => map_natCast C n
  cases N with
  | zero => simp; ring
  | succ M =>
      cases M with
      | zero =>
          simp only [Nat.zero_add, Nat.sub_self, Nat.add_sub_cancel, pow_zero, pow_one, Nat.cast_one, Nat.cast_zero,
            show (1 : ℕ) - 1 - 1 = 0 by omega, show (1 : ℕ) - 2 = 0 by omega, show 1 + 1 = 2 by omega,
            show 1 + 2 = 3 by omega, mul_one, mul_zero, sub_self, C_0, zero_mul, add_zero, C_1, one_mul]
          norm_num
          simp only [C_add, C_mul, C_1, C_ofNat, map_ofNat]
          ring
      | succ L =>
          simp only [Nat.add_sub_cancel, show L + 1 + 1 - 2 = L by omega, show L + 1 + 1 - 1 - 1 = L by omega,
            show L + 1 + 1 - 1 = L + 1 by omega]
          push_cast
          simp only [C_add, C_mul, C_sub, C_1, C_ofNat, map_natCast, map_ofNat, hc]
          ring

/-- **`ECcone.quasi(dim)` for `dfd = inf` is the curvature-weighted sum** `Σ_k c_k Q(k+dim)`
    over the `k` with `k + dim > 0` (as Mathlib polynomials): ties the sums of
    `chi2_density_closed_form` to the assembly the driver runs. -/
theorem quasi_inf_is_sum (dim : ℤ) (c : List ℚ) (qs : List Poly) :
    toPoly (quasiEO none (quasiPolys none dim c qs)).1.num
      = ((List.range c.length).filterMap (fun (k : ℕ) =>
          if (k : ℤ) + dim > 0 then some (C (c.getD k 0) * toPoly (qs.getD k [])) else none)).sum := by
  have hfold : ∀ (l : List EQ) (acc : Poly), (∀ q ∈ l, ∃ p, q = EQ.inf p) →
      (l.foldl (fun (acc : EQ × EQ) q =>
        if q.expo2 % 2 = 0 then (acc.1.addD q, acc.2) else (acc.1, acc.2.addD q)) (EQ.inf acc, EQ.inf [0]))
      = (EQ.inf ((l.map EQ.num).foldl padd' acc), EQ.inf [0]) := by
    intro l
    induction l with
    | nil => intro acc _; rfl
    | cons q l ih =>
        intro acc hq
        obtain ⟨p, rfl⟩ := hq q (List.mem_cons_self)
        simp only [List.foldl_cons, EQ.expo2, Nat.zero_mod, if_true, EQ.addD, EQ.add, List.map_cons, EQ.num]
        exact ih _ (fun q' hq' => hq q' (List.mem_cons_of_mem _ hq'))
  have hall : ∀ q ∈ quasiPolys none dim c qs, ∃ p, q = EQ.inf p := by
    intro q hq
    simp only [quasiPolys, List.mem_filterMap] at hq
    obtain ⟨k, _, hk⟩ := hq
    split_ifs at hk
    simp only [Option.some.injEq] at hk
    exact ⟨_, hk.symm⟩
  simp only [quasiEO, EQ.mk']
  rw [hfold _ _ hall]
  simp only [EQ.addD, EQ.add, EQ.num, toPoly_padd', toPoly_foldl_padd']
  have z : toPoly [0] = 0 := by simp [toPoly]
  rw [z, zero_add, add_zero]
  simp only [quasiPolys, List.map_filterMap]
  congr 1
  refine List.filterMap_congr (fun k _ => ?_)
  split_ifs <;> simp [EQ.mk', EQ.smul, EQ.num, toPoly_pscale]

/-! ## Closed forms of the EC densities assembled by `ECcone.__call__` -/

/-- **Gaussian field, orders 1, 2, 3**: `ECcone.__call__` with search `[0]*dim + [1]`
    (what `density(x, dim)` passes) returns `(2π)^(-(dim+1)/2) · He_{dim-1}(x) · exp(-x²/2)`
    with `He_0, He_1, He_2 = 1, x, x² − 1` (the powers of `2π` are the parameters `t_k`, the
    kernel is `kern`; no tail term since `search.mu[0] = 0`). -/
theorem gaussian_density_closed_form (x kern tail t0 t1 t2 t3 : ℚ) :
    ecconeCall none 1 [1] [0, 1] [1] [[[]], [hermite 0]] [t0, t1] x 1 kern tail = t1 * kern ∧
    ecconeCall none 1 [1] [0, 0, 1] [1] [[[]], [hermite 0], [hermite 1]] [t0, t1, t2] x 1 kern tail
      = t2 * x * kern ∧
    ecconeCall none 1 [1] [0, 0, 0, 1] [1] [[[]], [hermite 0], [hermite 1], [hermite 2]] [t0, t1, t2, t3] x 1 kern tail
      = t3 * (x ^ 2 - 1) * kern := by
  refine ⟨?_, ?_, ?_⟩ <;>
  · simp [ecconeCall, ivMul, quasiEO, quasiPolys, EQ.mk', EQ.expo2, EQ.smul, EQ.addD, EQ.add, EQ.call,
      List.range_succ, hermite, padd', pscale, pmulX, pderiv, pderivFrom, peval, -mul_eq_mul_right_iff]
    try ring

/-- the Gamma factors of `Q(j, m)` for `j = 1, 2, 3`: with `g0 = Γ((m+1)/2)`, `rg = 1/Γ`
    (`rg z = z · rg (z+1)`), `rt = sqrt(m/2)`: `Q(1) = 1`, `Q(2) = (g0·rg(m/2)/rt) x`,
    `Q(3) = (m−1)/m x² − 1`. -/
theorem t_Q_polys (m g0 rt : ℚ) (rg : ℚ → ℚ) (hm : m ≠ 0)
    (hg : g0 * rg ((m + 1) / 2) = 1) (hrec : rg ((m - 1) / 2) = (m - 1) / 2 * rg ((m + 1) / 2)) :
    qFin 1 [g0 * rg ((m + 1) / 2)] = some [1] ∧
    qFin 2 [g0 * rg (m / 2) / rt] = some [0, g0 * rg (m / 2) / rt] ∧
    qFin 3 [g0 * rg ((m - 1) / 2) * (m / 2)⁻¹, g0 * rg ((m + 1) / 2)] = some [-1, 0, (m - 1) / m] := by
  refine ⟨?_, ?_, ?_⟩
  · simp [qFin, scaleHermite, hermite, hg]
  · simp [qFin, scaleHermite, hermite, padd', pscale, pmulX, pderiv, pderivFrom, List.range_succ]
  · have e : g0 * rg ((m - 1) / 2) * (m / 2)⁻¹ = (m - 1) / m := by
      rw [hrec]
      have : g0 * ((m - 1) / 2 * rg ((m + 1) / 2)) = (m - 1) / 2 * (g0 * rg ((m + 1) / 2)) := by ring
      rw [this, hg]; field_simp
    have e' : g0 * rg ((m - 1) / 2) * (2 / m) = (m - 1) / m := by
      rw [← e]; congr 1; field_simp
    simp [qFin, scaleHermite, hermite, padd', pscale, pmulX, pderiv, pderivFrom, List.range_succ, hg, e']

/-- **t field with `m` degrees of freedom, orders 1, 2, 3** (Worsley 1994): the value
    assembled by `ECcone.__call__` from `Q(1..3, m)` is
    `(2π)^(-1) K`, `(2π)^(-3/2) Γ((m+1)/2)/(Γ(m/2) (m/2)^(1/2)) x K`, `(2π)^(-2) ((m−1)/m x² − 1) K`
    with the kernel `K = (1+x²/m)^(-(m-1)/2)`. -/
theorem t_density_closed_form (m x r kern tail t0 t1 t2 t3 f : ℚ) (hm : m ≠ 0) :
    ecconeCall (some m) 1 [1] [0, 1] [1] [[[]], [[1]]] [t0, t1] x r kern tail = t1 * kern ∧
    ecconeCall (some m) 1 [1] [0, 0, 1] [1] [[[]], [[1]], [[0, f]]] [t0, t1, t2] x r kern tail
      = t2 * (f * x) * kern ∧
    ecconeCall (some m) 1 [1] [0, 0, 0, 1] [1] [[[]], [[1]], [[0, f]], [[-1, 0, (m - 1) / m]]] [t0, t1, t2, t3]
        x r kern tail = t3 * ((m - 1) / m * x ^ 2 - 1) * kern := by
  refine ⟨?_, ?_, ?_⟩ <;>
  · simp [ecconeCall, ivMul, quasiEO, quasiPolys, EQ.mk', EQ.expo2, EQ.smul, EQ.addD, EQ.add, EQ.call,
      List.range_succ, Quasi.add, Quasi.changeExponent, ppow, pmul, denomPoly, padd', pscale, pmulX, pderivFrom,
      peval, -mul_eq_mul_right_iff]
    try ring

/-! ## Non-vacuity -/

/-- the hypotheses of `t_Q_polys` for `m = 4` with true Gamma ratios in units of `Γ(5/2)`:
    `rg(5/2) = 1`, `rg(3/2) = 3/2` -/
example : let rg : ℚ → ℚ := fun z => if z = 3 / 2 then 3 / 2 else 1
    (1 : ℚ) * rg ((4 + 1) / 2) = 1 ∧ rg ((4 - 1) / 2) = (4 - 1) / 2 * rg ((4 + 1) / 2) := by
  norm_num

example : hinv 4 0 = 1 ∧ hinv 4 1 = 6 ∧ hinv 4 2 = 3 ∧ hinv 5 1 = 10 ∧ hinv 5 2 = 15 := by decide +kernel

/-- `h1` of `chi2_density_poly_partial` for `ChiSquared(3)` up to the common factor:
    `t² = He_2 + He_0` -/
example : ∑ k ∈ Finset.range 3, C ((fun k => if k = 1 then (0 : ℚ) else 1) k) * H k = C 1 * X ^ (0 + 2) := by
  simp [Finset.sum_range_succ, H, hermite, toPoly, padd', pscale, pmulX, pderiv, pderivFrom]
  ring

example : ∃ b, (EQ.fin ⟨[1, 2, 3], 4, 3⟩).changeExponent 2 = .ok b ∧ b.expo2 = 7 := ⟨_, by rfl, by rfl⟩

end NipyVerif.C15
