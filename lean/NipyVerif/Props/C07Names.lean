/-
C07 — "exactly one uniquely named column per regressor": theorems over the naming functions of
`make_dmtx` (condition names × basis suffixes, `reg%d` defaults, `drift_%d`, `constant`), with the
exact precondition under which the column names are pairwise distinct.
-/
import NipyVerif.Lemmas.C07Names

namespace NipyVerif.C07

/-! ## `np.unique(paradigm.con_id)` -/

/-- the conditions are visited in strictly increasing order … -/
theorem unique_names_sorted (l : List String) : (uniqueNames l).Pairwise (· < ·) :=
  uniqueNames_sorted' l

/-- … so each condition is visited once … -/
theorem unique_names_nodup (l : List String) : (uniqueNames l).Nodup :=
  (uniqueNames_sorted' l).imp (fun h => ne_of_lt h)

/-- … and every condition of the paradigm is visited -/
theorem mem_unique_names (x : String) (l : List String) : x ∈ uniqueNames l ↔ x ∈ l :=
  mem_uniqueNames' x l

/-! ## the naming functions are injective -/

/-- `con ++ "_delay_%d" % d` determines the condition and the delay, whatever the condition
    name (even one that itself ends in `_delay_3`) -/
theorem fir_names_injective (c c' : String) (d d' : Nat)
    (h : c ++ "_delay_" ++ toString d = c' ++ "_delay_" ++ toString d') : c = c' ∧ d = d' :=
  fir_name_inj c c' d d' h

theorem derivative_ne_dispersion (c c' : String) : c ++ "_derivative" ≠ c' ++ "_dispersion" := by
  intro h
  have := (str_append_inj h (by decide)).2
  exact absurd this (by decide)

/-- the columns of one condition are distinct, for every haemodynamic model — for `fir` exactly
    when the delays are -/
theorem regressor_names_nodup (c : String) (m : Hrf) (d : List Nat) :
    (regressorNames c m d).Nodup ↔ (m = .fir → d.Nodup) := by
  have h1 : c ≠ c ++ "_derivative" := str_ne_append_nonempty c _ (by decide)
  have h2 : c ≠ c ++ "_dispersion" := str_ne_append_nonempty c _ (by decide)
  have h3 := derivative_ne_dispersion c c
  cases m
  · simp [regressorNames]
  · simp [regressorNames, h1]
  · simp [regressorNames]
  · simp [regressorNames, h1]
  · simp [regressorNames, h1, h2, h3]
  · simp only [regressorNames, forall_const]
    apply List.nodup_map_iff
    intro a b hab
    exact (fir_name_inj c c a b hab).2

/-- drift names `drift_1 … drift_{n-1}, constant` are pairwise distinct -/
theorem drift_names_nodup (n : Nat) : (driftNames n).Nodup := by
  unfold driftNames
  rw [List.nodup_append]
  refine ⟨?_, by simp, ?_⟩
  · apply List.Nodup.map _ List.nodup_range
    intro a b hab
    have := prefixed_nat_inj "drift_" (a + 1) (b + 1) hab
    omega
  · intro a ha b hb
    simp only [List.mem_singleton] at hb
    subst hb
    obtain ⟨k, _, rfl⟩ := List.mem_map.mp ha
    intro h
    have := congrArg String.toList h
    rw [String.toList_append] at this
    have e1 : "drift_".toList = ['d', 'r', 'i', 'f', 't', '_'] := by decide
    have e2 : "constant".toList = ['c', 'o', 'n', 's', 't', 'a', 'n', 't'] := by decide
    rw [e1, e2] at this
    simp at this

/-- the default names `reg0, reg1, …` are pairwise distinct -/
theorem default_reg_names_nodup (n : Nat) : (defaultRegNames n).Nodup := by
  unfold defaultRegNames
  apply List.Nodup.map _ List.nodup_range
  intro a b hab
  exact prefixed_nat_inj "reg" a b hab

/-- and never collide with a drift name or `constant` -/
theorem default_reg_names_disjoint_drift (n nd : Nat) :
    List.Disjoint (defaultRegNames n) (driftNames nd) := by
  rw [List.disjoint_left]
  intro x hx hd
  obtain ⟨k, _, rfl⟩ := List.mem_map.mp hx
  have e0 : "reg".toList = ['r', 'e', 'g'] := by decide
  unfold driftNames at hd
  rcases List.mem_append.mp hd with hd | hd
  · obtain ⟨j, _, hj⟩ := List.mem_map.mp hd
    have := congrArg String.toList hj
    rw [String.toList_append, String.toList_append, e0] at this
    have e1 : "drift_".toList = ['d', 'r', 'i', 'f', 't', '_'] := by decide
    rw [e1] at this
    simp at this
  · simp only [List.mem_singleton] at hd
    have := congrArg String.toList hd
    rw [String.toList_append, e0] at this
    have e2 : "constant".toList = ['c', 'o', 'n', 's', 't', 'a', 'n', 't'] := by decide
    rw [e2] at this
    simp at this

/-! ## exact precondition for the condition columns (`CondsOk`, defined in `Lemmas/C07Names`) -/

theorem cond_columns_nodup_iff (conds : List String) (hc : conds.Nodup) (m : Hrf) (d : List Nat) :
    (conds.flatMap (fun c => regressorNames c m d)).Nodup ↔ CondsOk conds m d := by
  rw [List.nodup_flatMap]
  have hpair : List.Pairwise (Function.onFun List.Disjoint (fun c => regressorNames c m d)) conds ↔
      ∀ c ∈ conds, ∀ c' ∈ conds, c ≠ c' → List.Disjoint (regressorNames c m d) (regressorNames c' m d) := by
    constructor
    · intro h c hcm c' hcm' hne
      have : Std.Symm (Function.onFun List.Disjoint (fun c => regressorNames c m d)) :=
        ⟨fun _ _ hxy => fun _ h1 h2 => hxy h2 h1⟩
      exact List.Pairwise.forall h hcm hcm' hne
    · intro h
      exact hc.imp_of_mem (fun ha hb hne => h _ ha _ hb hne)
  rw [hpair]
  have hD : ∀ c c' : String, c ++ "_derivative" = c' ++ "_derivative" → c = c' :=
    fun c c' h => str_append_right_cancel h
  have hS : ∀ c c' : String, c ++ "_dispersion" = c' ++ "_dispersion" → c = c' :=
    fun c c' h => str_append_right_cancel h
  have hDS := derivative_ne_dispersion
  have hnD : ∀ c : String, c ≠ c ++ "_derivative" := fun c => str_ne_append_nonempty c _ (by decide)
  have hnS : ∀ c : String, c ≠ c ++ "_dispersion" := fun c => str_ne_append_nonempty c _ (by decide)
  cases m
  · -- canonical
    simp only [CondsOk, iff_true, regressor_names_nodup, reduceCtorEq, false_imp_iff, implies_true,
      true_and]
    intro c _ c' _ hne
    simp [regressorNames, Ne.symm hne]
  · -- canonical with derivative
    simp only [CondsOk, regressor_names_nodup, reduceCtorEq, false_imp_iff, implies_true, true_and]
    constructor
    · rintro h c hcm c' hcm' heq
      have hne : c ≠ c' := by rintro rfl; exact hnD c heq
      have := h c hcm c' hcm' hne
      rw [List.disjoint_left] at this
      exact this (a := c) (by simp [regressorNames]) (by rw [heq]; simp [regressorNames])
    · intro h c hcm c' hcm' hne
      rw [List.disjoint_left]
      intro x hx hx'
      simp only [regressorNames, List.mem_cons, List.not_mem_nil, or_false] at hx hx'
      rcases hx with rfl | rfl <;> rcases hx' with h' | h'
      · exact hne h'
      · exact h _ hcm _ hcm' h'
      · exact h _ hcm' _ hcm h'.symm
      · exact hne (hD _ _ h')
  · -- spm
    simp only [CondsOk, iff_true, regressor_names_nodup, reduceCtorEq, false_imp_iff, implies_true,
      true_and]
    intro c _ c' _ hne
    simp [regressorNames, Ne.symm hne]
  · -- spm_time
    simp only [CondsOk, regressor_names_nodup, reduceCtorEq, false_imp_iff, implies_true, true_and]
    constructor
    · rintro h c hcm c' hcm' heq
      have hne : c ≠ c' := by rintro rfl; exact hnD c heq
      have := h c hcm c' hcm' hne
      rw [List.disjoint_left] at this
      exact this (a := c) (by simp [regressorNames]) (by rw [heq]; simp [regressorNames])
    · intro h c hcm c' hcm' hne
      rw [List.disjoint_left]
      intro x hx hx'
      simp only [regressorNames, List.mem_cons, List.not_mem_nil, or_false] at hx hx'
      rcases hx with rfl | rfl <;> rcases hx' with h' | h'
      · exact hne h'
      · exact h _ hcm _ hcm' h'
      · exact h _ hcm' _ hcm h'.symm
      · exact hne (hD _ _ h')
  · -- spm_time_dispersion
    simp only [CondsOk, regressor_names_nodup, reduceCtorEq, false_imp_iff, implies_true, true_and]
    constructor
    · rintro h c hcm c' hcm'
      constructor
      · intro heq
        have hne : c ≠ c' := by rintro rfl; exact hnD c heq
        have := h c hcm c' hcm' hne
        rw [List.disjoint_left] at this
        exact this (a := c) (by simp [regressorNames]) (by rw [heq]; simp [regressorNames])
      · intro heq
        have hne : c ≠ c' := by rintro rfl; exact hnS c heq
        have := h c hcm c' hcm' hne
        rw [List.disjoint_left] at this
        exact this (a := c) (by simp [regressorNames]) (by rw [heq]; simp [regressorNames])
    · intro h c hcm c' hcm' hne
      rw [List.disjoint_left]
      intro x hx hx'
      simp only [regressorNames, List.mem_cons, List.not_mem_nil, or_false] at hx hx'
      rcases hx with rfl | rfl | rfl <;> rcases hx' with h' | h' | h'
      · exact hne h'
      · exact (h _ hcm _ hcm').1 h'
      · exact (h _ hcm _ hcm').2 h'
      · exact (h _ hcm' _ hcm).1 h'.symm
      · exact hne (hD _ _ h')
      · exact hDS _ _ h'
      · exact (h _ hcm' _ hcm).2 h'.symm
      · exact hDS _ _ h'.symm
      · exact hne (hS _ _ h')
  · -- fir
    simp only [CondsOk, regressor_names_nodup, forall_const]
    constructor
    · rintro ⟨h, _⟩
      cases conds with
      | nil => exact Or.inl rfl
      | cons c cs => exact Or.inr (h c (by simp))
    · intro h
      refine ⟨fun c hcm => ?_, fun c hcm c' hcm' hne => ?_⟩
      · rcases h with rfl | h
        · cases hcm
        · exact h
      · rw [List.disjoint_left]
        intro x hx hx'
        simp only [regressorNames, List.mem_map] at hx hx'
        obtain ⟨a, _, rfl⟩ := hx
        obtain ⟨b, _, hb⟩ := hx'
        exact hne (fir_name_inj _ _ _ _ hb).1.symm

/-! ## the whole design matrix -/

/-- **Uniqueness of the column names, exact precondition.**  For distinct condition names (which
    `np.unique` guarantees, `unique_names_nodup`) the column names of `make_dmtx` are pairwise
    distinct iff: `CondsOk`; the user-supplied names are distinct; and no name is shared between the
    condition columns, the user names and the drift names (`drift_k`, `constant`). -/
theorem dmtx_names_nodup_iff (conds : List String) (hc : conds.Nodup) (m : Hrf) (d : List Nat)
    (add : List String) (nd : Nat) :
    (dmtxNames conds m d add nd).Nodup ↔
      CondsOk conds m d ∧ add.Nodup ∧
      List.Disjoint (conds.flatMap (fun c => regressorNames c m d)) add ∧
      List.Disjoint (conds.flatMap (fun c => regressorNames c m d)) (driftNames nd) ∧
      List.Disjoint add (driftNames nd) := by
  unfold dmtxNames
  rw [List.nodup_append, List.nodup_append, cond_columns_nodup_iff conds hc]
  have hdn := drift_names_nodup nd
  simp only [List.disjoint_left, List.mem_append]
  constructor
  · rintro ⟨⟨h1, h2, h3⟩, _, h5⟩
    exact ⟨h1, h2, fun a ha hb => h3 a ha a hb rfl, fun a ha hb => h5 a (Or.inl ha) a hb rfl,
      fun a ha hb => h5 a (Or.inr ha) a hb rfl⟩
  · rintro ⟨h1, h2, h3, h4, h5⟩
    refine ⟨⟨h1, h2, fun a ha b hb hab => h3 ha (hab ▸ hb)⟩, hdn, fun a ha b hb hab => ?_⟩
    rcases ha with ha | ha
    · exact h4 ha (hab ▸ hb)
    · exact h5 ha (hab ▸ hb)

/-- with the default user names the last two conditions only concern the condition columns -/
theorem dmtx_names_nodup_default (conds : List String) (hc : conds.Nodup) (m : Hrf) (d : List Nat)
    (n nd : Nat) :
    (dmtxNames conds m d (defaultRegNames n) nd).Nodup ↔
      CondsOk conds m d ∧
      List.Disjoint (conds.flatMap (fun c => regressorNames c m d)) (defaultRegNames n) ∧
      List.Disjoint (conds.flatMap (fun c => regressorNames c m d)) (driftNames nd) := by
  rw [dmtx_names_nodup_iff conds hc]
  have h1 := default_reg_names_nodup n
  have h2 := default_reg_names_disjoint_drift n nd
  tauto

/-- the flag the model driver reports next to the names (`unique=1`) is exactly the precondition:
    it is true iff the names are pairwise distinct. -/
theorem names_unique_flag (ids : List String) (m : Hrf) (d : List Nat) (add : List String) (nd : Nat) :
    namesUnique (uniqueNames ids) m d add nd = true ↔
      (dmtxNames (uniqueNames ids) m d add nd).Nodup := by
  rw [dmtx_names_nodup_iff _ (unique_names_nodup ids)]
  simp only [namesUnique, Bool.and_eq_true, condsUnique_iff, listDisjoint_iff, decide_eq_true_eq]
  tauto

/-- **One uniquely named column per regressor, for `make_dmtx` as a whole.**  Whenever
    `make_dmtx` accepts its arguments, its column names are pairwise distinct exactly when the
    precondition flag (`namesUnique`, i.e. `dmtx_names_nodup_iff`) holds. -/
theorem make_dmtx_columns_unique_iff (s : DmSpec) (conds : List String) (m : Hrf) (add : List String)
    (nd : Nat) (h : makeDmtxParts s = .ok (conds, m, add, nd)) :
    (dmtxNames conds m s.firDelays add nd).Nodup ↔ namesUnique conds m s.firDelays add nd = true := by
  obtain ⟨ids, rfl⟩ := makeDmtxParts_conds s conds m add nd h
  exact (names_unique_flag ids m s.firDelays add nd).symm

/-! ## Non-vacuity -/

example : CondsOk ["a", "b"] .spmTimeDisp [] := by
  intro c hc c' hc'
  simp only [List.mem_cons, List.not_mem_nil, or_false] at hc hc'
  rcases hc with rfl | rfl <;> rcases hc' with rfl | rfl <;> decide
example : ¬ CondsOk ["a", "a_derivative"] .canonicalDeriv [] := by
  intro h
  exact h "a_derivative" (by simp) "a" (by simp) (by decide)
example : uniqueNames ["b", "a", "b", "é"] = ["a", "b", "é"] := by decide

end NipyVerif.C07
