/-
C06 — property theorems about the model in `NipyVerif.Model.C06`
("Contrast statistics, p-values, z-scores and FDR are mutually consistent").
Only property statements and their non-vacuity examples live here.

Externals enter as hypotheses on *values*: `sd`/`s` is the number `np.sqrt`
returned (`0 ≤ s`, `s * s = x`), `W` is any left inverse (`W * V = 1`), the
tails `sf`/`isf` are arbitrary functions with the stated order properties.
-/
import NipyVerif.Lemmas.C06

namespace NipyVerif.C06
open Matrix

/-! ## t = effect / sd -/

/-- "the reported t statistic equals the effect divided by its standard error" -/
theorem t_eq_effect_div_sd {p : Nat} (c theta : Vec p) (sd : Rat) (h : 0 < sd) :
    (tContrast c theta sd).t = (tContrast c theta sd).effect / sd := by
  simp [tContrast, posRecipr_pos h, div_eq_mul_inv]

/-- zero (or non-positive) standard error: the reported t is 0 (`pos_recipr`),
    never a division by zero — the "including zero variance" part of the quantifier. -/
theorem t_zero_sd {p : Nat} (c theta : Vec p) (sd : Rat) (h : sd ≤ 0) :
    (tContrast c theta sd).t = 0 := by
  simp [tContrast, posRecipr_nonpos h]

/-- same for the single-column `t(column)` -/
theorem t_column_eq (thetaj sd : Rat) :
    tColumn thetaj sd = if 0 < sd then thetaj / sd else 0 := by
  unfold tColumn posRecipr; split <;> simp [div_eq_mul_inv]

/-! ## F of one row = t² -/

/-- "a one-row F contrast equals the square of the corresponding t": `w` is the
    inverse of the 1×1 matrix `c cov cᵀ`, `sd` the square root of `dispersion · c cov cᵀ`. -/
theorem F_one_row_eq_t_sq {p : Nat} (c theta : Vec p) (cov : Mat p p) (disp sd w : Rat)
    (hd : 0 ≤ disp) (hw : w * tVar c cov 1 = 1)
    (hsd0 : 0 ≤ sd) (hsd : sd * sd = tVar c cov disp) :
    fStat (fun _ _ => w) (rowMat c) theta disp = (tContrast c theta sd).t ^ 2 := by
  have hV : tVar c cov disp = tVar c cov 1 * disp := by simp [tVar, vcov]
  set V := tVar c cov 1 with hVdef
  have hF : fStat (fun _ _ => w) (rowMat c) theta disp
      = w * dotv c theta * dotv c theta * posRecipr disp := by
    simp [fStat, dotv, mulVec, fsum_one, rowMat]
  rw [hF]
  simp only [tContrast]
  rcases eq_or_lt_of_le hd with h0 | hpos
  · -- zero dispersion: both sides vanish
    have hs : sd = 0 := by
      have : sd * sd = 0 := by rw [hsd, hV, ← h0, mul_zero]
      exact mul_self_eq_zero.mp this
    rw [← h0, hs, posRecipr_nonpos le_rfl]; ring
  · have hVne : V ≠ 0 := by intro h; rw [h, mul_zero] at hw; exact zero_ne_one hw
    have hsdsq : sd * sd = V * disp := by rw [hsd, hV]
    have hVpos : 0 < V := by
      have h1 : 0 ≤ V * disp := by rw [← hsdsq]; exact mul_self_nonneg sd
      have h2 : 0 ≤ V := by
        by_contra hneg
        have : V * disp < 0 := mul_neg_of_neg_of_pos (lt_of_not_ge hneg) hpos
        linarith
      exact lt_of_le_of_ne h2 (Ne.symm hVne)
    have hsdpos : 0 < sd := by
      rcases eq_or_lt_of_le hsd0 with h | h
      · rw [← h, mul_zero] at hsdsq
        exact absurd hsdsq.symm (ne_of_gt (mul_pos hVpos hpos))
      · exact h
    have hwV : w = 1 / V := by field_simp; linarith [hw]
    rw [posRecipr_pos hpos, posRecipr_pos hsdpos, hwV]
    have hsdne : sd ≠ 0 := ne_of_gt hsdpos
    have hdne : disp ≠ 0 := ne_of_gt hpos
    field_simp
    have h2 : sd ^ 2 = V * disp := by rw [pow_two, hsdsq]
    rw [h2]; ring

/-! ## row-space invariance of F -/

/-- "an F contrast is unchanged by any invertible recombination of its rows":
    `M ↦ G M` with `H G = 1`; `W`, `W'` any inverses of the two contrast covariances. -/
theorem F_rowspace_invariant {q p : Nat} (M : Mat q p) (cov : Mat p p) (theta : Vec p)
    (disp : Rat) (G H W W' : Mat q q)
    (hG : mmul H G = one q)
    (hW : mmul W (vcov M cov 1) = one q)
    (hW' : mmul W' (vcov (mmul G M) cov 1) = one q) :
    fStat W' (mmul G M) theta disp = fStat W M theta disp := by
  unfold fStat
  congr 1
  rw [mmul_eq, one_eq] at hG hW hW'
  have hV' : toM (vcov (mmul G M) cov 1) = toM G * (toM (vcov M cov 1)) * (toM G)ᵀ := by
    rw [vcov_one_eq, vcov_one_eq, mmul_eq]
    show toM G * toM M * toM cov * (toM G * toM M)ᵀ = toM G * (toM M * toM cov * (toM M)ᵀ) * (toM G)ᵀ
    rw [Matrix.transpose_mul]
    simp only [Matrix.mul_assoc]
  rw [hV'] at hW'
  have hu : mulVec (mmul G M) theta = (toM G) *ᵥ (mulVec M theta) := by
    rw [mulVec_eq, mulVec_eq, mmul_eq, Matrix.mulVec_mulVec]
  rw [hu, dotv_eq, dotv_eq, mulVec_eq, mulVec_eq W]
  exact quadform_invariant _ (toM W) (toM W') (toM G) (toM H) _ hG hW hW'

/-- the same for the `Contrast` class: recombining effect and variance (`e - b ↦ G (e - b)`,
    `V ↦ G V Gᵀ`) leaves the Mahalanobis F statistic unchanged. -/
theorem contrast_F_rowspace_invariant {q : Nat} (e e' : Vec q) (V V' : Mat q q) (b : Rat)
    (G H W W' : Mat q q)
    (hG : mmul H G = one q) (hW : mmul W V = one q) (hW' : mmul W' V' = one q)
    (he : (fun i => e' i - b) = mulVec G (fun i => e i - b))
    (hV : V' = mmul G (mmul V (tr G))) :
    statMaha W' e' b = statMaha W e b := by
  unfold statMaha
  congr 1
  rw [he, dotv_eq, dotv_eq, mulVec_eq, mulVec_eq, mulVec_eq W]
  rw [mmul_eq, one_eq] at hG hW hW'
  have hV' : toM V' = toM G * toM V * (toM G)ᵀ := by
    rw [hV, mmul_eq, mmul_eq, tr_eq, Matrix.mul_assoc]
  rw [hV'] at hW'
  exact quadform_invariant _ (toM W) (toM W') (toM G) (toM H) _ hG hW hW'

/-- a one-dimensional `F` contrast object reports the square of the `t` object's statistic -/
theorem contrast_one_dim_F_eq_t_sq (c : Con 1) (b : Rat) (s : Vec 1) (W : Mat 1 1) :
    ({ c with ctype := CType.F } : Con 1).stat b s W
      = (({ c with ctype := CType.t } : Con 1).stat b s W).map (· ^ 2) := by
  simp [Con.stat, Except.map]

/-- a `tmin` conjunction statistic is the smallest component t: below every component and
    equal to one of them -/
theorem tmin_is_minimum {q : Nat} (e : Vec q) (b : Rat) (s : Vec q) (m : Rat)
    (h : statTmin e b s = some m) :
    (∀ i, m ≤ statOne (e i) b (s i)) ∧ ∃ i, m = statOne (e i) b (s i) := by
  unfold statTmin at h
  rw [List.min?_eq_some_iff] at h
  obtain ⟨hm, hle⟩ := h
  refine ⟨fun i => hle _ ((List.mem_ofFn' _ _).mpr ⟨i, rfl⟩), ?_⟩
  obtain ⟨i, hi⟩ := (List.mem_ofFn' _ _).mp hm
  exact ⟨i, hi.symm⟩

/-! ## addition and scaling -/

/-- "Adding independent contrasts adds effects, variances and degrees of freedom"
    (and keeps the type); different types are refused. -/
theorem contrast_add {q : Nat} (a b : Con q) :
    (a.ctype = b.ctype → ∃ c, a.add b = .ok c ∧ (∀ i, c.effect i = a.effect i + b.effect i) ∧
        (∀ i j, c.variance i j = a.variance i j + b.variance i j) ∧ c.dof = a.dof + b.dof ∧
        c.ctype = a.ctype) ∧
    (a.ctype ≠ b.ctype → a.add b = .error "error:valueError") := by
  constructor
  · intro h
    exact ⟨⟨fun i => a.effect i + b.effect i, fun i j => a.variance i j + b.variance i j,
      a.dof + b.dof, a.ctype⟩, by simp [Con.add, h], fun _ => rfl, fun _ _ => rfl, rfl, rfl⟩
  · intro h; simp [Con.add, h]

/-- "scaling a contrast by a positive factor leaves its t unchanged": effect `k e`, variance
    `k² v` (what `__rmul__` builds), the null value scaled alike; `s`, `s'` are the square roots
    of the clamped variances, both variances at or above the clamp `tiny`. -/
theorem contrast_smul_pos_t (e v b k tiny s s' : Rat) (hk : 0 < k) (htiny : 0 < tiny)
    (hv : tiny ≤ v) (hv' : tiny ≤ v * k ^ 2)
    (hs0 : 0 ≤ s) (hs : s * s = clampVar v tiny)
    (hs0' : 0 ≤ s') (hs' : s' * s' = clampVar (v * k ^ 2) tiny) :
    statOne (e * k) (b * k) s' = statOne e b s := by
  unfold clampVar at hs hs'
  rw [max_eq_left hv] at hs
  rw [max_eq_left hv'] at hs'
  have hvpos : 0 < v := lt_of_lt_of_le htiny hv
  have hspos : 0 < s := by
    rcases eq_or_lt_of_le hs0 with h | h
    · rw [← h, mul_zero] at hs; linarith
    · exact h
  have hsk : s' = s * k := by
    have h1 : (s' - s * k) * (s' + s * k) = 0 := by ring_nf; nlinarith [hs, hs']
    rcases mul_eq_zero.mp h1 with h | h
    · linarith
    · have : 0 < s * k := mul_pos hspos hk
      linarith
  unfold statOne
  rw [hsk]
  have : s ≠ 0 := ne_of_gt hspos
  have : k ≠ 0 := ne_of_gt hk
  field_simp

/-- … and hence its p-value and z-score: they are functions of the statistic and of the
    degrees of freedom and type, which `__rmul__` keeps. -/
theorem contrast_smul_pos_p_z {q : Nat} (c : Con q) (k : Rat)
    (sfT : Rat → Rat → Rat) (sfF : Rat → Rat → Rat → Rat) (isf : Rat → Rat)
    (dofmax : Rat) (stat stat' : Option Rat) (hstat : stat' = stat) :
    pCall (Con.smul k c).ctype q (Con.smul k c).dof dofmax = pCall c.ctype q c.dof dofmax ∧
    ∀ call, pValue sfT sfF call stat' = pValue sfT sfF call stat ∧
      zOf isf stat' (pValue sfT sfF call stat') = zOf isf stat (pValue sfT sfF call stat) := by
  subst hstat
  exact ⟨rfl, fun _ => ⟨rfl, rfl⟩⟩

/-! ## p-values and z-scores -/

/-- "P-values … equal the Student or Fisher tail probability for the stated degrees of
    freedom": which tail, with which degrees of freedom (`min(dof, dofmax)`, numerator = dim). -/
theorem p_value_tail (sfT : Rat → Rat → Rat) (sfF : Rat → Rat → Rat → Rat)
    (dim : Nat) (dof dofmax x : Rat) :
    (∀ ty, ty = CType.t ∨ ty = CType.tmin →
      ∃ call, pCall ty dim dof dofmax = .ok call ∧
        pValue sfT sfF call (some x) = sfT (min dof dofmax) x) ∧
    (∃ call, pCall CType.F dim dof dofmax = .ok call ∧
        pValue sfT sfF call (some x) = sfF dim (min dof dofmax) x) := by
  refine ⟨?_, ⟨_, rfl, rfl⟩⟩
  rintro ty (h | h) <;> subst h <;> exact ⟨_, rfl, rfl⟩

/-- "P-values lie in [0,1]" whenever the tails do (also for a NaN statistic: 1/2). -/
theorem p_value_range (sfT : Rat → Rat → Rat) (sfF : Rat → Rat → Rat → Rat)
    (hT : ∀ d x, 0 ≤ sfT d x ∧ sfT d x ≤ 1) (hF : ∀ a d x, 0 ≤ sfF a d x ∧ sfF a d x ≤ 1)
    (call : PCall) (stat : Option Rat) :
    0 ≤ pValue sfT sfF call stat ∧ pValue sfT sfF call stat ≤ 1 := by
  unfold pValue
  cases stat with
  | none => norm_num
  | some x => cases call with
      | tsf d => exact hT d x
      | fsf a d => exact hF a d x

/-- finiteness: whatever the p-value (0, 1, out of range), `norm.isf` is only ever evaluated
    inside `[1e-300, 1 - 2⁻⁵³] ⊂ (0, 1)`, where it is finite. -/
theorem z_argument_in_open_unit (p : Rat) : 0 < clipP p ∧ clipP p < 1 :=
  ⟨lt_of_lt_of_le pLo_pos (clipP_mem p).1, lt_of_le_of_lt (clipP_mem p).2 pHi_lt_one⟩

/-- "z-scores are the standard-normal quantiles of those p-values" (no clipping in range) -/
theorem z_is_quantile (isf : Rat → Rat) (p : Rat) (h1 : pLo ≤ p) (h2 : p ≤ pHi) :
    zScore isf p = isf p := by
  unfold zScore; rw [clipP_id h1 h2]

/-- "non-decreasing in the statistic even in the extreme tails": for an antitone tail `sf`
    and `isf` antitone on the clipping interval, `z ∘ p` is monotone in the statistic —
    everywhere, including where the p-value under- or overflows the clip. -/
theorem z_monotone (sf isf : Rat → Rat)
    (hsf : ∀ x y, x ≤ y → sf y ≤ sf x)
    (hisf : ∀ p r, pLo ≤ p → p ≤ r → r ≤ pHi → isf r ≤ isf p)
    (x y : Rat) (hxy : x ≤ y) :
    zScore isf (sf x) ≤ zScore isf (sf y) := by
  unfold zScore
  exact hisf _ _ (clipP_mem _).1 (clipP_mono (hsf x y hxy)) (clipP_mem _).2

/-- NaN statistic: p = 1/2 and z = 0 -/
theorem nan_stat_defaults (sfT : Rat → Rat → Rat) (sfF : Rat → Rat → Rat → Rat)
    (isf : Rat → Rat) (call : PCall) (p : Rat) :
    pValue sfT sfF call none = 1 / 2 ∧ zOf isf none p = 0 := ⟨rfl, rfl⟩

/-! ## the cache between `stat`, `p_value`, `z_score` -/

section cache
variable {σ π ζ : Type} (S : Rat → σ) (P : σ → π) (Z : π → ζ)

/-- what the object remembers belongs to the baseline it remembers -/
def Coherent (st : Cache σ π) : Prop :=
  (∀ s, st.stat = some s → s = S st.baseline) ∧
  (∀ p, st.p = some p → p = P (S st.baseline))

theorem step_fresh (o : Op) (b : Rat) (st : Cache σ π) (h : Coherent S P st) :
    (step S P Z o b st).1 = fresh S P Z o b ∧ Coherent S P (step S P Z o b st).2 := by
  obtain ⟨hs, hp⟩ := h
  rcases st with ⟨b0, so, po⟩
  simp only at hs hp
  cases o
  · simp [step, fresh, callStat, Coherent]
  · cases so with
    | none => simp [step, fresh, callP, callStat, Coherent]
    | some s =>
        have := hs s rfl
        subst this
        by_cases hb : b0 = b
        · subst hb; simp [step, fresh, callP, Coherent]
        · simp [step, fresh, callP, callStat, Coherent, hb]
  · cases po with
    | none =>
        cases so with
        | none => simp [step, fresh, callZ, callP, callStat, Coherent]
        | some s =>
            have := hs s rfl
            subst this
            by_cases hb : b0 = b
            · subst hb; simp [step, fresh, callZ, callP, Coherent]
            · simp [step, fresh, callZ, callP, callStat, Coherent, hb]
    | some p =>
        have := hp p rfl
        subst this
        by_cases hb : b0 = b
        · subst hb
          cases so with
          | none => simp [step, fresh, callZ, Coherent]
          | some s => have := hs s rfl; subst this; simp [step, fresh, callZ, Coherent]
        · cases so with
          | none => simp [step, fresh, callZ, callP, callStat, Coherent, hb]
          | some s =>
              have := hs s rfl
              subst this
              simp [step, fresh, callZ, callP, callStat, Coherent, hb]

/-- mutual consistency for all baselines: in any sequence of calls on one object, every call
    returns what a fresh object would return for the requested baseline. -/
theorem cache_coherent (ops : List (Op × Rat)) :
    runOps S P Z ops Cache.init = ops.map (fun ob => fresh S P Z ob.1 ob.2) := by
  suffices h : ∀ st : Cache σ π, Coherent S P st →
      runOps S P Z ops st = ops.map (fun ob => fresh S P Z ob.1 ob.2) by
    exact h _ ⟨by simp [Cache.init], by simp [Cache.init]⟩
  induction ops with
  | nil => intro st _; rfl
  | cons ob rest ih =>
      intro st hst
      obtain ⟨o, b⟩ := ob
      obtain ⟨h1, h2⟩ := step_fresh S P Z o b st hst
      simp only [runOps, List.map_cons, h1, ih _ h2]
end cache

/-! ## Benjamini–Hochberg -/

/-- "false-discovery-rate values equal the Benjamini–Hochberg step-up values": on the ascending
    p-values `sp`, the `i`-th q-value is the minimum over `j ≥ i` of `min(1, n p₍ⱼ₎ / (j+1))` —
    a lower bound of all of them, and equal to one of them. -/
theorem fdr_sorted_is_BH (sp : List Rat) (i : Nat) (hi : i < sp.length) :
    (∀ j, i ≤ j → j < sp.length →
      (bhSorted sp).getD i 0 ≤ min 1 ((sp.length : Rat) * sp.getD j 0 / ((j : Rat) + 1))) ∧
    (∃ j, i ≤ j ∧ j < sp.length ∧
      (bhSorted sp).getD i 0 = min 1 ((sp.length : Rat) * sp.getD j 0 / ((j : Rat) + 1))) := by
  unfold bhSorted
  have hlen := bhRaw_length (sp.length : Rat) sp 0
  constructor
  · intro j hij hj
    have := runMin_le (bhRaw sp.length 0 sp) i j hij (by rw [hlen]; exact hj)
    rwa [bhRaw_getD _ _ 0 j hj, Nat.zero_add] at this
  · obtain ⟨j, hij, hj, he⟩ := runMin_attained (bhRaw sp.length 0 sp) i (by rw [hlen]; exact hi)
    rw [hlen] at hj
    exact ⟨j, hij, hj, by rw [he, bhRaw_getD _ _ 0 j hj, Nat.zero_add]⟩

/-- q-values never exceed 1 -/
theorem fdr_sorted_le_one (sp : List Rat) (i : Nat) (hi : i < sp.length) :
    (bhSorted sp).getD i 0 ≤ 1 := by
  obtain ⟨j, _, _, he⟩ := (fdr_sorted_is_BH sp i hi).2
  rw [he]; exact min_le_left _ _

/-- q-values are non-decreasing along the ascending p-values (so thresholding q is
    thresholding p) -/
theorem fdr_sorted_monotone (sp : List Rat) (i : Nat) (hi : i + 1 < sp.length) :
    (bhSorted sp).getD i 0 ≤ (bhSorted sp).getD (i + 1) 0 := by
  obtain ⟨j, hij, hj, he⟩ := (fdr_sorted_is_BH sp (i + 1) hi).2
  rw [he]
  exact (fdr_sorted_is_BH sp i (by omega)).1 j (by omega) hj

/-- q-values dominate the p-values: for ascending non-negative `sp`, `q₍ᵢ₎ ≥ min(1, p₍ᵢ₎)`. -/
theorem fdr_sorted_ge_p (sp : List Rat) (hpos : ∀ j, j < sp.length → 0 ≤ sp.getD j 0)
    (hsorted : ∀ i j, i ≤ j → j < sp.length → sp.getD i 0 ≤ sp.getD j 0)
    (i : Nat) (hi : i < sp.length) :
    min 1 (sp.getD i 0) ≤ (bhSorted sp).getD i 0 := by
  obtain ⟨j, hij, hj, he⟩ := (fdr_sorted_is_BH sp i hi).2
  rw [he]
  apply min_le_min le_rfl
  have h1 : sp.getD i 0 ≤ sp.getD j 0 := hsorted i j hij hj
  have h2 : 0 ≤ sp.getD j 0 := hpos j hj
  have hj1 : ((j : Rat) + 1) ≤ (sp.length : Rat) := by exact_mod_cast hj
  have hjpos : (0 : Rat) < (j : Rat) + 1 := by positivity
  rw [le_div_iff₀ hjpos]
  nlinarith

/-- `check_p_values`: values outside [0,1] (and the empty vector) are refused by `fdr` -/
theorem fdr_refuses_out_of_range (p : List Rat) (h : ∃ x ∈ p, x < 0 ∨ 1 < x) :
    fdr p = .error "error:valueError" := by
  obtain ⟨x, hx, hlt⟩ := h
  have hne : p ≠ [] := by intro h0; rw [h0] at hx; simp at hx
  unfold fdr checkP
  rcases hlt with h | h
  · have : p.any (· < 0) = true := List.any_eq_true.mpr ⟨x, hx, by simpa using h⟩
    simp [hne, this]
  · by_cases h0 : p.any (· < 0) = true
    · simp [hne, h0]
    · have : p.any (1 < ·) = true := List.any_eq_true.mpr ⟨x, hx, by simpa using h⟩
      simp [hne, h0, this]

/-! ## Non-vacuity: concrete objects meeting the hypotheses -/

-- sd = 2 is the square root of dispersion · c cov cᵀ = 4·1, w = 1 its inverse at dispersion 1
example : (1 : Rat) * tVar (fun _ : Fin 1 => 1) (fun _ _ => 1) 1 = 1 ∧
    (2 : Rat) * 2 = tVar (fun _ : Fin 1 => 1) (fun _ _ => 1) 4 := by decide +kernel
example : fStat (fun _ _ => (1 : Rat)) (rowMat (fun _ : Fin 1 => 1)) (fun _ => 3) 4 = 9 / 4 ∧
    (tContrast (fun _ : Fin 1 => 1) (fun _ => 3) 2).t ^ 2 = 9 / 4 := by decide +kernel
-- an invertible recombination with its inverse, and inverses of both covariances (cov = 1, M = 1)
example : mmul (fun i j => if i = j then 1 else if i = 0 then -1 else 0 : Mat 2 2)
      (fun i j => if i = j then 1 else if i = 0 then 1 else 0) = one 2 := by decide +kernel
-- clamped square roots for the scaling theorem: v = 4, k = 3, tiny = 1, s = 2, s' = 6
example : (2 : Rat) * 2 = clampVar 4 1 ∧ (6 : Rat) * 6 = clampVar (4 * 3 ^ 2) 1 := by decide +kernel
-- the clip interval is non-degenerate and the identity inside
example : pLo ≤ 1 / 2 ∧ (1 : Rat) / 2 ≤ pHi := by decide +kernel
-- antitone tails exist: sf x = -x, isf p = -p
example : ∀ x y : Rat, x ≤ y → (fun t => -t) y ≤ (fun t => -t) x := fun _ _ h => neg_le_neg h
-- a stale-looking call sequence answered coherently; BH on a small ascending vector
example : runOps (fun b => b) (fun s => s) (fun p => p) [(Op.p, 0), (Op.stat, 1), (Op.z, 1)] Cache.init
    = [Ret.p 0, Ret.stat 1, Ret.z (1 : Rat)] := by decide +kernel
example : bhSorted [1/100, 1/100, 1/4, 1/2] = [1/50, 1/50, 1/3, 1/2] := by decide +kernel
example : statTmin (fun i : Fin 2 => if i = 0 then 3 else 1) 0 (fun _ => 1) = some 1 := by decide +kernel

end NipyVerif.C06
