/-
C18 (wave 3) — property theorems, part D:

* tie to the source text: the expressions regenerated from nipy/algorithms/kernel_smooth.py and
  nipy/algorithms/fwhm.py on every run (`Gen/C18Source.lean`) are what the model implements — for all
  arguments.  If the padding expression, the centre voxel, the cut-off, the order of the `scale` /
  `location` statements, the output window, `_crop`'s box, a width formula … change, these theorems
  stop building and the proofs about the model have to be re-examined;
* `LinearFilter` as an object: constructor, `_setup_kernel`, `smooth`, `__call__`, `_normsq`,
  `_presmooth` and attribute edits in any order — what every call reads, what no call touches.
-/
import NipyVerif.Props.C18C
import NipyVerif.Gen.C18Source
import Mathlib.Tactic.NormNum
import Mathlib.Tactic.Push

namespace NipyVerif.C18

/-! ## What the source says is what the model implements -/

/-- **the padded FFT length written in `_setup_kernel` is the model's `padLen`**, for every grid and
    kernel length (`np.ceil`, the float division and `astype(np.intp)` included) -/
theorem padLen_from_source (n k : Nat) : Gen.padLenSrc n k = (padLen n k : Rat) := by
  unfold Gen.padLenSrc padLen
  have e : ((n : Rat) + (k : Rat)) / 2 = ((n + k : Nat) : Rat) / 2 := by push_cast; ring
  rw [e, ceil_half]
  have e2 : ((((n + k + 1) / 2 : Nat) : Int) : Rat) * 2 + 2 =
      (((2 * ((n + k + 1) / 2) + 2 : Nat) : Int) : Rat) := by push_cast; ring
  rw [e2, truncInt_intCast]
  norm_cast

/-- … hence, with the padding *as written in the source*, no wrapped sample reaches the output window
    and the margin is the one of `pad_exact_margin` -/
theorem source_padding_sufficient (n k off : Nat) (hn : 0 < n) (hoff : off < k) :
    ((needLen n k off + 3 : Nat) : Rat) ≤ Gen.padLenSrc n k ∧ ((off + n : Nat) : Rat) ≤ Gen.padLenSrc n k := by
  rw [padLen_from_source]
  obtain ⟨a, b, _, _⟩ := pad_exact_margin n k off hn hoff
  constructor <;> first | (norm_cast; omega) | norm_cast

/-- the centre voxel `np.floor((n - 1) / 2.0)` is the model's `centre` on a non-empty axis -/
theorem centre_from_source (n : Nat) (hn : 0 < n) : Gen.centreSrc n = (centre n : Rat) := by
  unfold Gen.centreSrc centre
  have e : ((n : Rat) - 1) / 2 = ((n - 1 : Nat) : Rat) / 2 := by
    rw [Nat.cast_sub hn]; simp
  rw [e, floor_half]
  norm_cast

/-- `self._kcenter` is the model's window offset `centre − lo` (the corner is not above the centre:
    `cropBox_contains_centre`) -/
theorem kcenter_from_source (n lo : Nat) (h : lo ≤ centre n) :
    Gen.kcenterSrc (centre n) lo = ((centre n - lo : Nat) : Rat) := by
  unfold Gen.kcenterSrc
  rw [Nat.cast_sub h]; simp

/-- the norms table: keys and reductions, and the keys `smooth` accepts are exactly the source's -/
theorem norms_from_source (s : FState) :
    Gen.normsTable = [("l2", "sqrtSumSq"), ("l1", "sumAbs"), ("l1sum", "sum")] ∧
    (s.norm?.isSome ↔ s.normKey ∈ Gen.normsTable.map Prod.fst) := by
  refine ⟨rfl, ?_⟩
  unfold FState.norm? Gen.normsTable
  simp only [List.map_cons, List.map_nil, List.mem_cons, List.not_mem_nil, or_false]
  by_cases h1 : s.normKey = "l1sum"
  · simp [h1]
  · by_cases h2 : s.normKey = "l1"
    · simp [h2]
    · by_cases h3 : s.normKey = "l2"
      · simp [h3]
      · simp [h1, h2, h3]

/-- `__call__` as written (halve, compare with the cut-off, clamp, multiply by the mask) is the
    model's kernel value: `E e` where the exponent `e = D2/2 ≤ 15`, zero beyond -/
theorem call_from_source (E : Rat → Rat) (e : Rat) :
    Gen.callSrc E (2 * e) = if e ≤ 15 then E e else 0 := by
  unfold Gen.callSrc Gen.halving Gen.cutoff Gen.clamp
  have : 2 * e / 2 = e := by ring
  simp only [this]
  split_ifs with h
  · rw [min_eq_left h, mul_one]
  · rw [mul_zero]

/-- … so the stored kernel is `__call__` of the source on the voxel's `D2 = 2·e` -/
theorem gaussKer_from_source (E : Rat → Rat) (g : Geom) (bx : Box) (a b c : Nat) :
    gaussKer E g bx a b c = Gen.callSrc E (2 * g.e (bx.lo.n0 + a) (bx.lo.n1 + b) (bx.lo.n2 + c)) := by
  rw [call_from_source]; rfl

/-- the statements of `smooth` after the inverse transform — divide by the norm, `if scale != 1`,
    `if location != 0` — compute `scale · (conv / norm) + location`, the form of `smoothCirc` -/
theorem out_from_source (scale loc norm conv : Rat) :
    Gen.outSrc scale loc norm conv = scale * (conv / norm) + loc := by
  unfold Gen.outSrc
  by_cases h1 : scale = 1 <;> by_cases h2 : loc = 0 <;> simp [h1, h2]

/-- the output window starts at the centre index and has the grid's length -/
theorem window_from_source (kc n : Nat) :
    (Gen.windowSrc kc n).1 = (kc : Rat) ∧ (Gen.windowSrc kc n).2 - (Gen.windowSrc kc n).1 = (n : Rat) := by
  unfold Gen.windowSrc; simp

/-- `_crop`: default tolerance `1e-10`, the corner of the empty case `(s − 1) // 2`, the box
    `[m, M + 1)` of length `M − m + 1` (the model's `cropAbs` / `cropBox`) -/
theorem crop_from_source (s m M : Nat) (hs : 0 < s) (hm : m ≤ M) :
    Gen.cropTol = 1 / 10 ^ 10 ∧ Gen.cropEmptyCornerSrc s = (((s - 1) / 2 : Nat) : Int) ∧
    (Gen.cropBoxSrc m M).1 = (m : Rat) ∧
    (Gen.cropBoxSrc m M).2 - (Gen.cropBoxSrc m M).1 = ((M - m + 1 : Nat) : Rat) := by
  refine ⟨by unfold Gen.cropTol; norm_num, ?_, rfl, ?_⟩
  · unfold Gen.cropEmptyCornerSrc
    have e : (((s : Int) : Rat) - 1) / 2 = ((s - 1 : Nat) : Rat) / 2 := by
      rw [Nat.cast_sub hs]; simp
    rw [e, floor_half]
  · unfold Gen.cropBoxSrc
    simp only
    rw [Nat.cast_add, Nat.cast_sub hm]; simp; ring

/-- the width conversions of the source are the model's, with one and the same constant
    `sqrt(8 · log 2)` in both directions -/
theorem widths_from_source (c x : Rat) :
    Gen.fwhm2sigmaSrc c x = fwhm2sigma c x ∧ Gen.sigma2fwhmSrc c x = sigma2fwhm c x ∧
    Gen.widthConst = [(8, 2), (8, 2)] := ⟨rfl, rfl, rfl⟩

/-- fwhm.py: the `Resels` conversions and `_calc_detlam` of the source are the model's, with the
    constant `sqrt(4 · log 2)` in both directions -/
theorem resels_from_source (c w root x : Rat) (D : Nat) (xx yy zz yx zx zy : Rat) :
    Gen.resel2fwhmSrc c w root = resel2fwhm c w root ∧ Gen.fwhm2reselSrc c w D x = fwhm2resel c w D x ∧
    Gen.reselConst = [(4, 2), (4, 2)] ∧
    Gen.calcDetlamSrc xx yy zz yx zx zy = calcDetlam xx yy zz yx zx zy := ⟨rfl, rfl, rfl, rfl⟩

/-- constructor defaults, the default normalisation key, and: 4-D input is refused as built
    (`NotImplementedError` — the model's `argGuard`), so there is no time axis to leave untouched -/
theorem defaults_from_source :
    Gen.defaults = [6, 1, 0] ∧ Gen.defaultNormalization = "l1sum" ∧ Gen.fourDRefused = true ∧
    (∀ ish bshape, argGuard "image" 4 ish bshape = "error:notImplemented") := by
  refine ⟨by unfold Gen.defaults; norm_num, rfl, rfl, fun _ _ => rfl⟩

/-! ## The filter object -/

/-- no operation — smoothing, kernel evaluation, attribute edits, re-running `_setup_kernel`, whether
    it succeeds or refuses — touches the caller's images -/
theorem step2_preserves_images (s : LF) (op : Op2) : (step2 s op).1.imgs = s.imgs := by
  cases op <;> simp only [step2]
  case setup kv l2 => unfold setupStep; split <;> rfl

theorem history2_preserves_images (s : LF) (h : List Op2) : (runOps2 s h).1.imgs = s.imgs := by
  induction h generalizing s with
  | nil => rfl
  | cons op rest ih => simp only [runOps2]; rw [ih, step2_preserves_images]

/-- `smooth`, `__call__`, `_normsq` and `_presmooth` are observations: the object is as before -/
theorem observations_pure (s : LF) :
    (∀ i c f, (step2 s (.smooth i c f)).1 = s) ∧ (∀ h ii od m p, (step2 s (.call h ii od m p)).1 = s) ∧
    (∀ i, (step2 s (.presmooth i)).1 = s) := ⟨fun _ _ _ => rfl, fun _ _ _ _ _ => rfl, fun _ => rfl⟩

/-- an operation other than `_setup_kernel` leaves what `_setup_kernel` built (kernel, window offset,
    norms) alone; an operation other than an assignment leaves the attributes alone -/
theorem step2_frames (s : LF) (op : Op2) :
    ((∀ kv l2, op ≠ .setup kv l2) → (step2 s op).1.built = s.built ∧ (step2 s op).1.wild = s.wild) ∧
    ((∀ k, op ≠ .setNorm k) → (∀ r, op ≠ .setScale r) → (∀ r, op ≠ .setLoc r) →
      (∀ a b, op ≠ .setFwhm a b) → (∀ c, op ≠ .setCov c) → (step2 s op).1.attrs = s.attrs) := by
  constructor
  · intro h
    cases op <;> first | exact ⟨rfl, rfl⟩ | exact absurd rfl (h _ _)
  · intro h1 h2 h3 h4 h5
    cases op
    case setNorm k => exact absurd rfl (h1 k)
    case setScale r => exact absurd rfl (h2 r)
    case setLoc r => exact absurd rfl (h3 r)
    case setFwhm a b => exact absurd rfl (h4 a b)
    case setCov c => exact absurd rfl (h5 c)
    case setup kv l2 => simp only [step2]; unfold setupStep; split <;> rfl
    all_goals rfl

/-- what `smooth` answers depends on the images, on what `_setup_kernel` built, and on the three
    output settings — not on `fwhm`, `cov` or anything else -/
theorem smoothStep_congr (s t : LF) (i : Nat) (c f : Bool)
    (h1 : t.imgs = s.imgs) (h2 : t.built = s.built) (h3 : t.wild = s.wild) (h4 : t.attrs.sh = s.attrs.sh)
    (h5 : t.attrs.normKey = s.attrs.normKey) (h6 : t.attrs.scale = s.attrs.scale)
    (h7 : t.attrs.loc = s.attrs.loc) : smoothStep t i c f = smoothStep s i c f := by
  unfold smoothStep LF.fstate
  rw [h1, h2, h3, h4, h5, h6, h7]

/-- operations that are neither `_setup_kernel` nor an assignment of an output setting -/
def Op2.inert : Op2 → Prop
  | .smooth .. | .call .. | .presmooth .. | .setFwhm .. | .setCov .. => True
  | _ => False

/-- **edits of `fwhm` and `cov` are inert for `smooth` until `_setup_kernel` is run again**: after any
    history of smoothing, kernel evaluations and `fwhm` / `cov` assignments every `smooth` request is
    answered as before the history -/
theorem edits_inert_until_setup (s : LF) (h : List Op2) (hin : ∀ op ∈ h, op.inert) (i : Nat) (c f : Bool) :
    smoothStep (runOps2 s h).1 i c f = smoothStep s i c f := by
  induction h generalizing s with
  | nil => rfl
  | cons op rest ih =>
    simp only [runOps2]
    rw [ih (step2 s op).1 fun o ho => hin o (List.mem_cons_of_mem _ ho)]
    have hop := hin op (List.mem_cons_self ..)
    cases op <;> first | rfl | exact False.elim hop

/-- whereas `__call__` / `_normsq` read the *live* attributes: their answer is a function of the
    current `fwhm` (sigma) and `cov` alone — of nothing `_setup_kernel` built, of no earlier call -/
theorem call_reads_live_attributes (s t : LF) (hs : t.attrs.sig = s.attrs.sig) (hc : t.attrs.cov = s.attrs.cov)
    (half isInt oneD : Bool) (m : Nat) (pts : List (List Rat)) :
    (step2 t (.call half isInt oneD m pts)).2 = (step2 s (.call half isInt oneD m pts)).2 := by
  simp only [step2, callStep, hs, hc]

/-- `_setup_kernel` is a function of the attributes and the images' identity only: re-running it after
    any history gives the object a freshly constructed filter with the current attributes would be
    (same external `exp` values) -/
theorem setup_is_construct (s : LF) (kv : List Rat) (l2 : Rat)
    (k off P : Sh) (norms : List Rat) (es : List (Option Rat))
    (hb : (setupStep s kv l2).2 = .built k off P norms es) :
    (setupStep s kv l2).1.built = (construct s.attrs s.imgs kv l2).1.built ∧
    (setupStep s kv l2).2 = (construct s.attrs s.imgs kv l2).2 ∧
    (setupStep s kv l2).1.attrs = s.attrs ∧ (setupStep s kv l2).1.wild = false := by
  unfold construct
  unfold setupStep at hb ⊢
  simp only at hb ⊢
  split at hb
  · cases hb
  · cases hb
  · rename_i b o hc
    simp only
    exact ⟨trivial, trivial, trivial, trivial⟩

/-- the exponent `_setup_kernel` stores at a voxel is what `__call__` gives for that voxel's world
    displacement: the kernel *is* `self(X, axis=0)` (three coordinates, the built sigma, no `cov`) -/
theorem kernel_is_call_on_displacement (g : Geom) (a b c : Nat) :
    d2Pt [g.sig.x, g.sig.y, g.sig.z] none [(g.X a b c).x, (g.X a b c).y, (g.X a b c).z] =
      2 * halfNormSq g.sig M3.one (g.X a b c) := by
  simp [d2Pt, halfNormSq, M3.one, M3.mulVec, V3.dot]
  ring

/-- with `cov` the point routine whitens the 3-vector: `D2 = 2 · halfNormSq σ W x`, the quadratic
    form of `exponent_cov_quadratic` -/
theorem call_with_cov (sig x : V3) (pd : Bool) (W : M3) :
    d2Pt [sig.x, sig.y, sig.z] (some (pd, W)) [x.x, x.y, x.z] = 2 * halfNormSq sig W x := by
  simp [d2Pt, halfNormSq]
  ring

/-- further coordinates of a point (beyond the three that have a width) enter unscaled, as built -/
theorem call_extra_coordinate (sig x : V3) (t : Rat) :
    d2Pt [sig.x, sig.y, sig.z] none [x.x, x.y, x.z, t] =
      d2Pt [sig.x, sig.y, sig.z] none [x.x, x.y, x.z] + t * t := by
  simp [d2Pt]
  ring

/-- `_presmooth` followed by `smooth(is_fft=True)` on its result is `smooth` on the image itself
    (`smoothBuf` on the padded buffer is `smoothCirc`, which is the direct convolution) -/
theorem presmooth_then_smooth (F : Filter) (x : Img) (i0 i1 i2 : Nat)
    (h0 : i0 < F.bshape.n0) (h1 : i1 < F.bshape.n1) (h2 : i2 < F.bshape.n2)
    (o0 : F.off.n0 ≤ F.kshape.n0) (o1 : F.off.n1 ≤ F.kshape.n1) (o2 : F.off.n2 ≤ F.kshape.n2) :
    smoothBuf F (pad F.bshape x) i0 i1 i2 = smoothLin F x i0 i1 i2 := by
  rw [smoothBuf_pad]; exact smooth_is_convolution F x i0 i1 i2 h0 h1 h2 o0 o1 o2

/-- a pre-transformed image made for another padded shape (before `_setup_kernel` was re-run with a
    different width) is refused, never silently mis-smoothed -/
theorem stale_transform_refused (s : LF) (i : Nat) (b : Array Rat) (P : Sh) (c : Bool) (hw : s.wild = false)
    (hi : s.imgs[i]? = some (.pre b, P)) (hP : P ≠ padShape s.attrs.sh s.built.kshape) :
    smoothStep s i c true = .err "error:valueError" := by
  unfold smoothStep
  rw [hw, hi]
  simp [hP]

/-! ## fwhm.py: the usable parts of `Resels` -/

/-- a resel is the reciprocal of the number of voxels in a block of side FWHM: for positive width,
    constant and wedge, `fwhm2resel(f) · (f / c4 · wedge)^D = 1` -/
theorem fwhm2resel_is_reciprocal (c4 w f : Rat) (D : Nat) (hc : 0 < c4) (hw : 0 < w) (hf : 0 < f) :
    fwhm2resel c4 w D f * (f / c4 * w) ^ D = 1 ∧ 0 < fwhm2resel c4 w D f := by
  have hy : 0 < f / c4 * w := by positivity
  have hyD : 0 < (f / c4 * w) ^ D := pow_pos hy D
  unfold fwhm2resel posRecipr
  rw [ratPow_eq, if_pos hyD]
  exact ⟨by field_simp, by positivity⟩

/-- wider smoothing, fewer resels per voxel -/
theorem fwhm2resel_antitone (c4 w f1 f2 : Rat) (D : Nat) (hc : 0 < c4) (hw : 0 < w) (hf : 0 < f1) (h12 : f1 ≤ f2) :
    fwhm2resel c4 w D f2 ≤ fwhm2resel c4 w D f1 := by
  have hy1 : 0 < f1 / c4 * w := by positivity
  have hy2 : 0 < f2 / c4 * w := by have : 0 < f2 := lt_of_lt_of_le hf h12; positivity
  have hle : f1 / c4 * w ≤ f2 / c4 * w := by
    apply mul_le_mul_of_nonneg_right _ hw.le
    exact div_le_div_of_nonneg_right h12 hc.le
  unfold fwhm2resel posRecipr
  rw [ratPow_eq, ratPow_eq, if_pos (pow_pos hy1 D), if_pos (pow_pos hy2 D)]
  exact one_div_le_one_div_of_le (pow_pos hy1 D) (pow_le_pow_left₀ hy1.le hle D)

/-- `integrate` with a 0/1 mask (bool, int8, uint8, float — the same numbers): the total is the sum of
    the selected resels and the voxel count is the number of ones -/
theorem integrate_mask01 (rs m : List Rat) (hm : ∀ b ∈ m, b = 0 ∨ b = 1) (hl : m.length = rs.length) :
    integrate rs (some m) =
      ((List.zipWith (fun r b => if b = 1 then r else 0) rs m).sum, ((m.filter (· = 1)).length : Int)) := by
  unfold integrate
  have t0 : truncInt 0 = 0 := by decide
  have t1 : truncInt 1 = 1 := by decide
  induction rs generalizing m with
  | nil =>
    cases m with
    | nil => simp
    | cons b m' => simp at hl
  | cons r rest ih =>
    cases m with
    | nil => simp at hl
    | cons b m' =>
      have hb := hm b (List.mem_cons_self ..)
      have ih' := ih m' (fun x hx => hm x (List.mem_cons_of_mem _ hx)) (by simpa using hl)
      simp only [List.map_cons, List.zipWith_cons_cons, List.sum_cons, Prod.mk.injEq] at ih' ⊢
      obtain ⟨i1, i2⟩ := ih'
      rcases hb with rfl | rfl
      · constructor
        · rw [i1]; simp [t0]
        · rw [i2]; simp [t0]
      · constructor
        · rw [i1]; simp [t1]
        · rw [i2]; simp [t1]; ring

/-! ## Non-vacuity -/

/-- an object on a 3×1×1 grid, unit voxels, sigma 1: kernel `[1/2, 1, 1/2]`-like values passed in -/
def exAttrs : Attrs := ⟨⟨3, 1, 1⟩, M3.one, ⟨0, 0, 0⟩, [1, 1, 1], [2], none, "l1sum", 1, 0⟩
def exLF : LF := (construct exAttrs [(.spatial #[.fin 1, .fin 0, .fin 0], ⟨0, 0, 0⟩)] [1/2, 1, 1/2] 1).1

-- the constructor builds a 3-voxel kernel with centre index 1 on the padded shape 8×4×4
example : (construct exAttrs [] [1/2, 1, 1/2] 1).2 =
    .built ⟨3, 1, 1⟩ ⟨1, 0, 0⟩ ⟨8, 4, 4⟩ [2, 2, 3/2] [some (1/2), some 0, some (1/2)] := by decide +kernel
-- smoothing the impulse at voxel 0: [1, 1/2, 0] / 2
example : smoothStep exLF 0 false false = .vals [1/2, 1/4, 0] := by decide +kernel
-- assigning a new width changes `__call__` at once, `smooth` only after `_setup_kernel`
example : (step2 (step2 exLF (.setFwhm [4] [2, 2, 2])).1 (.call true false false 3 [[2, 0, 0]])).2 =
    .exps [some (1/2)] ∧ (step2 exLF (.call true false false 3 [[2, 0, 0]])).2 = .exps [some 2] := by decide +kernel
example : smoothStep (step2 exLF (.setFwhm [4] [2, 2, 2])).1 0 false false = .vals [1/2, 1/4, 0] := by
  decide +kernel
-- integer points are refused, `cov` on the object makes `_setup_kernel` refuse and leaves it as it was
example : (step2 exLF (.call true true false 3 [[2, 0, 0]])).2 = .base (.err "error:typeError") := by decide +kernel
example : (step2 (step2 exLF (.setCov (some (true, M3.one)))).1 (.setup [1] 1)).2 =
    .base (.err "error:valueError") := by decide +kernel
-- `integrate_mask01`: mask [1, 0, 1] selects 2 voxels of [1/2, 3, 2] (total 5/2)
example : integrate [1/2, 3, 2] (some [1, 0, 1]) = (5/2, 2) := by decide +kernel
example : fwhm2resel 2 3 2 4 = 1/36 := by decide +kernel
example : Gen.padLenSrc 4 3 = 10 ∧ Gen.centreSrc 4 = 1 ∧ Gen.centreSrc 5 = 2 := by decide +kernel

end NipyVerif.C18
