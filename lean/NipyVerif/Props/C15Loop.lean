/-
C15 — the loops of `Lips1d/2d/3d` as written (flat indices, strides, `% nvox`,
Gram matrix `D`, `_convert_stride*`; `NipyVerif.Model.C15Lips`) compute the
grid-point sums `lipsMu1/2/3` about which Props/C15B speaks, and `l0` is the
Euler characteristic of Props/C15.
-/
import NipyVerif.Lemmas.C15Loop
import NipyVerif.Props.C15B

namespace NipyVerif.C15

/-- **`Lips3d`, main loop = the sums over the complex.**  For a mask with `n1, n2 ≥ 2`
    (after `np.squeeze`) the loop as written — flat padded mask, `strides_from`,
    `cvertices`, the `% nvox` wrap, the Gram matrix `D`, `_convert_stride3`, the `if m:`
    guards — returns `(EC, mu1, mu2, mu3)` of the grid-point form. -/
theorem lips3dLoop_eq (P : Num) (m : Mask) (cs : List (Array Rat)) (h1 : 2 ≤ m.n1) (h2 : 2 ≤ m.n2) :
    lips3dLoop P m cs = ⟨ec3 m.n0 m.n1 m.n2 m.at,
      lipsMu1 P 3 m.n0 m.n1 m.n2 m.at (coordAt m.n1 m.n2 cs),
      lipsMu2 P 3 m.n0 m.n1 m.n2 m.at (coordAt m.n1 m.n2 cs),
      lipsMu3 P 3 m.n0 m.n1 m.n2 m.at (coordAt m.n1 m.n2 cs)⟩ := by
  have hd3 : (3 = 1 ∨ 3 = 2 ∨ 3 = 3) := by omega
  unfold lips3dLoop
  simp only [cStrides3, List.getD_cons_zero, List.getD_cons_succ, List.map_map]
  rw [sum3V_congr (g := fun i j k => ⟨-(contrib (table 3 4) m.at (i, j, k)) + contrib (table 3 3) m.at (i, j, k)
      - contrib (table 3 2) m.at (i, j, k),
      l1Vox P 3 m.at (coordAt m.n1 m.n2 cs) (i, j, k), l2Vox P 3 m.at (coordAt m.n1 m.n2 cs) (i, j, k),
      l3Vox P 3 m.at (coordAt m.n1 m.n2 cs) (i, j, k)⟩)]
  · rw [sum3V_eq]
    simp only [lipsMu1, lipsMu2, lipsMu3, maskSum, ec3]
    congr 1
    rw [← sum3_add]
    refine sum3_congr (fun i j k _ _ _ => ?_)
    simp only [voxelEC, fat, Nat.add_zero]; ring
  · intro i j k _ hj hk
    have e4 := List.map_congr_left (l := table 3 4) (fun s hs =>
      row4_eq3 P m cs h1 h2 i j k hj hk s (table_corners 3 4 hd3 (by omega) s hs).1
        (table_corners 3 4 hd3 (by omega) s hs).2)
    have e3 := List.map_congr_left (l := table 3 3) (fun s hs =>
      row3_eq3 P m cs h1 h2 i j k hj hk s (table_corners 3 3 hd3 (by omega) s hs).1
        (table_corners 3 3 hd3 (by omega) s hs).2)
    have e2 := List.map_congr_left (l := table 3 2) (fun s hs =>
      row2_eq3 P m cs h1 h2 i j k hj hk s (table_corners 3 2 hd3 (by omega) s hs).1
        (table_corners 3 2 hd3 (by omega) s hs).2)
    simp only [Function.comp_def]
    unfold cvertOf3 at e4 e3 e2
    simp only [List.map_map, Function.comp_def] at e4 e3 e2
    rw [e4, e3, e2]
    simp only [sumL4_map, V4.add, l1Vox, l2Vox, l3Vox, tsum, contrib, list_sum_map_neg, list_sum_map_neg_int]
    refine V4.ext' ?_ ?_ ?_ ?_ <;> simp <;> ring


/-- **`Lips2d`, main loop = the sums over the complex** (mask of shape `(n0, n1)`,
    `n1 ≥ 1`; no squeeze in `Lips2d`: thin shapes `(1, n)` and `(n, 1)` are included). -/
theorem lips2dLoop_eq (P : Num) (m : Mask) (cs : List (Array Rat)) (hn2 : m.n2 = 1) (h1 : 1 ≤ m.n1) :
    lips2dLoop P m cs = ⟨ec2 m.n0 m.n1 m.at,
      lipsMu1 P 2 m.n0 m.n1 1 m.at (coordAt m.n1 m.n2 cs),
      lipsMu2 P 2 m.n0 m.n1 1 m.at (coordAt m.n1 m.n2 cs), 0⟩ := by
  have hd2 : (2 = 1 ∨ 2 = 2 ∨ 2 = 3) := by omega
  unfold lips2dLoop
  simp only [cStrides2, List.getD_cons_zero, List.getD_cons_succ, List.map_map]
  rw [sum3V_congr (g := fun i j k => ⟨contrib (table 2 3) m.at (i, j, k) - contrib (table 2 2) m.at (i, j, k),
      l1Vox P 2 m.at (coordAt m.n1 m.n2 cs) (i, j, k), l2Vox P 2 m.at (coordAt m.n1 m.n2 cs) (i, j, k), 0⟩)]
  · rw [sum3V_eq]
    simp only [lipsMu1, lipsMu2, maskSum, ec2, hn2]
    congr 1
    · rw [← sum3_add]
      refine sum3_congr (fun i j k _ _ _ => ?_)
      simp only [voxelEC, fat, Nat.add_zero, table_2_4, contrib, List.map_nil, List.sum_nil]; ring
    · exact sum3Q_eq_zero (fun _ _ _ _ _ _ => rfl)
  · intro i j k _ hj hk
    obtain rfl : k = 0 := by omega
    have e3 := List.map_congr_left (l := table 2 3) (fun s hs =>
      row3_eq2 P m cs hn2 h1 i j hj s (table_corners 2 3 hd2 (by omega) s hs).1
        (table_corners 2 3 hd2 (by omega) s hs).2 (table2_planar 3 (by omega) s hs))
    have e2 := List.map_congr_left (l := table 2 2) (fun s hs =>
      row2_eq2 P m cs hn2 h1 i j hj s (table_corners 2 2 hd2 (by omega) s hs).1
        (table_corners 2 2 hd2 (by omega) s hs).2 (table2_planar 2 (by omega) s hs))
    simp only [Function.comp_def]
    unfold cvertOf2 at e3 e2
    simp only [List.map_map, Function.comp_def] at e3 e2
    rw [e3, e2]
    simp only [sumL4_map, V4.add, l1Vox, l2Vox, tsum, contrib, list_sum_map_neg, list_sum_map_neg_int, table_2_4]
    refine V4.ext' ?_ ?_ ?_ ?_ <;> simp <;> ring


/-- **`Lips1d` = the sums over the complex** (no padding in the code: `% s0` with the
    `(i+1) < s0` guards). -/
theorem lips1dLoop_eq (P : Num) (m : Mask) (cs : List (Array Rat)) (hn1 : m.n1 = 1) (hn2 : m.n2 = 1) :
    lips1dLoop P m cs = ⟨ec1 m.n0 m.at, lipsMu1 P 1 m.n0 1 1 m.at (coordAt m.n1 m.n2 cs), 0, 0⟩ := by
  unfold lips1dLoop
  dsimp only
  have Mi : ∀ i, i < m.n0 → m.at i 0 0 = ((fmaskOf m i : Nat) : Int) := by
    intro i hi
    simp [Mask.at, fmaskOf, hi, hn1, hn2]
  have Mo : ∀ i, m.n0 ≤ i → m.at i 0 0 = 0 := by
    intro i hi
    simp [Mask.at, show ¬ i < m.n0 by omega]
  rw [sum3V_congr (g := fun i j k => ⟨-(contrib (table 1 2) m.at (i, j, k)),
      l1Vox P 1 m.at (coordAt m.n1 m.n2 cs) (i, j, k), 0, 0⟩)]
  · rw [sum3V_eq]
    simp only [lipsMu1, maskSum, ec1, hn1, hn2]
    congr 1
    · rw [← sum3_add]
      refine sum3_congr (fun i j k _ _ _ => ?_)
      simp only [voxelEC, fat, Nat.add_zero, table_1_3, table_1_4, contrib, List.map_nil, List.sum_nil]; ring
    · exact sum3Q_eq_zero (fun _ _ _ _ _ _ => rfl)
    · exact sum3Q_eq_zero (fun _ _ _ _ _ _ => rfl)
  · intro i j k hi hj hk
    obtain rfl : k = 0 := by omega
    obtain rfl : j = 0 := by omega
    have hl1 : l1Vox P 1 m.at (coordAt m.n1 m.n2 cs) (i, 0, 0)
        = ((m.at i 0 0 * m.at (i + 1) 0 0 : Int) : Rat)
          * edge1 P (gramAt (coordAt m.n1 m.n2 cs) (i, 0, 0) [(0, 0, 0), (1, 0, 0)]) := by
      simp [l1Vox, tsum, table_1_2, table_1_3, table_1_4, wt, prodAt, fat]
    have hc : contrib (table 1 2) m.at (i, 0, 0) = m.at i 0 0 * m.at (i + 1) 0 0 := by
      simp [contrib, table_1_2, prodAt, fat]
    rw [hl1, hc, Mi i hi]
    by_cases h0 : fmaskOf m i = 0
    · simp [h0, V4.zero]
    · simp only [h0, ne_eq, not_false_eq_true, if_true]
      by_cases h1 : i + 1 < m.n0
      · rw [Mi (i + 1) h1]
        simp only [h1, if_true, Nat.mul_one, Nat.mod_eq_of_lt h1]
        by_cases h2 : fmaskOf m (i + 1) = 0
        · simp [h2]
        · refine V4.ext' (by push_cast; ring) ?_ rfl rfl
          simp only
          push_cast
          congr 1
          simp only [edge1, mu1Edge, gramAt, List.getD_cons_zero, List.getD_cons_succ, padd, Nat.add_zero,
            dotv, coordAt, dot_map_map, hn1, hn2, Nat.mul_one, Nat.zero_add, Nat.mod_eq_of_lt hi,
            Nat.mod_eq_of_lt h1, h0, h2, hi, h1, if_true, ne_eq, Nat.mul_eq_zero, or_self, not_false_eq_true,
            Nat.add_zero]
          congr 2
          exact list_sum_map_congr _ _ _ (fun c _ => mul_comm _ _)
      · rw [Mo (i + 1) (by omega)]
        simp [h1]

/-- **Delegation in `Lips3d`**: after `np.squeeze`, a mask with exactly one axis of
    length 1 is handled by `Lips2d`, with two such axes by `Lips1d`; with all three of
    length 1 (a single voxel) the function returns `(mask value, 0, 0, 0)` when the source has
    the `mask.ndim == 0` branch and zeros otherwise — then `mu0 = 0` although the complex is
    one vertex (`EC3d` gives 1): the finding `lips3d-single-voxel`. -/
theorem lips3d_delegation (P : Num) (bits : Array Nat) (cs : List (Array Rat)) (a b : Nat) (ha : a ≠ 1) (hb : b ≠ 1) :
    lips3d P ⟨1, a, b, bits⟩ cs = lips2dLoop P ⟨a, b, 1, bits⟩ cs ∧
    lips3d P ⟨a, 1, b, bits⟩ cs = lips2dLoop P ⟨a, b, 1, bits⟩ cs ∧
    lips3d P ⟨a, b, 1, bits⟩ cs = lips2dLoop P ⟨a, b, 1, bits⟩ cs ∧
    lips3d P ⟨1, 1, a, bits⟩ cs = lips1dLoop P ⟨a, 1, 1, bits⟩ cs ∧
    lips3d P ⟨1, a, 1, bits⟩ cs = lips1dLoop P ⟨a, 1, 1, bits⟩ cs ∧
    lips3d P ⟨a, 1, 1, bits⟩ cs = lips1dLoop P ⟨a, 1, 1, bits⟩ cs ∧
    lips3d P ⟨1, 1, 1, bits⟩ cs
      = (if Gen.C15.lips3dZeroDim then ⟨(⟨1, 1, 1, bits⟩ : Mask).at 0 0 0, 0, 0, 0⟩ else V4.zero) := by
  simp [lips3d, lips2d, List.filter, ha, hb]


/-- **`Lips3d` on a thin slab `(a, b, 1)` (delegated to `Lips2d` after `np.squeeze`)
    returns the Euler characteristic and the `mu1, mu2, mu3` of the 3-d complex of the
    slab**: the delegation in the code and the triangulation agree (`mu3 = 0`). -/
theorem lips3d_thin_slab (P : Num) (a b : Nat) (bits : Array Nat) (cs : List (Array Rat)) (ha : a ≠ 1) (hb : b ≠ 1)
    (hb0 : 1 ≤ b) :
    let m : Mask := ⟨a, b, 1, bits⟩
    lips3d P m cs = ⟨ec3 a b 1 m.at, lipsMu1 P 3 a b 1 m.at (coordAt b 1 cs), lipsMu2 P 3 a b 1 m.at (coordAt b 1 cs),
      lipsMu3 P 3 a b 1 m.at (coordAt b 1 cs)⟩ := by
  intro m
  have hM : ∀ i j k, 1 ≤ k → m.at i j k = 0 := by
    intro i j k hk
    simp only [Mask.at, m]
    rw [if_neg]; omega
  have hd := (lips3d_delegation P bits cs a b ha hb).2.2.1
  have h2 := lips2dLoop_eq P m cs rfl hb0
  have hs := lips3_slab_embedding P a b m.at (coordAt b 1 cs) hM
  have he := ec3_slab_embedding a b m.at hM
  show lips3d P ⟨a, b, 1, bits⟩ cs = _
  rw [hd]
  show lips2dLoop P m cs = _
  rw [h2, he, hs.1, hs.2.1, hs.2.2]

/-! ## The square root the driver uses is certified by squaring -/

/-- **`sqrtQ` is the exact square root rounded down to the grid `1/(q·2⁶⁴)`** (`q` the
    denominator of the argument): `sqrtQ v ≥ 0`, `sqrtQ(v)² ≤ v < (sqrtQ v + 1/(q·2⁶⁴))²`. -/
theorem sqrtQ_spec (v : Rat) (hv : 0 < v) :
    0 ≤ sqrtQ v ∧ sqrtQ v ^ 2 ≤ v ∧ v < (sqrtQ v + 1 / ((v.den : Rat) * 2 ^ 64)) ^ 2 := by
  have hnum : 0 < v.num := Rat.num_pos.mpr hv
  set p := v.num.toNat with hp
  have hpz : (p : Int) = v.num := Int.toNat_of_nonneg hnum.le
  have hvq : (p : Rat) = v * v.den := by
    have : ((p : Int) : Rat) = (v.num : Rat) := by rw [hpz]
    rw [Rat.mul_den_eq_num, ← this]; simp
  set N := p * v.den * 4 ^ 64 with hN
  set s := Nat.sqrt N with hs
  have h1 : s ^ 2 ≤ N := Nat.sqrt_le' N
  have h2 : N < (s + 1) ^ 2 := Nat.lt_succ_sqrt' N
  have e : sqrtQ v = (s : Rat) / ((v.den : Rat) * 2 ^ 64) := by
    unfold sqrtQ
    rw [if_neg (not_le.mpr hv), Rat.mkRat_eq_div]
    push_cast
    rfl
  have hq : (0 : Rat) < v.den := by exact_mod_cast v.den_pos
  have hd : (0 : Rat) < (v.den : Rat) * 2 ^ 64 := by positivity
  have h1' : ((s : Rat)) ^ 2 ≤ (N : Rat) := by exact_mod_cast h1
  have h2' : (N : Rat) < ((s : Rat) + 1) ^ 2 := by exact_mod_cast h2
  have hNq : (N : Rat) = v * ((v.den : Rat) * 2 ^ 64) ^ 2 := by
    rw [hN]; push_cast
    rw [hvq]; ring
  rw [e]
  refine ⟨by positivity, ?_, ?_⟩
  · rw [div_pow, div_le_iff₀ (by positivity)]
    linarith
  · have : (s : Rat) / ((v.den : Rat) * 2 ^ 64) + 1 / ((v.den : Rat) * 2 ^ 64)
        = ((s : Rat) + 1) / ((v.den : Rat) * 2 ^ 64) := by ring
    rw [this, div_pow, lt_div_iff₀ (by positivity)]
    linarith

/-- `sqrtQ` of a non-positive number is 0 (never reached: the code guards `v2 <= 0`, `L < 0`) -/
theorem sqrtQ_nonpos (v : Rat) (hv : v ≤ 0) : sqrtQ v = 0 := by simp [sqrtQ, hv]

/-! ## Non-vacuity -/

/-- the hypothesis `SqHom` of `lips_rescale` holds for every scale factor for the exact
    rational square root (any `acos`, `PI`) -/
example (ac : Rat → Rat) (pi l : Rat) : SqHom ⟨sqExact, ac, pi⟩ l := by
  intro v
  show sqExact (l ^ 2 * v) = |l| * sqExact v
  by_cases hl : l = 0
  · subst hl
    simp [sqExact_of_root 0 0 le_rfl (by norm_num)]
  by_cases hex : ∃ r : Rat, 0 ≤ r ∧ r * r = v
  · obtain ⟨r, hr, h⟩ := hex
    rw [sqExact_of_root v r hr h, sqExact_of_root (l ^ 2 * v) (|l| * r) (by positivity)
      (by rw [← h]; rw [mul_mul_mul_comm, abs_mul_abs_self]; ring)]
  · have hex' : ¬ ∃ r : Rat, 0 ≤ r ∧ r * r = l ^ 2 * v := by
      rintro ⟨r, hr, h⟩
      refine hex ⟨r / |l|, by positivity, ?_⟩
      have hl2 : l ^ 2 ≠ 0 := pow_ne_zero _ hl
      rw [div_mul_div_comm, h, abs_mul_abs_self, ← pow_two, mul_div_cancel_left₀ _ hl2]
    simp [sqExact, hex, hex']

/-- `hsq` of `lips3_box_abc` for the driver's certified square root and voxels 2 × 1 × ½ -/
example : numQ.sq (((2 : Rat) * 1 * (1 / 2)) ^ 2) = 2 * 1 * (1 / 2) := by decide +kernel

/-- the loop of `Lips3d` on the solid 2×2×2 mask with unit coordinates and the driver's
    numerics: `mu3 = 1` exactly, `mu0 = 1`, `mu2` within `2⁻⁶⁰` of 3 -/
example : let r := (lips3dLoop numQ ⟨2, 2, 2, #[1, 1, 1, 1, 1, 1, 1, 1]⟩
      [#[0, 0, 0, 0, 1, 1, 1, 1], #[0, 0, 1, 1, 0, 0, 1, 1], #[0, 1, 0, 1, 0, 1, 0, 1]])
    r.l0 = 1 ∧ r.l3 = 1 ∧ |r.l2 - 3| < 1 / 2 ^ 60 := by decide +kernel

/-- the hypotheses of `lips3dLoop_eq` (`2 ≤ n1`, `2 ≤ n2`) hold after `np.squeeze` for every
    mask that reaches the 3-d loop with a non-empty array -/
example (a b c : Nat) (h : [a, b, c].filter (· ≠ 1) = [a, b, c]) (hb : b ≠ 0) (hc : c ≠ 0) : 2 ≤ b ∧ 2 ≤ c := by
  have hb1 : b ≠ 1 := by
    intro h1; subst h1
    by_cases ha : a = 1 <;> by_cases hc1 : c = 1 <;> simp [List.filter, ha, hc1] at h
  have hc1 : c ≠ 1 := by
    intro h1; subst h1
    by_cases ha : a = 1 <;> by_cases hb1 : b = 1 <;> simp [List.filter, ha, hb1] at h
  omega

end NipyVerif.C15
