/-
C08 (second part) — property theorems about the model in `NipyVerif.Model.C08B`:
rotation matrix → vector → matrix through `quat2axangle(mat2quat(R))`, `from_matrix44` in full,
`to_matrix44` sizes, helpers, object histories, `ChainTransform`, `PolyAffine`.
Only property statements and their non-vacuity examples live here.
-/
import NipyVerif.Lemmas.C08B
import NipyVerif.Props.C08

namespace NipyVerif.C08
set_option linter.unusedSimpArgs false
set_option linter.unnecessarySeqFocus false

/-! ## Rotation matrix → rotation vector → rotation matrix -/

/-- *Converting a rotation matrix to a vector and back reproduces the matrix.*
    For **every** proper rotation matrix `R` and **every** assignment of the external numerics
    of `rotation_mat2vec(R)` that satisfies the certificates (`K q = λ q` with `λ` the largest
    eigenvalue, `s² = Nq`, `√len2² = len2`, `(ch, sh)` on the unit circle with `ch` the clamped
    `w` and `sh ≥ 0`), and every consistent evaluation `g` of `‖r‖`, `sin`, `cos` by
    `rotation_vec2mat` on the returned vector (`g.theta² = r·r`, `sin θ = 2 sh ch`,
    `cos θ = ch² − sh²`: the double-angle laws for `θ = 2·acos w`), in the branch where
    `quat2axangle` returns an axis and `rotation_vec2mat` uses Rodrigues' formula:
    `rotation_vec2mat(rotation_mat2vec(R)) = R`. -/
theorem vec2mat_mat2vec (R : M3) (hR : R.IsRotation) (e : QExt) (C : Mat2VecCert R e)
    (hb : qBranch e = .axis) (ch sh : Rat) (A : AcosCert e ch sh)
    (g : Trig) (hθ : g.theta * g.theta = (rotationMat2Vec e).dot (rotationMat2Vec e))
    (hs : g.s = 2 * sh * ch) (hc : g.c = ch * ch - sh * sh)
    (hsmall : smallAngle < g.theta) (hbig : g.theta ≤ maxAngle) :
    rotationVec2Mat (rotationMat2Vec e) g = R := by
  obtain ⟨hsL, hch, hsh, hunit⟩ := axis_branch_facts R hR e C hb ch sh A
  obtain ⟨_, hmat, _⟩ := quatNormalized_spec R hR e C
  have hsL' : e.sL ≠ 0 := ne_of_gt hsL
  have hL2 : e.sL * e.sL = (quatNormalized e).vec.dot (quatNormalized e).vec := by rw [C.sL.1, C.len2]
  -- the returned vector
  have hr : rotationMat2Vec e = V3.smul (2 * e.ac) ((quatNormalized e).vec.sdiv e.sL) := by
    unfold rotationMat2Vec quat2axangle
    rw [hb]
    apply V3.ext <;> simp only [V3.smul, V3.sdiv] <;> ring
  have hax := sdiv_dot_self (quatNormalized e).vec e.sL hsL' hL2
  have hrr : (rotationMat2Vec e).dot (rotationMat2Vec e) = (2 * e.ac) * (2 * e.ac) := by
    rw [hr]
    have : (V3.smul (2 * e.ac) ((quatNormalized e).vec.sdiv e.sL)).dot
        (V3.smul (2 * e.ac) ((quatNormalized e).vec.sdiv e.sL))
        = (2 * e.ac) * (2 * e.ac) * (((quatNormalized e).vec.sdiv e.sL).dot ((quatNormalized e).vec.sdiv e.sL)) := by
      simp only [V3.dot, V3.smul]; ring
    rw [this, hax]; ring
  have hth : g.theta = 2 * e.ac := by
    have h2 : (g.theta - 2 * e.ac) * (g.theta + 2 * e.ac) = 0 := by rw [hrr] at hθ; linear_combination hθ
    rcases mul_eq_zero.mp h2 with h | h
    · linarith
    · have := A.ac_nonneg; have := lt_trans smallAngle_pos hsmall; linarith
  have hθne : g.theta ≠ 0 := ne_of_gt (lt_trans smallAngle_pos hsmall)
  have hdiv : (rotationMat2Vec e).sdiv g.theta = (quatNormalized e).vec.sdiv e.sL := by
    rw [hr, ← hth]
    apply V3.ext <;> simp only [V3.smul, V3.sdiv] <;> field_simp
  unfold rotationVec2Mat
  rw [if_neg (not_lt.mpr hbig), if_pos hsmall, hdiv, hs, hc, hsh, hch,
    rodrigues_half (quatNormalized e).vec (quatNormalized e).w e.sL hsL' hL2 hunit]
  exact hmat

/-- the branch of `quat2axangle` that returns the zero angle (`len2` below the identity
    threshold `(3 eps)²`): the zero vector comes back, `rotation_vec2mat` of it is exactly the
    identity, and `R` itself is within `‖R − I‖_F² = 8·len2 < 8·(3 eps)²` of the identity — the
    round trip reproduces `R` up to that explicit bound (about `1.9e-15` per entry). -/
theorem mat2vec_identity_branch (R : M3) (hR : R.IsRotation) (e : QExt) (C : Mat2VecCert R e)
    (hb : qBranch e = .ident) (g : Trig) (hg : g.theta = 0) :
    rotationMat2Vec e = V3.zero ∧ rotationVec2Mat (rotationMat2Vec e) g = M3.one ∧
    (R.a11 - 1) ^ 2 + R.a12 ^ 2 + R.a13 ^ 2 + R.a21 ^ 2 + (R.a22 - 1) ^ 2 + R.a23 ^ 2
      + R.a31 ^ 2 + R.a32 ^ 2 + (R.a33 - 1) ^ 2 = 8 * e.len2 ∧
    e.len2 < identityThresh * identityThresh := by
  have hv : rotationMat2Vec e = V3.zero := by
    unfold rotationMat2Vec quat2axangle; rw [hb]; apply V3.ext <;> simp [V3.zero]
  obtain ⟨hn, hmat, _⟩ := quatNormalized_spec R hR e C
  refine ⟨hv, ?_, ?_, ?_⟩
  · rw [hv]; unfold rotationVec2Mat
    have h1 : ¬ g.theta > maxAngle := by
      rw [hg]; unfold maxAngle Gen.C08.maxAngle; norm_num
    have h2 : ¬ g.theta > smallAngle := by rw [hg]; exact not_lt.mpr (le_of_lt smallAngle_pos)
    rw [if_neg h1, if_neg h2, hg]
    unfold taylorRot
    apply M3.ext <;> m3_simp <;> norm_num
  · rw [C.len2, ← hmat]
    simp only [Q4.normSq, Q4.dot] at hn
    simp only [Q4.toMat, Q4.vec, V3.dot]
    generalize (quatNormalized e).w = w at *
    generalize (quatNormalized e).x = x at *
    generalize (quatNormalized e).y = y at *
    generalize (quatNormalized e).z = z at *
    have hw : w * w = 1 - x * x - y * y - z * z := by linarith
    have e1 : w * w + x * x - y * y - z * z - 1 = -2 * (y * y + z * z) := by linarith
    have e2 : w * w - x * x + y * y - z * z - 1 = -2 * (x * x + z * z) := by linarith
    have e3 : w * w - x * x - y * y + z * z - 1 = -2 * (x * x + y * y) := by linarith
    rw [e1, e2, e3]
    linear_combination (8 * (x * x + y * y + z * z)) * hw
  · unfold qBranch at hb
    split_ifs at hb with h1 h2
    exact h2


/-- *Rotation vector → matrix → vector returns the vector modulo 2π.*  Let `r = θ·n` with unit
    axis `n` and half-angle data `(ch₀, sh₀) = (cos θ/2, sin θ/2)`, so that
    `rotation_vec2mat(r) = rodrigues n (2 sh₀ ch₀) (ch₀² − sh₀²)`.  For every certified run of
    `rotation_mat2vec` on that matrix (axis branch) the result is `φ·n` with `φ = ±2·acos(…)`
    and the half-angle point of `φ` is `±(ch₀, sh₀)`: i.e. `φ ≡ θ (mod 2π)` along the same axis. -/
theorem mat2vec_vec2mat (n : V3) (hn : n.dot n = 1) (ch0 sh0 : Rat) (h0 : ch0 * ch0 + sh0 * sh0 = 1)
    (e : QExt) (C : Mat2VecCert (rodrigues n (2 * sh0 * ch0) (ch0 * ch0 - sh0 * sh0)) e)
    (hb : qBranch e = .axis) (ch sh : Rat) (A : AcosCert e ch sh) :
    ∃ σ τ : Rat, (σ = 1 ∨ σ = -1) ∧ (τ = 1 ∨ τ = -1) ∧
      rotationMat2Vec e = V3.smul (σ * (2 * e.ac)) n ∧ ch = τ * ch0 ∧ σ * sh = τ * sh0 := by
  set R := rodrigues n (2 * sh0 * ch0) (ch0 * ch0 - sh0 * sh0) with hRdef
  have hR : R.IsRotation := by
    apply rodrigues_proper n _ _ hn
    linear_combination (ch0 * ch0 + sh0 * sh0 + 1) * h0
  obtain ⟨hsL, hch, hsh, hunit⟩ := axis_branch_facts R hR e C hb ch sh A
  obtain ⟨hnq, hmat, _⟩ := quatNormalized_spec R hR e C
  have hsL' : e.sL ≠ 0 := ne_of_gt hsL
  have hL2 : e.sL * e.sL = (quatNormalized e).vec.dot (quatNormalized e).vec := by rw [C.sL.1, C.len2]
  -- the quaternion (ch0, sh0 n) of R
  set p0 : Q4 := ⟨ch0, sh0 * n.x, sh0 * n.y, sh0 * n.z⟩ with hp0
  have hp0mat : p0.toMat = R := by
    rw [hRdef, rodrigues_half_axis n ch0 sh0 hn h0]
  have hp0n : p0.normSq = 1 := by
    simp only [hp0, Q4.normSq, Q4.dot]; simp only [V3.dot] at hn
    linear_combination h0 + (sh0 * sh0) * hn
  -- qn = τ p0
  set qn := quatNormalized e with hqn
  have hk1 : kApply R qn = qn := by
    apply kApply_quat R qn (by rw [hnq]; norm_num)
    rw [hmat, hnq]; apply M3.ext <;> m3_simp <;> ring
  have hk2 := kApply_toMat p0 qn
  rw [hp0mat, hk1, hp0n] at hk2
  set τ : Rat := p0.dot qn with hτ
  have hqτ : qn = Q4.smul τ p0 := by
    have hw := congrArg Q4.w hk2; have hx := congrArg Q4.x hk2
    have hy := congrArg Q4.y hk2; have hz := congrArg Q4.z hk2
    simp only [Q4.smul, Q4.sub] at hw hx hy hz
    apply Q4.ext <;> simp only [Q4.smul] <;> linarith
  have hτ2 : τ * τ = 1 := by
    have := hnq; rw [hqτ, Q4.normSq_smul, hp0n] at this; linarith
  have hτpm : τ = 1 ∨ τ = -1 := by
    have : (τ - 1) * (τ + 1) = 0 := by linear_combination hτ2
    rcases mul_eq_zero.mp this with h | h
    · left; linarith
    · right; linarith
  have hqw : qn.w = τ * ch0 := by rw [hqτ]; rfl
  have hqv : qn.vec = V3.smul (τ * sh0) n := by
    rw [hqτ]; apply V3.ext <;> simp only [Q4.vec, Q4.smul, V3.smul, hp0] <;> ring
  have hsL2 : e.sL * e.sL = sh0 * sh0 := by
    rw [hL2, hqv]; simp only [V3.dot, V3.smul] at hn ⊢
    linear_combination (τ * τ * sh0 * sh0) * hn + (sh0 * sh0) * hτ2
  set σ : Rat := τ * sh0 / e.sL with hσ
  have hσ2 : σ * σ = 1 := by
    rw [hσ]; field_simp; linear_combination (sh0 * sh0) * hτ2 - hsL2
  have hσpm : σ = 1 ∨ σ = -1 := by
    have : (σ - 1) * (σ + 1) = 0 := by linear_combination hσ2
    rcases mul_eq_zero.mp this with h | h
    · left; linarith
    · right; linarith
  refine ⟨σ, τ, hσpm, hτpm, ?_, by rw [hch, hqw], ?_⟩
  · unfold rotationMat2Vec quat2axangle
    rw [hb]
    simp only [← hqn, hqv]
    apply V3.ext <;> simp only [V3.smul, V3.sdiv, hσ] <;> field_simp
  · rw [hsh, hσ]; field_simp


/-- the round trip from its bundled certificates -/
theorem roundtrip_of_cert (R : M3) (hR : R.IsRotation) (e : QExt) (g : Trig) (ch sh : Rat)
    (C : RoundTripCert R e g ch sh) :
    rotationVec2Mat (rotationMat2Vec e) g = R :=
  vec2mat_mat2vec R hR e C.leaves C.axis ch sh C.acos g C.norm C.sin2 C.cos2 C.small C.big

/-! ## 4×4 matrix → transform → 4×4 matrix within each class, `from_matrix44` in full -/

/-- *Converting a transform to a 4×4 matrix and back within its own class reproduces the same
    mapping (including reflections)* — `Affine` / `Affine2D`.  For every 4×4 matrix `A`, every
    certified SVD of its linear part (`A = U·diag(s)·Vt`, `U`, `Vt` orthogonal, of either
    determinant sign), certified leaves of the two `rotation_mat2vec` calls on the sign-fixed
    factors, `exp(log s) = s`, and a translation below `MAX_DIST`:
    `as_affine()` of the transform built by `from_matrix44(A)` is `A`. -/
theorem from_to_matrix44 (A : Aff) (e : F44Ext) (x : Ext)
    (hsvd : A.m = e.U.mul ((M3.diag e.s).mul e.Vt))
    (hU : e.U.transpose.mul e.U = M3.one) (hV : e.Vt.transpose.mul e.Vt = M3.one)
    (hbx : -maxDist ≤ A.t.x ∧ A.t.x ≤ maxDist) (hby : -maxDist ≤ A.t.y ∧ A.t.y ≤ maxDist)
    (hbz : -maxDist ≤ A.t.z ∧ A.t.z ≤ maxDist)
    (chR shR chQ shQ : Rat)
    (CR : RoundTripCert (svdFix true e.U e.Vt).R e.eR x.rot chR shR)
    (CQ : RoundTripCert (svdFix true e.U e.Vt).Q e.eQ x.pre chQ shQ)
    (hs : x.scales = e.s) :
    asAffine (affineFrom44 true A e).1 (affineFrom44 true A e).2 x = A := by
  obtain ⟨hRr, hQr⟩ := svdFix_proper e.U e.Vt true hU hV
  apply from_to_matrix44_partial A e.U e.Vt e.s hsvd _ x rfl hbx hby hbz
  · exact roundtrip_of_cert _ hRr e.eR x.rot chR shR CR
  · exact roundtrip_of_cert _ hQr e.eQ x.pre chQ shQ CQ
  · exact hs

/-- the same for `Rigid` / `Rigid2D`: every 4×4 matrix with an orthogonal linear part of either
    determinant sign (a rotation or a rotation followed by the point reflection). -/
theorem rigid_from_to_matrix44 (A : Aff) (e : F44Ext) (x : Ext)
    (horth : A.m.transpose.mul A.m = M3.one)
    (hbx : -maxDist ≤ A.t.x ∧ A.t.x ≤ maxDist) (hby : -maxDist ≤ A.t.y ∧ A.t.y ≤ maxDist)
    (hbz : -maxDist ≤ A.t.z ∧ A.t.z ≤ maxDist)
    (chR shR : Rat) (CR : RoundTripCert (rigidFix true A.m).1 e.eR x.rot chR shR)
    (hs : x.scales = ⟨1, 1, 1⟩) (hpre : x.pre.theta = 0) :
    asAffine (rigidFrom44 true A e).1 (rigidFrom44 true A e).2 x = A := by
  obtain ⟨hsound, hrot⟩ := rigidFix_sound A.m
  have hR := roundtrip_of_cert _ (hrot horth) e.eR x.rot chR shR CR
  have htr : thresholdV A.t maxDist = A.t := by
    unfold thresholdV
    rw [threshold_id _ _ hbx.1 hbx.2, threshold_id _ _ hby.1 hby.2, threshold_id _ _ hbz.1 hbz.2]
  have hT : toMatrix44 (rigidFrom44 true A e).1 x = ⟨(rigidFix true A.m).1, A.t⟩ := by
    unfold toMatrix44 rigidFrom44
    have h1 : (mkVec12 A.t (rotationMat2Vec e.eR) V3.zero V3.zero).rotation = rotationMat2Vec e.eR := rfl
    have h2 : (mkVec12 A.t (rotationMat2Vec e.eR) V3.zero V3.zero).preRotation = V3.zero := rfl
    have h3 : (mkVec12 A.t (rotationMat2Vec e.eR) V3.zero V3.zero).translation = A.t := rfl
    simp only [h1, h2, h3, hR, rotationVec2Mat_zero x.pre hpre, hs, M3.diag_one_mul, M3.mul_one, M3.mul_diag_one, htr]
  unfold asAffine
  rw [hT]
  have hflag : (rigidFrom44 true A e).2 = (rigidFix true A.m).2 := rfl
  rw [hflag]
  cases hd : (rigidFix true A.m).2
  · simp only [hd, Bool.false_eq_true, if_false] at hsound ⊢
    rw [hsound]
  · simp only [hd, if_true] at hsound ⊢
    rw [hsound]

/-- the same for `Similarity` / `Similarity2D`: every 4×4 matrix whose linear part is `±c` times
    an orthogonal matrix (`c > 0` the supplied cube root of `|det|`), with `exp(log c) = c`. -/
theorem similarity_from_to_matrix44 (A : Aff) (e : F44Ext) (x : Ext)
    (hc : 0 < e.cbrt) (horth : (A.m.sdiv e.cbrt).transpose.mul (A.m.sdiv e.cbrt) = M3.one)
    (hbx : -maxDist ≤ A.t.x ∧ A.t.x ≤ maxDist) (hby : -maxDist ≤ A.t.y ∧ A.t.y ≤ maxDist)
    (hbz : -maxDist ≤ A.t.z ∧ A.t.z ≤ maxDist)
    (chR shR : Rat) (CR : RoundTripCert (simFix true A.m e.cbrt).1 e.eR x.rot chR shR)
    (hs : x.scales = ⟨e.cbrt, e.cbrt, e.cbrt⟩) (hpre : x.pre.theta = 0) :
    asAffine (simFrom44 true A e).1 (simFrom44 true A e).2 x = A := by
  have hc' : e.cbrt ≠ 0 := ne_of_gt hc
  have hc3 : 0 < e.cbrt ^ 3 := by positivity
  have hsound := simFix_sound A.m e.cbrt hc'
  -- the kept factor is a proper rotation
  have hrot : M3.IsRotation (simFix true A.m e.cbrt).1 := by
    have hdet := orth_det _ horth
    rw [M3.det_sdiv _ _ hc'] at hdet
    unfold simFix
    by_cases h : A.m.det < 0
    · simp only [h, if_true]
      rw [M3.neg_sdiv]
      refine ⟨orth_neg _ horth, ?_⟩
      rw [M3.det_neg, M3.det_sdiv _ _ hc']
      rcases hdet with h1 | h1
      · exfalso
        have : A.m.det = e.cbrt ^ 3 := by field_simp at h1; linarith
        linarith
      · linarith
    · simp only [h, if_false]
      refine ⟨horth, ?_⟩
      rw [M3.det_sdiv _ _ hc']
      rcases hdet with h1 | h1
      · exact h1
      · exfalso
        have : A.m.det = -e.cbrt ^ 3 := by field_simp at h1; linarith
        linarith
  have hR := roundtrip_of_cert _ hrot e.eR x.rot chR shR CR
  have htr : thresholdV A.t maxDist = A.t := by
    unfold thresholdV
    rw [threshold_id _ _ hbx.1 hbx.2, threshold_id _ _ hby.1 hby.2, threshold_id _ _ hbz.1 hbz.2]
  have hT : toMatrix44 (simFrom44 true A e).1 x = ⟨M3.smul e.cbrt (simFix true A.m e.cbrt).1, A.t⟩ := by
    unfold toMatrix44 simFrom44
    have h1 : (mkVec12 A.t (rotationMat2Vec e.eR) ⟨e.logs.x, e.logs.x, e.logs.x⟩ V3.zero).rotation
        = rotationMat2Vec e.eR := rfl
    have h2 : (mkVec12 A.t (rotationMat2Vec e.eR) ⟨e.logs.x, e.logs.x, e.logs.x⟩ V3.zero).preRotation
        = V3.zero := rfl
    have h3 : (mkVec12 A.t (rotationMat2Vec e.eR) ⟨e.logs.x, e.logs.x, e.logs.x⟩ V3.zero).translation
        = A.t := rfl
    simp only [h1, h2, h3, hR, rotationVec2Mat_zero x.pre hpre, hs, M3.mul_diag_smul, htr]
  unfold asAffine
  rw [hT]
  have hflag : (simFrom44 true A e).2 = (simFix true A.m e.cbrt).2 := rfl
  rw [hflag]
  cases hd : (simFix true A.m e.cbrt).2
  · simp only [hd, Bool.false_eq_true, if_false] at hsound ⊢
    rw [hsound]
  · simp only [hd, if_true] at hsound ⊢
    rw [hsound]


/-- the eigenvalue selected by `np.argmax(vals)` is 1 and its eigenvector is a quaternion of `R`:
    the spectrum of the `mat2quat` matrix of a proper rotation is `{1, −1/3}` -/
theorem mat2quat_spectrum (R : M3) (hR : R.IsRotation) (v : Q4) (μ : Rat) (hv : v ≠ Q4.zero)
    (h : kApply R v = Q4.smul μ v) :
    (μ = 1 ∨ μ = -1 / 3) ∧ (μ = 1 → v.toMat = M3.smul v.normSq R) := by
  refine ⟨kApply_eigenvalues R hR v μ hv h, fun h1 => ?_⟩
  exact eig_is_quat R hR v μ h (by rw [h1]; norm_num)

/-! ## `to_matrix44(t)` for every size -/

/-- sizes 12 and more: the general model agrees with the 12-parameter `to_matrix44` (extra
    entries are ignored) and never refuses -/
theorem toMatrix44N_full (t : List Rat) (e : Ext) (h : 12 ≤ t.length) :
    toMatrix44N t e = .ok (toMatrix44 (Vec12.ofFn (fun i => t.getD i 0)) e) := by
  have h3 : ((t.drop 3).take 3).length = 3 := by simp; omega
  have h9 : ((t.drop 9).take 3).length = 3 := by simp; omega
  have hr : v3OfList ((t.drop 3).take 3) = (Vec12.ofFn (fun i => t.getD i 0)).rotation := by
    apply V3.ext <;> simp [v3OfList, Vec12.ofFn, Vec12.rotation, List.getD, List.getElem?_take, List.getElem?_drop]
  have hq : v3OfList ((t.drop 9).take 3) = (Vec12.ofFn (fun i => t.getD i 0)).preRotation := by
    apply V3.ext <;> simp [v3OfList, Vec12.ofFn, Vec12.preRotation, List.getD, List.getElem?_take, List.getElem?_drop]
  have ht : v3OfList t = (Vec12.ofFn (fun i => t.getD i 0)).translation := by
    apply V3.ext <;> simp [v3OfList, Vec12.ofFn, Vec12.translation]
  have rs : ∀ (r : List Rat) (g : Trig), r.length = 3 → rotSlice r g = .ok (rotationVec2Mat (v3OfList r) g) := by
    intro r g hl
    unfold rotSlice rotationVec2Mat
    split_ifs with h1 h2 <;> first | rfl | omega
  unfold toMatrix44N
  rw [rs _ _ h3, rs _ _ h9]
  have n6 : t.length ≠ 6 := by omega
  have n7 : t.length ≠ 7 := by omega
  have n9 : ¬ t.length < 9 := by omega
  simp only [bind, Except.bind, pure, Except.pure, n6, n7, n9, if_false, hr, hq, ht, toMatrix44]

/-- sizes below 6 are always refused (the rotation slice is too short, or — above `MAX_ANGLE` —
    the empty pre-rotation slice is) -/
theorem toMatrix44N_short_refused (t : List Rat) (e : Ext) (h : t.length < 6) (hpre : e.pre.theta = 0) :
    toMatrix44N t e = .error "error:indexError" := by
  have h3 : ((t.drop 3).take 3).length < 3 := by simp; omega
  have h9 : ((t.drop 9).take 3).length < 3 := by simp; omega
  have hq : rotSlice ((t.drop 9).take 3) e.pre = .error "error:indexError" := by
    unfold rotSlice
    have h1 : ¬ e.pre.theta > maxAngle := by rw [hpre]; unfold maxAngle Gen.C08.maxAngle; norm_num
    rw [if_neg h1, if_pos h9]
  have n6 : t.length ≠ 6 := by omega
  have n7 : t.length ≠ 7 := by omega
  unfold toMatrix44N
  by_cases hth : e.rot.theta > maxAngle
  · have : rotSlice ((t.drop 3).take 3) e.rot = .ok M3.one := by unfold rotSlice; rw [if_pos hth]
    simp only [this, hq, bind, Except.bind, n6, n7, if_false]
  · have : rotSlice ((t.drop 3).take 3) e.rot = .error "error:indexError" := by
      unfold rotSlice; rw [if_neg hth, if_pos h3]
    simp only [this, bind, Except.bind]

/-- size 6 (translation + rotation): a proper rigid motion for consistent angle data -/
theorem toMatrix44N_six (t : List Rat) (e : Ext) (h : t.length = 6)
    (hθ : e.rot.theta * e.rot.theta = (v3OfList ((t.drop 3).take 3)).dot (v3OfList ((t.drop 3).take 3)))
    (hsc : e.rot.s * e.rot.s + e.rot.c * e.rot.c = 1) (hbig : smallAngle < e.rot.theta) :
    ∃ T, toMatrix44N t e = .ok T ∧ M3.IsRotation T.m ∧ T.t = thresholdV (v3OfList t) maxDist := by
  have h3 : ¬ ((t.drop 3).take 3).length < 3 := by simp; omega
  refine ⟨⟨rotationVec2Mat (v3OfList ((t.drop 3).take 3)) e.rot, thresholdV (v3OfList t) maxDist⟩, ?_,
    rotationVec2Mat_proper _ _ hθ hsc hbig, rfl⟩
  unfold toMatrix44N rotSlice rotationVec2Mat
  split_ifs with h1 <;> simp [bind, Except.bind, pure, Except.pure, h]

/-- `as_affine(dtype=int)` stores truncated entries: truncation is towards zero and within one -/
theorem truncRat_spec (x : Rat) : (truncRat x).den = 1 ∧
    (0 ≤ x → truncRat x ≤ x ∧ x < truncRat x + 1) ∧ (x < 0 → x ≤ truncRat x ∧ truncRat x - 1 < x) := by
  unfold truncRat
  refine ⟨?_, ?_, ?_⟩
  · split_ifs <;> simp
  · intro h0
    rw [if_neg (not_lt.mpr h0)]
    have h2 := Rat.lt_floor_add_one x
    push_cast at h2
    exact ⟨Rat.floor_le x, h2⟩
  · intro h0
    rw [if_pos h0]
    have h1 := Rat.floor_le (-x)
    have h2 := Rat.lt_floor_add_one (-x)
    push_cast at h2
    constructor <;> linarith

/-! ## `slices2aff` / `subgrid_affine` -/

/-- the list model of `slices2aff` for three slices is the structured affine `diag(step) | start` -/
theorem slices2aff_three (b0 b1 b2 s0 s1 s2 : Rat) :
    slices2aff [(some b0, some s0), (some b1, some s1), (some b2, some s2)]
      = (slicesAff3 ⟨b0, b1, b2⟩ ⟨s0, s1, s2⟩).toM44 := by
  simp [slices2aff, slicesAff3, Aff.toM44, M3.diag, List.range, List.range.loop]

/-- `subgrid_affine(A, slices)` maps the index `i` of the sub-grid to what `A` maps the index
    `start + step·i` of the full grid to -/
theorem subgrid_affine_apply (A : Aff) (start step i : V3) :
    (A.mul (slicesAff3 start step)).apply i
      = A.apply ⟨start.x + step.x * i.x, start.y + step.y * i.y, start.z + step.z * i.z⟩ := by
  rw [Aff.apply_mul]
  congr 1
  apply V3.ext <;> simp only [slicesAff3] <;> m3_simp <;> ring

/-- `None` start / step mean 0 / 1: `slices2aff([slice(None)] * 3)` is the identity -/
theorem slices2aff_default : slices2aff [(none, none), (none, none), (none, none)] = Aff.one.toM44 := by
  simp [slices2aff, Aff.toM44, Aff.one, M3.one, V3.zero, List.range, List.range.loop]

/-! ## Objects under operation histories -/

/-- a history is executed operation by operation: running `ops₁ ++ ops₂` is running `ops₂` on the
    object `ops₁` left behind (no hidden state besides `_vec12`, `_direct`, `_precond`) -/
theorem hist_append (o : Obj) (a b : List Op) :
    (o.run (a ++ b)) = ((o.run a).1 ++ ((o.run a).2.run b).1, ((o.run a).2.run b).2) := by
  induction a generalizing o with
  | nil => simp [Obj.run]
  | cons op rest ih =>
      simp only [List.cons_append, Obj.run]
      cases hs : o.step op with
      | ok o' => simp only [ih o', List.cons_append]
      | error m => simp only [ih o, List.cons_append]

/-- the class and the preconditioner never change along a history -/
theorem hist_invariants (o : Obj) (ops : List Op) :
    (o.run ops).2.cls = o.cls ∧ (o.run ops).2.pc = o.pc := by
  induction ops generalizing o with
  | nil => simp [Obj.run]
  | cons op rest ih =>
      simp only [Obj.run]
      cases hs : o.step op with
      | error m => exact ih o
      | ok o' =>
          have hinv : o'.cls = o.cls ∧ o'.pc = o.pc := by
            cases op <;> simp only [Obj.step, bind, Except.bind, pure, Except.pure] at hs
            case setParam p =>
              cases h : setParam o.cls o.v o.pc p <;> simp [h] at hs; subst hs; exact ⟨rfl, rfl⟩
            case setTrans x => cases h : bcast3 x <;> simp [h] at hs; subst hs; exact ⟨rfl, rfl⟩
            case setRot x => cases h : bcast3 x <;> simp [h] at hs; subst hs; exact ⟨rfl, rfl⟩
            case setScal x => cases h : bcast3 x <;> simp [h] at hs; subst hs; exact ⟨rfl, rfl⟩
            case setPre x => cases h : bcast3 x <;> simp [h] at hs; subst hs; exact ⟨rfl, rfl⟩
            case from44 A e => simp at hs; subst hs; exact ⟨rfl, rfl⟩
            case copy => simp at hs; subst hs; exact ⟨rfl, rfl⟩
            case pickle => simp at hs; subst hs; exact ⟨rfl, rfl⟩
            case inv x e =>
              cases h : (asAffine o.v o.direct x).inv <;> simp [h] at hs
              subst hs; exact ⟨rfl, rfl⟩
          obtain ⟨h1, h2⟩ := ih o'
          exact ⟨h1.trans hinv.1, h2.trans hinv.2⟩

/-- the four property setters write disjoint slots: each one installs its value and leaves the
    other three groups alone -/
theorem setTriple_groups (v : Vec12) (x : V3) :
    ((v.setTriple 0 x).translation = x ∧ (v.setTriple 0 x).rotation = v.rotation ∧
      (v.setTriple 0 x).logScale = v.logScale ∧ (v.setTriple 0 x).preRotation = v.preRotation) ∧
    ((v.setTriple 3 x).rotation = x ∧ (v.setTriple 3 x).translation = v.translation ∧
      (v.setTriple 3 x).logScale = v.logScale ∧ (v.setTriple 3 x).preRotation = v.preRotation) ∧
    ((v.setTriple 6 x).logScale = x ∧ (v.setTriple 6 x).translation = v.translation ∧
      (v.setTriple 6 x).rotation = v.rotation ∧ (v.setTriple 6 x).preRotation = v.preRotation) ∧
    ((v.setTriple 9 x).preRotation = x ∧ (v.setTriple 9 x).translation = v.translation ∧
      (v.setTriple 9 x).rotation = v.rotation ∧ (v.setTriple 9 x).logScale = v.logScale) := by
  refine ⟨⟨?_, ?_, ?_, ?_⟩, ⟨?_, ?_, ?_, ?_⟩, ⟨?_, ?_, ?_, ?_⟩, ⟨?_, ?_, ?_, ?_⟩⟩ <;> rfl

/-- a later assignment of a full parameter vector overwrites an earlier one entirely: the state
    depends on the *current* parameters only -/
theorem setParam_overwrite (c : Cls) (v pc : Vec12) (p p' : List Rat)
    (hp : p.length = (paramInds c).length) (hp' : p'.length = (paramInds c).length) :
    ∃ w w', setParam c v pc p = .ok w ∧ setParam c w pc p' = .ok w' ∧ setParam c v pc p' = .ok w' := by
  cases c <;>
    simp only [paramInds, Gen.C08.indsAffine, Gen.C08.indsAffine2D, Gen.C08.indsRigid, Gen.C08.indsRigid2D,
      Gen.C08.indsSimilarity, Gen.C08.indsSimilarity2D, List.length_cons, List.length_nil] at hp hp' <;>
    simp [setParam, fancySet, paramInds, setPairs, hp, hp', assign, Vec12.set, List.zip, List.range,
      List.range.loop, Gen.C08.indsAffine, Gen.C08.indsAffine2D, Gen.C08.indsRigid, Gen.C08.indsRigid2D,
      Gen.C08.indsSimilarity, Gen.C08.indsSimilarity2D, Gen.C08.simTargets, Gen.C08.simSources,
      Gen.C08.sim2dTargets, Gen.C08.sim2dSources]

/-- `from_matrix44` replaces the 12 parameters by values that do not depend on the previous ones,
    and only ever *clears* the reflection flag (a set flag is never restored) -/
theorem from44_state (o : Obj) (A : Aff) (e : F44Ext) :
    ∃ o', o.step (.from44 A e) = .ok o' ∧ o'.v = (fromMatrix44 o.cls true A e).1 ∧
      (o'.direct = true → o.direct = true) := by
  refine ⟨_, rfl, ?_, ?_⟩
  · simp only [fromMatrix44]; split <;> rfl
  · simp only [fromMatrix44]
    split <;> simp only [affineFrom44, rigidFrom44, simFrom44, svdFix, rigidFix, simFix] <;>
      split_ifs <;> simp

/-- `pickle.loads(pickle.dumps(t))` and `t.copy()` are neutral at any place of a history: the state
    (and so every later observation) is that of the history without them -/
theorem hist_pickle_copy_neutral (o : Obj) (a b : List Op) :
    (o.run (a ++ .pickle :: b)).2 = (o.run (a ++ b)).2 ∧ (o.run (a ++ .copy :: b)).2 = (o.run (a ++ b)).2 := by
  constructor <;>
  · rw [hist_append, hist_append o a b]
    simp only [Obj.run, Obj.step, pure, Except.pure]

/-- `t = t.inv()` inside a history, for the classes that decompose through the SVD (`Affine`,
    `Affine2D`): whenever the current matrix is invertible the step is accepted, keeps class and
    preconditioner, forgets the integer storage, and — for certified leaves of the new
    `from_matrix44` call (as in `from_to_matrix44`) — the new object's `as_affine()` is the exact
    inverse of the old one, so it maps transformed points back; the reflection flag of the result
    does not depend on the flag history of the old object (a fresh object takes the matrix). -/
theorem hist_inv_affine (o : Obj) (hk : fromKind o.cls = 0) (x x' : Ext) (e : F44Ext) (B : Aff)
    (hB : (asAffine o.v o.direct x).inv = some B)
    (hsvd : B.m = e.U.mul ((M3.diag e.s).mul e.Vt))
    (hU : e.U.transpose.mul e.U = M3.one) (hV : e.Vt.transpose.mul e.Vt = M3.one)
    (hbx : -maxDist ≤ B.t.x ∧ B.t.x ≤ maxDist) (hby : -maxDist ≤ B.t.y ∧ B.t.y ≤ maxDist)
    (hbz : -maxDist ≤ B.t.z ∧ B.t.z ≤ maxDist)
    (chR shR chQ shQ : Rat)
    (CR : RoundTripCert (svdFix true e.U e.Vt).R e.eR x'.rot chR shR)
    (CQ : RoundTripCert (svdFix true e.U e.Vt).Q e.eQ x'.pre chQ shQ)
    (hs : x'.scales = e.s) :
    ∃ o', o.step (.inv x e) = .ok o' ∧ o'.cls = o.cls ∧ o'.pc = o.pc ∧ o'.ints = false ∧
      asAffine o'.v o'.direct x' = B ∧
      ∀ p, (asAffine o'.v o'.direct x').apply ((asAffine o.v o.direct x).apply p) = p := by
  have hf : fromMatrix44 o.cls true B e = affineFrom44 true B e := by
    simp only [fromMatrix44, hk]
  have hrt := from_to_matrix44 B e x' hsvd hU hV hbx hby hbz chR shR chQ shQ CR CQ hs
  refine ⟨{ o with v := (fromMatrix44 o.cls true B e).1, direct := (fromMatrix44 o.cls true B e).2, ints := false },
    ?_, rfl, rfl, rfl, ?_, ?_⟩
  · simp only [Obj.step, hB, pure, Except.pure]
  · simp only [hf]; exact hrt
  · intro p
    simp only [hf, hrt]
    exact (apply_inv _ B hB p).1

/-- a fresh transform of any class and radius is the identity map -/
theorem fresh_is_identity (c : Cls) (radius : Rat) (e : Ext) (hr : e.rot.theta = 0) (hq : e.pre.theta = 0)
    (hs : e.scales = ⟨1, 1, 1⟩) :
    asAffine (Obj.fresh c radius).v (Obj.fresh c radius).direct e = Aff.one := by
  have hmax : (0 : Rat) ≤ maxDist := by unfold maxDist Gen.C08.maxDist; norm_num
  have ht : threshold 0 maxDist = 0 := threshold_id 0 maxDist (by linarith) hmax
  simp only [Obj.fresh, asAffine, toMatrix44, if_true]
  have h1 : Vec12.zero.rotation = V3.zero := rfl
  have h2 : Vec12.zero.preRotation = V3.zero := rfl
  have h3 : Vec12.zero.translation = V3.zero := rfl
  rw [h1, h2, h3, rotationVec2Mat_zero _ hr, rotationVec2Mat_zero _ hq, hs, M3.diag_one_mul, M3.mul_one]
  simp only [thresholdV, V3.zero, ht, Aff.one]

/-- `Affine(array)`: twelve numbers are a parameter vector whatever their shape -/
theorem construct_size12 (c : Cls) (radius : Rat) (ints : Bool) (shape shape' : List Nat) (data : List Rat)
    (e e' : F44Ext) (h : data.length = 12) :
    construct c radius (.arr ints shape data) e = construct c radius (.arr ints shape' data) e' := by
  simp [construct, h]

/-! ## `ChainTransform` -/

/-- construction succeeds exactly when the optimisable part exposes `param` (an affine-family
    transform) and neither `pre` nor `post` is an array `Affine(...)` refuses -/
theorem chainInit_ok_iff (opt pre post : Side) :
    (∃ r, chainInit opt pre post = .ok r) ↔
      ((∃ x, opt = .xf x true) ∧ pre ≠ .badArr ∧ post ≠ .badArr) := by
  constructor
  · rintro ⟨r, h⟩
    cases opt <;> simp only [chainInit] at h <;> try (simp at h)
    case xf x b =>
      cases b <;> simp only [chainInit] at h <;> try (simp at h)
      refine ⟨⟨x, rfl⟩, ?_, ?_⟩
      · rintro rfl; simp [bind, Except.bind] at h
      · rintro rfl; cases pre <;> simp [bind, Except.bind] at h
  · rintro ⟨⟨x, rfl⟩, h1, h2⟩
    cases pre <;> cases post <;> simp_all [chainInit, bind, Except.bind, pure, Except.pure]

/-- *the pre / optimisable / post chain maps points exactly as the product of its three parts*,
    with `None` meaning the identity and an array meaning the affine it holds -/
theorem chainInit_apply (opt pre post : Side) (x p q : Xf) (_h : chainInit opt pre post = .ok (x, p, q))
    (pt : V3) : chainApply p x q pt = q.app (x.app (p.app pt)) := chain_apply p x q pt

theorem chainInit_none (x : Xf) (pt : V3) :
    chainInit (.xf x true) .none .none = .ok (x, .aff .affine Aff.one, .aff .affine Aff.one) ∧
    chainApply (.aff .affine Aff.one) x (.aff .affine Aff.one) pt = x.app pt := by
  refine ⟨rfl, ?_⟩
  rw [chain_apply]
  simp only [Xf.app, Aff.apply_one]

/-! ## `PolyAffine` -/

/-- the Gaussian argument is a non-negative squared distance, zero at the centre, invariant
    under a common translation of point and centre -/
theorem gaussArg_props (x c t sig : V3) :
    0 ≤ gaussArg x c sig ∧ gaussArg c c sig = 0 ∧ gaussArg (x.add t) (c.add t) sig = gaussArg x c sig := by
  refine ⟨?_, ?_, ?_⟩
  · unfold gaussArg
    have h1 := mul_self_nonneg ((x.x - c.x) / sig.x)
    have h2 := mul_self_nonneg ((x.y - c.y) / sig.y)
    have h3 := mul_self_nonneg ((x.z - c.z) / sig.z)
    simp only []; linarith
  · simp [gaussArg]
  · simp only [gaussArg, V3.add]
    ring_nf

/-- *`apply` is a weighted affine combination*: with non-negative weights of positive total,
    the image of `y` is `Σ λᵢ·Tᵢ(y)` with `λᵢ = wᵢ / W ≥ 0` and `Σ λᵢ = 1` -/
theorem polyaffine_convex_combination (l : List (Rat × Aff)) (hw : ∀ wa ∈ l, 0 ≤ wa.1)
    (hW : 0 < wtotal l) (y : V3) :
    polyPoint l (wtotal l) y = combo (l.map (fun wa => (wa.1 / wtotal l, wa.2.apply y))) ∧
    (∀ wa ∈ l, 0 ≤ wa.1 / wtotal l) ∧ ((l.map (fun wa => wa.1 / wtotal l)).sum = 1) := by
  refine ⟨?_, ?_, ?_⟩
  · unfold polyPoint
    rw [wsum_apply, combo_sdiv, List.map_map]
    rfl
  · intro wa h; exact div_nonneg (hw wa h) (le_of_lt hW)
  · have : (l.map (fun wa => wa.1 / wtotal l)) = ((l.map (·.1)).map (· / wtotal l)) := by
      rw [List.map_map]; rfl
    rw [this, sum_div]
    exact div_self (ne_of_gt hW)

/-- hence the image lies in the convex hull of the `Tᵢ(y)`: in every half-space `a·v ≤ M`
    that contains all of them -/
theorem polyaffine_in_hull (l : List (Rat × Aff)) (hw : ∀ wa ∈ l, 0 ≤ wa.1) (hW : 0 < wtotal l)
    (y a : V3) (M : Rat) (hM : ∀ wa ∈ l, a.dot (wa.2.apply y) ≤ M) :
    a.dot (polyPoint l (wtotal l) y) ≤ M := by
  obtain ⟨h1, h2, h3⟩ := polyaffine_convex_combination l hw hW y
  rw [h1]
  have := dot_combo_le a M (l.map (fun wa => (wa.1 / wtotal l, wa.2.apply y)))
    (by intro cv hcv; obtain ⟨wa, hwa, rfl⟩ := List.mem_map.mp hcv; exact h2 wa hwa)
    (by intro cv hcv; obtain ⟨wa, hwa, rfl⟩ := List.mem_map.mp hcv; exact hM wa hwa)
  rw [List.map_map] at this
  have hs : (l.map ((fun x => x.1) ∘ fun wa => (wa.1 / wtotal l, wa.2.apply y))).sum = 1 := h3
  rw [hs] at this
  linarith

/-- equal local affines: the polyaffine is that affine, whatever the weights -/
theorem polyaffine_equal_affines (ws : List Rat) (a : Aff) (hW : ws.sum ≠ 0) (y : V3) :
    polyPoint (ws.map (fun w => (w, a))) ws.sum y = a.apply y := by
  have h : ∀ l : List Rat, wsum (l.map (fun w => (w, a))) = ⟨M3.smul l.sum a.m, V3.smul l.sum a.t⟩ := by
    intro l
    induction l with
    | nil =>
        simp only [List.map_nil, wsum, List.sum_nil]
        apply Aff.ext <;> [apply M3.ext; apply V3.ext] <;> m3_simp <;> ring
    | cons h t ih =>
        simp only [List.map_cons, wsum, ih, List.sum_cons]
        apply Aff.ext <;> [apply M3.ext; apply V3.ext] <;> m3_simp <;> ring
  unfold polyPoint
  rw [h ws]
  apply V3.ext <;> m3_simp <;> field_simp

/-- a single centre (any non-zero weight) gives that affine -/
theorem polyaffine_single (w : Rat) (a : Aff) (hw : w ≠ 0) (y : V3) :
    polyPoint [(w, a)] (wtotal [(w, a)]) y = a.apply y := by
  have h := polyaffine_equal_affines [w] a (by simpa using hw) y
  simpa [wtotal] using h

/-- `W < TINY ? TINY : W` leaves a total weight of at least `TINY` alone -/
theorem wClamp_id (w : Rat) (h : Gen.C08.tinyPoly ≤ w) : wClamp w = w := by
  unfold wClamp; rw [if_neg (not_lt.mpr h)]

/-- `PolyAffine.apply` of the full model (global affine, clamped normalisation): with
    non-negative weights whose total reaches `TINY`, the image of `x` is the convex combination
    `Σ (wᵢ / W)·Tᵢ(g x)` of the images of the globally transformed point under the local affines -/
theorem poly_apply_convex (P : Poly) (ws : List Rat) (x : V3) (hlen : ws.length = P.affs.length)
    (hw : ∀ w ∈ ws, 0 ≤ w) (hW : Gen.C08.tinyPoly ≤ ws.sum) (hpos : 0 < Gen.C08.tinyPoly) :
    P.applyW ws x = combo ((ws.zip P.affs).map (fun wa => (wa.1 / ws.sum, wa.2.apply (P.pre x)))) := by
  have ht : wtotal (ws.zip P.affs) = ws.sum := by
    unfold wtotal
    have : (ws.zip P.affs).map (·.1) = ws := by rw [List.map_fst_zip]; omega
    rw [this]
  have hw' : ∀ wa ∈ ws.zip P.affs, 0 ≤ wa.1 := by
    intro wa h; exact hw wa.1 (List.of_mem_zip h).1
  have h := (polyaffine_convex_combination (ws.zip P.affs) hw' (by rw [ht]; linarith) (P.pre x)).1
  simp only [Poly.applyW, wClamp_id _ hW]
  rw [ht] at h
  exact h

/-- `PolyAffine.compose(affine)` (with or without a global affine): the Gaussians are evaluated
    at, and the local affines applied to, the image of `x` under `other` -/
theorem poly_compose_full (P : Poly) (o : Aff) (ws : List Rat) (x : V3) :
    (P.compose o).applyW ws x = P.applyW ws (o.apply x) ∧ (P.compose o).args x = P.args (o.apply x) := by
  cases hg : P.glob <;> simp [Poly.compose, Poly.applyW, Poly.args, Poly.pre, hg, Aff.apply_mul]

/-- `PolyAffine.left_compose(affine)`: same Gaussians, and — the total weight not being clamped —
    `other` applied after the polyaffine -/
theorem poly_left_compose_full (P : Poly) (o : Aff) (ws : List Rat) (x : V3)
    (hlen : ws.length = P.affs.length) (hW : Gen.C08.tinyPoly ≤ ws.sum) (hpos : 0 < Gen.C08.tinyPoly) :
    (P.leftCompose o).applyW ws x = o.apply (P.applyW ws x) ∧ (P.leftCompose o).args x = P.args x := by
  refine ⟨?_, rfl⟩
  have hz : ws.zip (P.affs.map (fun a => o.mul a)) = (ws.zip P.affs).map (fun wa => (wa.1, o.mul wa.2)) := by
    rw [List.zip_map_right]; rfl
  have ht : wtotal (ws.zip P.affs) = ws.sum := by
    unfold wtotal
    have : (ws.zip P.affs).map (·.1) = ws := by
      rw [List.map_fst_zip]; omega
    rw [this]
  simp only [Poly.leftCompose, Poly.applyW, Poly.pre, wClamp_id _ hW, hz]
  rw [← ht]
  exact poly_left_compose o (ws.zip P.affs) (by rw [ht]; linarith) _

/-- the constructor refuses a number of local affines different from the number of centres -/
theorem poly_make_refuses (cs : List V3) (affs : List Aff) (sg : V3) (g : Option Aff)
    (h : affs.length ≠ cs.length) : ∃ m, Poly.make cs affs sg g = .error m := by
  unfold Poly.make
  split_ifs with h0
  · exact ⟨_, rfl⟩
  · exact ⟨_, rfl⟩


/-! ## What the parameter tables mean: class invariants of `as_affine()` -/

/-- the slots of `_vec12` that assigning `param` can make non-zero (for the similarity classes
    the replicated scale slots are included) -/
def slots (c : Cls) : List Nat := (setPairs c).map (·.1)

/-- all 12 natural parameters outside `inds` vanish -/
def Vec12.SupportedOn (v : Vec12) (inds : List Nat) : Prop :=
  ∀ i, i < 12 → i ∉ inds → v.get i = 0

/-- a rotation vector along `z` gives a matrix that keeps the `z` axis and the `xy` plane -/
theorem rotZ_block (rz : Rat) (g : Trig) :
    (rotationVec2Mat ⟨0, 0, rz⟩ g).a13 = 0 ∧ (rotationVec2Mat ⟨0, 0, rz⟩ g).a23 = 0 ∧
    (rotationVec2Mat ⟨0, 0, rz⟩ g).a31 = 0 ∧ (rotationVec2Mat ⟨0, 0, rz⟩ g).a32 = 0 := by
  unfold rotationVec2Mat
  split_ifs
  · simp [M3.one]
  · unfold rodrigues; m3_simp; simp
  · unfold taylorRot; m3_simp; simp

/-- *2D-restricted classes are 2D*: for `Affine2D`, `Rigid2D`, `Similarity2D` — with the
    `param_inds` / `_set_param` tables as the source has them — a transform whose parameters live
    in the slots `param` exposes maps the plane `z = 0` to itself and the `z` axis to itself,
    whatever the angle / scale data and the reflection flag -/
theorem class2d_planar (c : Cls) (h2 : c = .affine2d ∨ c = .rigid2d ∨ c = .similarity2d)
    (v : Vec12) (hsup : v.SupportedOn (slots c)) (direct : Bool) (e : Ext) :
    (asAffine v direct e).m.a13 = 0 ∧ (asAffine v direct e).m.a23 = 0 ∧
    (asAffine v direct e).m.a31 = 0 ∧ (asAffine v direct e).m.a32 = 0 ∧ (asAffine v direct e).t.z = 0 := by
  have hmax : (0 : Rat) ≤ maxDist := by unfold maxDist Gen.C08.maxDist; norm_num
  have ht : threshold 0 maxDist = 0 := threshold_id 0 maxDist (by linarith) hmax
  have key : v.p2 = 0 ∧ v.p3 = 0 ∧ v.p4 = 0 ∧ v.p9 = 0 ∧ v.p10 = 0 := by
    rcases h2 with rfl | rfl | rfl <;>
      exact ⟨hsup 2 (by norm_num) (by decide), hsup 3 (by norm_num) (by decide),
        hsup 4 (by norm_num) (by decide), hsup 9 (by norm_num) (by decide), hsup 10 (by norm_num) (by decide)⟩
  obtain ⟨h2z, h3, h4, h9, h10⟩ := key
  have hr : v.rotation = ⟨0, 0, v.p5⟩ := by simp [Vec12.rotation, h3, h4]
  have hq : v.preRotation = ⟨0, 0, v.p11⟩ := by simp [Vec12.preRotation, h9, h10]
  obtain ⟨r13, r23, r31, r32⟩ := rotZ_block v.p5 e.rot
  obtain ⟨q13, q23, q31, q32⟩ := rotZ_block v.p11 e.pre
  cases direct <;>
    simp only [asAffine, toMatrix44, hr, hq, if_true, if_false, Bool.false_eq_true, M3.mul, M3.diag, M3.neg, M3.smul, thresholdV,
      Vec12.translation, h2z, ht, r13, r23, r31, r32, q13, q23, q31, q32] <;>
    refine ⟨?_, ?_, ?_, ?_, trivial⟩ <;> ring

/-- *rigid classes are rigid*: with the tables as the source has them, a `Rigid` / `Rigid2D`
    whose parameters live in the exposed slots has an orthogonal linear part, for every function
    `f` standing for `exp ∘ threshold` with `f 0 = 1` (the log-scale and pre-rotation slots are
    not exposed, hence zero) -/
theorem rigid_orthogonal (c : Cls) (hc : c = .rigid ∨ c = .rigid2d) (v : Vec12)
    (hsup : v.SupportedOn (slots c)) (direct : Bool) (e : Ext) (f : Rat → Rat) (hf0 : f 0 = 1)
    (hR : M3.IsRotation (rotationVec2Mat v.rotation e.rot))
    (hs : e.scales = ⟨f v.p6, f v.p7, f v.p8⟩)
    (hpre : e.pre.theta * e.pre.theta = v.preRotation.dot v.preRotation) :
    (asAffine v direct e).m.transpose.mul (asAffine v direct e).m = M3.one := by
  have key : v.p6 = 0 ∧ v.p7 = 0 ∧ v.p8 = 0 ∧ v.p9 = 0 ∧ v.p10 = 0 ∧ v.p11 = 0 := by
    rcases hc with rfl | rfl <;>
      exact ⟨hsup 6 (by norm_num) (by decide), hsup 7 (by norm_num) (by decide), hsup 8 (by norm_num) (by decide),
        hsup 9 (by norm_num) (by decide), hsup 10 (by norm_num) (by decide), hsup 11 (by norm_num) (by decide)⟩
  obtain ⟨h6, h7, h8, h9, h10, h11⟩ := key
  have hq : v.preRotation = V3.zero := by simp [Vec12.preRotation, V3.zero, h9, h10, h11]
  have hpre0 : e.pre.theta = 0 := by
    rw [hq] at hpre; simp [V3.dot, V3.zero] at hpre; exact hpre
  rw [h6, h7, h8, hf0] at hs
  cases direct
  · simp only [asAffine, toMatrix44, hq, rotationVec2Mat_zero _ hpre0, hs, M3.diag_one_mul, M3.mul_one,
      M3.mul_diag_one, Bool.false_eq_true, if_false]
    exact orth_neg _ hR.1
  · simp only [asAffine, toMatrix44, hq, rotationVec2Mat_zero _ hpre0, hs, M3.diag_one_mul, M3.mul_one,
      M3.mul_diag_one, if_true]
    exact hR.1

/-- *similarity classes are similarities*: linear part `± f(log s)` times a rotation, the three
    scale slots holding the one replicated value `_set_param` writes -/
theorem similarity_conformal (c : Cls) (hc : c = .similarity ∨ c = .similarity2d) (v : Vec12)
    (hsup : v.SupportedOn (slots c)) (hrep : v.p6 = v.p7 ∧ v.p7 = v.p8) (direct : Bool) (e : Ext)
    (f : Rat → Rat) (hR : M3.IsRotation (rotationVec2Mat v.rotation e.rot))
    (hs : e.scales = ⟨f v.p6, f v.p7, f v.p8⟩)
    (hpre : e.pre.theta * e.pre.theta = v.preRotation.dot v.preRotation) :
    (asAffine v direct e).m.transpose.mul (asAffine v direct e).m = M3.smul (f v.p6 * f v.p6) M3.one := by
  have key : v.p9 = 0 ∧ v.p10 = 0 ∧ v.p11 = 0 := by
    rcases hc with rfl | rfl <;>
      exact ⟨hsup 9 (by norm_num) (by decide), hsup 10 (by norm_num) (by decide), hsup 11 (by norm_num) (by decide)⟩
  obtain ⟨h9, h10, h11⟩ := key
  have hq : v.preRotation = V3.zero := by simp [Vec12.preRotation, V3.zero, h9, h10, h11]
  have hpre0 : e.pre.theta = 0 := by
    rw [hq] at hpre; simp [V3.dot, V3.zero] at hpre; exact hpre
  rw [← hrep.2, ← hrep.1] at hs
  have hsm : ∀ (s : Rat) (a : M3), (M3.smul s a).transpose.mul (M3.smul s a) = M3.smul (s * s) (a.transpose.mul a) := by
    intro s a; apply M3.ext <;> m3_simp <;> ring
  cases direct
  · simp only [asAffine, toMatrix44, hq, rotationVec2Mat_zero _ hpre0, hs, M3.mul_diag_smul,
      Bool.false_eq_true, if_false]
    have : (M3.smul (f v.p6) (rotationVec2Mat v.rotation e.rot)).neg
        = M3.smul (f v.p6) (rotationVec2Mat v.rotation e.rot).neg := by apply M3.ext <;> m3_simp <;> ring
    rw [this, hsm, orth_neg _ hR.1]
  · simp only [asAffine, toMatrix44, hq, rotationVec2Mat_zero _ hpre0, hs, M3.mul_diag_smul, if_true]
    rw [hsm, hR.1]

/-- the preconditioner laid out as in the source has no zero entry for any non-zero radius and
    equal entries in the three scale slots (what `get_set_param` / `set_get_param` ask of it) -/
theorem preconditioner_ok (radius : Rat) (hr : radius ≠ 0) :
    (preconditioner radius).AllNonzero ∧ (preconditioner radius).p6 = (preconditioner radius).p7 ∧
      (preconditioner radius).p7 = (preconditioner radius).p8 := by
  have h1 : (1 : Rat) / radius ≠ 0 := one_div_ne_zero hr
  refine ⟨?_, rfl, rfl⟩
  unfold Vec12.AllNonzero preconditioner Vec12.ofFn
  simp [Gen.C08.precondInv, h1, hr]

/-! ## Non-vacuity: concrete objects meeting the hypotheses -/

example : exRot.IsRotation := by unfold M3.IsRotation; decide +kernel

/-- all certificates of the matrix → vector → matrix round trip hold for a concrete rotation
    (3-4-5 half angle about `z`), with rational stand-ins for the transcendental leaves -/
theorem exCert : RoundTripCert exRot exLeaves exTrig (4 / 5) (3 / 5) where
  leaves := {
    eig := by decide +kernel
    nonzero := by decide +kernel
    top := by
      intro v μ hv h
      rcases kApply_eigenvalues exRot (by unfold M3.IsRotation; decide +kernel) v μ hv h with h1 | h1 <;>
        rw [h1] <;> decide +kernel
    nq := by decide +kernel
    sN := by intro h; exact absurd rfl h
    len2 := by decide +kernel
    sL := by decide +kernel }
  axis := by decide +kernel
  acos := ⟨by decide +kernel, by norm_num, by norm_num, by decide +kernel⟩
  norm := by decide +kernel
  sin2 := by decide +kernel
  cos2 := by decide +kernel
  small := by decide +kernel
  big := by decide +kernel

example : rotationVec2Mat (rotationMat2Vec exLeaves) exTrig = exRot :=
  roundtrip_of_cert exRot (by unfold M3.IsRotation; decide +kernel) exLeaves exTrig _ _ exCert

/-- the hypotheses of `from_to_matrix44` are jointly satisfiable (a sheared, scaled matrix) -/
example : asAffine (affineFrom44 true exAff exF44).1 (affineFrom44 true exAff exF44).2 exExt = exAff :=
  from_to_matrix44 exAff exF44 exExt rfl (by decide +kernel) (by decide +kernel) (by decide +kernel)
    (by decide +kernel) (by decide +kernel) (4 / 5) (3 / 5) (4 / 5) (3 / 5)
    (by have h : (svdFix true exF44.U exF44.Vt).R = exRot := by decide +kernel
        rw [h]; exact exCert)
    (by have h : (svdFix true exF44.U exF44.Vt).Q = exRot := by decide +kernel
        rw [h]; exact exCert)
    rfl

/-- a rigid reflection (`−exRot`): hypotheses of `rigid_from_to_matrix44` hold -/
example : (⟨exRot.neg, ⟨1, 2, 3⟩⟩ : Aff).m.transpose.mul (⟨exRot.neg, ⟨1, 2, 3⟩⟩ : Aff).m = M3.one ∧
    (rigidFix true exRot.neg).1 = exRot ∧ (rigidFix true exRot.neg).2 = false := by decide +kernel

/-- a similarity: `2·exRot`, cube root 2 -/
example : ((M3.smul 2 exRot).sdiv 2).transpose.mul ((M3.smul 2 exRot).sdiv 2) = M3.one ∧
    (simFix true (M3.smul 2 exRot) 2).1 = exRot := by decide +kernel

/-- positive normalised polyaffine weights -/
example : (∀ wa ∈ [((1 : Rat) / 2, Aff.one), (1 / 4, Aff.one)], 0 ≤ wa.1) ∧
    0 < wtotal [((1 : Rat) / 2, Aff.one), (1 / 4, Aff.one)] := by
  constructor
  · intro wa h; simp at h; rcases h with rfl | rfl <;> norm_num
  · decide +kernel

/-- the clamp constants are positive and the weight total in the example is far above `TINY` -/
example : 0 < Gen.C08.tinyPoly ∧ Gen.C08.tinyPoly ≤ ([1 / 2, 1 / 4] : List Rat).sum := by decide +kernel

/-- a length-6 parameter vector with consistent angle data -/
example : ([1, 2, 3, 0, 0, 2] : List Rat).length = 6 ∧
    (2 : Rat) * 2 = (v3OfList (([1, 2, 3, 0, 0, 2] : List Rat).drop 3 |>.take 3)).dot
      (v3OfList (([1, 2, 3, 0, 0, 2] : List Rat).drop 3 |>.take 3)) := by decide +kernel

/-- a history with a refused step in the middle -/
example : ((Obj.fresh .rigid 100).run [.setTrans [1, 2, 3], .setRot [1, 2], .setParam [0, 0, 0, 0, 0, 0]]).1
    = ["ok", "error:valueError", "ok"] := by decide +kernel

/-- `ChainTransform` needs an optimisable part with `param` -/
example : (∃ r, chainInit (.xf (.aff .rigid Aff.one) true) .none (.arr Aff.one) = .ok r) ∧
    chainInit (.xf (.gen genAbs) false) .none .none = .error "error:valueError" := ⟨⟨_, rfl⟩, rfl⟩

/-- parameters of a `Rigid2D` in its exposed slots -/
example : (⟨1, 2, 0, 0, 0, 3, 0, 0, 0, 0, 0, 0⟩ : Vec12).SupportedOn (slots .rigid2d) := by
  intro i hi hn
  have : i = 2 ∨ i = 3 ∨ i = 4 ∨ i = 6 ∨ i = 7 ∨ i = 8 ∨ i = 9 ∨ i = 10 ∨ i = 11 := by
    simp [slots, setPairs, paramInds, Gen.C08.indsRigid2D, List.zip, List.range, List.range.loop] at hn
    omega
  rcases this with h | h | h | h | h | h | h | h | h <;> subst h <;> rfl

example : (asAffine (Obj.fresh .affine 100).v true ⟨⟨0, 0, 1⟩, ⟨1, 1, 1⟩, ⟨0, 0, 1⟩⟩).inv = some Aff.one ∧
    ((Obj.fresh .rigid 100).run [.pickle, .inv ⟨⟨0, 0, 1⟩, ⟨1, 1, 1⟩, ⟨0, 0, 1⟩⟩ noF44, .copy]).1 = ["ok", "ok", "ok"] := by
  decide +kernel

end NipyVerif.C08
